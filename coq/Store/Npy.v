(** Model of [elfi.store.NpyArray] / [ArrayStore] / [NpyStore] over a buffered file (C06).

    The OS file is [disk]: the 12-byte prefix (magic, version, HLEN) present or not, the number of
    rows declared by the header dict on disk ([None] before [init_from_array]), and the data region
    as a list of rows.  The Python file object adds a user-space write buffer: the FIFO list of
    pending low-level writes.  A kill ([os._exit]) loses the buffer and keeps the disk.

    Every store operation expands, as coded, into a list of low-level file operations [lop].
    CPython's buffered file (probed): a small [write] stays in the buffer; [seek] commits pending
    writes (except when it stays inside a valid read buffer); a write that does not fit commits the
    older ones, a write larger than the buffer is committed itself; [seek(0,2)], [truncate],
    [flush], [close] commit everything.  All of this is covered by one oracle: at every [LSeek] and
    every write, [o step] pending writes (oldest first) reach the disk.  Theorems hold for all [o].

    [variant] selects the order of operations of two historical versions of the code:
    [v_hdr_first] = [NpyArray.truncate] writes and flushes the shorter header before cutting the
    file (commit 512d83b), [v_set_flush] = [NpyArray.__setitem__] flushes a pending header before
    writing through the memmap (commit a488af9); [v_set_hdr] (only read when [v_set_flush] is off)
    = [__setitem__] hands the pending header to the file object ([_write_header_data]) without
    flushing it, an order of operations that was never in the code and is refuted in
    Properties/C06.v: whether it is safe depends on whether an earlier *read* already created the
    memmap.  [current] is the code as it is now.

    Queries are operations of a history like the others: [Read i] ([store[i]]) leaves the content
    alone but creates the memmap when there is none ([fid.seek(0, 2)] inside [numpy.memmap]: commits
    everything pending, and later writes through [__setitem__] no longer pass through that seek);
    [Query] ([len(store)], [i in store], [len(store.array)]) touches neither the file nor the
    object.  Kill points are numbered over *all* low-level operations, memmap writes included.

    Memory layouts.  The batch handed to [store[i] = a] is an n-dimensional array in whatever
    memory layout the caller has it: C order, Fortran order, a transposed view, every second
    element of a wider buffer, negative strides, a window at an offset, a broadcast row, read-only
    ... -- [Store/Layout.v]: shape + one stride per axis + offset into a buffer of element codes
    (code = the integer of the element's bytes in the store's dtype, so every dtype is covered).
    [NpyArray.append] writes [array.tobytes('C')], [__setitem__] assigns through a row-major memmap:
    both store the array's LOGICAL content, [nd_rows a] = row [r], cell at the row-major position of
    [idx] = [a[r, idx]], whatever the strides.  The histories the harness supplies are lists of
    [iop]: [IArr i good a] carries the array as (shape, strides, offset, buffer) and is lowered to
    [Set_ i good (nd_rows a)]; the specification ([spec]) therefore holds the logical content of
    what was handed in, and the low-level trace, the reports after every operation, numpy.load after
    every flush and the file left by every kill are all compared with it.                        *)
From Coq Require Import List NArith ZArith Arith Bool.
From Elfi Require Import Store.Layout.
Import ListNotations.

Definition row := list N.          (* one row: its cells, each the integer of the item's raw bytes *)
Definition batch := list row.      (* [batch_size] rows *)

Inductive lop :=
| LOpen (creat : bool)             (* open(filename, 'w+b') / open(filename, 'r+b') *)
| LSeek                            (* fs.seek(pos) *)
| LSeekEnd                         (* fid.seek(0, 2) inside numpy.memmap(...) : always commits *)
| LWritePrefix                     (* first 12 bytes of the oversized header *)
| LWriteHeader (n : nat)           (* padded header dict declaring shape[0] = n, at offset 12 *)
| LWriteData (at_row : nat) (rows : list row)   (* array.tobytes() at header_length + at_row*rowbytes *)
| LTruncate (n : nat)              (* fs.truncate() at header_length + n*rowbytes *)
| LFlush
| LClose
| LMemWrite (at_row : nat) (rows : list row).   (* memmap[sl] = value : page cache, no buffer *)

Record disk := { d_prefix : bool; d_hdr : option nat; d_data : list row }.
Record file := { f_disk : disk; f_buf : list lop }.

Definition empty_disk := {| d_prefix := false; d_hdr := None; d_data := [] |}.
Definition empty_file := {| f_disk := empty_disk; f_buf := [] |}.

Definition set_data (d : disk) (x : list row) := {| d_prefix := d_prefix d; d_hdr := d_hdr d; d_data := x |}.

(** bytes written at row [r]; holes never occur (invariant [r <= length data]) *)
Definition write_at (r : nat) (rows data : list row) : list row :=
  firstn r data ++ rows ++ skipn (r + length rows) data.

Definition commit1 (d : disk) (w : lop) : disk :=
  match w with
  | LWritePrefix => {| d_prefix := true; d_hdr := d_hdr d; d_data := d_data d |}
  | LWriteHeader n => {| d_prefix := d_prefix d; d_hdr := Some n; d_data := d_data d |}
  | LWriteData r rows => set_data d (write_at r rows (d_data d))
  | _ => d
  end.

Definition commit (ws : list lop) (d : disk) : disk := fold_left commit1 ws d.

(** what [numpy.load] returns: the first [hdr] rows if the data region holds that many
    (trailing bytes are ignored), otherwise an error *)
Definition loads (d : disk) : option (list row) :=
  if d_prefix d then
    match d_hdr d with
    | Some n => if n <=? length (d_data d) then Some (firstn n (d_data d)) else None
    | None => None
    end
  else None.

(** [read_array_header_2_0] *)
Definition read_header (d : disk) : option nat := if d_prefix d then d_hdr d else None.

Definition oracle := nat -> nat.

Definition take_commit (k : nat) (f : file) : file :=
  {| f_disk := commit (firstn k (f_buf f)) (f_disk f); f_buf := skipn k (f_buf f) |}.

Definition flush_all (f : file) : file := {| f_disk := commit (f_buf f) (f_disk f); f_buf := [] |}.

(** the file as the process itself sees it (all pending writes applied) *)
Definition full (f : file) : disk := commit (f_buf f) (f_disk f).

Definition lstep (k : nat) (op : lop) (f : file) : file :=
  match op with
  | LOpen true => empty_file
  | LOpen false => f
  | LSeek => take_commit k f
  | LSeekEnd | LFlush | LClose => flush_all f
  | LWritePrefix | LWriteHeader _ | LWriteData _ _ =>
      take_commit k {| f_disk := f_disk f; f_buf := f_buf f ++ [op] |}
  | LTruncate n => let g := flush_all f in
      {| f_disk := set_data (f_disk g) (firstn n (d_data (f_disk g))); f_buf := [] |}
  | LMemWrite r rows => {| f_disk := set_data (f_disk f) (write_at r rows (d_data (f_disk f))); f_buf := f_buf f |}
  end.

Fixpoint lexec (o : oracle) (i : nat) (l : list lop) (f : file) : file :=
  match l with
  | [] => f
  | op :: r => lexec o (S i) r (lstep (o i) op f)
  end.

(** ---- the Python objects ---- *)

Record mem := {
  m_init : bool;            (* NpyArray.header_length is not None *)
  m_closed : bool;          (* NpyArray.fs.closed *)
  m_rows : nat;             (* NpyArray.shape[0] *)
  m_pend : option nat;      (* _header_bytes_to_write: a prepared header declaring that many rows *)
  m_mmap : bool;            (* _memmap is not None *)
  m_nb : nat                (* ArrayStore.n_batches *)
}.

Definition fresh_mem := {| m_init := false; m_closed := false; m_rows := 0; m_pend := None; m_mmap := false; m_nb := 0 |}.

Record variant := { v_hdr_first : bool; v_set_flush : bool; v_set_hdr : bool }.
Definition current := {| v_hdr_first := true; v_set_flush := true; v_set_hdr := false |}.
Definition old_truncate := {| v_hdr_first := false; v_set_flush := true; v_set_hdr := false |}.
Definition old_setitem := {| v_hdr_first := true; v_set_flush := false; v_set_hdr := false |}.
(** hypothetical: the pending header is written into the file object's buffer, not flushed *)
Definition unflushed_setitem := {| v_hdr_first := true; v_set_flush := false; v_set_hdr := true |}.

Definition initialized (m : mem) : bool := m_init m && negb (m_closed m).

Definition upd (m : mem) (rows : nat) (pend : option nat) (mm : bool) : mem :=
  {| m_init := m_init m; m_closed := m_closed m; m_rows := rows; m_pend := pend; m_mmap := mm; m_nb := m_nb m |}.

Definition set_nb (m : mem) (nb : nat) : mem :=
  {| m_init := m_init m; m_closed := m_closed m; m_rows := m_rows m; m_pend := m_pend m; m_mmap := m_mmap m; m_nb := nb |}.

(** [_write_header_data] *)
Definition arr_write_header (m : mem) : list lop * mem :=
  match m_pend m with
  | Some n => ([LSeek; LWriteHeader n], upd m (m_rows m) None (m_mmap m))
  | None => ([], m)
  end.

(** [NpyArray.flush]: header, then fs.flush() (raises on a closed file) *)
Definition arr_flush (m : mem) : list lop * mem * bool :=
  if m_closed m then ([], m, true) else
  let '(l, m1) := arr_write_header m in (l ++ [LFlush], m1, false).

(** [NpyArray.append]; [good] = the batch has the row shape and dtype of the array *)
Definition arr_append (m : mem) (good : bool) (b : batch) : list lop * mem * bool :=
  if m_closed m then ([], m, true) else
  if m_init m && negb good then ([], m, true) else
  let '(l0, m0) :=
    if m_init m then ([], m)
    else ([LSeek; LWritePrefix; LSeek; LWriteHeader 0],        (* init_from_array *)
          {| m_init := true; m_closed := false; m_rows := 0; m_pend := None; m_mmap := m_mmap m; m_nb := m_nb m |}) in
  let n := m_rows m0 + length b in
  (l0 ++ [LSeek; LWriteData (m_rows m0) b], upd m0 n (Some n) false, false).

(** [NpyArray.truncate] *)
Definition arr_truncate (v : variant) (m : mem) (n : nat) : list lop * mem * bool :=
  if negb (initialized m) then ([], m, true) else
  let shrinking := n <? m_rows m in
  let m1 := upd m n (Some n) (m_mmap m) in
  let '(l1, m2) :=
    if v_hdr_first v && shrinking
    then (let '(l, m') := arr_write_header m1 in (l ++ [LFlush], m'))
    else ([], m1) in
  (l1 ++ [LSeek; LTruncate n], upd m2 (m_rows m2) (m_pend m2) false, false).

(** the [memmap] property: [None] = IndexError *)
Definition arr_memmap (m : mem) : option (list lop * mem) :=
  if negb (initialized m) then None else
  if m_mmap m then Some ([], m) else Some ([LSeekEnd], upd m (m_rows m) (m_pend m) true).

(** [NpyArray.__setitem__] *)
Definition arr_setitem (v : variant) (m : mem) (r : nat) (b : batch) : option (list lop * mem) :=
  let '(l0, m0, e0) :=
    match m_pend m with
    | Some _ => if v_set_flush v then arr_flush m
                else if v_set_hdr v then (let '(l, m') := arr_write_header m in (l, m', false))
                else ([], m, false)
    | None => ([], m, false)
    end in
  if e0 then None else
  match arr_memmap m0 with
  | None => None
  | Some (l1, m1) => Some (l0 ++ l1 ++ [LMemWrite r b], m1)
  end.

(** [NpyArray.close] *)
Definition arr_close (m : mem) : list lop * mem :=
  if initialized m then
    let '(l, m1) := arr_write_header m in
    (l ++ [LClose], {| m_init := m_init m1; m_closed := true; m_rows := m_rows m1; m_pend := m_pend m1; m_mmap := false; m_nb := m_nb m1 |})
  else ([], m).

(** ---- store operations ---- *)

Inductive hop :=
| Set_ (i : nat) (good : bool) (b : batch)   (* store[i] = b : append or overwrite *)
| Del (i : nat)                              (* del store[i] *)
| Clear
| Flush
| Close
| Reopen                                     (* store.close(); store = NpyStore(filename, batch_size) *)
| Pickle                                     (* store = pickle.loads(pickle.dumps(store)) (old object dropped) *)
| Open (k : nat)                             (* store.close(); store = NpyStore(filename, batch_size, n_batches=k):
                                                a store that exposes the first k batches of the file *)
| Read (i : nat)                             (* store[i]: creates the memmap if there is none *)
| Query.                                     (* len(store), i in store, len(store.array): no file operation, no state change *)

Definition err (m : mem) : list lop * mem * bool := ([], m, true).

(** ---- the batch as the caller hands it in: a strided window into a buffer ---- *)

(** an element outside the buffer cannot occur for a well-formed description ([nd_inb]) *)
Definition code (x : option Z) : N := match x with Some z => Z.to_N z | None => 0%N end.

(** logical content by rows: row [r] = the elements [a[r, idx]], [idx] in row-major order *)
Definition nd_rows (a : ndarray) : batch :=
  match nd_shape a with
  | [] => []
  | n :: rs => map (fun r => map (fun idx => code (elem a (r :: idx))) (c_indices rs)) (seq 0 n)
  end.

(** the window stays inside its buffer and the element codes are non-negative *)
Definition nd_inb (a : ndarray) : bool :=
  forallb (fun x => match x with Some z => (0 <=? z)%Z | None => false end) (tobytes_C a).

(** history operations as the caller issues them *)
Inductive iop :=
| IArr (i : nat) (good : bool) (a : ndarray)   (* store[i] = a;  [good] = a has the row shape and dtype of the store *)
| IOp (op : hop).

Definition lower (x : iop) : hop :=
  match x with IArr i g a => Set_ i g (nd_rows a) | IOp op => op end.

(** the multi-indices of a shape in column-major order (first axis fastest): the order in which
    [tobytes('A')] / [tobytes('F')] emit a Fortran-contiguous array.  Only used by the example in
    Properties/C06.v that shows why the serialisation must not follow the memory order. *)
Definition f_indices (shape : list nat) : list (list nat) := map (@rev nat) (c_indices (rev shape)).
Definition tobytes_F (a : ndarray) : list (option Z) := map (elem a) (f_indices (nd_shape a)).

Definition iop_inb (x : iop) : bool := match x with IArr _ _ a => nd_inb a | IOp _ => true end.

(** [NpyStore.__setitem__] / [ArrayStore.__setitem__] *)
Definition st_set (v : variant) (bs : nat) (m : mem) (i : nat) (good : bool) (b : batch) : list lop * mem * bool :=
  if (i =? m_nb m) && (bs * i =? m_rows m) then
    let '(l, m1, e) := arr_append m good b in
    if e then (l, m1, true) else (l, set_nb m1 (m_nb m1 + 1), false)
  else if m_nb m <? i then err m
  else if m_rows m <? bs * i + bs then err m
  else match arr_setitem v m (bs * i) b with
       | None => err m
       | Some (l, m1) => (l, if i =? m_nb m1 then set_nb m1 (m_nb m1 + 1) else m1, false)
       end.

(** [NpyStore.__delitem__]: n_batches is decremented before [truncate] can raise *)
Definition st_del (v : variant) (bs : nat) (m : mem) (i : nat) : list lop * mem * bool :=
  if negb (i <? m_nb m) then err m
  else if negb (i =? m_nb m - 1) then err m
  else let m1 := set_nb m (m_nb m - 1) in arr_truncate v m1 (bs * i).

Definition st_clear (v : variant) (m : mem) : list lop * mem * bool :=
  let '(l, m1, e) := arr_truncate v m 0 in
  if e then (l, m1, true) else (l, set_nb m1 0, false).

Definition st_read (m : mem) : list lop * mem * bool :=
  match arr_memmap m with None => err m | Some (l, m1) => (l, m1, false) end.

Definition expand (v : variant) (bs : nat) (m : mem) (op : hop) : list lop * mem * bool :=
  match op with
  | Set_ i good b => st_set v bs m i good b
  | Del i => st_del v bs m i
  | Clear => st_clear v m
  | Flush => arr_flush m
  | Close => let '(l, m1) := arr_close m in (l, m1, false)
  | Read _ => st_read m
  | Query => ([], m, false)
  | Reopen | Pickle | Open _ => ([], m, false)      (* two-phase, see [hstep] *)
  end.

(** [NpyArray.__init__] on an existing file, [ArrayStore.__init__] *)
Definition opened (bs : nat) (h : nat) (nb : option nat) : mem :=
  {| m_init := true; m_closed := false; m_rows := h; m_pend := None; m_mmap := false;
     m_nb := match nb with Some n => n | None => h / bs end |}.

Record hres := { r_mem : mem; r_file : file; r_lops : list lop; r_err : bool }.

Definition hstep (v : variant) (bs : nat) (o : oracle) (i : nat) (m : mem) (f : file) (op : hop) : hres :=
  match op with
  | Reopen =>
      let '(l0, m1) := arr_close m in
      let l1 := l0 ++ [LOpen false; LSeek] in
      let f1 := lexec o i l1 f in
      match read_header (f_disk f1) with
      | Some h => {| r_mem := opened bs h None; r_file := f1; r_lops := l1; r_err := false |}
      | None => {| r_mem := m1; r_file := f1; r_lops := l1; r_err := true |}
      end
  | Open k =>                                       (* as [Reopen], with the documented argument n_batches=k *)
      let '(l0, m1) := arr_close m in
      let l1 := l0 ++ [LOpen false; LSeek] in
      let f1 := lexec o i l1 f in
      match read_header (f_disk f1) with
      | Some h => {| r_mem := opened bs h (Some k); r_file := f1; r_lops := l1; r_err := false |}
      | None => {| r_mem := m1; r_file := f1; r_lops := l1; r_err := true |}
      end
  | Pickle =>
      let '(l0, m1, _) := if m_closed m then ([], m, false) else arr_flush m in   (* __getstate__ *)
      let l1 := l0 ++ [LOpen false; LSeek] in                                     (* __setstate__ *)
      let f1 := lexec o i l1 f in
      match read_header (f_disk f1) with
      | Some h =>
          let '(l2, _) := arr_close m1 in                                         (* old object's __del__ *)
          {| r_mem := opened bs h (Some (m_nb m)); r_file := lexec o (i + length l1) l2 f1;
             r_lops := l1 ++ l2; r_err := false |}
      | None => {| r_mem := m1; r_file := f1; r_lops := l1; r_err := true |}
      end
  | _ => let '(l, m1, e) := expand v bs m op in
         {| r_mem := m1; r_file := lexec o i l f; r_lops := l; r_err := e |}
  end.

(** state after a history: memory, file, number of low-level operations so far *)
Fixpoint run (v : variant) (bs : nat) (o : oracle) (i : nat) (m : mem) (f : file) (ops : list hop) : mem * file * nat :=
  match ops with
  | [] => (m, f, i)
  | op :: r => let h := hstep v bs o i m f op in
               run v bs o (i + length (r_lops h)) (r_mem h) (r_file h) r
  end.

(** a fresh store: [NpyStore(filename, bs)] on a file that does not exist (one [LOpen true]) *)
Definition start (v : variant) (bs : nat) (o : oracle) (ops : list hop) : mem * file * nat :=
  run v bs o 1 fresh_mem empty_file ops.

(** the disk left by a kill after all of [ops] and then [j] low-level operations of [op] *)
Definition crash_disk (v : variant) (bs : nat) (o : oracle) (ops : list hop) (op : hop) (j : nat) : disk :=
  let '(m, f, i) := start v bs o ops in
  f_disk (lexec o i (firstn j (r_lops (hstep v bs o i m f op))) f).

(** what the store reports: [len(store)] and [store[i]] for [i < len(store)] (through the memmap,
    i.e. the file with everything pending applied); [None] when the array is closed/uninitialised *)
Definition slice (bs i : nat) (data : list row) : batch := firstn bs (skipn (bs * i) data).

Definition view (bs : nat) (m : mem) (f : file) : nat * option (list batch) :=
  (m_nb m,
   if (m_nb m =? 0) || initialized m
   then Some (map (fun i => slice bs i (d_data (full f))) (seq 0 (m_nb m))) else None).

(** ---- abstract specification: a Python list of batches ---- *)

Fixpoint replace {A} (i : nat) (x : A) (l : list A) : list A :=
  match l, i with
  | [], _ => []
  | _ :: r, O => x :: r
  | y :: r, S k => y :: replace k x r
  end.

Definition spec_step (l : list batch) (op : hop) : list batch :=
  match op with
  | Set_ i good b =>
      if i =? length l then l ++ [b] else if i <? length l then replace i b l else l
  | Del i => if (0 <? length l) && (i =? length l - 1) then removelast l else l
  | Clear => []
  | Open k => firstn k l       (* the visible list only; the batches hidden in the file are tracked by [pspec_step] *)
  | _ => l
  end.

Definition spec (ops : list hop) : list batch := fold_left spec_step ops [].

(** ---- prefix stores ----
    [Open k] gives a store whose [n_batches] is smaller than the number of batches in the file.
    The in-memory list alone no longer determines what later operations do ([Reopen] shows the
    hidden batches again), so the specification state is the pair (batches physically in the file,
    n_batches); the store must report [visible] = the first [n_batches] of them.  A write at index
    [n_batches] replaces the hidden batch at that place (it must land at rows [k*bs, (k+1)*bs), not at
    the end of the file) and makes it visible; only when nothing is hidden does it append.
    [C06_prefix_visible] (Properties/C06.v) shows that, between two [Reopen]/[Open], [visible] evolves
    exactly as the plain list of batches under [spec_step]. *)
Definition pstate := (list batch * nat)%type.

Definition visible (s : pstate) : list batch := firstn (snd s) (fst s).

Definition pspec_step (s : pstate) (op : hop) : pstate :=
  let '(P, n) := s in
  match op with
  | Set_ i good b =>
      if n <? i then s
      else if i =? length P then (P ++ [b], S n)
      else (replace i b P, if i =? n then S n else n)
  | Del i => if (0 <? n) && (i =? n - 1) then (firstn i P, i) else s
  | Clear => ([], 0)
  | Reopen => (P, length P)
  | Open k => (P, k)
  | _ => s
  end.

Definition pspec (ops : list hop) : pstate := fold_left pspec_step ops ([], 0).

(** ---- correspondence-check interface ---- *)

Definition is_flush (op : hop) : bool :=
  match op with Flush | Close | Reopen | Pickle => true | _ => false end.

(** observation after one operation of the no-crash run: did it raise, [len(store)], the batches
    [store[0..len)] ([None]: reading raised), and for flush-like operations what [numpy.load]
    returned for the file at that moment *)
Record obs := {
  o_err : bool;
  o_len : nat;
  o_batches : option (list batch);
  o_load : option (option (list row))
}.

Record case := {
  c_variant : variant;               (* always [current] from the harness *)
  c_bs : nat;
  c_in : list iop;                    (* the history; arrays as (shape, strides, offset, buffer) *)
  c_trace : list (list lop);          (* plain run: low-level operations issued by each store operation *)
  c_obs : list obs;                   (* observing run: after each operation *)
  c_trace_obs : list (list lop);      (* observing run: low-level operations of each op and of the reads that follow it *)
  c_oracle : list nat;                (* CPython's buffer behaviour for the plain run, per low-level operation *)
  c_crash : list (nat * option (list row))   (* kill on entering low-level operation number k (k done; memmap writes are numbered too): numpy.load of the file *)
}.

(** the history the model and the specification run on: every array replaced by its logical content *)
Definition c_ops (c : case) : list hop := map lower (c_in c).

Definition eqb_row (a b : row) : bool := if list_eq_dec N.eq_dec a b then true else false.
Definition eqb_rows (a b : list row) : bool := if list_eq_dec (list_eq_dec N.eq_dec) a b then true else false.
Definition eqb_batches (a b : list batch) : bool :=
  if list_eq_dec (list_eq_dec (list_eq_dec N.eq_dec)) a b then true else false.

Definition eqb_lop (a b : lop) : bool :=
  match a, b with
  | LOpen x, LOpen y => Bool.eqb x y
  | LSeek, LSeek | LSeekEnd, LSeekEnd | LWritePrefix, LWritePrefix | LFlush, LFlush | LClose, LClose => true
  | LWriteHeader n, LWriteHeader k => n =? k
  | LTruncate n, LTruncate k => n =? k
  | LWriteData r x, LWriteData s y => (r =? s) && eqb_rows x y
  | LMemWrite r x, LMemWrite s y => (r =? s) && eqb_rows x y
  | _, _ => false
  end.

Fixpoint eqb_list {A B} (e : A -> B -> bool) (a : list A) (b : list B) : bool :=
  match a, b with
  | [], [] => true
  | x :: a', y :: b' => e x y && eqb_list e a' b'
  | _, _ => false
  end.

Definition oracle_of (l : list nat) : oracle := fun i => nth i l 0.

(** plain run of the model: per operation (low-level ops, error flag) *)
Fixpoint run_trace (v : variant) (bs : nat) (o : oracle) (i : nat) (m : mem) (f : file) (ops : list hop)
  : list (list lop * bool) :=
  match ops with
  | [] => []
  | op :: r => let h := hstep v bs o i m f op in
               (r_lops h, r_err h) :: run_trace v bs o (i + length (r_lops h)) (r_mem h) (r_file h) r
  end.

(** the reads the observing run performs after an operation: [store[i]] for [i < len(store)] *)
Fixpoint read_all (v : variant) (bs : nat) (o : oracle) (i : nat) (m : mem) (f : file) (n k : nat)
  : mem * file * list lop * bool :=
  match n with
  | O => (m, f, [], false)
  | S n' => let h := hstep v bs o i m f (Read k) in
            let '(m2, f2, l2, e2) := read_all v bs o (i + length (r_lops h)) (r_mem h) (r_file h) n' (S k) in
            (m2, f2, r_lops h ++ l2, r_err h || e2)
  end.

(** observing run of the model: (ops issued, error flag, reported view, disk) after each operation *)
Fixpoint run_obs (v : variant) (bs : nat) (o : oracle) (i : nat) (m : mem) (f : file) (ops : list hop)
  : list (list lop * bool * (nat * option (list batch)) * disk) :=
  match ops with
  | [] => []
  | op :: r =>
      let h := hstep v bs o i m f op in
      let d := f_disk (r_file h) in
      let i1 := i + length (r_lops h) in
      let '(m2, f2, l2, e2) := read_all v bs o i1 (r_mem h) (r_file h) (m_nb (r_mem h)) 0 in
      (r_lops h ++ l2, r_err h, view bs m2 f2, d)
        :: run_obs v bs o (i1 + length l2) m2 f2 r
  end.

Definition eqb_opt {A} (e : A -> A -> bool) (a b : option A) : bool :=
  match a, b with Some x, Some y => e x y | None, None => true | _, _ => false end.

Definition agree_obs1 (op : hop) (mo : list lop * bool * (nat * option (list batch)) * disk) (ob : obs) (tr : list lop) : bool :=
  let '(l, e, (n, bt), d) := mo in
  eqb_list eqb_lop l tr && Bool.eqb e (o_err ob) && (n =? o_len ob) && eqb_opt eqb_batches bt (o_batches ob)
  && match o_load ob with
     | Some x => eqb_opt eqb_rows (loads d) x
     | None => true
     end.

Fixpoint agree_obs (ops : list hop) (mo : list (list lop * bool * (nat * option (list batch)) * disk))
         (obs : list obs) (tr : list (list lop)) : bool :=
  match ops, mo, obs, tr with
  | [], [], [], [] => true
  | op :: ops', x :: mo', ob :: obs', t :: tr' => agree_obs1 op x ob t && agree_obs ops' mo' obs' tr'
  | _, _, _, _ => false
  end.

(** the model's disk after the first [k] low-level operations of the plain run (the opening
    [LOpen true] is number 0) *)
Definition all_lops (v : variant) (bs : nat) (o : oracle) (ops : list hop) : list lop :=
  LOpen true :: concat (map fst (run_trace v bs o 1 fresh_mem empty_file ops)).

(** The interposer numbers every low-level operation: those on the file object and the writes
    through the memmap (the mapping handed to [NpyArray] ticks the same counter before it stores).
    A kill "at operation number k" happens on entering it: operations [0..k) are done, so every
    state the file goes through is a kill point, the one right after a memmap write and the one
    at the end of a history that neither flushes nor closes included ([k] = total). *)
Definition disk_at (v : variant) (bs : nat) (o : oracle) (ops : list hop) (k : nat) : disk :=
  f_disk (lexec o 0 (firstn k (all_lops v bs o ops)) empty_file).

Definition agree (c : case) : bool :=
  let v := c_variant c in
  let o := oracle_of (c_oracle c) in
  forallb iop_inb (c_in c)
  && eqb_list (fun a b => eqb_list eqb_lop (fst a) b) (run_trace v (c_bs c) o 1 fresh_mem empty_file (c_ops c)) (c_trace c)
  && agree_obs (c_ops c) (run_obs v (c_bs c) (fun _ => 0) 1 fresh_mem empty_file (c_ops c)) (c_obs c) (c_trace_obs c)
  && forallb (fun kc => eqb_opt eqb_rows (loads (disk_at v (c_bs c) o (c_ops c) (fst kc))) (snd kc)) (c_crash c).

(** ---- the property's own decidable statement, on the implementation's outputs ---- *)

Definition flat (l : list batch) : list row := concat l.

(** contents of the in-memory sequence after each prefix of the history: [contents ops] has
    [length ops + 1] entries, entry [t] = after [t] operations *)
Fixpoint contents_from (l : list batch) (ops : list hop) : list (list batch) :=
  l :: match ops with [] => [] | op :: r => contents_from (spec_step l op) r end.
Definition contents (ops : list hop) : list (list batch) := contents_from [] ops.

(** reports: an operation that did not raise leaves exactly the batches of the in-memory sequence;
    flush-like operations leave a file that loads to them.  (Operations after [Close] are outside
    the property: the check stops at the first successful [Close].) *)
Fixpoint ok_reports (l : list batch) (ops : list hop) (obs : list obs) : bool :=
  match ops, obs with
  | [], _ => true
  | op :: ops', ob :: obs' =>
      let l' := if o_err ob then l else spec_step l op in
      (o_len ob =? length l')
      && match o_batches ob with
         | Some bt => eqb_batches bt l'
         | None => match op with Close => negb (o_err ob) | _ => false end
         end
      && match o_load ob with
         | Some x => o_err ob || eqb_opt eqb_rows x (Some (flat l'))
         | None => true
         end
      && match op with Close => true | _ => ok_reports l' ops' obs' end
  | _, [] => false
  end.

(** the observed low-level operations tagged with the index of the store operation that issued
    them and whether they are that operation's last one *)
Fixpoint tag_one (t : nat) (l : list lop) : list (nat * bool * lop) :=
  match l with
  | [] => []
  | [x] => [(t, true, x)]
  | x :: r => (t, false, x) :: tag_one t r
  end.

Fixpoint tag (t : nat) (tr : list (list lop)) : list (nat * bool * lop) :=
  match tr with [] => [] | l :: r => tag_one t l ++ tag (S t) r end.

(** the last low-level operation executed before a kill at operation [k]: index of the store
    operation in progress, and whether it is complete *)
Fixpoint last_exec (k : nat) (l : list (nat * bool * lop)) (acc : option (nat * bool)) : option (nat * bool) :=
  match l with
  | [] => acc
  | (t, d, op) :: r => match k with O => acc | S k' => last_exec k' r (Some (t, d)) end
  end.

(** the last flush-like operation that has completed when the kill happens, provided the store was
    initialised by then ([contents] non-empty or an earlier successful append) *)
Fixpoint last_flush (ops : list hop) (errs : list bool) (t : nat) (done : bool) (idx : nat) (seen_init : bool) (acc : option nat) : option nat :=
  match ops, errs with
  | op :: ops', e :: errs' =>
      let seen_init' := seen_init || (match op with Set_ _ _ _ => negb e | _ => false end) in
      let complete := (idx <? t) || ((idx =? t) && done) in
      if negb (idx <=? t) then acc else
      let acc' := if is_flush op && negb e && complete && seen_init' then Some idx else acc in
      last_flush ops' errs' t done (S idx) seen_init' acc'
  | _, _ => acc
  end.

(** contents of the in-memory sequence after each operation (entry [t] = after [t] operations),
    an operation that raised leaves it unchanged *)
Fixpoint spec_errs (l : list batch) (ops : list hop) (errs : list bool) : list (list batch) :=
  l :: match ops, errs with
       | op :: r, e :: s => spec_errs (if e then l else spec_step l op) r s
       | _, _ => []
       end.

(** kill after [k] low-level operations: the file loads to the content after one of the
    operations [f..t], [f] the last completed flush, [t] the operation in progress *)
Definition ok_crash1 (ops : list hop) (errs : list bool) (cont : list (list batch)) (tg : list (nat * bool * lop)) (kc : nat * option (list row)) : bool :=
  match last_exec (fst kc - 1) tg None with       (* the opening LOpen is operation 0 *)
  | None => true
  | Some (t, done) =>
      match last_flush ops errs t done 0 false None with
      | None => true
      | Some f =>
          match snd kc with
          | None => false
          | Some c => existsb (fun l => eqb_rows c (flat l)) (firstn (t - f + 1) (skipn (S f) cont))
          end
      end
  end.

Definition stops_at_close (ops : list hop) : bool :=
  match ops with [] => true | _ => forallb (fun op => match op with Close => false | _ => true end) (removelast ops) end.

Definition is_open (op : hop) : bool := match op with Open _ => true | _ => false end.
Definition has_open (ops : list hop) : bool := existsb is_open ops.

(** reports of a history with [Open]: [len(store)] and the batches are [visible] of the
    specification state; after a flush-like operation (and after [Open], which closes the file)
    the file loads to all the batches physically in it *)
Fixpoint okp_reports (s : pstate) (ops : list hop) (obs : list obs) : bool :=
  match ops, obs with
  | [], _ => true
  | op :: ops', ob :: obs' =>
      let s' := if o_err ob then s else pspec_step s op in
      (o_len ob =? snd s')
      && match o_batches ob with
         | Some bt => eqb_batches bt (visible s')
         | None => match op with Close => negb (o_err ob) | _ => false end
         end
      && match o_load ob with
         | Some x => o_err ob || eqb_opt eqb_rows x (Some (flat (fst s')))
         | None => true
         end
      && match op with Close => true | _ => okp_reports s' ops' obs' end
  | _, [] => false
  end.

(** Histories with [Open] are judged on their reports only (the crash clause below speaks of the
    contents of the in-memory list, which a file with hidden batches does not load to; the crash
    points of such histories are still compared with the model by [agree]). *)
Definition ok (c : case) : bool :=
  if has_open (c_ops c) then okp_reports ([], 0) (c_ops c) (c_obs c) else
  ok_reports [] (c_ops c) (c_obs c)
  && (negb (stops_at_close (c_ops c))
      || let errs := map o_err (c_obs c) in
         let cont := spec_errs [] (c_ops c) errs in
         forallb (ok_crash1 (c_ops c) errs cont (tag 0 (c_trace c))) (c_crash c)).
