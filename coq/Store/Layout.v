(** Memory layout of the batches an on-disk store receives (C05): an n-dimensional array is a window
    into a buffer given by an offset and one stride per axis (C order, Fortran order, permuted axes,
    every second element, negative strides ... are all instances).  NpyArray.append writes
    [array.tobytes('C')], i.e. the elements in logical row-major order whatever the strides are, behind
    the data already in the file; the file is read back through a row-major memmap
    (elfi/store.py NpyArray.append / memmap, NpyStore.__getitem__).  Elements are opaque codes (the
    integer value of the element's bytes), so the model covers every dtype. *)
From Coq Require Import List ZArith Arith Bool.
Import ListNotations.

Record ndarray := {
  nd_shape : list nat;
  nd_strides : list Z;      (* in elements, one per axis *)
  nd_offset : Z;            (* element index of a[0,...,0] in the buffer *)
  nd_buf : list Z           (* the buffer the array is a window into, as element codes *)
}.

(** all multi-indices of a shape in row-major order (last axis fastest) *)
Fixpoint c_indices (shape : list nat) : list (list nat) :=
  match shape with
  | [] => [[]]
  | n :: r => flat_map (fun i => map (cons i) (c_indices r)) (seq 0 n)
  end.

Fixpoint dot (idx : list nat) (strides : list Z) : Z :=
  match idx, strides with
  | i :: r, s :: t => (Z.of_nat i * s + dot r t)%Z
  | _, _ => 0%Z
  end.

(** a[idx] *)
Definition elem (a : ndarray) (idx : list nat) : option Z :=
  let p := (nd_offset a + dot idx (nd_strides a))%Z in
  if (p <? 0)%Z then None else nth_error (nd_buf a) (Z.to_nat p).

(** array.tobytes('C'): the elements in logical row-major order *)
Definition tobytes_C (a : ndarray) : list (option Z) := map (elem a) (c_indices (nd_shape a)).

Fixpoint prod (l : list nat) : nat := match l with [] => 1 | n :: r => n * prod r end.

(** position of a multi-index in a row-major array of this shape *)
Fixpoint lin (shape idx : list nat) : nat :=
  match shape, idx with
  | _ :: r, i :: t => i * prod r + lin r t
  | _, _ => 0
  end.

(** the store file: the data of all appended batches, one after the other *)
Definition append (data : list (option Z)) (a : ndarray) : list (option Z) := data ++ tobytes_C a.
Definition append_all (batches : list ndarray) : list (option Z) := fold_left append batches [].

(** NpyStore.__getitem__(i)[idx] through the row-major memmap: batch [i] of arrays of shape [shape] *)
Definition read_back (data : list (option Z)) (shape : list nat) (i : nat) (idx : list nat) : option Z :=
  match nth_error data (i * prod shape + lin shape idx) with
  | Some (Some v) => Some v
  | _ => None
  end.

(** ---- correspondence-check interface ---- *)
(** one store of an on-disk pool: the batches handed to add_batch in order (all of one shape), the data
    region of the .npy file afterwards and, per batch, the elements of what get_batch returned (both as
    element codes in row-major order) *)
Record store_obs := {
  so_batches : list ndarray;
  so_file : option (list Z);          (* None for an in-memory pool *)
  so_read : list (list Z)
}.

Fixpoint optlist_eqb (a : list (option Z)) (b : list Z) : bool :=
  match a, b with
  | [], [] => true
  | Some x :: r, y :: s => Z.eqb x y && optlist_eqb r s
  | _, _ => false
  end.

Fixpoint zlist_eqb (a b : list Z) : bool :=
  match a, b with
  | [], [] => true
  | x :: r, y :: s => Z.eqb x y && zlist_eqb r s
  | _, _ => false
  end.

Fixpoint shapes_equal (l : list ndarray) : bool :=
  match l with
  | a :: ((b :: _) as r) => (if list_eq_dec Nat.eq_dec (nd_shape a) (nd_shape b) then true else false) && shapes_equal r
  | _ => true
  end.

(** the model's file content equals the real file, and what the model reads back equals what the
    pool returned *)
Definition store_agree (o : store_obs) : bool :=
  let data := append_all (so_batches o) in
  shapes_equal (so_batches o)
  && match so_file o with Some f => optlist_eqb data f | None => true end
  && (fix go (i : nat) (bs : list ndarray) (rs : list (list Z)) {struct bs} : bool :=
        match bs, rs with
        | [], [] => true
        | a :: bt, r :: rt =>
            optlist_eqb (map (read_back data (nd_shape a) i) (c_indices (nd_shape a))) r && go (S i) bt rt
        | _, _ => false
        end) 0 (so_batches o) (so_read o).

(** the property on the implementation's output: every batch the pool returns has, at every index,
    the element the produced array has there *)
Definition store_ok (o : store_obs) : bool :=
  (fix go (bs : list ndarray) (rs : list (list Z)) {struct bs} : bool :=
     match bs, rs with
     | [], [] => true
     | a :: bt, r :: rt => optlist_eqb (tobytes_C a) r && go bt rt
     | _, _ => false
     end) (so_batches o) (so_read o).
