(** Output pools (elfi/store.py OutputPool.get_batch/add_batch/set_context, elfi/loader.py PoolLoader,
    ComputationContext.__init__/callback) over the graph calculus (C05). *)
From Coq Require Import List String ZArith Arith Bool.
From Elfi Require Import Graph.Net Graph.Denote Store.Layout.
Import ListNotations.

(** a store: batch index -> value, in insertion order; [None] = the store object does not exist yet *)
Definition store := option (list (nat * value)).

Record pool := {
  stores : list (name * store);
  pl_batch_size : option nat;
  pl_seed : option Z
}.

Fixpoint lookup_nat {A} (i : nat) (l : list (nat * A)) : option A :=
  match l with
  | [] => None
  | (j, a) :: r => if Nat.eqb i j then Some a else lookup_nat i r
  end.

(** OutputPool.get_batch, in the shape PoolLoader consumes: for every store key, the held value *)
Definition get_batch (p : pool) (i : nat) : list (name * option value) :=
  map (fun ns : name * store =>
         (fst ns, match snd ns with Some st => lookup_nat i st | None => None end)) (stores p).

(** OutputPool.add_batch: only for keys of [stores]; never overwrites ("Do not add again") *)
Definition add_to_store (s : store) (i : nat) (v : value) : store :=
  match s with
  | None => Some [(i, v)]
  | Some st => match lookup_nat i st with Some _ => Some st | None => Some (st ++ [(i, v)]) end
  end.

Definition add_batch (p : pool) (batch : list (name * value)) (i : nat) : pool :=
  {| stores := map (fun ns : name * store =>
                      match lookup (fst ns) batch with
                      | Some v => (fst ns, add_to_store (snd ns) i v)
                      | None => ns
                      end) (stores p);
     pl_batch_size := pl_batch_size p; pl_seed := pl_seed p |}.

Definition remove_store (p : pool) (n : name) : pool :=
  {| stores := remove n (stores p); pl_batch_size := pl_batch_size p; pl_seed := pl_seed p |}.

(** ComputationContext.__init__ with a pool: adopt or validate batch_size and seed *)
Inductive ctx_result :=
| CtxRefused                                 (* ValueError: pool batch_size / seed differs *)
| CtxOk (batch_size : nat) (seed : Z) (p : pool).

Definition make_context (batch_size : option nat) (seed : option Z) (fresh_seed : Z) (p : pool) : ctx_result :=
  match pl_batch_size p, pl_seed p with
  | Some pb, Some ps =>
      (* pool.has_context *)
      match batch_size with
      | Some b => if Nat.eqb b pb then
                    match seed with
                    | Some s => if Z.eqb s ps then CtxOk pb ps p else CtxRefused
                    | None => CtxOk pb ps p
                    end
                  else CtxRefused
      | None => match seed with
                | Some s => if Z.eqb s ps then CtxOk pb ps p else CtxRefused
                | None => CtxOk pb ps p
                end
      end
  | _, _ =>
      let b := match batch_size with Some b => if Nat.eqb b 0 then 1 else b | None => 1 end in
      let s := match seed with Some s => s | None => fresh_seed end in
      CtxOk b s {| stores := stores p; pl_batch_size := Some b; pl_seed := Some s |}
  end.

(** ---- one inference run over a pool: batches 0 .. m-1 through one compiled net ---- *)
(** the compiled net's output set is shared by all loaded nets of the handler and grows when the
    PoolLoader adds stored nodes that the pool does not hold *)
Record run_state := { rs_net : cnet; rs_pool : pool; rs_cache : ecache }.

Definition step_batch (s : run_state) (i : nat)
  : res (run_state * list (name * value) * list name) :=
  let lg := load (get_batch (rs_pool s) i) (rs_net s) in
  do r <- execute lg (rs_cache s);
  let '(out, log, cache') := r in
  (* the shared outputs set keeps what the PoolLoader added *)
  let net' := {| c_nodes := c_nodes (rs_net s); c_edges := c_edges (rs_net s);
                 c_outputs := c_outputs lg; c_observed := c_observed (rs_net s) |} in
  Ok ({| rs_net := net'; rs_pool := add_batch (rs_pool s) out i; rs_cache := cache' |}, out, log).

Fixpoint run_batches (s : run_state) (idxs : list nat)
  : res (run_state * list (list (name * value) * list name)) :=
  match idxs with
  | [] => Ok (s, [])
  | i :: r =>
      do x <- step_batch s i;
      let '(s1, out, log) := x in
      do y <- run_batches s1 r;
      let '(s2, rest) := y in
      Ok (s2, (out, log) :: rest)
  end.

(** ---- a history of runs on ONE BatchHandler + ComputationContext ---- *)
(** Between two runs the handler is reset() (Rejection.set_objective / sample() again: the batch index
    goes back to 0) and stores may be removed from the pool.  What persists is the compiled net with
    its grown output set (rs_net), the context's executor cache (rs_cache) and the pool: there is NO
    other cross-run state, in particular nothing that remembers what the pool lacked earlier - the
    pool is consulted afresh for every batch of every run. *)
Definition segment := (list name * list nat)%type.   (* stores removed before the run, its batch indices *)

Definition drop_stores (s : run_state) (rm : list name) : run_state :=
  {| rs_net := rs_net s; rs_pool := fold_left remove_store rm (rs_pool s); rs_cache := rs_cache s |}.

Fixpoint run_history (s : run_state) (h : list segment)
  : res (run_state * list (list (list (name * value) * list name))) :=
  match h with
  | [] => Ok (s, [])
  | (rm, idxs) :: r =>
      do x <- run_batches (drop_stores s rm) idxs;
      let '(s1, obs) := x in
      do y <- run_history s1 r;
      let '(s2, rest) := y in
      Ok (s2, obs :: rest)
  end.

(** ---- transparency of the shared batch generator ---- *)
(** positions at which the stochastic operations of a call log receive the generator *)
Definition stoch_log (is_stoch : name -> bool) (log : list name) : list name := filter is_stoch log.

(** the stored set is transparent for this order when every stochastic operation that still runs is
    preceded, in the full order, only by stochastic operations that still run too *)
Fixpoint prefix_closed (is_stoch runs : name -> bool) (order : list name) (seen_skipped : bool) : bool :=
  match order with
  | [] => true
  | x :: r =>
      if is_stoch x then
        if runs x then negb seen_skipped && prefix_closed is_stoch runs r seen_skipped
        else prefix_closed is_stoch runs r true
      else prefix_closed is_stoch runs r seen_skipped
  end.

(** ---- correspondence-check interface ---- *)
(** dump of a pool: per store the held batches *)
Definition pool_dump := list (name * list (nat * value)).

Definition dump_pool (p : pool) : pool_dump :=
  map (fun ns : name * store => (fst ns, match snd ns with Some st => st | None => [] end)) (stores p).

(** how a run of a history obtains its BatchHandler and ComputationContext *)
Inductive reuse :=
| Fresh          (* a new inference object: new context (empty caches), new handler (freshly compiled net) *)
| SameContext    (* a new handler (freshly compiled net) on the previous run's context (its executor cache) *)
| SameHandler.   (* the previous run's handler after reset(): its net with the grown output set + its context *)

Record run_obs := {
  ro_reuse : reuse;
  ro_src : snet;                                   (* the model at this run (may have been edited) *)
  ro_outputs : list name;                          (* output names given to the BatchHandler *)
  ro_removed : list name;                          (* stores removed from the pool before this run *)
  ro_batches : list (list (name * value) * list name);   (* per batch 0..m-1: results sorted by name, call log *)
  ro_pool_after : pool_dump                        (* pool content after the run (stores sorted by name, batches by index) *)
}.

Record case := {
  o_stored : list name;                            (* OutputPool(outputs) *)
  o_runs : list run_obs;
  o_arrays : list store_obs                        (* array-level round trips through the pool's stores (Store/Layout.v) *)
}.

Fixpoint seqn (n : nat) : list nat := match n with O => [] | S k => seqn k ++ [k] end.

Fixpoint entries_eqb (a b : list (nat * value)) : bool :=
  match a, b with
  | [], [] => true
  | (i, v) :: r, (j, w) :: s => Nat.eqb i j && value_eqb v w && entries_eqb r s
  | _, _ => false
  end.

Fixpoint insert_entry (e : nat * value) (l : list (nat * value)) : list (nat * value) :=
  match l with [] => [e] | x :: r => if Nat.leb (fst e) (fst x) then e :: l else x :: insert_entry e r end.
Definition sort_entries (l : list (nat * value)) := fold_right insert_entry [] l.

Fixpoint insert_named {A} (e : name * A) (l : list (name * A)) : list (name * A) :=
  match l with [] => [e] | x :: r => if String.leb (fst e) (fst x) then e :: l else x :: insert_named e r end.
Definition sort_named {A} (l : list (name * A)) := fold_right insert_named [] l.

Fixpoint dump_eqb (a b : pool_dump) : bool :=
  match a, b with
  | [], [] => true
  | (n, x) :: r, (m, y) :: s => String.eqb n m && entries_eqb (sort_entries x) (sort_entries y) && dump_eqb r s
  | _, _ => false
  end.

Fixpoint batches_eqb (src : snet) (a : list (list (name * value) * list name)) (b : list (list (name * value) * list name)) : bool :=
  match a, b with
  | [], [] => true
  | (o1, l1) :: r, (o2, l2) :: s => outs_eqb o1 o2 && names_eqb (op_log src l1) l2 && batches_eqb src r s
  | _, _ => false
  end.

(** the model replays the runs over one persistent pool; [prev] = the net and executor cache the
    previous run left in its handler / context *)
Fixpoint agree_runs (p : pool) (prev : option (cnet * ecache)) (runs : list run_obs) : bool :=
  match runs with
  | [] => true
  | ro :: rest =>
      let p0 := fold_left remove_store (ro_removed ro) p in
      let start :=
        match ro_reuse ro, prev with
        | SameHandler, Some (g, c) => Ok (g, c)
        | SameContext, Some (_, c) => do g <- compile (ro_src ro) (ro_outputs ro); Ok (g, c)
        | _, _ => do g <- compile (ro_src ro) (ro_outputs ro); Ok (g, empty_cache)
        end in
      match start with
      | Err _ => false
      | Ok (g, c) =>
          match run_batches {| rs_net := g; rs_pool := p0; rs_cache := c |} (seqn (List.length (ro_batches ro))) with
          | Err _ => false
          | Ok (s', obs) =>
              batches_eqb (ro_src ro) obs (ro_batches ro)
              && dump_eqb (sort_named (dump_pool (rs_pool s'))) (ro_pool_after ro)
              && agree_runs (rs_pool s') (Some (rs_net s', rs_cache s')) rest
          end
      end
  end.

Definition agree (c : case) : bool :=
  agree_runs {| stores := map (fun n => (n, None)) (o_stored c); pl_batch_size := None; pl_seed := None |} None (o_runs c)
  && forallb store_agree (o_arrays c).

(** the property on the implementation's observations (symbolic values: equal terms = equal results) *)
(** stored nodes a handler has added to its output set while serving batches 0..i of a run: those the
    requested outputs depend on and that the pool lacked for one of these batches *)
Definition added_upto (src : snet) (outs keys0 : list name) (held0 : pool_dump) (i : nat) : list name :=
  let anc := ancestors_incl (dep_edges src) outs in
  filter (fun n => mem n anc
                   && existsb (fun j => match lookup n held0 with
                                        | Some st => match lookup_nat j st with Some _ => false | None => true end
                                        | None => true
                                        end) (seqn (S i)))
         keys0.

(** [carry] = the stored nodes the previous run's handler had added to its output set (they stay there
    when the same handler serves the next run; a new handler starts from the requested outputs) *)
Fixpoint ok_runs (stored_keys : list name) (held : pool_dump) (carry : list name) (runs : list run_obs) : bool :=
  match runs with
  | [] => true
  | ro :: rest =>
      let carry0 := match ro_reuse ro with SameHandler => carry | _ => [] end in
      let held0 := filter (fun ns : name * list (nat * value) => negb (mem (fst ns) (ro_removed ro))) held in
      let keys0 := filter (fun n => negb (mem n (ro_removed ro))) stored_keys in
      (* per batch: requested outputs have their pool-free meaning; a stored node that the pool held
         for this batch did not run *)
      (fix batches (i : nat) (bs : list (list (name * value) * list name)) {struct bs} : bool :=
         match bs with
         | [] => true
         | (out, log) :: r =>
             forallb (fun o => match lookup o out, den_name (ro_src ro) [] o with
                               | Some v, Some w => value_eqb v w
                               | _, _ => false
                               end) (ro_outputs ro)
             (* exactly the operations needed run, each once: stored nodes held for this batch count as
                supplied values; stored nodes the pool lacked for a batch of this run are extra outputs *)
             && (let W := flat_map (fun ns : name * list (nat * value) =>
                                      match lookup_nat i (snd ns) with Some v => [(fst ns, v)] | None => [] end) held0 in
                 let added := carry0 ++ added_upto (ro_src ro) (ro_outputs ro) keys0 held0 i in
                 same_multiset log (op_log (ro_src ro) (needed_ops (ro_src ro) W (ro_outputs ro ++ added))))
             && batches (S i) r
         end) 0 (ro_batches ro)
      (* afterwards the pool holds exactly what it held plus the consumed batches, with the fresh values *)
      && forallb (fun ns : name * list (nat * value) =>
                    forallb (fun iv : nat * value =>
                               match den_name (ro_src ro) [] (fst ns) with
                               | Some w => value_eqb (snd iv) w || match lookup (fst ns) held0 with
                                                                   | Some old => match lookup_nat (fst iv) old with Some _ => true | None => false end
                                                                   | None => false
                                                                   end
                               | None => true
                               end) (snd ns)
                    && forallb (fun i => match lookup_nat i (snd ns) with Some _ => true | None => false end)
                               (seqn (List.length (ro_batches ro)))
                       (* only stored nodes that the requested outputs depend on take part in the run *)
                       || negb (mem (fst ns) (ancestors_incl (dep_edges (ro_src ro)) (ro_outputs ro))))
                 (ro_pool_after ro)
      && ok_runs keys0 (ro_pool_after ro)
                 (carry0 ++ match List.length (ro_batches ro) with
                            | O => []
                            | S k => added_upto (ro_src ro) (ro_outputs ro) keys0 held0 k
                            end) rest
  end.

Definition ok (c : case) : bool := ok_runs (o_stored c) [] [] (o_runs c) && forallb store_ok (o_arrays c).
