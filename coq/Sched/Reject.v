(** The rejection sampler (elfi/methods/inference/samplers.py: Rejection.set_objective / update /
    _merge_batch / _update_state_meta / _update_objective_n_batches / extract_result) as an
    instance of the scheduler's abstract method (C01, C04).

    Discrepancies are integers or +inf (the harness uses integer-valued tables); every simulated
    draw carries a code identifying its full row of outputs.                                     *)
From Coq Require Import List ZArith Arith Bool PrimFloat Uint63.
From Elfi Require Import Sched.Sched.
Import ListNotations.

Inductive edisc := Fin (z : Z) | PInf.

Definition dle (a b : edisc) : bool :=
  match a, b with
  | Fin x, Fin y => (x <=? y)%Z
  | _, PInf => true
  | PInf, Fin _ => false
  end.

Definition deqb (a b : edisc) : bool :=
  match a, b with Fin x, Fin y => (x =? y)%Z | PInf, PInf => true | _, _ => false end.

(** a simulated draw: its discrepancy and the code of its row of outputs *)
Record draw := { d_disc : edisc; d_code : N }.

(** a buffer row: a draw, or a row that does not hold a draw yet (distance inf) *)
Definition slot := option draw.

Definition sdisc (s : slot) : edisc := match s with Some d => d_disc d | None => PInf end.
Definition unfilled (s : slot) : bool := match s with Some _ => false | None => true end.

(** the lexsort key (distance, unfilled): [kle a b] = a may precede b *)
Definition kle (a b : slot) : bool :=
  if deqb (sdisc a) (sdisc b) then implb (unfilled a) (unfilled b) else dle (sdisc a) (sdisc b).

(** stable insertion sort (np.lexsort is stable): insert after the elements that may precede *)
Fixpoint sinsert (x : slot) (l : list slot) : list slot :=
  match l with
  | [] => [x]
  | y :: r => if kle y x then y :: sinsert x r else x :: l
  end.
Definition ssort (l : list slot) : list slot := fold_left (fun acc x => sinsert x acc) l [].

Record rstate := {
  r_n : nat;                      (* n_samples *)
  r_b : nat;                      (* batch_size *)
  r_thr : option edisc;           (* objective threshold (None for the n_sim / quantile forms) *)
  r_buf : list slot;              (* state['samples'], n + b rows; [] before the first batch *)
  r_filled : nat;                 (* state['n_filled'] *)
  r_nbatches : nat;               (* state['n_batches'] *)
  r_objective : nat               (* objective['n_batches'] *)
}.

Definition accepts (thr : option edisc) (d : draw) : bool :=
  match thr with None => true | Some t => dle (d_disc d) t end.

(** v[-k:] = batch[accepted] *)
Definition overwrite_tail (buf : list slot) (new : list slot) : list slot :=
  firstn (length buf - length new) buf ++ new.

(** ---- the threshold-form batch estimator, in binary64 as coded ---- *)
Definition fl (z : Z) : float := of_uint63 (Uint63.of_Z z).

(** math.ceil of a non-negative finite float: the least integer k with x <= k *)
Fixpoint ceil_from (fuel : nat) (k : Z) (x : float) : Z :=
  match fuel with
  | O => k
  | S f => if PrimFloat.leb x (fl k) then k else ceil_from f (k + 1)%Z x
  end.

Definition estimate_batches (n b n_sim n_acceptable objective : nat) : nat :=
  if Nat.eqb n_acceptable 0 then S objective else
  let rate := PrimFloat.div (fl (Z.of_nat n_acceptable)) (fl (Z.of_nat n_sim)) in
  let margin := PrimFloat.mul (PrimFloat.mul 0x1.999999999999ap-3%float (fl (Z.of_nat b)))
                              (fl (if Nat.ltb n_acceptable n then 1 else 0)) in
  let x := PrimFloat.div (PrimFloat.add (PrimFloat.div (fl (Z.of_nat n)) rate) margin) (fl (Z.of_nat b)) in
  Z.to_nat (ceil_from (4 * (n + b) * (S n_sim) + 8) 0 x).

(** set_objective: ceil(n_sim / batch_size) and ceil(n_samples / quantile) as coded (floats) *)
Definition ceil_div_float (num : float) (den : float) (bound : nat) : nat :=
  Z.to_nat (ceil_from bound 0 (PrimFloat.div num den)).

(** Rejection.update for one batch *)
Definition rupdate (s : rstate) (batch : list draw) (_ : nat) : rstate * bool :=
  let buf0 := match r_buf s with [] => repeat (None : slot) (r_n s + r_b s) | l => l end in
  let acc := filter (accepts (r_thr s)) batch in
  let k := length acc in
  let buf1 := if Nat.eqb k 0 then buf0 else overwrite_tail buf0 (map (fun d => Some d) acc) in
  (* unfilled mask by position: [n_filled, n_rows - k) ; rows at those positions are unfilled anyway *)
  let filled' := Nat.min (length buf0) (r_filled s + k) in
  let buf2 := ssort buf1 in
  let nb := S (r_nbatches s) in
  let n_sim := nb * r_b s in
  let obj := match r_thr s with
             | None => r_objective s
             | Some t => estimate_batches (r_n s) (r_b s) n_sim (length (filter (fun sl => dle (sdisc sl) t) (firstn filled' buf2))) (r_objective s)
             end in
  ({| r_n := r_n s; r_b := r_b s; r_thr := r_thr s; r_buf := buf2; r_filled := filled';
      r_nbatches := nb; r_objective := obj |}, false).

(** what a finished run reports *)
Record rresult := {
  res_rows : list slot;        (* the first n_samples rows *)
  res_threshold : edisc;       (* state['threshold'] *)
  res_n_sim : nat;
  res_n_batches : nat
}.

Definition extract (s : rstate) : rresult :=
  {| res_rows := firstn (r_n s) (r_buf s);
     res_threshold := sdisc (nth (r_n s - 1) (r_buf s) None);
     res_n_sim := r_nbatches s * r_b s;
     res_n_batches := r_nbatches s |}.

Definition rinit (n b : nat) (thr : option edisc) (objective : nat) : rstate :=
  {| r_n := n; r_b := b; r_thr := thr; r_buf := []; r_filled := 0; r_nbatches := 0; r_objective := objective |}.

(** the scheduler instantiated with the rejection method; batches come from a table *)
Definition batch_of (table : list (list draw)) (i : nat) (_ : unit) : list draw := nth i table [].

Definition rinfer (fuel maxp : nat) (s0 : rstate) (table : list (list draw)) (orc : list bool) :=
  infer rstate (list draw) unit r_objective r_nbatches (fun _ _ => tt) (batch_of table) rupdate
        fuel maxp {| st := s0; next := 0; pending := [] |} orc [].

Definition rseq (fuel : nat) (s0 : rstate) (table : list (list draw)) :=
  seq_run rstate (list draw) unit r_objective r_nbatches (fun _ _ => tt) (batch_of table) rupdate fuel s0 0.

(** ---- correspondence-check interface (C01) ---- *)
Inductive objective_form :=
| ByThreshold (t : edisc) (maxp : nat)          (* threshold given; initial guess = max_parallel_batches *)
| ByNsim (n_sim : Z)                            (* n_sim given: ceil(n_sim / b) *)
| ByQuantile (q : float).                       (* quantile given: n_sim = ceil(n / q) *)

Definition initial_objective (n b : nat) (f : objective_form) : nat * option edisc :=
  match f with
  | ByThreshold t maxp => (maxp, Some t)
  | ByNsim ns => (ceil_div_float (fl ns) (fl (Z.of_nat b)) (Z.to_nat ns + 2), None)
  | ByQuantile q =>
      let ns := ceil_div_float (fl (Z.of_nat n)) q (100 * S n + 100) in
      (ceil_div_float (fl (Z.of_nat ns)) (fl (Z.of_nat b)) (ns + 2), None)
  end.

Record case := {
  c_n : nat;
  c_b : nat;
  c_form : objective_form;
  c_table : list (list draw);       (* every batch the implementation consumed (from the pool), in index order *)
  c_rows : list slot;               (* returned rows: discrepancy and row code (None = not a consumed draw) *)
  c_threshold : edisc;
  c_n_sim : nat;
  c_n_batches : nat
}.

Definition slot_eqb (a b : slot) : bool :=
  match a, b with
  | Some x, Some y => deqb (d_disc x) (d_disc y) && N.eqb (d_code x) (d_code y)
  | None, None => true
  | _, _ => false
  end.

Fixpoint rows_eqb (a b : list slot) : bool :=
  match a, b with
  | [], [] => true
  | x :: r, y :: s => slot_eqb x y && rows_eqb r s
  | _, _ => false
  end.

Definition model_result (c : case) : option rresult :=
  let '(obj, thr) := initial_objective (c_n c) (c_b c) (c_form c) in
  match rseq (S (length (c_table c))) (rinit (c_n c) (c_b c) thr obj) (c_table c) with
  | Some (s, _) => Some (extract s)
  | None => None
  end.

Definition agree (c : case) : bool :=
  match model_result c with
  | Some r => rows_eqb (res_rows r) (c_rows c) && deqb (res_threshold r) (c_threshold c)
              && Nat.eqb (res_n_sim r) (c_n_sim c) && Nat.eqb (res_n_batches r) (c_n_batches c)
  | None => false
  end.

(** ---- the property itself, on the implementation's result ---- *)
Fixpoint ascending (l : list slot) : bool :=
  match l with
  | a :: ((b :: _) as r) => dle (sdisc a) (sdisc b) && ascending r
  | _ => true
  end.

(** remove one occurrence *)
Fixpoint remove_one (x : draw) (l : list draw) : option (list draw) :=
  match l with
  | [] => None
  | y :: r => if deqb (d_disc x) (d_disc y) && N.eqb (d_code x) (d_code y) then Some r
              else match remove_one x r with Some r' => Some (y :: r') | None => None end
  end.

(** the returned rows are consumed draws (with multiplicity); returns the draws not returned *)
Fixpoint take_all (rows : list slot) (pool : list draw) : option (list draw) :=
  match rows with
  | [] => Some pool
  | None :: _ => None
  | Some d :: r => match remove_one d pool with Some p' => take_all r p' | None => None end
  end.

Definition expected_batches (c : case) : option nat :=
  match c_form c with
  | ByThreshold _ _ => None
  | _ => Some (fst (initial_objective (c_n c) (c_b c) (c_form c)))
  end.

Definition ok (c : case) : bool :=
  let thr := match c_form c with ByThreshold t _ => Some t | _ => None end in
  let consumed_acc := filter (accepts thr) (concat (c_table c)) in
  Nat.eqb (length (c_rows c)) (c_n c)
  && ascending (c_rows c)
  && match take_all (c_rows c) consumed_acc with
     | Some rest =>
         (* nothing left out is strictly better than the worst returned row *)
         forallb (fun d => dle (c_threshold c) (d_disc d)) rest
     | None => false
     end
  && deqb (c_threshold c) (sdisc (last (c_rows c) None))
  && Nat.eqb (c_n_sim c) (c_b c * c_n_batches c)
  && Nat.eqb (c_n_batches c) (length (c_table c))
  && match expected_batches c with Some k => Nat.eqb (c_n_batches c) k | None => true end
  && match thr with Some t => forallb (fun s => dle (sdisc s) t) (c_rows c) | None => true end.

(** ---- histories: several runs on ONE Rejection instance (C01, wave 2) ----
    [Rejection.set_objective] as coded rebinds [self.state] to a fresh dict (samples None, n_filled 0,
    n_batches 0, threshold inf) and resets the batch handler: whatever the instance holds from
    earlier runs ([prev]) is discarded, only batch_size (a property of the instance) stays. *)
Definition rset_objective (prev : option rstate) (n b : nat) (f : objective_form) : rstate :=
  let '(obj, thr) := initial_objective n b f in rinit n b thr obj.

(** one sample()/infer() call on an instance left in state [prev] by the earlier calls: the final state *)
Definition run_on (prev : option rstate) (c : case) : option rstate :=
  match rseq (S (length (c_table c))) (rset_objective prev (c_n c) (c_b c) (c_form c)) (c_table c) with
  | Some (s, _) => Some s
  | None => None
  end.

(** the results of the consecutive runs of a history (a run the model cannot finish on the recorded
    batches gives None and leaves the instance as it was) *)
Fixpoint history_results (prev : option rstate) (h : list case) : list (option rresult) :=
  match h with
  | [] => []
  | c :: r => match run_on prev c with
              | Some s => Some (extract s) :: history_results (Some s) r
              | None => None :: history_results prev r
              end
  end.

Definition result_agrees (r : option rresult) (c : case) : bool :=
  match r with
  | Some r => rows_eqb (res_rows r) (c_rows c) && deqb (res_threshold r) (c_threshold c)
              && Nat.eqb (res_n_sim r) (c_n_sim c) && Nat.eqb (res_n_batches r) (c_n_batches c)
  | None => false
  end.

Fixpoint all2 {A B : Type} (f : A -> B -> bool) (l : list A) (m : list B) : bool :=
  match l, m with
  | [], [] => true
  | x :: r, y :: s => f x y && all2 f r s
  | _, _ => false
  end.

(** a history case: the instance's batch_size and its consecutive runs, each with its own objective,
    its own record of consumed batches and the result it returned *)
Record hcase := { h_b : nat; h_runs : list case }.

Definition same_instance (h : hcase) : bool := forallb (fun c => Nat.eqb (c_b c) (h_b h)) (h_runs h).

(** the implementation's result of every run equals the model's result of that run on the instance
    as the earlier runs left it *)
Definition hagree (h : hcase) : bool :=
  same_instance h && all2 result_agrees (history_results None (h_runs h)) (h_runs h).

(** the property holds for every run of the history, each judged against its own consumed draws *)
Definition hok (h : hcase) : bool := same_instance h && forallb ok (h_runs h).
