(** Correspondence interface for C04: event traces of the scheduler under a scripted client. *)
From Coq Require Import List ZArith Arith Bool PrimFloat.
From Elfi Require Import Sched.Sched Sched.Reject.
Import ListNotations.

Definition event_eqb (a b : event) : bool :=
  match a, b with
  | ESubmit i, ESubmit j => Nat.eqb i j
  | EAsk i x, EAsk j y => Nat.eqb i j && Bool.eqb x y
  | EGet i, EGet j => Nat.eqb i j
  | ECancel i, ECancel j => Nat.eqb i j
  | _, _ => false
  end.

Fixpoint trace_eqb (a b : list event) : bool :=
  match a, b with
  | [], [] => true
  | x :: r, y :: s => event_eqb x y && trace_eqb r s
  | _, _ => false
  end.

Record rej_cfg := {
  rc_n : nat; rc_b : nat; rc_form : objective_form;
  rc_table : list (list draw);      (* batch results by index (enough of them) *)
  rc_oracle : list bool             (* the answers the scripted client gave, in order *)
}.

Record case := {
  k_maxp : nat;
  k_trace : list event;             (* the implementation's client calls, by batch index *)
  k_consumed : nat;                 (* number of batches the inference reports *)
  k_model : option rej_cfg          (* for rejection runs: enough to run the model under the same oracle *)
}.

Definition model_trace (maxp : nat) (c : rej_cfg) : option (list event * nat) :=
  let '(obj, thr) := initial_objective (rc_n c) (rc_b c) (rc_form c) in
  let obj' := match rc_form c with ByThreshold _ _ => maxp | _ => obj end in
  match rinfer (S (length (rc_table c))) maxp (rinit (rc_n c) (rc_b c) thr obj') (rc_table c) (rc_oracle c) with
  | inl (s, tr) => Some (tr, r_nbatches (st s))
  | inr _ => None
  end.

Definition agree (c : case) : bool :=
  match k_model c with
  | None => true
  | Some cfg =>
      match model_trace (k_maxp c) cfg with
      | Some (tr, nb) => trace_eqb tr (k_trace c) && Nat.eqb nb (k_consumed c)
      | None => false
      end
  end.

(** the property on the implementation's trace: in-order, exactly-once consumption from the oldest
    outstanding task, at most max_parallel outstanding, cancelled tasks never read, none left *)
Definition ok (c : case) : bool :=
  match trace_ok (k_maxp c) (k_trace c) with
  | Some n => Nat.eqb n (k_consumed c)
  | None => false
  end.
