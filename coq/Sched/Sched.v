(** The batch scheduler: BatchHandler + ParameterInference.iterate/_allow_submit/finished/infer
    (elfi/client.py, elfi/methods/inference/parameter_inference.py) over an abstract inference
    method, driven by an explicit readiness oracle (C04).                                       *)
From Coq Require Import List Arith Bool.
Import ListNotations.

Inductive event :=
| ESubmit (i : nat)               (* client.submit of batch index i *)
| EAsk (i : nat) (ans : bool)     (* client.is_ready on the task of batch i, and the answer *)
| EGet (i : nat)                  (* client.get_result for batch i *)
| ECancel (i : nat).              (* client.remove_task for batch i *)

Inductive serr := ENoPending | ENotInOrder | EOutOfFuel.

Section Scheduler.
  Variables S R P : Type.
  Variable objective : S -> nat.          (* _objective_n_batches *)
  Variable consumed : S -> nat.           (* state['n_batches'] *)
  Variable prepare : S -> nat -> P.       (* prepare_new_batch(batch_index): values supplied to the batch *)
  Variable compute : nat -> P -> R.       (* what the client computes for (batch index, supplied values) *)
  Variable update : S -> R -> nat -> S * bool.   (* update(batch, index): new state, and whether it cancelled the pending batches *)

  Record sched := { st : S; next : nat; pending : list (nat * P) }.

  (** the oracle answers is_ready questions in the order they are asked; [true] when exhausted *)
  Definition pop (orc : list bool) : bool * list bool :=
    match orc with [] => (true, []) | b :: r => (b, r) end.

  Definition submit (s : sched) : sched :=
    {| st := st s; next := Datatypes.S (next s); pending := pending s ++ [(next s, prepare (st s) (next s))] |}.

  (** the "while self._allow_submit(...)" loop of iterate *)
  Fixpoint submit_loop (fuel : nat) (maxp : nat) (s : sched) (orc : list bool) (tr : list event)
    : sched * list bool * list event :=
    match fuel with
    | O => (s, orc, tr)
    | Datatypes.S f =>
        if (length (pending s) <? maxp) && (consumed (st s) + length (pending s) <? objective (st s)) then
          match pending s with
          | [] => submit_loop f maxp (submit s) orc (tr ++ [ESubmit (next s)])
          | (i, _) :: _ =>
              let (ans, orc') := pop orc in
              if ans then (s, orc', tr ++ [EAsk i true])
              else submit_loop f maxp (submit s) orc' (tr ++ [EAsk i false; ESubmit (next s)])
          end
        else (s, orc, tr)
    end.

  (** BatchHandler.cancel_pending: newest first, each must be the last submitted index *)
  Fixpoint cancel_rev (rp : list (nat * P)) (nx : nat) (tr : list event) : option (nat * list event) :=
    match rp with
    | [] => Some (nx, tr)
    | (i, _) :: r => if Nat.eqb (Datatypes.S i) nx then cancel_rev r i (tr ++ [ECancel i]) else None
    end.

  Definition cancel_pending (s : sched) (tr : list event) : sched * list event + serr :=
    match cancel_rev (rev (pending s)) (next s) tr with
    | Some (nx, tr') => inl ({| st := st s; next := nx; pending := [] |}, tr')
    | None => inr ENotInOrder
    end.

  (** ParameterInference.iterate *)
  Definition iterate (maxp : nat) (s : sched) (orc : list bool) (tr : list event)
    : sched * list bool * list event + serr :=
    let '(s1, orc1, tr1) := submit_loop maxp maxp s orc tr in
    match pending s1 with
    | [] => inr ENoPending
    | (i, p) :: rest =>
        let r := compute i p in
        let '(st', cancel) := update (st s1) r i in
        let s2 := {| st := st'; next := next s1; pending := rest |} in
        if cancel then
          match cancel_pending s2 (tr1 ++ [EGet i]) with
          | inl (s3, tr3) => inl (s3, orc1, tr3)
          | inr e => inr e
          end
        else inl (s2, orc1, tr1 ++ [EGet i])
    end.

  Definition finished (s : sched) : bool := objective (st s) <=? consumed (st s).

  (** ParameterInference.infer after set_objective: iterate until finished, then cancel_pending *)
  Fixpoint infer (fuel : nat) (maxp : nat) (s : sched) (orc : list bool) (tr : list event)
    : sched * list event + serr :=
    if finished s then cancel_pending s tr else
    match fuel with
    | O => inr EOutOfFuel
    | Datatypes.S f =>
        match iterate maxp s orc tr with
        | inl (s', orc', tr') => infer f maxp s' orc' tr'
        | inr e => inr e
        end
    end.

  (** ---- the specification: consume batches 0,1,2,... one at a time ---- *)
  Fixpoint seq_run (fuel : nat) (s : S) (i : nat) : option (S * nat) :=
    if objective s <=? consumed s then Some (s, i) else
    match fuel with
    | O => None
    | Datatypes.S f => seq_run f (fst (update s (compute i (prepare s i)) i)) (Datatypes.S i)
    end.
End Scheduler.

Arguments st {S P} _.
Arguments next {S P} _.
Arguments pending {S P} _.

(** ---- a decidable predicate on event traces (also applied to the implementation's trace) ---- *)
(** checker state: next index to consume, outstanding batch indices (oldest first) *)
Definition cstate := (nat * list nat)%type.

Definition chk_step (maxp : nat) (c : cstate) (e : event) : option cstate :=
  let '(k, out) := c in
  match e with
  | ESubmit i =>
      if Nat.eqb i (k + length out) && (length out <? maxp) then Some (k, out ++ [i]) else None
  | EAsk i _ =>
      match out with o :: _ => if Nat.eqb i o then Some c else None | [] => None end
  | EGet i =>
      match out with o :: r => if Nat.eqb i o && Nat.eqb i k then Some (Datatypes.S k, r) else None | [] => None end
  | ECancel i =>
      match rev out with o :: r => if Nat.eqb i o then Some (k, rev r) else None | [] => None end
  end.

Fixpoint chk_run (maxp : nat) (c : cstate) (tr : list event) : option cstate :=
  match tr with
  | [] => Some c
  | e :: r => match chk_step maxp c e with Some c' => chk_run maxp c' r | None => None end
  end.

(** a complete run: indices consumed 0,1,2,... each exactly once from the oldest outstanding task,
    never more than [maxp] outstanding, cancelled tasks are never read, nothing left at the end;
    returns the number of consumed batches *)
Definition trace_ok (maxp : nat) (tr : list event) : option nat :=
  match chk_run maxp (0, []) tr with
  | Some (k, []) => Some k
  | _ => None
  end.
