(** Bayesian optimisation under the batch scheduler (C11, part 2): model of

      elfi/methods/inference/bolfi.py   BayesianOptimization.__init__ (state), set_objective, update,
                                        prepare_new_batch, _get_acquisition_index, _allow_submit,
                                        _should_optimize
      elfi/methods/bo/gpy_regression.py GPyRegression.update (evidence = np.r_[old, new]), n_evidence
      elfi/methods/inference/parameter_inference.py  iterate / _allow_submit / finished / infer
      elfi/client.py                    BatchHandler.submit / wait_next / cancel_pending / has_ready

    This is a variant of the generic scheduler of Sched/Sched.v (which is left untouched): here
    [prepare] has a side effect (it pops rows off the acquisition queue, or calls the acquisition
    method on the CURRENT evidence and stores the rest of the answer), and [_allow_submit] has the
    extra synchronous clause.  Event type, readiness oracle ([pop]), [cancel_rev] and the trace
    checker [trace_ok] are those of Sched/Sched.v.

    Oracles (Section variables): the acquisition method [acq] -- an arbitrary function of its own
    internal state (random generator, thresholds), the current evidence list, the number of points
    asked for and the acquisition index -- and [compute], what the client returns for a batch index
    and the parameter rows supplied to it ([None] = nothing supplied: the batch samples its
    parameters from the prior).  No proofs in this file.                                           *)
From Coq Require Import List ZArith Arith Bool.
From Elfi Require Import Sched.Sched.
Import ListNotations.

Record cfg := {
  c_b : nat;          (* batch_size *)
  c_bpa : nat;        (* batches_per_acquisition *)
  c_ninit : Z;        (* n_initial_evidence *)
  c_npre : Z;         (* n_precomputed_evidence *)
  c_upd : Z;          (* update_interval *)
  c_async : bool;     (* async_acq *)
  c_nev : Z           (* objective['n_evidence'] *)
}.

(** ceil(n_sim / batch_size) with n_sim = n_evidence - n_precomputed  (_objective_n_batches) *)
Definition objective (c : cfg) : nat :=
  Z.to_nat (- ((- (c_nev c - c_npre c)) / Z.of_nat (c_b c))).

(** _get_acquisition_index: Python's // is floor division, and so is Coq's Z.div for a positive divisor *)
Definition acq_index (c : cfg) (i : nat) : Z :=
  let acq_batch_size := (Z.of_nat (c_b c) * Z.of_nat (c_bpa c))%Z in
  let initial_offset := (c_ninit c - c_npre c)%Z in
  let starting_sim_index := (Z.of_nat (c_b c) * Z.of_nat i)%Z in
  ((starting_sim_index - initial_offset) / acq_batch_size)%Z.

Definition is_nil {X} (l : list X) : bool := match l with [] => true | _ => false end.

Section Bo.
  Variables P T A : Type.    (* one parameter row; one target value; the acquisition method's own state *)
  Variable acq : A -> list (P * T) -> nat -> Z -> list P * A.
  Variable compute : nat -> option (list P) -> list (P * T).
  Variable c : cfg.

  (** what [update] changes: the surrogate's evidence (rows of X paired with Y), state['n_evidence'],
      state['last_GP_update'], state['n_batches']; [optlog] records the optimize flag of every update *)
  Record estate := { ev : list (P * T); n_ev : Z; last_gp : Z; nb : nat; optlog : list bool }.

  (** what [prepare_new_batch] changes: state['acquisition'] (rows not yet handed out), the
      acquisition method; [acqlog] records every acquire call:
      (batch index, n asked, t, evidence count at call time) *)
  Record qstate := { queue : list P; ast : A; acqlog : list (nat * nat * Z * nat) }.

  Definition estate0 (pre : list (P * T)) : estate :=
    {| ev := pre; n_ev := c_npre c; last_gp := c_ninit c; nb := 0; optlog := [] |}.
  Definition qstate0 (a : A) : qstate := {| queue := []; ast := a; acqlog := [] |}.

  (** prepare_new_batch(batch_index) *)
  Definition prepare (e : estate) (q : qstate) (i : nat) : option (list P) * qstate :=
    let t := acq_index c i in
    if (t <? 0)%Z then (None, q) else
    match queue q with
    | [] =>
        let n := c_b c * c_bpa c in
        let '(rows, a') := acq (ast q) (ev e) n t in
        (Some (firstn (c_b c) rows),
         {| queue := skipn (c_b c) rows; ast := a'; acqlog := acqlog q ++ [(i, n, t, length (ev e))] |})
    | rows =>
        (Some (firstn (c_b c) rows), {| queue := skipn (c_b c) rows; ast := ast q; acqlog := acqlog q |})
    end.

  (** _should_optimize, evaluated before the surrogate is updated *)
  Definition should_optimize (e : estate) : bool :=
    let current := (Z.of_nat (length (ev e)) + Z.of_nat (c_b c))%Z in
    let next_update := (last_gp e + c_upd c)%Z in
    (c_ninit c <=? current)%Z && (next_update <=? current)%Z.

  (** update(batch, batch_index) *)
  Definition update (e : estate) (rows : list (P * T)) : estate :=
    let opt := should_optimize e in
    let ev' := ev e ++ rows in
    {| ev := ev'; n_ev := (n_ev e + Z.of_nat (c_b c))%Z;
       last_gp := if opt then Z.of_nat (length ev') else last_gp e;
       nb := S (nb e); optlog := optlog e ++ [opt] |}.

  (** scheduler state; [clog] = consumed batches with the rows that were supplied to them *)
  Record sched := {
    es : estate; qs : qstate; nxt : nat;
    pend : list (nat * option (list P));
    clog : list (nat * option (list P))
  }.

  Definition sched0 (pre : list (P * T)) (a : A) : sched :=
    {| es := estate0 pre; qs := qstate0 a; nxt := 0; pend := []; clog := [] |}.

  Definition submit (s : sched) : sched :=
    let '(p, q') := prepare (es s) (qs s) (nxt s) in
    {| es := es s; qs := q'; nxt := S (nxt s); pend := pend s ++ [(nxt s, p)]; clog := clog s |}.

  (** the clauses BayesianOptimization._allow_submit adds after the base class test *)
  Definition bo_clause (s : sched) : bool :=
    if c_async c then true
    else if (acq_index c (nxt s) <? 0)%Z then true
    else negb (is_nil (queue (qs s)) && negb (is_nil (pend s))).

  (** "while self._allow_submit(next_index): submit(prepare_new_batch(next_index))" *)
  Fixpoint submit_loop (fuel : nat) (maxp : nat) (s : sched) (orc : list bool) (tr : list event)
    : sched * list bool * list event :=
    match fuel with
    | O => (s, orc, tr)
    | S f =>
        if (length (pend s) <? maxp) && (nb (es s) + length (pend s) <? objective c) then
          match pend s with
          | [] => if bo_clause s then submit_loop f maxp (submit s) orc (tr ++ [ESubmit (nxt s)])
                  else (s, orc, tr)
          | (i, _) :: _ =>
              let (ans, orc') := pop orc in
              if ans then (s, orc', tr ++ [EAsk i true])
              else if bo_clause s then submit_loop f maxp (submit s) orc' (tr ++ [EAsk i false; ESubmit (nxt s)])
              else (s, orc', tr ++ [EAsk i false])
          end
        else (s, orc, tr)
    end.

  Definition cancel_pending (s : sched) (tr : list event) : sched * list event + serr :=
    match cancel_rev _ (rev (pend s)) (nxt s) tr with
    | Some (nx, tr') => inl ({| es := es s; qs := qs s; nxt := nx; pend := []; clog := clog s |}, tr')
    | None => inr ENotInOrder
    end.

  (** ParameterInference.iterate (BO's update never cancels pending batches) *)
  Definition iterate (maxp : nat) (s : sched) (orc : list bool) (tr : list event)
    : sched * list bool * list event + serr :=
    let '(s1, orc1, tr1) := submit_loop maxp maxp s orc tr in
    match pend s1 with
    | [] => inr ENoPending
    | (i, p) :: rest =>
        inl ({| es := update (es s1) (compute i p); qs := qs s1; nxt := nxt s1; pend := rest;
                clog := clog s1 ++ [(i, p)] |}, orc1, tr1 ++ [EGet i])
    end.

  Definition finished (s : sched) : bool := objective c <=? nb (es s).

  Fixpoint infer (fuel : nat) (maxp : nat) (s : sched) (orc : list bool) (tr : list event)
    : sched * list event + serr :=
    if finished s then cancel_pending s tr else
    match fuel with
    | O => inr EOutOfFuel
    | S f =>
        match iterate maxp s orc tr with
        | inl (s', orc', tr') => infer f maxp s' orc' tr'
        | inr e => inr e
        end
    end.

  (** ---- the sequential run: prepare batch i, compute it, update; one batch at a time ---- *)
  Fixpoint seq_run (fuel : nat) (e : estate) (q : qstate) (i : nat) (lg : list (nat * option (list P)))
    : option (estate * qstate * nat * list (nat * option (list P))) :=
    if objective c <=? nb e then Some (e, q, i, lg) else
    match fuel with
    | O => None
    | S f =>
        let '(p, q') := prepare e q i in
        seq_run f (update e (compute i p)) q' (S i) (lg ++ [(i, p)])
    end.
End Bo.

Arguments ev {P T} _.
Arguments n_ev {P T} _.
Arguments last_gp {P T} _.
Arguments nb {P T} _.
Arguments optlog {P T} _.
Arguments queue {P A} _.
Arguments ast {P A} _.
Arguments acqlog {P A} _.
Arguments es {P T A} _.
Arguments qs {P T A} _.
Arguments nxt {P T A} _.
Arguments pend {P T A} _.
Arguments clog {P T A} _.
