(** Correspondence interface for C11: acquisition calls (Num/Acq.v), Bayesian-optimisation runs under
    the scripted client (Sched/Bo.v) and values of the translated LCBSC formulas (Gen/C11_Lcbsc.v).
    No proofs in this file. *)
From Coq Require Import List ZArith QArith Qabs Arith Bool.
From Elfi Require Import Sched.Sched Sched.SchedCase Sched.Bo Num.Acq Gen.C11_Lcbsc.
Import ListNotations.
Local Close Scope Q_scope.

Definition erow := (row * Q)%type.     (* one evidence row: parameters, target value *)

Record bo_case := {
  k_cfg : cfg;
  k_maxp : nat;
  k_names : list string;                        (* model.parameter_names = target_model.parameter_names *)
  k_dict : bdict;                               (* the bounds dict handed to BayesianOptimization / GPyRegression, in the user's key order *)
  k_mbounds : box;                              (* target_model.bounds *)
  k_pre : list erow;                            (* precomputed evidence *)
  k_oracle : list bool;                         (* the is_ready answers the client gave, in order *)
  k_acq_tab : list (list row);                  (* what the k-th acquire call returned *)
  k_batches : list (list erow);                 (* by batch index: the rows the simulator operation received, with the target computed from them *)
  (* observed on the implementation *)
  k_trace : list event;
  k_X : list erow;                              (* target_model.X / .Y after the run *)
  k_nev : Z;                                    (* state['n_evidence'] *)
  k_nbatches : nat;                             (* state['n_batches'] *)
  k_lastgp : Z;                                 (* state['last_GP_update'] *)
  k_acqlog : list (nat * nat * Z * nat);        (* per acquire call: next batch index, n, t, target_model.n_evidence *)
  k_optlog : list bool;                         (* optimize flag of every target_model.update *)
  k_supplied : list (nat * option (list row))   (* what prepare_new_batch returned, per consumed batch *)
}.

(** the user's box in parameter order (Num/Acq.v: box_of) *)
Definition k_bounds (k : bo_case) : box :=
  match box_of (k_names k) (k_dict k) with Some b => b | None => [] end.

Definition erow_eqb (x y : erow) : bool := row_eqb (fst x) (fst y) && Qeq_bool (snd x) (snd y).

Fixpoint list_eqb {X} (f : X -> X -> bool) (a b : list X) : bool :=
  match a, b with
  | [], [] => true
  | x :: a', y :: b' => f x y && list_eqb f a' b'
  | _, _ => false
  end.

Definition sup_eqb (x y : nat * option (list row)) : bool :=
  Nat.eqb (fst x) (fst y) &&
  match snd x, snd y with
  | None, None => true
  | Some a, Some b => list_eqb row_eqb a b
  | _, _ => false
  end.

Definition alog_eqb (x y : nat * nat * Z * nat) : bool :=
  let '(i, n, t, k) := x in let '(i', n', t', k') := y in
  Nat.eqb i i' && Nat.eqb n n' && Z.eqb t t' && Nat.eqb k k'.

(** the oracles of Sched/Bo.v read off the recorded tables; the acquisition state is the call counter *)
Definition tab_acq (tab : list (list row)) (a : nat) (_ : list erow) (_ : nat) (_ : Z) : list row * nat :=
  (nth a tab [], S a).
Definition tab_compute (batches : list (list erow)) (i : nat) (_ : option (list row)) : list erow :=
  nth i batches [].

Definition bo_model (k : bo_case) :=
  infer row Q nat (tab_acq (k_acq_tab k)) (tab_compute (k_batches k)) (k_cfg k)
        (S (length (k_batches k))) (k_maxp k) (sched0 row Q nat (k_cfg k) (k_pre k) 0) (k_oracle k) [].

Definition bo_seq (k : bo_case) :=
  seq_run row Q nat (tab_acq (k_acq_tab k)) (tab_compute (k_batches k)) (k_cfg k)
          (S (length (k_batches k))) (estate0 row Q (k_cfg k) (k_pre k)) (qstate0 row nat 0) 0 [].

Definition bo_agree (k : bo_case) : bool :=
  match bo_model k with
  | inl (s, tr) =>
      trace_eqb tr (k_trace k)
      && box_eqb (k_bounds k) (k_mbounds k)       (* the surrogate's box is the one built by name from the dict *)
      && list_eqb erow_eqb (ev (es s)) (k_X k)
      && Z.eqb (n_ev (es s)) (k_nev k)
      && Nat.eqb (nb (es s)) (k_nbatches k)
      && Z.eqb (last_gp (es s)) (k_lastgp k)
      && list_eqb alog_eqb (acqlog (qs s)) (k_acqlog k)
      && list_eqb Bool.eqb (optlog (es s)) (k_optlog k)
      && list_eqb sup_eqb (clog s) (k_supplied k)
      (* with synchronous acquisition the sequential model run ends in the same evidence *)
      && (c_async (k_cfg k) ||
          match bo_seq k with
          | Some (e, _, _, _) => list_eqb erow_eqb (ev e) (k_X k)
          | None => false
          end)
  | inr _ => false
  end.

(** ---- the property on the implementation's observations ---- *)
Definition supplied_matches (k : bo_case) (ip : nat * option (list row)) : bool :=
  let i := fst ip in
  match snd ip with
  | None => (acq_index (k_cfg k) i <? 0)%Z
  | Some rows =>
      (0 <=? acq_index (k_cfg k) i)%Z
      && Nat.eqb (length rows) (c_b (k_cfg k))
      && forallb (in_box (k_bounds k)) rows
      && list_eqb row_eqb rows (map fst (nth i (k_batches k) []))     (* simulated = supplied *)
  end.

Definition acq_entry_okb (k : bo_case) (x : nat * nat * Z * nat) : bool :=
  let '(i, n, t, cnt) := x in
  Nat.eqb n (c_b (k_cfg k) * c_bpa (k_cfg k))
  && Z.eqb t (acq_index (k_cfg k) i) && (0 <=? t)%Z
  && (c_async (k_cfg k) || Nat.eqb cnt (length (k_pre k) + c_b (k_cfg k) * i)).

Definition acq_answer_okb (k : bo_case) (rows : list row) : bool :=
  Nat.eqb (length rows) (c_b (k_cfg k) * c_bpa (k_cfg k)) && forallb (in_box (k_bounds k)) rows.

Definition bo_ok (k : bo_case) : bool :=
  let n := k_nbatches k in
  match trace_ok (k_maxp k) (k_trace k) with Some m => Nat.eqb m n | None => false end
  && match box_of (k_names k) (k_dict k) with Some _ => true | None => false end
  && list_eqb erow_eqb (k_X k) (k_pre k ++ concat (firstn n (k_batches k)))
  && Nat.leb n (length (k_batches k))
  && Z.eqb (k_nev k) (c_npre (k_cfg k) + Z.of_nat (c_b (k_cfg k)) * Z.of_nat n)
  && Z.eqb (k_nev k) (Z.of_nat (length (k_X k)))
  && list_eqb Nat.eqb (map fst (k_supplied k)) (seq 0 n)
  && forallb (supplied_matches k) (k_supplied k)
  && forallb (acq_entry_okb k) (k_acqlog k)
  && forallb (acq_answer_okb k) (k_acq_tab k).

(** ---- values of the translated LCBSC formulas ---- *)
Record grad_case := {
  g_beta : Q; g_mean : Q; g_var : Q; g_gmean : Q; g_gvar : Q;
  g_sqrt : list (Q * Q);      (* np.sqrt calls: (argument, result) *)
  g_val : Q;                  (* LCBSC.evaluate at the row *)
  g_grad : Q                  (* LCBSC.evaluate_gradient at the row, one coordinate *)
}.

Definition tol : Q := (1 # 1000000000)%Q.

Fixpoint near_q (t : list (Q * Q)) (x : Q) : Q :=
  match t with
  | [] => 0%Q
  | (a, r) :: t' => if Qle_bool (Qabs (x - a)%Q) (tol * Qabs a)%Q then r else near_q t' x
  end.

(** Scale-free closeness (wave 3).  The surrogate's outputs may live at any scale (targets of order
    1e-4 ... 1e4, boxes of width 1e-3 ... 1e3: predictive variances from 1e-16 to 1e6), so nothing is
    compared with an absolute tolerance: [rel_close scale a b] is |a - b| <= 1e-9 * scale, where the
    scale of an LCBSC value is |mean| + |sqrt(beta var)| and the scale of a gradient coordinate is
    |grad_mean| + |1/2 grad_var sqrt(beta/var)| (the magnitudes of the two terms of the translated
    formulas, which may cancel in the result).  Both scales are read off the translated text itself. *)
Definition rel_close (scale a b : Q) : bool := Qle_bool (Qabs (a - b)%Q) (tol * scale)%Q.

Definition val_scale (sq : Q -> Q) (beta mean var : Q) : Q :=
  (Qabs mean + Qabs (lcbscQ sq beta 0 var 0))%Q.
Definition grad_scale (sq : Q -> Q) (beta mean var gm gv : Q) : Q :=
  (Qabs gm + Qabs (lcbsc_gradQ sq beta mean var 0 gv 0))%Q.

(** the sqrt oracle is a square root: r >= 0 and r*r = a up to 1e-9 |a| *)
Definition sqrt_entry_ok (ar : Q * Q) : bool :=
  Qle_bool 0%Q (snd ar) && rel_close (Qabs (fst ar)) (snd ar * snd ar)%Q (fst ar).

Definition grad_val_ok (g : grad_case) : bool :=
  let sq := near_q (g_sqrt g) in
  rel_close (val_scale sq (g_beta g) (g_mean g) (g_var g)) (g_val g) (lcbscQ sq (g_beta g) (g_mean g) (g_var g) 0%Q).
Definition grad_grad_ok (g : grad_case) : bool :=
  let sq := near_q (g_sqrt g) in
  rel_close (grad_scale sq (g_beta g) (g_mean g) (g_var g) (g_gmean g) (g_gvar g)) (g_grad g)
            (lcbsc_gradQ sq (g_beta g) (g_mean g) (g_var g) (g_gmean g) (g_gvar g) 0%Q).

Definition grad_agree (g : grad_case) : bool := grad_val_ok g && grad_grad_ok g.

(** the hypotheses of the derivative theorem hold at the sampled point, the sqrt oracle is a square root,
    and the value / the gradient the code returned are the translated formulas -- of which the second is
    proved to be the derivative of the first (Properties/C11.v: C11_lcbsc_gradient_is_derivative) -- on the
    surrogate's outputs, at the relative tolerance *)
Definition grad_ok (g : grad_case) : bool :=
  negb (Qle_bool (g_beta g) 0%Q) && negb (Qle_bool (g_var g) 0%Q)
  && forallb sqrt_entry_ok (g_sqrt g)
  && grad_val_ok g && grad_grad_ok g.

(** ---- histories of calls on ONE LCBSC object over ONE surrogate that changes in between ----

    A step is one query point.  Between steps the harness may update the surrogate with new evidence,
    re-optimise its hyper-parameters, or call acquire.  The model has NO state across steps: the value
    and the gradient of a step are the translated formulas on the surrogate's CURRENT predict /
    predictive_gradients outputs (recorded at the step, straight from the surrogate).                  *)

(** per coordinate, what the finite-difference second opinion needs *)
Record fdaux := {
  x_h : Q;                                     (* step size of h_fd along this coordinate (1e-5 of the box width); h_fd2 uses x_h / 10 *)
  x_rough : Q;                                 (* measured numerical roughness of evaluate near x (largest |second difference| at spacing 1e-7, 2e-7 widths) *)
  x_sm : Q; x_sv : Q;                          (* central differences of the surrogate's own mean / variance, step x_h *)
  x_sm2 : Q; x_sv2 : Q                         (* the same, step x_h / 10 *)
}.

Record hstep := {
  h_beta : Q; h_mean : Q; h_var : Q;           (* _beta(t); current model.predict(x, noiseless=True) *)
  h_gmean : list Q; h_gvar : list Q;           (* current model.predictive_gradients(x), per coordinate *)
  h_sqrt : list (Q * Q);                       (* np.sqrt: (argument, result) *)
  h_val : option Q;                            (* evaluate(x, t) of the long-lived object (None: not called at this step) *)
  h_grad : option (list Q);                    (* evaluate_gradient(x, t) of the long-lived object *)
  h_fval : Q; h_fgrad : list Q;                (* the same methods of a freshly constructed LCBSC over the same surrogate *)
  h_fd : list Q;                               (* central differences of the fresh object's evaluate, step x_h *)
  h_fd2 : list Q;                              (* the same with step x_h / 10 *)
  h_aux : list fdaux
}.

Record hist_case := {
  hs_names : list string; hs_dict : bdict; hs_mbounds : box;
  hs_steps : list hstep;
  hs_acq : list (nat * list row)               (* acquire(n, t) calls of the long-lived object made along the history: n, rows *)
}.

Definition hs_bounds (h : hist_case) : box :=
  match box_of (hs_names h) (hs_dict h) with Some b => b | None => [] end.

Definition step_val (s : hstep) : Q := lcbscQ (near_q (h_sqrt s)) (h_beta s) (h_mean s) (h_var s) 0%Q.

Fixpoint step_grad_go (s : hstep) (gm gv : list Q) : list Q :=
  match gm, gv with
  | a :: gm', b :: gv' => lcbsc_gradQ (near_q (h_sqrt s)) (h_beta s) (h_mean s) (h_var s) a b 0%Q :: step_grad_go s gm' gv'
  | _, _ => []
  end.
Definition step_grad (s : hstep) : list Q := step_grad_go s (h_gmean s) (h_gvar s).

(** the model of a whole history: one (value, gradient) per step, each from that step's surrogate alone *)
Definition hist_model (steps : list hstep) : list (Q * list Q) := map (fun s => (step_val s, step_grad s)) steps.

Definition step_vscale (s : hstep) : Q := val_scale (near_q (h_sqrt s)) (h_beta s) (h_mean s) (h_var s).
Definition step_gscale (s : hstep) (gm gv : Q) : Q := grad_scale (near_q (h_sqrt s)) (h_beta s) (h_mean s) (h_var s) gm gv.

(** two gradients agree, coordinate by coordinate, at 1e-9 of that coordinate's scale *)
Fixpoint grad_rel_go (s : hstep) (gm gv g g' : list Q) : bool :=
  match gm, gv, g, g' with
  | [], [], [], [] => true
  | m :: gm', v :: gv', a :: g1, b :: g2 => rel_close (step_gscale s m v) a b && grad_rel_go s gm' gv' g1 g2
  | _, _, _, _ => false
  end.
Definition grad_rel (s : hstep) (g g' : list Q) : bool := grad_rel_go s (h_gmean s) (h_gvar s) g g'.

(** ---- finite differences: a second opinion, scale-free ----

    Steps are relative to the box width.  The central difference of evaluate is compared with the
    gradient at [ft] = 5e-4 of |g| + |fd| + the coordinate's scale, plus what binary64 costs: the measured
    roughness of evaluate near the point (4x) and 1e-14 of the value's scale, divided by the step.
    The second opinion is only asked where the SURROGATE's own outputs (GPy: an oracle) are numerically
    self-consistent for that step: its mean / variance gradients equal the central differences of its
    mean / variance at [ct] = 1e-4, and the step changes the variance by at most [st] = 1e-3 of itself
    (sqrt is then linear enough).  Where they are not for either step (ill-conditioned kernel matrices:
    target values of order 1e-4 under GPy's unit default kernel variance; query points on top of an
    evidence point) the finite difference has no opinion; the exact clauses of [step_ok] still apply. *)
Definition ct : Q := (1 # 10000)%Q.
Definition st : Q := (1 # 1000)%Q.
Definition ft : Q := (5 # 10000)%Q.

Definition rel2 (t a b : Q) : bool := Qle_bool (Qabs (a - b)%Q) (t * (Qabs a + Qabs b))%Q.

Definition surr_cons (s : hstep) (m v hh sm sv : Q) : bool :=
  rel2 ct m sm && rel2 ct v sv && Qle_bool (Qabs (hh * v)%Q) (st * h_var s)%Q.

Definition fd_noise (s : hstep) (rough : Q) : Q := ((4 # 1) * rough + (1 # 100000000000000) * step_vscale s)%Q.

Definition fd_tol_ok (s : hstep) (m v hh rough a b : Q) : bool :=
  Qle_bool (Qabs (a - b)%Q) (ft * (Qabs a + Qabs b) + ft * step_gscale s m v + fd_noise s rough / hh)%Q.

Definition fd_coord (s : hstep) (m v a b c : Q) (x : fdaux) : bool :=
  let h1 := x_h x in
  let h2 := (x_h x / (10 # 1))%Q in
  let c1 := surr_cons s m v h1 (x_sm x) (x_sv x) in
  let c2 := surr_cons s m v h2 (x_sm2 x) (x_sv2 x) in
  negb (Qle_bool (x_h x) 0%Q)
  && ((c1 && fd_tol_ok s m v h1 (x_rough x) a b) || (c2 && fd_tol_ok s m v h2 (x_rough x) a c) || (negb c1 && negb c2)).

Fixpoint fd_match_go (s : hstep) (gm gv g f1 f2 : list Q) (aux : list fdaux) : bool :=
  match gm, gv, g, f1, f2, aux with
  | [], [], [], [], [], [] => true
  | m :: gm', v :: gv', a :: g', b :: f1', c :: f2', x :: aux' =>
      fd_coord s m v a b c x && fd_match_go s gm' gv' g' f1' f2' aux'
  | _, _, _, _, _, _ => false
  end.
Definition fd_match (s : hstep) (g : list Q) : bool := fd_match_go s (h_gmean s) (h_gvar s) g (h_fd s) (h_fd2 s) (h_aux s).

Definition opt_all {X} (f : X -> bool) (o : option X) : bool := match o with None => true | Some x => f x end.

Definition step_agree (s : hstep) : bool :=
  rel_close (step_vscale s) (step_val s) (h_fval s)
  && opt_all (rel_close (step_vscale s) (step_val s)) (h_val s)
  && grad_rel s (step_grad s) (h_fgrad s)
  && opt_all (grad_rel s (step_grad s)) (h_grad s).

Definition hist_agree (h : hist_case) : bool :=
  forallb step_agree (hs_steps h) && box_eqb (hs_bounds h) (hs_mbounds h).

(** the property on the implementation's answers alone: what the long-lived object returns is what a
    fresh object returns on the surrogate as it is NOW; the value is mean - sqrt(beta var) and the gradient
    is grad_mean - 1/2 grad_var sqrt(beta / var) of the surrogate's current outputs (the translated pair, of
    which the second is proved to be the derivative of the first) at 1e-9 of their scales -- at EVERY scale
    of the surrogate; central differences of the current acquisition function agree where they have an
    opinion; and the points acquired along the way are in the user's box, as many as asked *)
Definition step_ok (s : hstep) : bool :=
  negb (Qle_bool (h_beta s) 0%Q) && negb (Qle_bool (h_var s) 0%Q)
  && forallb sqrt_entry_ok (h_sqrt s)
  && opt_all (fun v => rel_close (step_vscale s) v (h_fval s) && rel_close (step_vscale s) v (step_val s)) (h_val s)
  && opt_all (fun g => grad_rel s g (h_fgrad s) && grad_rel s g (step_grad s) && fd_match s g) (h_grad s)
  && rel_close (step_vscale s) (h_fval s) (step_val s)
  && grad_rel s (h_fgrad s) (step_grad s)
  && fd_match s (h_fgrad s).

Definition hacq_ok (h : hist_case) (a : nat * list row) : bool :=
  Nat.eqb (length (snd a)) (fst a) && forallb (in_box (hs_bounds h)) (snd a).

Definition hist_ok (h : hist_case) : bool :=
  match box_of (hs_names h) (hs_dict h) with Some _ => true | None => false end
  && forallb step_ok (hs_steps h) && forallb (hacq_ok h) (hs_acq h).

(** ---- one case type for the driver ---- *)
Inductive case :=
| CAcq (a : Acq.case)
| CBo (k : bo_case)
| CGrad (g : grad_case)
| CHist (h : hist_case).

Definition agree (c : case) : bool :=
  match c with CAcq a => Acq.agree a | CBo k => bo_agree k | CGrad g => grad_agree g | CHist h => hist_agree h end.

Definition ok (c : case) : bool :=
  match c with CAcq a => Acq.ok a | CBo k => bo_ok k | CGrad g => grad_ok g | CHist h => hist_ok h end.
