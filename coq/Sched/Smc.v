(** The SMC-ABC sampler's round structure (elfi/methods/inference/samplers.py: SMC.set_objective /
    update / _init_new_round / _set_rejection_round / _extract_population / _update_objective) as an
    instance of the scheduler's abstract method, with one rejection sampler per round (C07, C04). *)
From Coq Require Import List ZArith Arith Bool PrimFloat.
From Elfi Require Import Sched.Sched Sched.Reject.
Import ListNotations.

(** how the threshold of a round is set *)
Inductive round_spec :=
| RQuantile0 (q : float)        (* first round of a quantile run: rejection with quantile q *)
| RThreshold (t : edisc).       (* a given threshold, or the weighted quantile selected from the previous population *)

Record population := {
  p_rows : list slot;
  p_threshold : edisc;
  p_n_sim : nat;
  p_n_batches : nat
}.

Record sstate := {
  m_n : nat; m_b : nat; m_maxp : nat;
  m_rounds : list round_spec;           (* all rounds, index = round number *)
  m_round : nat;                        (* state['round'] *)
  m_round_start : nat;                  (* batch index at which this round's rejection sampler started *)
  m_rej : rstate;                       (* the current round's rejection sampler *)
  m_pops : list population;             (* finished populations, oldest first *)
  m_total : nat                         (* state['n_batches'] *)
}.

Definition rejection_for (n b maxp : nat) (r : round_spec) : rstate :=
  match r with
  | RQuantile0 q => let '(obj, thr) := initial_objective n b (ByQuantile q) in rinit n b thr obj
  | RThreshold t => rinit n b (Some t) maxp
  end.

Definition pop_of (r : rstate) : population :=
  let e := extract r in
  {| p_rows := res_rows e; p_threshold := res_threshold e; p_n_sim := res_n_sim e; p_n_batches := res_n_batches e |}.

Definition sum_batches (ps : list population) : nat := fold_right (fun p a => p_n_batches p + a) 0 ps.

(** _update_objective *)
Definition sobjective (s : sstate) : nat := sum_batches (m_pops s) + r_objective (m_rej s).
Definition sconsumed (s : sstate) : nat := m_total s.

(** SMC.update: returns the new state and whether pending batches were cancelled *)
Definition supdate (s : sstate) (batch : list draw) (i : nat) : sstate * bool :=
  let rej' := fst (rupdate (m_rej s) batch i) in
  let total' := S (m_total s) in
  if r_objective rej' <=? r_nbatches rej' then
    (* the round's rejection sampler is finished: pending batches are cancelled *)
    if S (m_round s) <? length (m_rounds s) then
      let r' := S (m_round s) in
      ({| m_n := m_n s; m_b := m_b s; m_maxp := m_maxp s; m_rounds := m_rounds s;
          m_round := r'; m_round_start := S i;
          m_rej := rejection_for (m_n s) (m_b s) (m_maxp s) (nth r' (m_rounds s) (RThreshold PInf));
          m_pops := m_pops s ++ [pop_of rej']; m_total := total' |}, true)
    else
      ({| m_n := m_n s; m_b := m_b s; m_maxp := m_maxp s; m_rounds := m_rounds s;
          m_round := m_round s; m_round_start := m_round_start s;
          m_rej := rej'; m_pops := m_pops s; m_total := total' |}, true)
  else
    ({| m_n := m_n s; m_b := m_b s; m_maxp := m_maxp s; m_rounds := m_rounds s;
        m_round := m_round s; m_round_start := m_round_start s;
        m_rej := rej'; m_pops := m_pops s; m_total := total' |}, false).

Definition sinit (n b maxp : nat) (rounds : list round_spec) : sstate :=
  {| m_n := n; m_b := b; m_maxp := maxp; m_rounds := rounds; m_round := 0; m_round_start := 0;
     m_rej := rejection_for n b maxp (nth 0 rounds (RThreshold PInf)); m_pops := []; m_total := 0 |}.

(** the proposals of a batch are drawn, at submission, from the round's own generator: the k-th
    submission of a round takes the k-th chunk of that round's stream *)
Section Instance.
  Variable P : Type.
  Variable proposal : nat -> nat -> P.                 (* round, position within the round *)
  Variable compute : nat -> P -> list draw.

  Definition sprepare (s : sstate) (idx : nat) : P := proposal (m_round s) (idx - m_round_start s).

  Definition sinfer (fuel maxp : nat) (s0 : sstate) (orc : list bool) :=
    infer sstate (list draw) P sobjective sconsumed sprepare compute supdate
          fuel maxp {| st := s0; next := 0; pending := [] |} orc [].

  Definition sseq (fuel : nat) (s0 : sstate) :=
    seq_run sstate (list draw) P sobjective sconsumed sprepare compute supdate fuel s0 0.
End Instance.

(** extract_result: the last population is appended when the result is extracted *)
Definition all_populations (s : sstate) : list population := m_pops s ++ [pop_of (m_rej s)].

(** ---- correspondence-check interface (C07) ---- *)
Record case := {
  v_n : nat; v_b : nat; v_maxp : nat;
  v_rounds : list round_spec;               (* thresholds in force (selected quantiles already resolved) *)
  v_table : list (list draw);               (* every consumed batch, by batch index *)
  v_pops : list population;                 (* what the implementation returned, per population *)
  v_n_sim : nat                             (* SmcSample.n_sim *)
}.

Definition pop_eqb (a b : population) : bool :=
  rows_eqb (p_rows a) (p_rows b) && deqb (p_threshold a) (p_threshold b)
  && Nat.eqb (p_n_sim a) (p_n_sim b) && Nat.eqb (p_n_batches a) (p_n_batches b).

Fixpoint pops_eqb (a b : list population) : bool :=
  match a, b with
  | [], [] => true
  | x :: r, y :: s => pop_eqb x y && pops_eqb r s
  | _, _ => false
  end.

Definition model_run (c : case) : option sstate :=
  match sseq unit (fun _ _ => tt) (fun i _ => nth i (v_table c) []) (S (length (v_table c)))
             (sinit (v_n c) (v_b c) (v_maxp c) (v_rounds c)) with
  | Some (s, _) => Some s
  | None => None
  end.

Definition agree (c : case) : bool :=
  match model_run c with
  | Some s => pops_eqb (all_populations s) (v_pops c) && Nat.eqb (m_total s * v_b c) (v_n_sim c)
  | None => false
  end.

(** the structural clauses of the property on the implementation's populations *)
Definition round_threshold (r : round_spec) : option edisc :=
  match r with RQuantile0 _ => None | RThreshold t => Some t end.

Fixpoint pops_ok (n : nat) (rounds : list round_spec) (pops : list population) : bool :=
  match rounds, pops with
  | [], [] => true
  | r :: rr, p :: pp =>
      Nat.eqb (length (p_rows p)) n
      && forallb (fun s => match s with Some _ => true | None => false end) (p_rows p)
      && ascending (p_rows p)
      && match round_threshold r with
         | Some t => forallb (fun s => dle (sdisc s) t) (p_rows p)
         | None => true
         end
      && pops_ok n rr pp
  | _, _ => false
  end.

Definition ok (c : case) : bool :=
  pops_ok (v_n c) (v_rounds c) (v_pops c)
  (* n_sim is the total number of simulations consumed over all rounds *)
  && Nat.eqb (v_n_sim c) (fold_right (fun p a => p_n_sim p + a) 0 (v_pops c))
  && Nat.eqb (v_n_sim c) (v_b c * length (v_table c)).
