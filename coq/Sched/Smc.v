(** The SMC-ABC sampler's round structure (elfi/methods/inference/samplers.py: SMC.set_objective /
    update / _init_new_round / _set_rejection_round / _extract_population / _update_objective) as an
    instance of the scheduler's abstract method, with one rejection sampler per round (C07, C04). *)
From Coq Require Import List ZArith QArith Qabs Arith Bool PrimFloat.
From Elfi Require Import Sched.Sched Sched.Reject.
From Elfi Require Num.Quantile.
Import ListNotations.
Local Close Scope Q_scope.

(** how the threshold of a round is set *)
Inductive round_spec :=
| RQuantile0 (q : float)        (* first round of a quantile run: rejection with quantile q *)
| RThreshold (t : edisc).       (* a given threshold, or the weighted quantile selected from the previous population *)

Record population := {
  p_rows : list slot;
  p_threshold : edisc;
  p_n_sim : nat;
  p_n_batches : nat
}.

Record sstate := {
  m_n : nat; m_b : nat; m_maxp : nat;
  m_rounds : list round_spec;           (* all rounds, index = round number *)
  m_round : nat;                        (* state['round'] *)
  m_round_start : nat;                  (* batch index at which this round's rejection sampler started *)
  m_rej : rstate;                       (* the current round's rejection sampler *)
  m_pops : list population;             (* finished populations, oldest first *)
  m_total : nat                         (* state['n_batches'] *)
}.

Definition rejection_for (n b maxp : nat) (r : round_spec) : rstate :=
  match r with
  | RQuantile0 q => let '(obj, thr) := initial_objective n b (ByQuantile q) in rinit n b thr obj
  | RThreshold t => rinit n b (Some t) maxp
  end.

Definition pop_of (r : rstate) : population :=
  let e := extract r in
  {| p_rows := res_rows e; p_threshold := res_threshold e; p_n_sim := res_n_sim e; p_n_batches := res_n_batches e |}.

Definition sum_batches (ps : list population) : nat := fold_right (fun p a => p_n_batches p + a) 0 ps.

(** _update_objective *)
Definition sobjective (s : sstate) : nat := sum_batches (m_pops s) + r_objective (m_rej s).
Definition sconsumed (s : sstate) : nat := m_total s.

(** SMC.update: returns the new state and whether pending batches were cancelled *)
Definition supdate (s : sstate) (batch : list draw) (i : nat) : sstate * bool :=
  let rej' := fst (rupdate (m_rej s) batch i) in
  let total' := S (m_total s) in
  if r_objective rej' <=? r_nbatches rej' then
    (* the round's rejection sampler is finished: pending batches are cancelled *)
    if S (m_round s) <? length (m_rounds s) then
      let r' := S (m_round s) in
      ({| m_n := m_n s; m_b := m_b s; m_maxp := m_maxp s; m_rounds := m_rounds s;
          m_round := r'; m_round_start := S i;
          m_rej := rejection_for (m_n s) (m_b s) (m_maxp s) (nth r' (m_rounds s) (RThreshold PInf));
          m_pops := m_pops s ++ [pop_of rej']; m_total := total' |}, true)
    else
      ({| m_n := m_n s; m_b := m_b s; m_maxp := m_maxp s; m_rounds := m_rounds s;
          m_round := m_round s; m_round_start := m_round_start s;
          m_rej := rej'; m_pops := m_pops s; m_total := total' |}, true)
  else
    ({| m_n := m_n s; m_b := m_b s; m_maxp := m_maxp s; m_rounds := m_rounds s;
        m_round := m_round s; m_round_start := m_round_start s;
        m_rej := rej'; m_pops := m_pops s; m_total := total' |}, false).

Definition sinit (n b maxp : nat) (rounds : list round_spec) : sstate :=
  {| m_n := n; m_b := b; m_maxp := maxp; m_rounds := rounds; m_round := 0; m_round_start := 0;
     m_rej := rejection_for n b maxp (nth 0 rounds (RThreshold PInf)); m_pops := []; m_total := 0 |}.

(** the proposals of a batch are drawn, at submission, from the round's own generator: the k-th
    submission of a round takes the k-th chunk of that round's stream *)
Section Instance.
  Variable P : Type.
  Variable proposal : nat -> nat -> P.                 (* round, position within the round *)
  Variable compute : nat -> P -> list draw.

  Definition sprepare (s : sstate) (idx : nat) : P := proposal (m_round s) (idx - m_round_start s).

  Definition sinfer (fuel maxp : nat) (s0 : sstate) (orc : list bool) :=
    infer sstate (list draw) P sobjective sconsumed sprepare compute supdate
          fuel maxp {| st := s0; next := 0; pending := [] |} orc [].

  Definition sseq (fuel : nat) (s0 : sstate) :=
    seq_run sstate (list draw) P sobjective sconsumed sprepare compute supdate fuel s0 0.
End Instance.

(** extract_result: the last population is appended when the result is extracted *)
Definition all_populations (s : sstate) : list population := m_pops s ++ [pop_of (m_rej s)].

(** ---- the numeric clauses (C07): prior support, importance weights, proposal covariance ----
    _compute_weights_means_and_cov: [w = 1] for the first population, otherwise
    [w = exp(prior.logpdf(x) - GMDistribution.logpdf(x, prev.means, prev.cov, prev.weights))];
    [cov = 2 * diag(weighted_var(params, w))].  The mixture density and the weighted variance are the
    C13 models ([Quantile.gm_pdf], [Quantile.weighted_var]); the prior density of a particle and the
    normal densities [N(x_i; m_j, C_prev)] are oracle tables.  Nothing in these definitions knows
    the units of a parameter: all comparisons are purely relative. *)
(** a binary64 value [m * 2^e] as an exact rational (keeps the case files short) *)
Definition qf (m e : Z) : Q :=
  match e with
  | Zneg p => Qmake m (Pos.pow 2 p)
  | _ => Qmake (m * Z.pow 2 e) 1
  end.

Section Numeric.
Open Scope Q_scope.

(** |a - b| <= tol |a|: no absolute allowance, so the clause is the same in all units *)
Definition rel_close (tol a b : Q) : bool := Qle_bool (Qabs (a - b)) (tol * Qabs a).

(** the weight of a particle with prior density [prior] whose component densities under the previous
    population's mixture are [dens], that population's weights being [wprev] *)
Definition model_weight (prior : Q) (dens wprev : list Q) : option Q :=
  match Quantile.gm_pdf dens (Some wprev) with
  | Some q => if Qeq_bool q 0 then None else Some (Qred (prior / q))      (* exp(-(-inf)) = inf *)
  | None => None
  end.
Definition spec_weight (prior : Q) (dens wprev : list Q) : Q := prior / Quantile.spec_pdf dens wprev.

(** one diagonal entry of the new covariance *)
Definition model_cov (col ws : list Q) : option Q :=
  option_map (fun v => Qred (2 * v)) (Quantile.weighted_var col (Some ws)).
Definition spec_cov (col ws : list Q) : Q := 2 * Quantile.spec_var (combine col ws).

(** the binary64 evaluation of the variance is entitled to a few ulp times the conditioning
    [V1 / (V1 - V2/V1)] of its denominator (weights (1-e, e) lose log10(1/e) digits in any order of
    the operations) on top of the comparison tolerance *)
Definition cov_tol (ws : list Q) : Q :=
  let V1 := Quantile.qsum ws in
  let V2 := Quantile.qsum (map Quantile.sq ws) in
  Qred ((1 # 1000000000) + (64 # 1) * (23 # 100000000000000000) * (V1 / (V1 - V2 / V1))).
Definition weight_tol : Q := 1 # 100000000.

Record npop := {
  q_support : list bool;           (* oracle: the independent log prior density of each particle is > -inf *)
  q_prior : list (option Q);       (* oracle: that density (None: it underflows in binary64) *)
  q_cols : list (list Q);          (* the particles, one list per parameter *)
  q_weights : list (option Q);     (* the implementation's weights (None: not finite) *)
  q_cov : list (list (option Q));  (* the implementation's covariance matrix, by rows *)
  q_dens : list (list Q)           (* oracle: per particle the densities N(x_i; m_j, C_prev) under the previous
                                      population's particles and covariance; [] for the first population *)
}.

Definition finite_weights (p : npop) : option (list Q) :=
  fold_right (fun w acc => match w, acc with Some v, Some l => Some (v :: l) | _, _ => None end) (Some []) (q_weights p).

Fixpoint zip3 {A B C} (a : list A) (b : list B) (c : list C) : list (A * B * C) :=
  match a, b, c with
  | x :: a', y :: b', z :: c' => (x, y, z) :: zip3 a' b' c'
  | _, _, _ => []
  end.

(** weights of one population against a weight function [f prior dens] *)
Definition weights_by (f : Q -> list Q -> option Q) (p : npop) (ws : list Q) : bool :=
  (length (q_prior p) =? length ws)%nat && (length (q_dens p) =? length ws)%nat
  && forallb (fun t => match t with
                       | (w, Some prior, dens) =>
                           match f prior dens with Some e => rel_close weight_tol e w | None => false end
                       | (_, None, _) => true
                       end) (zip3 ws (q_prior p) (q_dens p)).

(** covariance rows against a variance function: entry (k, k) close to [f col_k], all others exactly 0 *)
Definition cov_by (f : list Q -> option Q) (tol : Q) (p : npop) : bool :=
  (length (q_cov p) =? length (q_cols p))%nat
  && forallb (fun kr =>
       let '(k, row) := kr in
       (length row =? length (q_cols p))%nat
       && forallb (fun je =>
            let '(j, e) := je in
            match e with
            | Some c => if (j =? k)%nat
                        then match f (nth k (q_cols p) []) with Some v => rel_close tol v c | None => true end
                        else Qeq_bool c 0
            | None => false
            end) (combine (seq 0 (length row)) row))
     (combine (seq 0 (length (q_cov p))) (q_cov p)).

Definition shape_ok (n : nat) (p : npop) : bool :=
  (length (q_support p) =? n)%nat && (length (q_weights p) =? n)%nat
  && forallb (fun col => (length col =? n)%nat) (q_cols p) && negb (length (q_cols p) =? 0)%nat.

(** the property's numeric statement for one population; [prev]: the previous population's weights *)
Definition npop_ok (n : nat) (prev : option (list Q)) (p : npop) : bool :=
  shape_ok n p
  && forallb (fun b => b) (q_support p)                                  (* positive prior density *)
  && match finite_weights p with
     | None => false
     | Some ws =>
         forallb (Qle_bool 0) ws
         && match prev with
            | None => forallb (fun w => Qeq_bool w 1) ws                   (* first population: weights 1 *)
            | Some wprev => weights_by (fun prior dens => Some (spec_weight prior dens wprev)) p ws
            end
         (* when the allowance reaches 1 no digit of the binary64 variance is guaranteed (its denominator cancels
            completely, the code sees nan/inf and takes its unit-covariance fallback): not estimable, like V1 = V2/V1 *)
         && (if Quantile.var_defined (combine (nth 0 (q_cols p) []) ws) && negb (Qle_bool 1 (cov_tol ws))
             then cov_by (fun col => Some (spec_cov col ws)) (cov_tol ws) p
             else true)
     end.

(** what the code computes (C13 models of GMDistribution.pdf and weighted_var), same tolerances *)
Definition npop_agree (prev : option (list Q)) (p : npop) : bool :=
  match finite_weights p with
  | None => true                                                         (* nan/inf weights: nothing to compare *)
  | Some ws =>
      match prev with
      | None => forallb (fun w => Qeq_bool w 1) ws
      | Some wprev => weights_by (fun prior dens => model_weight prior dens wprev) p ws
      end
      (* the model evaluates the variance exactly; when no digit of the binary64 evaluation is guaranteed (allowance
         >= 1) the code may equally see nan/inf and store its unit-matrix fallback: nothing to compare *)
      && (if Qle_bool 1 (cov_tol ws) then true else cov_by (fun col => model_cov col ws) (cov_tol ws) p)
  end.

Fixpoint over_pops (f : option (list Q) -> npop -> bool) (prev : option (list Q)) (ps : list npop) : bool :=
  match ps with
  | [] => true
  | p :: r => f prev p && over_pops f (finite_weights p) r
  end.

Definition num_ok (n : nat) (ps : list npop) : bool := over_pops (npop_ok n) None ps.
Definition num_agree (ps : list npop) : bool := over_pops npop_agree None ps.
End Numeric.

(** ---- correspondence-check interface (C07) ---- *)
Record case := {
  v_n : nat; v_b : nat; v_maxp : nat;
  v_rounds : list round_spec;               (* thresholds in force (selected quantiles already resolved) *)
  v_table : list (list draw);               (* every consumed batch, by batch index *)
  v_pops : list population;                 (* what the implementation returned, per population *)
  v_n_sim : nat;                            (* SmcSample.n_sim *)
  v_num : list npop                         (* numeric side of every population *)
}.

Definition pop_eqb (a b : population) : bool :=
  rows_eqb (p_rows a) (p_rows b) && deqb (p_threshold a) (p_threshold b)
  && Nat.eqb (p_n_sim a) (p_n_sim b) && Nat.eqb (p_n_batches a) (p_n_batches b).

Fixpoint pops_eqb (a b : list population) : bool :=
  match a, b with
  | [], [] => true
  | x :: r, y :: s => pop_eqb x y && pops_eqb r s
  | _, _ => false
  end.

Definition model_run (c : case) : option sstate :=
  match sseq unit (fun _ _ => tt) (fun i _ => nth i (v_table c) []) (S (length (v_table c)))
             (sinit (v_n c) (v_b c) (v_maxp c) (v_rounds c)) with
  | Some (s, _) => Some s
  | None => None
  end.

Definition agree (c : case) : bool :=
  match model_run c with
  | Some s => pops_eqb (all_populations s) (v_pops c) && Nat.eqb (m_total s * v_b c) (v_n_sim c)
  | None => false
  end
  && num_agree (v_num c).

(** the structural clauses of the property on the implementation's populations *)
Definition round_threshold (r : round_spec) : option edisc :=
  match r with RQuantile0 _ => None | RThreshold t => Some t end.

Fixpoint pops_ok (n : nat) (rounds : list round_spec) (pops : list population) : bool :=
  match rounds, pops with
  | [], [] => true
  | r :: rr, p :: pp =>
      Nat.eqb (length (p_rows p)) n
      && forallb (fun s => match s with Some _ => true | None => false end) (p_rows p)
      && ascending (p_rows p)
      && match round_threshold r with
         | Some t => forallb (fun s => dle (sdisc s) t) (p_rows p)
         | None => true
         end
      && pops_ok n rr pp
  | _, _ => false
  end.

Definition ok (c : case) : bool :=
  pops_ok (v_n c) (v_rounds c) (v_pops c)
  (* n_sim is the total number of simulations consumed over all rounds *)
  && Nat.eqb (v_n_sim c) (fold_right (fun p a => p_n_sim p + a) 0 (v_pops c))
  && Nat.eqb (v_n_sim c) (v_b c * length (v_table c))
  (* prior support, importance weights and proposal covariance of every population *)
  && Nat.eqb (length (v_num c)) (length (v_pops c))
  && num_ok (v_n c) (v_num c).
