(** C12 — the adaptive scale has no absolute magnitude: data expressed in another unit ([c * data])
    has scale multiplied by [|c|] (here: [scale2] by [c * c]) and weights divided by it.  Together with
    the fact that the model is a function of the numeric values only (it has no storage dtype), this is
    the statement behind the correspondence check's "same numbers in every dtype, at every unit"
    dimension (model: Num/Welford.v). *)
From Coq Require Import String.
From Coq Require Import ZArith QArith Qabs List Bool Arith Lia Lqa Setoid Morphisms.
From Elfi Require Import Num.Distance Num.Welford Proofs.C12_Welford Proofs.C12_Distance.
Import ListNotations.
Open Scope Q_scope.

Lemma nth_scale c r : forall j, nth j (map (Qmult c) r) 0 == c * nth j r 0.
Proof.
  induction r as [|x r IH]; intros [|j]; simpl; try ring. apply IH.
Qed.

Lemma scale_mat_length c R : length (scale_mat c R) = length R.
Proof. apply map_length. Qed.

Lemma scale_mat_width c R : width (scale_mat c R) = width R.
Proof. destruct R as [|r R]; simpl; [reflexivity | apply map_length]. Qed.

Lemma scale_mat_nonempty c R : R <> [] -> scale_mat c R <> [].
Proof. destruct R; [congruence | discriminate]. Qed.

Lemma scale_mat_concat c bs : concat (map (scale_mat c) bs) = scale_mat c (concat bs).
Proof. unfold scale_mat. rewrite concat_map. reflexivity. Qed.

Lemma psum_col_scale c j R : psum (col j (scale_mat c R)) == c * psum (col j R).
Proof.
  induction R as [|r R IH]; simpl; [ring|].
  fold (scale_mat c R). fold (col j (scale_mat c R)). fold (col j R).
  rewrite nth_scale, IH. ring.
Qed.

Lemma psum_sq_col_scale c j R :
  psum (map Qsq (col j (scale_mat c R))) == c * c * psum (map Qsq (col j R)).
Proof.
  induction R as [|r R IH]; simpl; [ring|].
  fold (scale_mat c R). fold (col j (scale_mat c R)). fold (col j R).
  rewrite IH. unfold Qsq. rewrite nth_scale. ring.
Qed.

(** the population variance in terms of the two power sums (no side condition: [x / 0 = 0] in [Q]) *)
Lemma colvar_moments R j :
  let n := Qn (length R) in
  let S1 := psum (col j R) in
  let S2 := psum (map Qsq (col j R)) in
  colvar R j == (S2 - (2 # 1) * (S1 / n) * S1 + n * (S1 / n) * (S1 / n)) / n.
Proof.
  cbv zeta. rewrite colvar_eq, colss_eq, psum_map_sq_sub, col_length. reflexivity.
Qed.

(** the population variance of [c * data] is [c^2] times that of [data] - for EVERY [c] *)
Theorem colvar_scale c R j : colvar (scale_mat c R) j == c * c * colvar R j.
Proof.
  rewrite !colvar_moments, scale_mat_length, psum_col_scale, psum_sq_col_scale.
  unfold Qdiv. ring.
Qed.

Lemma wf_scale c w bs :
  Forall (fun b => b <> [] /\ width b = w) bs ->
  Forall (fun b => b <> [] /\ width b = w) (map (scale_mat c) bs).
Proof.
  intros HF. apply Forall_forall. intros b Hin. apply in_map_iff in Hin.
  destruct Hin as (b0 & <- & Hb0). rewrite Forall_forall in HF. destruct (HF b0 Hb0) as (Hne & Hw).
  split; [apply scale_mat_nonempty; exact Hne | rewrite scale_mat_width; exact Hw].
Qed.

(** [state['scale']^2] of a round whose data are expressed in another unit, for every partition *)
Theorem scale2_unit_change c w bs j :
  bs <> [] -> Forall (fun b => b <> [] /\ width b = w) bs -> (j < w)%nat ->
  nth j (scale2_of (fold_left add_data (map (scale_mat c) bs) store0)) 0
  == c * c * nth j (scale2_of (fold_left add_data bs store0)) 0.
Proof.
  intros Hne HF Hj.
  assert (Hne' : map (scale_mat c) bs <> []) by (destruct bs; [congruence | discriminate]).
  rewrite (scale2_is_variance w _ j Hne' (wf_scale c w bs HF) Hj).
  rewrite (scale2_is_variance w bs j Hne HF Hj).
  rewrite scale_mat_concat. apply colvar_scale.
Qed.

(** the weights appended by [update_distance] after such a round: divided by [c^2] (squares of
    [w / |c|]); from any two node states *)
Theorem weights_unit_change c a a' w bs :
  bs <> [] -> Forall (fun b => b <> [] /\ width b = w) bs ->
  exists a2 a2' w2 w2',
    update_distance (fold_left add_data_state bs (init_round a)) = Some a2
    /\ update_distance (fold_left add_data_state (map (scale_mat c) bs) (init_round a')) = Some a2'
    /\ a_funcs a2 = a_funcs a ++ [Some w2] /\ a_funcs a2' = a_funcs a' ++ [Some w2']
    /\ length w2 = w /\ length w2' = w
    /\ forall j, (j < w)%nat -> nth j w2' 0 == / (c * c) * nth j w2 0.
Proof.
  intros Hne HF.
  assert (Hne' : map (scale_mat c) bs <> []) by (destruct bs; [congruence | discriminate]).
  destruct (adaptive_round a w bs Hne HF) as (a2 & w2 & E & F & _ & L & W).
  destruct (adaptive_round a' w _ Hne' (wf_scale c w bs HF)) as (a2' & w2' & E' & F' & _ & L' & W').
  exists a2, a2', w2, w2'. repeat split; try assumption.
  intros j Hj. rewrite (W j Hj), (W' j Hj), scale_mat_concat, colvar_scale.
  apply Qinv_mult_distr.
Qed.

(** consequently the newest distance does not depend on the unit: summaries, observed values and
    adaptation data all expressed in the unit [c <> 0] give the same value *)
Theorem dist2_unit_free c var u o :
  ~ c == 0 -> length var = length u -> length o = length u ->
  dist2 (Some (map (fun v => c * c * v) var)) (map (Qmult c) u) (map (Qmult c) o) == dist2 (Some var) u o.
Proof.
  intros Hc. unfold dist2, diffs. rewrite !qsum_psum. revert var o.
  induction u as [|x u IH]; intros [|v var] [|y o] Lv Lo; simpl in *; try discriminate; try reflexivity.
  injection Lv as Lv. injection Lo as Lo.
  rewrite (IH var o Lv Lo). unfold Qsq.
  destruct (Qeq_dec v 0) as [Ev|Ev].
  - rewrite Ev. setoid_replace (c * c * 0) with 0 by ring. unfold Qdiv.
    setoid_replace (/ 0) with 0 by reflexivity. ring.
  - apply Qplus_inj_r. field. split; [exact Ev | exact Hc].
Qed.
