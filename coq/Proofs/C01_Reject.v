(** Proofs for C01: the rejection buffer always holds, in its first n rows, n smallest accepted
    draws among everything consumed, in ascending order, each row a consumed draw. *)
From Coq Require Import List ZArith Arith Bool Lia Sorting.Permutation Sorting.Sorted.
From Elfi Require Import Sched.Sched Sched.Reject Proofs.C01_Sorting.
Import ListNotations.

(** ---- the key order is a total preorder ---- *)
Ltac z_cases :=
  repeat match goal with
         | |- context [(?x =? ?y)%Z] => destruct (Z.eqb_spec x y)
         | |- context [(?x <=? ?y)%Z] => destruct (Z.leb_spec x y)
         end.

Lemma kle_total a b : kle a b = true \/ kle b a = true.
Proof.
  unfold kle, deqb, dle. destruct (sdisc a) as [x|], (sdisc b) as [y|], (unfilled a), (unfilled b); simpl;
    z_cases; simpl; auto; try lia.
Qed.

Lemma kle_trans a b c : kle a b = true -> kle b c = true -> kle a c = true.
Proof.
  unfold kle, deqb, dle. destruct (sdisc a) as [x|], (sdisc b) as [y|], (sdisc c) as [z|],
    (unfilled a), (unfilled b), (unfilled c); simpl; z_cases; simpl; intros; try discriminate; try reflexivity; try lia.
Qed.

Lemma kle_dle a b : kle a b = true -> dle (sdisc a) (sdisc b) = true.
Proof.
  unfold kle, deqb, dle. destruct (sdisc a) as [x|], (sdisc b) as [y|]; simpl; z_cases; simpl; intros; try discriminate; try reflexivity; try lia.
Qed.

Lemma dle_trans a b c : dle a b = true -> dle b c = true -> dle a c = true.
Proof. unfold dle. destruct a, b, c; simpl; z_cases; intros; try discriminate; try reflexivity; lia. Qed.

(** an unfilled row never precedes a filled one *)
Lemma kle_None_Some d : kle None (Some d) = false.
Proof. unfold kle, deqb, dle. simpl. destruct (d_disc d); reflexivity. Qed.

Lemma sinsert_eq x l : Reject.sinsert x l = C01_Sorting.sinsert slot kle x l.
Proof. induction l as [|y r IH]; simpl; [reflexivity|]. now rewrite IH. Qed.

Lemma ssort_eq l : Reject.ssort l = C01_Sorting.ssort slot kle l.
Proof.
  unfold Reject.ssort, C01_Sorting.ssort. generalize (@nil slot).
  induction l as [|x r IH]; intros acc; simpl; [reflexivity|]. now rewrite sinsert_eq, IH.
Qed.

Notation ksorted := (StronglySorted (leP slot kle)).

Lemma ssort_perm l : Permutation (Reject.ssort l) l.
Proof. rewrite ssort_eq. apply C01_Sorting.ssort_perm. Qed.

Lemma ssort_sorted l : ksorted (Reject.ssort l).
Proof. rewrite ssort_eq. apply C01_Sorting.ssort_sorted; [apply kle_total | apply kle_trans]. Qed.

(** ---- filled rows ---- *)
Definition filled (l : list slot) : list draw := flat_map (fun s : slot => match s with Some d => [d] | None => [] end) l.

Lemma filled_app l1 l2 : filled (l1 ++ l2) = filled l1 ++ filled l2.
Proof. unfold filled. apply flat_map_app. Qed.

Lemma filled_perm l l' : Permutation l l' -> Permutation (filled l) (filled l').
Proof.
  induction 1; simpl.
  - constructor.
  - now apply Permutation_app_head.
  - destruct x, y; simpl; try reflexivity. apply perm_swap.
  - etransitivity; eauto.
Qed.

Lemma filled_map_Some l : filled (map (fun d => Some d) l) = l.
Proof. induction l; simpl; congruence. Qed.

Lemma filled_In d l : In d (filled l) <-> In (Some d) l.
Proof.
  unfold filled. rewrite in_flat_map. split.
  - intros [s [Hs Hd]]. destruct s as [e|]; [destruct Hd as [<-|[]]; exact Hs | destruct Hd].
  - intros H. exists (Some d). split; [exact H | now left].
Qed.

Definition all_filled (l : list slot) : Prop := forall s, In s l -> s <> None.

(** in a sorted buffer the unfilled rows come last *)
Lemma sorted_filled_prefix l : ksorted l -> forall i j, i <= j -> j < length l -> nth j l None <> None -> nth i l None <> None.
Proof.
  intros Hs i j Hij Hj Hn Hi.
  pose proof (sorted_nth slot kle kle_total l None Hs i j Hij Hj) as H.
  rewrite Hi in H. destruct (nth j l None) as [d|]; [|congruence]. rewrite kle_None_Some in H. discriminate.
Qed.

(** ---- the invariant ---- *)
Record RInv (n b : nat) (buf : list slot) (acc : list draw) : Prop := {
  ri_len : length buf = n + b;
  ri_sorted : ksorted buf;
  ri_perm : exists dropped,
      Permutation (filled buf ++ dropped) acc /\
      (forall x y, In x dropped -> In y (firstn n buf) -> dle (sdisc y) (d_disc x) = true) /\
      (dropped = [] \/ all_filled buf)
}.

Lemma repeat_None_sorted k : ksorted (repeat (None : slot) k).
Proof.
  induction k; simpl; [constructor|]. constructor; [exact IHk|].
  apply Forall_forall. intros x Hx. apply repeat_spec in Hx. subst. reflexivity.
Qed.

Lemma filled_repeat_None k : filled (repeat (None : slot) k) = [].
Proof. induction k; simpl; auto. Qed.

Lemma RInv_init n b : RInv n b (repeat None (n + b)) [].
Proof.
  constructor.
  - apply repeat_length.
  - apply repeat_None_sorted.
  - exists []. rewrite filled_repeat_None. simpl. split; [constructor|]. split; [intros x y []|now left].
Qed.

Lemma In_firstn_incl {A} (l : list A) : forall n z, In z (firstn n l) -> In z l.
Proof.
  induction l as [|x r IH]; intros n z H; destruct n; simpl in H; try tauto.
  destruct H as [H|H]; [now left | right; eapply IH; eauto].
Qed.

Lemma firstn_In_nth {A} (l : list A) d n y : In y (firstn n l) -> exists j, j < n /\ j < length l /\ nth j l d = y.
Proof.
  intros H. destruct (In_nth _ _ d H) as [j [Hj Hn]]. rewrite firstn_length in Hj.
  exists j. repeat split; try lia. rewrite <- Hn. symmetry. apply nth_firstn_lt'. lia.
Qed.

Lemma perm4 {A} (a b c d : list A) : Permutation ((a ++ b) ++ (c ++ d)) (((a ++ d) ++ c) ++ b).
Proof.
  rewrite <- !app_assoc. apply Permutation_app_head.
  transitivity (b ++ (d ++ c)); [apply Permutation_app_head, Permutation_app_comm|].
  rewrite (Permutation_app_comm b). now rewrite <- app_assoc.
Qed.

(** one merge step *)
Lemma merge_step n b buf acc (new : list draw) :
  RInv n b buf acc -> length new <= b ->
  RInv n b (Reject.ssort (overwrite_tail buf (map (fun d => Some d) new))) (acc ++ new).
Proof.
  intros [Hlen Hsort [dropped [Hperm [Hdrop Hfull]]]] Hk.
  set (k := length new). set (m := n + b - k).
  assert (Hm : n <= m) by (unfold m, k; lia).
  assert (Hbuf1 : overwrite_tail buf (map (fun d => Some d) new) = firstn m buf ++ map (fun d => Some d) new).
  { unfold overwrite_tail. rewrite map_length, Hlen. reflexivity. }
  rewrite Hbuf1.
  set (buf2 := Reject.ssort (firstn m buf ++ map (fun d => Some d) new)).
  assert (Hp2 : Permutation buf2 (firstn m buf ++ map (fun d => Some d) new)) by apply ssort_perm.
  assert (Hs2 : ksorted buf2) by apply ssort_sorted.
  (* the first n rows only improve *)
  assert (Hbetter : forall j, j < n -> kle (nth j buf2 None) (nth j buf None) = true).
  { intros j Hj.
    assert (Hf : firstn m buf = firstn n buf ++ skipn n (firstn m buf)).
    { rewrite <- (firstn_skipn n (firstn m buf)) at 1. f_equal. rewrite firstn_firstn. f_equal. lia. }
    assert (Hp3 : Permutation buf2 (firstn n buf ++ (skipn n (firstn m buf) ++ map (fun d => Some d) new))).
    { rewrite Hp2. rewrite Hf at 1. now rewrite <- app_assoc. }
    assert (Hso : ksorted (firstn n buf)).
    { clear -Hsort. revert n. induction Hsort as [|x r Hr IH Hall]; intros n; destruct n; simpl; try constructor; auto.
      apply Forall_forall. intros z Hz. rewrite Forall_forall in Hall. apply Hall. eapply (In_firstn_incl); eauto. }
    pose proof (nth_superset_le slot kle kle_total kle_trans buf2 (firstn n buf) _ None Hs2 Hso Hp3 j) as H.
    rewrite firstn_length, Hlen in H. rewrite nth_firstn_lt' in H by lia. apply H. lia. }
  constructor.
  - rewrite (Permutation_length Hp2), app_length, firstn_length, map_length, Hlen. unfold m, k. lia.
  - exact Hs2.
  - exists (dropped ++ filled (skipn m buf)). split; [|split].
    + assert (Hfb : filled buf = filled (firstn m buf) ++ filled (skipn m buf))
        by (rewrite <- filled_app, firstn_skipn; reflexivity).
      rewrite (filled_perm _ _ Hp2), filled_app, filled_map_Some, <- Hperm, Hfb. apply perm4.
    + intros x y Hx Hy.
      destruct (firstn_In_nth _ None _ _ Hy) as [j [Hjn [Hjl Hnth]]]. subst y.
      specialize (Hbetter j Hjn). apply kle_dle in Hbetter.
      eapply dle_trans; [exact Hbetter|].
      apply in_app_iff in Hx. destruct Hx as [Hx|Hx].
      * apply Hdrop; [exact Hx|]. rewrite <- (nth_firstn_lt' buf None n j Hjn). apply nth_In. rewrite firstn_length. lia.
      * apply filled_In in Hx. destruct (In_nth _ _ None Hx) as [i [Hi Hn]]. rewrite skipn_length in Hi.
        rewrite nth_skipn' in Hn.
        assert (Hle : kle (nth j buf None) (nth (m + i) buf None) = true)
          by (apply (sorted_nth slot kle kle_total buf None Hsort); lia).
        apply kle_dle in Hle. unfold slot in *. rewrite Hn in Hle. exact Hle.
    + (* either nothing was ever dropped, or every row holds a draw *)
      destruct (filled (skipn m buf)) as [|d0 rest] eqn:Efs.
      * destruct Hfull as [Hd|Hall]; [left; rewrite Hd; reflexivity|].
        right. intros s Hs. apply (Permutation_in _ Hp2) in Hs. apply in_app_iff in Hs. destruct Hs as [Hs|Hs].
        -- apply Hall. eapply In_firstn_incl; eauto.
        -- apply in_map_iff in Hs. destruct Hs as [d [<- _]]. discriminate.
      * right. intros s Hs. apply (Permutation_in _ Hp2) in Hs. apply in_app_iff in Hs. destruct Hs as [Hs|Hs].
        -- (* a filled row exists beyond m, so everything before it is filled *)
           assert (Hd0 : In d0 (filled (skipn m buf))) by (rewrite Efs; now left).
           apply filled_In in Hd0. destruct (In_nth _ _ None Hd0) as [i [Hi Hn]]. rewrite skipn_length in Hi.
           rewrite nth_skipn' in Hn.
           destruct (In_nth _ _ None Hs) as [j [Hj Hnj]]. rewrite firstn_length in Hj.
           rewrite nth_firstn_lt' in Hnj by lia. rewrite <- Hnj.
           apply (sorted_filled_prefix buf Hsort j (m + i)); try lia. unfold slot in *. rewrite Hn. discriminate.
        -- apply in_map_iff in Hs. destruct Hs as [d [<- _]]. discriminate.
Qed.

(** ---- the sampler state along any list of consumed batches ---- *)
Definition bufof (s : rstate) : list slot :=
  match r_buf s with [] => repeat None (r_n s + r_b s) | l => l end.

Definition consume (s : rstate) (bs : list (list draw)) : rstate :=
  fold_left (fun s' batch => fst (rupdate s' batch 0)) bs s.

Lemma overwrite_tail_nil buf : overwrite_tail buf [] = buf.
Proof. unfold overwrite_tail. simpl. rewrite Nat.sub_0_r, firstn_all. apply app_nil_r. Qed.

Lemma rupdate_buf s batch i :
  r_buf (fst (rupdate s batch i))
  = Reject.ssort (overwrite_tail (bufof s) (map (fun d => Some d) (filter (accepts (r_thr s)) batch))).
Proof.
  unfold rupdate, bufof. simpl.
  destruct (length (filter (accepts (r_thr s)) batch)) eqn:Ek; simpl; [|reflexivity].
  apply length_zero_iff_nil in Ek. rewrite Ek. simpl. now rewrite overwrite_tail_nil.
Qed.

Lemma rupdate_consts s batch i :
  let s' := fst (rupdate s batch i) in
  r_n s' = r_n s /\ r_b s' = r_b s /\ r_thr s' = r_thr s /\ r_nbatches s' = S (r_nbatches s).
Proof. unfold rupdate. simpl. auto. Qed.

Lemma bufof_nonempty s : length (r_buf s) = r_n s + r_b s -> bufof s = r_buf s.
Proof.
  unfold bufof. destruct (r_buf s) eqn:E; [|reflexivity]. simpl. intros H. rewrite <- H. reflexivity.
Qed.

(** The invariant holds after every history of batches (each with at most batch_size rows). *)
Theorem consume_invariant : forall bs s acc,
  RInv (r_n s) (r_b s) (bufof s) acc ->
  Forall (fun batch => length batch <= r_b s) bs ->
  let s' := consume s bs in
  RInv (r_n s) (r_b s) (bufof s') (acc ++ filter (accepts (r_thr s)) (concat bs))
  /\ r_n s' = r_n s /\ r_b s' = r_b s /\ r_thr s' = r_thr s /\ r_nbatches s' = r_nbatches s + length bs.
Proof.
  induction bs as [|batch r IH]; intros s acc HI Hall.
  - simpl. rewrite app_nil_r. split; [exact HI|]. split; [reflexivity|]. split; [reflexivity|]. split; [reflexivity|]. lia.
  - inversion Hall as [|? ? Hb Hr]; subst.
    set (s1 := fst (rupdate s batch 0)).
    destruct (rupdate_consts s batch 0) as [C1 [C2 [C3 C4]]]. fold s1 in C1, C2, C3, C4.
    assert (HI1 : RInv (r_n s1) (r_b s1) (bufof s1) (acc ++ filter (accepts (r_thr s)) batch)).
    { rewrite C1, C2.
      assert (Hm := merge_step (r_n s) (r_b s) (bufof s) acc (filter (accepts (r_thr s)) batch) HI).
      assert (Hk : length (filter (accepts (r_thr s)) batch) <= r_b s)
        by (etransitivity; [apply filter_len_le | exact Hb]).
      specialize (Hm Hk). rewrite <- (rupdate_buf s batch 0) in Hm. fold s1 in Hm.
      rewrite bufof_nonempty; [exact Hm|]. rewrite C1, C2. apply (ri_len _ _ _ _ Hm). }
    assert (Hall1 : Forall (fun b0 => length b0 <= r_b s1) r) by (rewrite C2; exact Hr).
    destruct (IH s1 _ HI1 Hall1) as [A [B1 [B2 [B3 B4]]]].
    change (consume s (batch :: r)) with (consume s1 r). cbn zeta.
    rewrite C1, C2, C3 in *. simpl concat. rewrite filter_app, app_assoc.
    split; [exact A|]. split; [exact B1|]. split; [exact B2|]. split; [exact B3|].
    rewrite B4, C4. simpl. lia.
Qed.

(** ---- what the extracted result satisfies ---- *)
Lemma ksorted_ascending l : ksorted l -> ascending l = true.
Proof.
  induction 1 as [|a r Hr IH Hall]; [reflexivity|].
  destruct r as [|b r']; [reflexivity|].
  change (ascending (a :: b :: r')) with (dle (sdisc a) (sdisc b) && ascending (b :: r')).
  rewrite IH, andb_true_r. inversion Hall; subst. now apply kle_dle.
Qed.

Lemma ksorted_firstn l : ksorted l -> forall n, ksorted (firstn n l).
Proof.
  induction 1 as [|x r Hr IH Hall]; intros n; destruct n; simpl; try constructor; auto.
  apply Forall_forall. intros z Hz. rewrite Forall_forall in Hall. apply Hall. eapply In_firstn_incl; eauto.
Qed.

(** The returned rows: ascending; every row that holds a draw is an accepted consumed draw (counted
    with multiplicity); every accepted consumed draw left out is no better than any returned row;
    rows without a draw occur only if fewer than n draws were accepted. *)
Theorem extract_topn n b buf acc :
  RInv n b buf acc ->
  let rows := firstn n buf in
  ascending rows = true
  /\ (exists rest, Permutation (filled rows ++ rest) acc
                   /\ forall x y, In x rest -> In y rows -> dle (sdisc y) (d_disc x) = true)
  /\ (n <= length acc -> forall s, In s rows -> s <> None).
Proof.
  intros [Hlen Hsort [dropped [Hperm [Hdrop Hfull]]]] rows. split; [|split].
  - apply ksorted_ascending. now apply ksorted_firstn.
  - exists (filled (skipn n buf) ++ dropped). split.
    + rewrite app_assoc, <- filled_app. unfold rows. now rewrite firstn_skipn.
    + intros x y Hx Hy. apply in_app_iff in Hx. destruct Hx as [Hx|Hx]; [|now apply Hdrop].
      apply filled_In in Hx. destruct (In_nth _ _ None Hx) as [i [Hi Hn]]. rewrite skipn_length in Hi.
      rewrite nth_skipn' in Hn.
      destruct (firstn_In_nth _ None _ _ Hy) as [j [Hjn [Hjl Hnth]]]. subst y.
      assert (Hle : kle (nth j buf None) (nth (n + i) buf None) = true)
        by (apply (sorted_nth slot kle kle_total buf None Hsort); lia).
      apply kle_dle in Hle. unfold slot in *. rewrite Hn in Hle. exact Hle.
  - intros Hn s Hs. destruct Hfull as [Hd|Hall]; [|apply Hall; eapply In_firstn_incl; eauto].
    subst dropped. rewrite app_nil_r in Hperm.
    (* at least n rows hold draws, and they come first *)
    destruct (firstn_In_nth _ None _ _ Hs) as [j [Hjn [Hjl Hnth]]]. subst s.
    intros Hnone.
    assert (Hcount : length (filled buf) = length acc) by (now apply Permutation_length).
    (* all rows from j on are unfilled, so fewer than n draws are held *)
    assert (Hle : length (filled buf) <= j).
    { rewrite <- (firstn_skipn j buf) at 1. rewrite filled_app, app_length.
      assert (H0 : filled (skipn j buf) = []).
      { destruct (filled (skipn j buf)) as [|d0 rest] eqn:E; [reflexivity|exfalso].
        assert (Hd0 : In d0 (filled (skipn j buf))) by (rewrite E; now left).
        apply filled_In in Hd0. destruct (In_nth _ _ None Hd0) as [i [Hi Hn']]. rewrite skipn_length in Hi.
        rewrite nth_skipn' in Hn'.
        apply (sorted_filled_prefix buf Hsort j (j + i)); try lia; [|exact Hnone].
        unfold slot in *. rewrite Hn'. discriminate. }
      rewrite H0. simpl. rewrite Nat.add_0_r.
      assert (Hfl : forall l : list slot, length (filled l) <= length l).
      { induction l as [|[d|] r IHl]; simpl; lia. }
      etransitivity; [apply Hfl|]. rewrite firstn_length. lia. }
    lia.
Qed.

(** rows holding a draw were accepted: discrepancy <= threshold when one was given *)
Theorem returned_within_threshold n b buf acc thr (consumed : list draw) :
  RInv n b buf acc -> acc = filter (accepts (Some thr)) consumed ->
  forall d, In (Some d) (firstn n buf) -> dle (d_disc d) thr = true.
Proof.
  intros [_ _ [dropped [Hperm _]]] Hacc d Hd.
  assert (Hin : In d acc).
  { apply (Permutation_in _ Hperm). apply in_app_iff. left. apply filled_In. eapply In_firstn_incl; eauto. }
  rewrite Hacc in Hin. apply filter_In in Hin. apply Hin.
Qed.

(** ---- batch counts: with a simulation budget the objective is fixed and met exactly ---- *)
Notation rseq_run := (seq_run rstate (list draw) unit r_objective r_nbatches (fun _ _ => tt)).

Lemma rupdate_objective_budget s batch i : r_thr s = None -> r_objective (fst (rupdate s batch i)) = r_objective s.
Proof. unfold rupdate. intros H. rewrite H. reflexivity. Qed.

Theorem budget_batches_exact table : forall fuel s i,
  r_thr s = None -> r_nbatches s <= r_objective s -> r_objective s - r_nbatches s <= fuel ->
  exists s', rseq_run (batch_of table) rupdate fuel s i = Some (s', i + (r_objective s - r_nbatches s))
             /\ r_nbatches s' = r_objective s /\ r_objective s' = r_objective s.
Proof.
  induction fuel as [|f IH]; intros s i Hthr Hle Hf; cbn [seq_run].
  - assert (r_objective s = r_nbatches s) by lia.
    destruct (r_objective s <=? r_nbatches s) eqn:E; [|apply Nat.leb_gt in E; lia].
    exists s. rewrite H, Nat.sub_diag, Nat.add_0_r. auto.
  - destruct (r_objective s <=? r_nbatches s) eqn:E.
    + apply Nat.leb_le in E. assert (r_objective s = r_nbatches s) by lia.
      exists s. rewrite H, Nat.sub_diag, Nat.add_0_r. auto.
    + apply Nat.leb_gt in E.
      set (s1 := fst (rupdate s (batch_of table i tt) i)).
      destruct (rupdate_consts s (batch_of table i tt) i) as [C1 [C2 [C3 C4]]]. fold s1 in C1, C2, C3, C4.
      assert (Ho : r_objective s1 = r_objective s) by (apply rupdate_objective_budget; exact Hthr).
      destruct (IH s1 (S i)) as [s' [A [B C]]]; try lia; [congruence|].
      exists s'. fold s1. rewrite A. split; [f_equal; f_equal; lia | split; congruence].
Qed.
