(** Proofs about the compiler and loader models (C03). *)
From Coq Require Import List String ZArith Arith Bool Lia.
From Elfi Require Import Graph.Net Proofs.C03_Exec.
Import ListNotations.

(** ---- OutputCompiler: every source node becomes a node with exactly one of output/operation ---- *)
Definition compiled_as (n : name) (st : sstate) (c : cnode) : Prop :=
  (exists v, s_output st = Some v /\ s_has_op st = false /\ c = {| c_out := Some v; c_op := None |})
  \/ (s_output st = None /\ s_has_op st = true /\ c = {| c_out := None; c_op := Some (OpUser (s_opid st)) |}).

Theorem compile_outputs_spec : forall ns cn,
  compile_outputs ns = Ok cn ->
  Forall2 (fun (a : name * sstate) (b : name * cnode) => fst a = fst b /\ compiled_as (fst a) (snd a) (snd b)) ns cn.
Proof.
  induction ns as [|[n st] r IH]; intros cn H; simpl in H.
  - inversion H. constructor.
  - destruct (compile_outputs r) as [rest|] eqn:Er; simpl in H; [|discriminate].
    destruct (s_output st) as [v|] eqn:Eo; destruct (s_has_op st) eqn:Eh; try discriminate; inversion H; subst.
    + constructor; [|now apply IH]. simpl. split; [reflexivity|]. left. eauto.
    + constructor; [|now apply IH]. simpl. split; [reflexivity|]. right. auto.
Qed.

(** ---- the stochastic-ancestor check ---- *)
Theorem check_stochastic_sound src g : forall uses,
  check_stochastic src g uses = Ok tt ->
  forall n a, In n uses -> In a (tl (ancestors_incl (c_edges g) [observed_name n])) -> is_stochastic src a = false.
Proof.
  induction uses as [|u r IH]; intros H n a Hn Ha; simpl in H; [destruct Hn|].
  destruct (find (is_stochastic src) (tl (ancestors_incl (c_edges g) [observed_name u]))) as [x|] eqn:Ef; [discriminate|].
  destruct Hn as [->|Hn]; [|eapply IH; eauto].
  destruct (is_stochastic src a) eqn:Es; [|reflexivity].
  pose proof (find_none _ _ Ef a Ha). congruence.
Qed.

(** ---- edges of networkx add_edge ---- *)
Lemma In_add_edge u v p es e :
  In e (add_edge u v p es) -> e = (u, v, p) \/ In e es.
Proof.
  induction es as [|e0 r IH]; simpl.
  - intros [H|[]]; auto.
  - destruct (String.eqb u (e_src e0) && String.eqb v (e_dst e0)).
    + intros [H|H]; [left; now symmetry | right; now right].
    + intros [H|H]; [right; now left|]. destruct (IH H); auto.
Qed.

Lemma add_edge_In u v p es : In (u, v, p) (add_edge u v p es).
Proof.
  induction es as [|e0 r IH]; simpl; [now left|].
  destruct (String.eqb u (e_src e0) && String.eqb v (e_dst e0)); [now left | now right].
Qed.

Lemma add_edge_keeps u v p es e :
  In e es -> (e_src e <> u \/ e_dst e <> v) -> In e (add_edge u v p es).
Proof.
  induction es as [|e0 r IH]; simpl; [tauto|].
  intros [->|Hin] Hne.
  - destruct (String.eqb u (e_src e) && String.eqb v (e_dst e)) eqn:E; [|now left].
    apply andb_true_iff in E. destruct E as [E1 E2]. apply String.eqb_eq in E1, E2. destruct Hne; congruence.
  - destruct (String.eqb u (e_src e0) && String.eqb v (e_dst e0)); [now right | right; now apply IH].
Qed.

Lemma c_edges_add_cedge u v p g : c_edges (add_cedge u v p g) = add_edge u v p (c_edges g).
Proof.
  unfold add_cedge, ensure_node, add_node. simpl.
  destruct (has u (c_nodes g)); simpl; destruct (has v _); reflexivity.
Qed.

(** ---- AdditionalNodesCompiler / RandomStateCompiler: the runtime edge goes exactly to the
        nodes that declare the flag ---- *)
Lemma compile_instruction_edges src fl inode : forall g e,
  In e (c_edges (compile_instruction src fl inode g)) ->
  In e (c_edges g) \/
  (exists n st, In (n, st) (s_nodes src) /\ fl st = true /\
                e = (inode, n, PStr (substring 1 (String.length inode) inode))).
Proof.
  unfold compile_instruction. generalize (s_nodes src) as ns.
  induction ns as [|[n st] r IH]; intros g e H; simpl in H; [now left|].
  destruct (fl st) eqn:Ef.
  - apply IH in H. destruct H as [H|[m [st' [Hin [Hf He]]]]].
    + rewrite c_edges_add_cedge in H. apply In_add_edge in H. destruct H as [->|H]; [|now left].
      right. exists n, st. split; [now left|]. auto.
    + right. exists m, st'. split; [now right|]. auto.
  - apply IH in H. destruct H as [H|[m [st' [Hin [Hf He]]]]]; [now left|].
    right. exists m, st'. split; [now right|]. auto.
Qed.

Lemma compile_instruction_keeps src fl inode : forall g e,
  In e (c_edges g) -> e_src e <> inode -> In e (c_edges (compile_instruction src fl inode g)).
Proof.
  unfold compile_instruction. generalize (s_nodes src) as ns.
  induction ns as [|[n st] r IH]; intros g e H Hne; simpl; [exact H|].
  destruct (fl st); [|now apply IH].
  apply IH; [|exact Hne]. rewrite c_edges_add_cedge. apply add_edge_keeps; auto.
Qed.

Lemma compile_instruction_complete src fl inode : forall g n st,
  NoDup (map fst (s_nodes src)) ->
  In (n, st) (s_nodes src) -> fl st = true ->
  In (inode, n, PStr (substring 1 (String.length inode) inode)) (c_edges (compile_instruction src fl inode g)).
Proof.
  unfold compile_instruction. generalize (s_nodes src) as ns.
  induction ns as [|[m st'] r IH]; intros g n st Hnd Hin Hf; simpl in *; [destruct Hin|].
  inversion Hnd as [|? ? Hnin Hnd']; subst.
  destruct Hin as [Heq|Hin].
  - inversion Heq; subst. rewrite Hf.
    (* the edge is added now and no later step touches the pair (inode, n) *)
    assert (Hkeep : forall (l : list (name * sstate)) g0,
               ~ In n (map fst l) ->
               In (inode, n, PStr (substring 1 (String.length inode) inode)) (c_edges g0) ->
               In (inode, n, PStr (substring 1 (String.length inode) inode))
                  (c_edges (fold_left (fun g1 (ns : name * sstate) =>
                      if fl (snd ns) then add_cedge inode (fst ns) (PStr (substring 1 (String.length inode) inode)) g1 else g1) l g0))).
    { induction l as [|[k sk] l IHl]; intros g0 Hk H0; simpl; [exact H0|].
      apply IHl; [intros Hc; apply Hk; now right|].
      destruct (fl sk); [|exact H0]. rewrite c_edges_add_cedge. apply add_edge_keeps; [exact H0|].
      right. unfold e_dst. simpl. intros Hkn. apply Hk. left. now symmetry. }
    apply Hkeep; [exact Hnin|]. rewrite c_edges_add_cedge. apply add_edge_In.
  - destruct (fl st'); eapply IH; eauto.
Qed.

(** ---- PoolLoader: a supplied value replaces the operation ---- *)
Lemma set_output_same n v g c :
  lookup n (c_nodes g) = Some c ->
  lookup n (c_nodes (set_output n v true g)) = Some {| c_out := Some v; c_op := None |}.
Proof. intros H. unfold set_output. rewrite H. apply lookup_add_node_same. Qed.

Lemma set_output_other n m v b g :
  n <> m -> lookup m (c_nodes (set_output n v b g)) = lookup m (c_nodes g).
Proof.
  intros Hne. unfold set_output. destruct (lookup n (c_nodes g)); [now apply lookup_add_node_other | reflexivity].
Qed.

Lemma has_lookup {A} n (l : list (name * A)) : has n l = true <-> exists a, lookup n l = Some a.
Proof. unfold has. destruct (lookup n l); split; eauto; try discriminate. intros [a Ha]. discriminate. Qed.

Theorem load_pool_supplied : forall pool g n v,
  NoDup (map fst pool) -> In (n, Some v) pool -> has n (c_nodes g) = true ->
  lookup n (c_nodes (load_pool pool g)) = Some {| c_out := Some v; c_op := None |}.
Proof.
  unfold load_pool.
  induction pool as [|[m ov] r IH]; intros g n v Hnd Hin Hhas; simpl in *; [destruct Hin|].
  inversion Hnd as [|? ? Hnin Hnd']; subst.
  destruct Hin as [Heq|Hin].
  - inversion Heq; subst. rewrite Hhas.
    (* later entries have other names *)
    assert (Hkeep : forall (l : list (name * option value)) g0 c,
               ~ In n (map fst l) -> lookup n (c_nodes g0) = Some c ->
               lookup n (c_nodes (fold_left (fun g1 (nv : name * option value) =>
                 if has (fst nv) (c_nodes g1) then
                   match snd nv with
                   | Some v0 => set_output (fst nv) v0 true g1
                   | None => if mem (fst nv) (c_outputs g1) then g1 else
                             {| c_nodes := c_nodes g1; c_edges := c_edges g1;
                                c_outputs := c_outputs g1 ++ [fst nv]; c_observed := c_observed g1 |}
                   end
                 else g1) l g0)) = Some c).
    { induction l as [|[k ok] l IHl]; intros g0 c Hk H0; simpl; [exact H0|].
      apply IHl; [intros Hc; apply Hk; now right|].
      destruct (has k (c_nodes g0)); [|exact H0].
      destruct ok as [v0|].
      - rewrite set_output_other; [exact H0|]. intros ->. apply Hk. now left.
      - destruct (mem k (c_outputs g0)); exact H0. }
    apply has_lookup in Hhas. destruct Hhas as [c Hc].
    eapply Hkeep; [exact Hnin|]. eapply set_output_same; eauto.
  - apply IH; auto.
    destruct (has m (c_nodes g)) eqn:Em; [|exact Hhas].
    assert (Hne : m <> n).
    { intros ->. apply Hnin. apply in_map_iff. exists (n, Some v). auto. }
    destruct ov as [v0|].
    + apply has_lookup in Hhas. destruct Hhas as [c Hc]. apply has_lookup.
      exists c. rewrite set_output_other; auto.
    + destruct (mem m (c_outputs g)); exact Hhas.
Qed.
