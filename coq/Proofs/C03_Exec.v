(** Proofs about the executor model (C03): the execution loop computes the dataflow meaning of
    the loaded net, runs every scheduled operation exactly once, and nothing else. *)
From Coq Require Import List String ZArith Arith Bool Lia.
From Elfi Require Import Graph.Net.
Import ListNotations.

(** ---- association-list facts ---- *)
Section AssocFacts.
  Context {A : Type}.

  Lemma lookup_set_same n (a : A) l : lookup n (set n a l) = Some a.
  Proof.
    induction l as [|[m b] r IH]; simpl.
    - now rewrite String.eqb_refl.
    - destruct (String.eqb n m) eqn:E; simpl; rewrite E; auto.
  Qed.

  Lemma lookup_set_other n m (a : A) l : n <> m -> lookup m (set n a l) = lookup m l.
  Proof.
    intros Hne. induction l as [|[k b] r IH]; simpl.
    - destruct (String.eqb m n) eqn:E; [apply String.eqb_eq in E; congruence | reflexivity].
    - destruct (String.eqb n k) eqn:E; simpl.
      + apply String.eqb_eq in E. subst k.
        destruct (String.eqb m n) eqn:E2; [apply String.eqb_eq in E2; congruence | reflexivity].
      + destruct (String.eqb m k); auto.
  Qed.
End AssocFacts.

Lemma mem_In n l : mem n l = true <-> In n l.
Proof.
  unfold mem. rewrite existsb_exists. split.
  - intros [x [Hx He]]. apply String.eqb_eq in He. now subst.
  - intros H. exists n. split; [exact H | apply String.eqb_refl].
Qed.

(** ---- the dataflow meaning of a loaded net ---- *)
Inductive Den (g : cnet) : name -> value -> Prop :=
| Den_out n c v :
    lookup n (c_nodes g) = Some c -> c_out c = Some v -> Den g n v
| Den_op n c o pvs :
    lookup n (c_nodes g) = Some c -> c_out c = None -> c_op c = Some o ->
    DenList g (preds (c_edges g) n) pvs ->
    Den g n (mk_call o pvs)
with DenList (g : cnet) : list (name * param) -> list (param * value) -> Prop :=
| DL_nil : DenList g [] []
| DL_cons u p r v rest :
    Den g u v -> DenList g r rest -> DenList g ((u, p) :: r) ((p, v) :: rest).

Scheme Den_ind2 := Induction for Den Sort Prop
  with DenList_ind2 := Induction for DenList Sort Prop.
Combined Scheme Den_mutind from Den_ind2, DenList_ind2.

(** the meaning is unique *)
Lemma Den_functional g :
  (forall n v, Den g n v -> forall w, Den g n w -> v = w) /\
  (forall ps pvs, DenList g ps pvs -> forall qvs, DenList g ps qvs -> pvs = qvs).
Proof.
  apply Den_mutind.
  - intros n c v Hl Ho w Hw. inversion Hw; subst; congruence.
  - intros n c o pvs Hl Ho Hop Hd IH w Hw. inversion Hw; subst.
    + congruence.
    + assert (c0 = c) by congruence. subst c0.
      assert (o0 = o) by congruence. subst o0.
      f_equal. now apply IH.
  - intros qvs Hq. now inversion Hq.
  - intros u p r v rest Hd IH1 Hl IH2 qvs Hq. inversion Hq; subst.
    f_equal; [f_equal; now apply IH1 | now apply IH2].
Qed.

(** ---- invariant of the execution loop ---- *)
(** [g0] is the loaded net at the start, [g] the current state. *)
Record Inv (g0 g : cnet) : Prop := {
  inv_edges : c_edges g = c_edges g0;
  inv_outs : forall n c v, lookup n (c_nodes g) = Some c -> c_out c = Some v -> Den g0 n v;
  inv_pending : forall n c, lookup n (c_nodes g) = Some c -> c_out c = None -> lookup n (c_nodes g0) = Some c;
  inv_dom : forall n, lookup n (c_nodes g) = None -> lookup n (c_nodes g0) = None
}.

Lemma Inv_refl g : Inv g g.
Proof.
  constructor; auto. intros n c v Hl Ho. eapply Den_out; eauto.
Qed.

Lemma gather_DenList g0 g ps pvs :
  Inv g0 g -> gather g ps = Ok pvs -> DenList g0 ps pvs.
Proof.
  intros HI. revert pvs. induction ps as [|[u p] r IH]; intros pvs H; simpl in H.
  - inversion H. constructor.
  - destruct (lookup u (c_nodes g)) as [c|] eqn:El; [|discriminate].
    destruct (c_out c) as [v|] eqn:Eo; [|discriminate].
    destruct (gather g r) as [rest|] eqn:Eg; simpl in H; [|discriminate].
    inversion H; subst. constructor; [eapply inv_outs; eauto | now apply IH].
Qed.

Lemma lookup_add_node_same n c g : lookup n (c_nodes (add_node n c g)) = Some c.
Proof. unfold add_node. simpl. apply lookup_set_same. Qed.

Lemma lookup_add_node_other n m c g : n <> m -> lookup m (c_nodes (add_node n c g)) = lookup m (c_nodes g).
Proof. intros. unfold add_node. simpl. now apply lookup_set_other. Qed.

Lemma Inv_step g0 g n c o pvs :
  Inv g0 g ->
  lookup n (c_nodes g) = Some c -> c_out c = None -> c_op c = Some o ->
  gather g (preds (c_edges g) n) = Ok pvs ->
  Inv g0 (add_node n {| c_out := Some (mk_call o pvs); c_op := None |} g).
Proof.
  intros HI Hl Ho Hop Hg.
  assert (Hd : Den g0 n (mk_call o pvs)).
  { eapply Den_op; eauto.
    - eapply inv_pending; eauto.
    - rewrite <- (inv_edges _ _ HI). eapply gather_DenList; eauto. }
  constructor.
  - simpl. apply (inv_edges _ _ HI).
  - intros m c' v Hl' Ho'. destruct (string_dec n m) as [->|Hne].
    + rewrite lookup_add_node_same in Hl'. inversion Hl'; subst. simpl in Ho'. inversion Ho'; subst. exact Hd.
    + rewrite lookup_add_node_other in Hl' by exact Hne. eapply inv_outs; eauto.
  - intros m c' Hl' Ho'. destruct (string_dec n m) as [->|Hne].
    + rewrite lookup_add_node_same in Hl'. inversion Hl'; subst. discriminate.
    + rewrite lookup_add_node_other in Hl' by exact Hne. eapply inv_pending; eauto.
  - intros m Hl'. destruct (string_dec n m) as [->|Hne].
    + rewrite lookup_add_node_same in Hl'. discriminate.
    + rewrite lookup_add_node_other in Hl' by exact Hne. eapply inv_dom; eauto.
Qed.

Lemma has_op_add_other n m c g : n <> m -> has_op (add_node n c g) m = has_op g m.
Proof. intros. unfold has_op. now rewrite lookup_add_node_other. Qed.

Lemma filter_has_op_add n c g r :
  ~ In n r -> filter (has_op (add_node n c g)) r = filter (has_op g) r.
Proof.
  induction r as [|m r IH]; intros Hn; simpl; [reflexivity|].
  rewrite has_op_add_other by (intros ->; apply Hn; now left).
  rewrite IH by (intros H; apply Hn; now right). reflexivity.
Qed.

(** The loop keeps the invariant, and (for a duplicate-free order) logs exactly the scheduled
    nodes that carried an operation, in order. *)
Theorem run_order_sound g0 : forall order g log g' log',
  Inv g0 g -> NoDup order ->
  run_order g order log = Ok (g', log') ->
  Inv g0 g' /\ log' = log ++ filter (has_op g) order.
Proof.
  induction order as [|n r IH]; intros g log g' log' HI Hnd H; simpl in H.
  - inversion H; subst. split; [exact HI | now rewrite app_nil_r].
  - inversion Hnd as [|? ? Hnin Hnd']; subst.
    destruct (lookup n (c_nodes g)) as [c|] eqn:El; [|discriminate].
    assert (Hho : has_op g n = match c_op c with Some _ => true | None => false end)
      by (unfold has_op; now rewrite El).
    destruct (c_out c) as [v|] eqn:Eo; destruct (c_op c) as [o|] eqn:Eop; try discriminate.
    + (* output present, no operation: skipped *)
      destruct (IH _ _ _ _ HI Hnd' H) as [A B]. split; [exact A|].
      simpl. rewrite Hho. exact B.
    + (* operation to run *)
      destruct (gather g (preds (c_edges g) n)) as [pv|] eqn:Eg; simpl in H; [|discriminate].
      destruct (call_ok o pv); simpl in H; [|discriminate].
      assert (HI' := Inv_step _ _ _ _ _ _ HI El Eo Eop Eg).
      destruct (IH _ _ _ _ HI' Hnd' H) as [A B]. split; [exact A|].
      simpl. rewrite Hho. rewrite B. rewrite filter_has_op_add by exact Hnin.
      now rewrite <- app_assoc.
Qed.

Lemma collect_sound g0 g outs res :
  Inv g0 g -> collect g outs = Ok res ->
  map fst res = outs /\ forall n v, In (n, v) res -> Den g0 n v.
Proof.
  intros HI. revert res. induction outs as [|n r IH]; intros res H; simpl in H.
  - inversion H. split; [reflexivity | intros ? ? []].
  - destruct (lookup n (c_nodes g)) as [c|] eqn:El; [|discriminate].
    destruct (c_out c) as [v|] eqn:Eo; [|discriminate].
    destruct (collect g r) as [rest|] eqn:Ec; simpl in H; [|discriminate].
    inversion H; subst. destruct (IH _ eq_refl) as [A B]. split; [simpl; now rewrite A|].
    intros m w [Hin|Hin]; [inversion Hin; subst; eapply inv_outs; eauto | now apply B].
Qed.

(** ---- the order computed by get_execution_order ---- *)

Lemma NoDup_filter {A} (f : A -> bool) l : NoDup l -> NoDup (filter f l).
Proof.
  induction 1 as [|x l Hx Hl IH]; simpl; [constructor|].
  destruct (f x); [constructor; [rewrite filter_In; tauto | exact IH] | exact IH].
Qed.

Lemma NoDup_app_snoc {A} (l : list A) x : NoDup l -> ~ In x l -> NoDup (l ++ [x]).
Proof.
  intros H Hn. induction H as [|y l Hy Hl IH]; simpl.
  - constructor; [intros []|constructor].
  - constructor.
    + rewrite in_app_iff. simpl. intros [A0|[A0|[]]]; [tauto | subst; apply Hn; now left].
    + apply IH. intros A0. apply Hn. now right.
Qed.

(** the DFS only appends unexplored nodes to the order *)
Lemma dfs_order_inv fuel es : forall fringe seen explored order seen' explored' order',
  NoDup order -> (forall x, In x order -> In x explored) ->
  dfs fuel es fringe seen explored order = Ok (seen', explored', order') ->
  NoDup order' /\ (forall x, In x order' -> In x explored') /\ (forall x, In x explored -> In x explored').
Proof.
  induction fuel as [|f IH]; intros fringe seen explored order seen' explored' order' Hnd Hsub H.
  - destruct fringe; simpl in H; [inversion H; subst; auto | discriminate].
  - destruct fringe as [|w rest]; simpl in H; [inversion H; subst; auto|].
    destruct (mem w explored) eqn:Ew.
    + eapply IH; eauto.
    + set (seen2 := if mem w seen then seen else w :: seen) in *.
      set (cand := filter (fun n => negb (mem n explored)) (sort_names (succs es w))) in *.
      destruct (existsb (fun n => mem n seen2) cand); [discriminate|].
      destruct cand as [|c0 cr] eqn:Ec.
      * assert (Hw : ~ In w order).
        { intros Hin. apply Hsub in Hin. apply mem_In in Hin. congruence. }
        destruct (IH rest seen2 (w :: explored) (order ++ [w]) seen' explored' order') as [A [B C]]; auto.
        -- apply NoDup_app_snoc; auto.
        -- intros x Hx. apply in_app_iff in Hx. destruct Hx as [Hx|[Hx|[]]]; [right; now apply Hsub | left; now subst].
        -- repeat split; auto. intros x Hx. apply C. now right.
      * eapply IH; eauto.
Qed.

Lemma dfs_all_NoDup fuel es : forall nbunch seen explored order res,
  NoDup order -> (forall x, In x order -> In x explored) ->
  dfs_all fuel es nbunch seen explored order = Ok res -> NoDup res.
Proof.
  induction nbunch as [|v r IH]; intros seen explored order res Hnd Hsub H; simpl in H.
  - inversion H; subst. apply NoDup_rev. exact Hnd.
  - destruct (mem v explored); [eapply IH; eauto|].
    destruct (dfs fuel es [v] seen explored order) as [[[seen' explored'] order']|] eqn:Ed; simpl in H; [|discriminate].
    destruct (dfs_order_inv _ _ _ _ _ _ _ _ _ Hnd Hsub Ed) as [A [B C]].
    eapply IH; eauto.
Qed.

Lemma sort_order_NoDup g so : sort_order g = Ok so -> NoDup so.
Proof.
  unfold sort_order. intros H. eapply dfs_all_NoDup; [| |exact H]; [constructor | intros ? []].
Qed.

(** ---- reachability: soundness of the ancestor computation ---- *)
Inductive reach (es : list edge) : name -> name -> Prop :=
| reach_refl n : reach es n n
| reach_step u v w p : In (u, v, p) es -> reach es v w -> reach es u w.

Definition reaches_root (es : list edge) (roots : list name) (x : name) : Prop :=
  exists r, In r roots /\ reach es x r.

Lemma anc_fold_sound es roots : forall l acc,
  (forall e, In e l -> In e es) ->
  (forall x, In x acc -> reaches_root es roots x) ->
  forall x, In x (fold_left (fun a e => if mem (e_dst e) a && negb (mem (e_src e) a) then a ++ [e_src e] else a) l acc) ->
            reaches_root es roots x.
Proof.
  induction l as [|e l IH]; intros acc Hl Hacc x Hx; simpl in Hx; [now apply Hacc|].
  eapply IH; [intros e' He'; apply Hl; now right | | exact Hx].
  intros y Hy. destruct (mem (e_dst e) acc && negb (mem (e_src e) acc)) eqn:E; [|now apply Hacc].
  apply in_app_iff in Hy. destruct Hy as [Hy|[Hy|[]]]; [now apply Hacc|]. subst y.
  apply andb_true_iff in E. destruct E as [E _]. apply mem_In in E.
  destruct (Hacc _ E) as [r [Hr Hreach]]. exists r. split; [exact Hr|].
  destruct e as [[u v] p]. simpl in *. eapply reach_step; [apply Hl; left; reflexivity | exact Hreach].
Qed.

Lemma anc_iter_sound es roots : forall fuel acc,
  (forall x, In x acc -> reaches_root es roots x) ->
  forall x, In x (anc_iter fuel es acc) -> reaches_root es roots x.
Proof.
  induction fuel as [|f IH]; intros acc Hacc x Hx; simpl in Hx; [now apply Hacc|].
  destruct (Nat.eqb (List.length (anc_step es acc)) (List.length acc)); [now apply Hacc|].
  eapply IH; [|exact Hx]. intros y Hy. unfold anc_step in Hy.
  eapply anc_fold_sound; eauto.
Qed.

Lemma dedup_names_In l x : In x (dedup_names l) -> In x l.
Proof.
  induction l as [|y r IH]; simpl; [tauto|]. destruct (mem y r); [intros H; right; now apply IH|].
  intros [H|H]; [now left | right; now apply IH].
Qed.

Theorem ancestors_incl_sound es roots x :
  In x (ancestors_incl es roots) -> reaches_root es roots x.
Proof.
  unfold ancestors_incl. apply anc_iter_sound. intros y Hy.
  exists y. split; [now apply dedup_names_In | constructor].
Qed.

(** ---- get_execution_order ---- *)
Definition CacheOK (c : ecache) : Prop :=
  (forall so, ec_sort c = Some so -> NoDup so) /\
  (forall k o, In (k, o) (ec_orders c) -> NoDup o).

Lemma CacheOK_empty : CacheOK empty_cache.
Proof. split; simpl; [discriminate | intros ? ? []]. Qed.

Lemma lookup_order_In k l o : lookup_order k l = Some o -> exists k', In (k', o) l.
Proof.
  induction l as [|[k' o'] r IH]; simpl; [discriminate|].
  destruct (okey_eqb k k'); [intros H; inversion H; subst; eexists; left; reflexivity|].
  intros H. destruct (IH H) as [k2 Hk]. exists k2. now right.
Qed.

Definition needed_of (g : cnet) : list name := sort_names (dedup_names (filter (has_op g) (c_outputs g))).
Definition dep_of (g : cnet) : list edge :=
  filter (fun e => negb (has_out g (e_src e)) && negb (has_out g (e_dst e))) (c_edges g).

Theorem get_execution_order_spec g cache order cache' :
  CacheOK cache -> get_execution_order g cache = Ok (order, cache') ->
  NoDup order /\ CacheOK cache' /\
  (ec_orders cache = [] -> forall n, In n order -> reaches_root (dep_of g) (needed_of g) n).
Proof.
  unfold get_execution_order. fold (needed_of g). fold (dep_of g). intros [Hs Ho] H.
  destruct (needed_of g) as [|n0 nr] eqn:En.
  - inversion H; subst. repeat split; auto; [constructor | intros _ ? []].
  - rewrite <- En in *. clear En.
    destruct (lookup_order (needed_of g, loaded_names g) (ec_orders cache)) as [o|] eqn:El.
    + inversion H; subst. destruct (lookup_order_In _ _ _ El) as [k' Hk].
      repeat split; eauto.
      intros Hnil. rewrite Hnil in Hk. destruct Hk.
    + destruct (match ec_sort cache with Some so => Ok so | None => sort_order g end) as [so|] eqn:Eso; simpl in H; [|discriminate].
      assert (Hnd : NoDup so).
      { destruct (ec_sort cache) as [so'|] eqn:Ec; [inversion Eso; subst; now apply Hs | now apply sort_order_NoDup in Eso]. }
      destruct (scan_nodes g so); simpl in H; [|discriminate].
      inversion H; subst. clear H. repeat split.
      * now apply NoDup_filter.
      * simpl. intros so' Hso'. inversion Hso'; subst. exact Hnd.
      * simpl. intros k o Hin. apply in_app_iff in Hin. destruct Hin as [Hin|[Hin|[]]]; [eauto|].
        inversion Hin; subst. now apply NoDup_filter.
      * intros _ n Hn. apply filter_In in Hn. destruct Hn as [_ Hn]. apply mem_In in Hn.
        now apply ancestors_incl_sound in Hn.
Qed.

(** ---- Executor.execute ---- *)
Theorem execute_sound g cache out log cache' :
  CacheOK cache -> execute g cache = Ok (out, log, cache') ->
  (forall n v, In (n, v) out -> Den g n v)
  /\ map fst out = sort_names (dedup_names (c_outputs g))
  /\ NoDup log
  /\ (forall n, In n log -> has_op g n = true)
  /\ CacheOK cache'
  /\ (ec_orders cache = [] -> forall n, In n log -> reaches_root (dep_of g) (needed_of g) n).
Proof.
  unfold execute. intros Hc H.
  destruct (get_execution_order g cache) as [[order c1]|] eqn:Eo; simpl in H; [|discriminate].
  destruct (run_order g order []) as [[g' lg]|] eqn:Er; simpl in H; [|discriminate].
  destruct (collect g' (sort_names (dedup_names (c_outputs g)))) as [res|] eqn:Ec; simpl in H; [|discriminate].
  inversion H; subst. clear H.
  destruct (get_execution_order_spec _ _ _ _ Hc Eo) as [Hnd [Hc' Hmin]].
  destruct (run_order_sound g order g [] g' log (Inv_refl g) Hnd Er) as [HI Hlog]. simpl in Hlog.
  destruct (collect_sound _ _ _ _ HI Ec) as [Hk Hv].
  split; [exact Hv|]. split; [exact Hk|].
  split; [subst log; now apply NoDup_filter|].
  split; [intros n Hn; subst log; apply filter_In in Hn; tauto|].
  split; [exact Hc'|].
  intros Hnil n Hn. subst log. apply filter_In in Hn. apply Hmin; tauto.
Qed.
