(** C13: the accept loop of [GMDistribution.rvs]. *)
From Coq Require Import List Arith Bool Lia.
From Elfi Require Import Num.Quantile.
Import ListNotations.

Section RvsProofs.
  Variable X : Type.
  Variable valid : X -> bool.
  Variable draw : nat -> nat -> list X.

  Lemma filter_length_le (l : list X) : length (filter valid l) <= length l.
  Proof. induction l as [|a l IH]; simpl; [lia|]. destruct (valid a); simpl; lia. Qed.

  Lemma forall_filter (l : list X) : Forall (fun x => valid x = true) (filter valid l).
  Proof. apply Forall_forall. intros x Hx. apply filter_In in Hx. tauto. Qed.

  (** every completed run returns exactly [size] rows, all valid, provided the rows accepted so
      far were valid and not more than [size] *)
  Lemma rvs_loop_spec fuel : forall trial size acc out,
      length acc <= size -> Forall (fun x => valid x = true) acc ->
      rvs_loop X valid draw fuel trial size acc = Some out ->
      length out = size /\ Forall (fun x => valid x = true) out.
  Proof.
    induction fuel as [|f IH]; intros trial size acc out Hle Hv H; simpl in H.
    - destruct (size <=? length acc) eqn:E; [|discriminate].
      apply Nat.leb_le in E. injection H as <-. split; [lia | exact Hv].
    - destruct (size <=? length acc) eqn:E.
      + apply Nat.leb_le in E. injection H as <-. split; [lia | exact Hv].
      + apply Nat.leb_gt in E.
        destruct (length (draw trial (size - length acc)) =? size - length acc) eqn:El; simpl in H; [|discriminate].
        apply Nat.eqb_eq in El.
        apply IH in H; [exact H | |].
        * rewrite app_length. pose proof (filter_length_le (draw trial (size - length acc))). lia.
        * apply Forall_app. split; [exact Hv | apply forall_filter].
  Qed.

  Theorem rvs_spec fuel size out :
    rvs X valid draw fuel size = Some out ->
    length out = size /\ Forall (fun x => valid x = true) out.
  Proof. unfold rvs. apply rvs_loop_spec; simpl; [lia | constructor]. Qed.

  (** liveness: if the first batch is entirely valid the loop ends after one trial *)
  Theorem rvs_live size :
    length (draw 0 size) = size -> forallb valid (draw 0 size) = true ->
    rvs X valid draw 2 size = Some (draw 0 size).
  Proof.
    intros Hl Hv. unfold rvs. simpl.
    destruct size as [|n].
    - simpl. destruct (draw 0 0); [reflexivity | discriminate].
    - simpl. replace (draw 0 (S n)) with (draw 0 (S n - 0)) in * by (f_equal; lia).
      assert (Hf : filter valid (draw 0 (S n - 0)) = draw 0 (S n - 0)).
      { clear Hl. induction (draw 0 (S n - 0)) as [|a l IH]; simpl in *; [reflexivity|].
        apply andb_true_iff in Hv as [Ha Hr]. rewrite Ha, IH; auto. }
      simpl in *. rewrite Hl, Nat.eqb_refl. simpl. rewrite Hf, Hl.
      destruct n; simpl; rewrite ?Nat.leb_refl; reflexivity.
  Qed.
End RvsProofs.
