(** C12 — proofs about the distance nodes' shape plumbing, the keyword extraction of
    [Distance.__init__], [update_distance] / [nested_distance], and soundness of the decidable
    predicates used by the correspondence check (models: Num/Distance.v, Num/Welford.v). *)
From Coq Require Import String.
From Coq Require Import ZArith QArith Qabs List Bool Arith Lia Lqa Setoid Morphisms.
From Elfi Require Import Num.Distance Num.Welford Proofs.C12_Welford.
Import ListNotations.
Open Scope Q_scope.

(** ** shape plumbing *)

Lemma hcat_rows (ms : list mat) M :
  ms <> [] -> forallb (fun m => Nat.eqb (length m) M) ms = true ->
  hcat ms = Some (map (fun i => concat (map (fun m => nth i m []) ms)) (seq 0 M)).
Proof.
  intros Hne Hall. destruct ms as [|m0 r]; [congruence|]. unfold hcat.
  assert (E : length m0 = M).
  { simpl in Hall. apply andb_true_iff in Hall. destruct Hall as [H _]. apply Nat.eqb_eq in H. exact H. }
  rewrite E, Hall. reflexivity.
Qed.

Lemma forallb_map {A B} (f : A -> B) (p : B -> bool) l : forallb p (map f l) = forallb (fun x => p (f x)) l.
Proof. induction l; simpl; [reflexivity | rewrite IHl; reflexivity]. Qed.

Lemma length_zero_nil {A} (l : list A) : Nat.eqb (length l) 0 = false -> l <> [].
Proof. destruct l; simpl; congruence. Qed.

Lemma column_stack_rows summaries M :
  Nat.eqb (length summaries) 0 = false ->
  forallb (fun a => Nat.eqb (length (as_cols a)) M) summaries = true ->
  column_stack summaries = Some (map (srow summaries) (seq 0 M)).
Proof.
  intros Hne Hall. unfold column_stack.
  rewrite (hcat_rows (map as_cols summaries) M).
  - f_equal. apply map_ext. intros i. unfold srow. rewrite map_map. reflexivity.
  - apply length_zero_nil in Hne. destruct summaries; [congruence | discriminate].
  - rewrite forallb_map. exact Hall.
Qed.

Lemma observed_2d_row observed :
  Nat.eqb (length observed) 0 = false ->
  forallb (fun a => Nat.eqb (length (atleast_2d a)) 1) observed = true ->
  observed_2d observed = Some [orow observed].
Proof.
  intros Hne Hall. unfold observed_2d.
  rewrite (hcat_rows (map atleast_2d observed) 1).
  - simpl. unfold orow. rewrite map_map. reflexivity.
  - apply length_zero_nil in Hne. destruct observed; [congruence | discriminate].
  - rewrite forallb_map. exact Hall.
Qed.

Lemma well_shaped_parts M s o :
  well_shaped M s o = true ->
  Nat.eqb (length s) 0 = false /\ Nat.eqb (length o) 0 = false
  /\ forallb (fun a => Nat.eqb (length (as_cols a)) M) s = true
  /\ forallb (fun a => Nat.eqb (length (atleast_2d a)) 1) o = true
  /\ forallb (fun i => Nat.eqb (length (srow s i)) (length (orow o))) (seq 0 M) = true.
Proof.
  unfold well_shaped. rewrite !andb_true_iff, !negb_true_iff. tauto.
Qed.

Lemma same_width_rows s o M :
  forallb (fun i => Nat.eqb (length (srow s i)) (length (orow o))) (seq 0 M) = true ->
  same_width (map (srow s) (seq 0 M)) [orow o] = true.
Proof. intros H. unfold same_width. rewrite forallb_map. exact H. Qed.

Lemma concat_map_single {A B} (f : A -> B) l : concat (map (fun a => [f a]) l) = map f l.
Proof. induction l; simpl; [reflexivity | rewrite IHl; reflexivity]. Qed.

Section Shape.
  Variables K D : Type.
  Variable metric : K -> list Q -> list Q -> D.

  (** A distance node over well-shaped inputs ([M] simulated rows in every parent, one observed
      row) outputs one value per simulated row: the metric between row [i] of the column-stacked
      summaries and the stacked observed row, with the node's keyword arguments [kw]. *)
  Theorem distance_node_rows (kw : K) M summaries observed :
    well_shaped M summaries observed = true ->
    distance_node metric kw summaries observed
    = Some (D1 (map (fun i => metric kw (srow summaries i) (orow observed)) (seq 0 M))).
  Proof.
    intros W. destruct (well_shaped_parts _ _ _ W) as (H1 & H2 & H3 & H4 & H5).
    unfold distance_node, distance_as_discrepancy.
    rewrite (column_stack_rows _ M H1 H3), (observed_2d_row _ H2 H4).
    unfold cdist. rewrite (same_width_rows _ _ _ H5). simpl.
    rewrite map_map. rewrite concat_map_single. reflexivity.
  Qed.

  Lemma flat_map_single {A B} (f : A -> B) l : flat_map (fun a => [f a]) l = map f l.
  Proof. induction l; simpl; [reflexivity | rewrite IHl; reflexivity]. Qed.

  (** the adaptive node: row [i] holds one entry per distance function, in order *)
  Theorem nested_node_rows (funcs : list K) M summaries observed :
    well_shaped M summaries observed = true ->
    distance_as_discrepancy (nested_distance metric funcs) summaries observed
    = Some (squeeze (R2 (length funcs * 1)
                        (map (fun i => map (fun f => metric f (srow summaries i) (orow observed)) funcs) (seq 0 M)))).
  Proof.
    intros W. destruct (well_shaped_parts _ _ _ W) as (H1 & H2 & H3 & H4 & H5).
    unfold distance_as_discrepancy.
    rewrite (column_stack_rows _ M H1 H3), (observed_2d_row _ H2 H4).
    unfold nested_distance. rewrite (same_width_rows _ _ _ H5). cbn [option_map length].
    rewrite map_map. erewrite map_ext; [reflexivity|]. intros i. cbv beta. apply flat_map_single.
  Qed.

  (** appending a distance function leaves every earlier column as it was: each new row is the
      old row with one more entry *)
  Theorem nested_append (funcs : list K) (f : K) (u v : mat) rows n :
    nested_distance metric funcs u v = Some (R2 n rows) ->
    nested_distance metric (funcs ++ [f]) u v
    = Some (R2 (length (funcs ++ [f]) * length v)
               (zipw (fun r a => r ++ map (fun b => metric f a b) v) rows u)).
  Proof.
    unfold nested_distance. destruct (same_width u v); [|discriminate].
    intros E. injection E as _ <-. f_equal. f_equal.
    induction u as [|a u IH]; simpl; [reflexivity|].
    rewrite flat_map_app. simpl. rewrite app_nil_r. f_equal. exact IH.
  Qed.
End Shape.

(** after [update_distance]: exactly one more function, whose weights are [1 / scale^2]; the
    earlier functions and weights are untouched; the store is reset; the scale survives *)
Theorem update_distance_spec a a' :
  update_distance a = Some a' ->
  exists sc, a_scale2 a = Some sc
    /\ a_funcs a' = a_funcs a ++ [Some (map (fun s => Qred (/ s)) sc)]
    /\ a_w2 a' = a_w2 a ++ [Some (map (fun s => Qred (/ s)) sc)]
    /\ a_store a' = store0 /\ a_scale2 a' = a_scale2 a.
Proof.
  unfold update_distance. destruct (a_scale2 a) as [sc|] eqn:E; [|discriminate].
  intros H. injection H as <-. exists sc. simpl. repeat split; reflexivity.
Qed.

Lemma psum_zip_inv sc : forall ds,
  psum (zipw Qmult (map (fun s => Qred (/ s)) sc) ds) == psum (zipw Qdiv ds sc).
Proof.
  induction sc as [|s sc IH]; intros [|d ds]; simpl; try reflexivity.
  rewrite IH, Qred_correct. unfold Qdiv. ring.
Qed.

(** the newest distance, squared, is the sum of squared differences divided by [scale^2] *)
Theorem newest_distance_scaled sc u v :
  weuclid2 (Some (map (fun s => Qred (/ s)) sc)) u v == dist2 (Some sc) u v.
Proof.
  unfold weuclid2, dist2, metric_pow, weights. rewrite !qsum_psum. apply psum_zip_inv.
Qed.

Lemma psum_zip_ones : forall ds n, (length ds <= n)%nat -> psum (zipw Qmult (repeat 1 n) ds) == psum ds.
Proof.
  induction ds as [|d ds IH]; intros [|n] H; simpl in *; try reflexivity; try lia.
  rewrite IH by lia. ring.
Qed.

Lemma diffs_length u v : (length (diffs u v) <= length u)%nat.
Proof. revert v. induction u as [|x u IH]; intros [|y v]; simpl; try lia. specialize (IH v). unfold diffs in IH. lia. Qed.

(** the first (unweighted) distance, squared, is the plain sum of squared differences *)
Theorem first_distance_plain u v : weuclid2 None u v == dist2 None u v.
Proof.
  unfold weuclid2, dist2, metric_pow, weights. rewrite !qsum_psum.
  apply psum_zip_ones. rewrite map_length. apply diffs_length.
Qed.

(** ** Distance.__init__ keyword extraction *)

Section InitProofs.
  Variable V : Type.

  Theorem distance_init_spec (d : string) (kw : list (string * V)) m ex rest :
    distance_init d kw = Some (m, ex, rest) ->
    m = d
    /\ (forall k v, In (k, v) ex <-> In k cdist_keys /\ lookup k kw = Some v)
    /\ (forall kv, In kv rest <-> In kv kw /\ ~ In (fst kv) cdist_keys).
  Proof.
    unfold distance_init.
    destruct (_ && _)%bool; [discriminate|]. destruct (_ && _)%bool; [discriminate|].
    destruct (_ && _)%bool; [discriminate|].
    intros H. injection H as <- <- <-. split; [reflexivity|]. split.
    - intros k v. unfold extract. rewrite in_flat_map. split.
      + intros (k' & Hk' & Hin). destruct (lookup k' kw) as [v'|] eqn:E; [|destruct Hin].
        destruct Hin as [Hin|[]]. injection Hin as <- <-. split; assumption.
      + intros (Hk & E). exists k. split; [exact Hk|]. rewrite E. left. reflexivity.
    - intros kv. unfold remaining. rewrite filter_In, negb_true_iff. split; intros (H1 & H2); split; try exact H1.
      + intros Hin. unfold mem_str in H2.
        assert (existsb (String.eqb (fst kv)) cdist_keys = true).
        { apply existsb_exists. exists (fst kv). split; [exact Hin | apply String.eqb_refl]. }
        congruence.
      + unfold mem_str. destruct (existsb _ _) eqn:E; [|reflexivity].
        apply existsb_exists in E. destruct E as (x & Hx & Ex). apply String.eqb_eq in Ex. subst x. contradiction.
  Qed.

  (** construction is refused exactly for the three metrics that lack their mandatory argument *)
  Theorem distance_init_rejects (d : string) (kw : list (string * V)) :
    distance_init d kw = None <->
    (d = "wminkowski"%string /\ has "w" kw = false)
    \/ (d = "seuclidean"%string /\ has "V" kw = false)
    \/ (d = "mahalanobis"%string /\ has "VI" kw = false).
  Proof.
    unfold distance_init.
    destruct (String.eqb_spec d "wminkowski") as [E1|E1];
      destruct (String.eqb_spec d "seuclidean") as [E2|E2];
      destruct (String.eqb_spec d "mahalanobis") as [E3|E3]; subst; try congruence; simpl;
      repeat match goal with |- context [has ?k kw] => destruct (has k kw) eqn:?; simpl end;
      (split; [intros H; try discriminate; auto 6
              | intros [(A & B)|[(A & B)|(A & B)]]; try reflexivity; congruence]).
  Qed.
End InitProofs.

(** ** soundness of the decidable predicates *)

Definition Close (a b : Q) : Prop := Qabs (a - b) <= tol * (Qabs a + Qabs b).

Lemma close_sound a b : close a b = true -> Close a b.
Proof. unfold close, Close. apply Qle_bool_iff. Qed.

Lemma close_refl_eq a b : a == b -> close a b = true.
Proof.
  intros E. unfold close. apply Qle_bool_iff. rewrite E.
  setoid_replace (b - b) with 0 by ring. simpl Qabs at 1.
  apply Qmult_le_0_compat; [unfold tol; discriminate|].
  assert (0 <= Qabs b) by apply Qabs_nonneg. lra.
Qed.

Lemma close_at_refl_eq s a b : 0 <= s -> a == b -> close_at s a b = true.
Proof.
  intros Hs E. unfold close_at. apply Qle_bool_iff. rewrite E.
  setoid_replace (b - b) with 0 by ring. simpl Qabs at 1.
  apply Qmult_le_0_compat; [unfold tol; discriminate|].
  assert (0 <= Qabs b) by apply Qabs_nonneg. lra.
Qed.

Lemma close_sq_sound x y : close_sq x y = true -> 0 <= x /\ Close (x * x) y.
Proof.
  unfold close_sq. rewrite andb_true_iff. intros (H1 & H2). apply Qle_bool_iff in H1.
  split; [exact H1|]. apply close_sound in H2. unfold Close in *. rewrite Qred_correct in H2. exact H2.
Qed.

Lemma close_sq_exact x y : 0 <= x -> x * x == y -> close_sq x y = true.
Proof.
  intros H E. unfold close_sq. apply andb_true_iff. split; [apply Qle_bool_iff; exact H|].
  apply close_refl_eq. rewrite Qred_correct. exact E.
Qed.

(** the statement [d_ok] decides: one output value per simulated row, each (raised to the metric's
    power) within the tolerance of the exact metric between that row and the observed row *)
Definition DistanceStatement (c : dcase) (M : nat) : Prop :=
  exists v, d_impl c = Some (D1 v) /\ length v = M
    /\ forall i, (i < M)%nat ->
         0 <= nth i v (-(1))
         /\ Close (Qpower_positive (nth i v (-(1))) (mpow (d_kind c)))
                  (metric_pow (d_kind c) (srow (d_summaries c) i) (orow (d_observed c))).

Theorem d_ok_sound c :
  d_ok c = true ->
  let M := match d_summaries c with [] => 0%nat | a :: _ => length (as_cols a) end in
  well_shaped M (d_summaries c) (d_observed c) = true ->
  kw_ok (d_kind c) (length (orow (d_observed c))) = true ->
  DistanceStatement c M.
Proof.
  intros H M W Kw. unfold d_ok in H. fold M in H. rewrite W, Kw in H. simpl in H.
  destruct (d_impl c) as [[v|rows]|] eqn:E; try discriminate.
  apply andb_true_iff in H. destruct H as (HL & HF). apply Nat.eqb_eq in HL.
  exists v. split; [exact E|]. split; [exact HL|].
  intros i Hi. rewrite forallb_forall in HF. specialize (HF i).
  assert (Hin : In i (seq 0 M)) by (apply in_seq; lia).
  specialize (HF Hin). unfold close_pow in HF. apply andb_true_iff in HF. destruct HF as (H0 & HC).
  apply Qle_bool_iff in H0. split; [exact H0|].
  apply close_sound in HC. unfold Close in *. unfold pw in HC. rewrite Qred_correct in HC. exact HC.
Qed.

(** the statement [ok_add] decides about the observed store after an [add_data] *)
Definition AddStatement (R : mat) (n : nat) (mean m2 scale : list Q) : Prop :=
  n = length R
  /\ forall j, (j < width R)%nat ->
       Qabs (nth j mean 0 - colmean R j) <= tol * (Qabs (nth j mean 0) + Qabs (colmean R j) + colabs R j)
       /\ Close (nth j m2 0) (colss R j)
       /\ 0 <= nth j scale (-(1))
       /\ Close (nth j scale (-(1)) * nth j scale (-(1))) (colvar R j).

Theorem ok_add_sound R n mean m2 scale : ok_add R n mean m2 scale = true -> AddStatement R n mean m2 scale.
Proof.
  unfold ok_add. rewrite !andb_true_iff. intros ((((Hn & _) & _) & _) & HF).
  apply Nat.eqb_eq in Hn. split; [exact Hn|]. intros j Hj.
  rewrite forallb_forall in HF. specialize (HF j).
  assert (Hin : In j (seq 0 (width R))) by (apply in_seq; lia).
  specialize (HF Hin). rewrite !andb_true_iff in HF. destruct HF as ((Ha & Hb) & Hc).
  split; [unfold close_at in Ha; apply Qle_bool_iff in Ha; exact Ha|].
  split; [apply close_sound; exact Hb|].
  apply close_sq_sound in Hc. exact Hc.
Qed.

Theorem ok_update_sound var weis :
  ok_update var weis = true ->
  length weis = length var
  /\ Forall2 (fun w v => 0 <= w /\ Close (w * w * v) 1) weis var.
Proof.
  unfold ok_update. rewrite andb_true_iff. intros (HL & HA). apply Nat.eqb_eq in HL. split; [exact HL|].
  clear HL. revert var HA. induction weis as [|w ws IH]; intros [|v vs] HA; cbn [all2] in HA; try discriminate.
  - constructor.
  - rewrite !andb_true_iff in HA. destruct HA as ((H0 & HC) & HR). constructor; [|apply IH; exact HR].
    apply Qle_bool_iff in H0. split; [exact H0|].
    apply close_sound in HC. unfold Close in *. rewrite Qred_correct in HC. exact HC.
Qed.

(** ** the model's own state satisfies [ok_add] (with any exact square root as its scale) *)

Lemma width_concat w bs : bs <> [] -> Forall (fun b => b <> [] /\ width b = w) bs -> width (concat bs) = w.
Proof.
  intros Hne HF. destruct bs as [|b r]; [congruence|]. inversion HF as [|? ? (Hb & Hw) _]; subst.
  destruct b as [|row b]; [congruence|]. reflexivity.
Qed.

Lemma colabs_nonneg R j : 0 <= colabs R j.
Proof.
  unfold colabs. rewrite Qred_correct, qsum_psum.
  assert (H : 0 <= psum (map Qabs (col j R))).
  { induction (col j R) as [|x l IH]; simpl; [discriminate|].
    assert (0 <= Qabs x) by apply Qabs_nonneg. lra. }
  unfold Qdiv. apply Qmult_le_0_compat; [exact H|]. apply Qinv_le_0_compat. apply Qn_nonneg.
Qed.

Lemma fold_add_data_n bs : forall st, s_n (fold_left add_data bs st) = (s_n st + length (concat bs))%nat.
Proof.
  induction bs as [|b r IH]; intros st; simpl; [lia|].
  rewrite IH, add_data_n, app_length. lia.
Qed.

Theorem model_ok_add w bs scale :
  bs <> [] -> Forall (fun b => b <> [] /\ width b = w) bs ->
  let st := fold_left add_data bs store0 in
  length scale = w ->
  (forall j, (j < w)%nat -> 0 <= nth j scale (-(1))
                           /\ nth j scale (-(1)) * nth j scale (-(1)) == nth j (scale2_of st) 0) ->
  ok_add (concat bs) (s_n st) (bvec_list (s_mean st)) (bvec_list (s_m2 st)) scale = true.
Proof.
  intros Hne HF st HL HS.
  assert (HW : Forall (fun b => width b = w) bs) by (eapply Forall_impl; [|exact HF]; simpl; tauto).
  destruct (fold_add_data_shape w bs Hne store0 HW) as (vm & v2 & Em & E2 & Lm & L2).
  fold st in Em, E2.
  assert (Hn : s_n st = length (concat bs)) by (unfold st; rewrite fold_add_data_n; reflexivity).
  unfold ok_add. rewrite (width_concat w bs Hne HF). rewrite Em, E2. simpl bvec_list.
  rewrite Lm, L2, HL, Hn, !Nat.eqb_refl. simpl.
  apply forallb_forall. intros j Hin. apply in_seq in Hin.
  assert (Hj : (j < w)%nat) by lia.
  destruct (welford_batches w bs j HF Hj) as (_ & Hm & Hm2). fold st in Hm, Hm2.
  rewrite Em in Hm. rewrite E2 in Hm2. simpl in Hm, Hm2.
  rewrite !andb_true_iff. split; [split|].
  - apply close_at_refl_eq; [apply colabs_nonneg | exact Hm].
  - apply close_refl_eq. exact Hm2.
  - destruct (HS j Hj) as (H0 & Hsq). apply close_sq_exact; [exact H0|].
    rewrite Hsq. apply (scale2_is_variance w); assumption.
Qed.

(** ** a whole adaptation round at the level of the node state *)

Lemma fold_state bs : forall a, bs <> [] ->
  let a' := fold_left add_data_state bs a in
  a_store a' = fold_left add_data bs (a_store a) /\ a_funcs a' = a_funcs a /\ a_w2 a' = a_w2 a
  /\ a_scale2 a' = Some (scale2_of (a_store a')).
Proof.
  induction bs as [|b r IH]; intros a Hne; [congruence|]. simpl.
  destruct r as [|b' r'].
  - simpl. repeat split; reflexivity.
  - destruct (IH (add_data_state a b)) as (H1 & H2 & H3 & H4); [discriminate|].
    repeat split; assumption.
Qed.

(** For every state [a], every round of non-empty batches of width [w] (any split of the round's
    data), [update_distance] succeeds, keeps all earlier functions, resets the store and appends one
    function whose weight for column [j] is the inverse population variance of column [j] of ALL
    rows of the round. *)
Theorem adaptive_round a w bs :
  bs <> [] -> Forall (fun b => b <> [] /\ width b = w) bs ->
  exists a2 w2,
    update_distance (fold_left add_data_state bs (init_round a)) = Some a2
    /\ a_funcs a2 = a_funcs a ++ [Some w2] /\ a_store a2 = store0 /\ length w2 = w
    /\ forall j, (j < w)%nat -> nth j w2 0 == / colvar (concat bs) j.
Proof.
  intros Hne HF.
  assert (HW : Forall (fun b => width b = w) bs) by (eapply Forall_impl; [|exact HF]; simpl; tauto).
  destruct (fold_state bs (init_round a) Hne) as (H1 & H2 & H3 & H4).
  set (a1 := fold_left add_data_state bs (init_round a)) in *.
  simpl in H1, H2.
  destruct (fold_add_data_shape w bs Hne store0 HW) as (vm & v2 & Em & E2 & Lm & L2).
  unfold update_distance. rewrite H4.
  eexists. eexists. split; [reflexivity|]. simpl. rewrite H2.
  split; [reflexivity|]. split; [reflexivity|].
  assert (Lsc : length (scale2_of (a_store a1)) = w).
  { rewrite H1. unfold scale2_of. rewrite E2, map_length. exact L2. }
  split; [rewrite map_length; exact Lsc|].
  intros j Hj.
  set (f := fun s : Q => Qred (/ s)).
  rewrite (nth_indep _ 0 (f 0)) by (rewrite map_length, Lsc; exact Hj).
  rewrite map_nth. unfold f. rewrite Qred_correct, H1.
  rewrite (scale2_is_variance w bs j Hne HF Hj). reflexivity.
Qed.
