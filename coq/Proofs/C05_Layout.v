(** C05, on-disk stores and memory layouts: writing the logical row-major traversal of ANY strided
    window (C, Fortran, permuted, strided, reversed ...) behind the data already stored and reading the
    file back through a row-major map returns, at every index of every batch, exactly the element the
    produced array has there. *)
From Coq Require Import List ZArith Arith Bool Lia.
From Elfi Require Import Store.Layout.
Import ListNotations.

(** a multi-index is valid for a shape *)
Inductive valid : list nat -> list nat -> Prop :=
| valid_nil : valid [] []
| valid_cons i n idx shape : i < n -> valid idx shape -> valid (i :: idx) (n :: shape).

Lemma nth_error_concat_uniform {A} (L : nat) : forall (ls : list (list A)) i j l,
  (forall x, In x ls -> List.length x = L) -> nth_error ls i = Some l -> j < L ->
  nth_error (List.concat ls) (i * L + j) = nth_error l j.
Proof.
  induction ls as [|x r IH]; intros i j l Hlen Hi Hj; [destruct i; discriminate|].
  destruct i as [|i]; simpl in *.
  - inversion Hi; subst. rewrite nth_error_app1; [reflexivity|]. rewrite (Hlen l); auto.
  - rewrite nth_error_app2; rewrite (Hlen x) by auto; [|lia].
    replace (L + i * L + j - L) with (i * L + j) by lia.
    apply IH; auto.
Qed.

Lemma length_c_indices : forall shape, List.length (c_indices shape) = prod shape.
Proof.
  induction shape as [|n r IH]; [reflexivity|]. simpl.
  rewrite flat_map_concat_map.
  assert (H : forall (l : list nat), List.length (List.concat (map (fun i => map (cons i) (c_indices r)) l)) = List.length l * prod r).
  { induction l as [|a t IHl]; [reflexivity|]. simpl. rewrite app_length, map_length, IH, IHl. reflexivity. }
  rewrite H, seq_length. reflexivity.
Qed.

Lemma lin_bound : forall idx shape, valid idx shape -> lin shape idx < prod shape.
Proof.
  intros idx shape H. induction H as [|i n idx shape Hi Hv IH]; simpl; [lia|].
  assert (i * prod shape + prod shape <= n * prod shape) by (replace (i * prod shape + prod shape) with (S i * prod shape) by (simpl; lia); apply Nat.mul_le_mono_r; lia).
  lia.
Qed.

(** the multi-index at row-major position lin(idx) is idx *)
Lemma c_indices_nth : forall idx shape, valid idx shape -> nth_error (c_indices shape) (lin shape idx) = Some idx.
Proof.
  intros idx shape H. induction H as [|i n idx shape Hi Hv IH]; [reflexivity|].
  simpl. rewrite flat_map_concat_map.
  rewrite (nth_error_concat_uniform (prod shape) _ i (lin shape idx) (map (cons i) (c_indices shape))).
  - now rewrite (map_nth_error _ _ _ IH).
  - intros x Hx. apply in_map_iff in Hx. destruct Hx as [k [<- _]]. rewrite map_length. apply length_c_indices.
  - rewrite (map_nth_error _ _ (seq 0 n) (d := i)); [reflexivity|].
    rewrite nth_error_nth' with (d := 0) by (rewrite seq_length; exact Hi). now rewrite seq_nth.
  - now apply lin_bound.
Qed.

Lemma c_indices_valid : forall shape idx, In idx (c_indices shape) -> valid idx shape.
Proof.
  induction shape as [|n r IH]; intros idx H; simpl in H.
  - destruct H as [<-|[]]. constructor.
  - apply in_flat_map in H. destruct H as [i [Hi H]]. apply in_map_iff in H. destruct H as [t [<- Ht]].
    apply in_seq in Hi. constructor; [lia | now apply IH].
Qed.

Lemma length_tobytes a : List.length (tobytes_C a) = prod (nd_shape a).
Proof. unfold tobytes_C. rewrite map_length. apply length_c_indices. Qed.

(** tobytes('C') puts a[idx] at the row-major position of idx, whatever the strides *)
Theorem tobytes_C_at a idx :
  valid idx (nd_shape a) -> nth_error (tobytes_C a) (lin (nd_shape a) idx) = Some (elem a idx).
Proof. intros H. unfold tobytes_C. apply map_nth_error. now apply c_indices_nth. Qed.

Lemma append_all_concat : forall bs acc, fold_left append bs acc = acc ++ List.concat (map tobytes_C bs).
Proof.
  induction bs as [|a r IH]; intros acc; simpl; [now rewrite app_nil_r|].
  rewrite IH. unfold append. now rewrite app_assoc.
Qed.

(** Appending batches of one shape with arbitrary layouts and reading batch i back through the
    row-major map gives, at every valid index, the element the i-th produced array has there. *)
Theorem append_read_back bs sh i a idx :
  (forall b, In b bs -> nd_shape b = sh) -> nth_error bs i = Some a -> valid idx sh ->
  read_back (append_all bs) sh i idx = elem a idx.
Proof.
  intros Hsh Hi Hv. unfold read_back, append_all. rewrite append_all_concat. simpl.
  rewrite (nth_error_concat_uniform (prod sh) _ i (lin sh idx) (tobytes_C a)).
  - assert (Ha : nd_shape a = sh) by (apply Hsh; eapply nth_error_In; exact Hi).
    rewrite <- Ha in *. rewrite (tobytes_C_at a idx Hv). destruct (elem a idx); reflexivity.
  - intros x Hx. apply in_map_iff in Hx. destruct Hx as [b [<- Hb]]. rewrite length_tobytes. now rewrite (Hsh b Hb).
  - now apply map_nth_error.
  - now apply lin_bound.
Qed.

(** hence the whole batch read back is the logical traversal of the produced array (the model's own
    output satisfies the clause [store_ok] checks) *)
Corollary read_back_batch bs sh i a :
  (forall b, In b bs -> nd_shape b = sh) -> nth_error bs i = Some a ->
  map (read_back (append_all bs) sh i) (c_indices sh) = tobytes_C a.
Proof.
  intros Hsh Hi. assert (Ha : nd_shape a = sh) by (apply Hsh; eapply nth_error_In; exact Hi).
  unfold tobytes_C. rewrite Ha. apply map_ext_in. intros idx Hin.
  apply (append_read_back bs sh i a idx Hsh Hi). now apply c_indices_valid.
Qed.

(** soundness of the decidable clause: if [store_ok] holds, every returned batch has at every valid
    index the element of the produced array *)
Lemma optlist_eqb_nth : forall a b, optlist_eqb a b = true ->
  forall k x, nth_error a k = Some x -> exists v, x = Some v /\ nth_error b k = Some v.
Proof.
  induction a as [|[x|] r IH]; intros b H k y Hk; destruct b as [|z s]; simpl in H; try discriminate.
  - destruct k; discriminate.
  - apply andb_true_iff in H. destruct H as [Hx Hr]. apply Z.eqb_eq in Hx. subst z.
    destruct k as [|k]; simpl in *.
    + inversion Hk; subst. eauto.
    + eapply IH; eauto.
Qed.

Theorem store_ok_sound o : store_ok o = true ->
  forall i a r, nth_error (so_batches o) i = Some a -> nth_error (so_read o) i = Some r ->
  forall idx, valid idx (nd_shape a) ->
  exists v, elem a idx = Some v /\ nth_error r (lin (nd_shape a) idx) = Some v.
Proof.
  unfold store_ok. generalize (so_batches o) (so_read o). clear o.
  induction l as [|a0 bt IH]; intros rs H i a r Hi Hr idx Hv; [destruct i; discriminate|].
  destruct rs as [|r0 rt]; [discriminate|].
  apply andb_true_iff in H. destruct H as [H0 Ht].
  destruct i as [|i]; simpl in Hi, Hr.
  - inversion Hi; inversion Hr; subst.
    apply (optlist_eqb_nth _ _ H0 _ _ (tobytes_C_at a idx Hv)).
  - eapply IH; eauto.
Qed.
