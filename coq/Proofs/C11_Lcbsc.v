(** Proofs for C11, part 3: the translated LCBSC.evaluate_gradient is the derivative of the
    translated LCBSC.evaluate (definitions regenerated from the source text on every run). *)
From Coq Require Import Reals Lra.
From Coquelicot Require Import Coquelicot.
From Elfi Require Import Gen.C11_Lcbsc.
Local Open Scope R_scope.

Lemma sqrt_quot beta v : 0 < beta -> 0 < v -> sqrt (beta / v) = sqrt (beta * v) / v.
Proof.
  intros Hb Hv.
  replace (beta / v) with ((beta * v) / (v * v)) by (field; lra).
  rewrite sqrt_div_alt by nra. rewrite sqrt_square by lra. reflexivity.
Qed.

(** mu, v: the surrogate's mean and variance along one coordinate; k: the additive cost *)
Theorem lcbsc_gradient_is_derivative (mu v k mu' v' k' : R -> R) (beta x : R) :
  0 < beta -> 0 < v x ->
  is_derive mu x (mu' x) -> is_derive v x (v' x) -> is_derive k x (k' x) ->
  is_derive (fun y => lcbsc beta (mu y) (v y) (k y)) x
            (lcbsc_grad beta (mu x) (v x) (mu' x) (v' x) (k' x)).
Proof.
  intros Hb Hv Hmu Hvv Hk. unfold lcbsc, lcbsc_grad. cbv zeta.
  assert (Hbv : 0 < beta * v x) by (apply Rmult_lt_0_compat; assumption).
  auto_derive.
  - repeat split; try (eexists; eassumption); auto.
  - replace (Derive (fun y : R => mu y) x) with (mu' x) by (symmetry; apply is_derive_unique; exact Hmu).
    replace (Derive (fun y : R => v y) x) with (v' x) by (symmetry; apply is_derive_unique; exact Hvv).
    replace (Derive (fun y : R => k y) x) with (k' x) by (symmetry; apply is_derive_unique; exact Hk).
    rewrite (sqrt_quot beta (v x) Hb Hv).
    set (s := sqrt (beta * v x)).
    assert (Hs : 0 < s) by (apply sqrt_lt_R0; exact Hbv).
    assert (Hss : s * s = beta * v x) by (apply sqrt_sqrt; lra).
    assert (Hbeta : beta = s * s / v x) by (rewrite Hss; field; lra).
    rewrite Hbeta at 1. field. split; lra.
Qed.

(** the formula the statement of the property names: mean - sqrt(beta_t * var), and its gradient *)
Lemma lcbsc_formula beta m v0 k0 : lcbsc beta m v0 k0 = m - sqrt (beta * v0) + k0.
Proof. reflexivity. Qed.

Lemma lcbsc_grad_formula beta m v0 gm gv gk :
  lcbsc_grad beta m v0 gm gv gk = gm - / 2 * gv * sqrt (beta / v0) + gk.
Proof. unfold lcbsc_grad. cbv zeta. field. Qed.

(** the statement without the additive cost, in the property's own words *)
Theorem lcb_derivative (mu v mu' v' : R -> R) (beta x : R) :
  0 < beta -> 0 < v x -> is_derive mu x (mu' x) -> is_derive v x (v' x) ->
  is_derive (fun y => mu y - sqrt (beta * v y)) x (mu' x - / 2 * v' x * sqrt (beta / v x)).
Proof.
  intros Hb Hv Hmu Hvv.
  pose proof (lcbsc_gradient_is_derivative mu v (fun _ => 0) mu' v' (fun _ => 0) beta x Hb Hv Hmu Hvv
                (is_derive_const 0 x)) as H.
  rewrite lcbsc_grad_formula in H.
  replace (mu' x - / 2 * v' x * sqrt (beta / v x)) with (mu' x - / 2 * v' x * sqrt (beta / v x) + 0) by ring.
  eapply is_derive_ext; [|exact H]. intros t. cbv beta. rewrite lcbsc_formula. apply Rplus_0_r.
Qed.
