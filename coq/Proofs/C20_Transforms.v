(** C20 — theorems about the GENERATED definitions [Gen/C20_Transforms.v] (translated on every run from
    the text of BSL._para_logit_transform / _para_logit_back_transform / _jacobian_logit_transform). *)
From Coq Require Import Reals Lra.
From Coquelicot Require Import Coquelicot.
From Elfi Require Import Gen.C20_Transforms.
Local Open Scope R_scope.

(** ---- back-transform inverts the transform strictly inside the bounds ---- *)

Lemma inv0 a b x : a < x < b -> back0 a b (trans0 a b x) = x.
Proof.
  intros [H1 H2]. unfold back0, trans0.
  assert (H : 0 < (x - a) / (b - x)) by (apply Rdiv_lt_0_compat; lra).
  rewrite exp_ln by assumption. field. repeat split; lra.
Qed.

Lemma inv1 a b x : x < b -> back1 a b (trans1 a b x) = x.
Proof.
  intros H2. unfold back1, trans1.
  assert (H : 0 < 1 / (b - x)) by (apply Rdiv_lt_0_compat; lra).
  rewrite exp_ln by assumption. field. lra.
Qed.

Lemma inv2 a b x : a < x -> back2 a b (trans2 a b x) = x.
Proof.
  intros H1. unfold back2, trans2. rewrite exp_ln by lra. ring.
Qed.

Lemma inv3 a b x : back3 a b (trans3 a b x) = x.
Proof. reflexivity. Qed.

(** ---- the other direction: transform after back-transform is the identity everywhere ---- *)

Lemma vni0 a b y : a < b -> trans0 a b (back0 a b y) = y.
Proof.
  intros Hab. unfold back0, trans0.
  pose proof (exp_pos y) as He. transitivity (ln (exp y)); [|apply ln_exp].
  set (e := exp y) in *. f_equal. field.
  assert (Hp : 0 < (e + 1) * (b - a)) by (apply Rmult_lt_0_compat; lra).
  repeat split; lra.
Qed.

Lemma vni1 a b y : trans1 a b (back1 a b y) = y.
Proof.
  unfold back1, trans1. pose proof (exp_pos y) as He.
  replace (1 / (b - (b - 1 / exp y))) with (exp y) by (field; lra).
  apply ln_exp.
Qed.

Lemma vni2 a b y : trans2 a b (back2 a b y) = y.
Proof.
  unfold back2, trans2. replace (a + exp y - a) with (exp y) by ring. apply ln_exp.
Qed.

(** ---- the back-transform lands strictly inside the bounds ---- *)

Lemma range0 a b y : a < b -> a < back0 a b y < b.
Proof.
  intros Hab. unfold back0. pose proof (exp_pos y) as He.
  set (e := exp y) in *.
  replace (a / (1 + e) + b / (1 + 1 / e)) with (a + (b - a) * (e / (1 + e))) by (field; split; lra).
  assert (H0 : 0 < e / (1 + e)) by (apply Rdiv_lt_0_compat; lra).
  assert (H1 : e / (1 + e) < 1).
  { apply (Rmult_lt_reg_r (1 + e)); [lra|]. unfold Rdiv. rewrite Rmult_assoc, Rinv_l by lra. lra. }
  split; nra.
Qed.

Lemma range1 a b y : back1 a b y < b.
Proof.
  unfold back1. pose proof (exp_pos y) as He.
  assert (0 < 1 / exp y) by (apply Rdiv_lt_0_compat; lra). lra.
Qed.

Lemma range2 a b y : a < back2 a b y.
Proof. unfold back2. pose proof (exp_pos y). lra. Qed.

(** ---- exp(logJ) is the derivative of the back-transform ---- *)

Lemma der0 a b y : a < b -> is_derive (back0 a b) y (exp (logJ0 a b y)).
Proof.
  intros Hab. unfold back0, logJ0.
  pose proof (exp_pos y) as He.
  assert (Hs : 0 < 1 / exp y + 2 + exp y).
  { assert (0 < 1 / exp y) by (apply Rdiv_lt_0_compat; lra). lra. }
  auto_derive.
  - assert (0 < 1 * / exp y) by (rewrite Rmult_1_l; apply Rinv_0_lt_compat; exact He).
    repeat split; lra.
  - unfold Rminus at 1. rewrite exp_plus, exp_Ropp, !exp_ln by lra.
    field. assert (0 < exp y * exp y) by (apply Rmult_lt_0_compat; lra).
    repeat split; lra.
Qed.

Lemma der1 a b y : is_derive (back1 a b) y (exp (logJ1 a b y)).
Proof.
  unfold back1, logJ1. pose proof (exp_pos y) as He.
  auto_derive.
  - repeat split; lra.
  - rewrite exp_Ropp. field. lra.
Qed.

Lemma der2 a b y : is_derive (back2 a b) y (exp (logJ2 a b y)).
Proof.
  unfold back2, logJ2. auto_derive.
  - exact I.
  - ring.
Qed.

Lemma der3 a b y : is_derive (back3 a b) y (exp (logJ3 a b y)).
Proof.
  unfold back3, logJ3. auto_derive.
  - exact I.
  - rewrite exp_0. ring.
Qed.
