(** C05 on disk: an ArrayPool store (elfi/store.py ArrayPool over NpyStore/ArrayStore, modelled in
    Store/Npy.v, property C06) behaves as the in-memory store of Store/Pool.v.

    The two models meet here.  C06 proves that the on-disk store refines a LIST OF BATCHES
    ([spec ops], theorems [refinement] = C06_refinement, [flush_loads] = C06_flush_loads,
    [reopen_restores] = C06_reopen_restores, [crash_safe] = C06_crash_safe of Properties/C06.v; they
    are used below exactly as stated, nothing of C06 is re-proved).  Pool.v models a store as
    [option (list (nat * value))]: batch index |-> value, never overwritten.

    - abstraction: [store_of_batches l] = batch index i |-> (encoding of) the i-th batch;
    - the pool's operations on ONE store, as coded in OutputPool.add_batch / get_batch:
        add_batch i b : [if i in store: continue;  store[i] = b]
        get_batch i   : [if i in store: batch[node] = store[i]]
        ArrayPool.flush / close+open / pickle
      are expanded into the store operations of Npy.v ([pool_hops]); the test [i in store] is taken
      on the actual model state ([m_nb], ArrayStore.__contains__) in [pool_run];
    - [pool_run_history]: by C06_refinement that test is the test on the list of batches, so a run
      of pool operations IS a run of the Npy.v history [compile [] ps];
    - [compile_never_overwrites] / [compile_exact_appends]: the histories the pool produces contain
      no overwrite, delete or clear - every [store[i] = b] is an append (for batch indices without
      gaps; with a gap the on-disk store raises and keeps its content, which is where the on-disk
      store differs from the dict of Pool.v: [contig]);
    - [on_disk_store_is_pool_store]: after any such history (reads, flushes, reopen, pickle included)
      what the loader reads for batch k from the file is what Pool.v's store holds for k, and that is
      the batch carried by the first add_batch for index k.

    The value types differ (rows of element codes / symbolic values of the graph calculus): the
    statements are parametrised by an encoding [enc : batch -> value]; injectivity is only needed
    for [store_of_batches_inj] (the abstraction forgets nothing). *)
From Coq Require Import List NArith ZArith Arith Bool Lia.
From Elfi Require Import Graph.Net Store.Layout Store.Pool Proofs.C05_Pool Store.Npy Proofs.C06_Npy.
Import ListNotations.

(** ---- the pool's operations on one on-disk store ---- *)
Inductive pop :=
| PAdd (k : nat) (b : batch)     (* OutputPool.add_batch, this node's part *)
| PGet (k : nat)                 (* OutputPool.get_batch, this node's part *)
| PFlush                         (* ArrayPool.flush / save *)
| PReopen                        (* ArrayPool.close(); ArrayPool.open(name) *)
| PPickle.                       (* pickle + unpickle of the pool *)

Definition pop_index (p : pop) : nat := match p with PAdd k _ | PGet k => k | _ => 0 end.

(** the store operations one pool operation issues; [held] = the answer of [k in store] *)
Definition pool_hops (held : bool) (p : pop) : list hop :=
  match p with
  | PAdd k b => Query :: (if held then [] else [Set_ k true b])
  | PGet k => Query :: (if held then [Read k] else [])
  | PFlush => [Flush]
  | PReopen => [Reopen]
  | PPickle => [Pickle]
  end.

(** the pool over the model of the on-disk store: [k in store] is [k < n_batches] of the object *)
Fixpoint pool_run (bs : nat) (o : oracle) (i : nat) (m : mem) (f : file) (ps : list pop) : mem * file * nat :=
  match ps with
  | [] => (m, f, i)
  | p :: r => let '(m1, f1, i1) := run current bs o i m f (pool_hops (pop_index p <? m_nb m) p) in
              pool_run bs o i1 m1 f1 r
  end.

(** what the PoolLoader reads for batch [k] from the on-disk store: [store[k]] when [k in store] *)
Definition disk_get (bs : nat) (m : mem) (f : file) (k : nat) : option batch :=
  if k <? m_nb m then match snd (view bs m f) with Some l => nth_error l k | None => None end else None.

(** the same operations as a history of Npy.v, [k in store] decided on the list of batches *)
Fixpoint compile (L : list batch) (ps : list pop) : list hop :=
  match ps with
  | [] => []
  | p :: r => let h := pool_hops (pop_index p <? length L) p in h ++ compile (fold_left spec_step h L) r
  end.

(** effect of a pool operation on the list of batches *)
Definition disk_step (L : list batch) (p : pop) : list batch :=
  match p with PAdd k b => if k =? length L then L ++ [b] else L | _ => L end.

(** the batches that get stored: for n, n+1, ... the batch of the first add_batch for that index *)
Fixpoint added (n : nat) (ps : list pop) : list batch :=
  match ps with
  | [] => []
  | PAdd k b :: r => if k =? n then b :: added (S n) r else added n r
  | _ :: r => added n r
  end.

(** batch indices arrive without gaps (a BatchHandler hands out 0, 1, 2, ...; re-runs start again
    at 0): every add is at an index already held or at the next one *)
Fixpoint contig (n : nat) (ps : list pop) : Prop :=
  match ps with
  | [] => True
  | PAdd k _ :: r => k <= n /\ contig (if k =? n then S n else n) r
  | _ :: r => contig n r
  end.

(** every stored batch has the store's batch size *)
Definition wfpool (bs : nat) (ps : list pop) : Prop :=
  Forall (fun p => match p with PAdd _ b => length b = bs | _ => True end) ps.

(** the callbacks of one run over batches n, n+1, ... *)
Fixpoint callbacks (n : nat) (bl : list batch) : list pop :=
  match bl with [] => [] | b :: r => PAdd n b :: callbacks (S n) r end.

(** shape of a history: every [store[i] = b] meets [R (len store) i], nothing deletes *)
Definition op_ok (R : nat -> nat -> Prop) (L : list batch) (op : hop) : Prop :=
  match op with
  | Set_ i _ _ => R (length L) i
  | Del _ | Clear | Close | Open _ => False
  | _ => True
  end.

Fixpoint sets_ok (R : nat -> nat -> Prop) (L : list batch) (h : list hop) : Prop :=
  match h with [] => True | op :: r => op_ok R L op /\ sets_ok R (spec_step L op) r end.

Lemma sets_ok_app R a : forall L b,
  sets_ok R L (a ++ b) <-> sets_ok R L a /\ sets_ok R (fold_left spec_step a L) b.
Proof.
  induction a as [|op r IH]; intros L b; simpl; [tauto|]. rewrite IH. tauto.
Qed.

Lemma pool_hops_spec L p :
  fold_left spec_step (pool_hops (pop_index p <? length L) p) L = disk_step L p.
Proof.
  destruct p as [k b|k| | |]; simpl; try reflexivity.
  - destruct (Nat.ltb_spec k (length L)); simpl.
    + destruct (Nat.eqb_spec k (length L)); [lia | reflexivity].
    + destruct (Nat.eqb_spec k (length L)); [reflexivity|].
      destruct (Nat.ltb_spec k (length L)); [lia | reflexivity].
  - destruct (k <? length L); reflexivity.
Qed.

Lemma compile_spec ps : forall L, fold_left spec_step (compile L ps) L = fold_left disk_step ps L.
Proof.
  induction ps as [|p r IH]; intros L; simpl; [reflexivity|].
  rewrite fold_left_app, IH, pool_hops_spec. reflexivity.
Qed.

Lemma compile_app a : forall L b, compile L (a ++ b) = compile L a ++ compile (fold_left disk_step a L) b.
Proof.
  induction a as [|p r IH]; intros L b; simpl; [reflexivity|].
  rewrite IH, pool_hops_spec, app_assoc. reflexivity.
Qed.

Lemma disk_step_added ps : forall L, fold_left disk_step ps L = L ++ added (length L) ps.
Proof.
  induction ps as [|p r IH]; intros L; simpl; [now rewrite app_nil_r|].
  destruct p as [k b|k| | |]; simpl; try apply IH.
  destruct (k =? length L); [|apply IH].
  rewrite IH, app_length, <- app_assoc. simpl. now rewrite Nat.add_1_r.
Qed.

Lemma wf_compile bs ps : wfpool bs ps -> forall L, wf bs (compile L ps).
Proof.
  induction 1 as [|p r Hp _ IH]; intros L; simpl; [constructor|].
  apply Forall_app. split; [|apply IH].
  destruct p as [k b|k| | |]; simpl; try (repeat constructor).
  - destruct (k <? length L); repeat constructor. exact Hp.
  - destruct (k <? length L); repeat constructor.
Qed.

(** (2b) the pool never asks the on-disk store to overwrite, delete or clear ... *)
Theorem compile_never_overwrites ps : forall L, sets_ok le L (compile L ps).
Proof.
  induction ps as [|p r IH]; intros L; simpl; [exact I|].
  apply sets_ok_app. split; [|apply IH].
  destruct p as [k b|k| | |]; simpl; auto.
  - destruct (Nat.ltb_spec k (length L)); simpl; auto.
  - destruct (k <? length L); simpl; auto.
Qed.

Lemma contig_step L p r : contig (length L) (p :: r) -> contig (length (disk_step L p)) r.
Proof.
  destruct p as [k b|k| | |]; simpl; auto. intros [_ H].
  destruct (k =? length L); [|exact H]. now rewrite app_length, Nat.add_1_r.
Qed.

(** ... and, for batch indices without gaps, every write it issues is an append *)
Theorem compile_exact_appends ps : forall L, contig (length L) ps -> sets_ok eq L (compile L ps).
Proof.
  induction ps as [|p r IH]; intros L C; simpl; [exact I|].
  apply sets_ok_app. split.
  - destruct p as [k b|k| | |]; simpl; auto.
    + destruct C as [C _]. destruct (Nat.ltb_spec k (length L)); simpl; auto. repeat split. lia.
    + destruct (k <? length L); simpl; auto.
  - rewrite pool_hops_spec. apply IH. now apply contig_step.
Qed.

(** a history without overwrites only extends the list of batches *)
Lemma sets_ok_extends h : forall L, sets_ok le L h -> exists ext, fold_left spec_step h L = L ++ ext.
Proof.
  induction h as [|op r IH]; intros L H; simpl in *; [exists []; now rewrite app_nil_r|].
  destruct H as [Ho Hr]. destruct (IH _ Hr) as [ext E]. rewrite E.
  destruct op; simpl in *; try contradiction; try (now exists ext).
  destruct (Nat.eqb_spec i (length L)); [exists (b :: ext); now rewrite <- app_assoc|].
  destruct (Nat.ltb_spec i (length L)); [lia | now exists ext].
Qed.

(** the content after a prefix of a pool history is a prefix of the final content *)
Lemma compile_prefix ps a b : compile [] ps = a ++ b ->
  exists n, spec a = firstn n (fold_left disk_step ps []) /\ n = length (spec a).
Proof.
  intros E. pose proof (compile_never_overwrites ps []) as H. rewrite E in H.
  apply sets_ok_app in H. destruct H as [_ Hb]. destruct (sets_ok_extends _ _ Hb) as [ext X].
  exists (length (spec a)). split; [|reflexivity].
  unfold spec. rewrite <- (compile_spec ps []), E, fold_left_app, X.
  now rewrite firstn_app, Nat.sub_diag, firstn_all, app_nil_r.
Qed.

(** ---- the run of the pool over the store IS a history of Npy.v (by C06_refinement) ---- *)
Lemma view_nb bs m f n l : view bs m f = (n, l) -> m_nb m = n.
Proof. intros H. exact (f_equal fst H). Qed.

Lemma view_init bs m f L : view bs m f = (length L, Some L) -> 0 < length L -> m_init m = true.
Proof.
  intros H Hp. pose proof (view_nb _ _ _ _ _ H) as N. unfold view in H. rewrite N in H.
  injection H as H. destruct (Nat.eqb_spec (length L) 0) as [E|_]; [lia|]. simpl in H.
  unfold initialized in H. destruct (m_init m); [reflexivity | discriminate].
Qed.

Theorem pool_run_history bs o ps : 0 < bs -> wfpool bs ps ->
  forall pre m f i, wf bs pre -> start current bs o pre = (m, f, i) ->
    pool_run bs o i m f ps = start current bs o (pre ++ compile (spec pre) ps).
Proof.
  intros Hb. induction 1 as [|p r Hp Hr IH]; intros pre m f i W E; simpl.
  - now rewrite app_nil_r.
  - rewrite (view_nb _ _ _ _ _ (refinement bs o pre Hb W m f i E)).
    set (h := pool_hops (pop_index p <? length (spec pre)) p).
    assert (Wh : wf bs (pre ++ h)).
    { apply Forall_app. split; [exact W|].
      exact (proj1 (proj1 (Forall_app _ _ _) (wf_compile bs [p] (Forall_cons _ Hp (Forall_nil _)) (spec pre)))). }
    destruct (run current bs o i m f h) as [[m1 f1] i1] eqn:E1.
    assert (E2 : start current bs o (pre ++ h) = (m1, f1, i1)).
    { unfold start in *. rewrite run_app, E. exact E1. }
    rewrite (IH (pre ++ h) m1 f1 i1 Wh E2). unfold spec. rewrite fold_left_app, app_assoc. reflexivity.
Qed.

Corollary pool_run_start bs o ps : 0 < bs -> wfpool bs ps ->
  pool_run bs o 1 fresh_mem empty_file ps = start current bs o (compile [] ps).
Proof. intros Hb W. exact (pool_run_history bs o ps Hb W [] fresh_mem empty_file 1 (Forall_nil _) eq_refl). Qed.

(** the list of batches the store reports after a pool history *)
Lemma pool_run_view bs o ps : 0 < bs -> wfpool bs ps ->
  forall m f i, pool_run bs o 1 fresh_mem empty_file ps = (m, f, i) ->
  view bs m f = (length (fold_left disk_step ps []), Some (fold_left disk_step ps [])).
Proof.
  intros Hb W m f i E. rewrite (pool_run_start bs o ps Hb W) in E.
  pose proof (refinement bs o _ Hb (wf_compile bs ps W []) m f i E) as R.
  unfold spec in R. now rewrite (compile_spec ps []) in R.
Qed.

Lemma disk_get_view bs m f L k : view bs m f = (length L, Some L) -> disk_get bs m f k = nth_error L k.
Proof.
  intros V. unfold disk_get. rewrite (view_nb _ _ _ _ _ V), V. simpl.
  destruct (Nat.ltb_spec k (length L)); [reflexivity|]. symmetry. now apply nth_error_None.
Qed.

(** ---- the abstraction to a store of Pool.v ---- *)
Section Abstraction.
Variable enc : batch -> value.

Definition entries (k : nat) (l : list batch) : list (nat * value) := combine (seq k (length l)) (map enc l).
Definition store_of_batches (l : list batch) : store := Some (entries 0 l).

(** OutputPool.get_batch for one store (the expression inside [get_batch] of Pool.v) *)
Definition store_get (s : store) (i : nat) : option value :=
  match s with Some st => lookup_nat i st | None => None end.

(** the pool operation on the store of Pool.v *)
Definition pool_step (s : store) (p : pop) : store :=
  match p with PAdd k b => add_to_store s k (enc b) | _ => s end.

Lemma lookup_entries l : forall k i,
  lookup_nat i (entries k l) = if i <? k then None else option_map enc (nth_error l (i - k)).
Proof.
  induction l as [|b r IH]; intros k i; unfold entries in *; simpl.
  - destruct (i <? k); [reflexivity|]. now destruct (i - k).
  - destruct (Nat.eqb_spec i k) as [->|Hne].
    + now rewrite Nat.ltb_irrefl, Nat.sub_diag.
    + rewrite IH. destruct (Nat.ltb_spec i k), (Nat.ltb_spec i (S k)); try lia; try reflexivity.
      replace (i - k) with (S (i - S k)) by lia. reflexivity.
Qed.

(** (1) reading batch i of the abstraction = the i-th batch of the list *)
Theorem store_reads l i : store_get (store_of_batches l) i = option_map enc (nth_error l i).
Proof. unfold store_of_batches, store_get. now rewrite lookup_entries, Nat.sub_0_r. Qed.

Lemma entries_snoc l b : forall k, entries k (l ++ [b]) = entries k l ++ [(k + length l, enc b)].
Proof.
  induction l as [|a r IH]; intros k; unfold entries in *; simpl.
  - now rewrite Nat.add_0_r.
  - now rewrite IH, Nat.add_succ_r.
Qed.

(** (2) an append on disk is the pool's add_to_store at the next index ... *)
Theorem store_append l b :
  store_of_batches (l ++ [b]) = add_to_store (store_of_batches l) (length l) (enc b).
Proof.
  unfold store_of_batches, add_to_store. rewrite lookup_entries, Nat.sub_0_r. simpl.
  rewrite (proj2 (nth_error_None l (length l)) (le_n _)). simpl. now rewrite entries_snoc.
Qed.

(** ... and add_to_store at a held index does nothing *)
Theorem store_held l i v : i < length l -> add_to_store (store_of_batches l) i v = store_of_batches l.
Proof.
  intros H. unfold store_of_batches, add_to_store. rewrite lookup_entries, Nat.sub_0_r. simpl.
  destruct (nth_error l i) eqn:E; [reflexivity|]. apply nth_error_None in E. lia.
Qed.

(** the store object that does not exist yet reads as the empty one *)
Lemma pool_step_none ps : forall i,
  store_get (fold_left pool_step ps None) i = store_get (fold_left pool_step ps (Some [])) i.
Proof.
  induction ps as [|p r IH]; intros i; simpl; [reflexivity|].
  destruct p; simpl; try apply IH. reflexivity.
Qed.

(** simulation: one pool operation on the list of batches / on the store of Pool.v *)
Theorem pool_simulation ps : forall L, contig (length L) ps ->
  store_of_batches (fold_left disk_step ps L) = fold_left pool_step ps (store_of_batches L).
Proof.
  induction ps as [|p r IH]; intros L C; simpl; [reflexivity|].
  rewrite (IH _ (contig_step L p r C)). f_equal.
  destruct p as [k b|k| | |]; simpl; try reflexivity. destruct C as [C _].
  destruct (Nat.eqb_spec k (length L)) as [->|Hne]; [apply store_append|].
  symmetry. apply store_held. lia.
Qed.

(** (3) An on-disk ArrayPool store behaves as the in-memory store of Pool.v: after any history of
    pool operations on a new store - add_batch for batch indices without gaps, get_batch, flush,
    close+open, pickle+unpickle, in any order, under any buffering - the store reports the list
    [Bs]; [Bs] abstracts to the store Pool.v computes for the same operations; what the loader
    reads for batch k from the file is the batch of the first add_batch for index k, and its
    encoding is what Pool.v's store holds for k. *)
Theorem on_disk_store_is_pool_store bs o ps : 0 < bs -> wfpool bs ps -> contig 0 ps ->
  forall m f i, pool_run bs o 1 fresh_mem empty_file ps = (m, f, i) ->
  let Bs := fold_left disk_step ps [] in
  view bs m f = (length Bs, Some Bs) /\
  store_of_batches Bs = fold_left pool_step ps (Some []) /\
  forall k, disk_get bs m f k = nth_error (added 0 ps) k /\
            option_map enc (disk_get bs m f k) = store_get (fold_left pool_step ps None) k.
Proof.
  intros Hb W C m f i E Bs. pose proof (pool_run_view bs o ps Hb W m f i E) as V. fold Bs in V.
  pose proof (pool_simulation ps [] C) as S. fold Bs in S.
  split; [exact V|]. split; [exact S|]. intros k. rewrite (disk_get_view _ _ _ _ k V). split.
  - unfold Bs. now rewrite disk_step_added.
  - rewrite pool_step_none. change (Some []) with (store_of_batches []). rewrite <- S. symmetry. apply store_reads.
Qed.

(** the abstraction forgets nothing when the encoding is injective *)
Lemma store_of_batches_inj : (forall a b, enc a = enc b -> a = b) ->
  forall l1 l2, store_of_batches l1 = store_of_batches l2 -> l1 = l2.
Proof.
  intros Hinj l1 l2 H.
  assert (N : forall i, nth_error l1 i = nth_error l2 i).
  { intros i. pose proof (store_reads l1 i) as A. rewrite H, store_reads in A.
    destruct (nth_error l1 i), (nth_error l2 i); simpl in A; try discriminate; [|reflexivity].
    injection A as A. f_equal. symmetry. now apply Hinj. }
  clear H. revert l2 N. induction l1 as [|a r IH]; intros [|b s] N.
  - reflexivity.
  - specialize (N 0). discriminate.
  - specialize (N 0). discriminate.
  - pose proof (N 0) as N0. simpl in N0. injection N0 as ->. f_equal. apply IH. intros i. exact (N (S i)).
Qed.

End Abstraction.

(** ---- flush / reopen / kill, from the C06 theorems as they are ---- *)

(** after ArrayPool.flush, close+open or pickle the file is a .npy file that numpy loads to exactly
    the batches added so far (C06_flush_loads) *)
Theorem on_disk_flush_loads bs o ps p : 0 < bs -> wfpool bs ps -> p = PFlush \/ p = PReopen \/ p = PPickle ->
  forall m f i, pool_run bs o 1 fresh_mem empty_file (ps ++ [p]) = (m, f, i) ->
  0 < length (added 0 ps) ->
  f_buf f = [] /\ loads (f_disk f) = Some (flat (added 0 ps)).
Proof.
  intros Hb W Hp m f i E Hn.
  assert (Wp : wfpool bs (ps ++ [p])).
  { apply Forall_app. split; [exact W|]. constructor; [|constructor]. destruct Hp as [->|[->| ->]]; exact I. }
  assert (Dp : fold_left disk_step (ps ++ [p]) [] = added 0 ps).
  { rewrite fold_left_app. destruct Hp as [->|[->| ->]]; simpl; now rewrite disk_step_added. }
  pose proof (pool_run_view bs o _ Hb Wp m f i E) as V. rewrite Dp in V.
  pose proof (view_init _ _ _ _ V Hn) as Hi.
  rewrite (pool_run_start bs o _ Hb Wp) in E. rewrite compile_app in E.
  assert (exists op, compile (fold_left disk_step ps []) [p] = [op] /\ is_flush op = true) as (op & Eo & Fo).
  { destruct Hp as [->|[->| ->]]; simpl; eexists; split; reflexivity. }
  rewrite Eo in E.
  assert (Wh : wf bs (compile [] ps ++ [op])).
  { rewrite <- Eo, <- compile_app. now apply wf_compile. }
  destruct (flush_loads bs o _ op Hb Wh Fo m f i E Hi) as [B LD]. split; [exact B|].
  rewrite LD. unfold spec. rewrite fold_left_app, compile_spec, disk_step_added. simpl.
  now rewrite (spec_flush _ _ Fo).
Qed.

(** close+open (or pickle+unpickle) of a store that holds a batch succeeds and the loader reads
    the same batches from the new object (C06_reopen_restores) *)
Theorem on_disk_reopen_restores bs o ps op : 0 < bs -> wfpool bs ps -> op = Reopen \/ op = Pickle ->
  forall m f i, pool_run bs o 1 fresh_mem empty_file ps = (m, f, i) -> 0 < length (added 0 ps) ->
  let h := hstep current bs o i m f op in
  r_err h = false /\ forall k, disk_get bs (r_mem h) (r_file h) k = disk_get bs m f k.
Proof.
  intros Hb W Hop m f i E Hn.
  pose proof (pool_run_view bs o ps Hb W m f i E) as V. rewrite disk_step_added in V. simpl in V.
  pose proof (view_init _ _ _ _ V Hn) as Hi.
  rewrite (pool_run_start bs o _ Hb W) in E.
  destruct (reopen_restores bs o _ op Hb (wf_compile bs ps W []) Hop m f i E Hi) as (Er & _ & Nb & Vw).
  cbv zeta. split; [exact Er|]. intros k. unfold disk_get. now rewrite Nb, Vw.
Qed.

(** get_batch for a held batch does not raise and leaves what the store reports untouched
    (C06_queries_preserve) *)
Theorem on_disk_get_no_error bs o ps k : 0 < bs -> wfpool bs ps ->
  forall m f i, pool_run bs o 1 fresh_mem empty_file ps = (m, f, i) -> k < m_nb m ->
  let h := hstep current bs o i m f (Read k) in
  r_err h = false /\ view bs (r_mem h) (r_file h) = view bs m f.
Proof.
  intros Hb W m f i E Hk.
  pose proof (pool_run_view bs o ps Hb W m f i E) as V.
  assert (Hi : m_init m = true).
  { apply (view_init _ _ _ _ V). rewrite <- (view_nb _ _ _ _ _ V). lia. }
  rewrite (pool_run_start bs o _ Hb W) in E.
  destruct (queries_preserve bs o _ (Read k) Hb (wf_compile bs ps W []) eq_refl m f i E) as (Vw & _ & Er & _).
  cbv zeta. split; [exact (Er Hi) | exact Vw].
Qed.

(** a kill at any point after a completed flush leaves a file that loads to a PREFIX of the added
    batches which contains everything that was held at the flush (C06_crash_safe + no overwrite) *)
Theorem on_disk_crash_prefix bs o ps pre fl mid op tail j : 0 < bs -> wfpool bs ps ->
  compile [] ps = pre ++ fl :: mid ++ op :: tail -> is_flush fl = true ->
  0 < length (spec (pre ++ [fl])) ->
  exists n, length (spec (pre ++ [fl])) <= n /\
    loads (crash_disk current bs o (pre ++ fl :: mid) op j) = Some (flat (firstn n (added 0 ps))).
Proof.
  intros Hb W E Fl Hp.
  assert (Wh : wf bs (pre ++ fl :: mid ++ [op])).
  { pose proof (wf_compile bs ps W []) as X. rewrite E in X.
    replace (pre ++ fl :: mid ++ op :: tail) with ((pre ++ fl :: mid ++ [op]) ++ tail) in X
      by (rewrite <- !app_assoc; simpl; rewrite <- app_assoc; reflexivity).
    exact (proj1 (proj1 (Forall_app _ _ _) X)). }
  assert (Hi : forall m f i, start current bs o (pre ++ [fl]) = (m, f, i) -> m_init m = true).
  { intros m f i Es. apply (view_init bs m f (spec (pre ++ [fl]))); [|exact Hp].
    apply (refinement bs o _ Hb) with i; [|exact Es].
    apply Forall_app in Wh. destruct Wh as [W1 W2]. apply Forall_app. split; [exact W1|].
    constructor; [now inversion W2 | constructor]. }
  destruct (crash_safe bs o pre fl mid op j Hb Wh Fl Hi) as (t & Ht & LD).
  set (a := pre ++ fl :: firstn t (mid ++ [op])) in *.
  assert (exists b, compile [] ps = a ++ b) as [b Eb].
  { exists (skipn t (mid ++ [op]) ++ tail). unfold a. rewrite E.
    rewrite <- app_assoc. simpl. f_equal. f_equal.
    rewrite app_assoc, firstn_skipn. rewrite <- app_assoc. reflexivity. }
  destruct (compile_prefix ps a b Eb) as (n & En & Nn).
  exists n. split.
  - rewrite Nn.
    assert (Ea : a = (pre ++ [fl]) ++ firstn t (mid ++ [op])) by (unfold a; now rewrite <- app_assoc).
    pose proof (compile_never_overwrites ps []) as H. rewrite Eb, Ea in H.
    apply sets_ok_app in H. destruct H as [H _]. apply sets_ok_app in H. destruct H as [_ H].
    destruct (sets_ok_extends _ _ H) as [ext X].
    rewrite Ea. unfold spec. rewrite (fold_left_app spec_step (pre ++ [fl]) (firstn t (mid ++ [op])) []), X, app_length. lia.
  - rewrite LD, En. now rewrite disk_step_added.
Qed.

(** ---- the canonical run: callbacks for batches 0, 1, 2, ... ---- *)
Lemma callbacks_contig bl : forall n, contig n (callbacks n bl).
Proof. induction bl as [|b r IH]; intros n; simpl; [exact I|]. rewrite Nat.eqb_refl. split; [apply le_n | apply IH]. Qed.

Lemma callbacks_added bl : forall n, added n (callbacks n bl) = bl.
Proof. induction bl as [|b r IH]; intros n; simpl; [reflexivity|]. now rewrite Nat.eqb_refl, IH. Qed.

(** the callbacks of a first run are exactly the appends, one per batch ... *)
Lemma callbacks_compile bl : forall L,
  compile L (callbacks (length L) bl)
  = concat (map (fun kb : nat * batch => [Query; Set_ (fst kb) true (snd kb)]) (combine (seq (length L) (length bl)) bl)).
Proof.
  induction bl as [|b r IH]; intros L; simpl; [reflexivity|].
  rewrite Nat.ltb_irrefl. simpl. rewrite Nat.eqb_refl. f_equal. f_equal.
  specialize (IH (L ++ [b])). rewrite app_length, Nat.add_1_r in IH. exact IH.
Qed.

(** ... and the callbacks of a second run over batches the store holds touch nothing *)
Lemma callbacks_held bl : forall L n, n + length bl <= length L ->
  compile L (callbacks n bl) = map (fun _ => Query) bl.
Proof.
  induction bl as [|b r IH]; intros L n H; simpl in *; [reflexivity|].
  destruct (Nat.ltb_spec n (length L)); [|lia]. simpl. f_equal. apply IH. lia.
Qed.
