(** C10 — proofs about the hand-written model Num/Gp.v: bounds test, -inf rule, shape rule,
    evidence store, soundness of the decidable spec. *)
From Coq Require Import List QArith Qabs Bool Arith ZArith Lia.
From Elfi Require Import Num.Gp.
Import ListNotations.

(** * [_within_bounds] *)

Lemma Qlt_bool_iff a b : Qlt_bool a b = true <-> a < b.
Proof.
  unfold Qlt_bool. rewrite negb_true_iff. split; intro H.
  - apply Qnot_le_lt. intro L. apply Qle_bool_iff in L. congruence.
  - destruct (Qle_bool b a) eqn:E; [|reflexivity]. apply Qle_bool_iff in E.
    exfalso. exact (Qlt_not_le _ _ H E).
Qed.

Lemma within_fold l acc :
  fold_left within_step l acc = acc && negb (existsb coord_outside l).
Proof.
  revert acc. induction l as [|[xi [lo hi]] l IH]; intro acc; simpl.
  - now rewrite andb_true_r.
  - rewrite IH. unfold Qlt_bool.
    destruct acc, (Qle_bool lo xi), (Qle_bool xi hi); simpl; try reflexivity.
Qed.

(** the fold over the coordinates says "no coordinate is outside its interval" *)
Lemma within_bounds_outside x b : within_bounds x b = negb (outside x b).
Proof. unfold within_bounds, outside. now rewrite within_fold. Qed.

Lemma outside_spec x b :
  outside x b = true <->
  exists xi lo hi, In (xi, (lo, hi)) (combine x b) /\ (xi < lo \/ hi < xi).
Proof.
  unfold outside. rewrite existsb_exists. split.
  - intros [[xi [lo hi]] [Hin H]]. exists xi, lo, hi. split; [exact Hin|].
    simpl in H. apply orb_true_iff in H. destruct H as [H|H]; apply Qlt_bool_iff in H; auto.
  - intros (xi & lo & hi & Hin & H). exists (xi, (lo, hi)). split; [exact Hin|].
    simpl. apply orb_true_iff. destruct H as [H|H]; apply Qlt_bool_iff in H; auto.
Qed.

Lemma within_bounds_spec x b :
  within_bounds x b = true <->
  forall xi lo hi, In (xi, (lo, hi)) (combine x b) -> lo <= xi /\ xi <= hi.
Proof.
  rewrite within_bounds_outside, negb_true_iff. split.
  - intros Hout xi lo hi Hin.
    split; apply Qnot_lt_le; intro Hlt;
      (assert (outside x b = true) by (apply outside_spec; exists xi, lo, hi; auto); congruence).
  - intros Hall. destruct (outside x b) eqn:E; [|reflexivity].
    apply outside_spec in E. destruct E as (xi & lo & hi & Hin & [H|H]);
      destruct (Hall _ _ _ Hin) as [H1 H2]; exfalso; eauto using Qlt_not_le.
Qed.

(** * [logpdf]: -inf exactly outside the bounds (or where the prior is -inf), else logcdf + logprior *)

Lemma logpdf_row_is_spec b r : logpdf_row b r = spec_logpdf b r.
Proof.
  unfold logpdf_row, spec_logpdf, ll_row, ll_value. rewrite within_bounds_outside.
  destruct (outside (r_x r) b); simpl; [reflexivity|].
  destruct (r_lprior r); reflexivity.
Qed.

Lemma logpdf_row_neginf_iff b r :
  logpdf_row b r = NegInf <->
  (exists xi lo hi, In (xi, (lo, hi)) (combine (r_x r) b) /\ (xi < lo \/ hi < xi)) \/ r_lprior r = NegInf.
Proof.
  rewrite <- outside_spec. unfold logpdf_row, ll_row. rewrite within_bounds_outside.
  destruct (outside (r_x r) b); simpl.
  - split; auto.
  - destruct (r_lprior r); simpl; split; try tauto; try discriminate.
    intros [H|H]; discriminate.
Qed.

Lemma logpdf_row_inside b r p :
  (forall xi lo hi, In (xi, (lo, hi)) (combine (r_x r) b) -> lo <= xi /\ xi <= hi) ->
  r_lprior r = Fin p ->
  logpdf_row b r = Fin (o_logcdf (r_orc r) + p).
Proof.
  intros Hin Hp. apply within_bounds_spec in Hin.
  unfold logpdf_row, ll_row, ll_value. now rewrite Hin, Hp.
Qed.

Lemma gradlik_row_outside b t r :
  outside (r_x r) b = true -> gradlik_row b t r = map (fun _ => 0) (r_x r).
Proof. intro H. unfold gradlik_row. now rewrite within_bounds_outside, H. Qed.

(** * shape rule *)
Lemma shape_out_scalar_iff {A} ndim dim (d : A) rows :
  (exists a, shape_out ndim dim d rows = Scalar a) <-> (ndim = 0 \/ (ndim = 1 /\ 1 < dim))%nat.
Proof.
  unfold shape_out, takes_first.
  destruct (ndim =? 0)%nat eqn:E0; simpl.
  - apply Nat.eqb_eq in E0. split; eauto.
  - apply Nat.eqb_neq in E0.
    destruct (ndim =? 1)%nat eqn:E1; simpl.
    + apply Nat.eqb_eq in E1. destruct (1 <? dim)%nat eqn:E2.
      * apply Nat.ltb_lt in E2. split; eauto.
      * apply Nat.ltb_ge in E2. split; [intros [a H]; discriminate | lia].
    + apply Nat.eqb_neq in E1. split; [intros [a H]; discriminate | lia].
Qed.

(** * evidence store *)
Section Evidence.
  Context {A : Type}.
  Implicit Types (st : @evidence A) (bs : list (list A)).

  Lemma rows_update st b : rows_of (update st b) = rows_of st ++ b.
  Proof. destruct st; reflexivity. Qed.

  Lemma rows_final st bs : rows_of (final st bs) = rows_of st ++ concat bs.
  Proof.
    unfold final. revert st. induction bs as [|b bs IH]; intro st; simpl.
    - now rewrite app_nil_r.
    - now rewrite IH, rows_update, app_assoc.
  Qed.

  Lemma final_app st bs1 bs2 : final st (bs1 ++ bs2) = final (final st bs1) bs2.
  Proof. unfold final. apply fold_left_app. Qed.

  (** whatever is added later, the evidence held after any earlier history stays a prefix *)
  Lemma updates_keep_prefix st bs1 bs2 :
    rows_of (final st (bs1 ++ bs2)) = rows_of (final st bs1) ++ concat bs2.
  Proof. now rewrite final_app, rows_final. Qed.

  (** ... so every earlier row keeps its index and its content *)
  Lemma updates_keep_rows st bs1 bs2 i row :
    nth_error (rows_of (final st bs1)) i = Some row ->
    nth_error (rows_of (final st (bs1 ++ bs2))) i = Some row.
  Proof.
    intro H. rewrite updates_keep_prefix, nth_error_app1; [exact H|].
    apply nth_error_Some. congruence.
  Qed.

  Lemma n_evidence_counts st bs :
    n_evidence (final st bs) = (n_evidence st + length (concat bs))%nat.
  Proof. unfold n_evidence. now rewrite rows_final, app_length. Qed.

  (** the snapshot list is the list of prefixes of the history *)
  Lemma run_updates_final st bs k s :
    nth_error (run_updates st bs) k = Some s -> s = final st (firstn (S k) bs).
  Proof.
    revert st k. induction bs as [|b bs IH]; intros st k H; simpl in *.
    - destruct k; discriminate.
    - destruct k as [|k]; simpl in *.
      + now inversion H.
      + apply IH in H. exact H.
  Qed.

  Lemma run_updates_rows st bs :
    map rows_of (run_updates st bs) = map rows_of (run_updates (Some (rows_of st)) bs).
  Proof.
    revert st. induction bs as [|b bs IH]; intro st; simpl; [reflexivity|].
    rewrite (IH (update st b)), (IH (Some (rows_of st ++ b))), rows_update. simpl. reflexivity.
  Qed.
End Evidence.

(** * soundness of the decidable checks on observed evidence *)

Lemma Qeqb_strict_eq a b : Qeqb_strict a b = true -> a = b.
Proof.
  destruct a as [an ad], b as [bn bd]. unfold Qeqb_strict. simpl.
  intro H. apply andb_true_iff in H. destruct H as [H1 H2].
  apply Z.eqb_eq in H1. apply Pos.eqb_eq in H2. now subst.
Qed.

Lemma all2_eq {A} (f : A -> A -> bool) :
  (forall a b, f a b = true -> a = b) -> forall l m, all2 f l m = true -> l = m.
Proof.
  intros Hf. induction l as [|a l IH]; destruct m as [|b m]; simpl; try discriminate; auto.
  intro H. apply andb_true_iff in H. destruct H as [H1 H2]. f_equal; auto.
Qed.

Lemma erow_eqb_eq a b : erow_eqb a b = true -> a = b.
Proof.
  destruct a as [ax ay], b as [bx by_]. unfold erow_eqb. simpl. intro H.
  apply andb_true_iff in H. destruct H as [H1 H2].
  apply (all2_eq _ Qeqb_strict_eq) in H1. apply Qeqb_strict_eq in H2. now subst.
Qed.

Lemma prefix_then_eq l m rest : prefix_then l m rest = true -> m = l ++ rest.
Proof.
  revert m. induction l as [|a l IH]; intros m H; simpl in *.
  - exact (all2_eq _ erow_eqb_eq _ _ H).
  - destruct m as [|b m]; [discriminate|]. apply andb_true_iff in H. destruct H as [H1 H2].
    apply erow_eqb_eq in H1. subst. f_equal. auto.
Qed.

(** the observed snapshots ARE the model's: each = previous ++ the batch just added, exactly and
    in order, and n_evidence is its length *)
Lemma ev_ok_from_sound prev bs snaps :
  ev_ok_from prev bs snaps = true ->
  map fst snaps = map rows_of (run_updates (Some prev) bs)
  /\ Forall (fun s => length (fst s) = snd s) snaps.
Proof.
  revert prev snaps. induction bs as [|b bs IH]; intros prev snaps H; destruct snaps as [|[s n] snaps];
    simpl in *; try discriminate; [split; [reflexivity|constructor]|].
  apply andb_true_iff in H. destruct H as [H H3]. apply andb_true_iff in H. destruct H as [H1 H2].
  apply prefix_then_eq in H1. apply Nat.eqb_eq in H2. subst s.
  destruct (IH _ _ H3) as [E F]. split.
  - simpl. now rewrite E.
  - constructor; [exact H2 | exact F].
Qed.

Lemma ev_ok_sound c :
  ev_ok c = true ->
  map fst (ec_snaps c) = map rows_of (run_updates None (ec_batches c))
  /\ Forall (fun s => length (fst s) = snd s) (ec_snaps c).
Proof.
  unfold ev_ok. intro H. apply ev_ok_from_sound in H. destruct H as [E F]. split; [|exact F].
  rewrite E. symmetry. apply (run_updates_rows (A := erow) None).
Qed.

(** the model's own trace passes the check *)
Lemma Qeqb_strict_refl a : Qeqb_strict a a = true.
Proof. unfold Qeqb_strict. now rewrite Z.eqb_refl, Pos.eqb_refl. Qed.

Lemma all2_refl {A} (f : A -> A -> bool) : (forall a, f a a = true) -> forall l, all2 f l l = true.
Proof. intros Hf. induction l; simpl; [reflexivity|]. now rewrite Hf, IHl. Qed.

Lemma erow_eqb_refl a : erow_eqb a a = true.
Proof. unfold erow_eqb. now rewrite (all2_refl _ Qeqb_strict_refl), Qeqb_strict_refl. Qed.

Lemma prefix_then_app l rest : prefix_then l (l ++ rest) rest = true.
Proof.
  induction l; simpl.
  - apply all2_refl, erow_eqb_refl.
  - now rewrite erow_eqb_refl, IHl.
Qed.

Lemma ev_model_ok_from prev bs :
  ev_ok_from prev bs (map (fun m => (rows_of m, n_evidence m)) (run_updates (Some prev) bs)) = true.
Proof.
  revert prev. induction bs as [|b bs IH]; intro prev; simpl; [reflexivity|].
  rewrite prefix_then_app. unfold n_evidence at 1. simpl. rewrite Nat.eqb_refl. simpl. apply IH.
Qed.

Lemma ev_model_ok bs :
  ev_ok {| ec_batches := bs;
           ec_snaps := map (fun m => (rows_of m, n_evidence m)) (run_updates (@None (list erow)) bs) |} = true.
Proof.
  unfold ev_ok. simpl. destruct bs as [|b bs]; simpl; [reflexivity|].
  change (@nil erow) with (@nil erow ++ []) at 1.
  assert (P : prefix_then [] b b = true) by (simpl; apply all2_refl, erow_eqb_refl).
  rewrite P. unfold n_evidence at 1. simpl. rewrite Nat.eqb_refl. simpl. apply ev_model_ok_from.
Qed.
