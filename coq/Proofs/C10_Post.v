(** C10 — proofs about the hand-written model Num/Gp.v: bounds test, -inf rule, shape rule,
    evidence store, soundness of the decidable spec. *)
From Coq Require Import List QArith Qabs Bool Arith ZArith Lia.
From Elfi Require Import Num.Gp.
Import ListNotations.

(** * [_within_bounds] *)

Lemma Qlt_bool_iff a b : Qlt_bool a b = true <-> a < b.
Proof.
  unfold Qlt_bool. rewrite negb_true_iff. split; intro H.
  - apply Qnot_le_lt. intro L. apply Qle_bool_iff in L. congruence.
  - destruct (Qle_bool b a) eqn:E; [|reflexivity]. apply Qle_bool_iff in E.
    exfalso. exact (Qlt_not_le _ _ H E).
Qed.

Lemma within_fold l acc :
  fold_left within_step l acc = acc && negb (existsb coord_outside l).
Proof.
  revert acc. induction l as [|[xi [lo hi]] l IH]; intro acc; simpl.
  - now rewrite andb_true_r.
  - rewrite IH. unfold Qlt_bool.
    destruct acc, (Qle_bool lo xi), (Qle_bool xi hi); simpl; try reflexivity.
Qed.

(** the fold over the coordinates says "no coordinate is outside its interval" *)
Lemma within_bounds_outside x b : within_bounds x b = negb (outside x b).
Proof. unfold within_bounds, outside. now rewrite within_fold. Qed.

Lemma outside_spec x b :
  outside x b = true <->
  exists xi lo hi, In (xi, (lo, hi)) (combine x b) /\ (xi < lo \/ hi < xi).
Proof.
  unfold outside. rewrite existsb_exists. split.
  - intros [[xi [lo hi]] [Hin H]]. exists xi, lo, hi. split; [exact Hin|].
    simpl in H. apply orb_true_iff in H. destruct H as [H|H]; apply Qlt_bool_iff in H; auto.
  - intros (xi & lo & hi & Hin & H). exists (xi, (lo, hi)). split; [exact Hin|].
    simpl. apply orb_true_iff. destruct H as [H|H]; apply Qlt_bool_iff in H; auto.
Qed.

Lemma within_bounds_spec x b :
  within_bounds x b = true <->
  forall xi lo hi, In (xi, (lo, hi)) (combine x b) -> lo <= xi /\ xi <= hi.
Proof.
  rewrite within_bounds_outside, negb_true_iff. split.
  - intros Hout xi lo hi Hin.
    split; apply Qnot_lt_le; intro Hlt.
    + assert (E : outside x b = true) by (apply outside_spec; exists xi, lo, hi; auto). congruence.
    + assert (E : outside x b = true) by (apply outside_spec; exists xi, lo, hi; auto). congruence.
  - intros Hall. destruct (outside x b) eqn:E; [|reflexivity].
    apply outside_spec in E. destruct E as (xi & lo & hi & Hin & H).
    destruct (Hall _ _ _ Hin) as [H1 H2]. exfalso.
    destruct H as [H|H]; [exact (Qlt_not_le _ _ H H1) | exact (Qlt_not_le _ _ H H2)].
Qed.

(** * [logpdf]: -inf exactly outside the bounds (or where the prior is -inf), else logcdf + logprior *)

Lemma logpdf_row_is_spec b r : logpdf_row b r = spec_logpdf b r.
Proof.
  unfold logpdf_row, spec_logpdf, ll_row, ll_value. rewrite within_bounds_outside.
  destruct (outside (r_x r) b); simpl; [reflexivity|].
  destruct (r_lprior r); reflexivity.
Qed.

Lemma logpdf_row_neginf_iff b r :
  logpdf_row b r = NegInf <->
  (exists xi lo hi, In (xi, (lo, hi)) (combine (r_x r) b) /\ (xi < lo \/ hi < xi)) \/ r_lprior r = NegInf.
Proof.
  rewrite <- outside_spec. unfold logpdf_row, ll_row. rewrite within_bounds_outside.
  destruct (outside (r_x r) b); simpl.
  - split; auto.
  - destruct (r_lprior r); simpl; split; try tauto; try discriminate.
    intros [H|H]; discriminate.
Qed.

Lemma logpdf_row_inside b r p :
  (forall xi lo hi, In (xi, (lo, hi)) (combine (r_x r) b) -> lo <= xi /\ xi <= hi) ->
  r_lprior r = Fin p ->
  logpdf_row b r = Fin (o_logcdf (r_orc r) + p).
Proof.
  intros Hin Hp. apply within_bounds_spec in Hin.
  unfold logpdf_row, ll_row, ll_value. now rewrite Hin, Hp.
Qed.

Lemma gradlik_row_outside b t r :
  outside (r_x r) b = true -> gradlik_row b t r = map (fun _ => 0) (r_x r).
Proof. intro H. unfold gradlik_row. now rewrite within_bounds_outside, H. Qed.

(** * shape rule *)
Lemma shape_out_scalar_iff {A} ndim dim (d : A) rows :
  (exists a, shape_out ndim dim d rows = Scalar a) <-> (ndim = 0 \/ (ndim = 1 /\ 1 < dim))%nat.
Proof.
  unfold shape_out, takes_first.
  destruct (ndim =? 0)%nat eqn:E0; simpl.
  - apply Nat.eqb_eq in E0. split; eauto.
  - apply Nat.eqb_neq in E0.
    destruct (ndim =? 1)%nat eqn:E1; simpl.
    + apply Nat.eqb_eq in E1. destruct (1 <? dim)%nat eqn:E2.
      * apply Nat.ltb_lt in E2. split; eauto.
      * apply Nat.ltb_ge in E2. split; [intros [a H]; discriminate | lia].
    + apply Nat.eqb_neq in E1. split; [intros [a H]; discriminate | lia].
Qed.

(** * evidence store *)
Section Evidence.
  Context {A : Type}.
  Implicit Types (st : @evidence A) (bs : list (list A)).

  Lemma rows_update st b : rows_of (update st b) = rows_of st ++ b.
  Proof. destruct st; reflexivity. Qed.

  Lemma rows_final st bs : rows_of (final st bs) = rows_of st ++ concat bs.
  Proof.
    unfold final. revert st. induction bs as [|b bs IH]; intro st; simpl.
    - now rewrite app_nil_r.
    - now rewrite IH, rows_update, app_assoc.
  Qed.

  Lemma final_app st bs1 bs2 : final st (bs1 ++ bs2) = final (final st bs1) bs2.
  Proof. unfold final. apply fold_left_app. Qed.

  (** whatever is added later, the evidence held after any earlier history stays a prefix *)
  Lemma updates_keep_prefix st bs1 bs2 :
    rows_of (final st (bs1 ++ bs2)) = rows_of (final st bs1) ++ concat bs2.
  Proof. now rewrite final_app, rows_final. Qed.

  (** ... so every earlier row keeps its index and its content *)
  Lemma updates_keep_rows st bs1 bs2 i row :
    nth_error (rows_of (final st bs1)) i = Some row ->
    nth_error (rows_of (final st (bs1 ++ bs2))) i = Some row.
  Proof.
    intro H. rewrite updates_keep_prefix, nth_error_app1; [exact H|].
    apply nth_error_Some. congruence.
  Qed.

  Lemma n_evidence_counts st bs :
    n_evidence (final st bs) = (n_evidence st + length (concat bs))%nat.
  Proof. unfold n_evidence. now rewrite rows_final, app_length. Qed.

  (** the snapshot list is the list of prefixes of the history *)
  Lemma run_updates_final st bs k s :
    nth_error (run_updates st bs) k = Some s -> s = final st (firstn (S k) bs).
  Proof.
    revert st k. induction bs as [|b bs IH]; intros st k H; simpl in *.
    - destruct k; discriminate.
    - destruct k as [|k]; simpl in *.
      + now inversion H.
      + apply IH in H. exact H.
  Qed.

  Lemma run_updates_rows st bs :
    map rows_of (run_updates st bs) = map rows_of (run_updates (Some (rows_of st)) bs).
  Proof.
    revert st. induction bs as [|b bs IH]; intro st; simpl; [reflexivity|].
    rewrite (IH (update st b)), (IH (Some (rows_of st ++ b))), rows_update. simpl. reflexivity.
  Qed.
End Evidence.

(** * soundness of the decidable checks on observed evidence *)

Lemma Qeqb_strict_eq a b : Qeqb_strict a b = true -> a = b.
Proof.
  destruct a as [an ad], b as [bn bd]. unfold Qeqb_strict. simpl.
  intro H. apply andb_true_iff in H. destruct H as [H1 H2].
  apply Z.eqb_eq in H1. apply Pos.eqb_eq in H2. now subst.
Qed.

Lemma all2_eq {A} (f : A -> A -> bool) :
  (forall a b, f a b = true -> a = b) -> forall l m, all2 f l m = true -> l = m.
Proof.
  intros Hf. induction l as [|a l IH]; destruct m as [|b m]; simpl; try discriminate; auto.
  intro H. apply andb_true_iff in H. destruct H as [H1 H2]. f_equal; auto.
Qed.

Lemma erow_eqb_eq a b : erow_eqb a b = true -> a = b.
Proof.
  destruct a as [ax ay], b as [bx by_]. unfold erow_eqb. simpl. intro H.
  apply andb_true_iff in H. destruct H as [H1 H2].
  apply (all2_eq _ Qeqb_strict_eq) in H1. apply Qeqb_strict_eq in H2. now subst.
Qed.

Lemma prefix_then_eq l m rest : prefix_then l m rest = true -> m = l ++ rest.
Proof.
  revert m. induction l as [|a l IH]; intros m H; simpl in *.
  - exact (all2_eq _ erow_eqb_eq _ _ H).
  - destruct m as [|b m]; [discriminate|]. apply andb_true_iff in H. destruct H as [H1 H2].
    apply erow_eqb_eq in H1. subst. f_equal. auto.
Qed.

(** the observed snapshots ARE the model's: each = previous ++ the batch just added, exactly and
    in order, and n_evidence is its length *)
Lemma ev_ok_from_sound prev bs snaps :
  ev_ok_from prev bs snaps = true ->
  map fst snaps = map rows_of (run_updates (Some prev) bs)
  /\ Forall (fun s => length (fst s) = snd s) snaps.
Proof.
  revert prev snaps. induction bs as [|b bs IH]; intros prev snaps H; destruct snaps as [|[s n] snaps];
    simpl in *; try discriminate; [split; [reflexivity|constructor]|].
  apply andb_true_iff in H. destruct H as [H H3]. apply andb_true_iff in H. destruct H as [H1 H2].
  apply prefix_then_eq in H1. apply Nat.eqb_eq in H2. subst s.
  destruct (IH _ _ H3) as [E F]. split.
  - simpl. now rewrite E.
  - constructor; [exact H2 | exact F].
Qed.

Lemma ev_ok_sound c :
  ev_ok c = true ->
  map fst (ec_snaps c) = map rows_of (run_updates None (ec_batches c))
  /\ Forall (fun s => length (fst s) = snd s) (ec_snaps c).
Proof.
  unfold ev_ok. intro H. apply ev_ok_from_sound in H. destruct H as [E F]. split; [|exact F].
  rewrite E. symmetry. apply (run_updates_rows (A := erow) None).
Qed.

(** the model's own trace passes the check *)
Lemma Qeqb_strict_refl a : Qeqb_strict a a = true.
Proof. unfold Qeqb_strict. now rewrite Z.eqb_refl, Pos.eqb_refl. Qed.

Lemma all2_refl {A} (f : A -> A -> bool) : (forall a, f a a = true) -> forall l, all2 f l l = true.
Proof. intros Hf. induction l; simpl; [reflexivity|]. now rewrite Hf, IHl. Qed.

Lemma erow_eqb_refl a : erow_eqb a a = true.
Proof. unfold erow_eqb. now rewrite (all2_refl _ Qeqb_strict_refl), Qeqb_strict_refl. Qed.

Lemma prefix_then_app l rest : prefix_then l (l ++ rest) rest = true.
Proof.
  induction l; simpl.
  - apply all2_refl, erow_eqb_refl.
  - now rewrite erow_eqb_refl, IHl.
Qed.

Lemma ev_model_ok_from prev bs :
  ev_ok_from prev bs (map (fun m => (rows_of m, n_evidence m)) (run_updates (Some prev) bs)) = true.
Proof.
  revert prev. induction bs as [|b bs IH]; intro prev; simpl; [reflexivity|].
  rewrite prefix_then_app. unfold n_evidence at 1. simpl. rewrite Nat.eqb_refl. simpl. apply IH.
Qed.

Lemma ev_model_ok bs :
  ev_ok {| ec_batches := bs;
           ec_snaps := map (fun m => (rows_of m, n_evidence m)) (run_updates (@None (list erow)) bs) |} = true.
Proof.
  unfold ev_ok. cbn [ec_batches ec_snaps]. destruct bs as [|b bs]; [reflexivity|].
  cbn [run_updates map ev_ok_from update rows_of].
  assert (P : prefix_then [] b b = true) by (simpl; apply all2_refl, erow_eqb_refl).
  rewrite P. unfold n_evidence at 1. cbn [rows_of]. rewrite Nat.eqb_refl.
  cbn [andb]. apply ev_model_ok_from.
Qed.

(** * soundness of the decidable posterior check *)

Definition close_prop (a b : Q) : Prop := Qabs (a - b) <= tol * (1 + Qabs b).

Lemma close_iff a b : close a b = true <-> close_prop a b.
Proof. unfold close, close_prop. apply Qle_bool_iff. Qed.

Definition some_outside (x : list Q) (b : list bound) : Prop :=
  exists xi lo hi, In (xi, (lo, hi)) (combine x b) /\ (xi < lo \/ hi < xi).
Definition all_inside (x : list Q) (b : list bound) : Prop :=
  forall xi lo hi, In (xi, (lo, hi)) (combine x b) -> lo <= xi /\ xi <= hi.

(** what [row_ok] means: outside -> -inf; inside -> logcdf + logprior (or -inf with the prior), and
    the gradient is the chain-rule derivative phi/Phi(z) * dz/dx_j plus the prior's, within [tol] *)
Definition row_prop (b : list bound) (t : Q) (r : row) (lp : obs) (g : list (option Q)) : Prop :=
  (some_outside (r_x r) b -> lp = ONegInf)
  /\ (all_inside (r_x r) b ->
      match r_lprior r with
      | NegInf => lp = ONegInf
      | Fin p => exists q, lp = OFin q /\ close_prop q (o_logcdf (r_orc r) + p)
      end
      /\ Forall2 (fun m o => exists q, o = Some q /\ close_prop q m)
           (map2 Qplus (map2 (spec_grad_coord t (r_orc r)) (o_gmean (r_orc r)) (o_gvar (r_orc r))) (r_gprior r)) g).

Lemma all2_Forall2 {A B} (f : A -> B -> bool) (P : A -> B -> Prop) :
  (forall a b, f a b = true -> P a b) -> forall l m, all2 f l m = true -> Forall2 P l m.
Proof.
  intros Hf. induction l as [|a l IH]; destruct m as [|b m]; simpl; try discriminate; [constructor|].
  intro H. apply andb_true_iff in H. destruct H. constructor; auto.
Qed.

Lemma q_obs_close_prop m o : q_obs_close m o = true -> exists q, o = Some q /\ close_prop q m.
Proof. destruct o as [q|]; simpl; [|discriminate]. intro H. exists q. split; [reflexivity|now apply close_iff]. Qed.

Lemma row_ok_sound b t r lp g : row_ok b t r lp g = true -> row_prop b t r lp g.
Proof.
  unfold row_ok, row_prop, spec_logpdf. intro H. apply andb_true_iff in H. destruct H as [H1 H2].
  destruct (outside (r_x r) b) eqn:E.
  - split.
    + intros _. destruct lp; simpl in H1; try discriminate; reflexivity.
    + intro Hin. apply within_bounds_spec in Hin. rewrite within_bounds_outside, E in Hin. discriminate.
  - split.
    + intro Hout. apply outside_spec in Hout. unfold some_outside in Hout. congruence.
    + intros _. split.
      * destruct (r_lprior r) as [p|]; destruct lp; simpl in H1; try discriminate; auto.
        exists q. split; [reflexivity|now apply close_iff].
      * exact (all2_Forall2 _ _ q_obs_close_prop _ _ H2).
Qed.

Lemma rows_ok_sound b t rows lps gs :
  rows_ok b t rows lps gs = true ->
  length lps = length rows /\ length gs = length rows /\
  forall i r lp g, nth_error rows i = Some r -> nth_error lps i = Some lp -> nth_error gs i = Some g ->
                   row_prop b t r lp g.
Proof.
  revert lps gs. induction rows as [|r rows IH]; intros [|lp lps] [|g gs] H; simpl in H; try discriminate.
  - split; [reflexivity|split; [reflexivity|]]. intros k r lp g Hk. destruct k; discriminate Hk.
  - apply andb_true_iff in H. destruct H as [H1 H2]. destruct (IH _ _ H2) as (L1 & L2 & Hi).
    simpl. split; [congruence|split; [congruence|]].
    intros k r' lp' g' Hr Hl Hg. destruct k as [|k]; simpl in *.
    + inversion Hr; inversion Hl; inversion Hg; subst. now apply row_ok_sound.
    + eauto.
Qed.

(** * the model satisfies the decidable spec (exact oracles: sd * sd == var) *)

Lemma close_Qeq a b : a == b -> close a b = true.
Proof.
  intro E. apply close_iff. unfold close_prop.
  assert (Z : a - b == 0) by (rewrite E; ring). rewrite Z. simpl Qabs.
  apply Qmult_le_0_compat; [discriminate|].
  apply Qle_trans with (1 + 0); [discriminate|]. apply Qplus_le_r, Qabs_nonneg.
Qed.

Definition to_obs (e : ext) : obs := match e with Fin q => OFin q | NegInf => ONegInf end.

Lemma grad_coord_is_spec t o gm gv :
  o_var o == o_sd o * o_sd o -> ~ o_sd o == 0 ->
  grad_coord t o gm gv == spec_grad_coord t o gm gv.
Proof.
  intros Hv Hs. unfold grad_coord, spec_grad_coord. cbv zeta. rewrite Hv. field. exact Hs.
Qed.

Lemma model_grad_ok t o gms gvs gps :
  o_var o == o_sd o * o_sd o -> ~ o_sd o == 0 ->
  all2 q_obs_close (map2 Qplus (map2 (spec_grad_coord t o) gms gvs) gps)
       (map Some (map2 Qplus (map2 (grad_coord t o) gms gvs) gps)) = true.
Proof.
  intros Hv Hs. revert gvs gps. induction gms as [|gm gms IH]; intros [|gv gvs] gps; simpl; try reflexivity.
  destruct gps as [|gp gps]; simpl; [reflexivity|].
  rewrite IH, andb_true_r. apply close_Qeq. now rewrite (grad_coord_is_spec t o gm gv Hv Hs).
Qed.

Lemma row_model_ok b t r :
  o_var (r_orc r) == o_sd (r_orc r) * o_sd (r_orc r) -> ~ o_sd (r_orc r) == 0 ->
  row_ok b t r (to_obs (logpdf_row b r)) (map Some (gradpdf_row b t r)) = true.
Proof.
  intros Hv Hs. unfold row_ok. rewrite logpdf_row_is_spec. apply andb_true_iff. split.
  - destruct (spec_logpdf b r); simpl; [|reflexivity]. apply close_Qeq. reflexivity.
  - unfold gradpdf_row, gradlik_row. rewrite within_bounds_outside.
    destruct (outside (r_x r) b); simpl; [reflexivity|]. now apply model_grad_ok.
Qed.

Lemma rows_model_ok b t rows :
  Forall (fun r => o_var (r_orc r) == o_sd (r_orc r) * o_sd (r_orc r) /\ ~ o_sd (r_orc r) == 0) rows ->
  rows_ok b t rows (map (fun r => to_obs (logpdf_row b r)) rows)
          (map (fun r => map Some (gradpdf_row b t r)) rows) = true.
Proof.
  induction 1 as [|r rows [Hv Hs] _ IH]; simpl; [reflexivity|].
  now rewrite row_model_ok, IH.
Qed.

(** * the posterior's box is the USER's box, parameter by parameter (GPyRegression.__init__ -> _within_bounds) *)
From Coq Require Import Permutation.
From Coq Require String.
Local Close Scope Q_scope.

Lemma lookup_In d n iv : lookup d n = Some iv -> In (n, iv) d.
Proof.
  induction d as [|[k v] d IH]; simpl; [discriminate|].
  destruct (String.eqb k n) eqn:E.
  - apply String.eqb_eq in E. intros H. inversion H. subst. now left.
  - intros H. right. now apply IH.
Qed.

Lemma In_lookup d n iv : NoDup (map fst d) -> In (n, iv) d -> lookup d n = Some iv.
Proof.
  induction d as [|[k v] d IH]; simpl; [tauto|]. intros Hnd [H|H].
  - inversion H. subst. now rewrite String.eqb_refl.
  - inversion Hnd as [|? ? Hk Hnd']. subst. destruct (String.eqb k n) eqn:E.
    + apply String.eqb_eq in E. subst. exfalso. apply Hk. change n with (fst (n, iv)). now apply in_map.
    + now apply IH.
Qed.

Lemma lookup_None d n : lookup d n = None -> ~ In n (map fst d).
Proof.
  induction d as [|[k v] d IH]; simpl; [tauto|].
  destruct (String.eqb k n) eqn:E; [discriminate|]. intros H [Hk|Hk].
  - subst. now rewrite String.eqb_refl in E.
  - now apply IH.
Qed.

Lemma lookup_perm d d' n : NoDup (map fst d) -> Permutation d d' -> lookup d n = lookup d' n.
Proof.
  intros Hnd Hp.
  assert (Hnd' : NoDup (map fst d')) by (eapply Permutation_NoDup; [apply Permutation_map; exact Hp | exact Hnd]).
  destruct (lookup d n) as [iv|] eqn:E.
  - symmetry. apply In_lookup; auto. eapply Permutation_in; [exact Hp|]. now apply lookup_In.
  - destruct (lookup d' n) as [iv'|] eqn:E'; auto. exfalso.
    apply lookup_None in E. apply E. apply lookup_In in E'.
    change n with (fst (n, iv')). apply in_map. eapply Permutation_in; [apply Permutation_sym; exact Hp | exact E'].
Qed.

Lemma lookup_all_perm d d' names :
  NoDup (map fst d) -> Permutation d d' -> lookup_all d names = lookup_all d' names.
Proof.
  intros Hnd Hp. induction names as [|n r IH]; simpl; auto.
  now rewrite (lookup_perm d d' n Hnd Hp), IH.
Qed.

(** the box does not depend on the order in which the user wrote the keys of the dict *)
Theorem box_of_perm names d d' :
  NoDup (map fst d) -> Permutation d d' -> box_of names d = box_of names d'.
Proof.
  intros Hnd Hp. unfold box_of. rewrite <- (Permutation_length Hp).
  destruct (negb (Nat.eqb (length d) (length names))); auto.
  destruct (Nat.eqb (length d) 1) eqn:E.
  - apply Nat.eqb_eq in E. destruct d as [|a [|b d]]; simpl in E; try discriminate.
    apply Permutation_length_1_inv in Hp. now subst.
  - now apply lookup_all_perm.
Qed.

Lemma lookup_all_nth d : forall names bs,
  lookup_all d names = Some bs ->
  length bs = length names /\
  forall i n, nth_error names i = Some n -> exists iv, lookup d n = Some iv /\ nth_error bs i = Some iv.
Proof.
  induction names as [|m r IH]; simpl; intros bs H.
  - inversion H. split; auto. intros [|i] n Hn; discriminate.
  - destruct (lookup d m) as [iv|] eqn:E; [|discriminate].
    destruct (lookup_all d r) as [b|] eqn:Er; [|discriminate]. inversion H. subst.
    destruct (IH b eq_refl) as [Hl Hi]. split; [simpl; now rewrite Hl|].
    intros [|i] n Hn; simpl in Hn.
    + inversion Hn. subst. exists iv. auto.
    + simpl. now apply Hi.
Qed.

(** with two or more parameters the constructor's list IS the by-name list *)
Lemma box_of_lookup_all names d bs :
  box_of names d = Some bs -> length names <> 1 -> lookup_all d names = Some bs.
Proof.
  unfold box_of. destruct (Nat.eqb (length d) (length names)) eqn:El; simpl; [|discriminate].
  apply Nat.eqb_eq in El. destruct (Nat.eqb (length d) 1) eqn:E1; [|auto].
  apply Nat.eqb_eq in E1. intros _ Hn. exfalso. apply Hn. congruence.
Qed.

(** coordinate i of the box is the interval the dict binds to parameter_names[i] *)
Theorem box_of_by_name names d bs :
  box_of names d = Some bs ->
  length bs = length names /\
  (length names <> 1 ->
   forall i n, nth_error names i = Some n -> exists iv, lookup d n = Some iv /\ nth_error bs i = Some iv) /\
  (length names = 1 -> bs = map snd d).
Proof.
  unfold box_of. destruct (Nat.eqb (length d) (length names)) eqn:El; simpl; [|discriminate].
  apply Nat.eqb_eq in El. destruct (Nat.eqb (length d) 1) eqn:E1.
  - apply Nat.eqb_eq in E1. intros H. inversion H. subst. rewrite map_length. repeat split; auto. lia.
  - apply Nat.eqb_neq in E1. intros H. destruct (lookup_all_nth d names bs H) as [Hl Hi].
    repeat split; auto. lia.
Qed.

(** membership in [combine x b] by position *)
Lemma In_combine_nth {A B} (x : list A) (b : list B) p :
  In p (combine x b) <-> exists i, nth_error x i = Some (fst p) /\ nth_error b i = Some (snd p).
Proof.
  revert b. induction x as [|a x IH]; intros [|c b]; simpl.
  - split; [tauto|]. intros [[|i] [H _]]; discriminate.
  - split; [tauto|]. intros [[|i] [H _]]; discriminate.
  - split; [tauto|]. intros [[|i] [_ H]]; discriminate.
  - split.
    + intros [H|H].
      * subst. exists 0. simpl. auto.
      * apply IH in H. destruct H as [i Hi]. exists (S i). exact Hi.
    + intros [[|i] [H1 H2]]; simpl in *.
      * left. destruct p. simpl in *. congruence.
      * right. apply IH. exists i. auto.
Qed.

Local Open Scope Q_scope.

(** "x is within the by-name box": every parameter's coordinate lies in the interval the dict gives for that NAME *)
Definition named_inside (names : list string) (d : bdict) (x : list Q) : Prop :=
  forall i n xi lo hi, nth_error names i = Some n -> nth_error x i = Some xi -> lookup d n = Some (lo, hi) ->
                       lo <= xi /\ xi <= hi.
Definition named_outside (names : list string) (d : bdict) (x : list Q) : Prop :=
  exists i n xi lo hi, nth_error names i = Some n /\ nth_error x i = Some xi /\ lookup d n = Some (lo, hi) /\
                       (xi < lo \/ hi < xi).

Lemma all_inside_named names d b x :
  lookup_all d names = Some b -> length x = length names ->
  (all_inside x b <-> named_inside names d x).
Proof.
  intros Hb Hx. destruct (lookup_all_nth d names b Hb) as [Hl Hi]. unfold all_inside, named_inside. split.
  - intros H i n xi lo hi Hn Hxi Hlk. destruct (Hi i n Hn) as [iv [Hlk' Hnb]].
    assert (Eiv : iv = (lo, hi)) by (unfold bound in *; congruence). subst iv.
    apply (H xi lo hi). apply In_combine_nth. exists i. simpl. auto.
  - intros H xi lo hi Hin. apply In_combine_nth in Hin. destruct Hin as [i [Hxi Hbi]]. simpl in *.
    assert (Hlt : (i < length names)%nat) by (rewrite <- Hx; apply nth_error_Some; congruence).
    destruct (nth_error names i) as [n|] eqn:En; [|apply nth_error_None in En; lia].
    destruct (Hi i n En) as [iv [Hlk Hnb]]. assert (Eiv : iv = (lo, hi)) by (unfold bound in *; congruence). subst iv.
    exact (H i n xi lo hi En Hxi Hlk).
Qed.

Lemma some_outside_named names d b x :
  lookup_all d names = Some b -> length x = length names ->
  (some_outside x b <-> named_outside names d x).
Proof.
  intros Hb Hx. destruct (lookup_all_nth d names b Hb) as [Hl Hi]. unfold some_outside, named_outside. split.
  - intros (xi & lo & hi & Hin & H). apply In_combine_nth in Hin. destruct Hin as [i [Hxi Hbi]]. simpl in *.
    assert (Hlt : (i < length names)%nat) by (rewrite <- Hx; apply nth_error_Some; congruence).
    destruct (nth_error names i) as [n|] eqn:En; [|apply nth_error_None in En; lia].
    destruct (Hi i n En) as [iv [Hlk Hnb]]. assert (Eiv : iv = (lo, hi)) by (unfold bound in *; congruence). subst iv.
    exists i, n, xi, lo, hi. auto.
  - intros (i & n & xi & lo & hi & Hn & Hxi & Hlk & H). destruct (Hi i n Hn) as [iv [Hlk' Hnb]].
    assert (Eiv : iv = (lo, hi)) by (unfold bound in *; congruence). subst iv.
    exists xi, lo, hi. split; [|exact H]. apply In_combine_nth. exists i. simpl. auto.
Qed.

(** the model's bounds test on the constructor's box = the by-name reading of the user's dict (>= 2 parameters) *)
Theorem within_bounds_named names d b x :
  box_of names d = Some b -> length names <> 1%nat -> length x = length names ->
  (within_bounds x b = true <-> named_inside names d x).
Proof.
  intros Hb Hn Hx. rewrite within_bounds_spec. apply (all_inside_named names d b x); auto.
  now apply box_of_lookup_all.
Qed.

(** ... hence the model's log density and gradient do not depend on the key order of the dict *)
Theorem posterior_order_independent names d d' t r :
  NoDup (map fst d) -> Permutation d d' ->
  forall b b', box_of names d = Some b -> box_of names d' = Some b' ->
    logpdf_row b r = logpdf_row b' r /\ gradpdf_row b t r = gradpdf_row b' t r.
Proof.
  intros Hnd Hp b b' Hb Hb'. rewrite (box_of_perm names d d' Hnd Hp) in Hb. rewrite Hb in Hb'.
  inversion Hb'. subst. auto.
Qed.

(** [row_prop] read by parameter NAME *)
Definition named_row_prop (names : list string) (d : bdict) (t : Q) (r : row) (lp : obs) (g : list (option Q)) : Prop :=
  (named_outside names d (r_x r) -> lp = ONegInf)
  /\ (named_inside names d (r_x r) ->
      match r_lprior r with
      | NegInf => lp = ONegInf
      | Fin p => exists q, lp = OFin q /\ close_prop q (o_logcdf (r_orc r) + p)
      end
      /\ Forall2 (fun m o => exists q, o = Some q /\ close_prop q m)
           (map2 Qplus (map2 (spec_grad_coord t (r_orc r)) (o_gmean (r_orc r)) (o_gvar (r_orc r))) (r_gprior r)) g).

Lemma row_prop_named names d b t r lp g :
  lookup_all d names = Some b -> length (r_x r) = length names ->
  row_prop b t r lp g -> named_row_prop names d t r lp g.
Proof.
  intros Hb Hx [H1 H2]. split.
  - intro H. apply H1. now apply (some_outside_named names d b).
  - intro H. apply H2. now apply (all_inside_named names d b).
Qed.

Lemma post_ok_sound p :
  post_ok p = true ->
  length (pc_impl_logpdf p) = length (pc_rows p) /\ length (pc_impl_grad p) = length (pc_rows p) /\
  forall i r lp g, nth_error (pc_rows p) i = Some r -> nth_error (pc_impl_logpdf p) i = Some lp ->
                   nth_error (pc_impl_grad p) i = Some g ->
                   named_row_prop (pc_names p) (pc_dict p) (pc_t p) r lp g.
Proof.
  unfold post_ok. destruct (lookup_all (pc_dict p) (pc_names p)) as [b|] eqn:Eb; [|discriminate].
  intro H. apply andb_true_iff in H. destruct H as [H H3]. apply andb_true_iff in H. destruct H as [H1 H2].
  apply Nat.eqb_eq in H1. rewrite forallb_forall in H2.
  destruct (rows_ok_sound _ _ _ _ _ H3) as (L1 & L2 & Hi). split; [exact L1|split; [exact L2|]].
  intros i r lp g Hr Hl Hg. apply (row_prop_named _ _ b); auto.
  - rewrite H1. apply Nat.eqb_eq. apply H2. eapply nth_error_In; eauto.
  - eapply Hi; eauto.
Qed.

(** the model's own output (box = [box_of names dict]) passes the by-name spec, whatever the key order *)
Lemma post_model_ok names d b t dim rows :
  box_of names d = Some b -> length names <> 1%nat -> length names = dim ->
  Forall (fun r => length (r_x r) = dim) rows ->
  Forall (fun r => o_var (r_orc r) == o_sd (r_orc r) * o_sd (r_orc r) /\ ~ o_sd (r_orc r) == 0) rows ->
  forall ndim ibs ill igl,
  post_ok {| pc_dim := dim; pc_ndim := ndim; pc_names := names; pc_dict := d; pc_impl_bounds := ibs; pc_t := t;
             pc_rows := rows; pc_impl_ll := ill; pc_impl_gl := igl;
             pc_impl_logpdf := map (fun r => to_obs (logpdf_row b r)) rows;
             pc_impl_grad := map (fun r => map Some (gradpdf_row b t r)) rows |} = true.
Proof.
  intros Hb Hn Hd Hx Ho ndim ibs ill igl. unfold post_ok. cbn [pc_dict pc_names pc_dim pc_rows pc_t pc_impl_logpdf pc_impl_grad].
  rewrite (box_of_lookup_all _ _ _ Hb Hn). rewrite Hd, Nat.eqb_refl. simpl.
  rewrite rows_model_ok by exact Ho. rewrite andb_true_r.
  apply forallb_forall. intros r Hr. rewrite Forall_forall in Hx. apply Nat.eqb_eq. now apply Hx.
Qed.
