(** C12 <-> C01 link: the sampler round of the adaptive-distance model ([Welford.rejection_round],
    property C12) is fed by the batches the Rejection model ([Reject.rupdate], property C01) consumes,
    with the acceptance mask the Rejection model itself computes.

    [samplers.py: Rejection._merge_batch] first hands the summaries of the whole batch to the adaptive
    node ([_update_distances] -> [add_data]) and then filters the batch by [batch[d] <= threshold].
    The C01 model keeps only the second half (draw = discrepancy under the CURRENT distance + row code);
    the C12 model keeps only the first half (an [sbatch] = summary rows + an arbitrary mask).
    Here one coupled step [link_step] runs both halves on the same batch, the mask being
    [map (accepts thr) batch] for the threshold held in the C01 state.

    ABSTRACT: [summ : draw -> list Q], the summary row the adaptive node receives for a draw (the C01
    draw only carries a code for its row of outputs; the values behind the code are not modelled
    there).  Nothing is assumed about [summ] except, where stated, that every row has [w] entries. *)
From Coq Require Import ZArith QArith Qabs List Bool Arith Lia Permutation.
From Elfi Require Import Sched.Sched Sched.Reject Proofs.C01_Reject Proofs.C01_History.
From Elfi Require Import Num.Distance Num.Welford Proofs.C12_Welford Proofs.C12_Distance Proofs.C12_Sampler.
Import ListNotations.
Local Open Scope nat_scope.

(** ** list plumbing *)

Fixpoint select {A} (mask : list bool) (l : list A) : list A :=
  match mask, l with
  | m :: ms, x :: r => if m then x :: select ms r else select ms r
  | _, _ => []
  end.

Lemma select_map_filter {A} (f : A -> bool) l : select (map f l) l = filter f l.
Proof. induction l as [|x r IH]; simpl; [reflexivity|]. rewrite IH. reflexivity. Qed.

Lemma map_nth_seq_firstn {A} (d : A) : forall l k, k <= length l ->
  map (fun j => nth j l d) (seq 0 k) = firstn k l.
Proof.
  induction l as [|x r IH]; intros k Hk.
  - simpl in Hk. replace k with 0 by lia. reflexivity.
  - destruct k as [|k]; [reflexivity|]. simpl in Hk.
    change (seq 0 (S k)) with (0 :: seq 1 k). rewrite <- seq_shift. simpl. rewrite map_map. simpl.
    rewrite IH by lia. reflexivity.
Qed.

Lemma concat_length_const {A} b (bs : list (list A)) :
  Forall (fun x => length x = b) bs -> length (concat bs) = length bs * b.
Proof.
  induction 1 as [|x r Hx _ IH]; simpl; [reflexivity|]. rewrite app_length, IH, Hx. reflexivity.
Qed.

Lemma Forall2_map_r_iff {A B C} (P : A -> C -> Prop) (f : B -> C) : forall m l,
  Forall2 P l (map f m) <-> Forall2 (fun x y => P x (f y)) l m.
Proof.
  induction m as [|y m IH]; intros l; simpl.
  - split; intros H; inversion H; constructor.
  - split; intros H; inversion H; subst; constructor; try assumption; apply IH; assumption.
Qed.

Lemma Forall2_and {A B} (P Q : A -> B -> Prop) l m :
  Forall2 P l m -> Forall2 Q l m -> Forall2 (fun x y => P x y /\ Q x y) l m.
Proof.
  intros H. induction H; intros HQ; inversion HQ; subst; constructor; auto.
Qed.

Lemma Forall2_Forall_l {A B} (P : A -> Prop) (Q : A -> B -> Prop) l m :
  Forall P l -> Forall2 Q l m -> Forall2 (fun x y => P x /\ Q x y) l m.
Proof.
  intros HP H. induction H; inversion HP; subst; constructor; auto.
Qed.

Lemma Forall2_impl {A B} (P Q : A -> B -> Prop) l m :
  (forall x y, P x y -> Q x y) -> Forall2 P l m -> Forall2 Q l m.
Proof. intros HI H. induction H; constructor; auto. Qed.

Lemma Forall2_combine {A B} (P : A -> B -> Prop) l m :
  Forall2 P l m -> Forall (fun p => P (fst p) (snd p)) (combine l m).
Proof. induction 1; simpl; constructor; auto. Qed.

Lemma fold_add_data_n bs : forall st,
  s_n (fold_left add_data bs st) = s_n st + length (concat bs).
Proof.
  induction bs as [|b r IH]; intros st; simpl; [lia|].
  rewrite IH, add_data_n, app_length. lia.
Qed.

(** the C01 fold keeps batch size and threshold, and counts the batches *)
Lemma consume_consts : forall bs s,
  r_n (consume s bs) = r_n s /\ r_b (consume s bs) = r_b s /\ r_thr (consume s bs) = r_thr s
  /\ r_nbatches (consume s bs) = r_nbatches s + length bs.
Proof.
  induction bs as [|batch r IH]; intros s.
  - simpl. repeat split; lia.
  - change (consume s (batch :: r)) with (consume (fst (rupdate s batch 0)) r).
    destruct (IH (fst (rupdate s batch 0))) as (A & B & C & D).
    destruct (rupdate_consts s batch 0) as (C1 & C2 & C3 & C4).
    rewrite A, B, C, D, C1, C2, C3, C4. simpl. repeat split; lia.
Qed.

Section Link.
(** the summary row the adaptive node receives for a draw: ABSTRACT *)
Variable summ : draw -> list Q.

(** (1) the C12 batch of a C01 batch: data = summary rows of ALL draws, mask = the C01 acceptance test *)
Definition sbatch_of (thr : option edisc) (batch : list draw) : sbatch :=
  {| sb_data := map summ batch; sb_accept := map (accepts thr) batch |}.

Definition sbatches_of (thr : option edisc) (bs : list (list draw)) : list sbatch :=
  map (sbatch_of thr) bs.

Lemma sbatch_mask_length thr batch :
  length (sb_accept (sbatch_of thr batch)) = length (sb_data (sbatch_of thr batch)).
Proof. simpl. rewrite !map_length. reflexivity. Qed.

(** the mask of [sbatch_of] selects exactly the draws the C01 step writes into its buffer *)
Lemma sbatch_mask_is_C01_filter thr batch :
  select (sb_accept (sbatch_of thr batch)) batch = filter (accepts thr) batch.
Proof. apply select_map_filter. Qed.

Lemma rupdate_buf_mask s batch i :
  r_buf (fst (rupdate s batch i))
  = Reject.ssort (overwrite_tail (bufof s)
       (map (fun d => Some d) (select (sb_accept (sbatch_of (r_thr s) batch)) batch))).
Proof. rewrite sbatch_mask_is_C01_filter. apply rupdate_buf. Qed.

Lemma round_rows_sbatches thr bs : round_rows (sbatches_of thr bs) = map summ (concat bs).
Proof.
  unfold round_rows, sbatches_of. rewrite map_map. simpl. rewrite concat_map. reflexivity.
Qed.

Lemma sbatches_data thr1 thr2 bs : map sb_data (sbatches_of thr1 bs) = map sb_data (sbatches_of thr2 bs).
Proof. unfold sbatches_of. rewrite !map_map. reflexivity. Qed.

(** ** the coupled model: one consumed batch updates the sampler state AND the node *)
Definition link_step (p : rstate * astate) (batch : list draw) : rstate * astate :=
  (fst (rupdate (fst p) batch 0), merge_batch (snd p) (sbatch_of (r_thr (fst p)) batch)).

Definition link_consume (p : rstate * astate) (bs : list (list draw)) : rstate * astate :=
  fold_left link_step bs p.

(** Rejection.__init__ (init_adaptation_round), the batches, extract_result (update_distance) *)
Definition link_round (s0 : rstate) (a : astate) (bs : list (list draw)) : rstate * option astate :=
  let p := link_consume (s0, init_round a) bs in (fst p, update_distance (snd p)).

(** the coupled fold is the C01 fold paired with the C12 fold over the corresponding sbatches *)
Lemma link_consume_split : forall bs s a,
  link_consume (s, a) bs = (consume s bs, fold_left merge_batch (sbatches_of (r_thr s) bs) a).
Proof.
  induction bs as [|batch r IH]; intros s a; [reflexivity|].
  change (link_consume (s, a) (batch :: r))
    with (link_consume (fst (rupdate s batch 0), merge_batch a (sbatch_of (r_thr s) batch)) r).
  rewrite IH. destruct (rupdate_consts s batch 0) as (_ & _ & C3 & _). cbv zeta in C3.
  rewrite C3. reflexivity.
Qed.

Lemma link_round_split s0 a bs :
  link_round s0 a bs = (consume s0 bs, rejection_round a (sbatches_of (r_thr s0) bs)).
Proof. unfold link_round. rewrite link_consume_split. reflexivity. Qed.

(** ** what the node holds *)

(** the node's accumulators are those of the data set [R], which has [n] rows *)
Definition NodeSawAll (w : nat) (node : astate) (R : mat) (n : nat) : Prop :=
  s_n (a_store node) = n /\ n = length R
  /\ forall j, j < w -> (bget (s_mean (a_store node)) j == colmean R j
                         /\ bget (s_m2 (a_store node)) j == colss R j)%Q.

(** the round appended to [a] one distance function weighted by 1/variance of the columns of [R] *)
Definition RoundAppends (w : nat) (a a2 : astate) (R : mat) : Prop :=
  exists w2, a_funcs a2 = a_funcs a ++ [Some w2] /\ a_w2 a2 = a_w2 a ++ [Some w2]
             /\ a_store a2 = store0 /\ length w2 = w
             /\ forall j, j < w -> (nth j w2 0 == / colvar R j)%Q.

Definition batches_wf (w b : nat) (bs : list (list draw)) : Prop :=
  Forall (fun batch => length batch = b /\ Forall (fun d => length (summ d) = w) batch) bs.

Lemma sbatches_wf w b thr bs :
  0 < b -> bs <> [] -> batches_wf w b bs -> round_wf w (sbatches_of thr bs).
Proof.
  intros Hb Hne HF. split.
  - destruct bs; [congruence | discriminate].
  - unfold sbatches_of. apply Forall_map. eapply Forall_impl; [|exact HF].
    intros batch [Hl Hw]. simpl. destruct batch as [|d r]; [simpl in Hl; lia|].
    split; [discriminate|]. simpl. inversion Hw; assumption.
Qed.

(** (2) one round of the coupled model from ANY sampler state [s0] and ANY node state [a]:
    the sampler half is the C01 fold; the node, just before [update_distance], holds the Welford
    state of ALL summary rows of ALL consumed batches, their number being the simulations the
    C01 state counted in this round; the round appends 1/variance of those rows. *)
Theorem link_round_sees_all_rows s0 a w bs :
  0 < r_b s0 -> bs <> [] -> batches_wf w (r_b s0) bs ->
  let p := link_consume (s0, init_round a) bs in
  let R := map summ (concat bs) in
  fst p = consume s0 bs
  /\ NodeSawAll w (snd p) R ((r_nbatches (fst p) - r_nbatches s0) * r_b s0)
  /\ exists a2, update_distance (snd p) = Some a2
                /\ rejection_round a (sbatches_of (r_thr s0) bs) = Some a2
                /\ RoundAppends w a a2 R.
Proof.
  intros Hb Hne HF p R. unfold p. rewrite link_consume_split. simpl fst. simpl snd.
  split; [reflexivity|].
  set (sbs := sbatches_of (r_thr s0) bs).
  assert (Hwf : round_wf w sbs) by (apply (sbatches_wf w (r_b s0)); assumption).
  destruct (round_wf_data w sbs Hwf) as [Hne' HF'].
  assert (HR : concat (map sb_data sbs) = R) by (apply round_rows_sbatches).
  split.
  - unfold NodeSawAll. rewrite fold_merge_batch.
    destruct (fold_state (map sb_data sbs) (init_round a) Hne') as (E & _). cbv zeta in E.
    rewrite E. simpl a_store.
    destruct (consume_consts bs s0) as (_ & _ & _ & Hn).
    assert (Hlen : length R = length bs * r_b s0).
    { unfold R. rewrite map_length. apply concat_length_const.
      eapply Forall_impl; [|exact HF]. simpl. tauto. }
    split; [|split].
    + rewrite fold_add_data_n, HR, Hlen, Hn. simpl. f_equal. lia.
    + rewrite Hn, Hlen. f_equal. lia.
    + intros j Hj. destruct (welford_batches w (map sb_data sbs) j HF' Hj) as (_ & Hm & H2).
      cbv zeta in Hm, H2. rewrite HR in Hm, H2. split; assumption.
  - destruct (rejection_round_all_rows a w sbs Hwf) as (a2 & w2 & E & F1 & F2 & F3 & F4 & F5).
    exists a2. split; [exact E|]. split; [exact E|].
    exists w2. repeat (split; [assumption|]).
    intros j Hj. rewrite (F5 j Hj). unfold round_rows. rewrite HR. reflexivity.
Qed.

(** the node half does not depend on the threshold (nor on anything else in the sampler state) *)
Theorem link_round_node_ignores_threshold s1 s2 a bs :
  snd (link_round s1 a bs) = snd (link_round s2 a bs)
  /\ snd (link_consume (s1, init_round a) bs) = snd (link_consume (s2, init_round a) bs).
Proof.
  rewrite !link_round_split, !link_consume_split. simpl. split.
  - apply rejection_round_ignores_acceptance. apply sbatches_data.
  - rewrite !fold_merge_batch. rewrite (sbatches_data (r_thr s1) (r_thr s2)). reflexivity.
Qed.

(** two coupled rounds over the same summary rows in the same order - other thresholds, other batch
    sizes, other discrepancies (another distance in force), other node histories: equal accumulators
    and equal appended weights *)
Theorem link_round_ignores_threshold_and_batching s1 s2 a1 a2 w bs1 bs2 :
  0 < r_b s1 -> 0 < r_b s2 -> bs1 <> [] -> bs2 <> [] ->
  batches_wf w (r_b s1) bs1 -> batches_wf w (r_b s2) bs2 ->
  map summ (concat bs1) = map summ (concat bs2) ->
  let n1 := snd (link_consume (s1, init_round a1) bs1) in
  let n2 := snd (link_consume (s2, init_round a2) bs2) in
  s_n (a_store n1) = s_n (a_store n2)
  /\ (forall j, j < w -> (bget (s_mean (a_store n1)) j == bget (s_mean (a_store n2)) j
                          /\ bget (s_m2 (a_store n1)) j == bget (s_m2 (a_store n2)) j)%Q)
  /\ exists r1 r2 u1 u2,
       snd (link_round s1 a1 bs1) = Some r1 /\ snd (link_round s2 a2 bs2) = Some r2
       /\ last (a_funcs r1) None = Some u1 /\ last (a_funcs r2) None = Some u2
       /\ length u1 = w /\ length u2 = w
       /\ forall j, j < w -> (nth j u1 0 == nth j u2 0)%Q.
Proof.
  intros B1 B2 N1 N2 W1 W2 E n1 n2.
  destruct (link_round_sees_all_rows s1 a1 w bs1 B1 N1 W1) as (_ & (A1 & A2 & A3) & r1 & U1 & _ & u1 & F1 & _ & _ & L1 & V1).
  destruct (link_round_sees_all_rows s2 a2 w bs2 B2 N2 W2) as (_ & (A1' & A2' & A3') & r2 & U2 & _ & u2 & F2 & _ & _ & L2 & V2).
  fold n1 in A1, A3, U1. fold n2 in A1', A3', U2.
  split; [|split].
  - rewrite A1, A1', A2, A2', E. reflexivity.
  - intros j Hj. destruct (A3 j Hj) as [M1 S1]. destruct (A3' j Hj) as [M2 S2].
    rewrite M1, M2, S1, S2, E. split; reflexivity.
  - exists r1, r2, u1, u2. unfold link_round. simpl snd. fold n1 n2.
    split; [exact U1|]. split; [exact U2|].
    split; [rewrite F1; apply last_last|]. split; [rewrite F2; apply last_last|].
    split; [exact L1|]. split; [exact L2|].
    intros j Hj. rewrite (V1 j Hj), (V2 j Hj), E. reflexivity.
Qed.

(** ** the same, for a finished run of the C01 model ([run_on]: set_objective, then [seq_run]) *)

Definition run_thr (c : Reject.case) : option edisc :=
  snd (initial_objective (c_n c) (c_b c) (c_form c)).

(** the batches a finished run consumed: the first n_batches batches of its record *)
Definition consumed_batches (c : Reject.case) (res : rresult) : list (list draw) :=
  firstn (res_n_batches res) (c_table c).

(** the C12 round of a finished C01 run *)
Definition round_of_run (c : Reject.case) (res : rresult) : list sbatch :=
  sbatches_of (run_thr c) (consumed_batches c res).

(** the record of a run: full batches of [batch_size] >= 1 draws, summary rows of [w] entries *)
Definition run_wf (w : nat) (c : Reject.case) : Prop := 0 < c_b c /\ batches_wf w (c_b c) (c_table c).

(** the run stopped after at least one batch and consumed recorded batches only *)
Definition run_finished (c : Reject.case) (res : rresult) : Prop :=
  0 < res_n_batches res <= length (c_table c).

Lemma run_on_consume prev c s :
  run_on prev c = Some s -> r_nbatches s <= length (c_table c) ->
  let s0 := rset_objective prev (c_n c) (c_b c) (c_form c) in
  s = consume s0 (firstn (r_nbatches s) (c_table c))
  /\ r_b s0 = c_b c /\ r_thr s0 = run_thr c /\ r_nbatches s0 = 0.
Proof.
  intros Hrun Hk s0.
  destruct (rset_objective_init prev (c_n c) (c_b c) (c_form c)) as (I1 & I2 & I3 & I4 & I5).
  fold s0 in I1, I2, I3, I4, I5.
  unfold run_on, rseq in Hrun. fold s0 in Hrun.
  destruct (seq_run _ _ _ _ _ _ _ _ _ _ _) as [[s' k]|] eqn:Eseq; [|discriminate].
  inversion Hrun; subst s'. clear Hrun.
  apply seq_run_consume in Eseq. destruct Eseq as [_ Hs]. rewrite Nat.sub_0_r in Hs.
  destruct (consume_consts (map (fun j => nth j (c_table c) []) (seq 0 k)) s0) as (_ & _ & _ & Hn).
  rewrite <- Hs, I4, map_length, seq_length in Hn. simpl in Hn.
  rewrite Hn in *. rewrite map_nth_seq_firstn in Hs by exact Hk.
  split; [exact Hs|]. split; [exact I2|]. split; [exact I5 | exact I4].
Qed.

Lemma consumed_wf w c k : run_wf w c -> 0 < k <= length (c_table c) ->
  firstn k (c_table c) <> [] /\ batches_wf w (c_b c) (firstn k (c_table c))
  /\ length (firstn k (c_table c)) = k.
Proof.
  intros [Hb HF] [Hk1 Hk2]. split; [|split].
  - destruct k; [lia|]. destruct (c_table c); [simpl in Hk2; lia | discriminate].
  - unfold batches_wf. rewrite <- (firstn_skipn k (c_table c)) in HF.
    apply Forall_app in HF. tauto.
  - rewrite firstn_length. lia.
Qed.

(** (2) for a finished run on an instance in ANY prior state and a node in ANY state: the coupled model
    run over the consumed batches ends in the C01 model's final state; the node has then seen exactly
    [n_sim] rows - ALL summary rows of ALL consumed batches - and the round appends their 1/variance;
    the rows the run returns are the best accepted draws under the distance that produced the
    discrepancies (the C01 theorem). *)
Theorem run_round_sees_all_simulated_rows prev c s a w :
  run_wf w c -> run_on prev c = Some s -> run_finished c (Reject.extract s) ->
  let res := Reject.extract s in
  let consumed := consumed_batches c res in
  let R := map summ (concat consumed) in
  let p := link_consume (rset_objective prev (c_n c) (c_b c) (c_form c), init_round a) consumed in
  fst p = s
  /\ snd p = fold_left merge_batch (round_of_run c res) (init_round a)
  /\ NodeSawAll w (snd p) R (res_n_sim res)
  /\ res_n_sim res = res_n_batches res * c_b c
  /\ (exists a2, update_distance (snd p) = Some a2
                 /\ rejection_round a (round_of_run c res) = Some a2
                 /\ RoundAppends w a a2 R)
  /\ returns_best (c_n c) (run_thr c) (concat consumed) (res_rows res).
Proof.
  intros Hwf Hrun Hfin res consumed R p.
  unfold run_finished in Hfin. simpl res_n_batches in Hfin.
  destruct (run_on_consume prev c s Hrun (proj2 Hfin)) as (Hs & I2 & I5 & I4).
  set (s0 := rset_objective prev (c_n c) (c_b c) (c_form c)) in *.
  unfold consumed, consumed_batches in *. simpl res_n_batches in *.
  destruct (consumed_wf w c (r_nbatches s) Hwf Hfin) as (Hne & HF & Hlen).
  assert (Hb : 0 < r_b s0) by (rewrite I2; apply Hwf).
  rewrite <- I2 in HF.
  destruct (link_round_sees_all_rows s0 a w _ Hb Hne HF) as (P1 & P2 & P3).
  fold p in P1, P2, P3. rewrite <- Hs in P1. rewrite P1, I4, Nat.sub_0_r, I2 in P2.
  destruct (consume_consts (firstn (r_nbatches s) (c_table c)) s0) as (_ & Cb & _ & _).
  rewrite <- Hs, I2 in Cb.
  assert (Hsim : res_n_sim res = r_nbatches s * c_b c) by (simpl; rewrite Cb; reflexivity).
  split; [exact P1|]. split.
  { unfold p. rewrite link_consume_split. simpl. unfold round_of_run, consumed_batches.
    simpl res_n_batches. rewrite I5. reflexivity. }
  split; [rewrite Hsim; exact P2|]. split; [exact Hsim|]. split.
  { unfold round_of_run, consumed_batches. simpl res_n_batches. rewrite <- I5. exact P3. }
  assert (Hle : Forall (fun batch => length batch <= c_b c) (c_table c)).
  { destruct Hwf as [_ HF']. eapply Forall_impl; [|exact HF']. simpl. intros x [Hx _]. lia. }
  destruct (run_on_returns_best prev c s Hle Hrun (proj1 Hfin)) as [Hbest _].
  exact Hbest.
Qed.

(** two finished runs whose consumed draws have the same summary rows in the same order - different
    thresholds / objective forms, batch sizes, sample counts, prior instance and node states: the node
    saw the same rows, [n_sim] is the same, and the appended weights are equal *)
Theorem runs_same_draws_same_round prev1 prev2 c1 c2 s1 s2 a1 a2 w :
  run_wf w c1 -> run_wf w c2 ->
  run_on prev1 c1 = Some s1 -> run_on prev2 c2 = Some s2 ->
  run_finished c1 (Reject.extract s1) -> run_finished c2 (Reject.extract s2) ->
  map summ (concat (consumed_batches c1 (Reject.extract s1))) = map summ (concat (consumed_batches c2 (Reject.extract s2))) ->
  res_n_sim (Reject.extract s1) = res_n_sim (Reject.extract s2)
  /\ exists r1 r2 u1 u2,
       rejection_round a1 (round_of_run c1 (Reject.extract s1)) = Some r1
       /\ rejection_round a2 (round_of_run c2 (Reject.extract s2)) = Some r2
       /\ last (a_funcs r1) None = Some u1 /\ last (a_funcs r2) None = Some u2
       /\ length u1 = w /\ length u2 = w
       /\ forall j, j < w -> (nth j u1 0 == nth j u2 0)%Q.
Proof.
  intros W1 W2 R1 R2 F1 F2 E.
  destruct (run_round_sees_all_simulated_rows prev1 c1 s1 a1 w W1 R1 F1)
    as (_ & _ & (_ & N1 & _) & _ & (r1 & _ & E1 & u1 & G1 & _ & _ & L1 & V1) & _).
  destruct (run_round_sees_all_simulated_rows prev2 c2 s2 a2 w W2 R2 F2)
    as (_ & _ & (_ & N2 & _) & _ & (r2 & _ & E2 & u2 & G2 & _ & _ & L2 & V2) & _).
  split; [rewrite N1, N2, E; reflexivity|].
  exists r1, r2, u1, u2. split; [exact E1|]. split; [exact E2|].
  split; [rewrite G1; apply last_last|]. split; [rewrite G2; apply last_last|].
  split; [exact L1|]. split; [exact L2|].
  intros j Hj. rewrite (V1 j Hj), (V2 j Hj), E. reflexivity.
Qed.

(** (3) consecutive runs on one Rejection instance feeding one adaptive node (Rejection after Rejection
    with a list of thresholds, or the populations of AdaptiveDistanceSMC): distance function number
    [k+1] carries 1/variance of ALL rows run [k] simulated, and of those alone
    ([rejection_rounds_all_rows]); each run returns the best accepted draws among the batches it
    consumed, judged by the discrepancies of that run, and reports n_sim = the number of those rows
    ([history_every_run_best]).  Both on the same batches. *)
Theorem history_rounds_see_all_rows prev h ress a w :
  Forall (run_wf w) h ->
  history_results prev h = map Some ress ->
  Forall2 run_finished h ress ->
  let runs := combine h ress in
  let rounds := map (fun cr => round_of_run (fst cr) (snd cr)) runs in
  (exists a2 ws,
      rejection_rounds a rounds = Some a2
      /\ a_funcs a2 = a_funcs a ++ map Some ws
      /\ (h <> [] -> a_store a2 = store0)
      /\ Forall2 (fun w2 cr =>
                    length w2 = w
                    /\ forall j, j < w ->
                         (nth j w2 0 == / colvar (map summ (concat (consumed_batches (fst cr) (snd cr)))) j)%Q)
                 ws runs)
  /\ Forall2 (fun c res =>
                returns_best (c_n c) (run_thr c) (concat (consumed_batches c res)) (res_rows res)
                /\ res_n_sim res = res_n_batches res * c_b c
                /\ res_n_sim res = length (map summ (concat (consumed_batches c res))))
             h ress.
Proof.
  intros Hwf Hres Hfin runs rounds.
  assert (Hboth : Forall2 (fun c res => run_wf w c /\ run_finished c res) h ress)
    by (apply Forall2_Forall_l; assumption).
  split.
  - assert (HW : Forall (round_wf w) rounds).
    { unfold rounds. apply Forall_map. apply Forall2_combine in Hboth. fold runs in Hboth.
      eapply Forall_impl; [|exact Hboth]. intros [c res] [Hc Hf]. simpl in *.
      destruct (consumed_wf w c (res_n_batches res) Hc Hf) as (Hne & HF & _).
      apply (sbatches_wf w (c_b c)); [apply Hc | exact Hne | exact HF]. }
    destruct (rejection_rounds_all_rows w rounds a HW) as (a2 & ws & E & F & S & HF2).
    exists a2, ws. split; [exact E|]. split; [exact F|]. split.
    + intros Hne. apply S. unfold rounds, runs. inversion Hfin; subst; [congruence | discriminate].
    + unfold rounds in HF2. apply Forall2_map_r_iff in HF2.
      eapply Forall2_impl; [|exact HF2]. intros w2 [c res] [Hl Hv]. simpl in *.
      split; [exact Hl|]. intros j Hj. rewrite (Hv j Hj). unfold round_of_run.
      rewrite round_rows_sbatches. reflexivity.
  - assert (Hle : Forall (fun c => Forall (fun batch => length batch <= c_b c) (c_table c)) h).
    { eapply Forall_impl; [|exact Hwf]. intros c [_ HF]. eapply Forall_impl; [|exact HF].
      simpl. intros x [Hx _]. lia. }
    assert (HB := history_every_run_best h prev Hle). rewrite Hres in HB.
    apply Forall2_map_r_iff in HB.
    eapply Forall2_impl; [|apply (Forall2_and _ _ _ _ Hboth HB)].
    intros c res [[Hc Hf] Hb]. simpl in Hb.
    destruct (Hb res eq_refl (proj1 Hf)) as [Hbest Hsim].
    split; [exact Hbest|]. split; [exact Hsim|].
    destruct (consumed_wf w c (res_n_batches res) Hc Hf) as (_ & HF & Hlen).
    rewrite Hsim, map_length. unfold consumed_batches.
    rewrite (concat_length_const (c_b c)); [rewrite Hlen; reflexivity|].
    eapply Forall_impl; [|exact HF]. simpl. tauto.
Qed.

(** if the summary row is a function of the row code alone (the draw's outputs do not depend on the
    distance in force), two runs that consumed rows with the same codes feed the node the same data
    whatever discrepancies the draws carry *)
Lemma summ_by_code (srow : N -> list Q) (l1 l2 : list draw) :
  (forall d, summ d = srow (d_code d)) -> map d_code l1 = map d_code l2 -> map summ l1 = map summ l2.
Proof.
  intros Hs E. rewrite (map_ext summ (fun d => srow (d_code d)) Hs l1),
    (map_ext summ (fun d => srow (d_code d)) Hs l2), <- !(map_map d_code srow), E. reflexivity.
Qed.

End Link.
