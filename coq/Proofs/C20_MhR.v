(** C20 — real-number reading of the acceptance probability, tied to the GENERATED transform formulas:
    exp of the code's log-ratio is (posterior ratio) x (ratio of the Jacobians of the back-transform at the
    proposed and current transformed points); the [-700,700] clip changes min(1, .) by at most exp(-700). *)
From Coq Require Import Reals Lra List QArith Qreals.
From Coquelicot Require Import Coquelicot.
From Elfi Require Import Gen.C20_Transforms Proofs.C20_Transforms Num.Bsl Proofs.C20_Mh.
Import ListNotations.
Local Open Scope R_scope.

(** ---- bound types ---- *)
Inductive bty := T0 | T1 | T2 | T3.   (* both finite | upper only | lower only | unbounded *)

Definition trans_of (t : bty) := match t with T0 => trans0 | T1 => trans1 | T2 => trans2 | T3 => trans3 end.
Definition back_of (t : bty) := match t with T0 => back0 | T1 => back1 | T2 => back2 | T3 => back3 end.
Definition logJ_of (t : bty) := match t with T0 => logJ0 | T1 => logJ1 | T2 => logJ2 | T3 => logJ3 end.

(** the bounds that exist for a type are real numbers; two-sided bounds are ordered *)
Definition wf (t : bty) (a b : R) : Prop := match t with T0 => a < b | _ => True end.
Definition inside (t : bty) (a b x : R) : Prop :=
  match t with T0 => a < x < b | T1 => x < b | T2 => a < x | T3 => True end.

Theorem back_trans t a b x : inside t a b x -> back_of t a b (trans_of t a b x) = x.
Proof.
  destruct t; cbn; intros H; [apply inv0 | apply inv1 | apply inv2 | apply inv3]; exact H.
Qed.

Theorem trans_back t a b y : wf t a b -> trans_of t a b (back_of t a b y) = y.
Proof.
  destruct t; cbn; intros H; [apply vni0; exact H | apply vni1 | apply vni2 | reflexivity].
Qed.

Theorem back_inside t a b y : wf t a b -> inside t a b (back_of t a b y).
Proof.
  destruct t; cbn; intros H; [apply range0; exact H | apply range1 | apply range2 | exact I].
Qed.

Theorem logJ_is_log_derivative t a b y : wf t a b -> is_derive (back_of t a b) y (exp (logJ_of t a b y)).
Proof.
  destruct t; cbn; intros H; [apply der0; exact H | apply der1 | apply der2 | apply der3].
Qed.

Corollary Derive_back t a b y : wf t a b -> Derive (back_of t a b) y = exp (logJ_of t a b y).
Proof. intros H. apply is_derive_unique. apply logJ_is_log_derivative. exact H. Qed.

Corollary Derive_back_pos t a b y : wf t a b -> 0 < Derive (back_of t a b) y.
Proof. intros H. rewrite Derive_back by exact H. apply exp_pos. Qed.

(** ---- parameter vectors: [J = np.sum(logJ)] and the determinant of the (diagonal) Jacobian ---- *)
Definition coord := (bty * R * R)%type.
Definition wfc (c : coord) : Prop := let '(t, a, b) := c in wf t a b.

Fixpoint sum_logJ (cs : list coord) (ys : list R) : R :=
  match cs, ys with
  | (t, a, b) :: cs', y :: ys' => logJ_of t a b y + sum_logJ cs' ys'
  | _, _ => 0
  end.

Fixpoint jac_det (cs : list coord) (ys : list R) : R :=
  match cs, ys with
  | (t, a, b) :: cs', y :: ys' => Derive (back_of t a b) y * jac_det cs' ys'
  | _, _ => 1
  end.

Theorem exp_sum_logJ : forall cs ys, List.Forall wfc cs -> exp (sum_logJ cs ys) = jac_det cs ys.
Proof.
  induction cs as [|[[t a] b] cs IH]; intros ys H; cbn.
  - apply exp_0.
  - destruct ys as [|y ys]; [apply exp_0|].
    inversion H as [|c l Hc Hl]; subst. rewrite exp_plus, (IH ys Hl), (Derive_back t a b y Hc). reflexivity.
Qed.

Corollary jac_det_pos cs ys : List.Forall wfc cs -> 0 < jac_det cs ys.
Proof. intros H. rewrite <- exp_sum_logJ by exact H. apply exp_pos. Qed.

(** exp of what [_get_mh_ratio] adds up = posterior ratio times the ratio of the transform's Jacobians
    at the proposed ([ys']) and current ([ys]) transformed points *)
Theorem mh_ratio_change_of_variables : forall cs ys' ys lpost_new lpost_old,
  List.Forall wfc cs ->
  exp (sum_logJ cs ys' - sum_logJ cs ys + lpost_new - lpost_old)
  = (exp lpost_new * jac_det cs ys') / (exp lpost_old * jac_det cs ys).
Proof.
  intros cs ys' ys ln lo H.
  pose proof (jac_det_pos cs ys H) as Hp. pose proof (exp_pos lo) as He.
  replace (sum_logJ cs ys' - sum_logJ cs ys + ln - lo) with ((ln + sum_logJ cs ys') + - (lo + sum_logJ cs ys)) by ring.
  rewrite exp_plus, exp_Ropp, !exp_plus, !(exp_sum_logJ _ _ H). field. split; lra.
Qed.

(** ---- the clip ---- *)
Definition clipR (r : R) : R := Rmax (-700) (Rmin 700 r).

(** the acceptance probability as coded, over the reals *)
Definition accept_prob_R (r : R) : R := Rmin 1 (exp (clipR r)).

Lemma exp_ge_1 x : 0 <= x -> 1 <= exp x.
Proof.
  intros [H | <-]; [|rewrite exp_0; lra]. left. rewrite <- exp_0. apply exp_increasing. exact H.
Qed.

Theorem accept_prob_clip_exact r : -700 <= r -> accept_prob_R r = Rmin 1 (exp r).
Proof.
  intros Hlo. unfold accept_prob_R, clipR.
  destruct (Rle_dec r 700) as [Hhi | Hhi].
  - rewrite (Rmin_right 700 r Hhi), Rmax_right by exact Hlo. reflexivity.
  - assert (H7 : 700 <= r) by lra. rewrite (Rmin_left 700 r H7), Rmax_right by lra.
    rewrite !Rmin_left; [reflexivity | apply exp_ge_1; lra | apply exp_ge_1; lra].
Qed.

Theorem accept_prob_clip_bound r : Rabs (accept_prob_R r - Rmin 1 (exp r)) <= exp (-700).
Proof.
  destruct (Rle_dec (-700) r) as [Hlo | Hlo].
  - rewrite accept_prob_clip_exact by exact Hlo. rewrite Rminus_eq_0, Rabs_R0. left. apply exp_pos.
  - assert (Hr : r < -700) by lra. unfold accept_prob_R, clipR.
    rewrite (Rmin_right 700 r) by lra. rewrite Rmax_left by lra.
    assert (H1 : exp r < exp (-700)) by (apply exp_increasing; exact Hr).
    assert (H2 : exp (-700) < 1) by (rewrite <- exp_0; apply exp_increasing; lra).
    pose proof (exp_pos r) as H3.
    rewrite !Rmin_right by lra. rewrite Rabs_pos_eq by lra. lra.
Qed.

(** the rational clip of the model is the real clip *)
Lemma Q2R_700 : Q2R 700 = 700.
Proof. unfold Q2R. cbn. lra. Qed.
Lemma Q2R_m700 : Q2R (-700) = -700.
Proof. unfold Q2R. cbn. lra. Qed.

Theorem clip700_real q : Q2R (clip700 q) = clipR (Q2R q).
Proof.
  unfold clip700, clipR.
  destruct (Qltb 700 q) eqn:E1; cbn zeta.
  - apply Qltb_true in E1. apply Qlt_Rlt in E1. rewrite Q2R_700 in E1.
    replace (Qltb 700 (-700)) with false by reflexivity.
    rewrite Q2R_700, Rmin_left, Rmax_right by lra. reflexivity.
  - apply Qltb_false in E1. apply Qle_Rle in E1. rewrite Q2R_700 in E1.
    rewrite (Rmin_right 700 _ E1).
    destruct (Qltb q (-700)) eqn:E2.
    + apply Qltb_true in E2. apply Qlt_Rlt in E2. rewrite Q2R_m700 in *. rewrite Rmax_left by lra. reflexivity.
    + apply Qltb_false in E2. apply Qle_Rle in E2. rewrite Q2R_m700 in E2. rewrite Rmax_right by lra. reflexivity.
Qed.

(** the acceptance probability of the step, for a log-ratio that needs no clipping from below:
    min(1, posterior ratio x Jacobian ratio) *)
Theorem accept_prob_is_stated_formula : forall cs ys' ys lpost_new lpost_old,
  List.Forall wfc cs ->
  -700 <= sum_logJ cs ys' - sum_logJ cs ys + lpost_new - lpost_old ->
  accept_prob_R (sum_logJ cs ys' - sum_logJ cs ys + lpost_new - lpost_old)
  = Rmin 1 ((exp lpost_new * jac_det cs ys') / (exp lpost_old * jac_det cs ys)).
Proof.
  intros cs ys' ys ln lo H Hlo. rewrite accept_prob_clip_exact by exact Hlo.
  rewrite mh_ratio_change_of_variables by exact H. reflexivity.
Qed.
