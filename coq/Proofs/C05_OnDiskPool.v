(** C05 on disk, whole pool: the lift of Proofs/C05_OnDisk.v (ONE on-disk ArrayPool store behaves as
    ONE store of Store/Pool.v) through [get_batch] / [add_batch] over the [stores] map of a [pool] and
    through [run_batches].

    - a disk pool: store name |-> state of its on-disk store (the (mem, file, oracle position) of
      Store/Npy.v), every store with the pool's batch size [bs]; [ds_good]: the state is one the
      store object can be in (reached from a new store by a well-formed history);
    - abstraction [abs_pool] to a [Pool.pool]: per store, the list of batches the store reports
      ([view]) through [store_of_batches (enc n)]; a store that holds no batch abstracts to [None]
      (the store object OutputPool has not created yet: this makes the empty disk pool abstract to
      EXACTLY the initial pool of [Pool.agree]; [get_batch] cannot tell [None] from [Some []] and
      [add_to_store] gives the same result on both);
    - [disk_get_batch] / [disk_add_batch]: store-wise [PGet i] / [PAdd i b] of C05_OnDisk.v;
    - [disk_get_batch_abs], [disk_add_batch_abs]: the two operations commute with the abstraction;
      [disk_add_batch_abs] needs the contiguity condition [i <= number of batches held] for every
      store that receives a batch ([step_contig]); without it the two models DIFFER
      ([gap_counterexample]);
    - [run_batches_disk]: [Pool.run_batches] threading a disk pool; [run_batches_disk_abs]: the
      diagram commutes for any batch indices under [step_contig] + representability of the stored
      values at every step; [contig_along_run]: for indices k, k+1, ... the contiguity condition
      holds at every step by itself, from ANY reachable disk pool when k = 0 (so also for later runs
      and after flush / close+open of all stores: [run_batches_disk_two_runs]);
    - [run_batches_disk_from_empty]: the commuting diagram along a run over 0, 1, ..., n-1 from the
      empty pool. *)
From Coq Require Import List String NArith ZArith Arith Bool Lia Permutation.
From Elfi Require Import Base.StrOrder Graph.Net Store.Layout Store.Pool Proofs.C03_Exec Proofs.C05_Pool
  Proofs.C05_Cache Proofs.C03_Ancestors Store.Npy Proofs.C06_Npy Proofs.C05_OnDisk.
Import ListNotations.

(** small facts on association lists *)
Lemma lookup_Some_In_fst {A} n (l : list (name * A)) v : lookup n l = Some v -> In n (map fst l).
Proof.
  induction l as [|[m a] r IH]; simpl; [discriminate|].
  destruct (String.eqb_spec n m) as [->|_]; [now left | intros H; right; now apply IH].
Qed.

Lemma lookup_None_notin {A} n (l : list (name * A)) : lookup n l = None -> ~ In n (map fst l).
Proof.
  induction l as [|[m a] r IH]; simpl; [tauto|].
  destruct (String.eqb_spec n m) as [->|Hne]; [discriminate|]. intros H [E|E]; [now subst | now apply IH].
Qed.

Definition map_res {A B} (f : A -> B) (r : res A) : res B :=
  match r with Ok a => Ok (f a) | Err e => Err e end.

Section DiskPool.
Variable bs : nat.
Hypothesis Hbs : 0 < bs.
Variable orc : name -> oracle.            (* per store: when the OS writes buffered data back *)
Variable enc : name -> batch -> value.    (* per stored node: the value a batch of rows stands for *)

(** ---- one on-disk store ---- *)
Record dstore := { ds_mem : Npy.mem; ds_file : file; ds_tick : nat }.

Definition ds_of (x : Npy.mem * file * nat) : dstore :=
  let '(m, f, i) := x in {| ds_mem := m; ds_file := f; ds_tick := i |}.

(** the store ArrayPool creates on first use *)
Definition ds_new : dstore := {| ds_mem := fresh_mem; ds_file := empty_file; ds_tick := 1 |}.

(** pool operations on the store ([pool_run] of C05_OnDisk.v) *)
Definition ds_run (n : name) (d : dstore) (ps : list pop) : dstore :=
  ds_of (pool_run bs (orc n) (ds_tick d) (ds_mem d) (ds_file d) ps).

(** what the loader reads for batch k *)
Definition ds_get (d : dstore) (k : nat) : option batch := disk_get bs (ds_mem d) (ds_file d) k.

(** the batches the store reports *)
Definition ds_batches (d : dstore) : list batch :=
  match snd (view bs (ds_mem d) (ds_file d)) with Some l => l | None => [] end.

(** a state the store object can be in *)
Definition ds_good (n : name) (d : dstore) : Prop :=
  exists pre, wf bs pre /\ start current bs (orc n) pre = (ds_mem d, ds_file d, ds_tick d).

Lemma ds_good_new n : ds_good n ds_new.
Proof. exists []. split; [constructor | reflexivity]. Qed.

Lemma ds_good_view n d : ds_good n d ->
  view bs (ds_mem d) (ds_file d) = (List.length (ds_batches d), Some (ds_batches d)).
Proof.
  intros (pre & W & E). pose proof (refinement bs (orc n) pre Hbs W _ _ _ E) as V.
  unfold ds_batches. rewrite V. reflexivity.
Qed.

Lemma ds_get_good n d k : ds_good n d -> ds_get d k = nth_error (ds_batches d) k.
Proof. intros G. unfold ds_get. apply disk_get_view. now apply (ds_good_view n). Qed.

(** pool operations keep the store reachable and act on the reported batches as [disk_step] *)
Lemma ds_run_good n d ps : ds_good n d -> wfpool bs ps ->
  ds_good n (ds_run n d ps) /\ ds_batches (ds_run n d ps) = fold_left disk_step ps (ds_batches d).
Proof.
  intros (pre & W & E) Wp.
  assert (B : ds_batches d = spec pre).
  { unfold ds_batches. rewrite (refinement bs (orc n) pre Hbs W _ _ _ E). reflexivity. }
  pose proof (pool_run_history bs (orc n) ps Hbs Wp pre _ _ _ W E) as H.
  unfold ds_run. rewrite H.
  assert (W' : wf bs (pre ++ compile (spec pre) ps)).
  { apply Forall_app. split; [exact W | now apply wf_compile]. }
  destruct (start current bs (orc n) (pre ++ compile (spec pre) ps)) as [[m' f'] i'] eqn:E'.
  split.
  - exists (pre ++ compile (spec pre) ps). split; [exact W' | exact E'].
  - rewrite B. unfold ds_batches. cbn [ds_of ds_mem ds_file].
    rewrite (refinement bs (orc n) _ Hbs W' _ _ _ E'). cbn [snd].
    unfold spec at 1. rewrite fold_left_app. fold (spec pre). now rewrite compile_spec.
Qed.

(** ---- the abstraction of one store ---- *)
Definition abs_store (n : name) (L : list batch) : store :=
  match L with [] => None | _ => store_of_batches (enc n) L end.

Lemma abs_store_nonempty n L : L <> [] -> abs_store n L = store_of_batches (enc n) L.
Proof. destruct L; [congruence | reflexivity]. Qed.

Lemma abs_store_get n L i : store_get (abs_store n L) i = option_map (enc n) (nth_error L i).
Proof.
  destruct L as [|a r]; [now destruct i|]. rewrite abs_store_nonempty by discriminate. apply store_reads.
Qed.

(** [PAdd i b] at a contiguous index is [add_to_store] *)
Lemma abs_store_add n L i b : i <= List.length L ->
  abs_store n (disk_step L (PAdd i b)) = add_to_store (abs_store n L) i (enc n b).
Proof.
  intros H. cbn [disk_step]. destruct (Nat.eqb_spec i (List.length L)) as [->|Hne].
  - destruct L as [|a r]; [reflexivity|].
    rewrite !abs_store_nonempty by (try discriminate; destruct r; discriminate). apply store_append.
  - assert (L <> []) by (destruct L; [simpl in *; lia | discriminate]).
    rewrite abs_store_nonempty by assumption. symmetry. apply store_held. lia.
Qed.

(** ---- the disk pool ---- *)
Record dpool := { dp_stores : list (name * dstore); dp_batch_size : option nat; dp_seed : option Z }.

Definition dp_good (dp : dpool) : Prop := forall n d, In (n, d) (dp_stores dp) -> ds_good n d.

Definition abs_stores (l : list (name * dstore)) : list (name * store) :=
  map (fun nd : name * dstore => (fst nd, abs_store (fst nd) (ds_batches (snd nd)))) l.

Definition abs_pool (dp : dpool) : pool :=
  {| stores := abs_stores (dp_stores dp); pl_batch_size := dp_batch_size dp; pl_seed := dp_seed dp |}.

(** ArrayPool(outputs): no store object exists yet *)
Definition empty_dpool (keys : list name) : dpool :=
  {| dp_stores := map (fun n => (n, ds_new)) keys; dp_batch_size := None; dp_seed := None |}.

Lemma ds_batches_new : ds_batches ds_new = [].
Proof. reflexivity. Qed.

Lemma empty_dpool_abs keys :
  abs_pool (empty_dpool keys) = {| stores := map (fun n => (n, None)) keys; pl_batch_size := None; pl_seed := None |}.
Proof. unfold abs_pool, abs_stores, empty_dpool. cbn [dp_stores dp_batch_size dp_seed]. now rewrite map_map. Qed.

Lemma empty_dpool_good keys : dp_good (empty_dpool keys).
Proof.
  intros n d H. apply in_map_iff in H. destruct H as (k & E & _). inversion E; subst. apply ds_good_new.
Qed.

(** the same pool operations on every store *)
Definition dp_all (dp : dpool) (ps : list pop) : dpool :=
  {| dp_stores := map (fun nd : name * dstore => (fst nd, ds_run (fst nd) (snd nd) ps)) (dp_stores dp);
     dp_batch_size := dp_batch_size dp; dp_seed := dp_seed dp |}.

(** operations that add nothing: get_batch, flush, close+open, pickle *)
Definition neutral (ps : list pop) : Prop := Forall (fun p => match p with PAdd _ _ => False | _ => True end) ps.

Lemma neutral_wf ps : neutral ps -> wfpool bs ps.
Proof. apply Forall_impl. now intros [k b|k| | |]. Qed.

Lemma neutral_step ps : neutral ps -> forall L, fold_left disk_step ps L = L.
Proof. induction 1 as [|p r Hp _ IH]; intros L; simpl; [reflexivity|]. rewrite IH. now destruct p. Qed.

Lemma dp_all_neutral dp ps : dp_good dp -> neutral ps ->
  dp_good (dp_all dp ps)
  /\ abs_pool (dp_all dp ps) = abs_pool dp
  /\ (forall n d', In (n, d') (dp_stores (dp_all dp ps)) ->
        exists d, In (n, d) (dp_stores dp) /\ ds_batches d' = ds_batches d).
Proof.
  intros G N. split; [|split].
  - intros n d' H. cbn [dp_all dp_stores] in H. apply in_map_iff in H. destruct H as ([n0 d] & E & Hin).
    inversion E; subst. cbn [fst snd]. apply ds_run_good; [now apply G | now apply neutral_wf].
  - unfold abs_pool, abs_stores. cbn [dp_all dp_stores dp_batch_size dp_seed]. f_equal.
    rewrite map_map. apply map_ext_in. intros [n d] Hin. cbn [fst snd]. f_equal. f_equal.
    rewrite (proj2 (ds_run_good n d ps (G _ _ Hin) (neutral_wf _ N))). now apply neutral_step.
  - intros n d' H. cbn [dp_all dp_stores] in H. apply in_map_iff in H. destruct H as ([n0 d] & E & Hin).
    inversion E; subst. cbn [fst snd]. exists d. split; [exact Hin|].
    rewrite (proj2 (ds_run_good _ d ps (G _ _ Hin) (neutral_wf _ N))). now apply neutral_step.
Qed.

(** OutputPool.get_batch over the disk pool: every store is asked ([PGet i]: [i in store], then
    [store[i]]); the result is the pool after the reads and what was read *)
Definition disk_get_batch (dp : dpool) (i : nat) : dpool * list (name * option batch) :=
  (dp_all dp [PGet i], map (fun nd : name * dstore => (fst nd, ds_get (snd nd) i)) (dp_stores dp)).

(** ... in the shape the PoolLoader consumes *)
Definition disk_loaded (dp : dpool) (i : nat) : list (name * option value) :=
  map (fun nb : name * option batch => (fst nb, option_map (enc (fst nb)) (snd nb))) (snd (disk_get_batch dp i)).

(** (2) what the loader reads from the disk pool for batch i is [Pool.get_batch] of the abstraction,
    for every i (a store that does not hold i gives [None] on both sides); the reads leave the
    abstraction unchanged *)
Theorem disk_get_batch_abs dp i : dp_good dp ->
  disk_loaded dp i = Pool.get_batch (abs_pool dp) i
  /\ abs_pool (fst (disk_get_batch dp i)) = abs_pool dp
  /\ dp_good (fst (disk_get_batch dp i)).
Proof.
  intros G. assert (N : neutral [PGet i]) by (repeat constructor).
  destruct (dp_all_neutral dp [PGet i] G N) as (G1 & A1 & _).
  split; [|split; [exact A1 | exact G1]].
  unfold disk_loaded, disk_get_batch, Pool.get_batch, abs_pool, abs_stores. cbn [snd stores].
  rewrite !map_map. apply map_ext_in. intros [n d] Hin. cbn [fst snd]. f_equal.
  rewrite (ds_get_good n d i (G _ _ Hin)). symmetry. apply (abs_store_get n (ds_batches d) i).
Qed.

(** OutputPool.add_batch over the disk pool: [PAdd i b] on every store the batch has a value for *)
Definition disk_add_with (fd : name -> option batch) (dp : dpool) (i : nat) : dpool :=
  {| dp_stores := map (fun nd : name * dstore =>
                         match fd (fst nd) with
                         | Some b => (fst nd, ds_run (fst nd) (snd nd) [PAdd i b])
                         | None => nd
                         end) (dp_stores dp);
     dp_batch_size := dp_batch_size dp; dp_seed := dp_seed dp |}.

Definition disk_add_batch (dp : dpool) (dout : list (name * batch)) (i : nat) : dpool :=
  disk_add_with (fun n => lookup n dout) dp i.

Definition enc_out (dout : list (name * batch)) : list (name * value) :=
  map (fun nb : name * batch => (fst nb, enc (fst nb) (snd nb))) dout.

Lemma lookup_enc_out n dout : lookup n (enc_out dout) = option_map (enc n) (lookup n dout).
Proof.
  induction dout as [|[m b] r IH]; simpl; [reflexivity|].
  destruct (String.eqb_spec n m) as [->|_]; [reflexivity | exact IH].
Qed.

Lemma disk_add_with_abs fd fv dp i : dp_good dp ->
  (forall n d, In (n, d) (dp_stores dp) ->
     match fd n with
     | Some b => fv n = Some (enc n b) /\ List.length b = bs /\ i <= List.length (ds_batches d)
     | None => fv n = None
     end) ->
  abs_pool (disk_add_with fd dp i)
  = {| stores := map (fun ns : name * store =>
                        match fv (fst ns) with
                        | Some v => (fst ns, add_to_store (snd ns) i v)
                        | None => ns
                        end) (stores (abs_pool dp));
       pl_batch_size := pl_batch_size (abs_pool dp); pl_seed := pl_seed (abs_pool dp) |}
  /\ dp_good (disk_add_with fd dp i).
Proof.
  intros G H. split.
  - unfold abs_pool, abs_stores, disk_add_with. cbn [dp_stores dp_batch_size dp_seed stores pl_batch_size pl_seed].
    f_equal. rewrite !map_map. apply map_ext_in. intros [n d] Hin. cbn [fst snd].
    specialize (H n d Hin). destruct (fd n) as [b|].
    + destruct H as (-> & Hl & Hi). cbn [fst snd]. f_equal.
      assert (Wp : wfpool bs [PAdd i b]) by (constructor; [exact Hl | constructor]).
      rewrite (proj2 (ds_run_good n d _ (G _ _ Hin) Wp)). cbn [fold_left]. now apply abs_store_add.
    + rewrite H. reflexivity.
  - intros n d' Hin. cbn [disk_add_with dp_stores] in Hin. apply in_map_iff in Hin.
    destruct Hin as ([n0 d] & E & Hin). specialize (H n0 d Hin). cbn [fst snd] in E.
    destruct (fd n0) as [b|].
    + inversion E; subst. destruct H as (_ & Hl & _).
      apply ds_run_good; [now apply G | constructor; [exact Hl | constructor]].
    + inversion E; subst. now apply G.
Qed.

(** the contiguity condition of [add_batch] at index i: every store that receives a batch holds the
    batches 0 .. i-1 (it holds i already, or i is its next index) *)
Definition add_contig (dp : dpool) (dout : list (name * batch)) (i : nat) : Prop :=
  forall n d b, In (n, d) (dp_stores dp) -> lookup n dout = Some b -> i <= List.length (ds_batches d).

Definition add_sized (dp : dpool) (dout : list (name * batch)) : Prop :=
  forall n d b, In (n, d) (dp_stores dp) -> lookup n dout = Some b -> List.length b = bs.

(** (3) add_batch commutes with the abstraction at a contiguous index *)
Theorem disk_add_batch_abs dp dout i : dp_good dp -> add_sized dp dout -> add_contig dp dout i ->
  abs_pool (disk_add_batch dp dout i) = Pool.add_batch (abs_pool dp) (enc_out dout) i
  /\ dp_good (disk_add_batch dp dout i).
Proof.
  intros G S C. unfold disk_add_batch, Pool.add_batch.
  apply (disk_add_with_abs (fun n => lookup n dout) (fun n => lookup n (enc_out dout)) dp i G).
  intros n d Hin. rewrite lookup_enc_out. destruct (lookup n dout) as [b|] eqn:E; [|reflexivity].
  split; [reflexivity|]. split; [exact (S n d b Hin E) | exact (C n d b Hin E)].
Qed.

(** lengths after add_batch *)
Lemma disk_add_with_batches fd dp i n d' : dp_good dp ->
  (forall n d b, In (n, d) (dp_stores dp) -> fd n = Some b -> List.length b = bs) ->
  In (n, d') (dp_stores (disk_add_with fd dp i)) ->
  exists d, In (n, d) (dp_stores dp) /\
    ds_batches d' = match fd n with Some b => disk_step (ds_batches d) (PAdd i b) | None => ds_batches d end.
Proof.
  intros G S Hin. cbn [disk_add_with dp_stores] in Hin. apply in_map_iff in Hin.
  destruct Hin as ([n0 d] & E & Hin). cbn [fst snd] in E. destruct (fd n0) as [b|] eqn:Ef.
  - inversion E; subst. exists d. split; [exact Hin|]. rewrite Ef.
    assert (Wp : wfpool bs [PAdd i b]) by (constructor; [exact (S _ _ _ Hin Ef) | constructor]).
    now rewrite (proj2 (ds_run_good n d _ (G _ _ Hin) Wp)).
  - inversion E; subst. exists d'. split; [exact Hin|]. now rewrite Ef.
Qed.


(** ---- a run over the disk pool ---- *)
(** the executor computes symbolic values; [dec n v] = the rows ArrayPool writes for value [v] of
    stored node [n] *)
Variable dec : name -> value -> batch.

Definition disk_add_out (dp : dpool) (out : list (name * value)) (i : nat) : dpool :=
  disk_add_with (fun n => option_map (dec n) (lookup n out)) dp i.

(** every value a store receives is a batch of [bs] rows *)
Definition step_repr (dp : dpool) (out : list (name * value)) : Prop :=
  forall n d v, In (n, d) (dp_stores dp) -> lookup n out = Some v ->
    enc n (dec n v) = v /\ List.length (dec n v) = bs.

(** contiguity at batch i: every store that receives a value holds batches 0 .. i-1 *)
Definition step_contig (dp : dpool) (out : list (name * value)) (i : nat) : Prop :=
  forall n d v, In (n, d) (dp_stores dp) -> lookup n out = Some v -> i <= List.length (ds_batches d).

Lemma disk_add_out_abs dp out i : dp_good dp -> step_repr dp out -> step_contig dp out i ->
  abs_pool (disk_add_out dp out i) = Pool.add_batch (abs_pool dp) out i /\ dp_good (disk_add_out dp out i).
Proof.
  intros G R C. unfold disk_add_out, Pool.add_batch.
  apply (disk_add_with_abs (fun n => option_map (dec n) (lookup n out)) (fun n => lookup n out) dp i G).
  intros n d Hin. destruct (lookup n out) as [v|] eqn:E; cbn [option_map]; [|reflexivity].
  destruct (R n d v Hin E) as [Re Rl]. split; [now rewrite Re|]. split; [exact Rl | exact (C n d v Hin E)].
Qed.

Record drun_state := { dr_net : cnet; dr_pool : dpool; dr_cache : ecache }.

Definition abs_state (ds : drun_state) : run_state :=
  {| rs_net := dr_net ds; rs_pool := abs_pool (dr_pool ds); rs_cache := dr_cache ds |}.

(** [Pool.step_batch] over the disk pool: the loader reads every store, the net runs, the callback
    adds the outputs to the stores *)
Definition step_batch_disk (ds : drun_state) (i : nat)
  : res (drun_state * list (name * value) * list name) :=
  let lg := load (disk_loaded (dr_pool ds) i) (dr_net ds) in
  do r <- execute lg (dr_cache ds);
  let '(out, log, cache') := r in
  let net' := {| c_nodes := c_nodes (dr_net ds); c_edges := c_edges (dr_net ds);
                 c_outputs := c_outputs lg; c_observed := c_observed (dr_net ds) |} in
  Ok ({| dr_net := net'; dr_pool := disk_add_out (fst (disk_get_batch (dr_pool ds) i)) out i;
         dr_cache := cache' |}, out, log).

Fixpoint run_batches_disk (ds : drun_state) (idxs : list nat)
  : res (drun_state * list (list (name * value) * list name)) :=
  match idxs with
  | [] => Ok (ds, [])
  | i :: r =>
      do x <- step_batch_disk ds i;
      let '(s1, out, log) := x in
      do y <- run_batches_disk s1 r;
      let '(s2, rest) := y in
      Ok (s2, (out, log) :: rest)
  end.

Definition abs_run (x : drun_state * list (list (name * value) * list name)) :=
  (abs_state (fst x), snd x).

(** a condition on every step of the disk run *)
Fixpoint run_all (P : dpool -> list (name * value) -> nat -> Prop) (ds : drun_state) (idxs : list nat) : Prop :=
  match idxs with
  | [] => True
  | i :: r => match step_batch_disk ds i with
              | Ok (ds1, out, _) => P (dr_pool ds) out i /\ run_all P ds1 r
              | Err _ => True
              end
  end.

Definition repr_at (dp : dpool) (out : list (name * value)) (_ : nat) : Prop := step_repr dp out.
Definition ok_at (dp : dpool) (out : list (name * value)) (i : nat) : Prop :=
  step_repr dp out /\ step_contig dp out i.

Lemma step_batch_disk_ok ds i ds1 out log : dp_good (dr_pool ds) ->
  step_batch_disk ds i = Ok (ds1, out, log) -> step_repr (dr_pool ds) out -> step_contig (dr_pool ds) out i ->
  dp_good (dr_pool ds1) /\ step_batch (abs_state ds) i = Ok (abs_state ds1, out, log).
Proof.
  intros G E R C. destruct (disk_get_batch_abs (dr_pool ds) i G) as (L1 & A1 & G1).
  destruct (dp_all_neutral (dr_pool ds) [PGet i] G) as (_ & _ & B1); [repeat constructor|].
  unfold step_batch_disk in E. unfold step_batch. cbn [abs_state rs_net rs_pool rs_cache]. rewrite <- L1.
  destruct (execute (load (disk_loaded (dr_pool ds) i) (dr_net ds)) (dr_cache ds)) as [[[out0 log0] c0]|e];
    cbn [bind] in E; [|discriminate].
  inversion E; subst; clear E. cbn [bind dr_pool].
  assert (R1 : step_repr (fst (disk_get_batch (dr_pool ds) i)) out).
  { intros n d' v Hin Hl. destruct (B1 n d' Hin) as (d & Hd & _). exact (R n d v Hd Hl). }
  assert (C1 : step_contig (fst (disk_get_batch (dr_pool ds) i)) out i).
  { intros n d' v Hin Hl. destruct (B1 n d' Hin) as (d & Hd & ->). exact (C n d v Hd Hl). }
  destruct (disk_add_out_abs _ out i G1 R1 C1) as (A2 & G2). split; [exact G2|].
  unfold abs_state. cbn [dr_net dr_pool dr_cache]. rewrite <- A1, <- A2. reflexivity.
Qed.

Lemma step_batch_disk_err ds i e : dp_good (dr_pool ds) ->
  step_batch_disk ds i = Err e -> step_batch (abs_state ds) i = Err e.
Proof.
  intros G E. destruct (disk_get_batch_abs (dr_pool ds) i G) as (L1 & _ & _).
  unfold step_batch_disk in E. unfold step_batch. cbn [abs_state rs_net rs_pool rs_cache]. rewrite <- L1.
  destruct (execute (load (disk_loaded (dr_pool ds) i) (dr_net ds)) (dr_cache ds)) as [[[out0 log0] c0]|e0];
    cbn [bind] in E; [discriminate|]. inversion E; subst. reflexivity.
Qed.

(** (4) the commuting diagram along a run, any batch indices: when at every step the values stored
    are batches of [bs] rows and the index is contiguous for every store that receives a value, the
    disk run and the run of Pool.v succeed or fail together, with the same outputs and call logs,
    and the final disk pool abstracts to the final pool *)
Theorem run_batches_disk_abs : forall idxs ds, dp_good (dr_pool ds) -> run_all ok_at ds idxs ->
  map_res abs_run (run_batches_disk ds idxs) = run_batches (abs_state ds) idxs.
Proof.
  induction idxs as [|i r IH]; intros ds G H; [reflexivity|].
  cbn [run_batches_disk run_batches run_all] in *.
  destruct (step_batch_disk ds i) as [[[ds1 out] log]|e] eqn:E.
  - destruct H as [[R C] Hr]. destruct (step_batch_disk_ok ds i ds1 out log G E R C) as [G1 ->].
    cbn [bind]. specialize (IH ds1 G1 Hr).
    destruct (run_batches_disk ds1 r) as [[ds2 rest]|e2]; cbn [map_res] in IH; rewrite <- IH; reflexivity.
  - rewrite (step_batch_disk_err ds i e G E). reflexivity.
Qed.

(** ---- contiguity holds by itself along a run over k, k+1, ... ---- *)
(** every store of a node of the net, or of a node in the handler's output set, holds 0 .. k-1 *)
Definition part_inv (ds : drun_state) (k : nat) : Prop :=
  forall n d, In (n, d) (dp_stores (dr_pool ds)) ->
    has n (c_nodes (dr_net ds)) = true \/ In n (c_outputs (dr_net ds)) -> k <= List.length (ds_batches d).

Lemma so_outputs n v b g : c_outputs (set_output n v b g) = c_outputs g.
Proof. unfold set_output. destruct (lookup n (c_nodes g)); reflexivity. Qed.

Lemma load_observed_outputs g : c_outputs (load_observed g) = c_outputs g.
Proof.
  unfold load_observed. generalize (c_observed g) at 1. intros obs. revert g.
  induction obs as [|[k v] r IH]; intros g; simpl; [reflexivity|]. rewrite IH. apply so_outputs.
Qed.

Lemma base_outputs g : c_outputs (load_runtime (load_observed g)) = c_outputs g.
Proof. unfold load_runtime. now rewrite !so_outputs, load_observed_outputs. Qed.

Lemma base_has n g : has n (c_nodes (load_runtime (load_observed g))) = has n (c_nodes g).
Proof. now rewrite has_load_runtime, has_load_observed. Qed.

Lemma load_pool_outputs_only_has : forall pool g x,
  In x (c_outputs (load_pool pool g)) -> In x (c_outputs g) \/ (In (x, None) pool /\ has x (c_nodes g) = true).
Proof.
  induction pool as [|[k ov] r IH]; intros g x Hx; [now left|].
  rewrite load_pool_cons in Hx. apply IH in Hx. destruct Hx as [Hx|[Hx Hh]].
  - unfold C05_Cache.pool_step in Hx. cbn [fst snd] in Hx. destruct (has k (c_nodes g)) eqn:Ek; [|now left].
    destruct ov as [v|].
    + left. now rewrite so_outputs in Hx.
    + destruct (Net.mem k (c_outputs g)); [now left|]. simpl in Hx. apply in_app_iff in Hx.
      destruct Hx as [Hx|[<-|[]]]; [now left | right; split; [now left | exact Ek]].
  - right. split; [now right|]. now rewrite pool_step_has in Hh.
Qed.

Lemma step_contig_inv ds k ds1 out log : dp_good (dr_pool ds) -> CacheOK (dr_cache ds) -> part_inv ds k ->
  step_batch_disk ds k = Ok (ds1, out, log) -> step_repr (dr_pool ds) out ->
  step_contig (dr_pool ds) out k /\ CacheOK (dr_cache ds1) /\ part_inv ds1 (S k).
Proof.
  intros G Hc PI E R.
  destruct (disk_get_batch_abs (dr_pool ds) k G) as (_ & _ & G1).
  destruct (dp_all_neutral (dr_pool ds) [PGet k] G) as (_ & _ & B1); [repeat constructor|].
  unfold step_batch_disk in E.
  set (P := disk_loaded (dr_pool ds) k) in *. set (lg := load P (dr_net ds)) in *.
  destruct (execute lg (dr_cache ds)) as [[[out0 log0] c0]|e] eqn:Ee; cbn [bind] in E; [|discriminate].
  inversion E; subst out0 log0 ds1; clear E.
  destruct (execute_sound _ _ _ _ _ Hc Ee) as (_ & Hk & _ & _ & Hc' & _).
  assert (Hout : forall n, In n (map fst out) <-> In n (c_outputs lg)).
  { intros n. rewrite Hk. split; intros H.
    - apply (Permutation_in _ (sort_names_perm _)) in H. now apply dedup_names_In in H.
    - apply (Permutation_in _ (Permutation_sym (sort_names_perm _))). now apply In_dedup_names. }
  assert (C : step_contig (dr_pool ds) out k).
  { intros n d v Hin Hl. apply (PI n d Hin). apply lookup_Some_In_fst in Hl. apply Hout in Hl.
    unfold lg, load in Hl. apply load_pool_outputs_only_has in Hl.
    destruct Hl as [Hl|[_ Hh]]; [right; now rewrite base_outputs in Hl | left; now rewrite base_has in Hh]. }
  split; [exact C|]. split; [exact Hc'|].
  intros n d1 Hin1 Hp. cbn [dr_pool dr_net c_nodes c_outputs] in Hin1, Hp.
  unfold disk_add_out in Hin1.
  assert (S1 : forall n d b, In (n, d) (dp_stores (fst (disk_get_batch (dr_pool ds) k))) ->
                option_map (dec n) (lookup n out) = Some b -> List.length b = bs).
  { intros n0 d0 b Hin0 Hb. destruct (B1 n0 d0 Hin0) as (d & Hd & _).
    destruct (lookup n0 out) as [v|] eqn:El; [|discriminate]. inversion Hb; subst.
    exact (proj2 (R n0 d v Hd El)). }
  destruct (disk_add_with_batches _ _ k n d1 G1 S1 Hin1) as (d0 & Hin0 & Hb).
  destruct (B1 n d0 Hin0) as (d & Hd & Ed). rewrite Ed in Hb. rewrite Hb.
  destruct (lookup n out) as [v|] eqn:El; cbn [option_map].
  - pose proof (C n d v Hd El) as Hle. cbn [disk_step].
    destruct (Nat.eqb_spec k (List.length (ds_batches d))); [rewrite app_length; simpl; lia | lia].
  - apply lookup_None_notin in El. assert (Hno : ~ In n (c_outputs lg)) by (intros X; apply El; now apply Hout).
    destruct Hp as [Hh|Ho]; [|contradiction].
    destruct (le_lt_dec (S k) (List.length (ds_batches d))) as [Hle|Hlt]; [exact Hle|]. exfalso. apply Hno.
    unfold lg, load. apply load_pool_missing_is_output; [|now rewrite base_has].
    unfold P, disk_loaded, disk_get_batch. cbn [snd]. rewrite map_map. apply in_map_iff. exists (n, d).
    split; [|exact Hd]. cbn [fst snd]. rewrite (ds_get_good n d k (G _ _ Hd)).
    rewrite (proj2 (nth_error_None (ds_batches d) k)) by lia. reflexivity.
Qed.

(** BatchHandler indices k, k+1, ...: the contiguity condition holds at every step, and the run
    ends in a reachable disk pool with a sound executor cache *)
Theorem contig_along_run : forall n k ds, dp_good (dr_pool ds) -> CacheOK (dr_cache ds) -> part_inv ds k ->
  run_all repr_at ds (seq k n) ->
  run_all ok_at ds (seq k n)
  /\ forall ds' obs, run_batches_disk ds (seq k n) = Ok (ds', obs) ->
       dp_good (dr_pool ds') /\ CacheOK (dr_cache ds').
Proof.
  induction n as [|n IH]; intros k ds G Hc PI H.
  - split; [exact I|]. intros ds' obs E. inversion E; subst. now split.
  - cbn [seq run_all run_batches_disk] in *.
    destruct (step_batch_disk ds k) as [[[ds1 out] log]|e] eqn:E; [|split; [exact I | discriminate]].
    destruct H as [R Hr]. destruct (step_contig_inv ds k ds1 out log G Hc PI E R) as (C & Hc1 & PI1).
    destruct (step_batch_disk_ok ds k ds1 out log G E R C) as [G1 _].
    destruct (IH (S k) ds1 G1 Hc1 PI1 Hr) as [Hok Hfin]. split; [split; [split; assumption | exact Hok]|].
    intros ds' obs E2. cbn [bind] in E2.
    destruct (run_batches_disk ds1 (seq (S k) n)) as [[ds2 rest]|e2]; cbn in E2; [|discriminate].
    inversion E2; subst. now apply (Hfin ds' rest).
Qed.

Lemma part_inv_zero ds : part_inv ds 0.
Proof. intros n d _ _. apply Nat.le_0_l. Qed.

(** ... so along a run over 0, 1, ..., n-1 from ANY reachable disk pool (gap-free by construction)
    the diagram commutes with representability as the only side condition *)
Theorem run_batches_disk_from_zero n ds : dp_good (dr_pool ds) -> CacheOK (dr_cache ds) ->
  run_all repr_at ds (seq 0 n) ->
  map_res abs_run (run_batches_disk ds (seq 0 n)) = run_batches (abs_state ds) (seq 0 n).
Proof.
  intros G Hc H. apply run_batches_disk_abs; [exact G|].
  exact (proj1 (contig_along_run n 0 ds G Hc (part_inv_zero ds) H)).
Qed.

Lemma seqn_seq n : seqn n = seq 0 n.
Proof. induction n as [|n IH]; [reflexivity|]. cbn [seqn]. now rewrite IH, seq_S. Qed.

(** from the empty pool, in the shape [Pool.agree] runs the model *)
Theorem run_batches_disk_from_empty keys g n :
  let ds0 := {| dr_net := g; dr_pool := empty_dpool keys; dr_cache := empty_cache |} in
  run_all repr_at ds0 (seqn n) ->
  map_res abs_run (run_batches_disk ds0 (seqn n))
  = run_batches {| rs_net := g;
                   rs_pool := {| stores := map (fun k => (k, None)) keys; pl_batch_size := None; pl_seed := None |};
                   rs_cache := empty_cache |} (seqn n).
Proof.
  intros ds0 H. rewrite seqn_seq in *. rewrite <- empty_dpool_abs.
  apply (run_batches_disk_from_zero n ds0 (empty_dpool_good keys) CacheOK_empty H).
Qed.

(** two runs with ArrayPool.flush / close+open / pickle of ALL stores in between ([ps] neutral, e.g.
    [[PFlush; PReopen]]); the second run uses any net and any sound cache (the same handler: those
    of the first run; a new one: a compiled net and the empty cache) *)
Theorem run_batches_disk_two_runs n1 n2 ds ds1 obs1 ps g2 c2 :
  dp_good (dr_pool ds) -> CacheOK (dr_cache ds) -> neutral ps ->
  run_all repr_at ds (seq 0 n1) ->
  run_batches_disk ds (seq 0 n1) = Ok (ds1, obs1) ->
  (c2 = dr_cache ds1 \/ CacheOK c2) ->
  let ds2 := {| dr_net := g2; dr_pool := dp_all (dr_pool ds1) ps; dr_cache := c2 |} in
  run_all repr_at ds2 (seq 0 n2) ->
  run_batches (abs_state ds) (seq 0 n1) = Ok (abs_state ds1, obs1)
  /\ abs_pool (dp_all (dr_pool ds1) ps) = abs_pool (dr_pool ds1)
  /\ map_res abs_run (run_batches_disk ds2 (seq 0 n2))
     = run_batches {| rs_net := g2; rs_pool := abs_pool (dr_pool ds1); rs_cache := c2 |} (seq 0 n2).
Proof.
  intros G Hc N H1 E1 Hc2 ds2 H2.
  pose proof (run_batches_disk_from_zero n1 ds G Hc H1) as D1. rewrite E1 in D1. cbn [map_res abs_run fst snd] in D1.
  destruct (proj2 (contig_along_run n1 0 ds G Hc (part_inv_zero ds) H1) ds1 obs1 E1) as [G1 Hc1].
  destruct (dp_all_neutral (dr_pool ds1) ps G1 N) as (G2 & A2 & _).
  split; [now symmetry|]. split; [exact A2|].
  rewrite <- A2. apply (run_batches_disk_from_zero n2 ds2 G2); [|exact H2].
  destruct Hc2 as [->|X]; [exact Hc1 | exact X].
Qed.

End DiskPool.

(** ---- where the two models differ: an index gap ---- *)
(** A store of Pool.v is a dict: it takes batch 1 without batch 0.  The on-disk store cannot hold
    batch 1 without batch 0: [store[1] = b] on an empty store raises and nothing is stored.  So
    [disk_add_batch_abs] fails without [add_contig], already on the empty pool, and
    [Pool.run_batches] over indices that do not start at the stores' next index (e.g. [[1]]) is NOT
    what the on-disk pool does.  A correspondence check of C05 over an ArrayPool must therefore run
    batch indices 0, 1, 2, ... (as [Pool.agree] does with [seqn]), or compare up to that error. *)
Definition gap_enc (_ : name) (b : batch) : value := VConst (Z.of_nat (List.length (List.concat b))).
Definition gap_dp : dpool := empty_dpool ["x"%string].
Definition gap_out : list (name * batch) := [("x"%string, [[7%N]])].

Example gap_counterexample :
  let o := fun (_ : name) (_ : nat) => 0 in
  (* index 0 (contiguous): both sides agree *)
  abs_pool 1 gap_enc (disk_add_batch 1 o gap_dp gap_out 0)
    = Pool.add_batch (abs_pool 1 gap_enc gap_dp) (enc_out gap_enc gap_out) 0
  (* index 1 on the empty pool: Pool.v stores batch 1, the disk store holds nothing *)
  /\ stores (Pool.add_batch (abs_pool 1 gap_enc gap_dp) (enc_out gap_enc gap_out) 1)
     = [("x"%string, Some [(1, VConst 1)])]
  /\ stores (abs_pool 1 gap_enc (disk_add_batch 1 o gap_dp gap_out 1)) = [("x"%string, None)]
  /\ Pool.get_batch (Pool.add_batch (abs_pool 1 gap_enc gap_dp) (enc_out gap_enc gap_out) 1) 1
     = [("x"%string, Some (VConst 1))]
  /\ disk_loaded 1 o gap_enc (disk_add_batch 1 o gap_dp gap_out 1) 1 = [("x"%string, None)]
  /\ ~ add_contig 1 gap_dp gap_out 1.
Proof.
  cbv zeta. repeat split; try (vm_compute; reflexivity).
  intros H. specialize (H "x"%string ds_new [[7%N]] (or_introl eq_refl) eq_refl). vm_compute in H. lia.
Qed.
