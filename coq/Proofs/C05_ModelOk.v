(** C05, "model_ok": the models' own answers, fed back as the implementation's observation, pass the
    decidable predicates the correspondence evaluates.
    Layout level (Store/Layout.v), for ALL inputs: [store_agree o = true -> store_ok o = true], and the
    observation built from the model's own file content and read-backs passes [store_agree] and
    [store_ok] whenever the batches have one shape and every element lies inside its buffer.
    Pool level (Store/Pool.v): [model_case] builds the case from the model's own runs exactly as
    [agree_runs] replays them; it passes [agree] for all inputs ([model_case_agree]); [ok] on it is
    established on concrete histories only (Properties/C05.v, by computation) - see the comment at
    [model_ok_partial]. *)
From Coq Require Import List String ZArith Arith Bool Lia.
From Elfi Require Import Graph.Net Graph.Denote Store.Layout Store.Pool Proofs.C05_Layout.
From Elfi Require Proofs.C03_ModelOk.
Import ListNotations.

(** ---- layout level ---- *)
Definition go_agree (data : list (option Z)) :=
  fix go (i : nat) (bs : list ndarray) (rs : list (list Z)) {struct bs} : bool :=
    match bs, rs with
    | [], [] => true
    | a :: bt, r :: rt =>
        optlist_eqb (map (read_back data (nd_shape a) i) (c_indices (nd_shape a))) r && go (S i) bt rt
    | _, _ => false
    end.

Definition go_ok :=
  fix go (bs : list ndarray) (rs : list (list Z)) {struct bs} : bool :=
    match bs, rs with
    | [], [] => true
    | a :: bt, r :: rt => optlist_eqb (tobytes_C a) r && go bt rt
    | _, _ => false
    end.

Lemma store_agree_unfold o :
  store_agree o =
  shapes_equal (so_batches o)
  && match so_file o with Some f => optlist_eqb (append_all (so_batches o)) f | None => true end
  && go_agree (append_all (so_batches o)) 0 (so_batches o) (so_read o).
Proof. reflexivity. Qed.

Lemma store_ok_unfold o : store_ok o = go_ok (so_batches o) (so_read o).
Proof. reflexivity. Qed.

Lemma shapes_equal_all : forall bs a0, shapes_equal (a0 :: bs) = true ->
  forall b, In b (a0 :: bs) -> nd_shape b = nd_shape a0.
Proof.
  induction bs as [|a1 r IH]; intros a0 H b Hb.
  - destruct Hb as [<-|[]]. reflexivity.
  - change (((if list_eq_dec Nat.eq_dec (nd_shape a0) (nd_shape a1) then true else false)
             && shapes_equal (a1 :: r)) = true) in H.
    apply andb_true_iff in H. destruct H as [H0 H1].
    destruct (list_eq_dec Nat.eq_dec (nd_shape a0) (nd_shape a1)) as [E|]; [|discriminate].
    destruct Hb as [<-|Hb]; [reflexivity|]. rewrite E. now apply IH.
Qed.

Lemma shapes_equal_common bs : shapes_equal bs = true -> exists sh, forall b, In b bs -> nd_shape b = sh.
Proof.
  destruct bs as [|a0 r]; intros H.
  - exists []. intros b [].
  - exists (nd_shape a0). now apply shapes_equal_all.
Qed.

Lemma go_agree_ok all sh : (forall b, In b all -> nd_shape b = sh) ->
  forall bs rs i, (forall j a, nth_error bs j = Some a -> nth_error all (i + j) = Some a) ->
  go_agree (append_all all) i bs rs = true -> go_ok bs rs = true.
Proof.
  intros Hsh. induction bs as [|a bt IH]; intros rs i Hnth H; destruct rs as [|r rt]; simpl in *; try discriminate; [reflexivity|].
  apply andb_true_iff in H. destruct H as [H0 H1].
  assert (Hi : nth_error all i = Some a) by (rewrite <- (Nat.add_0_r i); apply Hnth; reflexivity).
  assert (Ha : nd_shape a = sh) by (apply Hsh; eapply nth_error_In; exact Hi).
  rewrite Ha in H0. rewrite (read_back_batch all sh i a Hsh Hi) in H0. rewrite H0. simpl.
  apply (IH rt (S i)); [|exact H1].
  intros j b Hj. replace (S i + j) with (i + S j) by lia. now apply Hnth.
Qed.

(** the model's answer = the implementation's answer implies the property, for every observation *)
Theorem store_agree_ok o : store_agree o = true -> store_ok o = true.
Proof.
  rewrite store_agree_unfold, store_ok_unfold. intros H.
  apply andb_true_iff in H. destruct H as [H Hgo]. apply andb_true_iff in H. destruct H as [Hs _].
  destruct (shapes_equal_common _ Hs) as [sh Hsh].
  apply (go_agree_ok (so_batches o) sh Hsh _ _ 0); [|exact Hgo]. intros j a Hj. exact Hj.
Qed.

(** the model's own observation: the file it writes and what it reads back from it, per batch *)
Definition strip (l : list (option Z)) : list Z :=
  flat_map (fun o : option Z => match o with Some v => [v] | None => [] end) l.

Definition is_some (o : option Z) : bool := match o with Some _ => true | None => false end.

(** every element of every batch lies inside the buffer its array is a window into *)
Definition in_bounds (bs : list ndarray) : bool := forallb (fun a => forallb is_some (tobytes_C a)) bs.

Fixpoint model_reads (data : list (option Z)) (i : nat) (bs : list ndarray) : list (list Z) :=
  match bs with
  | [] => []
  | a :: bt => strip (map (read_back data (nd_shape a) i) (c_indices (nd_shape a))) :: model_reads data (S i) bt
  end.

Definition model_store_obs (on_disk : bool) (bs : list ndarray) : store_obs :=
  {| so_batches := bs;
     so_file := if on_disk then Some (strip (append_all bs)) else None;
     so_read := model_reads (append_all bs) 0 bs |}.

Lemma optlist_eqb_strip : forall l, forallb is_some l = true -> optlist_eqb l (strip l) = true.
Proof.
  induction l as [|[x|] r IH]; intros H; simpl in *; [reflexivity| |discriminate].
  rewrite Z.eqb_refl. simpl. now apply IH.
Qed.

Lemma forallb_concat {A} (f : A -> bool) : forall ls, forallb (forallb f) ls = true -> forallb f (List.concat ls) = true.
Proof.
  induction ls as [|x r IH]; intros H; simpl in *; [reflexivity|].
  apply andb_true_iff in H. destruct H as [H0 H1]. rewrite forallb_app, H0. simpl. now apply IH.
Qed.

Lemma append_all_some bs : in_bounds bs = true -> forallb is_some (append_all bs) = true.
Proof.
  intros H. unfold append_all. rewrite append_all_concat. simpl. apply forallb_concat.
  unfold in_bounds in H. rewrite forallb_forall in *. intros l Hl. apply in_map_iff in Hl.
  destruct Hl as [a [<- Ha]]. now apply H.
Qed.

Lemma model_reads_agree all sh : (forall b, In b all -> nd_shape b = sh) -> in_bounds all = true ->
  forall bs i, (forall j a, nth_error bs j = Some a -> nth_error all (i + j) = Some a) ->
  go_agree (append_all all) i bs (model_reads (append_all all) i bs) = true.
Proof.
  intros Hsh Hb. induction bs as [|a bt IH]; intros i Hnth; simpl; [reflexivity|].
  assert (Hi : nth_error all i = Some a) by (rewrite <- (Nat.add_0_r i); apply Hnth; reflexivity).
  assert (Hin : In a all) by (eapply nth_error_In; exact Hi).
  assert (Ha : nd_shape a = sh) by (now apply Hsh).
  rewrite Ha. rewrite (read_back_batch all sh i a Hsh Hi).
  rewrite optlist_eqb_strip.
  - simpl. apply IH. intros j b Hj. replace (S i + j) with (i + S j) by lia. now apply Hnth.
  - unfold in_bounds in Hb. rewrite forallb_forall in Hb. now apply Hb.
Qed.

Theorem model_store_agree on_disk bs :
  shapes_equal bs = true -> in_bounds bs = true -> store_agree (model_store_obs on_disk bs) = true.
Proof.
  intros Hs Hb. rewrite store_agree_unfold. unfold model_store_obs; cbn [so_batches so_file so_read].
  rewrite Hs. simpl.
  destruct (shapes_equal_common _ Hs) as [sh Hsh].
  rewrite (model_reads_agree bs sh Hsh Hb bs 0) by (intros j a Hj; exact Hj).
  destruct on_disk; [|reflexivity].
  rewrite optlist_eqb_strip; [reflexivity | now apply append_all_some].
Qed.

(** the layout model's own stored bytes pass [store_ok] *)
Theorem model_store_ok on_disk bs :
  shapes_equal bs = true -> in_bounds bs = true -> store_ok (model_store_obs on_disk bs) = true.
Proof. intros Hs Hb. apply store_agree_ok. now apply model_store_agree. Qed.

(** [in_bounds] is needed: an element outside the buffer has no value and no read-back equals it *)
Lemma store_ok_in_bounds o : store_ok o = true -> in_bounds (so_batches o) = true.
Proof.
  rewrite store_ok_unfold. generalize (so_batches o) (so_read o). clear o.
  assert (E : forall l r, optlist_eqb l r = true -> forallb is_some l = true).
  { induction l as [|[x|] t IH]; intros r H; destruct r as [|z s]; simpl in *; try discriminate; [reflexivity|].
    apply andb_true_iff in H. destruct H as [_ H]. now apply (IH s). }
  induction l as [|a bt IH]; intros rs H; destruct rs as [|r rt]; simpl in *; try discriminate; [reflexivity|].
  apply andb_true_iff in H. destruct H as [H0 H1]. rewrite (E _ _ H0). simpl. now apply (IH rt).
Qed.

(** ---- pool level ---- *)
(** one run of a history as the caller specifies it: how the handler/context are obtained, the model,
    the requested outputs, the stores removed before the run and the number of batches *)
Record run_spec := {
  sp_reuse : reuse; sp_src : snet; sp_outputs : list name; sp_removed : list name; sp_batches : nat
}.

(** the model's own runs, replayed exactly as [agree_runs] replays them, recorded as observations (per
    batch the outputs and the operation log, afterwards the sorted pool dump); a run that the model
    cannot start or that fails ends the history *)
Definition start_of (r : reuse) (src : snet) (outs : list name) (prev : option (cnet * ecache)) : res (cnet * ecache) :=
  match r, prev with
  | SameHandler, Some (g, c) => Ok (g, c)
  | SameContext, Some (_, c) => do g <- compile src outs; Ok (g, c)
  | _, _ => do g <- compile src outs; Ok (g, empty_cache)
  end.

Fixpoint model_runs (p : pool) (prev : option (cnet * ecache)) (specs : list run_spec) : list run_obs :=
  match specs with
  | [] => []
  | sp :: rest =>
      let p0 := fold_left remove_store (sp_removed sp) p in
      let start := start_of (sp_reuse sp) (sp_src sp) (sp_outputs sp) prev in
      match start with
      | Err _ => []
      | Ok (g, c) =>
          match run_batches {| rs_net := g; rs_pool := p0; rs_cache := c |} (seqn (sp_batches sp)) with
          | Err _ => []
          | Ok (s', obs) =>
              {| ro_reuse := sp_reuse sp; ro_src := sp_src sp; ro_outputs := sp_outputs sp;
                 ro_removed := sp_removed sp;
                 ro_batches := map (fun ol : list (name * value) * list name => (fst ol, op_log (sp_src sp) (snd ol))) obs;
                 ro_pool_after := sort_named (dump_pool (rs_pool s')) |}
              :: model_runs (rs_pool s') (Some (rs_net s', rs_cache s')) rest
          end
      end
  end.

Definition empty_pool (stored : list name) : pool :=
  {| stores := map (fun n => (n, None)) stored; pl_batch_size := None; pl_seed := None |}.

Definition model_case (stored : list name) (specs : list run_spec) (on_disk : bool) (arrays : list (list ndarray)) : case :=
  {| o_stored := stored; o_runs := model_runs (empty_pool stored) None specs;
     o_arrays := map (model_store_obs on_disk) arrays |}.

(** the model's case agrees with the model: [agree] holds on it for all inputs *)
Lemma names_eqb_refl l : names_eqb l l = true.
Proof. unfold names_eqb. destruct (list_eq_dec string_dec l l); congruence. Qed.

Lemma outs_eqb_refl : forall a, outs_eqb a a = true.
Proof.
  induction a as [|[n v] r IH]; simpl; [reflexivity|].
  now rewrite String.eqb_refl, C03_ModelOk.value_eqb_refl, IH.
Qed.

Lemma batches_eqb_refl src : forall obs,
  batches_eqb src obs (map (fun ol : list (name * value) * list name => (fst ol, op_log src (snd ol))) obs) = true.
Proof.
  induction obs as [|[o l] r IH]; simpl; [reflexivity|].
  now rewrite outs_eqb_refl, names_eqb_refl, IH.
Qed.

Lemma entries_eqb_refl : forall a, entries_eqb a a = true.
Proof.
  induction a as [|[i v] r IH]; simpl; [reflexivity|].
  now rewrite Nat.eqb_refl, C03_ModelOk.value_eqb_refl, IH.
Qed.

Lemma dump_eqb_refl : forall d, dump_eqb d d = true.
Proof.
  induction d as [|[n x] r IH]; simpl; [reflexivity|].
  now rewrite String.eqb_refl, entries_eqb_refl, IH.
Qed.

Lemma run_batches_length : forall idxs s s' obs,
  run_batches s idxs = Ok (s', obs) -> List.length obs = List.length idxs.
Proof.
  induction idxs as [|i r IH]; intros s s' obs H; simpl in H.
  - inversion H. reflexivity.
  - destruct (step_batch s i) as [[[s1 out] log]|e]; [|discriminate]. simpl in H.
    destruct (run_batches s1 r) as [[s2 rest]|e] eqn:E; [|discriminate]. simpl in H.
    inversion H; subst. simpl. f_equal. eapply IH; exact E.
Qed.

Lemma seqn_length n : List.length (seqn n) = n.
Proof. induction n as [|k IH]; simpl; [reflexivity|]. rewrite app_length, IH. simpl. lia. Qed.

Lemma agree_runs_cons p prev ro rest :
  agree_runs p prev (ro :: rest) =
  match start_of (ro_reuse ro) (ro_src ro) (ro_outputs ro) prev with
  | Err _ => false
  | Ok (g, c) =>
      match run_batches {| rs_net := g; rs_pool := fold_left remove_store (ro_removed ro) p; rs_cache := c |}
                        (seqn (List.length (ro_batches ro))) with
      | Err _ => false
      | Ok (s', obs) =>
          batches_eqb (ro_src ro) obs (ro_batches ro)
          && dump_eqb (sort_named (dump_pool (rs_pool s'))) (ro_pool_after ro)
          && agree_runs (rs_pool s') (Some (rs_net s', rs_cache s')) rest
      end
  end.
Proof. reflexivity. Qed.

Theorem model_runs_agree : forall specs p prev, agree_runs p prev (model_runs p prev specs) = true.
Proof.
  induction specs as [|sp rest IH]; intros p prev; [reflexivity|].
  cbn [model_runs].
  destruct (start_of (sp_reuse sp) (sp_src sp) (sp_outputs sp) prev) as [[g c]|e] eqn:Es; [|reflexivity].
  destruct (run_batches {| rs_net := g; rs_pool := fold_left remove_store (sp_removed sp) p; rs_cache := c |}
                        (seqn (sp_batches sp))) as [[s' obs]|e] eqn:Er; [|reflexivity].
  rewrite agree_runs_cons. cbn [ro_reuse ro_src ro_outputs ro_removed ro_batches ro_pool_after].
  rewrite Es. rewrite map_length, (run_batches_length _ _ _ _ Er), seqn_length, Er.
  now rewrite batches_eqb_refl, dump_eqb_refl, IH.
Qed.

Theorem model_case_agree stored specs on_disk arrays :
  (forall bs, In bs arrays -> shapes_equal bs = true /\ in_bounds bs = true) ->
  agree (model_case stored specs on_disk arrays) = true.
Proof.
  intros H. unfold agree. cbn [model_case o_stored o_runs o_arrays].
  change {| stores := map (fun n => (n, None)) stored; pl_batch_size := None; pl_seed := None |} with (empty_pool stored).
  rewrite model_runs_agree. simpl. apply forallb_forall. intros o Ho.
  apply in_map_iff in Ho. destruct Ho as [bs [<- Hbs]]. destruct (H bs Hbs). now apply model_store_agree.
Qed.

(** the array clause of [ok] on the model's case, for all inputs *)
Theorem model_case_arrays_ok stored specs on_disk arrays :
  (forall bs, In bs arrays -> shapes_equal bs = true /\ in_bounds bs = true) ->
  forallb store_ok (o_arrays (model_case stored specs on_disk arrays)) = true.
Proof.
  intros H. apply forallb_forall. intros o Ho. cbn [model_case o_arrays] in Ho.
  apply in_map_iff in Ho. destruct Ho as [bs [<- Hbs]]. destruct (H bs Hbs). now apply model_store_ok.
Qed.

(** [ok] on the model's case reduces to its run clause: PARTIAL.  Missing for [model_ok]: a proof of
    [ok_runs stored [] [] (model_runs (empty_pool stored) None specs) = true] for all well-formed
    [specs] (per batch: requested outputs = [den_name], call log = [needed_ops] with the held stores as
    supplied values and the handler's added outputs; pool afterwards), which needs the composition of
    C03's [model_log_exact] with the PoolLoader's growth of the shared output set along [run_batches].
    It is checked by computation on concrete histories in Properties/C05.v. *)
Theorem model_ok_partial stored specs on_disk arrays :
  (forall bs, In bs arrays -> shapes_equal bs = true /\ in_bounds bs = true) ->
  ok (model_case stored specs on_disk arrays)
  = ok_runs stored [] [] (model_runs (empty_pool stored) None specs).
Proof.
  intros H. unfold ok. rewrite (model_case_arrays_ok stored specs on_disk arrays H).
  cbn [model_case o_stored o_runs]. apply andb_true_r.
Qed.

(** agreement with the model on the array observations implies their clause of [ok], for every case *)
Theorem agree_arrays_ok c : agree c = true -> forallb store_ok (o_arrays c) = true.
Proof.
  unfold agree. intros H. apply andb_true_iff in H. destruct H as [_ H].
  rewrite forallb_forall in *. intros o Ho. apply store_agree_ok. now apply H.
Qed.
