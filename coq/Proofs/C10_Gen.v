(** C10 — the hand-written formula lines of Num/Gp.v are the generated ones (Gen/C10_Gradient.v):
    with the oracle functions replaced by the recorded oracle values the two are the same term.
    Re-checked on every run against the regenerated file, so the hand model cannot drift from
    the source text unnoticed. *)
From Coq Require Import QArith.
From Elfi Require Import Num.Gp Gen.C10_Gradient.

Lemma gradQ_is_model t o gm gv :
  gradQ (fun _ => o_sd o) (fun _ => o_ratio o) (fun _ => o_pdf o) (fun _ => o_cdf o)
        (fun _ => o_logpdf o) (fun _ => o_logcdf o) t (o_mean o) (o_var o) gm gv
  = grad_coord t o gm gv.
Proof. reflexivity. Qed.

Lemma loglikQ_is_model t o :
  loglikQ (fun _ => o_sd o) (fun _ => o_logcdf o) t (o_mean o) (o_var o) = ll_value o.
Proof. reflexivity. Qed.
