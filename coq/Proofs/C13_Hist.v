(** C13: histories of calls on the class [GMDistribution] (wave 3).
    The model has no state that survives a call: every call of a history is answered from the
    numbers of that call alone, and the decidable statement on a history is the conjunction of the
    per-call statements. *)
From Coq Require Import List ZArith QArith Qabs Bool Arith Lia Lqa.
From Elfi Require Import Num.Quantile Proofs.C13_Quantile Proofs.C13_Stats Proofs.C13_Rvs.
Import ListNotations.
Open Scope Q_scope.

(** the decidable statement on a history = the per-call statement on every call *)
Theorem hist_ok_sound calls :
  ok (CHist calls) = true -> Forall (fun c => ok_call c = true) calls.
Proof. simpl. intro H. apply Forall_forall. now apply forallb_forall. Qed.

(** every [rvs] call of an accepted history, whatever was called before it, returned exactly
    [size] rows, all satisfying the constraint of THAT call *)
Theorem hist_rvs_sound calls size box batches o :
  ok (CHist calls) = true -> In (GRvs size box batches o) calls ->
  exists out, o = Some out /\ length out = size /\ Forall (fun x => in_box box x = true) out.
Proof.
  intros H Hin. apply hist_ok_sound in H. rewrite Forall_forall in H. specialize (H _ Hin).
  simpl in H. destruct o as [out|]; [|discriminate].
  exists out. split; [reflexivity|]. now apply rvs_ok_sound.
Qed.

Lemma all2_nth {A B} (f : A -> B -> bool) : forall a b n x y,
  all2 f a b = true -> nth_error a n = Some x -> nth_error b n = Some y -> f x y = true.
Proof.
  induction a as [|a0 a IH]; intros b n x y H Ha Hb.
  - destruct n; discriminate.
  - destruct b as [|b0 b]; [discriminate|]. simpl in H. apply andb_true_iff in H as [H0 Hr].
    destruct n as [|n]; simpl in *.
    + injection Ha as <-. injection Hb as <-. exact H0.
    + eapply IH; eauto.
Qed.

(** every [pdf] call (and, through [exp], every [logpdf] call) of an accepted history returned, at
    each point, the weighted sum of the component densities for the weights / means / covariance
    passed AT THAT CALL, within the tolerance *)
Lemma ok_pdf_point dens w tol l n d i :
  ok_pdf dens (Some w) tol (Some l) = true -> wf_stat_w w = true ->
  nth_error dens n = Some d -> nth_error l n = Some i -> length w = length d ->
  Qabs (spec_pdf d w - i) <= tol * (1 + Qabs (spec_pdf d w)).
Proof.
  intros H Hw Hd Hi Hl. unfold ok_pdf in H.
  pose proof (all2_nth _ _ _ _ _ _ H Hd Hi) as E. cbv beta zeta in E.
  rewrite Hw in E. rewrite Hl, Nat.eqb_refl in E. simpl in E. now apply close_sound.
Qed.

Theorem hist_pdf_sound calls dens w tol l n d i :
  ok (CHist calls) = true ->
  In (GPdf dens (Some w) tol (Some l)) calls \/ In (GLogpdf dens (Some w) tol (Some l)) calls ->
  wf_stat_w w = true -> nth_error dens n = Some d -> nth_error l n = Some i -> length w = length d ->
  Qabs (spec_pdf d w - i) <= tol * (1 + Qabs (spec_pdf d w)).
Proof.
  intros H Hin Hw Hd Hi Hl. apply hist_ok_sound in H. rewrite Forall_forall in H.
  destruct Hin as [Hin|Hin]; specialize (H _ Hin); simpl in H; eapply ok_pdf_point; eauto.
Qed.

(** an accepted valid [pdf] / [logpdf] call did not fail *)
Theorem hist_pdf_defined calls dens w tol o d :
  ok (CHist calls) = true ->
  In (GPdf dens (Some w) tol o) calls \/ In (GLogpdf dens (Some w) tol o) calls ->
  wf_stat_w w = true -> In d dens -> exists l, o = Some l.
Proof.
  intros H Hin Hw Hd. apply hist_ok_sound in H. rewrite Forall_forall in H.
  assert (E : ok_pdf dens (Some w) tol o = true) by (destruct Hin as [Hin|Hin]; exact (H _ Hin)).
  destruct o as [l|]; [eauto|]. unfold ok_pdf in E. rewrite forallb_forall in E.
  specialize (E _ Hd). cbv beta zeta in E. rewrite Hw in E. discriminate.
Qed.

(** ** the model's own answers pass, call by call *)
Lemma model_pdf_some dens ws l :
  model_pdf dens ws = Some l -> Forall2 (fun d p => gm_pdf d ws = Some p) dens l.
Proof.
  revert l. induction dens as [|d dens IH]; intros l H; simpl in H.
  - injection H as <-. constructor.
  - destruct (gm_pdf d ws) as [p|] eqn:Ep; [|discriminate].
    destruct (model_pdf dens ws) as [l'|] eqn:El; [|discriminate].
    injection H as <-. constructor; [exact Ep | now apply IH].
Qed.

Lemma model_pdf_ok dens ws tol l :
  0 <= tol -> model_pdf dens ws = Some l ->
  ok_pdf dens ws tol (Some l) = true /\ agree_pdf dens ws tol (Some l) = true.
Proof.
  intros Ht H. apply model_pdf_some in H. unfold ok_pdf, agree_pdf.
  induction H as [|d p dens l Hp HF [IH1 IH2]]; [split; reflexivity|].
  split; cbn [all2]; apply andb_true_iff; split; try assumption.
  - destruct (wf_stat_w _ && _); [|reflexivity].
    exact (pdf_model_ok d ws tol p Ht Hp).
  - rewrite Hp. simpl. apply close_refl; [exact Ht | reflexivity].
Qed.

Lemma row_eq_refl r : row_eq r r = true.
Proof.
  unfold row_eq. induction r as [|a r IH]; [reflexivity|]. cbn [all2].
  apply andb_true_iff. split; [apply Qeq_bool_iff; reflexivity | exact IH].
Qed.

Lemma rows_eq_refl m : all2 row_eq m m = true.
Proof. induction m as [|a m IH]; [reflexivity|]. cbn [all2]. now rewrite row_eq_refl, IH. Qed.

(** a call whose model run is defined: non-negative tolerance and valid weights for a density
    call, a proposal stream on which the accept loop finishes for a sampler call *)
Definition call_wf (c : gmcall) : Prop :=
  match c with
  | GPdf dens ws tol _ | GLogpdf dens ws tol _ => 0 <= tol /\ model_pdf dens ws <> None
  | GRvs size box batches _ =>
      rvs (list Q) (in_box box) (fun t _ => nth t batches []) (S (length batches)) size <> None
  end.

Theorem model_call_ok c : call_wf c -> ok_call (model_call c) = true /\ agree_call (model_call c) = true.
Proof.
  destruct c as [dens ws tol o|dens ws tol o|size box batches o]; simpl.
  - intros [Ht Hd]. destruct (model_pdf dens ws) as [l|] eqn:E; [|congruence]. now apply model_pdf_ok.
  - intros [Ht Hd]. destruct (model_pdf dens ws) as [l|] eqn:E; [|congruence]. now apply model_pdf_ok.
  - intro Hd. unfold ok_rvs, agree_rvs.
    destruct (rvs (list Q) (in_box box) (fun t _ => nth t batches []) (S (length batches)) size)
      as [out|] eqn:E; [|congruence].
    destruct (rvs_spec _ _ _ _ _ _ E) as [Hl Hv]. split; [|apply rows_eq_refl].
    apply andb_true_iff. split; [now apply Nat.eqb_eq|].
    apply forallb_forall. now rewrite Forall_forall in Hv.
Qed.

(** for EVERY history of well-formed calls (any length, any order, any mixture of dimensions,
    weights and constraints) the model's answers pass both decidable statements *)
Theorem hist_model_ok calls :
  Forall call_wf calls ->
  ok (CHist (map model_call calls)) = true /\ agree (CHist (map model_call calls)) = true.
Proof.
  simpl. induction 1 as [|c calls Hc HF [IH1 IH2]]; [split; reflexivity|].
  destruct (model_call_ok c Hc) as [H1 H2]. simpl. now rewrite H1, H2, IH1, IH2.
Qed.

(** the model's answer to a call does not depend on the calls made before it (nor after it) *)
Theorem hist_model_stateless pre c post :
  map model_call (pre ++ c :: post) = map model_call pre ++ model_call c :: map model_call post.
Proof. now rewrite map_app. Qed.

(** ** the accept loop: a trial whose batch holds no valid row only advances the trial counter
       (so the loop cannot end, and its state cannot change, while nothing is accepted) *)
Section RejectedBatch.
  Variable X : Type.
  Variable valid : X -> bool.
  Variable draw : nat -> nat -> list X.

  Theorem rvs_rejected_batch fuel trial size acc :
    (length acc < size)%nat ->
    length (draw trial (size - length acc)) = (size - length acc)%nat ->
    filter valid (draw trial (size - length acc)) = [] ->
    rvs_loop X valid draw (S fuel) trial size acc = rvs_loop X valid draw fuel (S trial) size acc.
  Proof.
    intros Hlt Hl Hf. cbn [rvs_loop].
    destruct (size <=? length acc)%nat eqn:E; [apply Nat.leb_le in E; lia|].
    rewrite Hl, Nat.eqb_refl, Hf, app_nil_r. reflexivity.
  Qed.

  (** while fewer than [size] rows are accepted the loop never returns: a finished run has
      consumed as many trials as it took to accept [size] valid rows (no give-up exit) *)
  Theorem rvs_no_early_exit fuel trial size acc out :
    rvs_loop X valid draw fuel trial size acc = Some out -> (size <= length out)%nat.
  Proof.
    revert trial acc. induction fuel as [|f IH]; intros trial acc H; simpl in H.
    - destruct (size <=? length acc)%nat eqn:E; [|discriminate].
      injection H as <-. now apply Nat.leb_le.
    - destruct (size <=? length acc)%nat eqn:E.
      + injection H as <-. now apply Nat.leb_le.
      + destruct (negb _); [discriminate|]. eapply IH; eauto.
  Qed.
End RejectedBatch.
