(** C12 — a sampler round on an adaptive node ([Welford.rejection_round], [rejection_rounds]):
    the weights appended at the end of a round are the inverse population variances of ALL rows of
    ALL batches the sampler received in that round — whatever the acceptance masks, however the rows
    were split into batches, and whatever happened in earlier rounds. *)
From Coq Require Import String.
From Coq Require Import ZArith QArith Qabs List Bool Arith Lia Setoid Morphisms.
From Elfi Require Import Num.Distance Num.Welford Proofs.C12_Welford Proofs.C12_Distance.
Import ListNotations.
Open Scope Q_scope.

Lemma fold_merge_batch bs : forall a,
  fold_left merge_batch bs a = fold_left add_data_state (map sb_data bs) a.
Proof. induction bs as [|b r IH]; intros a; simpl; [reflexivity | apply IH]. Qed.

Definition round_rows (bs : list sbatch) : mat := concat (map sb_data bs).

Definition round_wf (w : nat) (bs : list sbatch) : Prop :=
  bs <> [] /\ Forall (fun b => sb_data b <> [] /\ width (sb_data b) = w) bs.

Lemma round_wf_data w bs : round_wf w bs ->
  map sb_data bs <> [] /\ Forall (fun d => d <> [] /\ width d = w) (map sb_data bs).
Proof.
  intros [Hne HF]. split.
  - destruct bs; [congruence | discriminate].
  - apply Forall_map. exact HF.
Qed.

(** one round, from ANY node state, for ANY acceptance masks *)
Theorem rejection_round_all_rows a w bs :
  round_wf w bs ->
  exists a2 w2,
    rejection_round a bs = Some a2
    /\ a_funcs a2 = a_funcs a ++ [Some w2] /\ a_w2 a2 = a_w2 a ++ [Some w2]
    /\ a_store a2 = store0 /\ length w2 = w
    /\ forall j, (j < w)%nat -> nth j w2 0 == / colvar (round_rows bs) j.
Proof.
  intros Hwf. destruct (round_wf_data w bs Hwf) as [Hne HF].
  unfold rejection_round. rewrite fold_merge_batch.
  destruct (adaptive_round a w (map sb_data bs) Hne HF) as (a2 & w2 & E & Hf & Hs & Hl & Hw).
  exists a2, w2. split; [exact E|]. split; [exact Hf|].
  split.
  - destruct (update_distance_spec _ _ E) as (sc & Esc & Ef & Ew & _).
    destruct (fold_state (map sb_data bs) (init_round a) Hne) as (_ & Hfun & Hw2 & _).
    rewrite Ew, Hw2. simpl. rewrite Ef, Hfun in Hf. simpl in Hf.
    apply app_inv_head in Hf. congruence.
  - split; [exact Hs|]. split; [exact Hl | exact Hw].
Qed.

(** the acceptance masks are irrelevant: same data, same round *)
Theorem rejection_round_ignores_acceptance a bs1 bs2 :
  map sb_data bs1 = map sb_data bs2 -> rejection_round a bs1 = rejection_round a bs2.
Proof. intros E. unfold rejection_round. rewrite !fold_merge_batch, E. reflexivity. Qed.

(** the batching is irrelevant: two rounds with the same rows in the same order give equal weights *)
Theorem rejection_round_ignores_batching a1 a2 w bs1 bs2 :
  round_wf w bs1 -> round_wf w bs2 -> round_rows bs1 = round_rows bs2 ->
  exists r1 r2 u1 u2,
    rejection_round a1 bs1 = Some r1 /\ rejection_round a2 bs2 = Some r2
    /\ last (a_funcs r1) None = Some u1 /\ last (a_funcs r2) None = Some u2
    /\ length u1 = w /\ length u2 = w
    /\ forall j, (j < w)%nat -> nth j u1 0 == nth j u2 0.
Proof.
  intros H1 H2 E.
  destruct (rejection_round_all_rows a1 w bs1 H1) as (r1 & u1 & E1 & F1 & _ & _ & L1 & W1).
  destruct (rejection_round_all_rows a2 w bs2 H2) as (r2 & u2 & E2 & F2 & _ & _ & L2 & W2).
  exists r1, r2, u1, u2. split; [exact E1|]. split; [exact E2|].
  split; [rewrite F1; apply last_last|]. split; [rewrite F2; apply last_last|].
  split; [exact L1|]. split; [exact L2|].
  intros j Hj. rewrite (W1 j Hj), (W2 j Hj), E. reflexivity.
Qed.

(** any number of rounds: function number [k+1] carries the weights of round [k] alone *)
Theorem rejection_rounds_all_rows w rs : forall a,
  Forall (round_wf w) rs ->
  exists a2 ws,
    rejection_rounds a rs = Some a2
    /\ a_funcs a2 = a_funcs a ++ map Some ws
    /\ (rs <> [] -> a_store a2 = store0)
    /\ Forall2 (fun w2 bs => length w2 = w
                             /\ forall j, (j < w)%nat -> nth j w2 0 == / colvar (round_rows bs) j) ws rs.
Proof.
  induction rs as [|bs rest IH]; intros a HF.
  - exists a, []. simpl. rewrite app_nil_r. split; [reflexivity|]. split; [reflexivity|].
    split; [congruence | constructor].
  - inversion HF as [|? ? Hb Hr]; subst.
    destruct (rejection_round_all_rows a w bs Hb) as (a1 & w1 & E1 & F1 & _ & S1 & L1 & W1).
    destruct (IH a1 Hr) as (a2 & ws & E2 & F2 & S2 & HW).
    exists a2, (w1 :: ws). simpl. rewrite E1. split; [exact E2|].
    split; [rewrite F2, F1, <- app_assoc; reflexivity|].
    split.
    + intros _. destruct rest as [|b' r'].
      * simpl in E2. injection E2 as <-. exact S1.
      * apply S2. discriminate.
    + constructor; [split; assumption | exact HW].
Qed.

(** ** the script the correspondence check replays for a sampler round IS [rejection_round] *)

Definition exec (obsd : list arr) (a : astate) (ops : list op) : astate :=
  fold_left (fun a o => fst (step obsd a o)) ops a.

Definition round_script (bs : list (list arr * list bool)) : list op :=
  OInit :: map (fun b => OBatch (fst b) (snd b)) bs ++ [OUpdate].

Lemma exec_batches obsd bs sb : 
  Forall2 (fun b s => column_stack (fst b) = Some (sb_data s) /\ snd b = sb_accept s) bs sb ->
  forall a, exec obsd a (map (fun b => OBatch (fst b) (snd b)) bs) = fold_left merge_batch sb a.
Proof.
  induction 1 as [|b s bs' sb' [Hc Ha] _ IH]; intros a; [reflexivity|].
  simpl. unfold exec in IH. rewrite Hc, Ha. simpl.
  replace {| sb_data := sb_data s; sb_accept := sb_accept s |} with s by (destruct s; reflexivity).
  apply IH.
Qed.

Theorem round_script_is_rejection_round obsd a bs sb a2 :
  Forall2 (fun b s => column_stack (fst b) = Some (sb_data s) /\ snd b = sb_accept s) bs sb ->
  rejection_round a sb = Some a2 ->
  exec obsd a (round_script bs) = a2.
Proof.
  intros HF E. unfold round_script, exec. simpl. rewrite fold_left_app.
  fold (exec obsd (init_round a) (map (fun b => OBatch (fst b) (snd b)) bs)).
  rewrite (exec_batches obsd bs sb HF). simpl.
  unfold rejection_round in E. rewrite E. reflexivity.
Qed.
