(** C14 -> C02 link: "a seeded run does not depend on node insertion order", stated at the level of
    the API.  Two guarded edit scripts (Proofs/C14_Wfsrc.v: [script_ok]) that end in the same model
    up to the order of the node list, the edge list and the observed dict ([same_model],
    Proofs/C02_Insertion.v) give the same [generate] result: the same values and the same order of
    operation calls, or a refusal on both sides.  The hypothesis [wfsrc] of the C02 theorems is
    discharged by [reachable_wfsrc].

    [params_distinct] (the parameters on the in-edges of every node are pairwise distinct) is NOT
    an invariant of [script_ok] scripts; three API call sequences that break it are exhibited below
    ([params_distinct_refuted_*]).  It is an invariant under the additional guard [pd_guard'], every
    clause of which is read off the call and the model before it ([reachable_params_distinct]). *)
From Coq Require Import List String Ascii ZArith Arith Bool Lia Permutation.
From Elfi Require Import Graph.Net Graph.Denote Graph.Edit Proofs.C03_Exec Proofs.C03_Compile
     Proofs.C03_EndToEnd Proofs.C03_Twins Proofs.C03_ModelOk Proofs.C14_Edit Proofs.C14_Become Proofs.C14_Wfsrc
     Proofs.C02_Insertion Proofs.C02_Success.
Import ListNotations.
Local Open Scope string_scope.

(** ---- (1) the link ---- *)
Lemma params_distinct_perm src src' : same_model src src' -> params_distinct src -> params_distinct src'.
Proof.
  intros [_ [He _]] H n. eapply Permutation_NoDup; [|apply (H n)].
  apply Permutation_map. now apply preds_perm.
Qed.

(** the result of [generate] on two builds of one model: the same [Ok], or an error on both *)
Definition same_result {A} (r1 r2 : res A) : Prop :=
  (exists r, r1 = Ok r /\ r2 = Ok r) \/ ((exists e, r1 = Err e) /\ (exists e, r2 = Err e)).

(** core: the first model is script-reachable, the second any reordering of it *)
Theorem reachable_same_model_same_generate ops ms m1 m2 outs W :
  run [empty_net] ops = Ok ms -> script_ok ops = true -> In m1 ms ->
  same_model m1 m2 -> params_distinct m1 ->
  NoDup (map fst W) -> (forall k, In k (map fst W) -> ~ In k inames) -> outputs_wf m1 outs ->
  same_result (generate m1 outs W) (generate m2 outs W).
Proof.
  intros Hrun Hok Hin Hsm Hpd HWnd HWi Howf.
  pose proof (reachable_wfsrc _ _ Hrun Hok) as Hall. rewrite Forall_forall in Hall.
  pose proof (Hall _ Hin) as Hwf.
  pose proof (wfsrc_perm m1 m2 Hwf Hsm) as Hwf'.
  pose proof (outputs_wf_perm m1 m2 Hwf Hsm outs Howf) as Howf'.
  pose proof (params_distinct_perm _ _ Hsm Hpd) as Hpd'.
  destruct (generate m1 outs W) as [[out log]|e] eqn:E1.
  - left. exists (out, log). split; [reflexivity|].
    exact (generate_same_insertion_independent m1 m2 outs W out log Hwf Hsm HWnd HWi Howf Hpd E1).
  - destruct (generate m2 outs W) as [[out' log']|e'] eqn:E2.
    + pose proof (generate_same_insertion_independent m2 m1 outs W out' log' Hwf' (same_model_sym _ _ Hsm)
                    HWnd HWi Howf' Hpd' E2) as E1'.
      rewrite E1 in E1'. discriminate.
    + right. split; eexists; reflexivity.
Qed.

(** Two guarded scripts whose final (or any live) models are the same model in another insertion
    order: a seeded [generate] returns the same values and the same call log, or fails on both. *)
Theorem scripts_same_model_same_generate ops1 ops2 ms1 ms2 m1 m2 outs W :
  run [empty_net] ops1 = Ok ms1 -> script_ok ops1 = true -> In m1 ms1 ->
  run [empty_net] ops2 = Ok ms2 -> script_ok ops2 = true -> In m2 ms2 ->
  same_model m1 m2 -> params_distinct m1 ->
  NoDup (map fst W) -> (forall k, In k (map fst W) -> ~ In k inames) -> outputs_wf m1 outs ->
  same_result (generate m1 outs W) (generate m2 outs W).
Proof. intros H1 G1 I1 _ _ _. now apply (reachable_same_model_same_generate ops1 ms1). Qed.

(** in particular: if one succeeds, the other returns the very same pair *)
Corollary scripts_same_model_same_generate_ok ops1 ops2 ms1 ms2 m1 m2 outs W r :
  run [empty_net] ops1 = Ok ms1 -> script_ok ops1 = true -> In m1 ms1 ->
  run [empty_net] ops2 = Ok ms2 -> script_ok ops2 = true -> In m2 ms2 ->
  same_model m1 m2 -> params_distinct m1 ->
  NoDup (map fst W) -> (forall k, In k (map fst W) -> ~ In k inames) -> outputs_wf m1 outs ->
  (generate m1 outs W = Ok r <-> generate m2 outs W = Ok r).
Proof.
  intros H1 G1 I1 H2 G2 I2 Hsm Hpd HWnd HWi Howf.
  destruct (scripts_same_model_same_generate _ _ _ _ _ _ outs W H1 G1 I1 H2 G2 I2 Hsm Hpd HWnd HWi Howf)
    as [[r0 [E1 E2]]|[[e1 E1] [e2 E2]]]; rewrite E1, E2; split; intros H; try exact H; discriminate.
Qed.

(** ---- (2) [params_distinct] is not an invariant of [script_ok] scripts ---- *)
Definition lst (sto obs uo ub par : bool) (id : name) : sstate :=
  {| s_output := None; s_has_op := true; s_stochastic := sto; s_observable := obs; s_uses_observed := uo;
     s_uses_batch_size := ub; s_uses_meta := false; s_parameter := par; s_opid := id |}.
Definition st_prior id := lst true false false true true id.
Definition st_sim id := lst true true false true false id.
Definition st_sum id := lst false true false false false id.
Definition st_disc id := lst false false true false false id.
Definition st_op id := lst false false false false false id.

(** does some node have two in-edges with one parameter? *)
Definition pd_broken (ops : list eop) : Prop :=
  script_ok ops = true
  /\ exists m, run [empty_net] ops = Ok [m] /\ params_distinct_b m = false /\ ~ params_distinct m.

Lemma params_distinct_b_complete m : params_distinct m -> params_distinct_b m = true.
Proof.
  intros H. unfold params_distinct_b. apply forallb_forall. intros e _.
  specialize (H (e_dst e)). induction (map snd (preds (s_edges m) (e_dst e))) as [|x r IH]; [reflexivity|].
  inversion H as [|? ? Hx Hr]; subst. simpl. rewrite (IH Hr), andb_true_r. apply negb_true_iff.
  destruct (existsb (param_eqb x) r) eqn:E; [|reflexivity].
  apply existsb_exists in E. destruct E as [y [Hy E]]. apply param_eqb_eq in E. subst y. contradiction.
Qed.

Ltac pd_refute :=
  split; [vm_compute; reflexivity|]; eexists; split; [vm_compute; reflexivity|];
  split; [vm_compute; reflexivity|];
  intros H; apply params_distinct_b_complete in H; vm_compute in H; discriminate.

(** [elfi.Operation(f, t, t, u)]: the second edge t -> o replaces the first (one edge per pair) with
    index 1, and [u] then gets index [len(get_parents(o))] = 1 as well. *)
Example params_distinct_refuted_repeated_parent :
  pd_broken [ EAddNode 0 "t" (st_prior "t") [] None; EAddNode 0 "u" (st_prior "u") [] None;
              EAddNode 0 "o" (st_op "o") ["t"; "t"; "u"] None ].
Proof. pd_refute. Qed.

(** removing parent 0 of a two-parent node, then [add_edge(v, o)] without a parameter: the next
    positional index is [len(get_parents(o))] = 1, which the remaining parent still holds. *)
Example params_distinct_refuted_remove_then_add :
  pd_broken [ EAddNode 0 "t" (st_prior "t") [] None; EAddNode 0 "u" (st_prior "u") [] None;
              EAddNode 0 "v" (st_prior "v") [] None;
              EAddNode 0 "o" (st_op "o") ["t"; "u"] None;
              ERemove 0 "t"; EAddEdge 0 "v" "o" None ].
Proof. pd_refute. Qed.

(** the deprecated explicit [add_edge(u, o, 0)] *)
Example params_distinct_refuted_explicit_edge :
  pd_broken [ EAddNode 0 "t" (st_prior "t") [] None; EAddNode 0 "u" (st_prior "u") [] None;
              EAddNode 0 "o" (st_op "o") ["t"] None; EAddEdge 0 "u" "o" (Some (PInt 0)) ].
Proof. pd_refute. Qed.

(** ---- (3) two scripts, one model ---- *)
(** prior [t] -> simulator [y] (data 5) -> summaries [s1], [s2] -> discrepancy [d] *)
Definition ex_ops_a : list eop :=
  [ EAddNode 0 "t" (st_prior "t") [] None;
    EAddNode 0 "y" (st_sim "y") ["t"] (Some (VConst 5));
    EAddNode 0 "s1" (st_sum "s1") ["y"] None;
    EAddNode 0 "s2" (st_sum "s2") ["y"] None;
    EAddNode 0 "d" (st_disc "d") ["s1"; "s2"] None ].

(** the same model: the data first, [s2] before [s1], the simulator and [s2] created without
    parents, three edges added afterwards through [add_edge] *)
Definition ex_ops_b : list eop :=
  [ EAddNode 0 "y" (st_sim "y") [] None;
    EAddNode 0 "s2" (st_sum "s2") [] None;
    EAddNode 0 "s1" (st_sum "s1") ["y"] None;
    EAddNode 0 "d" (st_disc "d") ["s1"] None;
    EAddNode 0 "t" (st_prior "t") [] None;
    EAddEdge 0 "s2" "d" None;
    EAddEdge 0 "y" "s2" None;
    ESetObserved 0 "y" (VConst 5);
    EAddEdge 0 "t" "y" None ].

Definition model_of (ops : list eop) : snet :=
  match run [empty_net] ops with Ok [m] => m | _ => empty_net end.
Definition ex_m_a : snet := Eval vm_compute in model_of ex_ops_a.
Definition ex_m_b : snet := Eval vm_compute in model_of ex_ops_b.

Ltac perm_tac :=
  repeat first
    [ apply perm_nil
    | apply perm_skip
    | apply (Permutation_cons_app [_])
    | apply (Permutation_cons_app [_; _])
    | apply (Permutation_cons_app [_; _; _])
    | apply (Permutation_cons_app [_; _; _; _]) ]; simpl.

Lemma ex_same_model : same_model ex_m_a ex_m_b.
Proof. unfold same_model, ex_m_a, ex_m_b; cbn [s_nodes s_edges s_observed]. repeat split; perm_tac. Qed.

Example two_scripts_one_model :
  script_ok ex_ops_a = true /\ script_ok ex_ops_b = true
  /\ run [empty_net] ex_ops_a = Ok [ex_m_a] /\ run [empty_net] ex_ops_b = Ok [ex_m_b]
  /\ same_model ex_m_a ex_m_b
  /\ map fst (s_nodes ex_m_a) <> map fst (s_nodes ex_m_b)
  /\ s_edges ex_m_a <> s_edges ex_m_b
  /\ params_distinct ex_m_a
  /\ (forall outs W, NoDup (map fst W) -> (forall k, In k (map fst W) -> ~ In k inames) -> outputs_wf ex_m_a outs ->
        same_result (generate ex_m_a outs W) (generate ex_m_b outs W))
  /\ (* checked by computation *)
     (exists v log, log <> [] /\ generate ex_m_a ["d"] [] = Ok ([("d", v)], log) /\ generate ex_m_b ["d"] [] = Ok ([("d", v)], log)).
Proof.
  assert (Ha : script_ok ex_ops_a = true) by (vm_compute; reflexivity).
  assert (Hb : script_ok ex_ops_b = true) by (vm_compute; reflexivity).
  assert (Ra : run [empty_net] ex_ops_a = Ok [ex_m_a]) by (vm_compute; reflexivity).
  assert (Rb : run [empty_net] ex_ops_b = Ok [ex_m_b]) by (vm_compute; reflexivity).
  assert (Hpd : params_distinct ex_m_a) by (apply params_distinct_b_sound; vm_compute; reflexivity).
  repeat (split; [assumption|]).
  split; [exact ex_same_model|].
  split; [vm_compute; discriminate|].
  split; [vm_compute; discriminate|].
  split; [exact Hpd|].
  split.
  - intros outs W HWnd HWi Howf.
    apply (scripts_same_model_same_generate ex_ops_a ex_ops_b [ex_m_a] [ex_m_b]); auto using ex_same_model; now left.
  - vm_compute. eexists. eexists. split; [|split; reflexivity]. discriminate.
Qed.

(** ---- (2') [params_distinct] under an additional guard ---- *)
(** one parameter, one parent *)
Definition PD (es : list edge) : Prop := forall c q1 q2 p, In (q1, c, p) es -> In (q2, c, p) es -> q1 = q2.

Lemma In_preds es n u p : In (u, p) (preds es n) <-> In (u, n, p) es.
Proof.
  split; [apply preds_In|]. intros H. unfold preds. apply in_map_iff. exists (u, n, p). split; [reflexivity|].
  apply filter_In. split; [exact H|]. unfold e_dst. simpl. apply String.eqb_refl.
Qed.

Lemma NoDup_snd_of_fst {A B} (l : list (A * B)) :
  NoDup (map fst l) -> (forall a b p, In (a, p) l -> In (b, p) l -> a = b) -> NoDup (map snd l).
Proof.
  induction l as [|[a p] r IH]; simpl; intros Hn H; constructor.
  - intros Hin. apply in_map_iff in Hin. destruct Hin as [[b p'] [E Hb]]. simpl in E. subst p'.
    assert (a = b) by (apply (H a b p); [left; reflexivity | right; exact Hb]). subst b.
    inversion Hn as [|? ? Hx Hr]; subst. apply Hx. apply in_map_iff. exists (a, p). auto.
  - apply IH; [now inversion Hn|]. intros a0 b0 p0 Ha Hb. apply (H a0 b0 p0); right; assumption.
Qed.

Lemma NoDup_snd_inj {A B} (l : list (A * B)) a b p : NoDup (map snd l) -> In (a, p) l -> In (b, p) l -> a = b.
Proof.
  induction l as [|[x q] r IH]; simpl; intros Hn Ha Hb; [destruct Ha|].
  inversion Hn as [|? ? Hx Hr]; subst. destruct Ha as [Ha|Ha], Hb as [Hb|Hb].
  - congruence.
  - inversion Ha; subst. exfalso. apply Hx. apply in_map_iff. exists (b, p). auto.
  - inversion Hb; subst. exfalso. apply Hx. apply in_map_iff. exists (a, p). auto.
  - now apply IH.
Qed.

Lemma PD_of_params_distinct m : params_distinct m -> PD (s_edges m).
Proof. intros H c q1 q2 p H1 H2. apply In_preds in H1, H2. exact (NoDup_snd_inj _ _ _ _ (H c) H1 H2). Qed.

Lemma params_distinct_of_PD m : uniq (s_edges m) -> PD (s_edges m) -> params_distinct m.
Proof.
  intros Hu H n. apply NoDup_snd_of_fst.
  - apply preds_nodup. rewrite pairs_map_fst. exact Hu.
  - intros a b p Ha Hb. apply In_preds in Ha, Hb. exact (H n a b p Ha Hb).
Qed.

Lemma In_add_edge u v p es e : In e (add_edge u v p es) -> e = (u, v, p) \/ In e es.
Proof.
  induction es as [|x r IH]; simpl; intros H; [destruct H as [H|[]]; auto|].
  destruct (String.eqb u (e_src x) && String.eqb v (e_dst x)); simpl in H; destruct H as [H|H]; auto.
  destruct (IH H); auto.
Qed.

(** the parameter the new edge p -> c gets is not held by another parent of c *)
Definition edge_param (m : snet) (c : name) (par : option param) : param :=
  match par with Some x => x | None => PInt (List.length (get_parents m c)) end.
Definition edge_guard (m : snet) (p c : name) (par : option param) : bool :=
  forallb (fun up : name * param => negb (param_eqb (edge_param m c par) (snd up)) || String.eqb (fst up) p)
          (preds (s_edges m) c).

Lemma add_edge_m_PD m p c par m' :
  add_edge_m m p c par = Ok m' -> edge_guard m p c par = true -> PD (s_edges m) -> PD (s_edges m').
Proof.
  unfold add_edge_m. fold (edge_param m c par). intros H Hg HP.
  destruct (has c (s_nodes m)); cbn [negb] in H; [|discriminate].
  destruct (has p (s_nodes m)); cbn [negb] in H; [|discriminate].
  inversion H; subst m'. clear H. cbn [s_edges with_edges].
  assert (Hnew : forall q, In (q, c, edge_param m c par) (s_edges m) -> q = p).
  { intros q Hq. apply In_preds in Hq. unfold edge_guard in Hg. rewrite forallb_forall in Hg.
    specialize (Hg _ Hq). cbn [fst snd] in Hg.
    assert (E : param_eqb (edge_param m c par) (edge_param m c par) = true) by now apply param_eqb_eq.
    rewrite E in Hg. simpl in Hg. now apply String.eqb_eq in Hg. }
  intros c0 q1 q2 pp H1 H2. apply In_add_edge in H1, H2. destruct H1 as [E1|H1], H2 as [E2|H2].
  - congruence.
  - inversion E1; subst. symmetry. now apply Hnew.
  - inversion E2; subst. now apply Hnew.
  - exact (HP c0 q1 q2 pp H1 H2).
Qed.

Lemma fold_parents_edges n : forall parents (r : res snet) m2,
  fold_left (fun r p => do mm <- r; add_edge_m mm p n None) parents r = Ok m2 ->
  exists m1, r = Ok m1 /\ forall e, In e (s_edges m2) -> In e (s_edges m1) \/ e_dst e = n.
Proof.
  induction parents as [|p l IH]; intros r m2 H; simpl in H; [exists m2; auto|].
  apply IH in H. destruct H as [m1' [H1 Hin]].
  destruct r as [m1|e]; simpl in H1; [|discriminate]. exists m1. split; [reflexivity|].
  intros e He. destruct (Hin e He) as [H|H]; [|now right].
  unfold add_edge_m in H1.
  destruct (has n (s_nodes m1)); cbn [negb] in H1; [|discriminate].
  destruct (has p (s_nodes m1)); cbn [negb] in H1; [|discriminate].
  inversion H1; subst m1'. cbn [s_edges with_edges] in H. apply In_add_edge in H.
  destruct H as [->|H]; [right; reflexivity | now left].
Qed.

(** The additional guard.
    - [EAddNode]: the in-edge parameters of the new node come out pairwise distinct (checked on the
      result; [Operation(f, t, t, u)] above fails it);
    - [EAddEdge]: the parameter (explicit, or the next positional index) is not held by another
      parent of the child;
    - [EBecome n u]: no self-loop at [n] (the in-edges of [u] are copied onto [n] next to it). *)
Definition pd_guard (m : snet) (o : eop) : bool :=
  match o with
  | EAddNode _ n _ _ _ =>
      match step_model m o with
      | Ok m' => param_nodup_b (map snd (preds (s_edges m') n))
      | Err _ => true
      end
  | EAddEdge _ p c par => edge_guard m p c par
  | EBecome _ n _ => negb (pair_in n n (s_edges m))
  | _ => true
  end.

Theorem step_model_PD m o m' :
  pd_guard m o = true -> step_model m o = Ok m' -> PD (s_edges m) -> PD (s_edges m').
Proof.
  intros Hg H HP. destruct o as [h n st parents obs|h p c par|h n|h n u|h ps|h n v|h|h|h n f b].
  - (* EAddNode *)
    cbn [pd_guard] in Hg. rewrite H in Hg. apply param_nodup_b_sound in Hg. simpl in H.
    destruct (add_node m n st) as [m1|] eqn:Ea; simpl in H; [|discriminate].
    destruct (fold_left _ parents (Ok m1)) as [m2|] eqn:Ef; simpl in H; [|discriminate].
    apply fold_parents_edges in Ef. destruct Ef as [m1' [E1 Hin]]. inversion E1; subst m1'. clear E1.
    unfold add_node in Ea. destruct (has n (s_nodes m)); [discriminate|]. inversion Ea; subst m1. clear Ea.
    cbn [s_edges with_nodes] in Hin.
    assert (He : s_edges m' = s_edges m2) by (inversion H; subst m'; now destruct obs).
    rewrite He in *. intros c q1 q2 pp H1 H2.
    destruct (string_dec c n) as [->|Hc].
    + apply In_preds in H1, H2. exact (NoDup_snd_inj _ _ _ _ Hg H1 H2).
    + destruct (Hin _ H1) as [H1'|H1']; [|unfold e_dst in H1'; simpl in H1'; congruence].
      destruct (Hin _ H2) as [H2'|H2']; [|unfold e_dst in H2'; simpl in H2'; congruence].
      exact (HP c q1 q2 pp H1' H2').
  - simpl in H, Hg. eapply add_edge_m_PD; eauto.
  - simpl in H. unfold remove_node_checked in H. destruct (has n (s_nodes m)); [|discriminate]. inversion H; subst m'.
    intros c q1 q2 pp H1 H2. apply remove_node_edges_incl in H1, H2. exact (HP c q1 q2 pp H1 H2).
  - (* EBecome *)
    simpl in H, Hg. apply negb_true_iff in Hg. pose proof (pair_in_false _ _ _ Hg) as Hloop.
    destruct (string_dec n u) as [->|Hnu]; [destruct (update_node_self _ _ _ H)|].
    destruct (update_node_spec _ _ _ _ H Hnu) as [stu [_ [_ [_ [_ [He _]]]]]].
    assert (Hcl : forall q c pp, In (q, c, pp) (s_edges m') ->
                    (In (q, c, pp) (s_edges m) /\ c <> n) \/ (c = n /\ In (q, u, pp) (s_edges m))).
    { intros q c pp Hin. rewrite He in Hin. apply filter_In in Hin. destruct Hin as [Hin _].
      apply es4_sub in Hin. destruct Hin as [H3|[q' [p' [Heq H3]]]].
      - apply es3_sub in H3. destruct H3 as [H3 [Hs|Hd]]; unfold e_src, e_dst in *; simpl in *.
        + subst q. destruct (string_dec c n) as [->|Hc]; [exfalso; eapply Hloop; eauto | left; auto].
        + left. auto.
      - inversion Heq; subst. right. split; [reflexivity|]. now apply es3_sub in H3. }
    intros c q1 q2 pp H1 H2. apply Hcl in H1, H2.
    destruct H1 as [[H1 N1]|[N1 H1]], H2 as [[H2 N2]|[N2 H2]]; try congruence.
    + exact (HP c q1 q2 pp H1 H2).
    + exact (HP u q1 q2 pp H1 H2).
  - simpl in H. unfold set_parameter_names in H. destruct (forallb _ ps); [|discriminate]. inversion H; subst. exact HP.
  - inversion H; subst. exact HP.
  - inversion H; subst. exact HP.
  - inversion H; subst. exact HP.
  - simpl in H. unfold set_node_flag in H. destruct (has n (s_nodes m)); [|discriminate]. inversion H; subst. exact HP.
Qed.

Fixpoint pd_guards (ms : list snet) (ops : list eop) : bool :=
  match ops with
  | [] => true
  | o :: r =>
      match nth_error ms (handle_of o) with
      | None => true
      | Some m => pd_guard m o && match step ms o with Ok ms' => pd_guards ms' r | Err _ => true end
      end
  end.
Definition script_pd_ok (ops : list eop) : bool := pd_guards [empty_net] ops.

Theorem run_PD : forall ops ms ms',
  Forall (fun m => PD (s_edges m)) ms -> pd_guards ms ops = true -> run ms ops = Ok ms' ->
  Forall (fun m => PD (s_edges m)) ms'.
Proof.
  induction ops as [|o r IH]; intros ms ms' Hall Hg H; simpl in H.
  - inversion H; subst. exact Hall.
  - destruct (step ms o) as [ms1|] eqn:Es; simpl in H; [|discriminate].
    cbn [pd_guards] in Hg. assert (Hs := Es). unfold step in Hs.
    destruct (nth_error ms (handle_of o)) as [m|] eqn:En; [|discriminate].
    rewrite Es in Hg. apply andb_true_iff in Hg. destruct Hg as [Hg1 Hg2].
    destruct (step_model m o) as [m1|] eqn:Em; simpl in Hs; [|discriminate].
    assert (Hm : PD (s_edges m)) by (rewrite Forall_forall in Hall; apply Hall; eapply nth_error_In; eauto).
    pose proof (step_model_PD _ _ _ Hg1 Em Hm) as Hm1.
    apply (IH ms1 ms'); auto.
    destruct o; inversion Hs; subst; try (apply Forall_set_nth; assumption);
      apply Forall_app; split; auto.
Qed.

(** every model reachable by a script that also meets [pd_guard] has pairwise distinct in-edge
    parameters (the [EAddNode] clause of this guard is checked on the step's result; superseded by
    [reachable_params_distinct] below) *)
Lemma reachable_params_distinct_result_checked ops ms :
  run [empty_net] ops = Ok ms -> script_pd_ok ops = true -> Forall params_distinct ms.
Proof.
  intros H Hg.
  assert (HP : Forall (fun m => PD (s_edges m)) ms).
  { eapply run_PD; [|exact Hg|exact H]. constructor; [intros c q1 q2 p []|constructor]. }
  assert (Huq : Forall (fun m => uniq (s_edges m)) ms).
  { eapply run_uniq; [|exact H]. constructor; [constructor | constructor]. }
  rewrite Forall_forall in *. intros m Hm. apply params_distinct_of_PD; auto.
Qed.

(** ---- (2'') the syntactic [EAddNode] clause ---- *)
(** [Operation(f, p0, ..., pk-1)] with pairwise distinct parent names on a structurally consistent
    model ([Closed]: no edge points at a name that is not a node yet): the i-th positional parent
    gets the parameter [PInt i]. *)
Local Open Scope list_scope.
Lemma preds_add_edge_new u v p : forall es,
  ~ In u (map fst (preds es v)) -> preds (add_edge u v p es) v = preds es v ++ [(u, p)].
Proof.
  induction es as [|e r IH]; intros Hn.
  - unfold preds. cbn. rewrite String.eqb_refl. reflexivity.
  - cbn [add_edge]. destruct (String.eqb u (e_src e) && String.eqb v (e_dst e)) eqn:E.
    + exfalso. apply andb_true_iff in E. destruct E as [E1 E2]. apply Hn.
      unfold preds. cbn [filter]. rewrite E2. cbn [map fst]. left. apply String.eqb_eq in E1. now symmetry.
    + unfold preds in *. cbn [filter] in *. destruct (String.eqb v (e_dst e)) eqn:Ed; cbn [map app] in *.
      * f_equal. apply IH. intros H. apply Hn. now right.
      * apply IH. exact Hn.
Qed.

Lemma insert_parent_length a l : List.length (insert_parent a l) = S (List.length l).
Proof.
  induction l as [|b r IH]; simpl; [reflexivity|].
  destruct (Nat.ltb (fst a) (fst b)); simpl; [reflexivity | now rewrite IH].
Qed.

Lemma fold_insert_length : forall xs acc,
  List.length (fold_left (fun acc a => insert_parent a acc) xs acc) = List.length xs + List.length acc.
Proof. induction xs as [|x r IH]; intros acc; simpl; [reflexivity|]. rewrite IH, insert_parent_length. lia. Qed.

Lemma positional_length : forall (P : list (name * param)) l, map snd P = map PInt l ->
  List.length (flat_map (fun up : name * param => match snd up with PInt i => [(i, fst up)] | PStr _ => [] end) P)
  = List.length l.
Proof.
  induction P as [|[u p] r IH]; intros [|i l] H; simpl in *; try discriminate; [reflexivity|].
  inversion H; subst. simpl. f_equal. now apply IH.
Qed.

Lemma get_parents_length m c l :
  map snd (preds (s_edges m) c) = map PInt l -> List.length (get_parents m c) = List.length l.
Proof.
  intros H. unfold get_parents. rewrite map_length, fold_insert_length. simpl. rewrite Nat.add_0_r.
  now apply positional_length.
Qed.

Lemma fold_parents_params n : forall parents done m1 m2,
  map fst (preds (s_edges m1) n) = done ->
  map snd (preds (s_edges m1) n) = map PInt (seq 0 (List.length done)) ->
  NoDup (done ++ parents) ->
  fold_left (fun r p => do mm <- r; add_edge_m mm p n None) parents (Ok m1) = Ok m2 ->
  map fst (preds (s_edges m2) n) = done ++ parents
  /\ map snd (preds (s_edges m2) n) = map PInt (seq 0 (List.length (done ++ parents))).
Proof.
  induction parents as [|p l IH]; intros done m1 m2 Hf Hs Hnd H; simpl in H.
  - inversion H; subst m2. rewrite app_nil_r. auto.
  - destruct (add_edge_m m1 p n None) as [m1'|e] eqn:Ea; simpl in H.
    2:{ apply fold_parents_frame in H. destruct H as [? [H _]]. discriminate. }
    assert (Hp : ~ In p done).
    { apply NoDup_remove_2 in Hnd. intros Hin. apply Hnd. apply in_or_app. now left. }
    unfold add_edge_m in Ea.
    destruct (has n (s_nodes m1)); cbn [negb] in Ea; [|discriminate].
    destruct (has p (s_nodes m1)); cbn [negb] in Ea; [|discriminate].
    inversion Ea; subst m1'. clear Ea.
    replace (done ++ p :: l) with ((done ++ [p]) ++ l) by (rewrite <- app_assoc; reflexivity).
    refine (IH (done ++ [p]) _ m2 _ _ _ H); cbn [s_edges with_edges].
    + rewrite preds_add_edge_new, map_app, Hf; [reflexivity | rewrite Hf; exact Hp].
    + rewrite preds_add_edge_new, map_app, Hs by (rewrite Hf; exact Hp).
      rewrite (get_parents_length _ _ _ Hs), seq_length, app_length. simpl.
      rewrite Nat.add_1_r, seq_S, map_app. reflexivity.
    + rewrite <- app_assoc. exact Hnd.
Qed.

Theorem add_node_positional_params m h n st parents obs m' :
  Closed m -> NoDup parents -> step_model m (EAddNode h n st parents obs) = Ok m' ->
  map fst (preds (s_edges m') n) = parents
  /\ map snd (preds (s_edges m') n) = map PInt (seq 0 (List.length parents)).
Proof.
  intros Hc Hnd H. simpl in H.
  destruct (add_node m n st) as [m1|] eqn:Ea; simpl in H; [|discriminate].
  destruct (fold_left _ parents (Ok m1)) as [m2|] eqn:Ef; simpl in H; [|discriminate].
  assert (He : s_edges m' = s_edges m2) by (inversion H; subst m'; now destruct obs).
  rewrite He.
  unfold add_node in Ea. destruct (has n (s_nodes m)) eqn:Eh; [discriminate|]. inversion Ea; subst m1. clear Ea.
  apply has_false_In in Eh.
  assert (Hnil : preds (s_edges m) n = []).
  { destruct (preds (s_edges m) n) as [|[u p] r] eqn:E; [reflexivity|]. exfalso.
    assert (Hin : In (u, p) (preds (s_edges m) n)) by (rewrite E; now left).
    apply In_preds in Hin. apply (cl_edges _ Hc) in Hin. destruct Hin as [_ Hd]. apply Eh. exact Hd. }
  refine (fold_parents_params n parents [] _ m2 _ _ _ Ef); cbn [s_edges with_nodes]; try (rewrite Hnil; reflexivity); auto.
Qed.

Lemma NoDup_positional k : NoDup (map PInt (seq 0 k)).
Proof.
  apply FinFun.Injective_map_NoDup; [|apply seq_NoDup]. intros a b E. now inversion E.
Qed.

Lemma param_nodup_b_complete l : NoDup l -> param_nodup_b l = true.
Proof.
  induction l as [|x r IH]; intros H; [reflexivity|]. inversion H as [|? ? Hx Hr]; subst. simpl.
  rewrite (IH Hr), andb_true_r. apply negb_true_iff.
  destruct (existsb (param_eqb x) r) eqn:E; [|reflexivity].
  apply existsb_exists in E. destruct E as [y [Hy E]]. apply param_eqb_eq in E. subst y. contradiction.
Qed.

(** The guard, every clause read off the call and the model before it:
    - [EAddNode h n st parents obs]: the positional parents are pairwise distinct names;
    - [EAddEdge]: the parameter (explicit, or the next positional index) is not held by another
      parent of the child;
    - [EBecome n u]: no self-loop at [n];
    - [ESetObserved n v]: [n] is a node (the clause of [step_guard]; it keeps the observed dict
      inside the node set, which [Closed] asks for). *)
Definition pd_guard' (m : snet) (o : eop) : bool :=
  match o with
  | EAddNode _ _ _ parents _ => nodup_b parents
  | EAddEdge _ p c par => edge_guard m p c par
  | EBecome _ n _ => negb (pair_in n n (s_edges m))
  | ESetObserved _ n _ => has n (s_nodes m)
  | _ => true
  end.

Lemma pd_guard'_closed m o m' : Closed m -> pd_guard' m o = true -> step_model m o = Ok m' -> Closed m'.
Proof.
  intros Hc Hg H. destruct o as [h n st parents obs|h p c par|h n|h n u|h ps|h n v|h|h|h n f b];
    try (eapply step_model_closed; [exact Hc | | exact H]; reflexivity).
  - simpl in H. destruct (string_dec n u) as [->|Hnu]; [destruct (update_node_self _ _ _ H)|].
    exact (become_closed _ _ _ _ Hc H Hnu).
  - exact (step_model_closed m (ESetObserved h n v) m' Hc Hg H).
Qed.

(** the syntactic guard implies the result-checked one on a structurally consistent model *)
Lemma pd_guard'_pd_guard m o m' : Closed m -> pd_guard' m o = true -> step_model m o = Ok m' -> pd_guard m o = true.
Proof.
  intros Hc Hg H. destruct o as [h n st parents obs|h p c par|h n|h n u|h ps|h n v|h|h|h n f b];
    try exact Hg; try reflexivity.
  cbn [pd_guard pd_guard'] in *. rewrite H. apply param_nodup_b_complete.
  apply nodup_b_sound in Hg.
  destruct (add_node_positional_params _ _ _ _ _ _ _ Hc Hg H) as [_ ->]. apply NoDup_positional.
Qed.

Theorem step_model_PD' m o m' :
  Closed m -> pd_guard' m o = true -> step_model m o = Ok m' -> PD (s_edges m) -> PD (s_edges m').
Proof. intros Hc Hg H. apply (step_model_PD m o m'); [eapply pd_guard'_pd_guard; eauto | exact H]. Qed.

Fixpoint pd_guards' (ms : list snet) (ops : list eop) : bool :=
  match ops with
  | [] => true
  | o :: r =>
      match nth_error ms (handle_of o) with
      | None => true
      | Some m => pd_guard' m o && match step ms o with Ok ms' => pd_guards' ms' r | Err _ => true end
      end
  end.
Definition script_pd_ok' (ops : list eop) : bool := pd_guards' [empty_net] ops.

Theorem run_PD' : forall ops ms ms',
  Forall (fun m => Closed m /\ PD (s_edges m)) ms -> pd_guards' ms ops = true -> run ms ops = Ok ms' ->
  Forall (fun m => Closed m /\ PD (s_edges m)) ms'.
Proof.
  induction ops as [|o r IH]; intros ms ms' Hall Hg H; simpl in H.
  - inversion H; subst. exact Hall.
  - destruct (step ms o) as [ms1|] eqn:Es; simpl in H; [|discriminate].
    cbn [pd_guards'] in Hg. assert (Hs := Es). unfold step in Hs.
    destruct (nth_error ms (handle_of o)) as [m|] eqn:En; [|discriminate].
    rewrite Es in Hg. apply andb_true_iff in Hg. destruct Hg as [Hg1 Hg2].
    destruct (step_model m o) as [m1|] eqn:Em; simpl in Hs; [|discriminate].
    assert (Hm : Closed m /\ PD (s_edges m)) by (rewrite Forall_forall in Hall; apply Hall; eapply nth_error_In; eauto).
    destruct Hm as [Hmc Hmp].
    assert (Hm1 : Closed m1 /\ PD (s_edges m1))
      by (split; [exact (pd_guard'_closed _ _ _ Hmc Hg1 Em) | exact (step_model_PD' _ _ _ Hmc Hg1 Em Hmp)]).
    apply (IH ms1 ms'); auto.
    destruct o; inversion Hs; subst; try (apply Forall_set_nth; assumption);
      apply Forall_app; split; auto.
Qed.

(** every model reachable by a script that meets [pd_guard'] has pairwise distinct in-edge parameters *)
Theorem reachable_params_distinct ops ms :
  run [empty_net] ops = Ok ms -> script_pd_ok' ops = true -> Forall params_distinct ms.
Proof.
  intros H Hg.
  assert (HP : Forall (fun m => Closed m /\ PD (s_edges m)) ms).
  { eapply run_PD'; [|exact Hg|exact H]. constructor; [split; [exact Closed_empty | intros c q1 q2 p []]|constructor]. }
  assert (Huq : Forall (fun m => uniq (s_edges m)) ms).
  { eapply run_uniq; [|exact H]. constructor; [constructor | constructor]. }
  rewrite Forall_forall in *. intros m Hm. apply params_distinct_of_PD; auto. now apply HP.
Qed.

(** the link without the [params_distinct] hypothesis *)
Theorem scripts_same_model_same_generate_guarded ops1 ops2 ms1 ms2 m1 m2 outs W :
  run [empty_net] ops1 = Ok ms1 -> script_ok ops1 = true -> script_pd_ok' ops1 = true -> In m1 ms1 ->
  run [empty_net] ops2 = Ok ms2 -> script_ok ops2 = true -> In m2 ms2 ->
  same_model m1 m2 ->
  NoDup (map fst W) -> (forall k, In k (map fst W) -> ~ In k inames) -> outputs_wf m1 outs ->
  same_result (generate m1 outs W) (generate m2 outs W).
Proof.
  intros H1 G1 P1 I1 H2 G2 I2 Hsm. apply (scripts_same_model_same_generate ops1 ops2 ms1 ms2); auto.
  pose proof (reachable_params_distinct _ _ H1 P1) as Hall. rewrite Forall_forall in Hall. now apply Hall.
Qed.

Example two_scripts_pd_ok : script_pd_ok' ex_ops_a = true /\ script_pd_ok' ex_ops_b = true.
Proof. vm_compute. split; reflexivity. Qed.

(** the three scripts of (2) are refused by the guard: repeated parent ([NoDup parents]), index
    reuse after a removal and the explicit index ([edge_guard]) *)
Example refuted_scripts_refused :
  script_pd_ok' [ EAddNode 0 "t" (st_prior "t") [] None; EAddNode 0 "u" (st_prior "u") [] None;
                  EAddNode 0 "o" (st_op "o") ["t"; "t"; "u"] None ] = false
  /\ script_pd_ok' [ EAddNode 0 "t" (st_prior "t") [] None; EAddNode 0 "u" (st_prior "u") [] None;
                     EAddNode 0 "v" (st_prior "v") [] None;
                     EAddNode 0 "o" (st_op "o") ["t"; "u"] None;
                     ERemove 0 "t"; EAddEdge 0 "v" "o" None ] = false
  /\ script_pd_ok' [ EAddNode 0 "t" (st_prior "t") [] None; EAddNode 0 "u" (st_prior "u") [] None;
                     EAddNode 0 "o" (st_op "o") ["t"] None; EAddEdge 0 "u" "o" (Some (PInt 0)) ] = false.
Proof. vm_compute. repeat split. Qed.
