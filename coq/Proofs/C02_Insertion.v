(** C02, end to end: [ElfiModel.generate] does not depend on the ORDER in which the nodes, the
    edges and the observed data of a model were inserted.

    Two source nets with permuted node lists, edge lists and observed dicts give, through
    compile (five compilers incl. the reduction) -> load -> execute, syntactically equal results:
    the same values for the requested outputs AND the same order of operation calls (hence the
    same sequence of draws from the single batch generator).

    Ingredients: the user-level meaning [den_name] is invariant under permutations of the source
    net ([den_name_perm]; the call [mk_call] of an operation is invariant under permutations of
    its parents when their parameters are pairwise distinct, [mk_call_perm_app]); the loaded
    nets have permuted edge lists and the same duplicate-free node-name set, so the name-sorted
    DFS order is the same list ([loaded_sort_order]); the call log is a filter of that list and
    has, by [model_log_exact], the elements of [needed_ops], a permutation-invariant set. *)
From Coq Require Import List String Ascii ZArith Arith Bool Lia Permutation.
From Elfi Require Import Base.StrOrder Graph.Net Graph.Denote Proofs.C03_Exec Proofs.C03_Compile Proofs.C03_Ancestors
     Proofs.C02_Order Proofs.C05_Pool Proofs.C05_Cache Proofs.C03_EndToEnd Proofs.C03_Twins Proofs.C03_ModelOk.
From Elfi Require Graph.Determinism.
Import ListNotations.

(** the same model, built in another insertion order *)
Definition same_model (src src' : snet) : Prop :=
  Permutation (s_nodes src) (s_nodes src') /\ Permutation (s_edges src) (s_edges src')
  /\ Permutation (s_observed src) (s_observed src').

(** the parameters on the incoming edges of every node are pairwise distinct (ELFI: positional
    parents get consecutive indices, keyword parents distinct names) *)
Definition params_distinct (src : snet) : Prop :=
  forall n, NoDup (map snd (preds (s_edges src) n)).

(** ---- list facts ---- *)
Lemma perm_filter {A} (f : A -> bool) l l' : Permutation l l' -> Permutation (filter f l) (filter f l').
Proof.
  induction 1 as [| x l l' _ IH | x y l | l l' l'' _ IH1 _ IH2]; simpl.
  - constructor.
  - destruct (f x); [now constructor | exact IH].
  - destruct (f x), (f y); try reflexivity. apply perm_swap.
  - etransitivity; eauto.
Qed.

Lemma perm_filter_ext {A} (f f' : A -> bool) l l' :
  Permutation l l' -> (forall x, f x = f' x) -> Permutation (filter f l) (filter f' l').
Proof. intros Hp He. rewrite (filter_ext _ _ He). now apply perm_filter. Qed.

Lemma filter_filter {A} (f h : A -> bool) l : filter f (filter h l) = filter (fun x => h x && f x) l.
Proof.
  induction l as [|x r IH]; simpl; [reflexivity|]. destruct (h x); simpl; [|exact IH].
  destruct (f x); now rewrite IH.
Qed.

Lemma filter_all {A} (f : A -> bool) l : (forall x, In x l -> f x = true) -> filter f l = l.
Proof.
  induction l as [|x r IH]; intros H; simpl; [reflexivity|].
  rewrite (H x (or_introl eq_refl)). f_equal. apply IH. intros y Hy. apply H. now right.
Qed.

Lemma existsb_ext_in {A} (f f' : A -> bool) l : (forall x, In x l -> f x = f' x) -> existsb f l = existsb f' l.
Proof.
  induction l as [|x r IH]; intros H; simpl; [reflexivity|].
  rewrite (H x (or_introl eq_refl)), IH; [reflexivity|]. intros y Hy. apply H. now right.
Qed.

Lemma existsb_perm {A} (f : A -> bool) l l' : Permutation l l' -> existsb f l = existsb f l'.
Proof.
  induction 1 as [| x l l' _ IH | x y l | l l' l'' _ IH1 _ IH2]; simpl.
  - reflexivity.
  - now rewrite IH.
  - destruct (f x), (f y); reflexivity.
  - congruence.
Qed.

Lemma perm_flat_map2 {A B} (f f' : A -> list B) l l' :
  Permutation l l' -> (forall x, Permutation (f x) (f' x)) -> Permutation (flat_map f l) (flat_map f' l').
Proof.
  intros Hp Hf. transitivity (flat_map f' l); [|now apply Permutation_flat_map].
  clear Hp. induction l as [|x r IH]; simpl; [constructor|]. now apply Permutation_app.
Qed.

Lemma bool_eq_iff (a b : bool) : (a = true <-> b = true) -> a = b.
Proof. destruct a, b; intros [H1 H2]; try reflexivity; [symmetry; now apply H1 | now apply H2]. Qed.

(** ---- association lists with distinct keys are dicts: permutation invariant ---- *)
Lemma has_In {A} n (l : list (name * A)) : has n l = true <-> In n (map fst l).
Proof.
  unfold has. destruct (lookup n l) as [a|] eqn:E.
  - split; [intros _; eapply lookup_key_In; eauto | reflexivity].
  - apply lookup_None_iff in E. split; [discriminate | contradiction].
Qed.

Lemma lookup_perm {A} n (l l' : list (name * A)) :
  NoDup (map fst l) -> Permutation l l' -> lookup n l = lookup n l'.
Proof.
  intros Hnd Hp. destruct (lookup n l) as [a|] eqn:E.
  - symmetry. apply In_pair_lookup.
    + eapply Permutation_NoDup; [|exact Hnd]. now apply Permutation_map.
    + eapply Permutation_in; [exact Hp|]. now apply lookup_In_pair.
  - symmetry. apply lookup_None_iff. apply lookup_None_iff in E. intros Hin. apply E.
    eapply Permutation_in; [|exact Hin]. apply Permutation_sym. now apply Permutation_map.
Qed.

Lemma has_perm {A} n (l l' : list (name * A)) : Permutation l l' -> has n l = has n l'.
Proof.
  intros Hp. apply bool_eq_iff. rewrite !has_In.
  split; apply Permutation_in; [|apply Permutation_sym]; now apply Permutation_map.
Qed.

Lemma NoDup_fst_inj {A} (l : list (name * A)) n a b : NoDup (map fst l) -> In (n, a) l -> In (n, b) l -> a = b.
Proof.
  intros Hnd Ha Hb. pose proof (In_pair_lookup _ _ _ Hnd Ha) as H1. pose proof (In_pair_lookup _ _ _ Hnd Hb) as H2.
  congruence.
Qed.

Lemma preds_perm es es' n : Permutation es es' -> Permutation (preds es n) (preds es' n).
Proof. intros H. unfold preds. apply Permutation_map. now apply perm_filter. Qed.

(** ---- [set]: the keys and the lookups after an update ---- *)
Lemma set_names {A} n (a : A) l : map fst (set n a l) = if has n l then map fst l else map fst l ++ [n].
Proof.
  unfold has. induction l as [|[m b] r IH]; simpl; [reflexivity|].
  destruct (String.eqb n m) eqn:E; simpl.
  - apply String.eqb_eq in E. now subst.
  - rewrite IH. destruct (lookup n r); reflexivity.
Qed.

Lemma lookup_set {A} n (a : A) l m : lookup m (set n a l) = if String.eqb m n then Some a else lookup m l.
Proof.
  destruct (String.eqb m n) eqn:E.
  - apply String.eqb_eq in E. subst. apply lookup_set_same.
  - apply String.eqb_neq in E. apply lookup_set_other. congruence.
Qed.

Lemma has_set {A} n (a : A) l m : has m (set n a l) = (String.eqb m n || has m l).
Proof. unfold has. rewrite lookup_set. destruct (String.eqb m n); reflexivity. Qed.

(** ================================================================================== *)
(** ---- [mk_call] does not depend on the order of parents with distinct parameters ---- *)
Definition arg_step (acc : list (nat * value)) (x : param * value) : list (nat * value) :=
  match fst x with PInt i => acc ++ [(i, snd x)] | PStr _ => acc end.
Definition kw_step (acc : list (name * value)) (x : param * value) : list (name * value) :=
  match fst x with PStr s => set s (snd x) acc | PInt _ => acc end.
Definition ins_step (acc : list (nat * value)) (a : nat * value) : list (nat * value) := insert_arg a acc.

Definition call_of (o : op) (args : list (nat * value)) (kw : list (name * value)) : value :=
  VApp o (map snd args)
       (map (fun s => (s, match lookup s kw with Some v => v | None => VBatch end)) (sort_names (map fst kw))).

Lemma mk_call_eq o pv :
  mk_call o pv = call_of o (fold_left ins_step (fold_left arg_step pv []) []) (fold_left kw_step pv []).
Proof. reflexivity. Qed.

(** positional arguments *)
Definition argsl (pv : list (param * value)) : list (nat * value) :=
  flat_map (fun x : param * value => match fst x with PInt i => [(i, snd x)] | PStr _ => [] end) pv.

Lemma arg_fold : forall pv acc, fold_left arg_step pv acc = acc ++ argsl pv.
Proof.
  induction pv as [|x r IH]; intros acc; simpl; [now rewrite app_nil_r|].
  rewrite IH. unfold arg_step. destruct (fst x); simpl; [now rewrite <- app_assoc | reflexivity].
Qed.

Lemma argsl_keys pv i : In i (map fst (argsl pv)) -> In (PInt i) (map fst pv).
Proof.
  induction pv as [|[p v] r IH]; simpl; [tauto|]. destruct p as [j|s]; simpl.
  - intros [->|H]; [now left | right; now apply IH].
  - intros H. right. now apply IH.
Qed.

Lemma argsl_nodup pv : NoDup (map fst pv) -> NoDup (map fst (argsl pv)).
Proof.
  induction pv as [|[p v] r IH]; simpl; intros H; [constructor|].
  inversion H as [|? ? Hp Hr]; subst. destruct p as [j|s]; simpl; [|now apply IH].
  constructor; [|now apply IH]. intros Hin. apply Hp. now apply argsl_keys.
Qed.

Lemma insert_arg_comm x y : fst x <> fst y -> forall l,
  insert_arg x (insert_arg y l) = insert_arg y (insert_arg x l).
Proof.
  intros Hne. induction l as [|b r IH]; simpl.
  - destruct (Nat.ltb (fst x) (fst y)) eqn:E1; destruct (Nat.ltb (fst y) (fst x)) eqn:E2; try reflexivity.
    + apply Nat.ltb_lt in E1, E2. lia.
    + apply Nat.ltb_ge in E1, E2. lia.
  - destruct (Nat.ltb (fst y) (fst b)) eqn:Eyb; destruct (Nat.ltb (fst x) (fst b)) eqn:Exb; simpl;
      rewrite ?Eyb, ?Exb.
    + destruct (Nat.ltb (fst x) (fst y)) eqn:E1; destruct (Nat.ltb (fst y) (fst x)) eqn:E2;
        simpl; rewrite ?Eyb, ?Exb; try reflexivity.
      * apply Nat.ltb_lt in E1, E2. lia.
      * apply Nat.ltb_ge in E1, E2. lia.
    + assert (E : Nat.ltb (fst x) (fst y) = false).
      { apply Nat.ltb_ge. apply Nat.ltb_lt in Eyb. apply Nat.ltb_ge in Exb. lia. }
      now rewrite E.
    + assert (E : Nat.ltb (fst y) (fst x) = false).
      { apply Nat.ltb_ge. apply Nat.ltb_lt in Exb. apply Nat.ltb_ge in Eyb. lia. }
      now rewrite E.
    + now rewrite IH.
Qed.

Lemma ins_fold_perm l l' : Permutation l l' -> NoDup (map fst l) ->
  forall acc, fold_left ins_step l acc = fold_left ins_step l' acc.
Proof.
  induction 1 as [| x l l' Hp IH | x y l | l l' l'' Hp1 IH1 Hp2 IH2]; intros Hnd acc; simpl.
  - reflexivity.
  - inversion Hnd; subst. now apply IH.
  - f_equal. unfold ins_step. apply insert_arg_comm.
    simpl in Hnd. inversion Hnd as [|? ? Hy _]; subst. intros Heq. apply Hy. left. now symmetry.
  - rewrite IH1 by exact Hnd. apply IH2.
    eapply Permutation_NoDup; [|exact Hnd]. now apply Permutation_map.
Qed.

(** keyword arguments: dicts up to the order of the keys *)
Definition deq (d d' : list (name * value)) : Prop :=
  Permutation (map fst d) (map fst d') /\ forall s, lookup s d = lookup s d'.

Lemma deq_refl d : deq d d.
Proof. split; [reflexivity | reflexivity]. Qed.

Lemma deq_trans a b c : deq a b -> deq b c -> deq a c.
Proof. intros [H1 H2] [H3 H4]. split; [etransitivity; eauto | intros s; now rewrite H2]. Qed.

Lemma deq_has d d' s : deq d d' -> has s d = has s d'.
Proof. intros [_ H]. unfold has. now rewrite H. Qed.

Lemma deq_set s v d d' : deq d d' -> deq (set s v d) (set s v d').
Proof.
  intros H. pose proof (deq_has _ _ s H) as Hh. destruct H as [H1 H2]. split.
  - rewrite !set_names, <- Hh. destruct (has s d); [exact H1 | now apply Permutation_app_tail].
  - intros t. rewrite !lookup_set. destruct (String.eqb t s); [reflexivity | apply H2].
Qed.

Lemma deq_set_comm s1 v1 s2 v2 d : s1 <> s2 -> deq (set s2 v2 (set s1 v1 d)) (set s1 v1 (set s2 v2 d)).
Proof.
  intros Hne. split.
  - rewrite !set_names, !has_set.
    assert (E1 : String.eqb s2 s1 = false) by (apply String.eqb_neq; congruence).
    assert (E2 : String.eqb s1 s2 = false) by (now apply String.eqb_neq).
    rewrite E1, E2. cbn [orb]. rewrite ?set_names.
    destruct (has s1 d), (has s2 d); try reflexivity.
    rewrite <- !app_assoc. apply Permutation_app_head. apply perm_swap.
  - intros t. rewrite !lookup_set.
    destruct (String.eqb t s2) eqn:E2; destruct (String.eqb t s1) eqn:E1; try reflexivity.
    apply String.eqb_eq in E1, E2. congruence.
Qed.

Lemma deq_kw_step d d' x : deq d d' -> deq (kw_step d x) (kw_step d' x).
Proof. intros H. unfold kw_step. destruct (fst x); [exact H | now apply deq_set]. Qed.

Lemma deq_kw_fold : forall l d d', deq d d' -> deq (fold_left kw_step l d) (fold_left kw_step l d').
Proof. induction l as [|x r IH]; intros d d' H; simpl; [exact H|]. apply IH. now apply deq_kw_step. Qed.

Lemma kw_fold_perm l l' : Permutation l l' -> NoDup (map fst l) ->
  forall d d', deq d d' -> deq (fold_left kw_step l d) (fold_left kw_step l' d').
Proof.
  induction 1 as [| x l l' Hp IH | x y l | l l' l'' Hp1 IH1 Hp2 IH2]; intros Hnd d d' Hd; simpl.
  - exact Hd.
  - inversion Hnd; subst. apply IH; [assumption|]. now apply deq_kw_step.
  - apply deq_kw_fold.
    simpl in Hnd. inversion Hnd as [|? ? Hy _]; subst.
    unfold kw_step at 1 2 3 4. destruct (fst x) as [i|s] eqn:Ex; destruct (fst y) as [j|t] eqn:Ey;
      try (exact Hd); try (now apply deq_set).
    eapply deq_trans; [apply deq_set_comm | apply deq_set; apply deq_set; exact Hd].
    intros Heq. apply Hy. left. now subst.
  - eapply deq_trans; [apply IH1; [exact Hnd | apply deq_refl]|]. apply IH2; [|exact Hd].
    eapply Permutation_NoDup; [|exact Hnd]. now apply Permutation_map.
Qed.

Lemma call_of_deq o args kw kw' : deq kw kw' -> call_of o args kw = call_of o args kw'.
Proof.
  intros [H1 H2]. unfold call_of. rewrite (sort_names_permutation _ _ H1). f_equal.
  apply map_ext. intros s. now rewrite H2.
Qed.

(** the parents [pv] may come in any order; [t] holds the trailing keyword arguments *)
Theorem mk_call_perm_app o pv pv' t :
  Permutation pv pv' -> NoDup (map fst pv) -> mk_call o (pv ++ t) = mk_call o (pv' ++ t).
Proof.
  intros Hp Hnd. rewrite !mk_call_eq, !fold_left_app, !arg_fold. cbn [app]. rewrite !fold_left_app.
  rewrite (ins_fold_perm (argsl pv) (argsl pv')).
  - apply call_of_deq. apply deq_kw_fold. apply kw_fold_perm; [exact Hp | exact Hnd | apply deq_refl].
  - unfold argsl. now apply Permutation_flat_map.
  - now apply argsl_nodup.
Qed.

Corollary mk_call_perm o pv pv' : Permutation pv pv' -> NoDup (map fst pv) -> mk_call o pv = mk_call o pv'.
Proof. intros Hp Hnd. rewrite <- (app_nil_r pv), <- (app_nil_r pv'). now apply mk_call_perm_app. Qed.

(** ================================================================================== *)
(** ---- well-formedness and the node attributes are insertion-order independent ---- *)
Section SameModel.
  Variables (src src' : snet).
  Hypothesis Hwf : wfsrc src.
  Hypothesis Hsm : same_model src src'.

  Let Hpn : Permutation (s_nodes src) (s_nodes src') := proj1 Hsm.
  Let Hpe : Permutation (s_edges src) (s_edges src') := proj1 (proj2 Hsm).
  Let Hpo : Permutation (s_observed src) (s_observed src') := proj2 (proj2 Hsm).

  Lemma sm_lookup n : lookup n (s_nodes src) = lookup n (s_nodes src').
  Proof. apply lookup_perm; [exact (wf_nodup _ Hwf) | exact Hpn]. Qed.

  Lemma sm_has n : has n (s_nodes src) = has n (s_nodes src').
  Proof. unfold has. now rewrite sm_lookup. Qed.

  Lemma sm_flag f n : flag src f n = flag src' f n.
  Proof. unfold flag, sstate_of. now rewrite sm_lookup. Qed.

  Lemma sm_link n : link src n = link src' n.
  Proof. unfold link. now rewrite sm_flag. Qed.

  Lemma sm_observed n : lookup n (s_observed src) = lookup n (s_observed src').
  Proof. apply lookup_perm; [exact (wf_observed_nodup _ Hwf) | exact Hpo]. Qed.

  Lemma sm_preds n : Permutation (preds (s_edges src) n) (preds (s_edges src') n).
  Proof. apply preds_perm. exact Hpe. Qed.

  Lemma sm_length : List.length (s_nodes src) = List.length (s_nodes src').
  Proof. now apply Permutation_length. Qed.

  Lemma wfsrc_perm : wfsrc src'.
  Proof.
    constructor.
    - eapply Permutation_NoDup; [|exact (wf_nodup _ Hwf)]. now apply Permutation_map.
    - intros e He. rewrite <- !sm_has. apply (wf_edges _ Hwf).
      eapply Permutation_in; [apply Permutation_sym; exact Hpe | exact He].
    - eapply Permutation_NoDup; [|exact (wf_edge_nodup _ Hwf)]. now apply Permutation_map.
    - intros n Hn. rewrite <- sm_has. now apply (wf_reserved _ Hwf).
    - intros n st Hin. apply (wf_obs_output _ Hwf n st).
      eapply Permutation_in; [apply Permutation_sym; exact Hpn | exact Hin].
    - eapply Permutation_NoDup; [|exact (wf_observed_nodup _ Hwf)]. now apply Permutation_map.
    - intros k Hk. rewrite <- sm_flag. apply (wf_observed_nodes _ Hwf).
      eapply Permutation_in; [|exact Hk]. apply Permutation_sym. now apply Permutation_map.
  Qed.

  Lemma outputs_wf_perm outs : outputs_wf src outs -> outputs_wf src' outs.
  Proof.
    intros H o Ho. destruct (H o Ho) as [H1 | [x [st [Hl Hr]]]].
    - left. now rewrite <- sm_has.
    - right. exists x, st. rewrite <- sm_lookup. auto.
  Qed.
End SameModel.

Lemma same_model_sym src src' : same_model src src' -> same_model src' src.
Proof. intros [A [B C]]. repeat split; now apply Permutation_sym. Qed.

(** ================================================================================== *)
(** ---- the user-level meaning is insertion-order independent ---- *)

(** the parents' values, paired with the parameters *)
Fixpoint pvs_of (F : name -> option value) (ps : list (name * param)) : option (list (param * value)) :=
  match ps with
  | [] => Some []
  | pp :: r => match F (fst pp), pvs_of F r with
               | Some v, Some r' => Some ((snd pp, v) :: r')
               | _, _ => None
               end
  end.

Lemma all_some_pvs {B} (F : name -> option value) : forall ps (K : list (param * value) -> option B),
  match all_some (map (fun pp : name * param => F (fst pp)) ps) with
  | Some vs => K (combine (map snd ps) vs)
  | None => None
  end = match pvs_of F ps with Some b => K b | None => None end.
Proof.
  induction ps as [|pp r IH]; intros K; simpl; [reflexivity|].
  destruct (F (fst pp)) as [a|]; [|reflexivity].
  specialize (IH (fun b => K ((snd pp, a) :: b))).
  destruct (all_some (map (fun pp0 : name * param => F (fst pp0)) r)); destruct (pvs_of F r); simpl in *; exact IH.
Qed.

Lemma pvs_keys F : forall ps b, pvs_of F ps = Some b -> map fst b = map snd ps.
Proof.
  induction ps as [|pp r IH]; intros b H; simpl in H; [inversion H; reflexivity|].
  destruct (F (fst pp)); [|discriminate]. destruct (pvs_of F r) as [r'|]; [|discriminate].
  inversion H; subst. simpl. f_equal. now apply IH.
Qed.

Lemma pvs_ext F F' : (forall u, F u = F' u) -> forall ps, pvs_of F ps = pvs_of F' ps.
Proof. intros H. induction ps as [|pp r IH]; simpl; [reflexivity|]. now rewrite H, IH. Qed.

Definition operm {A} (a b : option (list A)) : Prop :=
  match a, b with
  | Some x, Some y => Permutation x y
  | None, None => True
  | _, _ => False
  end.

Lemma pvs_perm F ps ps' : Permutation ps ps' -> operm (pvs_of F ps) (pvs_of F ps').
Proof.
  induction 1 as [| x l l' _ IH | x y l | l l' l'' _ IH1 _ IH2]; simpl.
  - constructor.
  - destruct (F (fst x)); [|exact I].
    destruct (pvs_of F l), (pvs_of F l'); simpl in *; try tauto. now constructor.
  - destruct (F (fst x)), (F (fst y)), (pvs_of F l); simpl; try exact I. apply perm_swap.
  - unfold operm in *. destruct (pvs_of F l), (pvs_of F l'), (pvs_of F l''); try tauto. etransitivity; eauto.
Qed.

(** one unfolding of [den], with the parents' values gathered by [pvs_of] *)
Lemma den_twin_eq src W f n st : lookup n (s_nodes src) = Some st ->
  den (S f) src W true n =
  match lookup (observed_name n) W with
  | Some v => Some v
  | None =>
      if s_observable st then
        match lookup n (s_observed src) with
        | Some v => Some v
        | None =>
            if s_stochastic st then Some (VApp (OpUser (s_opid st)) [] [])
            else match pvs_of (Dlink src W f) (preds (s_edges src) n) with
                 | Some b => Some (mk_call (OpUser (s_opid st)) b)
                 | None => None
                 end
        end
      else if s_uses_observed st then
        if s_stochastic st then Some (mk_call OpTuple [])
        else match pvs_of (Dlink src W f) (preds (s_edges src) n) with
             | Some b => Some (mk_call OpTuple b)
             | None => None
             end
      else None
  end.
Proof.
  intros Hl. rewrite (den_twin_step src W f n st Hl).
  destruct (lookup (observed_name n) W); [reflexivity|].
  destruct (s_observable st).
  - destruct (lookup n (s_observed src)); [reflexivity|]. destruct (s_stochastic st); [reflexivity|].
    exact (all_some_pvs (Dlink src W f) (preds (s_edges src) n) (fun b => Some (mk_call (OpUser (s_opid st)) b))).
  - destruct (s_uses_observed st); [|reflexivity]. destruct (s_stochastic st); [reflexivity|].
    exact (all_some_pvs (Dlink src W f) (preds (s_edges src) n) (fun b => Some (mk_call OpTuple b))).
Qed.

Definition plain_tail (st : sstate) (okw : list (param * value)) : list (param * value) :=
  okw ++ (if s_uses_batch_size st then [(PStr "batch_size"%string, VBatch)] else [])
      ++ (if s_uses_meta st then [(PStr "meta"%string, VMeta)] else [])
      ++ (if s_stochastic st then [(PStr "random_state"%string, VRng)] else []).

Definition obs_kw (src : snet) (W : list (name * value)) (f : nat) (n : name) (st : sstate)
  : option (list (param * value)) :=
  if s_uses_observed st && negb (s_observable st) then
    match den f src W true n with
    | Some v => Some [(PStr "observed"%string, v)]
    | None => None
    end
  else Some [].

Lemma den_plain_eq src W f n st : lookup n (s_nodes src) = Some st ->
  den (S f) src W false n =
  match lookup n W with
  | Some v => Some v
  | None =>
      match s_output st with
      | Some v => Some v
      | None =>
          match pvs_of (fun u => den f src W false u) (preds (s_edges src) n) with
          | Some b =>
              match obs_kw src W f n st with
              | Some okw => Some (mk_call (OpUser (s_opid st)) (b ++ plain_tail st okw))
              | None => None
              end
          | None => None
          end
      end
  end.
Proof.
  intros Hl. rewrite (C03_Twins.den_plain_step src W f n st Hl).
  destruct (lookup n W); [reflexivity|]. destruct (s_output st); [reflexivity|].
  exact (all_some_pvs (fun u => den f src W false u) (preds (s_edges src) n)
           (fun b => match obs_kw src W f n st with
                     | Some okw => Some (mk_call (OpUser (s_opid st)) (b ++ plain_tail st okw))
                     | None => None
                     end)).
Qed.

Section DenPerm.
  Variables (src src' : snet) (W : list (name * value)).
  Hypothesis Hwf : wfsrc src.
  Hypothesis Hsm : same_model src src'.
  Hypothesis Hpd : params_distinct src.

  Lemma pvs_same F F' n : (forall u, F u = F' u) ->
    match pvs_of F (preds (s_edges src) n), pvs_of F' (preds (s_edges src') n) with
    | Some b, Some b' => Permutation b b' /\ NoDup (map fst b)
    | None, None => True
    | _, _ => False
    end.
  Proof.
    intros HF. rewrite <- (pvs_ext F F' HF).
    pose proof (pvs_perm F _ _ (sm_preds src src' Hsm n)) as H. unfold operm in H.
    destruct (pvs_of F (preds (s_edges src) n)) as [b|] eqn:E; destruct (pvs_of F (preds (s_edges src') n)); try tauto.
    split; [exact H|]. rewrite (pvs_keys _ _ _ E). apply Hpd.
  Qed.

  Theorem den_perm : forall f obs n, den f src W obs n = den f src' W obs n.
  Proof.
    induction f as [|f IH]; intros obs n; [reflexivity|].
    pose proof (sm_lookup src src' Hwf Hsm n) as Hlk.
    destruct (lookup n (s_nodes src)) as [st|] eqn:Hl.
    - symmetry in Hlk. destruct obs.
      + rewrite (den_twin_eq src W f n st Hl), (den_twin_eq src' W f n st Hlk).
        rewrite <- (sm_observed src src' Hwf Hsm n).
        assert (HD : forall u, Dlink src W f u = Dlink src' W f u).
        { intros u. unfold Dlink. rewrite <- (sm_flag src src' Hwf Hsm). now rewrite !IH. }
        pose proof (pvs_same _ _ n HD) as Hp.
        destruct (pvs_of (Dlink src W f) (preds (s_edges src) n)) as [b|];
          destruct (pvs_of (Dlink src' W f) (preds (s_edges src') n)) as [b'|]; try tauto.
        destruct Hp as [Hp Hnd].
        rewrite (mk_call_perm (OpUser (s_opid st)) b b' Hp Hnd), (mk_call_perm OpTuple b b' Hp Hnd). reflexivity.
      + rewrite (den_plain_eq src W f n st Hl), (den_plain_eq src' W f n st Hlk).
        assert (Hok : obs_kw src W f n st = obs_kw src' W f n st) by (unfold obs_kw; now rewrite IH).
        rewrite <- Hok.
        pose proof (pvs_same (fun u => den f src W false u) (fun u => den f src' W false u) n (fun u => IH false u)) as Hp.
        destruct (pvs_of (fun u => den f src W false u) (preds (s_edges src) n)) as [b|];
          destruct (pvs_of (fun u => den f src' W false u) (preds (s_edges src') n)) as [b'|]; try tauto.
        destruct Hp as [Hp Hnd].
        destruct (lookup n W); [reflexivity|]. destruct (s_output st); [reflexivity|].
        destruct (obs_kw src W f n st) as [okw|]; [|reflexivity].
        now rewrite (mk_call_perm_app (OpUser (s_opid st)) b b' (plain_tail st okw) Hp Hnd).
    - cbn [den]. unfold sstate_of. rewrite <- Hlk, Hl. reflexivity.
  Qed.

  Lemma find_twin_perm o :
    find (fun ns : name * sstate => String.eqb (observed_name (fst ns)) o) (s_nodes src)
    = find (fun ns : name * sstate => String.eqb (observed_name (fst ns)) o) (s_nodes src').
  Proof.
    set (P := fun ns : name * sstate => String.eqb (observed_name (fst ns)) o).
    destruct Hsm as [Hpn _].
    destruct (find P (s_nodes src)) as [[x st]|] eqn:E1; destruct (find P (s_nodes src')) as [[x' st']|] eqn:E2.
    - apply find_some in E1, E2. destruct E1 as [I1 P1]. destruct E2 as [I2 P2].
      unfold P in P1, P2. cbn [fst] in P1, P2. apply String.eqb_eq in P1, P2.
      assert (x' = x) by (apply observed_name_inj; congruence). subst x'.
      apply (Permutation_in _ (Permutation_sym Hpn)) in I2.
      now rewrite (NoDup_fst_inj _ _ _ _ (wf_nodup _ Hwf) I1 I2).
    - apply find_some in E1. destruct E1 as [I1 P1].
      pose proof (find_none _ _ E2 _ (Permutation_in _ Hpn I1)). congruence.
    - apply find_some in E2. destruct E2 as [I2 P2].
      pose proof (find_none _ _ E1 _ (Permutation_in _ (Permutation_sym Hpn) I2)). congruence.
    - reflexivity.
  Qed.

  Theorem den_name_perm o : den_name src W o = den_name src' W o.
  Proof.
    unfold den_name, sstate_of, den_fuel.
    rewrite <- (sm_lookup src src' Hwf Hsm), <- find_twin_perm, <- (sm_length src src' Hsm).
    destruct (lookup o (s_nodes src)); [apply den_perm|].
    destruct (find _ (s_nodes src)) as [[x st]|]; [apply den_perm | reflexivity].
  Qed.
End DenPerm.

(** ================================================================================== *)
(** ---- the node names of a compiled and loaded net are duplicate-free ---- *)
Definition nd (g : cnet) : Prop := NoDup (map fst (c_nodes g)).

Lemma nd_set {A} n (a : A) l : NoDup (map fst l) -> NoDup (map fst (set n a l)).
Proof.
  intros H. rewrite set_names. destruct (has n l) eqn:E; [exact H|].
  apply NoDup_app_snoc; [exact H|]. intros Hin. apply has_In in Hin. congruence.
Qed.

Lemma nd_add_node n c g : nd g -> nd (add_node n c g).
Proof. unfold nd, add_node. simpl. apply nd_set. Qed.

Lemma nd_ensure_node n g : nd g -> nd (ensure_node n g).
Proof. intros H. unfold ensure_node. destruct (has n (c_nodes g)); [exact H | now apply nd_add_node]. Qed.

Lemma nd_add_cedge u v p g : nd g -> nd (add_cedge u v p g).
Proof. intros H. unfold nd, add_cedge. simpl. apply nd_ensure_node. now apply nd_ensure_node. Qed.

Lemma nd_filter {A} (f : name * A -> bool) l : NoDup (map fst l) -> NoDup (map fst (filter f l)).
Proof.
  induction l as [|x r IH]; simpl; intros H; [constructor|]. inversion H as [|? ? Hx Hr]; subst.
  destruct (f x); [|now apply IH]. simpl. constructor; [|now apply IH].
  intros Hin. apply Hx. apply in_map_iff in Hin. destruct Hin as [y [Hy Hin]]. apply filter_In in Hin.
  apply in_map_iff. exists y. tauto.
Qed.

Lemma nd_remove_cnode n g : nd g -> nd (remove_cnode n g).
Proof. unfold nd, remove_cnode, remove. simpl. apply nd_filter. Qed.

Lemma nd_copy_observed_edges src obl n : forall g, nd g -> nd (copy_observed_edges src obl n g).
Proof.
  unfold copy_observed_edges. generalize (preds (s_edges src) n) as l.
  induction l as [|pp r IH]; intros g H; simpl; [exact H|]. apply IH. now apply nd_add_cedge.
Qed.

Lemma nd_compile_observed src : forall topo ob us g g' ob' us',
  nd g -> compile_observed src topo ob us g = Ok (g', ob', us') -> nd g'.
Proof.
  induction topo as [|m r IH]; intros ob us g g' ob' us' Hg H; simpl in H.
  - inversion H; subst. exact Hg.
  - destruct (lookup m (s_nodes src)) as [st|]; [|discriminate].
    destruct (s_observable st).
    + destruct (make_observed_copy m None g) as [g1|] eqn:Em; simpl in H; [|discriminate].
      destruct (make_observed_copy_inv _ _ _ _ Em) as [_ [c [-> _]]].
      eapply IH; [|exact H]. destruct (s_stochastic st); [|apply nd_copy_observed_edges]; now apply nd_add_node.
    + destruct (s_uses_observed st).
      * destruct (make_observed_copy m (Some OpTuple) g) as [g1|] eqn:Em; simpl in H; [|discriminate].
        destruct (make_observed_copy_inv _ _ _ _ Em) as [_ [c [-> _]]].
        eapply IH; [|exact H].
        destruct (s_stochastic st); [|apply nd_copy_observed_edges]; apply nd_add_cedge; now apply nd_add_node.
      * eapply IH; eauto.
Qed.

Lemma nd_instr_fold fl inode : forall l g, nd g -> nd (fold_left (instr_step fl inode) l g).
Proof.
  induction l as [|ns r IH]; intros g H; simpl; [exact H|]. apply IH.
  unfold instr_step. destruct (fl (snd ns)); [now apply nd_add_cedge | exact H].
Qed.

Lemma nd_G4of src g : nd g -> nd (G4of src g).
Proof. intros H. unfold G4of. rewrite !compile_instruction_fold. now repeat apply nd_instr_fold. Qed.

Lemma nd_reduce_fold keep : forall l g, nd g -> nd (fold_left (reduce_step keep) l g).
Proof.
  induction l as [|nc r IH]; intros g H; simpl; [exact H|]. apply IH.
  unfold reduce_step. destruct (mem (fst nc) keep); [exact H | now apply nd_remove_cnode].
Qed.

Lemma names_load_observed g : map fst (c_nodes (load_observed g)) = map fst (c_nodes g).
Proof.
  rewrite load_observed_fold. generalize (c_observed g) as l. intros l. revert g.
  induction l as [|nv r IH]; intros g; simpl; [reflexivity|]. rewrite IH. apply names_set_output.
Qed.

Lemma names_load p g : map fst (c_nodes (load p g)) = map fst (c_nodes g).
Proof.
  unfold load, load_runtime. now rewrite load_pool_names, !names_set_output, names_load_observed.
Qed.

Lemma compile_outputs_names : forall ns cn, compile_outputs ns = Ok cn -> map fst cn = map fst ns.
Proof.
  intros ns cn H. apply compile_outputs_spec in H.
  induction H as [|a b ns cn [Hab _] _ IH]; simpl; [reflexivity|]. now rewrite IH, Hab.
Qed.

Lemma nd_compile src outs g : NoDup (map fst (s_nodes src)) -> compile src outs = Ok g -> nd g.
Proof.
  intros Hnd H. unfold compile in H.
  destruct (compile_outputs (s_nodes src)) as [cn|] eqn:Ec; simpl in H; [|discriminate].
  fold (topo_ok src) in H. destruct (topo_ok src); simpl in H; [|discriminate].
  fold (G0 src cn outs) in H.
  destruct (compile_observed src (topo_order src) [] [] (G0 src cn outs)) as [[[g1 obl] uses]|] eqn:Eo;
    simpl in H; [|discriminate].
  destruct (check_stochastic src g1 uses); simpl in H; [|discriminate].
  inversion H. change (nd (compile_reduce (G4of src g1))).
  rewrite compile_reduce_fold. apply nd_reduce_fold. apply nd_G4of.
  eapply nd_compile_observed; [|exact Eo]. unfold nd, G0. simpl.
  now rewrite (compile_outputs_names _ _ Ec).
Qed.

(** ---- the reduction keeps exactly the edges between kept nodes ---- *)
Definition kept_by (l : list (name * cnode)) (keep : list name) (e : edge) : bool :=
  forallb (fun nc : name * cnode =>
             mem (fst nc) keep || (negb (String.eqb (fst nc) (e_src e)) && negb (String.eqb (fst nc) (e_dst e)))) l.

Lemma reduce_fold_edges keep : forall l g,
  c_edges (fold_left (reduce_step keep) l g) = filter (kept_by l keep) (c_edges g).
Proof.
  induction l as [|nc r IH]; intros g; simpl.
  - symmetry. apply filter_all. reflexivity.
  - rewrite IH. unfold reduce_step. destruct (mem (fst nc) keep) eqn:E.
    + apply filter_ext. intros e. unfold kept_by. simpl. now rewrite E.
    + simpl. rewrite filter_filter. apply filter_ext. intros e. unfold kept_by. simpl. now rewrite E.
Qed.

Lemma reduce_edges g : eclosed g ->
  c_edges (compile_reduce g)
  = filter (fun e => mem (e_src e) (ancestors_incl (c_edges g) (c_outputs g))
                     && mem (e_dst e) (ancestors_incl (c_edges g) (c_outputs g))) (c_edges g).
Proof.
  intros Hc. rewrite compile_reduce_fold, reduce_fold_edges.
  set (keep := ancestors_incl (c_edges g) (c_outputs g)).
  apply filter_ext_in. intros e He. destruct (Hc e He) as [Hs Hd].
  apply has_lookup in Hs, Hd. destruct Hs as [cs Hs]. destruct Hd as [cd Hd].
  apply lookup_In_pair in Hs, Hd.
  apply bool_eq_iff. unfold kept_by. rewrite forallb_forall, andb_true_iff. split.
  - intros H. split.
    + specialize (H _ Hs). cbn [fst] in H. rewrite String.eqb_refl in H. cbn [negb andb] in H.
      now rewrite orb_false_r in H.
    + specialize (H _ Hd). cbn [fst] in H. rewrite String.eqb_refl in H. cbn [negb] in H.
      now rewrite andb_false_r, orb_false_r in H.
  - intros [Hs' Hd'] nc _. destruct (mem (fst nc) keep) eqn:E; [reflexivity|]. cbn [orb].
    apply andb_true_iff. split; apply negb_true_iff; apply String.eqb_neq; intros Heq; rewrite Heq in E; congruence.
Qed.

Lemma reduce_has g m : has m (c_nodes (compile_reduce g)) = true
  <-> In m (ancestors_incl (c_edges g) (c_outputs g)) /\ has m (c_nodes g) = true.
Proof.
  rewrite compile_reduce_fold. set (keep := ancestors_incl (c_edges g) (c_outputs g)). unfold has at 1.
  destruct (mem m keep) eqn:E.
  - rewrite reduce_fold_lookup_kept by exact E. apply mem_In in E. unfold has. tauto.
  - rewrite reduce_fold_lookup_dropped; [| exact E |].
    + split; [discriminate|]. intros [H _]. apply mem_In in H. congruence.
    + destruct (lookup m (c_nodes g)) eqn:El; [left; eapply lookup_key_In; eauto | now right].
Qed.

(** ================================================================================== *)
(** ---- the loaded nets of the two builds: permuted edges, the same node set ---- *)
Section Loaded2.
  Variables (src src' : snet) (W : list (name * value)) (outs : list name).
  Variables (cn cn' : list (name * cnode)) (g1 g1' : cnet).
  Hypothesis Hwf : wfsrc src.
  Hypothesis Hsm : same_model src src'.
  Hypothesis Howf : outputs_wf src outs.
  Hypothesis Hcn : compile_outputs (s_nodes src) = Ok cn.
  Hypothesis Hcn' : compile_outputs (s_nodes src') = Ok cn'.
  Hypothesis Hco : CO src cn (topo_order src) g1.
  Hypothesis Hco' : CO src' cn' (topo_order src') g1'.
  Hypothesis Hout1 : c_outputs g1 = outs.
  Hypothesis Hout1' : c_outputs g1' = outs.

  Let Hwf' : wfsrc src' := wfsrc_perm src src' Hwf Hsm.

  Lemma copied_perm n : Permutation (copied src n) (copied src' n).
  Proof.
    unfold copied.
    rewrite (map_ext _ (fun pp : name * param => (link src' (fst pp), observed_name n, snd pp)))
      by (intros pp; now rewrite (sm_link src src' Hwf Hsm)).
    apply Permutation_map. apply (sm_preds src src' Hsm).
  Qed.

  Lemma twin_edges_st_perm n st : Permutation (twin_edges_st src n st) (twin_edges_st src' n st).
  Proof.
    unfold twin_edges_st. apply Permutation_app_head.
    destruct (flagged st && negb (s_stochastic st)); [apply copied_perm | constructor].
  Qed.

  Lemma twin_edges_of_perm n : Permutation (twin_edges_of src n) (twin_edges_of src' n).
  Proof.
    unfold twin_edges_of. rewrite <- (sm_lookup src src' Hwf Hsm).
    destruct (lookup n (s_nodes src)); [apply twin_edges_st_perm | constructor].
  Qed.

  Lemma topo_order_perm : Permutation (topo_order src) (topo_order src').
  Proof.
    apply NoDup_Permutation.
    - apply topo_order_NoDup. exact (wf_nodup _ Hwf).
    - apply topo_order_NoDup. exact (wf_nodup _ Hwf').
    - intros x. split; intros H.
      + apply topo_order_In_rev. apply topo_order_In in H.
        eapply Permutation_in; [|exact H]. apply Permutation_map. exact (proj1 Hsm).
      + apply topo_order_In_rev. apply topo_order_In in H.
        eapply Permutation_in; [|exact H]. apply Permutation_sym. apply Permutation_map. exact (proj1 Hsm).
  Qed.

  Lemma g4_edges_perm : Permutation (c_edges (G4of src g1)) (c_edges (G4of src' g1')).
  Proof.
    rewrite (g4_edges src cn g1 Hwf Hco), (g4_edges src' cn' g1' Hwf' Hco').
    pose proof Hsm as [Hpn [Hpe _]].
    repeat apply Permutation_app; try (unfold instr_edges_of; now apply Permutation_flat_map).
    - exact Hpe.
    - apply perm_flat_map2; [apply topo_order_perm | apply twin_edges_of_perm].
  Qed.

  Local Notation keep := (ancestors_incl (c_edges (G4of src g1)) outs).
  Local Notation keep' := (ancestors_incl (c_edges (G4of src' g1')) outs).

  Lemma keep_perm x : In x keep <-> In x keep'.
  Proof.
    apply ancestors_incl_ext. intros e. split; apply Permutation_in; [|apply Permutation_sym]; exact g4_edges_perm.
  Qed.

  Lemma mem_keep_perm x : mem x keep = mem x keep'.
  Proof. apply bool_eq_iff. rewrite !mem_In. apply keep_perm. Qed.

  Local Notation lg := (load (wp W) (compile_reduce (G4of src g1))).
  Local Notation lg' := (load (wp W) (compile_reduce (G4of src' g1'))).

  Lemma lg_edges_perm : Permutation (c_edges lg) (c_edges lg').
  Proof.
    rewrite !C03_Twins.lg_edges.
    rewrite (reduce_edges _ (eclosed_g4 src cn g1 Hwf Hcn Hco)), (reduce_edges _ (eclosed_g4 src' cn' g1' Hwf' Hcn' Hco')).
    rewrite !G4of_outputs, Hout1, Hout1'.
    apply perm_filter_ext; [exact g4_edges_perm|]. intros e. now rewrite !mem_keep_perm.
  Qed.
End Loaded2.

(** the node names of the loaded net are the kept ancestors of the outputs *)
Lemma lg_names_keep src W outs cn g1 :
  wfsrc src -> outputs_wf src outs ->
  compile_outputs (s_nodes src) = Ok cn -> CO src cn (topo_order src) g1 -> c_outputs g1 = outs ->
  forall m, In m (map fst (c_nodes (load (wp W) (compile_reduce (G4of src g1)))))
            <-> In m (ancestors_incl (c_edges (G4of src g1)) outs).
Proof.
  intros Hwf Howf Hcn Hco Hout1 m.
  rewrite <- has_In, has_load, reduce_has, G4of_outputs, Hout1.
  split; [tauto|]. intros Hk. split; [exact Hk|].
  apply ancestors_incl_iff in Hk. destruct Hk as [r [Hr Hreach]].
  destruct (reach_inv _ _ _ Hreach) as [->|[v [p He]]].
  - pose proof (Nd_in_g1 src cn g1 Hcn Hco r (outs_Nd src outs Howf r Hr)) as H.
    unfold has. now rewrite G4of_lookup.
  - exact (proj1 (eclosed_g4 src cn g1 Hwf Hcn Hco _ He)).
Qed.

(** ---- the name-sorted topological order of the two loaded nets is the same list ---- *)
Theorem loaded_sort_order src src' W outs cn cn' g1 g1' :
  wfsrc src -> same_model src src' -> outputs_wf src outs ->
  compile_outputs (s_nodes src) = Ok cn -> compile_outputs (s_nodes src') = Ok cn' ->
  CO src cn (topo_order src) g1 -> CO src' cn' (topo_order src') g1' ->
  c_outputs g1 = outs -> c_outputs g1' = outs ->
  nd (compile_reduce (G4of src g1)) -> nd (compile_reduce (G4of src' g1')) ->
  sort_order (load (wp W) (compile_reduce (G4of src g1))) = sort_order (load (wp W) (compile_reduce (G4of src' g1'))).
Proof.
  intros Hwf Hsm Howf Hcn Hcn' Hco Hco' Hout1 Hout1' Hnd Hnd'.
  pose proof (wfsrc_perm src src' Hwf Hsm) as Hwf'.
  pose proof (outputs_wf_perm src src' Hwf Hsm outs Howf) as Howf'.
  apply sort_order_insertion_independent.
  - apply NoDup_Permutation.
    + rewrite names_load. exact Hnd.
    + rewrite names_load. exact Hnd'.
    + intros m. rewrite (lg_names_keep src W outs cn g1 Hwf Howf Hcn Hco Hout1 m),
        (lg_names_keep src' W outs cn' g1' Hwf' Howf' Hcn' Hco' Hout1' m).
      exact (keep_perm src src' outs cn cn' g1 g1' Hwf Hsm Hco Hco' m).
  - exact (lg_edges_perm src src' W outs cn cn' g1 g1' Hwf Hsm Hcn Hcn' Hco Hco' Hout1 Hout1').
Qed.

(** ---- the call log is a filter of the sort order ---- *)
Lemma execute_log_shape g out log c :
  execute g empty_cache = Ok (out, log, c) ->
  log = [] \/ exists so p, sort_order g = Ok so /\ log = filter p so.
Proof.
  unfold execute. intros H.
  destruct (get_execution_order g empty_cache) as [[order c1]|] eqn:Eo; simpl in H; [|discriminate].
  destruct (run_order g order []) as [[g' lg]|] eqn:Er; simpl in H; [|discriminate].
  destruct (collect g' (sort_names (dedup_names (c_outputs g)))) as [res|] eqn:Ec; simpl in H; [|discriminate].
  inversion H; subst. clear H.
  destruct (get_execution_order_spec _ _ _ _ CacheOK_empty Eo) as [Hnd _].
  destruct (run_order_sound g order g [] g' log (Inv_refl g) Hnd Er) as [_ Hlog]. simpl in Hlog.
  pose proof (get_execution_order_cached g empty_cache order _ (CacheConsistent_empty g) Eo) as Ho.
  unfold order_of in Ho. subst log.
  destruct (needed_of g) as [|n0 nr].
  - inversion Ho; subst. now left.
  - destruct (sort_order g) as [so|] eqn:Eso; simpl in Ho; [|discriminate].
    destruct (scan_nodes g so); simpl in Ho; [|discriminate]. inversion Ho; subst. clear Ho.
    right. eexists. eexists. split; [reflexivity|]. apply filter_filter.
Qed.

Lemma filters_same_elements {A} (p p' : A -> bool) so :
  (forall x, In x (filter p so) <-> In x (filter p' so)) -> filter p so = filter p' so.
Proof.
  intros H. apply filter_ext_in. intros x Hx. apply bool_eq_iff.
  specialize (H x). rewrite !filter_In in H. tauto.
Qed.

(** ---- the needed operations are the same set ---- *)
Section NeededPerm.
  Variables (src src' : snet) (W : list (name * value)).
  Hypothesis Hwf : wfsrc src.
  Hypothesis Hsm : same_model src src'.

  Lemma given_perm n : given src W n = given src' W n.
  Proof.
    unfold given, sstate_of. rewrite <- (sm_lookup src src' Hwf Hsm). f_equal.
    destruct (lookup n (s_nodes src)); [reflexivity|].
    rewrite <- (existsb_perm _ _ _ (proj1 Hsm)). apply existsb_ext_in. intros ns _.
    now rewrite (has_perm (fst ns) _ _ (proj2 (proj2 Hsm))).
  Qed.

  Lemma dep_edges_perm e : In e (dep_edges src) <-> In e (dep_edges src').
  Proof.
    destruct Hsm as [Hpn [Hpe _]].
    unfold dep_edges. rewrite !in_app_iff, !twin_edges_char. split.
    - intros [H|[n [st [Hin He]]]]; [left; eapply Permutation_in; eauto | right; exists n, st; split].
      + eapply Permutation_in; eauto.
      + eapply Permutation_in; [apply (twin_edges_st_perm src src' Hwf Hsm) | exact He].
    - intros [H|[n [st [Hin He]]]]; [left; eapply Permutation_in; [apply Permutation_sym|]; eauto | right; exists n, st; split].
      + eapply Permutation_in; [apply Permutation_sym|]; eauto.
      + eapply Permutation_in; [apply Permutation_sym; apply (twin_edges_st_perm src src' Hwf Hsm) | exact He].
  Qed.

  Lemma needed_ops_perm outs n : In n (needed_ops src W outs) <-> In n (needed_ops src' W outs).
  Proof.
    unfold needed_ops. rewrite !filter_In, given_perm.
    rewrite (ancestors_incl_ext _ (filter (fun e => negb (given src' W (e_dst e))) (dep_edges src'))); [reflexivity|].
    intros e. rewrite !filter_In, given_perm, dep_edges_perm. reflexivity.
  Qed.
End NeededPerm.

(** ---- what a successful [generate] went through ---- *)
Lemma generate_inv src outs W out log :
  wfsrc src -> generate src outs W = Ok (out, log) ->
  exists cn g1 c',
    compile_outputs (s_nodes src) = Ok cn /\ CO src cn (topo_order src) g1 /\ c_outputs g1 = outs
    /\ nd (compile_reduce (G4of src g1))
    /\ execute (load (wp W) (compile_reduce (G4of src g1))) empty_cache = Ok (out, log, c').
Proof.
  intros Hwf Hg. unfold generate in Hg.
  destruct (compile src outs) as [g|] eqn:Ec; simpl in Hg; [|discriminate].
  pose proof (nd_compile _ _ _ (wf_nodup _ Hwf) Ec) as Hnd.
  destruct (compile_inv2 _ _ _ Hwf Ec) as [cn [g1 [uses [Hcn [Ht [Hco [Hout1 [Hchk [Huses ->]]]]]]]]].
  change (map (fun nv : name * value => (fst nv, Some (snd nv))) W) with (wp W) in Hg.
  destruct (execute (load (wp W) (compile_reduce (G4of src g1))) empty_cache) as [[[out' log'] c']|] eqn:Ee;
    simpl in Hg; [|discriminate].
  inversion Hg; subst out' log'. exists cn, g1, c'. auto.
Qed.

Lemma generate_keys src outs W out log :
  wfsrc src -> generate src outs W = Ok (out, log) -> map fst out = sort_names (dedup_names outs).
Proof.
  intros Hwf Hg. destruct (generate_inv _ _ _ _ _ Hwf Hg) as [cn [g1 [c' [_ [_ [Hout1 [_ Ee]]]]]]].
  destruct (execute_sound _ _ _ _ _ CacheOK_empty Ee) as [_ [Hkeys _]].
  now rewrite (lg_outputs src W outs g1 Hout1) in Hkeys.
Qed.

Lemma outs_eq_by_den (D : name -> option value) : forall a b : list (name * value),
  map fst a = map fst b ->
  (forall o v, In (o, v) a -> D o = Some v) -> (forall o v, In (o, v) b -> D o = Some v) -> a = b.
Proof.
  induction a as [|[o v] a IH]; intros [|[o' v'] b] Hk Ha Hb; simpl in Hk; try discriminate; [reflexivity|].
  inversion Hk; subst o'.
  assert (v = v').
  { pose proof (Ha o v (or_introl eq_refl)). pose proof (Hb o v' (or_introl eq_refl)). congruence. }
  subst v'. f_equal. apply IH; [assumption | |]; intros o1 v1 Hov1; [apply Ha | apply Hb]; now right.
Qed.

(** ================================================================================== *)
(** Two builds of one model that differ only in the order in which nodes, edges and observed data
    were inserted give the same [generate] result: the same values and the same call order. *)
Theorem generate_insertion_independent src src' outs W out log out' log' :
  wfsrc src -> same_model src src' ->
  NoDup (map fst W) -> (forall k, In k (map fst W) -> ~ In k inames) -> outputs_wf src outs ->
  params_distinct src ->
  generate src outs W = Ok (out, log) -> generate src' outs W = Ok (out', log') ->
  out = out' /\ log = log'.
Proof.
  intros Hwf Hsm HWnd HWi Howf Hpd Hg Hg'.
  pose proof (wfsrc_perm src src' Hwf Hsm) as Hwf'.
  pose proof (outputs_wf_perm src src' Hwf Hsm outs Howf) as Howf'.
  split.
  - (* values: both are the user-level meaning, which is insertion-order independent *)
    pose proof (generate_keys _ _ _ _ _ Hwf Hg) as Hk. pose proof (generate_keys _ _ _ _ _ Hwf' Hg') as Hk'.
    assert (Hin : forall (o : name) (l : list (name * value)) v,
               map fst l = sort_names (dedup_names outs) -> In (o, v) l -> In o outs).
    { intros o l v Hl Hov. apply dedup_names_In. apply (Permutation_in _ (sort_names_perm _)). rewrite <- Hl.
      apply in_map_iff. exists (o, v). auto. }
    apply (outs_eq_by_den (den_name src W)); [congruence | |].
    + intros o v Hov. apply (generate_sound src outs W out log Hwf HWnd HWi Hg o v Hov). apply Howf. eauto.
    + intros o v Hov. rewrite (den_name_perm src src' W Hwf Hsm Hpd o).
      apply (generate_sound src' outs W out' log' Hwf' HWnd HWi Hg' o v Hov). apply Howf'. eauto.
  - (* call order: both logs are filters of one sort order with the same elements *)
    destruct (model_log_exact src outs W out log Hwf HWnd HWi Howf Hg) as [_ [_ Hiff]].
    destruct (model_log_exact src' outs W out' log' Hwf' HWnd HWi Howf' Hg') as [_ [_ Hiff']].
    assert (Hsame : forall n, In n log <-> In n log').
    { intros n. rewrite Hiff, Hiff'. apply needed_ops_perm; assumption. }
    destruct (generate_inv _ _ _ _ _ Hwf Hg) as [cn [g1 [c1 [Hcn [Hco [Hout1 [Hnd Ee]]]]]]].
    destruct (generate_inv _ _ _ _ _ Hwf' Hg') as [cn' [g1' [c1' [Hcn' [Hco' [Hout1' [Hnd' Ee']]]]]]].
    pose proof (loaded_sort_order src src' W outs cn cn' g1 g1' Hwf Hsm Howf Hcn Hcn' Hco Hco' Hout1 Hout1' Hnd Hnd') as Hso.
    destruct (execute_log_shape _ _ _ _ Ee) as [->|[so [p [Es ->]]]].
    + destruct log' as [|x r]; [reflexivity|]. exfalso. apply (Hsame x). now left.
    + destruct (execute_log_shape _ _ _ _ Ee') as [->|[so' [p' [Es' ->]]]].
      * destruct (filter p so) as [|x r]; [reflexivity|]. exfalso. apply (Hsame x). now left.
      * rewrite Es, Es' in Hso. inversion Hso; subst so'. now apply filters_same_elements.
Qed.

(** ---- the correspondence interface [Graph/Determinism.v]: the model's own results for the two
        builds pass the decidable property [Determinism.ok] ---- *)
Lemma op_name_of_perm src src' n : wfsrc src -> same_model src src' -> op_name_of src n = op_name_of src' n.
Proof.
  intros Hwf Hsm. unfold op_name_of, sstate_of.
  now rewrite <- (sm_lookup src src' Hwf Hsm), <- (find_twin_perm src src' Hwf Hsm).
Qed.

Lemma op_log_perm src src' log : wfsrc src -> same_model src src' -> op_log src log = op_log src' log.
Proof. intros Hwf Hsm. unfold op_log. apply flat_map_ext. intros n. now apply op_name_of_perm. Qed.

Lemma outs_eqb_refl : forall a, outs_eqb a a = true.
Proof. induction a as [|[n v] r IH]; simpl; [reflexivity|]. now rewrite String.eqb_refl, value_eqb_refl, IH. Qed.

Lemma impl_eqb_refl a : Determinism.impl_eqb a a = true.
Proof.
  destruct a as [|o l]; simpl; [reflexivity|]. rewrite outs_eqb_refl. simpl. now apply names_eqb_eq.
Qed.

Theorem model_result_insertion_independent src src' outs :
  wfsrc src -> same_model src src' -> outputs_wf src outs -> params_distinct src ->
  Determinism.model_result src outs <> ImplErr -> Determinism.model_result src' outs <> ImplErr ->
  Determinism.model_result src outs = Determinism.model_result src' outs.
Proof.
  intros Hwf Hsm Howf Hpd. unfold Determinism.model_result.
  destruct (generate src outs []) as [[out log]|] eqn:Hg; [|congruence].
  destruct (generate src' outs []) as [[out' log']|] eqn:Hg'; [|congruence]. intros _ _.
  assert (HW : forall k, In k (map fst (@nil (name * value))) -> ~ In k inames) by (intros k []).
  destruct (generate_insertion_independent src src' outs [] out log out' log' Hwf Hsm (NoDup_nil _) HW Howf Hpd Hg Hg')
    as [-> ->].
  now rewrite (op_log_perm src src' log' Hwf Hsm).
Qed.

Corollary model_ok_C02 src src' outs :
  wfsrc src -> same_model src src' -> outputs_wf src outs -> params_distinct src ->
  Determinism.model_result src outs <> ImplErr -> Determinism.model_result src' outs <> ImplErr ->
  Determinism.ok {| Determinism.d_src1 := src; Determinism.d_src2 := src'; Determinism.d_outputs := outs;
                    Determinism.d_impl1 := Determinism.model_result src outs;
                    Determinism.d_impl2 := Determinism.model_result src' outs;
                    Determinism.d_hist := [] |} = true.
Proof.
  intros Hwf Hsm Howf Hpd H1 H2. unfold Determinism.ok. cbn. rewrite andb_true_r.
  rewrite (model_result_insertion_independent src src' outs Hwf Hsm Howf Hpd H1 H2). apply impl_eqb_refl.
Qed.

(** ---- a decidable form of [params_distinct], for concrete nets ---- *)
Lemma param_eqb_eq a b : param_eqb a b = true <-> a = b.
Proof.
  destruct a as [i|s], b as [j|t]; simpl; try (split; discriminate).
  - rewrite Nat.eqb_eq. split; [now intros -> | now inversion 1].
  - rewrite String.eqb_eq. split; [now intros -> | now inversion 1].
Qed.

Fixpoint param_nodup_b (l : list param) : bool :=
  match l with
  | [] => true
  | x :: r => negb (existsb (param_eqb x) r) && param_nodup_b r
  end.

Lemma param_nodup_b_sound l : param_nodup_b l = true -> NoDup l.
Proof.
  induction l as [|x r IH]; simpl; intros H; [constructor|].
  apply andb_true_iff in H. destruct H as [H1 H2]. constructor; [|now apply IH].
  intros Hin. apply negb_true_iff in H1.
  assert (E : existsb (param_eqb x) r = true).
  { apply existsb_exists. exists x. split; [exact Hin | now apply param_eqb_eq]. }
  congruence.
Qed.

Definition params_distinct_b (src : snet) : bool :=
  forallb (fun e => param_nodup_b (map snd (preds (s_edges src) (e_dst e)))) (s_edges src).

Lemma params_distinct_b_sound src : params_distinct_b src = true -> params_distinct src.
Proof.
  intros H n. unfold params_distinct_b in H. rewrite forallb_forall in H.
  destruct (preds (s_edges src) n) as [|[u p] r] eqn:E; [constructor|].
  assert (Hin : In (u, n, p) (s_edges src)) by (apply preds_In; rewrite E; now left).
  specialize (H _ Hin). unfold e_dst in H. cbn [fst snd] in H. rewrite E in H. now apply param_nodup_b_sound.
Qed.
