(** C20 — the Metropolis-Hastings accept step and the out-of-support shortcut (model: Num/Bsl.v). *)
From Coq Require Import ZArith QArith Qabs Qminmax List Bool Lia.
From Elfi Require Import Num.Bsl.
Import ListNotations.
Local Open Scope Q_scope.

(** ---- _init_round ---- *)

Lemma last_row_reject st r : last_row (reject_unsimulated st r) = Some r.
Proof. unfold last_row, reject_unsimulated. cbn. rewrite rev_app_distr. reflexivity. Qed.

Definition rejected (pr : proposal) : Prop := snd pr = None.

(** what a call of [_init_round] does, for every proposal stream and every state with a previous row [r]:
    it appends [j] copies of [r] (one per leading out-of-support proposal), lowers the objective by [j] rounds,
    and either stops there without starting a simulation, or starts exactly one for the first in-support
    proposal, which becomes the candidate row. *)
Theorem init_round_spec : forall props st r,
  last_row st = Some r ->
  exists j : nat,
    s_rows (fst (init_round st props)) = s_rows st ++ repeat r j /\
    s_rounds (fst (init_round st props)) = (s_rounds st - Z.of_nat j)%Z /\
    s_cap (fst (init_round st props)) = s_cap st /\
    s_acc (fst (init_round st props)) = s_acc st /\
    Forall rejected (firstn j props) /\
    ((s_sims (fst (init_round st props)) = s_sims st /\
      s_cand (fst (init_round st props)) = s_cand st /\
      snd (init_round st props) = j)
     \/
     (exists p lp, nth_error props j = Some (p, Some lp) /\
      s_cand (fst (init_round st props)) = Some (p, lp) /\
      s_sims (fst (init_round st props)) = S (s_sims st) /\
      snd (init_round st props) = S j)).
Proof.
  induction props as [|[p [lp|]] rest IH]; intros st r Hr.
  - exists O. cbn. destruct (s_cap st <=? length (s_rows st))%nat; cbn;
      rewrite app_nil_r, Z.sub_0_r; repeat split; auto.
  - exists O. cbn [init_round]. destruct (s_cap st <=? length (s_rows st))%nat; cbn;
      rewrite app_nil_r, Z.sub_0_r; repeat split; auto.
    right. exists p, lp. repeat split; reflexivity.
  - cbn [init_round]. destruct (s_cap st <=? length (s_rows st))%nat eqn:Ecap.
    + exists O. cbn. rewrite app_nil_r, Z.sub_0_r. repeat split; auto.
    + rewrite Hr.
      destruct (IH (reject_unsimulated st r) r (last_row_reject st r))
        as (j & Hrows & Hrounds & Hcap & Hacc & Hrej & Hend).
      destruct (init_round (reject_unsimulated st r) rest) as [st' k] eqn:Eir. cbn [fst snd] in *.
      exists (S j). repeat split.
      * rewrite Hrows. cbn [reject_unsimulated s_rows repeat]. rewrite <- app_assoc. reflexivity.
      * rewrite Hrounds. cbn [reject_unsimulated s_rounds]. lia.
      * exact Hcap.
      * exact Hacc.
      * cbn [firstn]. constructor; [reflexivity | exact Hrej].
      * destruct Hend as [(Hs & Hc & Hk) | (p' & lp' & Hn & Hc & Hs & Hk)].
        -- left. repeat split; [exact Hs | exact Hc | congruence].
        -- right. exists p', lp'. repeat split; [exact Hn | exact Hc | exact Hs | congruence].
Qed.

Lemma init_round_consumed_le : forall props st, (snd (init_round st props) <= length props)%nat.
Proof.
  induction props as [|[p [lp|]] rest IH]; intros st; cbn [init_round].
  - destruct (_ <=? _)%nat; cbn; lia.
  - destruct (_ <=? _)%nat; cbn; lia.
  - destruct (_ <=? _)%nat; [cbn; lia|]. destruct (last_row st) as [r|]; [|cbn; lia].
    specialize (IH (reject_unsimulated st r)).
    destruct (init_round (reject_unsimulated st r) rest) as [st' k]. cbn in *. lia.
Qed.

(** proposals outside the prior support are rejected without simulating: if every proposal offered is outside
    the support, no data-collection round is started, the candidate slot is untouched, every appended chain row
    is the previous row, and the objective shrinks by one round per rejected proposal. *)
Theorem rejected_never_simulated : forall props st r,
  last_row st = Some r -> Forall rejected props ->
  let st' := fst (init_round st props) in
  let k := snd (init_round st props) in
  s_sims st' = s_sims st /\ s_cand st' = s_cand st /\
  s_rows st' = s_rows st ++ repeat r k /\ s_rounds st' = (s_rounds st - Z.of_nat k)%Z /\
  (k <= length props)%nat.
Proof.
  intros props st r Hr Hall. cbn zeta.
  destruct (init_round_spec props st r Hr) as (j & Hrows & Hrounds & _ & _ & _ & Hend).
  destruct Hend as [(Hs & Hc & Hk) | (p & lp & Hn & _)].
  - pose proof (init_round_consumed_le props st) as Hle. rewrite Hk in *. repeat split; auto.
  - exfalso. apply nth_error_In in Hn. rewrite Forall_forall in Hall. specialize (Hall _ Hn). discriminate.
Qed.

(** a simulation is started only for a proposal inside the support, and at most one per call *)
Theorem simulation_only_in_support : forall props st r,
  last_row st = Some r ->
  s_sims (fst (init_round st props)) = s_sims st \/
  (s_sims (fst (init_round st props)) = S (s_sims st) /\
   exists p lp, In (p, Some lp) props /\ s_cand (fst (init_round st props)) = Some (p, lp)).
Proof.
  intros props st r Hr.
  destruct (init_round_spec props st r Hr) as (j & _ & _ & _ & _ & _ & Hend).
  destruct Hend as [(Hs & _) | (p & lp & Hn & Hc & Hs & _)]; [left; exact Hs|].
  right. split; [exact Hs|]. exists p, lp. split; [eapply nth_error_In; exact Hn | exact Hc].
Qed.

(** ---- _process_simulated / _get_mh_ratio ---- *)

(** the acceptance probability computed from a state is min(1, exp(clip(dlogpost + logJ(new~) - logJ(old~)))) *)
Theorem accept_prob_formula : forall ex jac use_tr p lpost prev,
  accept_prob ex (mh_logratio use_tr jac p lpost prev)
  = Qmin 1 (ex (clip700 ((if use_tr then jac p - jac (r_par prev) else 0) + lpost - r_lpost prev))).
Proof. reflexivity. Qed.

Theorem accept_prob_range : forall ex r, 0 <= ex r -> 0 <= accept_prob ex r /\ accept_prob ex r <= 1.
Proof.
  intros ex r H. unfold accept_prob. split.
  - apply Q.min_glb; [discriminate | exact H].
  - apply Q.le_min_l.
Qed.

(** n == 0: the candidate is always accepted (no uniform is compared) *)
Theorem step_first_round : forall ex jac use_tr burn st p lp loglik u,
  s_rows st = [] -> s_cand st = Some (p, lp) ->
  s_rows (process_simulated ex jac use_tr burn st loglik u) = [mkRow p lp (loglik + lp)].
Proof.
  intros ex jac use_tr burn st p lp loglik u Hrows Hc.
  unfold process_simulated, accepts, last_row. rewrite Hc, Hrows. reflexivity.
Qed.

(** n >= 1: accept iff u < prob; on acceptance the new row is the candidate, otherwise the chain state
    equals the previous state; n_samples grows by one; nothing else of the chain changes *)
Theorem step_accept_rule : forall ex jac use_tr burn st p lp loglik u prev,
  last_row st = Some prev -> s_cand st = Some (p, lp) ->
  let prob := accept_prob ex (mh_logratio use_tr jac p (loglik + lp) prev) in
  let st' := process_simulated ex jac use_tr burn st loglik u in
  s_rows st' = s_rows st ++ [if Qltb u prob then mkRow p lp (loglik + lp) else prev] /\
  s_rounds st' = s_rounds st /\ s_sims st' = s_sims st /\ s_cand st' = None.
Proof.
  intros ex jac use_tr burn st p lp loglik u prev Hprev Hc. cbn zeta.
  unfold process_simulated, accepts. rewrite Hc, Hprev.
  destruct (Qltb u _); cbn; repeat split; reflexivity.
Qed.

(** ---- the clip ---- *)

Lemma Qltb_true a b : Qltb a b = true <-> a < b.
Proof.
  unfold Qltb. rewrite negb_true_iff. split.
  - intros H. apply Qnot_le_lt. intro Hle. apply Qle_bool_iff in Hle. congruence.
  - intros H. destruct (Qle_bool b a) eqn:E; [|reflexivity].
    apply Qle_bool_iff in E. exfalso. exact (Qlt_not_le _ _ H E).
Qed.

Lemma Qltb_false a b : Qltb a b = false <-> b <= a.
Proof.
  unfold Qltb. rewrite negb_false_iff. apply Qle_bool_iff.
Qed.

Theorem clip700_id r : -700 <= r -> r <= 700 -> clip700 r = r.
Proof.
  intros Hlo Hhi. unfold clip700.
  destruct (Qltb 700 r) eqn:E1.
  - apply Qltb_true in E1. exfalso. exact (Qlt_not_le _ _ E1 Hhi).
  - cbn zeta. destruct (Qltb r (-700)) eqn:E2; [|reflexivity].
    apply Qltb_true in E2. exfalso. exact (Qlt_not_le _ _ E2 Hlo).
Qed.

Theorem clip700_range r : -700 <= clip700 r /\ clip700 r <= 700.
Proof.
  unfold clip700. destruct (Qltb 700 r) eqn:E1; cbn zeta.
  - cbn. split; discriminate.
  - destruct (Qltb r (-700)) eqn:E2.
    + split; discriminate.
    + apply Qltb_false in E1. apply Qltb_false in E2. split; assumption.
Qed.

(** ---- soundness of the decidable comparisons used by [ok] ---- *)

Lemma close_sound tol a b : close tol a b = true -> Qabs (a - b) <= tol * (1 + Qabs a).
Proof. unfold close. apply Qle_bool_iff. Qed.

Lemma all2_Forall2 {A B} (f : A -> B -> bool) : forall l m, all2 f l m = true -> Forall2 (fun x y => f x y = true) l m.
Proof.
  induction l as [|x l IH]; intros [|y m]; cbn; try discriminate; intros H.
  - constructor.
  - apply andb_true_iff in H as [H1 H2]. constructor; [exact H1 | exact (IH _ H2)].
Qed.

(** [ok] on a [_get_mh_ratio] case: the log of the returned ratio is, within the stated tolerance, the clipped
    posterior log-ratio plus the change-of-variables log-Jacobian difference *)
Theorem ok_mh_sound : forall use_tr p_new lpost_new prev ji js ec ratio lr,
  ok (CMh use_tr p_new lpost_new prev ji js ec ratio lr) = true ->
  Qabs (clip700 ((if use_tr then lookup js p_new - lookup js (r_par prev) else 0) + lpost_new - r_lpost prev) - lr)
  <= tol7 * (1 + Qabs (clip700 ((if use_tr then lookup js p_new - lookup js (r_par prev) else 0) + lpost_new - r_lpost prev))).
Proof. intros. apply close_sound. exact H. Qed.

(** [ok] on an [_init_round] case: the rows the implementation appended are copies (componentwise equal
    rationals) of the previous row, one per leading out-of-support proposal, and the objective shrank by that
    many rounds *)
Theorem ok_init_sound : forall st props irows icand irounds icons istarted,
  ok (CInit st props irows icand irounds icons istarted) = true ->
  exists r k, last_row st = Some r /\
    Forall2 (fun a b => row_eq a b = true) irows (s_rows st ++ repeat r k) /\
    irounds = (s_rounds st - Z.of_nat k)%Z /\
    Forall rejected (firstn k props) /\
    (istarted = false -> icons = k).
Proof.
  intros st props irows icand irounds icons istarted H. cbn [ok] in H. unfold state_after_init_ok in H.
  destruct (last_row st) as [r|]; [|discriminate].
  set (k := (length irows - length (s_rows st))%nat) in *.
  apply andb_true_iff in H as [H Hend]. apply andb_true_iff in H as [H Hrej].
  apply andb_true_iff in H as [Hrows Hrounds].
  exists r, k. repeat split.
  - apply all2_Forall2. exact Hrows.
  - apply Z.eqb_eq. exact Hrounds.
  - rewrite forallb_forall in Hrej. apply Forall_forall. intros [p [lp|]] Hin; [|reflexivity].
    specialize (Hrej _ Hin). discriminate.
  - intros ->. apply andb_true_iff in Hend as [Hc _]. apply Nat.eqb_eq. exact Hc.
Qed.

(** the model's own value satisfies [ok] (with the same oracle tables and an exact log oracle) *)
Lemma close_refl tol a : 0 <= tol -> close tol a a = true.
Proof.
  intros Ht. unfold close. apply Qle_bool_iff.
  assert (E : a - a == 0) by ring. rewrite E. cbn [Qabs].
  apply Qmult_le_0_compat; [exact Ht|].
  apply Qle_trans with (0 + 0); [discriminate|]. apply Qplus_le_compat; [discriminate | apply Qabs_nonneg].
Qed.

Theorem model_ok_mh : forall use_tr p_new lpost_new prev j ec ratio,
  ok (CMh use_tr p_new lpost_new prev j j ec ratio (mh_logratio use_tr (lookup j) p_new lpost_new prev)) = true.
Proof. intros. cbn [ok]. apply close_refl. discriminate. Qed.
