(** Proofs for C08: structure of the augmented model (which node feeds which density node, in
    which position) and the algebra of the joint density. *)
From Coq Require Import List String ZArith Arith Bool Lia Sorting.Permutation.
From Elfi Require Import Graph.Net Graph.Edit Graph.Prior Proofs.C03_Exec Proofs.C03_Compile Proofs.C14_Edit.
Import ListNotations.

(** ---- positional parents of a freshly created node ---- *)
Fixpoint enumerate_from {A} (i : nat) (l : list A) : list (nat * A) :=
  match l with [] => [] | a :: r => (i, a) :: enumerate_from (S i) r end.

Lemma enumerate_from_app {A} (l1 l2 : list A) i :
  enumerate_from i (l1 ++ l2) = enumerate_from i l1 ++ enumerate_from (i + List.length l1) l2.
Proof.
  revert i. induction l1 as [|a r IH]; intros i; simpl; [now rewrite Nat.add_0_r|].
  rewrite IH. now rewrite Nat.add_succ_r.
Qed.

Lemma insert_parent_last a l :
  Forall (fun b : nat * name => fst b <= fst a) l -> insert_parent a l = l ++ [a].
Proof.
  induction 1 as [|b r Hb Hr IH]; simpl; [reflexivity|].
  destruct (Nat.ltb_spec (fst a) (fst b)); [lia | now rewrite IH].
Qed.

Lemma fold_insert_sorted : forall (l acc : list (nat * name)) i,
  Forall (fun b => fst b < i) acc ->
  fold_left (fun acc a => insert_parent a acc) (enumerate_from i (map snd l)) acc
  = acc ++ enumerate_from i (map snd l).
Proof.
  induction l as [|[k p] r IH]; intros acc i Hacc; simpl; [now rewrite app_nil_r|].
  rewrite insert_parent_last.
  - rewrite IH.
    + now rewrite <- app_assoc.
    + apply Forall_app. split; [eapply Forall_impl; [|exact Hacc]; simpl; intros; lia | constructor; [simpl; lia | constructor]].
  - eapply Forall_impl; [|exact Hacc]. simpl. intros. lia.
Qed.

Lemma add_edge_append u v p es :
  (forall e, In e es -> ~ (e_src e = u /\ e_dst e = v)) -> add_edge u v p es = es ++ [(u, v, p)].
Proof.
  induction es as [|e r IH]; intros H; simpl; [reflexivity|].
  destruct (String.eqb u (e_src e) && String.eqb v (e_dst e)) eqn:E.
  - apply andb_true_iff in E. destruct E as [E1 E2]. apply String.eqb_eq in E1, E2.
    exfalso. apply (H e); [now left | split; congruence].
  - rewrite IH; [reflexivity|]. intros e' He'. apply H. now right.
Qed.

Definition numbered (n : name) (ps : list name) (i : nat) : list edge :=
  map (fun ip : nat * name => (snd ip, n, PInt (fst ip))) (enumerate_from i ps).

Lemma preds_app es1 es2 n : preds (es1 ++ es2) n = preds es1 n ++ preds es2 n.
Proof. unfold preds. now rewrite filter_app, map_app. Qed.

Lemma preds_numbered n ps i : preds (numbered n ps i) n = map (fun ip : nat * name => (snd ip, PInt (fst ip))) (enumerate_from i ps).
Proof.
  unfold preds, numbered. revert i. induction ps as [|p r IH]; intros i; simpl; [reflexivity|].
  unfold e_dst at 1. simpl. rewrite String.eqb_refl. simpl. now rewrite IH.
Qed.

Lemma preds_none es n : (forall e, In e es -> e_dst e <> n) -> preds es n = [].
Proof.
  intros H. unfold preds. induction es as [|e r IH]; simpl; [reflexivity|].
  destruct (String.eqb n (e_dst e)) eqn:E.
  - apply String.eqb_eq in E. exfalso. apply (H e); [now left | congruence].
  - apply IH. intros e' He'. apply H. now right.
Qed.

Lemma get_parents_numbered es0 n ps (m : snet) :
  s_edges m = es0 ++ numbered n ps 0 -> (forall e, In e es0 -> e_dst e <> n) ->
  get_parents m n = ps.
Proof.
  intros He H0. unfold get_parents. rewrite He, preds_app, (preds_none es0 n H0), preds_numbered. simpl.
  assert (Hfm : forall i l, flat_map (fun up : name * param => match snd up with PInt j => [(j, fst up)] | PStr _ => [] end)
                              (map (fun ip : nat * name => (snd ip, PInt (fst ip))) (enumerate_from i l))
                            = enumerate_from i l).
  { intros i l. revert i. induction l as [|a r IH]; intros i; simpl; [reflexivity | now rewrite IH]. }
  rewrite Hfm.
  pose proof (fold_insert_sorted (map (fun p => (0, p)) ps) [] 0) as Hf.
  rewrite map_map in Hf. simpl in Hf. rewrite map_id in Hf. rewrite Hf by constructor. simpl.
  clear. generalize 0. induction ps as [|p r IH]; intros i; simpl; [reflexivity | now rewrite IH].
Qed.

(** the monadic parent fold on a fresh child: the edges are appended with indices 0,1,2,... *)
Lemma fold_parents_fresh n : forall ps done m1 m2 es0,
  NoDup (done ++ ps) -> ~ In n (done ++ ps) ->
  s_edges m1 = es0 ++ numbered n done 0 -> (forall e, In e es0 -> e_dst e <> n) ->
  fold_left (fun r p => do mm <- r; add_edge_m mm p n None) ps (Ok m1) = Ok m2 ->
  s_edges m2 = es0 ++ numbered n (done ++ ps) 0 /\ s_nodes m2 = s_nodes m1 /\ s_observed m2 = s_observed m1.
Proof.
  assert (Herr : forall (l : list name) e, fold_left (fun r p => do mm <- r; add_edge_m mm p n None) l (Err e) = Err e).
  { induction l as [|x l IHl]; intros e; simpl; auto. }
  induction ps as [|p r IH]; intros done m1 m2 es0 Hnd Hn He H0 H; simpl in H.
  - inversion H; subst. rewrite app_nil_r. auto.
  - destruct (add_edge_m m1 p n None) as [m1'|e] eqn:Ea; simpl in H; [|rewrite Herr in H; discriminate].
    unfold add_edge_m in Ea.
    destruct (has n (s_nodes m1)); simpl in Ea; [|discriminate].
    destruct (has p (s_nodes m1)); simpl in Ea; [|discriminate].
    inversion Ea; subst m1'. clear Ea.
    rewrite (get_parents_numbered es0 n done m1 He H0) in H.
    assert (Hnew : add_edge p n (PInt (List.length done)) (s_edges m1) = es0 ++ numbered n (done ++ [p]) 0).
    { rewrite add_edge_append.
      - rewrite He. unfold numbered. rewrite enumerate_from_app, map_app, app_assoc. simpl. reflexivity.
      - intros e He' [Hs Hd]. rewrite He in He'. apply in_app_iff in He'. destruct He' as [He'|He'].
        + now apply (H0 e He').
        + unfold numbered in He'. apply in_map_iff in He'. destruct He' as [[i q] [Heq Hin]]. subst e.
          unfold e_src in Hs. simpl in Hs. subst q.
          assert (Hq : In p done).
          { clear -Hin. revert Hin. generalize 0. induction done as [|d dr IHd]; intros k Hin; simpl in Hin; [destruct Hin|].
            destruct Hin as [Hin|Hin]; [inversion Hin; now left | right; eapply IHd; eauto]. }
          apply NoDup_remove_2 in Hnd. apply Hnd. apply in_app_iff. now left. }
    specialize (IH (done ++ [p]) (with_edges m1 (add_edge p n (PInt (List.length done)) (s_edges m1))) m2 es0).
    rewrite <- app_assoc in IH. simpl in IH.
    destruct (IH Hnd Hn Hnew H0 H) as [A [B C]]. auto.
Qed.

(** Creating a node with positional parents: its positional parents are exactly those, in order;
    nothing else changes. *)
Theorem add_node_with_parents m n st ps obs m' :
  Closed m -> NoDup ps -> ~ In n ps ->
  step_model m (EAddNode 0 n st ps obs) = Ok m' ->
  get_parents m' n = ps /\ names m' = names m ++ [n] /\
  s_edges m' = s_edges m ++ numbered n ps 0 /\
  (forall k, k <> n -> lookup k (s_nodes m') = lookup k (s_nodes m)).
Proof.
  intros Hc Hnd Hn H. simpl in H.
  destruct (add_node m n st) as [m1|] eqn:Ea; simpl in H; [|discriminate].
  destruct (add_node_closed _ _ _ _ Hc Ea) as [Hc1 [Hn1 Hfresh]].
  destruct (fold_left _ ps (Ok m1)) as [m2|] eqn:Ef; simpl in H; [|discriminate].
  assert (He1 : s_edges m1 = s_edges m ++ numbered n [] 0).
  { unfold add_node in Ea. destruct (has n (s_nodes m)); [discriminate|]. inversion Ea; subst. simpl. now rewrite app_nil_r. }
  assert (H0 : forall e, In e (s_edges m) -> e_dst e <> n).
  { intros e He Hd. apply Hfresh. rewrite <- Hd. apply (cl_edges _ Hc e He). }
  destruct (fold_parents_fresh n ps [] m1 m2 (s_edges m) Hnd Hn He1 H0 Ef) as [A [B C]]. simpl in A.
  assert (Hm' : s_edges m' = s_edges m2 /\ s_nodes m' = s_nodes m2).
  { inversion H; subst. destruct obs; auto. }
  destruct Hm' as [E1 E2].
  split; [|split; [|split]].
  - apply (get_parents_numbered (s_edges m) n ps m'); [congruence | exact H0].
  - unfold names in *. rewrite E2, B. exact Hn1.
  - congruence.
  - intros k Hk. rewrite E2, B. unfold add_node in Ea. destruct (has n (s_nodes m)); [discriminate|]. inversion Ea; subst. simpl.
    clear -Hk. induction (s_nodes m) as [|[a b] r IH]; simpl.
    + destruct (String.eqb k n) eqn:E; [apply String.eqb_eq in E; congruence | reflexivity].
    + destruct (String.eqb k a); auto.
Qed.


(** edges appended for another child do not change a node's positional parents *)
Lemma get_parents_other_child m m' c n ps :
  s_edges m' = s_edges m ++ numbered n ps 0 -> c <> n -> get_parents m' c = get_parents m c.
Proof.
  intros He Hne. unfold get_parents. rewrite He, preds_app.
  rewrite (preds_none (numbered n ps 0) c); [now rewrite app_nil_r|].
  intros e Hin. unfold numbered in Hin. apply in_map_iff in Hin. destruct Hin as [[i q] [Heq _]]. subst e.
  unfold e_dst. simpl. congruence.
Qed.

Lemma step_add_closed m n st ps obs m' :
  Closed m -> step_model m (EAddNode 0 n st ps obs) = Ok m' -> Closed m'.
Proof. intros Hc H. apply (step_model_closed m (EAddNode 0 n st ps obs) m' Hc eq_refl H). Qed.

(** _add_distribution_nodes: every requested parameter gets a density node whose positional
    parents are the parameter itself followed by the parameter's positional parents; the user's
    nodes and their parents are untouched. *)
Theorem add_distribution_nodes_structure log : forall P m a,
  Closed m -> NoDup P ->
  (forall p, In p P -> NoDup (p :: get_parents m p)) ->
  NoDup (map (pdf_node log) P) ->
  (forall p, In p P -> ~ In (pdf_node log p) (names m)) ->
  (forall p q, In p P -> In q P -> ~ In (pdf_node log p) (q :: get_parents m q)) ->
  add_distribution_nodes m P log = Ok a ->
  Closed a /\ names a = names m ++ map (pdf_node log) P /\
  (forall p, In p P -> get_parents a (pdf_node log p) = p :: get_parents m p) /\
  (forall k, In k (names m) -> get_parents a k = get_parents m k /\ lookup k (s_nodes a) = lookup k (s_nodes m)).
Proof.
  induction P as [|p r IH]; intros m a Hc Hnd Hpar Hndn Hfresh Hsep H; cbn [add_distribution_nodes] in H.
  - inversion H; subst. simpl. rewrite app_nil_r.
    split; [exact Hc|]. split; [reflexivity|]. split; [intros ? []|]. intros k Hk. split; reflexivity.
  - destruct (has p (s_nodes m)) eqn:Ehp; cbn [negb] in H; [|discriminate].
    destruct (step_model m (EAddNode 0 (pdf_node log p) (op_state (pdf_opid log (dist_id m p))) (p :: get_parents m p) None)) as [m1|] eqn:Es;
      cbn [bind] in H; [|discriminate].
    inversion Hnd as [|? ? Hpr Hndr]; subst. inversion Hndn as [|? ? Hnr Hndnr]; subst.
    assert (Hnp : ~ In (pdf_node log p) (p :: get_parents m p)) by (apply Hsep; now left).
    destruct (add_node_with_parents _ _ _ _ _ _ Hc (Hpar p (or_introl eq_refl)) Hnp Es) as [G1 [G2 [G3 G4]]].
    assert (Hc1 : Closed m1) by (eapply step_add_closed; eauto).
    assert (Hgp : forall k, k <> pdf_node log p -> get_parents m1 k = get_parents m k).
    { intros k Hk. eapply get_parents_other_child; eauto. }
    assert (Hin_names : forall k, In k (names m) -> k <> pdf_node log p).
    { intros k Hk ->. apply (Hfresh p); [now left | exact Hk]. }
    destruct (IH m1 a Hc1 Hndr) as [A [B [C D]]]; auto.
    + intros q Hq. rewrite Hgp; [apply Hpar; now right|].
      intros Heq. apply Hnr. rewrite <- Heq. apply in_map_iff. exists q. split; [|exact Hq].
      (* q is a user node (a requested parameter): its name is not a density-node name *)
      exfalso. apply (Hsep p q); [now left | now right | rewrite <- Heq; now left].
    + intros q Hq Hin. rewrite G2 in Hin. apply in_app_iff in Hin. destruct Hin as [Hin|[Hin|[]]].
      * apply (Hfresh q); [now right | exact Hin].
      * apply Hnr. rewrite Hin. apply in_map_iff. exists q. auto.
    + intros q1 q2 H1 H2. rewrite Hgp.
      * apply Hsep; now right.
      * intros Heq. apply (Hsep p q2); [now left | now right | rewrite <- Heq; now left].
    + split; [exact A|]. split; [|split].
      * rewrite B, G2. simpl. now rewrite <- app_assoc.
      * intros q [<-|Hq].
        -- destruct (D (pdf_node log p)) as [D1 _]; [rewrite G2; apply in_app_iff; right; now left|].
           rewrite D1. exact G1.
        -- rewrite (C q Hq). f_equal. apply Hgp.
           intros Heq. apply (Hsep p q); [now left | now right | rewrite <- Heq; now left].
      * intros k Hk. destruct (D k) as [D1 D2]; [rewrite G2; apply in_app_iff; now left|].
        split; [rewrite D1; apply Hgp; now apply Hin_names | rewrite D2; apply G4; now apply Hin_names].
Qed.
