(** C08 - the model's OWN answers pass the decidable statements of the property ([ok], [ok_call],
    [ok_gcall]), so that a correspondence ([agree]) implies the property on every well-formed input.
    Uses evaluate_is_joint_spec(_gen) (Proofs/C08_Compose.v) and the shape theorems of C08_History /
    C08_Gradient; nothing about the model is re-proved. *)
From Coq Require Import List String ZArith Arith Bool Lia.
From Elfi Require Import Graph.Net Graph.Edit Graph.Prior Proofs.C03_Twins Proofs.C03_ModelOk Proofs.C05_Compose
     Proofs.C08_History Proofs.C08_Gradient Proofs.C08_Compose.
From Coq Require Import PrimFloat.
Import ListNotations.

(** ---- the comparisons used by [agree] / [ok] are equalities ---- *)
Lemma values_eqb_refl : forall l, values_eqb l l = true.
Proof. induction l as [|v r IH]; simpl; [reflexivity|]. now rewrite C03_ModelOk.value_eqb_refl, IH. Qed.

Lemma values_eqb_eq : forall a b, values_eqb a b = true -> a = b.
Proof.
  induction a as [|x r IH]; destruct b as [|y s]; simpl; intros H; try discriminate; [reflexivity|].
  apply andb_true_iff in H. destruct H as [H1 H2]. apply net_value_eqb_eq in H1. f_equal; auto.
Qed.

Lemma shape_eqb_refl : forall s, shape_eqb s s = true.
Proof. induction s as [|x r IH]; simpl; [reflexivity|]. now rewrite Nat.eqb_refl, IH. Qed.

Lemma answer_eqb_eq a b : answer_eqb a b = true -> a = b.
Proof.
  destruct a as [[s v]|], b as [[t w]|]; simpl; intros H; try discriminate; [|reflexivity].
  apply andb_true_iff in H. destruct H as [H1 H2]. apply shape_eqb_eq in H1. apply values_eqb_eq in H2. now subst.
Qed.

(** ---- wave 1: one evaluation ---- *)
(** The model's own answer, when the modelled evaluation succeeds, passes [ok]. *)
Theorem model_ok_single m P log aug x t :
  wfsrc m ->
  NoDup (map fst x) ->
  (forall k, In k (map fst x) -> has k (s_nodes m) = true) ->
  (forall p, In p P -> In p (map fst x)) ->
  evaluate m P log x = Ok t ->
  ok {| p_model := m; p_params := P; p_log := log; p_augmented := aug; p_point := x; p_impl := Some t |} = true.
Proof.
  intros Hwf Hnd Hhas Hcov He. unfold ok. cbn.
  destruct (wf_request m P) eqn:Ew; [|reflexivity]. cbn.
  rewrite (evaluate_is_joint_spec_gen m P log x t Hwf Ew Hnd Hhas Hcov He). cbn.
  apply C03_ModelOk.value_eqb_refl.
Qed.

(** A correspondence in which the implementation returned a value implies the property. *)
Theorem agree_ok_single c :
  wfsrc (p_model c) ->
  NoDup (map fst (p_point c)) ->
  (forall k, In k (map fst (p_point c)) -> has k (s_nodes (p_model c)) = true) ->
  (forall p, In p (p_params c) -> In p (map fst (p_point c))) ->
  p_impl c <> None ->
  agree c = true -> ok c = true.
Proof.
  intros Hwf Hnd Hhas Hcov Hsome Ha. unfold agree in Ha. apply andb_true_iff in Ha. destruct Ha as [_ Ha].
  unfold ok. destruct (wf_request (p_model c) (p_params c)) eqn:Ew; [|reflexivity]. cbn.
  destruct (evaluate (p_model c) (p_params c) (p_log c) (p_point c)) as [t|e] eqn:Ee.
  - rewrite (evaluate_is_joint_spec_gen _ _ _ _ t Hwf Ew Hnd Hhas Hcov Ee). exact Ha.
  - destruct (p_impl c); [discriminate Ha | now elim Hsome].
Qed.

(** ---- wave 2: array inputs ---- *)
Lemma point_of_fst P (r : list Z) : List.length r = List.length P -> map fst (point_of P r) = P.
Proof.
  unfold point_of. revert r. induction P as [|p P IH]; intros [|z r] H; simpl in *; try discriminate; [reflexivity|].
  f_equal. apply IH. lia.
Qed.

Lemma map_res_spec_rows m P log a :
  wfsrc m -> wf_request m P = true -> augment m P log = Ok a ->
  forall rows vs, Forall (fun r : list Z => List.length r = List.length P) rows ->
    map_res (fun r => evaluate_in a log (point_of P r)) rows = Ok vs ->
    spec_rows m P log rows = Some vs.
Proof.
  intros Hwf Ew Ea. unfold spec_rows.
  induction rows as [|r rows IH]; intros vs HF H; simpl in H.
  - inversion H. reflexivity.
  - inversion HF as [|? ? Hr HF']; subst.
    destruct (evaluate_in a log (point_of P r)) as [v|] eqn:Ev; [|discriminate]. cbn in H.
    destruct (map_res (fun r0 => evaluate_in a log (point_of P r0)) rows) as [vs'|] eqn:Em; [|discriminate]. cbn in H.
    inversion H; subst vs. simpl.
    assert (Ee : evaluate m P log (point_of P r) = Ok v) by (unfold evaluate; rewrite Ea; exact Ev).
    rewrite (evaluate_is_joint_spec m P log _ v Hwf Ew (point_of_fst P r Hr) Ee).
    now rewrite (IH vs' HF' eq_refl).
Qed.

Lemma eval_rows_spec_rows m P log rows vs :
  wfsrc m -> wf_request m P = true ->
  Forall (fun r : list Z => List.length r = List.length P) rows ->
  eval_rows m P log rows = Ok vs -> spec_rows m P log rows = Some vs.
Proof.
  intros Hwf Ew HF H. unfold eval_rows in H.
  destruct (augment m P log) as [a|] eqn:Ea; [|discriminate]. cbn in H.
  eapply map_res_spec_rows; eauto.
Qed.

Lemma wf_request_nonempty m P : wf_request m P = true -> P <> [].
Proof.
  unfold wf_request. intros H E. subst P. rewrite andb_true_iff in H. destruct H as [H _].
  rewrite andb_true_iff in H. destruct H as [_ H]. discriminate H.
Qed.

Lemma proper_form_noaxis dim sh n : proper_form dim sh = Some (n, false) -> n = 1.
Proof.
  unfold proper_form. destruct sh as [|k [|d [|? ?]]]; intros H.
  - destruct (Nat.eqb dim 1); inversion H; reflexivity.
  - destruct (Nat.eqb dim 1); [destruct (Nat.eqb k 0); inversion H|].
    destruct (Nat.eqb k dim); inversion H; reflexivity.
  - destruct (Nat.eqb d dim && negb (Nat.eqb k 0)); inversion H.
  - discriminate.
Qed.

(** The model's own answer to a call, when the modelled evaluation of every row succeeds, passes [ok_call]. *)
Theorem model_ok_call m P c ans :
  wfsrc m -> wf_request m P = true ->
  eval_call m P c = Some ans ->
  ok_call m P {| c_log := c_log c; c_shape := c_shape c; c_data := c_data c; c_impl := Some ans |} = true.
Proof.
  intros Hwf Ew He. pose proof (wf_request_nonempty _ _ Ew) as HP.
  unfold ok_call. cbn [c_shape c_data c_impl c_log].
  destruct (proper_form (List.length P) (c_shape c)) as [[n axis]|] eqn:Ef; [|reflexivity].
  destruct (Nat.eqb (List.length (c_data c)) (n * List.length P)) eqn:El; [|reflexivity]. cbn [negb orb].
  apply Nat.eqb_eq in El. destruct ans as [sh vs].
  destruct (eval_call_shape m P c n axis sh vs HP Ef El He) as [Hsh Hlen].
  unfold eval_call in He.
  destruct (rows_of (List.length (c_data c)) (List.length P) (c_data c)) as [rows|] eqn:Er; [|discriminate].
  destruct (eval_rows m P (c_log c) rows) as [ws|] eqn:Ev; [|discriminate].
  destruct (rows_of_spec _ _ _ _ Er) as [Hc HF].
  rewrite (eval_rows_spec_rows m P (c_log c) rows ws Hwf Ew HF Ev).
  subst sh. rewrite shape_eqb_refl. cbn [andb].
  pose proof (eval_rows_length _ _ _ _ _ Ev) as Hws.
  pose proof (length_concat_rows _ _ HF) as Hcl. rewrite Hc, El in Hcl.
  pose proof (length_pos_of_nonempty P HP) as Hpos.
  assert (Hn : List.length rows = n) by (symmetry; apply (proj1 (Nat.mul_cancel_r _ _ (List.length P) ltac:(lia))); exact Hcl).
  destruct (single_point_form (List.length P) (c_shape c)).
  - destruct ws as [|w ws']; [discriminate|]. inversion He; subst vs.
    destruct axis; simpl in Hlen.
    + (* an axis of n values but one value returned: n = 1 *)
      simpl in Hws. assert (ws' = []) by (destruct ws'; [reflexivity | simpl in Hws; lia]). subst ws'.
      apply values_eqb_refl.
    + assert (n = 1) by (eapply proper_form_noaxis; eauto).
      simpl in Hws. assert (ws' = []) by (destruct ws'; [reflexivity | simpl in Hws; lia]). subst ws'.
      apply values_eqb_refl.
  - inversion He; subst vs. apply values_eqb_refl.
Qed.

(** A correspondence in which the implementation answered the call implies the property on the call. *)
Theorem agree_ok_call m P c :
  wfsrc m -> wf_request m P = true ->
  c_impl c <> None ->
  agree_call m P c = true -> ok_call m P c = true.
Proof.
  intros Hwf Ew Hsome Ha. unfold agree_call in Ha. apply answer_eqb_eq in Ha.
  destruct (c_impl c) as [ans|] eqn:Ei; [|now elim Hsome].
  pose proof (model_ok_call m P c ans Hwf Ew Ha) as H.
  destruct c as [lg sh d im]. cbn in *. subst im. exact H.
Qed.

(** ... and on an object (epoch) all of whose calls were answered, and on a history of such objects. *)
Theorem agree_ok_epoch e :
  wfsrc (e_model e) ->
  (forall c, In c (e_calls e) -> c_impl c <> None) ->
  agree_epoch e = true -> ok_epoch e = true.
Proof.
  intros Hwf Hsome Ha. unfold ok_epoch. destruct (wf_request (e_model e) (e_params e)) eqn:Ew; [|reflexivity]. cbn.
  unfold agree_epoch in Ha. rewrite forallb_forall in Ha. apply forallb_forall. intros c Hc.
  apply agree_ok_call; auto.
Qed.

Theorem agree_ok_history h :
  (forall e, In e h -> wfsrc (e_model e)) ->
  (forall e c, In e h -> In c (e_calls e) -> c_impl c <> None) ->
  agree_t (History h) = true -> ok_t (History h) = true.
Proof.
  intros Hwf Hsome Ha. cbn in *. rewrite forallb_forall in Ha. apply forallb_forall. intros e He.
  apply agree_ok_epoch; eauto.
Qed.

(** ---- wave 3: gradient_logpdf ---- *)
(** What is asked of a row for the model's own gradient row to pass [row_ok]: nothing where the
    stencil reaches -inf or a non-finite value; where the log density is finite on the whole stencil,
    the cleaned central differences are within tolerance of the central differences themselves (this
    fails exactly when a central difference is nan, e.g. a zero stepsize: 0/0) and of the analytic
    entries that are supplied (the stencil is exact enough there). *)
Definition row_exact (lp : logdens) (hs : list float) (x : fpoint) (an : list (option float)) : bool :=
  match stencil_values lp hs x with
  | Some (f0, f1, f2) =>
      let all := f0 ++ f1 ++ f2 in
      if existsb is_neginf all then true
      else if forallb is_finite all
           then fclose_list tol_stencil (map clean (cdiffs f2 f0 hs)) (cdiffs f2 f0 hs)
                && analytic_ok (map clean (cdiffs f2 f0 hs)) an
           else true
  | None => true
  end.

Fixpoint rows_exact (lp : logdens) (hs : list float) (rows : list fpoint) (ans : list (list (option float))) : bool :=
  match rows with
  | [] => true
  | x :: r => row_exact lp hs x (hd [] ans) && rows_exact lp hs r (tl ans)
  end.

Lemma expand_h_length dim h hs : expand_h dim h = Some hs -> List.length hs = dim.
Proof.
  unfold expand_h. destruct h as [|a [|b r]]; intros H.
  - destruct (Nat.eqb (List.length (@nil float)) dim) eqn:E; inversion H; subst. now apply Nat.eqb_eq in E.
  - inversion H. apply repeat_length.
  - destruct (Nat.eqb (List.length (a :: b :: r)) dim) eqn:E; inversion H; subst. now apply Nat.eqb_eq in E.
Qed.

Lemma cdiffs_length : forall f2 f0 hs n,
  List.length f2 = n -> List.length f0 = n -> List.length hs = n -> List.length (cdiffs f2 f0 hs) = n.
Proof.
  induction f2 as [|a r IH]; intros [|b s] [|h t] n H2 H0 Hh; simpl in *; try lia.
  destruct n; [discriminate|]. f_equal. apply IH; lia.
Qed.

Lemma stencil_all_length (lp : logdens) (x : fpoint) hs s (f : list float) : Prior.all_some (map lp (stencil_row x hs s)) = Some f -> List.length f = List.length x.
Proof. intros H. apply all_some_length in H. rewrite H, map_length. unfold stencil_row. now rewrite map_length, seq_length. Qed.

Lemma zeros_ok : forall n, forallb (fun v => PrimFloat.eqb v 0%float) (map clean (repeat 0%float n)) = true.
Proof. induction n as [|n IH]; [reflexivity|]. cbn [repeat map forallb]. rewrite IH. reflexivity. Qed.

Lemma stencil_values_lengths lp hs x f0 f1 f2 :
  stencil_values lp hs x = Some (f0, f1, f2) -> List.length f0 = List.length x /\ List.length f2 = List.length x.
Proof.
  unfold stencil_values. intros H.
  destruct (Prior.all_some (map lp (stencil_row x hs (-1)%float))) as [a|] eqn:E0; [|discriminate].
  destruct (Prior.all_some (map lp (stencil_row x hs 0%float))) as [b|] eqn:E1; [|discriminate].
  destruct (Prior.all_some (map lp (stencil_row x hs 1%float))) as [d|] eqn:E2; [|discriminate].
  inversion H; subst. split; eapply stencil_all_length; eauto.
Qed.

Lemma grad_point_length lp hs x g : List.length hs = List.length x -> grad_point lp hs x = Some g -> List.length g = List.length x.
Proof.
  intros Hh H. unfold grad_point, numgrad in H.
  destruct (stencil_values lp hs x) as [[[f0 f1] f2]|] eqn:Es; [|discriminate].
  destruct (stencil_values_lengths _ _ _ _ _ _ Es) as [L0 L2].
  destruct (existsb is_neginf (f0 ++ f1 ++ f2)); cbn in H; inversion H; subst g; rewrite map_length.
  - apply repeat_length.
  - now apply cdiffs_length.
Qed.

(** The model's own gradient row passes [row_ok]. *)
Lemma row_ok_model lp hs x g an :
  List.length hs = List.length x -> grad_point lp hs x = Some g -> row_exact lp hs x an = true ->
  row_ok lp hs x g an = true.
Proof.
  intros Hh H Hx. pose proof (grad_point_length _ _ _ _ Hh H) as Hl.
  unfold grad_point, numgrad in H. unfold row_ok. unfold row_exact in Hx.
  destruct (stencil_values lp hs x) as [[[f0 f1] f2]|] eqn:Es; [|discriminate].
  destruct (existsb is_neginf (f0 ++ f1 ++ f2)); cbn in H; inversion H; subst g.
  - rewrite Hl, Nat.eqb_refl. cbn [andb]. apply zeros_ok.
  - destruct (forallb is_finite (f0 ++ f1 ++ f2)); [exact Hx|]. rewrite Hl. apply Nat.eqb_refl.
Qed.

Lemma rows_ok_model lp hs : forall rows gs ans,
  Forall (fun r : fpoint => List.length r = List.length hs) rows ->
  Prior.all_some (map (grad_point lp hs) rows) = Some gs ->
  rows_exact lp hs rows ans = true ->
  rows_ok lp hs rows gs ans = true /\ Forall (fun g : list float => List.length g = List.length hs) gs.
Proof.
  induction rows as [|x r IH]; intros gs ans HF H Hx; simpl in H.
  - inversion H; subst. simpl. auto.
  - inversion HF as [|? ? Hxl HF']; subst.
    destruct (grad_point lp hs x) as [g|] eqn:Eg; [|discriminate].
    destruct (Prior.all_some (map (grad_point lp hs) r)) as [gs'|] eqn:Er; [|discriminate].
    inversion H; subst gs. simpl in Hx. apply andb_true_iff in Hx. destruct Hx as [Hx1 Hx2].
    destruct (IH gs' (tl ans) HF' eq_refl Hx2) as [A B].
    simpl. rewrite (row_ok_model lp hs x g (hd [] ans) (eq_sym Hxl) Eg Hx1), A. split; [reflexivity|].
    constructor; [|exact B]. rewrite (grad_point_length _ _ _ _ (eq_sym Hxl) Eg). exact Hxl.
Qed.

Definition analytic_rows (dim : nat) (c : gcall) : list (list (option float)) :=
  match rows_ofA (List.length (g_analytic c)) dim (g_analytic c) with Some a => a | None => [] end.

(** The model's own answer to a gradient call passes [ok_gcall] when every row is [row_exact]. *)
Theorem model_ok_gcall lp dim c ans :
  0 < dim ->
  grad_call lp dim c = Some ans ->
  (forall hs rows, expand_h dim (step_of c) = Some hs ->
                   rows_ofA (List.length (g_data c)) dim (g_data c) = Some rows ->
                   rows_exact lp hs rows (analytic_rows dim c) = true) ->
  ok_gcall lp dim {| g_step := g_step c; g_shape := g_shape c; g_data := g_data c; g_analytic := g_analytic c;
                     g_impl := Some ans |} = true.
Proof.
  intros Hpos He Hex. unfold ok_gcall. cbn [g_step g_shape g_data g_analytic g_impl].
  destruct (proper_form dim (g_shape c)) as [[n axis]|] eqn:Ef; [|reflexivity].
  destruct (Nat.eqb (List.length (g_data c)) (n * dim)) eqn:El; [|reflexivity]. cbn [negb orb].
  apply Nat.eqb_eq in El. destruct ans as [sh vs].
  pose proof (grad_call_shape lp dim c n axis sh vs Hpos Ef El He) as Hsh.
  unfold grad_call in He. fold (step_of c) in He, Hex |- *.
  destruct (expand_h dim (step_of c)) as [hs|] eqn:Eh; [|discriminate].
  destruct (rows_ofA (List.length (g_data c)) dim (g_data c)) as [rows|] eqn:Er; [|discriminate].
  destruct (Prior.all_some (map (grad_point lp hs) rows)) as [gs|] eqn:Ev; [|discriminate].
  pose proof (expand_h_length _ _ _ Eh) as Lh.
  destruct (rows_ofA_spec _ _ _ _ Er) as [Hc HF]. rewrite <- Lh in HF.
  destruct (rows_ok_model lp hs rows gs (analytic_rows dim c) HF Ev (Hex hs rows eq_refl eq_refl)) as [Hok Hg].
  rewrite Lh in Hg.
  subst sh. rewrite shape_eqb_refl. cbn [andb]. fold (analytic_rows dim c).
  destruct (single_point_form dim (g_shape c)).
  - destruct gs as [|g gs']; [discriminate|]. inversion He as [[Hs Hv]]. subst vs.
    destruct axis; [discriminate Hs|].
    assert (n = 1) by (eapply proper_form_noaxis; eauto). subst n.
    pose proof (length_concat_rowsA _ _ (proj2 (rows_ofA_spec _ _ _ _ Er))) as Hcl. rewrite Hc, El in Hcl.
    assert (Hn : List.length rows = 1) by (symmetry; apply (proj1 (Nat.mul_cancel_r _ _ dim ltac:(lia))); exact Hcl).
    pose proof (all_some_length _ _ Ev) as Hgl. rewrite map_length in Hgl. unfold fpoint in *. rewrite Hn in Hgl.
    assert (gs' = []) by (destruct gs'; [reflexivity | simpl in Hgl; lia]). subst gs'.
    pose proof (Forall_inv Hg) as Hg1. cbv beta in Hg1.
    rewrite (rows_ofA_single g dim Hpos Hg1). exact Hok.
  - inversion He as [[Hs Hv]]. subst vs.
    rewrite (rows_ofA_concat dim Hpos gs Hg (List.length (List.concat gs)) (le_n _)). exact Hok.
Qed.
