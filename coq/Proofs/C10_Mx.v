(** C10 — algebraic identities the cached-RBF fast path relies on (mathcomp, axiom-free).
    Over any commutative ring: they hold for the reals and are what the binary64 code approximates. *)
From mathcomp Require Import all_ssreflect all_algebra.
From Elfi Require Import Num.GpMx.
Set Implicit Arguments.
Unset Strict Implicit.
Unset Printing Implicit Defensive.
Import GRing.Theory.
Local Open Scope ring_scope.

Section Identities.
Variable R : comRingType.
Variables n d : nat.
Implicit Types (x y : 'rV[R]_d) (X : 'M[R]_(n, d)) (k h : 'rV[R]_n) (W L Linv : 'M[R]_n).

Lemma sqnormE x : sqnorm x = \sum_j x 0 j * x 0 j.
Proof. rewrite /sqnorm mxE. apply: eq_bigr => j _. by rewrite mxE. Qed.

Lemma dotE x y : dot x y = \sum_j x 0 j * y 0 j.
Proof. rewrite /dot mxE. apply: eq_bigr => j _. by rewrite mxE. Qed.

(** |x - y|^2 = |x|^2 + |y|^2 - 2 x.y *)
Lemma sqnorm_sub x y : sqnorm (x - y) = sqnorm x + sqnorm y - 2%:R * dot x y.
Proof.
rewrite !sqnormE dotE mulr_sumr -big_split /= -sumrB.
apply: eq_bigr => j _.
rewrite !mxE.
set a := x 0 j; set b := y 0 j.
rewrite mulrBl !mulrBr (mulrC b a) opprB addrA mulr2n mulrDl mul1r opprD addrA.
by congr (_ - _); rewrite addrAC.
Qed.

(** the coded row of squared distances is the row of |x - X_i|^2 *)
Lemma r2_fastE x X : r2_fast x X = r2_def x X.
Proof.
apply/rowP => i; rewrite !mxE sqnorm_sub; congr (_ - _ * _).
rewrite /dot !mxE; apply: eq_bigr => j _; by rewrite !mxE.
Qed.

(** predict: kx . (W . kx^T) is the quadratic form kx W kx^T *)
Lemma var_fastE (kss noise : R) k W : var_fast kss noise k W = var_W kss noise k W.
Proof. by rewrite /var_fast /var_W mulmxA. Qed.

(** with W = L^-T L^-1 (GPy: woodbury_inv = (L L^T)^-1, L = woodbury_chol) the subtracted term is
    |L^-1 kx^T|^2: the textbook GP variance  k** - v^T v + sigma2,  v = L^-1 k *)
Lemma var_W_chol (kss noise : R) k W Linv :
  W = Linv^T *m Linv -> var_W kss noise k W = var_chol kss noise k Linv.
Proof.
move=> ->; rewrite /var_W /var_chol; congr (_ - _ + _).
by rewrite trmx_mul trmxK !mulmxA.
Qed.

Lemma var_fast_chol (kss noise : R) k W Linv :
  W = Linv^T *m Linv -> var_fast kss noise k W = var_chol kss noise k Linv.
Proof. by move=> HW; rewrite var_fastE (var_W_chol _ _ _ HW). Qed.

(** W = L^-T L^-1 is symmetric *)
Lemma W_sym W Linv : W = Linv^T *m Linv -> W^T = W.
Proof. by move=> ->; rewrite trmx_mul trmxK. Qed.

(** the quadratic form k W k^T: exact second-order expansion; for symmetric W the first-order
    part in the increment h is 2 h W k^T -- the differential the variance gradient is built from *)
Lemma qform_expand W k h :
  W^T = W ->
  qform W (k + h) = qform W k + 2%:R *: (h *m W *m k^T) + qform W h.
Proof.
move=> Wsym; rewrite /qform linearD /= !mulmxDl !mulmxDr.
have tr11 (M : 'M[R]_1) : M^T = M by rewrite [M]mx11_scalar tr_scalar_mx.
have -> : k *m W *m h^T = h *m W *m k^T.
  by rewrite -[LHS]tr11 !trmx_mul trmxK Wsym mulmxA.
by rewrite scaler_nat mulr2n !addrA.
Qed.

(** mean: mu = kx . alpha is linear in kx, so its differential along dk is dk . alpha; the coded
    (dkdx^T . woodbury)^T is alpha^T dkdx *)
Lemma mean_fast_linear k h (alpha : 'cV[R]_n) :
  mean_fast (k + h) alpha = mean_fast k alpha + mean_fast h alpha.
Proof. by rewrite /mean_fast mulmxDl. Qed.

Lemma gradmean_fastE (dk : 'M[R]_(n, d)) (alpha : 'cV[R]_n) :
  gradmean_fast dk alpha = gradmean_def dk alpha.
Proof. by rewrite /gradmean_fast /gradmean_def trmx_mul trmxK. Qed.

(** predictive_gradients: with v and dv the solutions of the two triangular systems
    L v = k^T (+ bias, already in k here) and L dv = dk, and W = L^-T L^-1,
    the coded  -2 (dv^T v)^T  equals the definition  -2 k W dk *)
Lemma gradvar_fastE L Linv W k (dk : 'M[R]_(n, d)) (v : 'cV[R]_n) (dv : 'M[R]_(n, d)) :
  Linv *m L = 1%:M ->
  L *m v = k^T -> L *m dv = dk ->
  W = Linv^T *m Linv ->
  gradvar_fast v dv = gradvar_def k W dk.
Proof.
move=> LinvL Hv Hdv ->; rewrite /gradvar_fast /gradvar_def; congr (_ *: _).
have -> : v = Linv *m k^T by rewrite -Hv mulmxA LinvL mul1mx.
have -> : dv = Linv *m dk by rewrite -Hdv mulmxA LinvL mul1mx.
by rewrite !trmx_mul !trmxK !mulmxA.
Qed.

(** ... and that definition is the first-order part of the variance: for symmetric W,
    qform W (k + h) - qform W k = 2 h W k^T + (second order), and column j of
    [gradvar_def k W dk] is  -2 k W dk_j = -2 dk_j^T W k^T *)
Lemma gradvar_def_col W k (dk : 'M[R]_(n, d)) j :
  W^T = W ->
  (gradvar_def k W dk) 0 j = (- 2%:R *: ((col j dk)^T *m W *m k^T)) 0 0.
Proof.
move=> Wsym.
have tr11 (M : 'M[R]_1) : M^T = M by rewrite [M]mx11_scalar tr_scalar_mx.
rewrite /gradvar_def -[(col j dk)^T *m W *m k^T]tr11 !trmx_mul !trmxK Wsym mulmxA.
rewrite !mxE; congr (_ * _).
by apply: eq_bigr => i _; rewrite !mxE.
Qed.
End Identities.
