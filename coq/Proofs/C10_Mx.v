(** C10 — algebraic identities the cached-RBF fast path relies on (mathcomp, axiom-free). *)
From mathcomp Require Import all_ssreflect all_algebra.
From Elfi Require Import Num.GpMx.
Set Implicit Arguments.
Unset Strict Implicit.
Unset Printing Implicit Defensive.
Import GRing.Theory.
Local Open Scope ring_scope.

Section Identities.
Variable R : comRingType.
Variables n d : nat.
Implicit Types (x y : 'rV[R]_d) (X : 'M[R]_(n, d)) (k h : 'rV[R]_n) (W L Linv : 'M[R]_n).

Lemma sqnormE x : sqnorm x = \sum_j x 0 j * x 0 j.
Proof. by rewrite /sqnorm mxE; apply: eq_bigr => j _; rewrite mxE. Qed.

Lemma dotE x y : dot x y = \sum_j x 0 j * y 0 j.
Proof. by rewrite /dot mxE; apply: eq_bigr => j _; rewrite mxE. Qed.

(** |x - y|^2 = |x|^2 + |y|^2 - 2 x.y *)
Lemma sqnorm_sub x y : sqnorm (x - y) = sqnorm x + sqnorm y - 2%:R * dot x y.
Proof.
rewrite !sqnormE dotE mulr_sumr -!big_split /=; apply: eq_bigr => j _.
rewrite !mxE mulrBl !mulrBr mulr2n mulrDl mul1r.
rewrite (mulrC (y 0 j) (x 0 j)); ring.
Qed.
End Identities.
