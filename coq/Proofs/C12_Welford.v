(** C12 — proofs about the batched running-moment update of [AdaptiveDistance.add_data]
    (model: Num/Welford.v). *)
From Coq Require Import String.
From Coq Require Import ZArith QArith Qabs List Bool Arith Lia Lqa Setoid Morphisms.
From Elfi Require Import Num.Distance Num.Welford.
Import ListNotations.
Open Scope Q_scope.

(** plain sum: the specification-level reading of [qsum] *)
Definition psum (l : list Q) : Q := fold_right Qplus 0 l.

Lemma qsum_psum l : qsum l == psum l.
Proof.
  induction l as [|x l IH]; [reflexivity|].
  change (Qred (x + qsum l) == x + psum l). rewrite Qred_correct, IH. reflexivity.
Qed.

Lemma psum_app a b : psum (a ++ b) == psum a + psum b.
Proof. induction a as [|x a IH]; simpl. ring. rewrite IH. ring. Qed.

Lemma Qn_S n : Qn (S n) == Qn n + 1.
Proof. unfold Qn. rewrite Nat2Z.inj_succ. unfold Z.succ. rewrite inject_Z_plus. reflexivity. Qed.

Lemma Qn_add a b : Qn (a + b) == Qn a + Qn b.
Proof. unfold Qn. rewrite Nat2Z.inj_add, inject_Z_plus. reflexivity. Qed.

Lemma Qn_0 : Qn 0 == 0.
Proof. reflexivity. Qed.

Lemma Qn_pos n : (0 < n)%nat -> 0 < Qn n.
Proof. intros H. unfold Qn. change 0 with (inject_Z 0). rewrite <- Zlt_Qlt. lia. Qed.

Lemma Qn_nonneg n : 0 <= Qn n.
Proof. unfold Qn. change 0 with (inject_Z 0). rewrite <- Zle_Qle. lia. Qed.

Lemma psum_map_sub c l : psum (map (fun x => x - c) l) == psum l - Qn (length l) * c.
Proof.
  induction l as [|x l IH]; simpl length; simpl map; simpl psum.
  - rewrite Qn_0. ring.
  - rewrite IH, Qn_S. ring.
Qed.

Lemma psum_zip_sub c d l :
  psum (zipw Qmult (map (fun x => x - c) l) (map (fun x => x - d) l))
  == psum (map Qsq l) - (c + d) * psum l + Qn (length l) * c * d.
Proof.
  induction l as [|x l IH]; simpl length; simpl map; simpl zipw; simpl psum.
  - rewrite Qn_0. ring.
  - rewrite IH, Qn_S. unfold Qsq. ring.
Qed.

Lemma psum_map_sq_sub c l :
  psum (map (fun x => Qsq (x - c)) l) == psum (map Qsq l) - (2 # 1) * c * psum l + Qn (length l) * c * c.
Proof.
  induction l as [|x l IH]; simpl length; simpl map; simpl psum.
  - rewrite Qn_0. ring.
  - rewrite IH, Qn_S. unfold Qsq. ring.
Qed.

(** ** one column: the invariant of the batched update *)

Definition Inv (n : nat) (mean m2 : Q) (A : list Q) : Prop :=
  n = length A
  /\ mean == psum A / Qn n
  /\ m2 == psum (map Qsq A) - psum A * psum A / Qn n.

Lemma Inv_init : Inv 0 0 0 [].
Proof. split; [reflexivity|]. simpl. split; unfold Qdiv; ring. Qed.

Lemma col_step_inv n mean m2 A xs :
  Inv n mean m2 A -> xs <> [] ->
  Inv (n + length xs)
      (col_mean (Qn (n + length xs)) mean xs)
      (col_m2 mean (col_mean (Qn (n + length xs)) mean xs) m2 xs)
      (A ++ xs).
Proof.
  intros (Hn & Hm & Hm2) Hne.
  assert (Hk : 0 < Qn (length xs)).
  { apply Qn_pos. destruct xs; [congruence | simpl; lia]. }
  assert (HN : 0 <= Qn n) by apply Qn_nonneg.
  assert (Hmean' : col_mean (Qn (n + length xs)) mean xs == psum (A ++ xs) / Qn (n + length xs)).
  { unfold col_mean. rewrite Qred_correct, qsum_psum, psum_map_sub, psum_app, Qn_add.
    destruct n as [|n0].
    - destruct A; [|discriminate]. simpl psum in *.
      assert (Hm0 : mean == 0) by (rewrite Hm; unfold Qdiv; ring).
      rewrite Hm0. rewrite Qn_0. field. intro E. lra.
    - assert (HN1 : 0 < Qn (S n0)) by (apply Qn_pos; lia).
      rewrite Hm. field. split; intro E; lra. }
  split; [rewrite app_length; lia|]. split; [exact Hmean'|].
  unfold col_m2. rewrite Qred_correct, qsum_psum, psum_zip_sub.
  rewrite Hmean'. rewrite map_app, !psum_app, Qn_add.
  destruct n as [|n0].
  - destruct A; [|discriminate]. simpl psum in *.
    assert (Hm0 : mean == 0) by (rewrite Hm; unfold Qdiv; ring).
    assert (Hm20 : m2 == 0) by (rewrite Hm2; unfold Qdiv; ring).
    rewrite Hm0, Hm20. rewrite Qn_0. field. intro E. lra.
  - assert (HN1 : 0 < Qn (S n0)) by (apply Qn_pos; lia).
    rewrite Hm, Hm2. field. split; intro E; lra.
Qed.

(** the per-column recurrence run over a list of batches *)
Fixpoint col_fold (n : nat) (mean m2 : Q) (bs : list (list Q)) : nat * Q * Q :=
  match bs with
  | [] => (n, mean, m2)
  | xs :: r =>
      let n' := (n + length xs)%nat in
      let mean' := col_mean (Qn n') mean xs in
      col_fold n' mean' (col_m2 mean mean' m2 xs) r
  end.

Lemma col_fold_inv bs : forall n mean m2 A,
  Inv n mean m2 A -> Forall (fun xs => xs <> []) bs ->
  let '(n', mean', m2') := col_fold n mean m2 bs in Inv n' mean' m2' (A ++ concat bs).
Proof.
  induction bs as [|xs r IH]; intros n mean m2 A HI HF; simpl.
  - rewrite app_nil_r. exact HI.
  - inversion HF as [|? ? Hx Hr]; subst.
    rewrite app_assoc. apply IH; [|assumption]. apply col_step_inv; assumption.
Qed.

(** the invariant in closed form: count, mean, sum of squared deviations from the mean *)
Lemma Inv_closed n mean m2 A :
  Inv n mean m2 A ->
  n = length A /\ mean == psum A / Qn (length A)
  /\ m2 == psum (map (fun x => Qsq (x - psum A / Qn (length A))) A).
Proof.
  intros (Hn & Hm & Hm2). subst n. split; [reflexivity|]. split; [exact Hm|].
  rewrite Hm2, psum_map_sq_sub.
  destruct A as [|a A].
  - simpl. unfold Qdiv. ring.
  - assert (HN : 0 < Qn (length (a :: A))) by (apply Qn_pos; simpl; lia).
    field. intro E. rewrite E in HN. apply (Qlt_irrefl _ HN).
Qed.

(** ** lifting to the matrix-level [add_data] *)

Lemma nth_map_seq {A} (f : nat -> A) w j d : (j < w)%nat -> nth j (map f (seq 0 w)) d = f j.
Proof.
  intros H. rewrite (nth_indep _ d (f 0%nat)) by (rewrite map_length, seq_length; exact H).
  rewrite map_nth, seq_nth by exact H. reflexivity.
Qed.

Lemma add_data_n st data : s_n (add_data st data) = (s_n st + length data)%nat.
Proof. reflexivity. Qed.

Lemma add_data_mean st data j : (j < width data)%nat ->
  bget (s_mean (add_data st data)) j
  = col_mean (Qn (s_n st + length data)) (bget (s_mean st) j) (col j data).
Proof. intros H. unfold add_data. simpl. rewrite nth_map_seq by exact H. reflexivity. Qed.

Lemma col_length j R : length (col j R) = length R.
Proof. apply map_length. Qed.

Lemma add_data_m2 st data j : (j < width data)%nat ->
  bget (s_m2 (add_data st data)) j
  = col_m2 (bget (s_mean st) j) (bget (s_mean (add_data st data)) j) (bget (s_m2 st) j) (col j data).
Proof.
  intros H. unfold add_data. simpl. rewrite nth_map_seq by exact H. reflexivity.
Qed.

Lemma fold_add_data_col w j bs : (j < w)%nat -> forall st,
  Forall (fun b => width b = w) bs ->
  let st' := fold_left add_data bs st in
  (s_n st', bget (s_mean st') j, bget (s_m2 st') j)
  = col_fold (s_n st) (bget (s_mean st) j) (bget (s_m2 st) j) (map (col j) bs).
Proof.
  intros Hj. induction bs as [|b r IH]; intros st HF; simpl.
  - reflexivity.
  - inversion HF as [|? ? Hb Hr]; subst.
    rewrite IH by assumption.
    rewrite add_data_n, add_data_m2, add_data_mean by exact Hj.
    rewrite col_length. reflexivity.
Qed.

Lemma col_concat j bs : col j (concat bs) = concat (map (col j) bs).
Proof. unfold col. rewrite concat_map. reflexivity. Qed.

Lemma colmean_eq R j : colmean R j == psum (col j R) / Qn (length R).
Proof. unfold colmean. rewrite Qred_correct, qsum_psum. reflexivity. Qed.

Lemma colss_eq R j :
  colss R j == psum (map (fun x => Qsq (x - psum (col j R) / Qn (length R))) (col j R)).
Proof.
  unfold colss. rewrite qsum_psum, !psum_map_sq_sub, colmean_eq. reflexivity.
Qed.

Lemma colvar_eq R j : colvar R j == colss R j / Qn (length R).
Proof. unfold colvar. apply Qred_correct. Qed.

(** MAIN THEOREM: for every list of non-empty batches of width [w] (every partition of the
    concatenated data set), the state after feeding them through [add_data] is
    (N, column mean, sum of squared deviations from the column mean) of the whole data set. *)
Theorem welford_batches w bs j :
  Forall (fun b => b <> [] /\ width b = w) bs -> (j < w)%nat ->
  let st := fold_left add_data bs store0 in
  let R := concat bs in
  s_n st = length R
  /\ bget (s_mean st) j == colmean R j
  /\ bget (s_m2 st) j == colss R j.
Proof.
  intros HF Hj st R.
  assert (HW : Forall (fun b => width b = w) bs) by (eapply Forall_impl; [|exact HF]; simpl; tauto).
  assert (HNE : Forall (fun xs => xs <> []) (map (col j) bs)).
  { apply Forall_forall. intros xs Hin. apply in_map_iff in Hin. destruct Hin as (b & <- & Hb).
    rewrite Forall_forall in HF. destruct (HF b Hb) as (Hne & _).
    destruct b; [congruence | discriminate]. }
  pose proof (fold_add_data_col w j bs Hj store0 HW) as E. simpl in E. fold st in E.
  pose proof (col_fold_inv (map (col j) bs) 0 0 0 [] Inv_init HNE) as HI.
  rewrite <- E in HI. simpl app in HI. rewrite <- col_concat in HI. fold R in HI.
  apply Inv_closed in HI. destruct HI as (Hn & Hm & Hm2).
  rewrite col_length in *.
  split; [exact Hn|]. split.
  - rewrite colmean_eq. exact Hm.
  - rewrite colss_eq. exact Hm2.
Qed.

(** two partitions of the same data set give equal states *)
Theorem welford_partition_independent w bs1 bs2 j :
  Forall (fun b => b <> [] /\ width b = w) bs1 ->
  Forall (fun b => b <> [] /\ width b = w) bs2 ->
  concat bs1 = concat bs2 -> (j < w)%nat ->
  let st1 := fold_left add_data bs1 store0 in
  let st2 := fold_left add_data bs2 store0 in
  s_n st1 = s_n st2
  /\ bget (s_mean st1) j == bget (s_mean st2) j
  /\ bget (s_m2 st1) j == bget (s_m2 st2) j.
Proof.
  intros H1 H2 E Hj st1 st2.
  destruct (welford_batches w bs1 j H1 Hj) as (a1 & b1 & c1).
  destruct (welford_batches w bs2 j H2 Hj) as (a2 & b2 & c2).
  fold st1 in a1, b1, c1. fold st2 in a2, b2, c2.
  rewrite E in *. split; [congruence|]. split.
  - rewrite b1, b2. reflexivity.
  - rewrite c1, c2. reflexivity.
Qed.

(** the vectors have one entry per column once a batch has been added *)
Lemma fold_add_data_shape w bs : bs <> [] -> forall st,
  Forall (fun b => width b = w) bs ->
  exists vm v2, s_mean (fold_left add_data bs st) = BVec vm /\ s_m2 (fold_left add_data bs st) = BVec v2
                /\ length vm = w /\ length v2 = w.
Proof.
  induction bs as [|b r IH]; intros Hne st HF; [congruence|].
  inversion HF as [|? ? Hb Hr]; subst. simpl.
  destruct r as [|b' r'].
  - simpl. eexists. eexists. split; [reflexivity|]. split; [reflexivity|].
    rewrite !map_length, seq_length. split; reflexivity.
  - apply IH; [discriminate | assumption].
Qed.

(** [state['scale']**2] is the population variance of the whole round, whatever the split *)
Theorem scale2_is_variance w bs j :
  bs <> [] -> Forall (fun b => b <> [] /\ width b = w) bs -> (j < w)%nat ->
  nth j (scale2_of (fold_left add_data bs store0)) 0 == colvar (concat bs) j.
Proof.
  intros Hne HF Hj.
  assert (HW : Forall (fun b => width b = w) bs) by (eapply Forall_impl; [|exact HF]; simpl; tauto).
  destruct (fold_add_data_shape w bs Hne store0 HW) as (vm & v2 & Em & E2 & Lm & L2).
  destruct (welford_batches w bs j HF Hj) as (Hn & _ & Hm2).
  unfold scale2_of. rewrite E2. rewrite E2 in Hm2. simpl in Hm2.
  set (f := fun x : Q => Qred (x / Qn (s_n (fold_left add_data bs store0)))).
  rewrite (nth_indep _ 0 (f 0)) by (rewrite map_length, L2; exact Hj).
  rewrite map_nth. unfold f. rewrite Qred_correct, Hm2, Hn, colvar_eq. reflexivity.
Qed.
