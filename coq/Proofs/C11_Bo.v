(** Proofs for C11, part 2: evidence bookkeeping of Bayesian optimisation under every schedule, and
    schedule independence with synchronous acquisition. *)
From Coq Require Import List ZArith Arith Bool Lia.
From Elfi Require Import Sched.Sched Sched.Bo Proofs.C04_Sched.
Import ListNotations.

Lemma Forall_firstn {X} (Pp : X -> Prop) n (l : list X) : Forall Pp l -> Forall Pp (firstn n l).
Proof. intros H. rewrite <- (firstn_skipn n l) in H. apply Forall_app in H. tauto. Qed.

Lemma Forall_skipn {X} (Pp : X -> Prop) n (l : list X) : Forall Pp l -> Forall Pp (skipn n l).
Proof. intros H. rewrite <- (firstn_skipn n l) in H. apply Forall_app in H. tauto. Qed.

Section Proofs.
  Variables P T A : Type.
  Variable acq : A -> list (P * T) -> nat -> Z -> list P * A.
  Variable compute : nat -> option (list P) -> list (P * T).
  Variable c : cfg.

  Notation SP := (option (list P)).
  Notation sched := (Bo.sched P T A).
  Notation estate := (Bo.estate P T).
  Notation qstate := (Bo.qstate P A).
  Notation prepare := (Bo.prepare P T A acq c).
  Notation update := (Bo.update P T c).
  Notation submit := (Bo.submit P T A acq c).
  Notation bo_clause := (Bo.bo_clause P T A c).
  Notation submit_loop := (Bo.submit_loop P T A acq c).
  Notation cancel_pending := (Bo.cancel_pending P T A).
  Notation iterate := (Bo.iterate P T A acq compute c).
  Notation infer := (Bo.infer P T A acq compute c).
  Notation seq_run := (Bo.seq_run P T A acq compute c).
  Notation finished := (Bo.finished P T A c).
  Notation idxs := (C04_Sched.idxs SP).

  Definition results (lg : list (nat * SP)) : list (P * T) := flat_map (fun ip => compute (fst ip) (snd ip)) lg.

  (** ---- what one submission does ---- *)
  Lemma submit_es s : es (submit s) = es s.
  Proof. unfold Bo.submit. destruct (prepare (es s) (qs s) (nxt s)); reflexivity. Qed.
  Lemma submit_clog s : clog (submit s) = clog s.
  Proof. unfold Bo.submit. destruct (prepare (es s) (qs s) (nxt s)); reflexivity. Qed.
  Lemma submit_nxt s : nxt (submit s) = S (nxt s).
  Proof. unfold Bo.submit. destruct (prepare (es s) (qs s) (nxt s)); reflexivity. Qed.
  Lemma submit_pend s : pend (submit s) = pend s ++ [(nxt s, fst (prepare (es s) (qs s) (nxt s)))].
  Proof. unfold Bo.submit. destruct (prepare (es s) (qs s) (nxt s)); reflexivity. Qed.
  Lemma submit_qs s : qs (submit s) = snd (prepare (es s) (qs s) (nxt s)).
  Proof. unfold Bo.submit. destruct (prepare (es s) (qs s) (nxt s)); reflexivity. Qed.

  (** ---- a generic principle for the submit loop: an invariant of guarded submissions ---- *)
  Definition guard (maxp : nat) (s : sched) : Prop :=
    length (pend s) < maxp /\ nb (es s) + length (pend s) < objective c /\ bo_clause s = true.

  Lemma submit_loop_preserves (I : sched -> Prop) maxp :
    (forall s, I s -> guard maxp s -> I (submit s)) ->
    forall fuel s orc tr s1 orc1 tr1, I s -> submit_loop fuel maxp s orc tr = (s1, orc1, tr1) -> I s1.
  Proof.
    intros Hstep. induction fuel as [|f IH]; intros s orc tr s1 orc1 tr1 HI H.
    - cbn in H. inversion H; subst; auto.
    - cbn [Bo.submit_loop] in H.
      destruct ((length (pend s) <? maxp) && (nb (es s) + length (pend s) <? objective c)) eqn:Ec.
      + apply andb_true_iff in Ec. destruct Ec as [E1 E2]. apply Nat.ltb_lt in E1, E2.
        assert (G : bo_clause s = true -> I (submit s)) by (intros Eb; apply Hstep; auto; repeat split; auto).
        revert H. destruct (pend s) as [|[i p] rest] eqn:Ep; intros H.
        * destruct (bo_clause s) eqn:Eb.
          -- eapply IH; [|exact H]. auto.
          -- inversion H; subst; auto.
        * destruct (pop orc) as [ans orc']. destruct ans.
          -- inversion H; subst; auto.
          -- destruct (bo_clause s) eqn:Eb.
             ++ eapply IH; [|exact H]. auto.
             ++ inversion H; subst; auto.
      + inversion H; subst; auto.
  Qed.

  Lemma submit_loop_es maxp fuel s orc tr s1 orc1 tr1 :
    submit_loop fuel maxp s orc tr = (s1, orc1, tr1) -> es s1 = es s /\ clog s1 = clog s.
  Proof.
    intros H. eapply (submit_loop_preserves (fun x => es x = es s /\ clog x = clog s)); [| |exact H]; auto.
    intros x [E1 E2] _. rewrite submit_es, submit_clog. auto.
  Qed.

  (** ---- the protocol invariant: contiguous pending indices, well-formed trace ---- *)
  Record InvP (maxp : nat) (s : sched) (cn : nat) (tr : list event) : Prop := {
    ip_next : nxt s = cn + length (pend s);
    ip_idx : idxs (pend s) = seq cn (length (pend s));
    ip_max : length (pend s) <= maxp;
    ip_obj : pend s = [] \/ nxt s <= objective c;
    ip_tr : chk_run maxp (0, []) tr = Some (cn, idxs (pend s))
  }.

  Lemma submit_loop_invP maxp : forall fuel s orc tr cn s1 orc1 tr1,
    InvP maxp s cn tr -> nb (es s) = cn ->
    submit_loop fuel maxp s orc tr = (s1, orc1, tr1) ->
    InvP maxp s1 cn tr1 /\ (pend s <> [] -> pend s1 <> []) /\
    (1 <= fuel -> 1 <= maxp -> finished s = false -> pend s1 <> []).
  Proof.
    induction fuel as [|f IH]; intros s orc tr cn s1 orc1 tr1 HI Hnb H.
    - cbn in H. inversion H; subst. split; [exact HI|]. split; [auto|]. intros; lia.
    - cbn [Bo.submit_loop] in H.
      destruct ((length (pend s) <? maxp) && (nb (es s) + length (pend s) <? objective c)) eqn:Ec.
      + apply andb_true_iff in Ec. destruct Ec as [E1 E2]. pose proof E1 as E1b. apply Nat.ltb_lt in E1, E2.
        assert (Hne : pend (submit s) <> []).
        { rewrite submit_pend. intros Hx. apply app_eq_nil in Hx. destruct Hx; discriminate. }
        assert (Hnb' : nb (es (submit s)) = cn) by now rewrite submit_es.
        assert (HIs : forall tr', chk_run maxp (0, []) tr' = Some (cn, idxs (pend s)) ->
                                  InvP maxp (submit s) cn (tr' ++ [ESubmit (nxt s)])).
        { intros tr' Htr. destruct HI as [I1 I2 I3 I4 I5]. constructor.
          - rewrite submit_nxt, submit_pend, app_length. simpl. lia.
          - rewrite submit_pend, idxs_app, app_length. simpl.
            replace (length (pend s) + 1) with (S (length (pend s))) by lia.
            rewrite seq_S, I2, I1. reflexivity.
          - rewrite submit_pend, app_length. simpl. lia.
          - right. rewrite submit_nxt. lia.
          - rewrite chk_run_app, Htr. cbn [chk_run chk_step].
            unfold C04_Sched.idxs at 1 2. rewrite map_length, I1, Nat.eqb_refl, E1b. cbn [andb].
            rewrite submit_pend, idxs_app. cbn. now rewrite ?I1. }
        revert H. destruct (pend s) as [|[i p] rest] eqn:Ep; intros H.
        * assert (Eb : bo_clause s = true).
          { unfold Bo.bo_clause. rewrite Ep. destruct (c_async c); auto.
            destruct (acq_index c (nxt s) <? 0)%Z; auto. simpl. now rewrite andb_false_r. }
          rewrite Eb in H. pose proof (ip_tr _ _ _ _ HI) as Htr0. rewrite Ep in Htr0.
          destruct (IH _ _ _ _ _ _ _ (HIs tr Htr0) Hnb' H) as [A1 [B1 C1]].
          split; [exact A1|]. split; [intros _; now apply B1|]. intros _ _ _. now apply B1.
        * destruct (pop orc) as [ans orc']. destruct HI as [I1 I2 I3 I4 I5]. rewrite Ep in *.
          pose proof I2 as I2'. simpl in I2. injection I2 as Bi Brest.
          assert (Hask : forall ans, chk_run maxp (0, []) (tr ++ [EAsk i ans]) = Some (cn, idxs ((i, p) :: rest))).
          { intros a. rewrite chk_run_app, I5. simpl. now rewrite Nat.eqb_refl. }
          destruct ans.
          -- inversion H; subst s1 orc1 tr1.
             split; [constructor; rewrite ?Ep; [exact I1 | exact I2' | exact I3 | exact I4 | apply Hask]|].
             split; [intros _; rewrite Ep; discriminate | intros _ _ _; rewrite Ep; discriminate].
          -- destruct (bo_clause s) eqn:Eb.
             ++ pose proof (HIs (tr ++ [EAsk i false]) (Hask false)) as HI2. rewrite <- app_assoc in HI2. simpl in HI2.
                destruct (IH _ _ _ _ _ _ _ HI2 Hnb' H) as [A1 [B1 C1]].
                split; [exact A1|]. split; [intros _; now apply B1|]. intros _ _ _. now apply B1.
             ++ inversion H; subst s1 orc1 tr1.
                split; [constructor; rewrite ?Ep; [exact I1 | exact I2' | exact I3 | exact I4 | apply Hask]|].
                split; [intros _; rewrite Ep; discriminate | intros _ _ _; rewrite Ep; discriminate].
      + inversion H; subst.
        split; [exact HI|]. split; [auto|].
        intros Hf Hm Hfin. destruct (pend s1) as [|x r] eqn:Ep; [|discriminate]. exfalso.
        apply andb_false_iff in Ec. unfold Bo.finished in Hfin. apply Nat.leb_gt in Hfin.
        simpl in Ec. destruct Ec as [E|E]; apply Nat.ltb_ge in E; lia.
  Qed.

  (** ---- the evidence invariant ---- *)
  Record InvE (pre : list (P * T)) (s : sched) (cn : nat) : Prop := {
    ie_nb : nb (es s) = cn;
    ie_clog : map fst (clog s) = seq 0 cn;
    ie_ev : ev (es s) = pre ++ results (clog s);
    ie_nev : n_ev (es s) = (c_npre c + Z.of_nat (c_b c) * Z.of_nat cn)%Z
  }.

  Lemma results_app l1 l2 : results (l1 ++ l2) = results l1 ++ results l2.
  Proof. unfold results. apply flat_map_app. Qed.

  (** ---- one iteration ---- *)
  Lemma iterate_inv maxp pre s orc tr cn :
    1 <= maxp -> InvP maxp s cn tr -> InvE pre s cn -> finished s = false ->
    exists s1 orc1 tr1 p rest,
      submit_loop maxp maxp s orc tr = (s1, orc1, tr1) /\ pend s1 = (cn, p) :: rest /\
      iterate maxp s orc tr =
        inl ({| es := update (es s) (compute cn p); qs := qs s1; nxt := nxt s1; pend := rest;
                clog := clog s ++ [(cn, p)] |}, orc1, tr1 ++ [EGet cn]) /\
      InvP maxp {| es := update (es s) (compute cn p); qs := qs s1; nxt := nxt s1; pend := rest;
                   clog := clog s ++ [(cn, p)] |} (S cn) (tr1 ++ [EGet cn]) /\
      InvE pre {| es := update (es s) (compute cn p); qs := qs s1; nxt := nxt s1; pend := rest;
                  clog := clog s ++ [(cn, p)] |} (S cn).
  Proof.
    intros Hm HP HE Hfin. unfold Bo.iterate.
    destruct (submit_loop maxp maxp s orc tr) as [[s1 orc1] tr1] eqn:Es.
    destruct (submit_loop_invP maxp _ _ _ _ _ _ _ _ HP (ie_nb _ _ _ HE) Es) as [HP1 [_ Hne]].
    specialize (Hne Hm Hm Hfin).
    destruct (submit_loop_es _ _ _ _ _ _ _ _ Es) as [Ees Ecl].
    destruct (pend s1) as [|[i p] rest] eqn:Ep; [congruence|].
    destruct HP1 as [I1 I2 I3 I4 I5]. rewrite Ep in *. simpl in I1, I2, I3.
    injection I2 as Bi Brest. subst i.
    exists s1, orc1, tr1, p, rest. rewrite Ees, Ecl.
    split; [reflexivity|]. split; [exact Ep|]. split; [reflexivity|].
    destruct HE as [E1 E2 E3 E4]. split.
    - constructor; simpl.
      + lia.
      + exact Brest.
      + lia.
      + destruct I4 as [D|D]; [discriminate | now right].
      + rewrite chk_run_app, I5. simpl. now rewrite !Nat.eqb_refl.
    - constructor; simpl.
      + now rewrite E1.
      + change (0 :: seq 1 cn) with (seq 0 (S cn)). rewrite map_app, E2, seq_S. reflexivity.
      + rewrite E3, results_app, <- app_assoc. unfold results at 3. simpl. now rewrite app_nil_r.
      + rewrite E4. lia.
  Qed.

  (** ---- the whole inference: bookkeeping for every oracle, asynchronous mode included ---- *)
  Definition final_ok (maxp : nat) (pre : list (P * T)) (s : sched) (tr : list event) : Prop :=
    pend s = [] /\ nxt s = nb (es s) /\ objective c <= nb (es s) /\
    trace_ok maxp tr = Some (nb (es s)) /\
    map fst (clog s) = seq 0 (nb (es s)) /\
    ev (es s) = pre ++ results (clog s) /\
    n_ev (es s) = (c_npre c + Z.of_nat (c_b c) * Z.of_nat (nb (es s)))%Z.

  Lemma finished_final maxp pre s tr cn :
    InvP maxp s cn tr -> InvE pre s cn -> finished s = true ->
    cancel_pending s tr = inl (s, tr) /\ final_ok maxp pre s tr.
  Proof.
    intros [I1 I2 I3 I4 I5] [E1 E2 E3 E4] Hf. unfold Bo.finished in Hf. apply Nat.leb_le in Hf.
    assert (Hp : pend s = []).
    { destruct I4 as [D|D]; auto. destruct (pend s); auto. simpl in I1. lia. }
    split.
    - unfold Bo.cancel_pending. rewrite Hp. simpl. destruct s; simpl in *. now subst.
    - rewrite Hp in *. simpl in *. unfold final_ok, trace_ok. rewrite I5, E1. repeat split; auto; lia.
  Qed.

  Theorem infer_bookkeeping maxp pre : forall fuel s orc tr cn,
    1 <= maxp -> InvP maxp s cn tr -> InvE pre s cn ->
    match infer fuel maxp s orc tr with
    | inl (s', tr') => final_ok maxp pre s' tr'
    | inr e => e = EOutOfFuel
    end.
  Proof.
    induction fuel as [|f IH]; intros s orc tr cn Hm HP HE; cbn [Bo.infer].
    - destruct (finished s) eqn:Ef; [|reflexivity].
      destruct (finished_final _ _ _ _ _ HP HE Ef) as [Hc Hfin]. now rewrite Hc.
    - destruct (finished s) eqn:Ef.
      + destruct (finished_final _ _ _ _ _ HP HE Ef) as [Hc Hfin]. now rewrite Hc.
      + destruct (iterate_inv maxp pre s orc tr cn Hm HP HE Ef) as [s1 [orc1 [tr1 [p [rest [_ [_ [Hit [HP' HE']]]]]]]]].
        rewrite Hit. eapply IH; eauto.
  Qed.

  Lemma InvP_initial maxp e q : InvP maxp {| es := e; qs := q; nxt := 0; pend := []; clog := [] |} 0 [].
  Proof. constructor; simpl; auto; lia. Qed.

  Lemma InvE_initial pre a : InvE pre (sched0 P T A c pre a) 0.
  Proof. constructor; simpl; auto. - unfold results. simpl. now rewrite app_nil_r. - lia. Qed.

  (** ---- what is supplied to the simulator: rows of acquisition answers, exactly batch_size of them ---- *)
  Section Supplied.
    Variable Good : P -> Prop.
    Hypothesis HacqG : forall a e n t, Forall Good (fst (acq a e n t)).
    Hypothesis HacqN : forall a e n t, length (fst (acq a e n t)) = n.
    Hypothesis Hbpa : 1 <= c_bpa c.

    Definition supplied_ok (ip : nat * SP) : Prop :=
      match snd ip with
      | None => (acq_index c (fst ip) < 0)%Z
      | Some rows => (0 <= acq_index c (fst ip))%Z /\ Forall Good rows /\ length rows = c_b c
      end.

    Definition acq_entry_ok (x : nat * nat * Z * nat) : Prop :=
      let '(i, n, t, _) := x in n = c_b c * c_bpa c /\ t = acq_index c i /\ (0 <= t)%Z.

    Definition Qinv (q : qstate) : Prop :=
      Forall Good (queue q) /\ (exists k, length (queue q) = k * c_b c) /\ Forall acq_entry_ok (acqlog q).

    Lemma prepare_ok e q i : Qinv q -> supplied_ok (i, fst (prepare e q i)) /\ Qinv (snd (prepare e q i)).
    Proof.
      intros [G [[k Hk] L]]. unfold Bo.prepare.
      destruct (acq_index c i <? 0)%Z eqn:Et.
      - apply Z.ltb_lt in Et. simpl. split; [exact Et|]. repeat split; eauto.
      - apply Z.ltb_ge in Et. destruct (queue q) as [|x0 l0] eqn:Eq.
        + pose proof (HacqG (ast q) (ev e) (c_b c * c_bpa c) (acq_index c i)) as HG.
          pose proof (HacqN (ast q) (ev e) (c_b c * c_bpa c) (acq_index c i)) as HN.
          destruct (acq (ast q) (ev e) (c_b c * c_bpa c) (acq_index c i)) as [rows a']. simpl in *.
          split; [unfold supplied_ok; simpl; split; [exact Et|]; split; [now apply Forall_firstn|]|].
          * rewrite firstn_length, HN. nia.
          * repeat split; simpl.
            -- now apply Forall_skipn.
            -- exists (c_bpa c - 1). rewrite skipn_length, HN. nia.
            -- apply Forall_app. split; auto. constructor; [|constructor]. simpl. auto.
        + assert (Hk1 : 1 <= k) by (destruct k; simpl in Hk; [discriminate | lia]).
          split; [unfold supplied_ok; simpl; split; [exact Et|]; split; [now apply (Forall_firstn Good (c_b c) (x0 :: l0))|]|].
          * change (length (firstn (c_b c) (x0 :: l0)) = c_b c). rewrite firstn_length, Hk. nia.
          * repeat split; simpl; auto.
            -- now apply (Forall_skipn Good (c_b c) (x0 :: l0)).
            -- exists (k - 1). change (length (skipn (c_b c) (x0 :: l0)) = (k - 1) * c_b c).
               rewrite skipn_length, Hk. nia.
    Qed.

    Definition GInv (s : sched) : Prop :=
      Forall supplied_ok (clog s) /\ Forall supplied_ok (pend s) /\ Qinv (qs s).

    Lemma submit_GInv s : GInv s -> GInv (submit s).
    Proof.
      intros [G1 [G2 G3]]. destruct (prepare_ok (es s) (qs s) (nxt s) G3) as [H1 H2].
      unfold GInv. rewrite submit_clog, submit_pend, submit_qs.
      split; [exact G1|]. split; [apply Forall_app; split; auto | exact H2].
    Qed.

    Theorem infer_supplied maxp pre : forall fuel s orc tr cn,
      1 <= maxp -> InvP maxp s cn tr -> InvE pre s cn -> GInv s ->
      match infer fuel maxp s orc tr with
      | inl (s', tr') => GInv s'
      | inr e => True
      end.
    Proof.
      induction fuel as [|f IH]; intros s orc tr cn Hm HP HE HG; cbn [Bo.infer].
      - destruct (finished s) eqn:Ef; [|exact I].
        destruct (finished_final _ _ _ _ _ HP HE Ef) as [Hc _]. now rewrite Hc.
      - destruct (finished s) eqn:Ef.
        + destruct (finished_final _ _ _ _ _ HP HE Ef) as [Hc _]. now rewrite Hc.
        + destruct (iterate_inv maxp pre s orc tr cn Hm HP HE Ef) as [s1 [orc1 [tr1 [p [rest [Hs [Hp [Hit [HP' HE']]]]]]]]].
          rewrite Hit. eapply IH; eauto.
          assert (HG1 : GInv s1).
          { eapply (submit_loop_preserves GInv); [|exact HG|exact Hs]. intros x Hx _. now apply submit_GInv. }
          destruct HG1 as [G1 [G2 G3]]. destruct (submit_loop_es _ _ _ _ _ _ _ _ Hs) as [_ Ecl].
          rewrite Hp in G2. inversion G2 as [|x0 l0 Gx Gl]; subst. rewrite Ecl in G1.
          unfold GInv. simpl. split; [apply Forall_app; split; auto|]. split; [exact Gl | exact G3].
    Qed.

    Lemma GInv_initial pre a : GInv (sched0 P T A c pre a).
    Proof. unfold GInv, Qinv. simpl. repeat split; auto. exists 0. reflexivity. Qed.

    Theorem supplied_rows maxp fuel pre a orc s tr :
      1 <= maxp -> infer fuel maxp (sched0 P T A c pre a) orc [] = inl (s, tr) ->
      Forall supplied_ok (clog s) /\ Forall acq_entry_ok (acqlog (qs s)).
    Proof.
      intros Hm H.
      pose proof (infer_supplied maxp pre fuel (sched0 P T A c pre a) orc [] 0 Hm (InvP_initial maxp _ _) (InvE_initial pre a)
                                 (GInv_initial pre a)) as HG.
      rewrite H in HG. destruct HG as [G1 [_ [_ [_ G4]]]]. split; [exact G1 | exact G4].
    Qed.
  End Supplied.

  (** ---- synchronous acquisition: every schedule is the sequential run ---- *)
  Definition noacq (q : qstate) (i : nat) : Prop := (acq_index c i <? 0)%Z = true \/ queue q <> [].

  Lemma prepare_indep q i e e' : noacq q i -> prepare e q i = prepare e' q i.
  Proof.
    intros [H|H]; unfold Bo.prepare.
    - now rewrite H.
    - destruct (acq_index c i <? 0)%Z; auto. destruct (queue q); [congruence | reflexivity].
  Qed.

  (** the pending values are those the sequential run prepares, one after the other, starting from
      the queue state [q] it has when batch [cn] is prepared; all but the oldest were prepared
      without calling the acquisition method *)
  Fixpoint chain_na (e : estate) (q : qstate) (cn : nat) (l : list (nat * SP)) (qf : qstate) : Prop :=
    match l with
    | [] => q = qf
    | (i, p) :: r => i = cn /\ noacq q cn /\ p = fst (prepare e q cn) /\ chain_na e (snd (prepare e q cn)) (S cn) r qf
    end.

  Definition chain (e : estate) (q : qstate) (cn : nat) (l : list (nat * SP)) (qf : qstate) : Prop :=
    match l with
    | [] => q = qf
    | (i, p) :: r => i = cn /\ p = fst (prepare e q cn) /\ chain_na e (snd (prepare e q cn)) (S cn) r qf
    end.

  Lemma chain_na_indep e e' : forall l q cn qf, chain_na e q cn l qf -> chain_na e' q cn l qf.
  Proof.
    induction l as [|[i p] r IH]; intros q cn qf H; simpl in *; auto.
    destruct H as [H1 [H2 [H3 H4]]]. rewrite (prepare_indep q cn e' e H2). auto.
  Qed.

  Lemma chain_na_chain e : forall l q cn qf, chain_na e q cn l qf -> chain e q cn l qf.
  Proof. intros [|[i p] r] q cn qf H; simpl in *; tauto. Qed.

  Lemma chain_na_app e : forall l q cn qf,
    chain_na e q cn l qf -> noacq qf (cn + length l) ->
    chain_na e q cn (l ++ [(cn + length l, fst (prepare e qf (cn + length l)))]) (snd (prepare e qf (cn + length l))).
  Proof.
    induction l as [|[i p] r IH]; intros q cn qf H Hn; simpl in *.
    - subst qf. rewrite Nat.add_0_r in *. auto.
    - destruct H as [H1 [H2 [H3 H4]]]. repeat split; auto.
      replace (cn + S (length r)) with (S cn + length r) in * by lia. now apply IH.
  Qed.

  Lemma chain_app e l q cn qf :
    chain e q cn l qf -> (l <> [] -> noacq qf (cn + length l)) ->
    chain e q cn (l ++ [(cn + length l, fst (prepare e qf (cn + length l)))]) (snd (prepare e qf (cn + length l))).
  Proof.
    destruct l as [|[i p] r]; intros H Hn; simpl in *.
    - subst qf. rewrite Nat.add_0_r. auto.
    - destruct H as [H1 [H2 H3]]. repeat split; auto.
      replace (cn + S (length r)) with (S cn + length r) in * by lia. apply chain_na_app; auto.
      apply Hn. discriminate.
  Qed.

  Record SInv (s : sched) (cn : nat) (qc : qstate) : Prop := {
    si_next : nxt s = cn + length (pend s);
    si_chain : chain (es s) qc cn (pend s) (qs s)
  }.

  Lemma submit_SInv maxp s cn qc : c_async c = false -> SInv s cn qc -> guard maxp s -> SInv (submit s) cn qc.
  Proof.
    intros Has [S1 S2] [_ [_ G]]. constructor.
    - rewrite submit_nxt, submit_pend, app_length. simpl. lia.
    - rewrite submit_pend, submit_qs, submit_es, S1. apply chain_app; auto.
      intros Hne. rewrite <- S1. unfold Bo.bo_clause in G. rewrite Has in G. unfold noacq.
      destruct (acq_index c (nxt s) <? 0)%Z; [now left|]. right.
      destruct (queue (qs s)); [|discriminate]. destruct (pend s); [congruence | discriminate].
  Qed.

  Lemma iterate_sync maxp pre s orc tr cn qc :
    c_async c = false -> 1 <= maxp -> InvP maxp s cn tr -> InvE pre s cn -> SInv s cn qc -> finished s = false ->
    exists s' orc' tr',
      iterate maxp s orc tr = inl (s', orc', tr') /\
      InvP maxp s' (S cn) tr' /\ InvE pre s' (S cn) /\ SInv s' (S cn) (snd (prepare (es s) qc cn)) /\
      es s' = update (es s) (compute cn (fst (prepare (es s) qc cn))) /\
      clog s' = clog s ++ [(cn, fst (prepare (es s) qc cn))].
  Proof.
    intros Has Hm HP HE HS Hfin.
    destruct (iterate_inv maxp pre s orc tr cn Hm HP HE Hfin) as [s1 [orc1 [tr1 [p [rest [Hs [Hp [Hit [HP' HE']]]]]]]]].
    assert (HS1 : SInv s1 cn qc).
    { eapply (submit_loop_preserves (fun x => SInv x cn qc)); [|exact HS|exact Hs].
      intros x Hx Hg. eapply submit_SInv; eauto. }
    destruct (submit_loop_es _ _ _ _ _ _ _ _ Hs) as [Ees _].
    destruct HS1 as [S1 S2]. rewrite Hp, Ees in S2. simpl in S2. destruct S2 as [_ [Bp Bc]]. rewrite Hp in S1. simpl in S1.
    eexists _, _, _. split; [exact Hit|]. subst p. split; [exact HP'|]. split; [exact HE'|]. split; [|split; reflexivity].
    constructor; simpl; [lia | apply chain_na_chain; eapply chain_na_indep; exact Bc].
  Qed.

  Theorem infer_sync maxp pre : forall fuel s orc tr cn qc ef qf n lgf,
    c_async c = false -> 1 <= maxp -> InvP maxp s cn tr -> InvE pre s cn -> SInv s cn qc ->
    seq_run fuel (es s) qc cn (clog s) = Some (ef, qf, n, lgf) ->
    exists s' tr',
      infer fuel maxp s orc tr = inl (s', tr') /\
      es s' = ef /\ qs s' = qf /\ clog s' = lgf /\ nxt s' = n /\ final_ok maxp pre s' tr'.
  Proof.
    induction fuel as [|f IH]; intros s orc tr cn qc ef qf n lgf Has Hm HP HE HS Hseq;
      cbn [Bo.infer]; cbn [Bo.seq_run] in Hseq; unfold Bo.finished.
    - destruct (objective c <=? nb (es s)) eqn:Ef; [|discriminate]. inversion Hseq; subst.
      destruct (finished_final maxp pre s tr n HP HE Ef) as [Hc Hfin]. rewrite Hc.
      exists s, tr. destruct Hfin as [Hp Hrest]. destruct HS as [S1 S2]. rewrite Hp in *. simpl in *.
      repeat split; auto; try tauto. lia.
    - destruct (objective c <=? nb (es s)) eqn:Ef.
      + inversion Hseq; subst.
        destruct (finished_final maxp pre s tr n HP HE Ef) as [Hc Hfin]. rewrite Hc.
        exists s, tr. destruct Hfin as [Hp Hrest]. destruct HS as [S1 S2]. rewrite Hp in *. simpl in *.
        repeat split; auto; try tauto. lia.
      + destruct (iterate_sync maxp pre s orc tr cn qc Has Hm HP HE HS Ef) as [s1 [orc1 [tr1 [Hit [HP1 [HE1 [HS1 [Ees Ecl]]]]]]]].
        rewrite Hit. destruct (prepare (es s) qc cn) as [p q'] eqn:Epr. simpl in *.
        eapply IH; eauto. rewrite Ees, Ecl. exact Hseq.
  Qed.

  Lemma SInv_initial pre a : SInv (sched0 P T A c pre a) 0 (qstate0 P A a).
  Proof. constructor; simpl; auto. Qed.

  Theorem sync_schedule_independent maxp fuel pre a orc ef qf n lgf :
    c_async c = false -> 1 <= maxp ->
    seq_run fuel (estate0 P T c pre) (qstate0 P A a) 0 [] = Some (ef, qf, n, lgf) ->
    exists s tr,
      infer fuel maxp (sched0 P T A c pre a) orc [] = inl (s, tr) /\
      es s = ef /\ qs s = qf /\ clog s = lgf /\ nxt s = n /\ pend s = [] /\ trace_ok maxp tr = Some n.
  Proof.
    intros Has Hm Hseq.
    destruct (infer_sync maxp pre fuel (sched0 P T A c pre a) orc [] 0 (qstate0 P A a) ef qf n lgf Has Hm
                (InvP_initial _ _ _) (InvE_initial pre a) (SInv_initial pre a) Hseq)
      as [s [tr [H1 [H2 [H3 [H4 [H5 H6]]]]]]].
    exists s, tr. destruct H6 as [F1 [F2 [F3 [F4 _]]]].
    split; [exact H1|]. split; [exact H2|]. split; [exact H3|]. split; [exact H4|]. split; [exact H5|].
    split; [exact F1|]. rewrite F4. f_equal. lia.
  Qed.

  Lemma results_length lg : (forall i p, length (compute i p) = c_b c) -> length (results lg) = c_b c * length lg.
  Proof.
    intros Hlen. induction lg as [|ip lg IH]; simpl; [lia|]. rewrite app_length, Hlen, IH. lia.
  Qed.

  Theorem n_evidence_counts_rows maxp fuel pre a orc s tr :
    1 <= maxp -> (forall i p, length (compute i p) = c_b c) -> c_npre c = Z.of_nat (length pre) ->
    infer fuel maxp (sched0 P T A c pre a) orc [] = inl (s, tr) ->
    n_ev (es s) = Z.of_nat (length (ev (es s))).
  Proof.
    intros Hm Hlen Hpre H.
    pose proof (infer_bookkeeping maxp pre fuel (sched0 P T A c pre a) orc [] 0 Hm (InvP_initial maxp _ _) (InvE_initial pre a)) as HB.
    rewrite H in HB. destruct HB as [_ [_ [_ [_ [F5 [F6 F7]]]]]].
    rewrite F7, F6, app_length, results_length by exact Hlen.
    assert (Hl : length (clog s) = nb (es s)) by (rewrite <- (map_length fst), F5; apply seq_length).
    rewrite Hl, Hpre. lia.
  Qed.

  (** ---- in the sequential run every acquisition sees exactly the evidence of the earlier batches ---- *)
  Section SeqCounts.
    Variable pre : list (P * T).
    Hypothesis Hlen : forall i p, length (compute i p) = c_b c.

    Definition cnt_ok (x : nat * nat * Z * nat) : Prop :=
      let '(i, _, _, cnt) := x in cnt = length pre + c_b c * i.

    Lemma seq_run_counts : forall fuel e q i lg ef qf n lgf,
      length (ev e) = length pre + c_b c * i -> Forall cnt_ok (acqlog q) ->
      seq_run fuel e q i lg = Some (ef, qf, n, lgf) ->
      Forall cnt_ok (acqlog qf) /\ length (ev ef) = length pre + c_b c * n.
    Proof.
      induction fuel as [|f IH]; intros e q i lg ef qf n lgf He Hq H; cbn [Bo.seq_run] in H.
      - destruct (objective c <=? nb e); [|discriminate]. inversion H; subst. auto.
      - destruct (objective c <=? nb e).
        + inversion H; subst. auto.
        + destruct (prepare e q i) as [p q'] eqn:Ep. eapply IH; [| |exact H].
          * simpl. rewrite app_length, Hlen, He. lia.
          * unfold Bo.prepare in Ep. destruct (acq_index c i <? 0)%Z.
            -- inversion Ep; subst; auto.
            -- destruct (queue q).
               ++ destruct (acq (ast q) (ev e) (c_b c * c_bpa c) (acq_index c i)) as [rows a'].
                  inversion Ep; subst. simpl. apply Forall_app. split; [exact Hq|].
                  constructor; [|constructor]. simpl. exact He.
               ++ inversion Ep; subst; auto.
    Qed.

    Theorem sync_acquisition_counts maxp fuel a orc ef qf n lgf :
      c_async c = false -> 1 <= maxp ->
      seq_run fuel (estate0 P T c pre) (qstate0 P A a) 0 [] = Some (ef, qf, n, lgf) ->
      exists s tr,
        infer fuel maxp (sched0 P T A c pre a) orc [] = inl (s, tr) /\ Forall cnt_ok (acqlog (qs s)).
    Proof.
      intros Has Hm Hseq.
      destruct (sync_schedule_independent maxp fuel pre a orc ef qf n lgf Has Hm Hseq) as [s [tr [H1 [_ [H3 _]]]]].
      exists s, tr. split; [exact H1|]. rewrite H3.
      eapply (seq_run_counts fuel _ _ 0 [] ef qf n lgf); [| |exact Hseq]; simpl; [lia | constructor].
    Qed.
  End SeqCounts.
End Proofs.
