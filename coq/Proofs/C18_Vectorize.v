(** Proofs for C18 (model: Num/Vectorize.v). *)
From Coq Require Import List ZArith NArith Arith Bool String Ascii Lia.
From Elfi Require Import Num.Seed Num.Vectorize Proofs.C15_Seed Proofs.C18_Collect.
Import ListNotations.

(** * A. decidable equality on values, dicts, calls *)

Lemma value_eqb_eq : forall a b, value_eqb a b = true -> a = b.
Proof.
  fix IH 1. intros a b. destruct a as [n d|s| |l|l], b as [n' d'|s'| |m|m]; simpl; try discriminate; intros H.
  - apply andb_true_iff in H as [H1 H2]. apply Z.eqb_eq in H1. apply Pos.eqb_eq in H2. subst; reflexivity.
  - apply String.eqb_eq in H. subst; reflexivity.
  - reflexivity.
  - f_equal. revert m H. induction l as [|x l IHl]; intros [|y m] H; try discriminate; auto.
    apply andb_true_iff in H as [H1 H2]. f_equal; [apply IH; exact H1 | apply IHl; exact H2].
  - f_equal. revert m H. induction l as [|x l IHl]; intros [|y m] H; try discriminate; auto.
    apply andb_true_iff in H as [H1 H2]. f_equal; [apply IH; exact H1 | apply IHl; exact H2].
Qed.

Lemma value_eqb_refl : forall a, value_eqb a a = true.
Proof.
  fix IH 1. intros a. destruct a as [n d|s| |l|l]; simpl.
  - rewrite Z.eqb_refl, Pos.eqb_refl. reflexivity.
  - apply String.eqb_refl.
  - reflexivity.
  - induction l as [|x l IHl]; auto. rewrite IH, IHl. reflexivity.
  - induction l as [|x l IHl]; auto. rewrite IH, IHl. reflexivity.
Qed.

Lemma list_eqb_eq {A} (e : A -> A -> bool) :
  (forall x y, e x y = true -> x = y) -> forall l m, list_eqb e l m = true -> l = m.
Proof.
  intros He. induction l as [|x l IH]; intros [|y m] H; simpl in H; try discriminate; auto.
  apply andb_true_iff in H as [H1 H2]. f_equal; auto.
Qed.

Lemma list_eqb_refl {A} (e : A -> A -> bool) : (forall x, e x x = true) -> forall l, list_eqb e l l = true.
Proof. intros He. induction l as [|x l IH]; simpl; auto. rewrite He, IH. reflexivity. Qed.

Lemma pair_eqb_eq a b : pair_eqb a b = true -> a = b.
Proof.
  destruct a as [k v], b as [k' v']. unfold pair_eqb. simpl. intros H.
  apply andb_true_iff in H as [H1 H2]. apply String.eqb_eq in H1. apply value_eqb_eq in H2. subst; reflexivity.
Qed.

Lemma pair_eqb_refl a : pair_eqb a a = true.
Proof. unfold pair_eqb. rewrite String.eqb_refl, value_eqb_refl. reflexivity. Qed.

Lemma dict_eqb_eq a b : dict_eqb a b = true -> a = b.
Proof. apply list_eqb_eq. exact pair_eqb_eq. Qed.

Lemma dict_eqb_refl a : dict_eqb a a = true.
Proof. apply list_eqb_refl. exact pair_eqb_refl. Qed.

Lemma call_eqb_eq a b : call_eqb a b = true -> a = b.
Proof.
  destruct a as [aa ak am], b as [ba bk bm]. unfold call_eqb. simpl. intros H.
  apply andb_true_iff in H as [H H3]. apply andb_true_iff in H as [H1 H2].
  apply (list_eqb_eq _ value_eqb_eq) in H1. apply dict_eqb_eq in H2. subst.
  destruct am as [x|], bm as [y|]; try discriminate; auto. apply dict_eqb_eq in H3. subst; reflexivity.
Qed.

Lemma call_eqb_refl a : call_eqb a a = true.
Proof.
  destruct a as [aa ak am]. unfold call_eqb. simpl.
  rewrite (list_eqb_refl _ value_eqb_refl), dict_eqb_refl. destruct am; simpl; [apply dict_eqb_refl | reflexivity].
Qed.

(** * B. dicts *)

Lemma lookup_set_same k v d : lookup k (dict_set k v d) = Some v.
Proof.
  induction d as [|[k' v'] r IH]; simpl.
  - rewrite String.eqb_refl. reflexivity.
  - destruct (String.eqb k k') eqn:E; simpl; [rewrite String.eqb_refl; reflexivity | rewrite E; exact IH].
Qed.

Lemma lookup_set_other k k' v d : k' <> k -> lookup k' (dict_set k v d) = lookup k' d.
Proof.
  intros Hne. induction d as [|[k2 v2] r IH]; simpl.
  - destruct (String.eqb k' k) eqn:E; [apply String.eqb_eq in E; contradiction | reflexivity].
  - destruct (String.eqb k k2) eqn:E; simpl.
    + apply String.eqb_eq in E. subst k2.
      destruct (String.eqb k' k) eqn:E2; [apply String.eqb_eq in E2; contradiction | reflexivity].
    + destruct (String.eqb k' k2); [reflexivity | exact IH].
Qed.

Lemma dict_set_twice k v w d : dict_set k v (dict_set k w d) = dict_set k v d.
Proof.
  induction d as [|[k' v'] r IH]; simpl.
  - rewrite String.eqb_refl. reflexivity.
  - destruct (String.eqb k k') eqn:E; simpl; [rewrite String.eqb_refl; reflexivity | rewrite E, IH; reflexivity].
Qed.

Lemma lookup_update_notin k e : forall d, lookup k e = None -> lookup k (dict_update d e) = lookup k d.
Proof.
  unfold dict_update. induction e as [|[k' v'] e IH]; intros d H; simpl in *; [reflexivity|].
  destruct (String.eqb k k') eqn:E; [discriminate|].
  rewrite IH by exact H. apply lookup_set_other. intros ->. rewrite String.eqb_refl in E. discriminate.
Qed.

Lemma set_index_twice meta i j : set_index (set_index meta i) j = set_index meta j.
Proof. destruct meta as [m|]; simpl; [rewrite dict_set_twice|]; reflexivity. Qed.

(** * C. run_vectorized refines per-row application *)

Lemma memn_app j a b : memn j (a ++ b) = memn j a || memn j b.
Proof. unfold memn. apply existsb_app. Qed.

Fixpoint auto_consts (i : nat) (inputs : list value) (cs0 : list nat) : list nat :=
  match inputs with
  | [] => []
  | x :: r => (if negb (memn i cs0) && negb (is_array x) then [i] else []) ++ auto_consts (S i) r cs0
  end.

Lemma scan_char cs0 : forall inputs i cs bs,
  (forall j, i <= j -> memn j cs = memn j cs0) ->
  scan i inputs cs bs =
    match (match bs with Some b => Some b | None => first_len_from i inputs cs0 end) with
    | None => Some (cs ++ auto_consts i inputs cs0, None)
    | Some n => if mismatch_from i inputs cs0 n then None else Some (cs ++ auto_consts i inputs cs0, Some n)
    end.
Proof.
  induction inputs as [|x r IH]; intros i cs bs Hinv; simpl.
  - rewrite app_nil_r. destruct bs; reflexivity.
  - rewrite (Hinv i (le_n i)). unfold is_const.
    destruct (memn i cs0) eqn:Em; simpl.
    + rewrite IH by (intros j Hj; apply Hinv; lia). reflexivity.
    + destruct (is_array x) eqn:Ea; simpl.
      * destruct bs as [b|].
        -- rewrite (Nat.eqb_sym (List.length (rows x)) b).
           destruct (b =? List.length (rows x)) eqn:Eb; simpl; [|reflexivity].
           rewrite IH by (intros j Hj; apply Hinv; lia). reflexivity.
        -- rewrite IH by (intros j Hj; apply Hinv; lia). rewrite Nat.eqb_refl. simpl. reflexivity.
      * rewrite IH.
        -- rewrite <- app_assoc. reflexivity.
        -- intros j Hj. rewrite memn_app. simpl. rewrite orb_false_r.
           replace (j =? i) with false by (symmetry; apply Nat.eqb_neq; lia).
           rewrite orb_false_r. apply Hinv. lia.
Qed.

Lemma auto_ge cs0 : forall inputs i j, j < i -> memn j (auto_consts i inputs cs0) = false.
Proof.
  induction inputs as [|x r IH]; intros i j Hj; simpl; [reflexivity|].
  rewrite memn_app, IH by lia. rewrite orb_false_r.
  destruct (negb (memn i cs0) && negb (is_array x)); simpl; [|reflexivity].
  rewrite orb_false_r. apply Nat.eqb_neq. lia.
Qed.

Lemma auto_mem cs0 : forall inputs i k x, nth_error inputs k = Some x ->
  memn (i + k) (auto_consts i inputs cs0) = negb (memn (i + k) cs0) && negb (is_array x).
Proof.
  induction inputs as [|y r IH]; intros i k x H; [destruct k; discriminate|].
  destruct k as [|k]; simpl in H.
  - inversion H; subst y. simpl. rewrite Nat.add_0_r, memn_app, auto_ge by lia. rewrite orb_false_r.
    destruct (negb (memn i cs0) && negb (is_array x)); simpl; [rewrite Nat.eqb_refl|]; reflexivity.
  - cbn [auto_consts]. rewrite memn_app. replace (i + S k) with (S i + k) by lia. rewrite (IH (S i) k x H).
    destruct (negb (memn i cs0) && negb (is_array y)); [|reflexivity].
    unfold memn at 1. cbn [existsb]. replace (S i + k =? i) with false by (symmetry; apply Nat.eqb_neq; lia).
    reflexivity.
Qed.

Lemma mapi_from_ext {A B} (f g : nat -> A -> B) : forall l i,
  (forall k x, nth_error l k = Some x -> f (i + k) x = g (i + k) x) -> mapi_from f i l = mapi_from g i l.
Proof.
  induction l as [|y r IH]; intros i H; simpl; [reflexivity|]. f_equal.
  - specialize (H 0 y eq_refl). rewrite Nat.add_0_r in H. exact H.
  - apply IH. intros k x Hk. replace (S i + k) with (i + S k) by lia. apply H. exact Hk.
Qed.

Lemma mapi_from_nth {A B} (f : nat -> A -> B) : forall l i k,
  nth_error (mapi_from f i l) k = option_map (f (i + k)) (nth_error l k).
Proof.
  induction l as [|y r IH]; intros i k; simpl; [destruct k; reflexivity|].
  destruct k as [|k]; simpl; [rewrite Nat.add_0_r; reflexivity|].
  rewrite IH. replace (S i + k) with (i + S k) by lia. reflexivity.
Qed.

Lemma mapi_from_length {A B} (f : nat -> A -> B) : forall l i, List.length (mapi_from f i l) = List.length l.
Proof. induction l; intros; simpl; auto. Qed.

Lemma row_args_expected inputs cs0 k :
  row_args inputs (cs0 ++ auto_consts 0 inputs cs0) k = expected_args inputs cs0 k.
Proof.
  unfold row_args, expected_args. apply mapi_from_ext. intros j x Hj. simpl.
  rewrite memn_app. pose proof (auto_mem cs0 inputs 0 j x Hj) as H. simpl in H. rewrite H.
  unfold is_const. destruct (memn j cs0), (is_array x); reflexivity.
Qed.

Lemma run_loop_map inputs consts kw : forall ks meta,
  run_loop ks inputs consts kw meta = map (fun k => mkcall (row_args inputs consts k) kw (set_index meta k)) ks.
Proof.
  induction ks as [|k r IH]; intros meta; simpl; [reflexivity|]. f_equal.
  rewrite IH. apply map_ext. intros j. rewrite set_index_twice. reflexivity.
Qed.

Definition cont (df : bool) : container := if df then ObjArray else Converted.

(** The two loops of [run_vectorized] compute exactly the per-row application. *)
Theorem vec_correct inputs constants bs kw meta df :
  run_vectorized inputs constants bs kw meta df =
    let cs := consts0 constants in
    let n := batch_len inputs cs bs in
    if mismatch_from 0 inputs cs n then VError
    else VOk (cont df) (map (expected_call inputs cs kw meta) (seq 0 n)).
Proof.
  unfold run_vectorized. fold (consts0 constants). set (cs := consts0 constants).
  rewrite (scan_char cs inputs 0 cs bs) by reflexivity.
  unfold batch_len. simpl.
  assert (Hmap : forall n, run_loop (seq 0 n) inputs (cs ++ auto_consts 0 inputs cs) kw meta
                           = map (expected_call inputs cs kw meta) (seq 0 n)).
  { intros n. rewrite run_loop_map. apply map_ext. intros k. unfold expected_call. rewrite row_args_expected. reflexivity. }
  destruct bs as [b|].
  - destruct (mismatch_from 0 inputs cs b); [reflexivity|]. rewrite Hmap. reflexivity.
  - destruct (first_len_from 0 inputs cs) as [n|] eqn:Ef.
    + destruct (mismatch_from 0 inputs cs n); [reflexivity|]. rewrite Hmap. reflexivity.
    + (* no non-constant input at all: nothing can mismatch *)
      assert (Hno : forall l i m, first_len_from i l cs = None -> mismatch_from i l cs m = false).
      { induction l as [|x r IH]; intros i m H; simpl in *; [reflexivity|].
        destruct (is_const cs i x); [simpl; apply IH; exact H | discriminate]. }
      rewrite (Hno _ _ _ Ef). rewrite Hmap. reflexivity.
Qed.

(** ** consequences *)

Lemma mismatch_from_iff cs n : forall inputs i,
  mismatch_from i inputs cs n = true <->
  exists k x, nth_error inputs k = Some x /\ is_const cs (i + k) x = false /\ List.length (rows x) <> n.
Proof.
  induction inputs as [|y r IH]; intros i; simpl.
  - split; [discriminate | intros [k [x [H _]]]; destruct k; discriminate].
  - rewrite orb_true_iff, IH. split.
    + intros [H | [k [x [H1 [H2 H3]]]]].
      * apply andb_true_iff in H as [H1 H2]. exists 0, y. rewrite Nat.add_0_r.
        apply negb_true_iff in H1. apply negb_true_iff in H2. apply Nat.eqb_neq in H2. auto.
      * exists (S k), x. replace (i + S k) with (S i + k) by lia. auto.
    + intros [k [x [H1 [H2 H3]]]]. destruct k as [|k]; simpl in H1.
      * inversion H1; subst y. left. rewrite Nat.add_0_r in H2. rewrite H2. simpl.
        apply negb_true_iff. apply Nat.eqb_neq. exact H3.
      * right. exists k, x. replace (S i + k) with (i + S k) by lia. auto.
Qed.

Theorem vec_length inputs constants bs kw meta df k calls :
  run_vectorized inputs constants bs kw meta df = VOk k calls ->
  List.length calls = batch_len inputs (consts0 constants) bs /\ k = cont df.
Proof.
  rewrite vec_correct. simpl. destruct (mismatch_from _ _ _ _); [discriminate|].
  intros H. inversion H; subst. rewrite map_length, seq_length. auto.
Qed.

Theorem vec_rejects_iff inputs constants bs kw meta df :
  run_vectorized inputs constants bs kw meta df = VError <->
  exists j x, nth_error inputs j = Some x /\ is_const (consts0 constants) j x = false
              /\ List.length (rows x) <> batch_len inputs (consts0 constants) bs.
Proof.
  rewrite vec_correct. simpl. rewrite <- (mismatch_from_iff (consts0 constants) _ inputs 0).
  destruct (mismatch_from _ _ _ _); split; intros H; try reflexivity; discriminate.
Qed.

(** entry [i] is the operation applied to row [i] of every non-constant input, with constants
    (marked or auto-detected non-arrays) and keyword arguments unchanged *)
Theorem vec_entry inputs constants bs kw meta df k calls i :
  run_vectorized inputs constants bs kw meta df = VOk k calls ->
  i < batch_len inputs (consts0 constants) bs ->
  exists c, nth_error calls i = Some c
    /\ c_kw c = kw
    /\ c_meta c = set_index meta i
    /\ List.length (c_args c) = List.length inputs
    /\ forall j x, nth_error inputs j = Some x ->
         if is_const (consts0 constants) j x then nth_error (c_args c) j = Some x
         else exists r, nth_error (rows x) i = Some r /\ nth_error (c_args c) j = Some r.
Proof.
  rewrite vec_correct. simpl. set (cs := consts0 constants). set (n := batch_len inputs cs bs).
  destruct (mismatch_from 0 inputs cs n) eqn:Em; [discriminate|]. intros H Hi. inversion H; subst k calls. clear H.
  exists (expected_call inputs cs kw meta i). split; [|split; [|split; [|split]]]; try reflexivity.
  - rewrite nth_error_map, nth_error_nth' with (d := 0) by (rewrite seq_length; exact Hi).
    rewrite seq_nth by exact Hi. reflexivity.
  - simpl. unfold expected_args. apply mapi_from_length.
  - intros j x Hj. simpl. unfold expected_args. pose proof (mapi_from_nth (fun j x => if is_const cs j x then x else nth i (rows x) VNone) inputs 0 j) as Hn.
    simpl in Hn. rewrite Hj in Hn. simpl in Hn.
    destruct (is_const cs j x) eqn:Ec; [exact Hn|].
    exists (nth i (rows x) VNone). split; [|exact Hn].
    apply nth_error_nth'.
    destruct (Nat.eq_dec (List.length (rows x)) n) as [E|E]; [rewrite E; exact Hi|exfalso].
    assert (Hm : mismatch_from 0 inputs cs n = true) by (apply mismatch_from_iff; exists j, x; auto).
    rewrite Hm in Em. discriminate.
Qed.

(** batch length: [batch_size] when given, else the length of the first non-constant input, else 1 *)
Theorem batch_len_given inputs cs b : batch_len inputs cs (Some b) = b.
Proof. reflexivity. Qed.

Lemma first_len_split cs : forall pre i x post,
  (forall k y, nth_error pre k = Some y -> is_const cs (i + k) y = true) ->
  is_const cs (i + List.length pre) x = false ->
  first_len_from i (pre ++ x :: post) cs = Some (List.length (rows x)).
Proof.
  induction pre as [|p pre IH]; intros i x post Hpre Hx; simpl in *.
  - rewrite Nat.add_0_r in Hx. rewrite Hx. reflexivity.
  - pose proof (Hpre 0 p eq_refl) as H0. rewrite Nat.add_0_r in H0. rewrite H0.
    apply IH.
    + intros k y Hk. replace (S i + k) with (i + S k) by lia. apply Hpre. exact Hk.
    + replace (S i + List.length pre) with (i + S (List.length pre)) by lia. exact Hx.
Qed.

Theorem batch_len_first pre x post cs :
  (forall k y, nth_error pre k = Some y -> is_const cs k y = true) ->
  is_const cs (List.length pre) x = false ->
  batch_len (pre ++ x :: post) cs None = List.length (rows x).
Proof. intros H1 H2. unfold batch_len. rewrite (first_len_split cs pre 0 x post); auto. Qed.

Lemma first_len_none cs : forall inputs i,
  (forall k y, nth_error inputs k = Some y -> is_const cs (i + k) y = true) -> first_len_from i inputs cs = None.
Proof.
  induction inputs as [|p r IH]; intros i H; simpl; [reflexivity|].
  pose proof (H 0 p eq_refl) as H0. rewrite Nat.add_0_r in H0. rewrite H0. apply IH.
  intros k y Hk. replace (S i + k) with (i + S k) by lia. apply H. exact Hk.
Qed.

Theorem batch_len_default inputs cs :
  (forall k y, nth_error inputs k = Some y -> is_const cs k y = true) -> batch_len inputs cs None = 1.
Proof. intros H. unfold batch_len. rewrite (first_len_none cs inputs 0); auto. Qed.

(** what the operation sees in [meta]: the row index, everything else as given *)
Theorem meta_row_index m i : lookup iib (dict_set iib (vint (Z.of_nat i)) m) = Some (vint (Z.of_nat i)).
Proof. apply lookup_set_same. Qed.

Theorem meta_other_keys m i k : k <> iib -> lookup k (dict_set iib (vint (Z.of_nat i)) m) = lookup k m.
Proof. intros H. apply lookup_set_other. exact H. Qed.

(** * D. template substitution *)

Lemma append_assoc (a b c : string) : String.append (String.append a b) c = String.append a (String.append b c).
Proof. induction a as [|x a IH]; simpl; [reflexivity | rewrite IH; reflexivity]. Qed.

Lemma append_nil_r (a : string) : String.append a EmptyString = a.
Proof. induction a as [|x a IH]; simpl; [reflexivity | rewrite IH; reflexivity]. Qed.

(** substitution is a homomorphism from token lists to strings ... *)
Theorem format_app a b args kw :
  format (a ++ b) args kw =
    match format a args kw with
    | FOk s => match format b args kw with FOk s' => FOk (String.append s s') | e => e end
    | e => e
    end.
Proof.
  induction a as [|x a IH]; simpl.
  - destruct (format b args kw); reflexivity.
  - destruct (tok_str x args kw) as [s| |]; try reflexivity. rewrite IH.
    destruct (format a args kw) as [s1| |]; try reflexivity.
    destruct (format b args kw) as [s2| |]; try reflexivity. rewrite append_assoc. reflexivity.
Qed.

(** ... that leaves literals untouched and maps each placeholder to its input *)
Theorem format_lit s args kw : format [Lit s] args kw = FOk s.
Proof. simpl. rewrite append_nil_r. reflexivity. Qed.

Theorem format_pos n v args kw : nth_error args n = Some v -> format [Pos n] args kw = FOk (render v).
Proof. intros H. simpl. rewrite H, append_nil_r. reflexivity. Qed.

Theorem format_key k v args kw : lookup k kw = Some v -> format [Key k] args kw = FOk (render v).
Proof. intros H. simpl. rewrite H, append_nil_r. reflexivity. Qed.

Definition image (args : list value) (kw : dict) (x : tok) : string :=
  match tok_str x args kw with FOk s => s | _ => EmptyString end.

(** succeeds exactly when every placeholder has an input, and then the result is the concatenation of
    the per-token images (no placeholder is left, nothing else is touched) *)
Theorem format_supplied t args kw :
  supplied t args kw = true <-> format t args kw = FOk (String.concat EmptyString (map (image args kw) t)).
Proof.
  induction t as [|x t IH]; simpl.
  - split; reflexivity.
  - split.
    + intros H. apply andb_true_iff in H as [H1 H2]. apply IH in H2. rewrite H2.
      assert (Hs : exists s, tok_str x args kw = FOk s).
      { destruct x as [s|n|k]; simpl in *.
        - eauto.
        - apply Nat.ltb_lt in H1. destruct (nth_error args n) eqn:E; [eauto|]. apply nth_error_None in E. lia.
        - destruct (lookup k kw); [eauto | discriminate]. }
      destruct Hs as [s Hs]. rewrite Hs.
      assert (Hi : image args kw x = s) by (unfold image; rewrite Hs; reflexivity). rewrite Hi. f_equal.
      destruct t as [|y t']; simpl; [apply append_nil_r | reflexivity].
    + intros H. destruct (tok_str x args kw) as [s| |] eqn:Ex; try discriminate.
      destruct (format t args kw) as [s'| |] eqn:Et; try discriminate.
      apply andb_true_iff. split.
      * destruct x as [l|n|k]; simpl in *; auto.
        -- destruct (nth_error args n) eqn:E; [|discriminate]. apply Nat.ltb_lt. apply nth_error_Some. congruence.
        -- destruct (lookup k kw); [reflexivity | discriminate].
      * (* the tail succeeded, hence is supplied: use the converse shape of IH *)
        clear H IH Ex. revert s' Et. induction t as [|y t IHt]; intros s' Et; simpl in *; [reflexivity|].
        destruct (tok_str y args kw) as [sy| |] eqn:Ey; try discriminate.
        destruct (format t args kw) as [st| |] eqn:Ett; try discriminate.
        apply andb_true_iff. split; [|eapply IHt; reflexivity].
        destruct y as [l|n|k]; simpl in *; auto.
        -- destruct (nth_error args n) eqn:E; [|discriminate]. apply Nat.ltb_lt. apply nth_error_Some. congruence.
        -- destruct (lookup k kw); [reflexivity | discriminate].
Qed.

Lemma format_ok_supplied t args kw s : format t args kw = FOk s -> supplied t args kw = true.
Proof.
  revert s. induction t as [|y t IHt]; intros s Et; simpl in *; [reflexivity|].
  destruct (tok_str y args kw) as [sy| |] eqn:Ey; try discriminate.
  destruct (format t args kw) as [st| |] eqn:Ett; try discriminate.
  apply andb_true_iff. split; [|eapply IHt; reflexivity].
  destruct y as [l|n|k]; simpl in *; auto.
  - destruct (nth_error args n) eqn:E; [|discriminate]. apply Nat.ltb_lt. apply nth_error_Some. congruence.
  - destruct (lookup k kw); [reflexivity | discriminate].
Qed.

(** * E. seeds *)

Theorem prepare_seed_spec kw s kw' seed :
  prepare_seed kw (Some s) = SOk kw' seed ->
  exists v, seed = Some v /\ Seed.spec s (sub_index kw) = Some v
            /\ kw' = dict_set "seed"%string (vint (Z.of_N v)) kw.
Proof.
  unfold prepare_seed. destruct (get_sub_seed _ s high31 (sub_index kw) None) as [| |v c] eqn:E; try discriminate.
  intros H. inversion H; subst. exists v.
  destruct (get_sub_seed_spec _ _ _ _ None v c I E) as [H1 _]. auto.
Qed.

(** the seed handed to the command is the C15 function of (generator stream, row index) only *)
Theorem external_seed t args kw meta s cmd seed :
  run_external t args kw meta (Some s) = EOk cmd seed ->
  exists v, seed = Some v /\ Seed.spec s (sub_index (unpack_meta kw meta)) = Some v.
Proof.
  unfold run_external. destruct (prepare_seed _ _) as [kw' sd| |] eqn:E; try discriminate.
  destruct (format t args kw') as [c| |]; try discriminate. intros H. inversion H; subst.
  destruct (prepare_seed_spec _ _ _ _ E) as [v [H1 [H2 _]]]. eauto.
Qed.

Theorem external_no_seed t args kw meta cmd seed :
  run_external t args kw meta None = EOk cmd seed -> seed = None.
Proof.
  unfold run_external. simpl. destruct (format t args _) as [c| |]; try discriminate. intros H. inversion H; reflexivity.
Qed.

(** the command that is executed: the template with the unpacked keywords and the seed substituted *)
Theorem external_command t args kw meta rs cmd seed :
  run_external t args kw meta rs = EOk cmd seed ->
  let kw1 := unpack_meta kw meta in
  let kw2 := match seed with Some v => dict_set "seed"%string (vint (Z.of_N v)) kw1 | None => kw1 end in
  supplied t args kw2 = true /\ cmd = String.concat EmptyString (map (image args kw2) t).
Proof.
  unfold run_external. destruct (prepare_seed _ rs) as [kw' sd| |] eqn:E; try discriminate.
  destruct (format t args kw') as [c| |] eqn:Ef; try discriminate. intros H. inversion H; subst c sd. clear H.
  assert (Hkw : kw' = match seed with Some v => dict_set "seed"%string (vint (Z.of_N v)) (unpack_meta kw meta)
                                 | None => unpack_meta kw meta end).
  { destruct rs as [s|].
    - destruct (prepare_seed_spec _ _ _ _ E) as [v [H1 [_ H3]]]. subst. reflexivity.
    - simpl in E. inversion E; subst. reflexivity. }
  simpl. rewrite <- Hkw. pose proof (format_ok_supplied _ _ _ _ Ef) as Hs. split; [exact Hs|].
  apply format_supplied in Hs. rewrite Hs in Ef. inversion Ef. reflexivity.
Qed.

Theorem external_seed_deterministic t1 a1 kw1 m1 t2 a2 kw2 m2 s c1 c2 sd1 sd2 :
  run_external t1 a1 kw1 m1 (Some s) = EOk c1 sd1 ->
  run_external t2 a2 kw2 m2 (Some s) = EOk c2 sd2 ->
  sub_index (unpack_meta kw1 m1) = sub_index (unpack_meta kw2 m2) -> sd1 = sd2.
Proof.
  intros H1 H2 Hi. apply external_seed in H1 as [v1 [-> E1]]. apply external_seed in H2 as [v2 [-> E2]]. congruence.
Qed.

Lemma sub_index_of_nat kw i : lookup iib kw = Some (vint (Z.of_nat i)) -> sub_index kw = i.
Proof.
  unfold sub_index. intros ->. unfold vint. destruct i as [|i]; simpl; [reflexivity|].
  apply SuccNat2Pos.id_succ.
Qed.

(** with run metadata and no explicit index keyword, [prepare_seed] sees the row index *)
Lemma sub_index_uses_meta kw m i :
  lookup iib kw = None -> sub_index (unpack_meta kw (set_index (Some m) i)) = i.
Proof.
  intros H. apply sub_index_of_nat. simpl. rewrite lookup_update_notin by exact H. apply lookup_set_same.
Qed.

Lemma run_vec_ext_nth t inputs constants bs kw meta rs res i :
  run_vec_ext t inputs constants bs kw meta rs = Some res ->
  i < List.length res ->
  i < batch_len inputs (consts0 constants) bs /\
  nth_error res i = Some (run_external t (expected_args inputs (consts0 constants) i) kw (set_index meta i) rs).
Proof.
  unfold run_vec_ext. rewrite vec_correct. simpl.
  destruct (mismatch_from _ _ _ _); [discriminate|]. intros H. inversion H; subst res. clear H.
  rewrite !map_length, seq_length. intros Hi. split; [exact Hi|].
  rewrite nth_error_map, nth_error_map, nth_error_nth' with (d := 0) by (rewrite seq_length; exact Hi).
  rewrite seq_nth by exact Hi. reflexivity.
Qed.

Theorem vec_ext_length t inputs constants bs kw meta rs res :
  run_vec_ext t inputs constants bs kw meta rs = Some res ->
  List.length res = batch_len inputs (consts0 constants) bs.
Proof.
  unfold run_vec_ext. rewrite vec_correct. simpl.
  destruct (mismatch_from _ _ _ _); [discriminate|]. intros H. inversion H; subst res.
  rewrite !map_length, seq_length. reflexivity.
Qed.

(** rows of one batch get the seeds of their row indices ... *)
Theorem vec_ext_row_seed t inputs constants bs kw m s res i cmd seed :
  run_vec_ext t inputs constants bs kw (Some m) (Some s) = Some res ->
  lookup iib kw = None ->
  nth_error res i = Some (EOk cmd seed) ->
  exists v, seed = Some v /\ Seed.spec s i = Some v.
Proof.
  intros H Hk Hn.
  assert (Hi : i < List.length res) by (apply nth_error_Some; congruence).
  destruct (run_vec_ext_nth _ _ _ _ _ _ _ _ _ H Hi) as [_ Hr]. rewrite Hr in Hn.
  assert (He : run_external t (expected_args inputs (consts0 constants) i) kw (set_index (Some m) i) (Some s) = EOk cmd seed)
    by congruence.
  apply external_seed in He as [v [-> Hv]]. rewrite sub_index_uses_meta in Hv by exact Hk. eauto.
Qed.

(** ... hence different rows of a batch never share a seed (C15 injectivity) *)
Theorem vec_ext_seeds_distinct t inputs constants bs kw m s res i j ci cj vi vj :
  run_vec_ext t inputs constants bs kw (Some m) (Some s) = Some res ->
  lookup iib kw = None ->
  nth_error res i = Some (EOk ci (Some vi)) ->
  nth_error res j = Some (EOk cj (Some vj)) ->
  i <> j -> vi <> vj.
Proof.
  intros H Hk Hi Hj Hne Heq. subst vj.
  destruct (vec_ext_row_seed _ _ _ _ _ _ _ _ _ _ _ H Hk Hi) as [v [E1 S1]].
  destruct (vec_ext_row_seed _ _ _ _ _ _ _ _ _ _ _ H Hk Hj) as [w [E2 S2]].
  inversion E1; inversion E2; subst. apply Hne. eapply spec_injective; eauto.
Qed.

(** without run metadata every row gets the same index, hence the same seed *)
Theorem vec_ext_no_meta_same_seed t inputs constants bs kw s res i cmd seed :
  run_vec_ext t inputs constants bs kw None (Some s) = Some res ->
  nth_error res i = Some (EOk cmd seed) ->
  exists v, seed = Some v /\ Seed.spec s (sub_index kw) = Some v.
Proof.
  intros H Hn.
  assert (Hi : i < List.length res) by (apply nth_error_Some; congruence).
  destruct (run_vec_ext_nth _ _ _ _ _ _ _ _ _ H Hi) as [_ Hr]. rewrite Hr in Hn.
  assert (He : run_external t (expected_args inputs (consts0 constants) i) kw (set_index None i) (Some s) = EOk cmd seed)
    by congruence.
  apply external_seed in He as [v [-> Hv]]. simpl in Hv. eauto.
Qed.

(** * F. the decidable statement [ok]: sound, and satisfied by the model *)

Lemma calls_ok_sound inputs cs kw meta : forall calls i,
  calls_ok_from i calls inputs cs kw meta = true ->
  forall k c, nth_error calls k = Some c -> c = expected_call inputs cs kw meta (i + k).
Proof.
  induction calls as [|c0 r IH]; intros i H k c Hk; [destruct k; discriminate|].
  simpl in H. apply andb_true_iff in H as [H1 H2]. destruct k as [|k]; simpl in Hk.
  - inversion Hk; subst. rewrite Nat.add_0_r. apply call_eqb_eq. exact H1.
  - replace (i + S k) with (S i + k) by lia. eapply IH; eauto.
Qed.

Definition vec_statement (c : vcase) : Prop :=
  let cs := consts0 (v_constants c) in
  let n := batch_len (v_inputs c) cs (v_batch_size c) in
  match v_impl c with
  | None => exists j x, nth_error (v_inputs c) j = Some x /\ is_const cs j x = false /\ List.length (rows x) <> n
  | Some calls =>
      (forall j x, nth_error (v_inputs c) j = Some x -> is_const cs j x = false -> List.length (rows x) = n)
      /\ List.length calls = n
      /\ (forall i cl, nth_error calls i = Some cl -> cl = expected_call (v_inputs c) cs (v_kw c) (v_meta c) i)
      /\ v_impl_obj c = v_dtype_false c
      (* the returned array: one entry per call, collected from the operation's outputs as the dtype argument says
         (dtype=None: element type = promotion over ALL rows, every entry keeps its own row's value) *)
      /\ match v_typed c with
         | Some t => List.length (t_outs t) = n /\ List.length (snd (t_ret t)) = n
                     /\ typed_statement (t_dtype t) (t_outs t) (t_ret t)
         | None => True
         end
  end.

Theorem vok_sound c : vok c = true -> vec_statement c.
Proof.
  unfold vok, vec_statement. destruct (v_impl c) as [calls|].
  - intros H. apply andb_true_iff in H as [H H5]. apply andb_true_iff in H as [H H4]. apply andb_true_iff in H as [H H3].
    apply andb_true_iff in H as [H1 H2].
    apply negb_true_iff in H1. apply Nat.eqb_eq in H2. apply Bool.eqb_prop in H4.
    repeat split; auto.
    + intros j x Hj Hc. destruct (Nat.eq_dec (List.length (rows x)) (batch_len (v_inputs c) (consts0 (v_constants c)) (v_batch_size c))) as [E|E]; [exact E|exfalso].
      assert (Hm : mismatch_from 0 (v_inputs c) (consts0 (v_constants c)) (batch_len (v_inputs c) (consts0 (v_constants c)) (v_batch_size c)) = true)
        by (apply mismatch_from_iff; exists j, x; auto).
      rewrite Hm in H1. discriminate.
    + intros i cl Hi. apply (calls_ok_sound _ _ _ _ _ 0 H3 i cl Hi).
    + destruct (v_typed c) as [t|]; [|exact I].
      apply andb_true_iff in H5 as [Hl Ht]. apply Nat.eqb_eq in Hl.
      split; [congruence|]. split; [rewrite (typed_ok_length _ _ _ Ht); congruence | apply typed_ok_sound; exact Ht].
  - intros H. apply mismatch_from_iff in H. exact H.
Qed.

Lemma calls_ok_map inputs cs kw meta : forall n i,
  calls_ok_from i (map (expected_call inputs cs kw meta) (seq i n)) inputs cs kw meta = true.
Proof. induction n as [|n IH]; intros i; simpl; [reflexivity|]. rewrite call_eqb_refl, IH. reflexivity. Qed.

Definition vview (r : vresult) : option (list call) := match r with VError => None | VOk _ calls => Some calls end.

(** the operation is uninterpreted: ANY function [op] from the call it receives to the typed value it returns.  The model's
    typed observation = numpy's collection of the outputs of the model's calls (none when numpy raises: rows of different shapes) *)
Definition dfalse (d : dreq) : bool := match d with DFalse => true | _ => false end.

Definition tview (op : call -> oval) (d : dreq) (r : vresult) : option tobs :=
  match r with
  | VOk _ calls => option_map (fun ret => {| t_dtype := d; t_outs := map op calls; t_ret := ret |}) (collect d (map op calls))
  | VError => None
  end.

Definition model_case (op : call -> oval) (d : dreq) inputs constants bs kw meta : vcase :=
  let r := run_vectorized inputs constants bs kw meta (dfalse d) in
  {| v_inputs := inputs; v_constants := constants; v_batch_size := bs; v_kw := kw; v_meta := meta;
     v_dtype_false := dfalse d; v_impl := vview r; v_impl_obj := dfalse d; v_typed := tview op d r |}.

(** the model's own output satisfies [vok], for all inputs, every dtype argument and every operation *)
Theorem vmodel_ok op d inputs constants bs kw meta : vok (model_case op d inputs constants bs kw meta) = true.
Proof.
  unfold vok, model_case. simpl. rewrite vec_correct. simpl.
  destruct (mismatch_from 0 inputs (consts0 constants) (batch_len inputs (consts0 constants) bs)) eqn:Em; simpl.
  - reflexivity.
  - rewrite ?Em, map_length, seq_length, Nat.eqb_refl, calls_ok_map, Bool.eqb_reflx. simpl.
    destruct (collect d _) as [ret|] eqn:Ec; simpl; [|reflexivity].
    rewrite !map_length, seq_length, Nat.eqb_refl. simpl. apply typed_model_ok. exact Ec.
Qed.

(** per-row statement for the external command *)
Theorem row_ok_sound t args kw rs idx cmd seed p :
  row_ok t args kw rs idx (OCmd cmd seed p) = true ->
  seed = match rs with Some s => Seed.spec s idx | None => None end
  /\ (rs <> None -> seed <> None)
  /\ let kw' := match seed with Some v => dict_set "seed"%string (vint (Z.of_N v)) kw | None => kw end in
     format t args kw' = FOk cmd.
Proof.
  unfold row_ok. intros H. apply andb_true_iff in H as [H H3]. apply andb_true_iff in H as [H1 H2].
  split; [|split].
  - destruct seed as [v|], (match rs with Some s => spec s idx | None => None end) as [w|]; simpl in H1; try discriminate; auto.
    apply N.eqb_eq in H1. subst; reflexivity.
  - intros Hr. destruct rs; [|congruence]. destruct seed; [discriminate | discriminate H2].
  - simpl. apply andb_true_iff in H3 as [H3 H4]. apply String.eqb_eq in H4. subst cmd.
    apply format_supplied in H3. exact H3.
Qed.

Lemma mem_false_not_In x l : Seed.mem x l = false -> ~ In x l.
Proof. intros H Hin. apply mem_In in Hin. congruence. Qed.

Lemma distinct_seeds_sound : forall os acc, distinct_seeds os acc = true ->
  forall i j v w, i < j -> option_map seed_of (nth_error os i) = Some (Some v) ->
                  option_map seed_of (nth_error os j) = Some (Some w) -> v <> w.
Proof.
  assert (Hacc : forall os acc, distinct_seeds os acc = true ->
                 forall j w, option_map seed_of (nth_error os j) = Some (Some w) -> ~ In w acc).
  { induction os as [|o r IH]; intros acc H j w Hj; [destruct j; discriminate|].
    simpl in H. destruct j as [|j]; simpl in Hj.
    - inversion Hj as [Hs]. rewrite Hs in H. apply andb_true_iff in H as [H1 _].
      apply negb_true_iff in H1. apply mem_false_not_In. exact H1.
    - destruct (seed_of o) as [v|].
      + apply andb_true_iff in H as [_ H2]. intros Hin. apply (IH _ H2 j w Hj). right. exact Hin.
      + eapply IH; eauto. }
  induction os as [|o r IH]; intros acc H i j v w Hij Hi Hj; [destruct i; discriminate|].
  simpl in H. destruct j as [|j]; [lia|]. simpl in Hj. destruct i as [|i]; simpl in Hi.
  - inversion Hi as [Hs]. rewrite Hs in H. apply andb_true_iff in H as [_ H2].
    intros ->. apply (Hacc _ _ H2 j w Hj). left. reflexivity.
  - destruct (seed_of o) as [u|].
    + apply andb_true_iff in H as [_ H2]. apply (IH _ H2 i j v w); [lia | exact Hi | exact Hj].
    + apply (IH _ H i j v w); [lia | exact Hi | exact Hj].
Qed.

(** the model's external result satisfies [row_ok] *)
Theorem emodel_row_ok t args kw meta rs cmd seed :
  run_external t args kw meta rs = EOk cmd seed ->
  row_ok t args (unpack_meta kw meta) rs (sub_index (unpack_meta kw meta)) (OCmd cmd seed None) = true.
Proof.
  intros H. pose proof (external_command _ _ _ _ _ _ _ H) as [Hs Hc]. simpl in Hs, Hc.
  unfold row_ok. fold (image args). rewrite Hs. subst cmd. rewrite String.eqb_refl.
  destruct rs as [s|].
  - apply external_seed in H as [v [-> Hv]]. rewrite Hv. simpl. rewrite N.eqb_refl. reflexivity.
  - apply external_no_seed in H. subst. reflexivity.
Qed.

(** ** histories of calls on one vectorised callable *)

(** the decidable history predicate gives the per-row statement for every call of the history, each w.r.t. its own inputs *)
Theorem history_ok_sound h : ok_history h = true -> forall c, In (CVec c) h -> vec_statement c.
Proof.
  unfold ok_history. intros H c Hin. rewrite forallb_forall in H. specialize (H _ Hin). simpl in H. apply vok_sound. exact H.
Qed.

(** one call of a history on the callable [partial(run_vectorized, op, constants=, dtype=)] *)
Record hcall := { h_inputs : list value; h_batch_size : option nat; h_kw : dict; h_meta : option dict }.

(** the model's history: every call runs [run_vectorized] on the SAME [constants] / [dtype] / operation (those held by the partial; the
    first statement of [run_vectorized] copies the constants) and on its own inputs *)
Definition model_history (op : call -> oval) (constants : option (list nat)) (d : dreq) (calls : list hcall) : history :=
  map (fun k => CVec (model_case op d (h_inputs k) constants (h_batch_size k) (h_kw k) (h_meta k))) calls.

Theorem history_model_ok op constants d calls : ok_history (model_history op constants d calls) = true.
Proof.
  unfold ok_history, model_history. apply forallb_forall. intros c Hin. apply in_map_iff in Hin as [k [<- _]].
  simpl. apply vmodel_ok.
Qed.
