(** The binary64 batch estimator of the threshold form stops exactly when n_samples acceptable draws
    are held — proved on a stated finite domain by evaluation (the bound is part of the statement). *)
From Coq Require Import List ZArith Arith Bool Lia PrimFloat.
From Elfi Require Import Sched.Reject.
Import ListNotations.

Definition stops (n b k acc : nat) : bool := estimate_batches n b (k * b) acc 0 <=? k.

Definition range (lo hi : nat) : list nat := seq lo (S hi - lo).

Definition domain_ok (N B K : nat) : bool :=
  forallb (fun n => forallb (fun b => forallb (fun k => forallb (fun acc =>
     (* never stops with too few acceptable draws; with enough, at most one batch beyond k is asked for *)
     implb (stops n b k acc) (n <=? acc)
     && implb (n <=? acc) (estimate_batches n b (k * b) acc 0 <=? S k)) (range 1 (n + b))) (range 1 K)) (range 1 B)) (range 1 N).

Lemma domain_ok_12_6_16 : domain_ok 12 6 16 = true.
Proof. vm_compute. reflexivity. Qed.

Lemma in_range lo hi x : lo <= x <= hi -> In x (range lo hi).
Proof. intros H. unfold range. apply in_seq. lia. Qed.

Theorem estimator_safe n b k acc :
  1 <= n <= 12 -> 1 <= b <= 6 -> 1 <= k <= 16 -> 1 <= acc <= n + b ->
  (stops n b k acc = true -> n <= acc) /\
  (n <= acc -> estimate_batches n b (k * b) acc 0 <= S k).
Proof.
  intros Hn Hb Hk Ha. pose proof domain_ok_12_6_16 as H. unfold domain_ok in H.
  rewrite forallb_forall in H. specialize (H n (in_range _ _ _ Hn)).
  rewrite forallb_forall in H. specialize (H b (in_range _ _ _ Hb)).
  rewrite forallb_forall in H. specialize (H k (in_range _ _ _ Hk)).
  rewrite forallb_forall in H. specialize (H acc (in_range _ _ _ Ha)).
  apply andb_true_iff in H. destruct H as [H1 H2]. split.
  - intros Hs. rewrite Hs in H1. simpl in H1. now apply Nat.leb_le.
  - intros Hle. apply Nat.leb_le in Hle. rewrite Hle in H2. simpl in H2. now apply Nat.leb_le.
Qed.

(** the rounding slack is real: with exactly n acceptable draws the estimate can exceed k *)
Example estimator_rounds_up : exists n b k acc, n <= acc /\ stops n b k acc = false.
Proof.
  exists 7, 5, 11, 7. split; [lia|]. vm_compute. reflexivity.
Qed.
