(** The binary64 batch estimator of the threshold form stops exactly when n_samples acceptable draws
    are held — proved on a stated finite domain by evaluation (the bound is part of the statement). *)
From Coq Require Import List ZArith Arith Bool Lia PrimFloat.
From Elfi Require Import Sched.Reject.
Import ListNotations.

Definition stops (n b k acc : nat) : bool := estimate_batches n b (k * b) acc 0 <=? k.

Definition range (lo hi : nat) : list nat := seq lo (S hi - lo).

Definition domain_ok (N B K : nat) : bool :=
  forallb (fun n => forallb (fun b => forallb (fun k => forallb (fun acc =>
     (* never stops with too few acceptable draws; with enough, at most one batch beyond k is asked for *)
     implb (stops n b k acc) (n <=? acc)
     && implb (n <=? acc) (estimate_batches n b (k * b) acc 0 <=? S k)) (range 1 (n + b))) (range 1 K)) (range 1 B)) (range 1 N).

Lemma domain_ok_12_6_16 : domain_ok 12 6 16 = true.
Proof. vm_compute. reflexivity. Qed.

Lemma in_range lo hi x : lo <= x <= hi -> In x (range lo hi).
Proof. intros H. unfold range. apply in_seq. lia. Qed.

Theorem estimator_safe n b k acc :
  1 <= n <= 12 -> 1 <= b <= 6 -> 1 <= k <= 16 -> 1 <= acc <= n + b ->
  (stops n b k acc = true -> n <= acc) /\
  (n <= acc -> estimate_batches n b (k * b) acc 0 <= S k).
Proof.
  intros Hn Hb Hk Ha. pose proof domain_ok_12_6_16 as H. unfold domain_ok in H.
  rewrite forallb_forall in H. specialize (H n (in_range _ _ _ Hn)).
  rewrite forallb_forall in H. specialize (H b (in_range _ _ _ Hb)).
  rewrite forallb_forall in H. specialize (H k (in_range _ _ _ Hk)).
  rewrite forallb_forall in H. specialize (H acc (in_range _ _ _ Ha)).
  apply andb_true_iff in H. destruct H as [H1 H2]. split.
  - intros Hs. rewrite Hs in H1. simpl in H1. now apply Nat.leb_le.
  - intros Hle. apply Nat.leb_le in Hle. rewrite Hle in H2. simpl in H2. now apply Nat.leb_le.
Qed.

(** the rounding slack is real: with exactly n acceptable draws the estimate can exceed k *)
Example estimator_rounds_up : exists n b k acc, n <= acc /\ stops n b k acc = false.
Proof.
  exists 7, 5, 11, 7. split; [lia|]. vm_compute. reflexivity.
Qed.

(** ---- the same safety statement on an UNBOUNDED domain (all sizes up to 2^40), by a rounding-error
    analysis instead of evaluation ----
    Route: Flocq's bridge [Flocq.IEEE754.PrimFloat] (Prim2B, div_equiv, mul_equiv, add_equiv,
    of_int63_equiv, leb_equiv) moves each primitive binary64 operation to Flocq's [binary_float];
    Bdiv_correct / Bmult_correct / Bplus_correct / binary_normalize_correct give the real value as a
    rounding to nearest-even; relative_error_N_FLT_ex bounds every rounding by a relative error
    |e| <= 2^-53 (all intermediate values stay within [2^-100, 2^100], so neither underflow nor
    overflow occurs); [fl z] is exact for 0 <= z < 2^53.
    With j batches of size b consumed (n_sim = j*b) and a acceptable draws the computed
      x = ((n / (a / n_sim) + margin) / b)     equals    (n/a) * j * P + Q
    with P = (1+e2)(1+e5)(1+e6)/(1+e1) in [1 - 2^-50, 1 + 2^-50] and, when a < n,
    Q = c(1+e3)(1+e4)(1+e5)(1+e6) >= 0.19 (c the binary64 constant 0.2), Q = 0 when n <= a.
    Hence a < n gives x > j (j <= 2^40 so j * 2^-50 <= 2^-10 < 0.19) and n <= a gives x <= j + 1;
    [ceil_from] then returns at least j + 1, respectively at most j + 1, within its fuel. *)
From Coq Require Import Reals Lra Floats.
From Flocq Require Import Core BinarySingleNaN PrimFloat Relative.
From Interval Require Import Tactic.

Local Open Scope R_scope.

Definition fv (x : PrimFloat.float) (r : R) : Prop := is_finite (Prim2B x) = true /\ B2R (Prim2B x) = r.
Local Notation u := (/ 9007199254740992)%R.

Lemma pow2_bpow (m : nat) : 2 ^ m = bpow radix2 (Z.of_nat m).
Proof. rewrite <- IZR_Zpower by lia. rewrite pow_IZR. reflexivity. Qed.

Lemma rnd_rel r : r = 0 \/ / 2 ^ 100 <= Rabs r ->
  exists e, - u <= e <= u /\ round radix2 (fexp prec emax) (round_mode mode_NE) r = r * (1 + e).
Proof.
  intros [->|H].
  - exists 0. split; [lra|]. rewrite round_0; [lra|]. apply valid_rnd_N.
  - destruct (relative_error_N_FLT_ex radix2 (3 - emax - prec) prec eq_refl (fun x => negb (Z.even x)) r) as [e [He Hr]].
    + eapply Rle_trans; [|exact H].
      rewrite pow2_bpow, <- bpow_opp. apply bpow_le. unfold emax, prec. lia.
    + exists e. split; [|exact Hr].
      apply Rabs_le_inv. eapply Rle_trans; [exact He|].
      unfold prec. simpl. lra.
Qed.

Lemma small_lt_emax r : Rabs r <= 2 ^ 101 -> Rabs r < bpow radix2 emax.
Proof.
  intros H. eapply Rle_lt_trans; [exact H|]. rewrite pow2_bpow. apply bpow_lt. unfold emax. lia.
Qed.

Lemma fv_fl z : (0 <= z < 2 ^ 53)%Z -> fv (fl z) (IZR z).
Proof.
  intros Hz. unfold fv, fl. rewrite of_int63_equiv, Uint63.of_Z_spec, Z.mod_small.
  2:{ change Uint63.wB with (2 ^ 63)%Z. lia. }
  generalize (binary_normalize_correct prec emax Hprec Hmax mode_NE z 0 false). cbv zeta.
  assert (E : F2R (Float radix2 z 0) = IZR z) by (unfold F2R; simpl; lra).
  rewrite E, round_generic.
  - rewrite Rlt_bool_true.
    + intros [H1 [H2 _]]. split; assumption.
    + apply small_lt_emax. rewrite Rabs_pos_eq by (apply IZR_le; lia).
      rewrite pow2_bpow, <- IZR_Zpower by lia. change (IZR z <= IZR (2 ^ 101)). apply IZR_le. lia.
  - apply valid_rnd_N.
  - apply generic_format_FLT. apply FLT_spec with (Float radix2 z 0).
    + now rewrite E.
    + change (Z.abs z < 2 ^ 53)%Z. lia.
    + change (-1074 <= 0)%Z. lia.
Qed.

Local Notation cst := 0x1.999999999999ap-3%float.
Local Notation C := (7205759403792794 / 36028797018963968)%R.

Lemma fv_cst : fv cst C.
Proof.
  unfold fv, Prim2B. rewrite B2R_SF2B, is_finite_SF2B.
  change (Prim2SF cst) with (S754_finite false 7205759403792794 (-55)).
  split; [reflexivity|]. unfold SF2R, F2R. simpl. lra.
Qed.

Ltac finish_op Hr Hrd He Ha Hb :=
  rewrite Hrd; apply small_lt_emax;
  destruct Hr as [Hr|Hr]; [rewrite Hr, Rmult_0_l, Rabs_R0; apply pow_le; lra|];
  rewrite Rabs_mult; apply Rle_trans with (2 ^ 100 * 2);
  [apply Rmult_le_compat; try apply Rabs_pos; [tauto|apply Rabs_le; lra] | simpl; lra].

Lemma fv_div a b ra rb : fv a ra -> fv b rb -> rb <> 0 ->
  (ra / rb = 0 \/ / 2 ^ 100 <= Rabs (ra / rb) <= 2 ^ 100) ->
  exists e, - u <= e <= u /\ fv (a / b)%float (ra / rb * (1 + e)).
Proof.
  intros [Fa Ha] [Fb Hb] Hnz Hr.
  destruct (rnd_rel (ra / rb)) as [e [He Hrd]]; [tauto|].
  exists e. split; [exact He|]. unfold fv. rewrite div_equiv.
  generalize (Bdiv_correct prec emax Hprec Hmax mode_NE (Prim2B a) (Prim2B b)).
  rewrite Ha, Hb. intros H. specialize (H Hnz). rewrite Rlt_bool_true in H.
  - destruct H as [H1 [H2 _]]. split; [rewrite H2; exact Fa | rewrite H1; exact Hrd].
  - finish_op Hr Hrd He Ha Hb.
Qed.

Lemma fv_mul a b ra rb : fv a ra -> fv b rb ->
  (ra * rb = 0 \/ / 2 ^ 100 <= Rabs (ra * rb) <= 2 ^ 100) ->
  exists e, - u <= e <= u /\ fv (a * b)%float (ra * rb * (1 + e)).
Proof.
  intros [Fa Ha] [Fb Hb] Hr.
  destruct (rnd_rel (ra * rb)) as [e [He Hrd]]; [tauto|].
  exists e. split; [exact He|]. unfold fv. rewrite mul_equiv.
  generalize (Bmult_correct prec emax Hprec Hmax mode_NE (Prim2B a) (Prim2B b)).
  rewrite Ha, Hb. intros H. rewrite Rlt_bool_true in H.
  - destruct H as [H1 [H2 _]]. split; [rewrite H2, Fa, Fb; reflexivity | rewrite H1; exact Hrd].
  - finish_op Hr Hrd He Ha Hb.
Qed.

Lemma fv_add a b ra rb : fv a ra -> fv b rb ->
  (ra + rb = 0 \/ / 2 ^ 100 <= Rabs (ra + rb) <= 2 ^ 100) ->
  exists e, - u <= e <= u /\ fv (a + b)%float ((ra + rb) * (1 + e)).
Proof.
  intros [Fa Ha] [Fb Hb] Hr.
  destruct (rnd_rel (ra + rb)) as [e [He Hrd]]; [tauto|].
  exists e. split; [exact He|]. unfold fv. rewrite add_equiv.
  generalize (Bplus_correct prec emax Hprec Hmax mode_NE (Prim2B a) (Prim2B b) Fa Fb).
  rewrite Ha, Hb. intros H. rewrite Rlt_bool_true in H.
  - destruct H as [H1 [H2 _]]. split; [exact H2 | rewrite H1; exact Hrd].
  - finish_op Hr Hrd He Ha Hb.
Qed.

Lemma leb_fl x X i : fv x X -> (0 <= i < 2 ^ 53)%Z -> PrimFloat.leb x (fl i) = Rle_bool X (IZR i).
Proof.
  intros [Fx Hx] Hi. destruct (fv_fl i Hi) as [Fi Hi'].
  rewrite leb_equiv, Bleb_correct by assumption. now rewrite Hx, Hi'.
Qed.

Local Open Scope Z_scope.

Lemma ceil_from_ge fuel : forall k x, k <= ceil_from fuel k x.
Proof.
  induction fuel as [|f IH]; intros k x; simpl; [lia|].
  destruct (PrimFloat.leb x (fl k)); [lia|]. specialize (IH (k + 1) x). lia.
Qed.

Lemma ceil_from_lower x m fuel : forall k,
  (forall i, k <= i <= m -> PrimFloat.leb x (fl i) = false) ->
  m + 1 - k <= Z.of_nat fuel -> m + 1 <= ceil_from fuel k x.
Proof.
  induction fuel as [|f IH]; intros k Hall Hf; simpl.
  - lia.
  - destruct (Z_le_gt_dec k m) as [Hk|Hk].
    + rewrite Hall by lia. apply IH; [intros i Hi; apply Hall; lia | lia].
    + destruct (PrimFloat.leb x (fl k)); [lia|]. pose proof (ceil_from_ge f (k + 1) x). lia.
Qed.

Lemma ceil_from_upper x m fuel : forall k,
  PrimFloat.leb x (fl m) = true -> k <= m -> m - k <= Z.of_nat fuel -> ceil_from fuel k x <= m.
Proof.
  induction fuel as [|f IH]; intros k Hm Hk Hf; simpl.
  - lia.
  - destruct (PrimFloat.leb x (fl k)) eqn:E; [lia|].
    assert (k <> m) by (intros ->; congruence). apply IH; [assumption | lia | lia].
Qed.

Lemma ceil_lower x X m fuel : fv x X -> (IZR m < X)%R -> 0 <= m < 2 ^ 52 -> m + 1 <= Z.of_nat fuel ->
  m + 1 <= ceil_from fuel 0 x.
Proof.
  intros Fx HX Hm Hf. apply ceil_from_lower; [|lia].
  intros i Hi. rewrite (leb_fl x X i Fx) by lia. apply Rle_bool_false.
  eapply Rle_lt_trans; [apply IZR_le|exact HX]. lia.
Qed.

Lemma ceil_upper x X m fuel : fv x X -> (X <= IZR m)%R -> 0 <= m < 2 ^ 52 -> m <= Z.of_nat fuel ->
  ceil_from fuel 0 x <= m.
Proof.
  intros Fx HX Hm Hf. apply ceil_from_upper; [|lia|lia].
  rewrite (leb_fl x X m Fx) by lia. now apply Rle_bool_true.
Qed.

Definition xz (n b s a : Z) (flag : bool) : PrimFloat.float :=
  (PrimFloat.div (PrimFloat.add (PrimFloat.div (fl n) (PrimFloat.div (fl a) (fl s)))
      (PrimFloat.mul (PrimFloat.mul cst (fl b)) (fl (if flag then 1 else 0)))) (fl b)).

Local Open Scope R_scope.

Lemma IZR_bnd z lo hi : (lo <= z <= hi)%Z -> IZR lo <= IZR z <= IZR hi.
Proof. intros [H1 H2]. split; apply IZR_le; assumption. Qed.

Lemma pos_neq0 r : 0 < r -> r <> 0.
Proof. intros H. lra. Qed.

Lemma xz_low n b j a :
  (1 <= b)%Z -> (1 <= j)%Z -> (j * b <= 2 ^ 40)%Z -> (1 <= a < n)%Z -> (n <= 2 ^ 40)%Z ->
  exists X, fv (xz n b (j * b) a true) X /\ IZR j < X.
Proof.
  intros Hb Hj Hs Ha Hn.
  assert (Bb : (1 <= b <= 1099511627776)%Z) by nia.
  assert (Bj : (1 <= j <= 1099511627776)%Z) by nia.
  assert (Bs : (1 <= j * b <= 1099511627776)%Z) by nia.
  assert (Ba : (1 <= a <= 1099511627776)%Z) by lia.
  assert (Bn : (1 <= n <= 1099511627776)%Z) by lia.
  assert (Fb := fv_fl b ltac:(lia)). assert (Fs := fv_fl (j * b) ltac:(lia)).
  assert (Fa := fv_fl a ltac:(lia)). assert (Fn := fv_fl n ltac:(lia)).
  assert (F1 := fv_fl 1 ltac:(lia)).
  apply IZR_bnd in Bb, Bj, Bs, Ba, Bn.
  assert (Es : IZR (j * b) = IZR j * IZR b) by apply mult_IZR.
  set (rs := IZR (j * b)) in *. set (rb := IZR b) in *. set (rj := IZR j) in *. set (ra := IZR a) in *. set (rn := IZR n) in *.
  unfold xz.
  destruct (fv_div _ _ _ _ Fa Fs) as [e1 [He1 Frate]]; [apply pos_neq0; lra | right; interval |].
  destruct (fv_div _ _ _ _ Fn Frate) as [e2 [He2 Fq]];
    [apply pos_neq0; interval | right; interval |].
  destruct (fv_mul _ _ _ _ fv_cst Fb) as [e3 [He3 Fm1]]; [right; interval|].
  destruct (fv_mul _ _ _ _ Fm1 F1) as [e4 [He4 Fm]]; [right; interval|].
  destruct (fv_add _ _ _ _ Fq Fm) as [e5 [He5 Fsum]]; [right; interval|].
  destruct (fv_div _ _ _ _ Fsum Fb) as [e6 [He6 Fx]]; [apply pos_neq0; lra | right; interval |].
  eexists. split; [exact Fx|].
  set (P := (1 + e2) * (1 + e5) * (1 + e6) / (1 + e1)).
  set (Q := C * (1 + e3) * (1 + e4) * (1 + e5) * (1 + e6)).
  match goal with |- _ < ?X => replace X with (rn / ra * (rj * P) + Q) end.
  2:{ unfold P, Q. rewrite Es. field. repeat split; lra. }
  assert (HP : 1 - / 2 ^ 50 <= P) by (unfold P; interval with (i_prec 100)).
  assert (HQ : 19 / 100 <= Q) by (unfold Q; interval).
  assert (Han : ra <= rn) by (apply IZR_le; lia).
  assert (Ht : 1 <= rn / ra).
  { replace (rn / ra) with (1 + (rn - ra) * / ra) by (field; lra).
    assert (0 <= (rn - ra) * / ra); [|lra].
    apply Rmult_le_pos; [lra|]. left. apply Rinv_0_lt_compat. lra. }
  assert (H1 : rj - / 1024 <= rj * P).
  { apply Rle_trans with (rj * (1 - / 2 ^ 50)); [|apply Rmult_le_compat_l; lra].
    assert (rj * / 2 ^ 50 <= / 1024); [|lra].
    apply Rle_trans with (1099511627776 * / 2 ^ 50); [apply Rmult_le_compat_r; lra | lra]. }
  assert (H2 : rj * P <= rn / ra * (rj * P)).
  { rewrite <- (Rmult_1_l (rj * P)) at 1. apply Rmult_le_compat_r; lra. }
  lra.
Qed.

Lemma xz_high n b j a :
  (1 <= b)%Z -> (1 <= j)%Z -> (j * b <= 2 ^ 40)%Z -> (1 <= n <= a)%Z -> (a <= 2 ^ 41)%Z ->
  exists X, fv (xz n b (j * b) a false) X /\ X <= IZR (j + 1).
Proof.
  intros Hb Hj Hs Hn Ha.
  assert (Bb : (1 <= b <= 1099511627776)%Z) by nia.
  assert (Bj : (1 <= j <= 1099511627776)%Z) by nia.
  assert (Bs : (1 <= j * b <= 1099511627776)%Z) by nia.
  assert (Ba : (1 <= a <= 2199023255552)%Z) by lia.
  assert (Bn : (1 <= n <= 2199023255552)%Z) by lia.
  assert (Fb := fv_fl b ltac:(lia)). assert (Fs := fv_fl (j * b) ltac:(lia)).
  assert (Fa := fv_fl a ltac:(lia)). assert (Fn := fv_fl n ltac:(lia)).
  assert (F0 := fv_fl 0 ltac:(lia)).
  apply IZR_bnd in Bb, Bj, Bs, Ba, Bn.
  assert (Es : IZR (j * b) = IZR j * IZR b) by apply mult_IZR.
  rewrite plus_IZR.
  set (rs := IZR (j * b)) in *. set (rb := IZR b) in *. set (rj := IZR j) in *.
  set (ra := IZR a) in *. set (rn := IZR n) in *.
  unfold xz.
  destruct (fv_div _ _ _ _ Fa Fs) as [e1 [He1 Frate]]; [apply pos_neq0; lra | right; interval |].
  destruct (fv_div _ _ _ _ Fn Frate) as [e2 [He2 Fq]];
    [apply pos_neq0; interval | right; interval |].
  destruct (fv_mul _ _ _ _ fv_cst Fb) as [e3 [He3 Fm1]]; [right; interval|].
  destruct (fv_mul _ _ _ _ Fm1 F0) as [e4 [He4 Fm]]; [left; ring|].
  destruct (fv_add _ _ _ _ Fq Fm) as [e5 [He5 Fsum]]; [right; interval|].
  destruct (fv_div _ _ _ _ Fsum Fb) as [e6 [He6 Fx]]; [apply pos_neq0; lra | right; interval |].
  eexists. split; [exact Fx|].
  set (P := (1 + e2) * (1 + e5) * (1 + e6) / (1 + e1)).
  match goal with |- ?X <= _ => replace X with (rn / ra * (rj * P)) end.
  2:{ unfold P. rewrite Es. field. repeat split; lra. }
  assert (HP : 0 <= P <= 1 + / 2 ^ 50) by (unfold P; interval with (i_prec 100)).
  assert (Han : rn <= ra) by (apply IZR_le; lia).
  assert (Ht : 0 <= rn / ra <= 1).
  { split.
    - apply Rmult_le_pos; [lra|]. left. apply Rinv_0_lt_compat. lra.
    - replace (rn / ra) with (1 - (ra - rn) * / ra) by (field; lra).
      assert (0 <= (ra - rn) * / ra); [|lra].
      apply Rmult_le_pos; [lra|]. left. apply Rinv_0_lt_compat. lra. }
  assert (H0 : 0 <= rj * P) by (apply Rmult_le_pos; lra).
  assert (H1 : rj * P <= rj + / 1024).
  { apply Rle_trans with (rj * (1 + / 2 ^ 50)); [apply Rmult_le_compat_l; lra|].
    assert (rj * / 2 ^ 50 <= / 1024); [|lra].
    apply Rle_trans with (1099511627776 * / 2 ^ 50); [apply Rmult_le_compat_r; lra | lra]. }
  assert (H2 : rn / ra * (rj * P) <= rj * P).
  { rewrite <- (Rmult_1_l (rj * P)) at 2. apply Rmult_le_compat_r; lra. }
  lra.
Qed.

Local Close Scope R_scope.
Local Open Scope nat_scope.

Lemma estimate_batches_xz n b s a obj : a <> 0 ->
  estimate_batches n b s a obj =
  Z.to_nat (ceil_from (4 * (n + b) * (S s) + 8) 0
              (xz (Z.of_nat n) (Z.of_nat b) (Z.of_nat s) (Z.of_nat a) (Nat.ltb a n))).
Proof.
  intros Ha. unfold estimate_batches. destruct (Nat.eqb_spec a 0) as [E|_]; [contradiction|]. reflexivity.
Qed.

Theorem estimator_safe_unbounded n b k acc obj :
  1 <= n -> 1 <= b -> 1 <= k -> 1 <= acc <= n + b ->
  (Z.of_nat n <= 2 ^ 40)%Z -> (Z.of_nat (k * b) <= 2 ^ 40)%Z ->
  (acc < n -> k < estimate_batches n b (k * b) acc obj) /\
  (n <= acc -> estimate_batches n b (k * b) acc obj <= S k).
Proof.
  intros Hn Hb Hk Ha Bn Bs. rewrite estimate_batches_xz by lia.
  rewrite Nat2Z.inj_mul in Bs.
  assert (Bk : (Z.of_nat k < 2 ^ 52)%Z) by nia.
  assert (Bb : (Z.of_nat b <= 2 ^ 40)%Z) by nia.
  assert (Hf : (Z.of_nat k + 1 <= Z.of_nat (4 * (n + b) * S (k * b) + 8))%Z) by nia.
  set (fuel := 4 * (n + b) * S (k * b) + 8) in *. clearbody fuel.
  rewrite Nat2Z.inj_mul. split.
  - intros Hlt. apply Nat.ltb_lt in Hlt. rewrite Hlt. apply Nat.ltb_lt in Hlt.
    destruct (xz_low (Z.of_nat n) (Z.of_nat b) (Z.of_nat k) (Z.of_nat acc)) as [X [FX HX]]; try lia.
    pose proof (ceil_lower _ X (Z.of_nat k) fuel FX HX ltac:(lia) Hf). lia.
  - intros Hge. apply Nat.ltb_ge in Hge. rewrite Hge. apply Nat.ltb_ge in Hge.
    destruct (xz_high (Z.of_nat n) (Z.of_nat b) (Z.of_nat k) (Z.of_nat acc)) as [X [FX HX]]; try lia.
    pose proof (ceil_upper _ X (Z.of_nat k + 1) fuel FX HX ltac:(lia) Hf). lia.
Qed.

Example estimator_outside_old_domain : estimate_batches 1000 100 (37 * 100) 12 0 = 3084.
Proof. vm_compute. reflexivity. Qed.

(** in the shape of [estimator_safe]: the run never stops (estimate <= consumed batches) with fewer
    than n acceptable draws, and asks for at most one more batch once n are held *)
Corollary estimator_safe_unbounded_stops n b k acc :
  1 <= n -> 1 <= b -> 1 <= k -> 1 <= acc <= n + b ->
  (Z.of_nat n <= 2 ^ 40)%Z -> (Z.of_nat (k * b) <= 2 ^ 40)%Z ->
  (stops n b k acc = true -> n <= acc) /\
  (n <= acc -> estimate_batches n b (k * b) acc 0 <= S k).
Proof.
  intros Hn Hb Hk Ha Bn Bs.
  destruct (estimator_safe_unbounded n b k acc 0 Hn Hb Hk Ha Bn Bs) as [H1 H2]. split; [|exact H2].
  intros Hs. unfold stops in Hs. apply Nat.leb_le in Hs.
  destruct (Nat.lt_ge_cases acc n) as [Hlt|Hge]; [|exact Hge]. specialize (H1 Hlt). lia.
Qed.
