(** Proofs for C02: the execution order is a function of the graph (not of insertion order),
    the executor cache is transparent along any history of coherent loaded nets, and the call
    log respects dependencies. *)
From Coq Require Import List String ZArith Arith Bool Lia Sorting.Permutation.
From Elfi Require Import Graph.Net Base.StrOrder Proofs.C03_Exec.
Import ListNotations.

(** ---- insertion-order independence of nx_constant_topological_sort ---- *)
Lemma succs_perm es es' w : Permutation es es' -> Permutation (succs es w) (succs es' w).
Proof.
  intros H. unfold succs. apply Permutation_map.
  induction H; simpl.
  - constructor.
  - destruct (String.eqb w (e_src x)); [now constructor | assumption].
  - destruct (String.eqb w (e_src x)), (String.eqb w (e_src y)); try reflexivity. apply perm_swap.
  - etransitivity; eauto.
Qed.

Lemma dfs_perm es es' : Permutation es es' ->
  forall fuel fringe seen explored order,
    dfs fuel es fringe seen explored order = dfs fuel es' fringe seen explored order.
Proof.
  intros Hp. induction fuel as [|f IH]; intros fringe seen explored order; destruct fringe as [|w rest]; simpl; auto.
  rewrite (sort_names_permutation _ _ (succs_perm _ _ w Hp)).
  destruct (mem w explored); [apply IH|].
  destruct (existsb _ _); [reflexivity|].
  destruct (filter _ _); apply IH.
Qed.

Lemma dfs_all_perm es es' fuel : Permutation es es' ->
  forall nbunch seen explored order,
    dfs_all fuel es nbunch seen explored order = dfs_all fuel es' nbunch seen explored order.
Proof.
  intros Hp. induction nbunch as [|v r IH]; intros seen explored order; simpl; [reflexivity|].
  destruct (mem v explored); [apply IH|].
  rewrite (dfs_perm _ _ Hp).
  destruct (dfs fuel es' [v] seen explored order) as [[[s e] o]|]; simpl; [apply IH | reflexivity].
Qed.

(** The sort order does not depend on the order in which nodes and edges were inserted. *)
Theorem sort_order_insertion_independent g g' :
  Permutation (map fst (c_nodes g)) (map fst (c_nodes g')) ->
  Permutation (c_edges g) (c_edges g') ->
  sort_order g = sort_order g'.
Proof.
  intros Hn He. unfold sort_order.
  rewrite (sort_names_permutation _ _ Hn).
  assert (Hl1 : List.length (c_nodes g) = List.length (c_nodes g')).
  { rewrite <- (map_length fst (c_nodes g)), <- (map_length fst (c_nodes g')). now apply Permutation_length. }
  rewrite Hl1, (Permutation_length He). now apply dfs_all_perm.
Qed.

(** ---- the order depends on the loaded net only through its "shape" ---- *)
Record same_shape (g g' : cnet) : Prop := {
  ss_edges : c_edges g = c_edges g';
  ss_names : map fst (c_nodes g) = map fst (c_nodes g');
  ss_out : forall n, has_out g n = has_out g' n;
  ss_op : forall n, has_op g n = has_op g' n
}.

(** the order computed without a cache *)
Definition order_of (g : cnet) : res (list name) :=
  match needed_of g with
  | [] => Ok []
  | _ => do so <- sort_order g;
         do _ <- scan_nodes g so;
         Ok (filter (fun n => mem n (ancestors_incl (dep_of g) (needed_of g))) so)
  end.

Lemma lookup_None_iff {A} n (l : list (name * A)) : lookup n l = None <-> ~ In n (map fst l).
Proof.
  induction l as [|[m a] r IH]; simpl; [tauto|].
  destruct (String.eqb n m) eqn:E.
  - apply String.eqb_eq in E. subst. split; [discriminate | intros H; exfalso; apply H; now left].
  - apply String.eqb_neq in E. rewrite IH. split; [intros H [H1|H1]; [congruence | tauto] | tauto].
Qed.

Lemma scan_nodes_shape g g' : same_shape g g' -> forall so, scan_nodes g so = scan_nodes g' so.
Proof.
  intros [He Hn Ho Hp]. induction so as [|n r IH]; simpl; [reflexivity|].
  specialize (Ho n). specialize (Hp n). unfold has_out, has_op in Ho, Hp.
  destruct (lookup n (c_nodes g)) as [c|] eqn:E1; destruct (lookup n (c_nodes g')) as [c'|] eqn:E2.
  - destruct (c_out c), (c_op c), (c_out c'), (c_op c'); try discriminate; auto.
  - exfalso. apply lookup_None_iff in E2. rewrite <- Hn in E2. apply lookup_None_iff in E2. congruence.
  - exfalso. apply lookup_None_iff in E1. rewrite Hn in E1. apply lookup_None_iff in E1. congruence.
  - reflexivity.
Qed.

Lemma sort_order_shape g g' : same_shape g g' -> sort_order g = sort_order g'.
Proof.
  intros [He Hn _ _]. unfold sort_order. rewrite He, Hn.
  assert (Hl : List.length (c_nodes g) = List.length (c_nodes g')).
  { rewrite <- (map_length fst (c_nodes g)), <- (map_length fst (c_nodes g')). now rewrite Hn. }
  now rewrite Hl.
Qed.

Lemma dep_of_shape g g' : same_shape g g' -> dep_of g = dep_of g'.
Proof.
  intros [He _ Ho _]. unfold dep_of. rewrite He. apply filter_ext. intros e. now rewrite !Ho.
Qed.

Lemma order_of_shape g g' : same_shape g g' -> needed_of g = needed_of g' -> order_of g = order_of g'.
Proof.
  intros Hs Hn. unfold order_of. rewrite Hn, (sort_order_shape _ _ Hs), (dep_of_shape _ _ Hs).
  destruct (needed_of g'); [reflexivity|].
  destruct (sort_order g') as [so|]; simpl; [|reflexivity].
  now rewrite (scan_nodes_shape _ _ Hs).
Qed.

(** ---- transparency of the executor cache ---- *)
Definition key_of (g : cnet) : okey := (needed_of g, loaded_names g).

Definition CacheConsistent (g : cnet) (c : ecache) : Prop :=
  (forall so, ec_sort c = Some so -> sort_order g = Ok so) /\
  (forall o, lookup_order (key_of g) (ec_orders c) = Some o -> order_of g = Ok o).

Lemma CacheConsistent_empty g : CacheConsistent g empty_cache.
Proof. split; simpl; discriminate. Qed.

Lemma get_execution_order_cached g c o c' :
  CacheConsistent g c -> get_execution_order g c = Ok (o, c') -> order_of g = Ok o.
Proof.
  unfold get_execution_order, order_of. fold (needed_of g) (dep_of g). change (needed_of g, loaded_names g) with (key_of g). intros [Hs Ho] H.
  destruct (needed_of g) as [|n0 nr] eqn:En; [inversion H; reflexivity|]. rewrite <- En in *.
  destruct (lookup_order (key_of g) (ec_orders c)) as [o1|] eqn:El.
  - inversion H; subst. specialize (Ho _ eq_refl). unfold order_of in Ho. fold (needed_of g) in Ho.
    rewrite En in Ho. rewrite <- En in Ho. exact Ho.
  - destruct (ec_sort c) as [so|] eqn:Es.
    + rewrite (Hs _ eq_refl). simpl in *. destruct (scan_nodes g so); simpl in *; [|discriminate].
      inversion H; subst. rewrite En. reflexivity.
    + destruct (sort_order g) as [so|]; simpl in *; [|discriminate].
      destruct (scan_nodes g so); simpl in *; [|discriminate].
      inversion H; subst. rewrite En. reflexivity.
Qed.

Lemma get_execution_order_fresh g c o :
  CacheConsistent g c -> order_of g = Ok o -> exists c', get_execution_order g c = Ok (o, c').
Proof.
  unfold get_execution_order, order_of. fold (needed_of g) (dep_of g). change (needed_of g, loaded_names g) with (key_of g). intros [Hs Ho] H.
  destruct (needed_of g) as [|n0 nr] eqn:En; [inversion H; eauto|]. rewrite <- En in *.
  destruct (lookup_order (key_of g) (ec_orders c)) as [o1|] eqn:El.
  - specialize (Ho _ eq_refl). unfold order_of in Ho. fold (needed_of g) (dep_of g) in Ho.
    rewrite En in Ho. rewrite <- En in Ho. rewrite H in Ho. inversion Ho; subst. eauto.
  - destruct (sort_order g) as [so|] eqn:Eso; simpl in H; [|discriminate].
    destruct (scan_nodes g so) eqn:Esc; simpl in H; [|discriminate]. inversion H; subst.
    destruct (ec_sort c) as [so'|] eqn:Es.
    + specialize (Hs _ eq_refl). inversion Hs; subst so'. simpl. rewrite Esc. simpl. eauto.
    + simpl. rewrite Esc. simpl. eauto.
Qed.

Definition strip (r : res (list (name * value) * list name * ecache)) : res (list (name * value) * list name) :=
  match r with Ok (out, log, _) => Ok (out, log) | Err e => Err e end.

(** With a consistent cache, execution gives exactly the result of a fresh context. *)
Theorem execute_cache_transparent g c :
  CacheConsistent g c -> strip (execute g c) = strip (execute g empty_cache).
Proof.
  intros Hc. unfold execute.
  destruct (get_execution_order g c) as [[o c1]|e1] eqn:E1.
  - pose proof (get_execution_order_cached _ _ _ _ Hc E1) as Ho.
    destruct (get_execution_order_fresh g empty_cache o (CacheConsistent_empty g) Ho) as [c2 E2].
    rewrite E2. simpl.
    destruct (run_order g o []) as [[g' lg]|]; simpl; [|reflexivity].
    destruct (collect g' _); reflexivity.
  - destruct (get_execution_order g empty_cache) as [[o c2]|e2] eqn:E2.
    + pose proof (get_execution_order_cached _ _ _ _ (CacheConsistent_empty g) E2) as Ho.
      destruct (get_execution_order_fresh g c o Hc Ho) as [c3 E3]. congruence.
    + (* both fail: the error raised is that of the same scan, up to which step failed first *)
      simpl.
      unfold get_execution_order in E1, E2. fold (needed_of g) (dep_of g) in E1, E2.
      change (needed_of g, loaded_names g) with (key_of g) in E1, E2.
      destruct (needed_of g) as [|n0 nr] eqn:En; [discriminate|]. rewrite <- En in *.
      simpl in E2.
      destruct Hc as [Hs Ho].
      destruct (lookup_order (key_of g) (ec_orders c)); [discriminate|].
      destruct (ec_sort c) as [so|] eqn:Es.
      * rewrite (Hs _ eq_refl) in E2. simpl in *.
        destruct (scan_nodes g so); simpl in *; [discriminate|]. congruence.
      * destruct (sort_order g) as [so|]; simpl in *; [|congruence].
        destruct (scan_nodes g so); simpl in *; [discriminate|]. congruence.
Qed.

(** ---- histories of loaded nets sharing one cache ---- *)
(** nets of one compiled structure; when their cache keys coincide they also agree on which nodes
    still have an operation (the key already fixes which nodes have an output) *)
Definition coherent (g g' : cnet) : Prop :=
  c_edges g = c_edges g' /\ map fst (c_nodes g) = map fst (c_nodes g') /\
  (key_of g = key_of g' -> forall n, has_op g n = has_op g' n).

Lemma lookup_order_app k l1 l2 :
  lookup_order k (l1 ++ l2) = match lookup_order k l1 with Some o => Some o | None => lookup_order k l2 end.
Proof.
  induction l1 as [|[k' o] r IH]; simpl; [reflexivity|]. destruct (okey_eqb k k'); auto.
Qed.

Lemma names_eqb_eq a b : names_eqb a b = true <-> a = b.
Proof. unfold names_eqb. destruct (list_eq_dec string_dec a b); split; auto; discriminate. Qed.

Lemma okey_eqb_eq a b : okey_eqb a b = true <-> a = b.
Proof.
  destruct a as [a1 a2], b as [b1 b2]. unfold okey_eqb. simpl. rewrite andb_true_iff, !names_eqb_eq.
  split; [intros [-> ->]; reflexivity | intros H; inversion H; auto].
Qed.

(** equal sets of loaded nodes: the same nodes have an output *)
Lemma In_loaded_names g n : In n (loaded_names g) <-> In n (map fst (c_nodes g)) /\ has_out g n = true.
Proof.
  unfold loaded_names. rewrite <- filter_In. split; intros H.
  - now apply (Permutation_in _ (Base.StrOrder.sort_names_perm _)) in H.
  - now apply (Permutation_in _ (Permutation_sym (Base.StrOrder.sort_names_perm _))).
Qed.

Lemma loaded_names_has_out g g' :
  map fst (c_nodes g) = map fst (c_nodes g') -> loaded_names g = loaded_names g' ->
  forall n, has_out g n = has_out g' n.
Proof.
  intros Hn Hl n.
  destruct (in_dec string_dec n (map fst (c_nodes g))) as [Hin|Hnin].
  - pose proof (In_loaded_names g n) as H1. pose proof (In_loaded_names g' n) as H2.
    rewrite Hl in H1. rewrite <- Hn in H2.
    destruct (has_out g n) eqn:E1, (has_out g' n) eqn:E2; try reflexivity.
    + assert (H : In n (loaded_names g')) by (apply H1; auto). apply H2 in H. destruct H. discriminate.
    + assert (H : In n (loaded_names g')) by (apply H2; auto). apply H1 in H. destruct H. discriminate.
  - assert (H1 : lookup n (c_nodes g) = None) by now apply lookup_None_iff.
    assert (H2 : lookup n (c_nodes g') = None) by (apply lookup_None_iff; now rewrite <- Hn).
    unfold has_out. now rewrite H1, H2.
Qed.

Lemma consistent_after g g' c o c' :
  coherent g g' -> CacheConsistent g c -> CacheConsistent g' c ->
  get_execution_order g c = Ok (o, c') -> CacheConsistent g' c'.
Proof.
  intros [He [Hn Hsh]] Hc Hc' H.
  pose proof (get_execution_order_cached _ _ _ _ Hc H) as Hord.
  unfold get_execution_order in H. fold (needed_of g) (dep_of g) in H.
  change (needed_of g, loaded_names g) with (key_of g) in H.
  destruct (needed_of g) as [|n0 nr] eqn:En; [inversion H; subst; exact Hc'|]. rewrite <- En in *.
  destruct (lookup_order (key_of g) (ec_orders c)) as [o1|] eqn:El; [inversion H; subst; exact Hc'|].
  assert (Hso : forall so, (match ec_sort c with Some so => Ok so | None => sort_order g end) = Ok so -> sort_order g = Ok so).
  { intros so Hs. destruct (ec_sort c) eqn:Es; [inversion Hs; subst; now apply (proj1 Hc) | exact Hs]. }
  destruct (match ec_sort c with Some so => Ok so | None => sort_order g end) as [so|] eqn:Eso; simpl in H; [|discriminate].
  destruct (scan_nodes g so); simpl in H; [|discriminate]. inversion H; subst. clear H.
  assert (Hsame_sort : sort_order g' = sort_order g).
  { unfold sort_order. rewrite <- He, <- Hn.
    assert (Hl : List.length (c_nodes g') = List.length (c_nodes g)).
    { rewrite <- (map_length fst (c_nodes g')), <- (map_length fst (c_nodes g)). now rewrite Hn. }
    now rewrite Hl. }
  split; simpl.
  - intros so' Hs'. inversion Hs'; subst. rewrite Hsame_sort. now apply Hso.
  - intros o' Hl'. rewrite lookup_order_app in Hl'.
    destruct (lookup_order (key_of g') (ec_orders c)) as [o2|] eqn:El2.
    + inversion Hl'; subst. now apply (proj2 Hc').
    + simpl in Hl'. destruct (okey_eqb (key_of g') (key_of g)) eqn:Ek; [|discriminate].
      inversion Hl'; subst. apply okey_eqb_eq in Ek.
      assert (Hneeded : needed_of g = needed_of g') by (unfold key_of in Ek; inversion Ek; auto).
      assert (Hloaded : loaded_names g = loaded_names g') by (unfold key_of in Ek; inversion Ek; auto).
      rewrite <- (order_of_shape g g'); [exact Hord | | exact Hneeded].
      constructor; [exact He | exact Hn | now apply loaded_names_has_out | apply Hsh; now symmetry].
Qed.

(** results of a history of executions threading one cache *)
Fixpoint exec_history (gs : list cnet) (c : ecache) : list (res (list (name * value) * list name)) :=
  match gs with
  | [] => []
  | g :: r =>
      match execute g c with
      | Ok (out, log, c') => Ok (out, log) :: exec_history r c'
      | Err e => Err e :: exec_history r c
      end
  end.

Lemma execute_cache_after g c out log c' :
  execute g c = Ok (out, log, c') -> exists o, get_execution_order g c = Ok (o, c').
Proof.
  unfold execute. destruct (get_execution_order g c) as [[o c1]|]; simpl; [|discriminate].
  destruct (run_order g o []) as [[g' lg]|]; simpl; [|discriminate].
  destruct (collect g' _); simpl; [|discriminate]. intros H. inversion H; subst. eauto.
Qed.

(** History independence: along any history of pairwise coherent loaded nets (same compiled
    structure; equal needed tuples imply equal sets of present outputs), every execution with
    the shared cache returns what a fresh context returns. *)
Theorem history_independent : forall gs c,
  (forall g g', In g gs -> In g' gs -> coherent g g') ->
  (forall g, In g gs -> CacheConsistent g c) ->
  exec_history gs c = map (fun g => strip (execute g empty_cache)) gs.
Proof.
  induction gs as [|g r IH]; intros c Hcoh Hcons; simpl; [reflexivity|].
  pose proof (execute_cache_transparent g c (Hcons g (or_introl eq_refl))) as Ht.
  destruct (execute g c) as [[[out log] c']|e] eqn:Ee; simpl in Ht.
  - rewrite <- Ht. f_equal. apply IH.
    + intros g1 g2 H1 H2. apply Hcoh; now right.
    + intros g' Hg'. destruct (execute_cache_after _ _ _ _ _ Ee) as [o Ho].
      eapply consistent_after; [apply Hcoh; [now left | now right] | apply Hcons; now left | apply Hcons; now right | exact Ho].
  - rewrite <- Ht. f_equal. apply IH.
    + intros g1 g2 H1 H2. apply Hcoh; now right.
    + intros g' Hg'. apply Hcons. now right.
Qed.

(** ---- the call log respects dependencies ---- *)
(** every node with an output in the current state had it initially or was run *)
Lemma run_order_deps g0 : forall order g log g' log',
  c_edges g = c_edges g0 ->
  (forall n, has_out g n = true -> has_out g0 n = true \/ In n log) ->
  (forall i n, nth_error log i = Some n ->
     forall u p, In (u, p) (preds (c_edges g0) n) -> has_out g0 u = true \/ In u (firstn i log)) ->
  run_order g order log = Ok (g', log') ->
  (forall i n, nth_error log' i = Some n ->
     forall u p, In (u, p) (preds (c_edges g0) n) -> has_out g0 u = true \/ In u (firstn i log')).
Proof.
  induction order as [|n r IH]; intros g log g' log' He Hout Hlog H; simpl in H.
  - inversion H; subst. exact Hlog.
  - destruct (lookup n (c_nodes g)) as [c|] eqn:El; [|discriminate].
    destruct (c_out c) as [v|] eqn:Eo; destruct (c_op c) as [o|] eqn:Eop; try discriminate.
    + eapply IH; eauto.
    + destruct (gather g (preds (c_edges g) n)) as [pv|] eqn:Eg; simpl in H; [|discriminate].
      destruct (call_ok o pv); simpl in H; [|discriminate].
      eapply IH; [| | |exact H].
      * simpl. exact He.
      * intros m Hm. unfold has_out in Hm. destruct (string_dec n m) as [->|Hne].
        -- right. apply in_app_iff. right. now left.
        -- rewrite lookup_add_node_other in Hm by exact Hne.
           destruct (Hout m Hm) as [A|A]; [now left | right; apply in_app_iff; now left].
      * (* the log grew by [n]: its parents all had outputs *)
        assert (Hpar : forall u p, In (u, p) (preds (c_edges g0) n) -> has_out g u = true).
        { rewrite <- He. clear -Eg. revert pv Eg.
          induction (preds (c_edges g) n) as [|[u0 p0] ps IHp]; intros pv Eg u p Hin; [destruct Hin|].
          simpl in Eg. destruct (lookup u0 (c_nodes g)) as [c0|] eqn:E0; [|discriminate].
          destruct (c_out c0) as [v0|] eqn:Ev; [|discriminate].
          destruct (gather g ps) as [rest|] eqn:Er; simpl in Eg; [|discriminate].
          destruct Hin as [Hin|Hin].
          - inversion Hin; subst. unfold has_out. now rewrite E0, Ev.
          - eapply IHp; eauto. }
        intros i m Hnth u p Hin.
        destruct (Nat.lt_ge_cases i (List.length log)) as [Hlt|Hge].
        -- rewrite nth_error_app1 in Hnth by exact Hlt.
           destruct (Hlog i m Hnth u p Hin) as [A|A]; [now left|]. right.
           rewrite firstn_app. apply in_app_iff. now left.
        -- rewrite nth_error_app2 in Hnth by exact Hge.
           destruct (i - List.length log) as [|k] eqn:Ek; [|destruct k; discriminate].
           simpl in Hnth. inversion Hnth; subst m.
           destruct (Hout u (Hpar u p Hin)) as [A|A]; [now left|]. right.
           rewrite firstn_app. apply in_app_iff. left. rewrite firstn_all2 by lia. exact A.
Qed.

Theorem log_respects_dependencies g order g' log :
  run_order g order [] = Ok (g', log) ->
  forall i n, nth_error log i = Some n ->
    forall u p, In (u, p) (preds (c_edges g) n) -> has_out g u = true \/ In u (firstn i log).
Proof.
  intros H. eapply run_order_deps; [reflexivity | | | exact H].
  - intros n Hn. now left.
  - intros i n Hnth. destruct i; discriminate.
Qed.
