(** C06 "model_ok": the crash clause of the decidable predicate [Npy.ok] ([ok_crash1]) holds for the
    model's own low-level trace, error flags and surviving file, at every kill point, for every
    well-formed history and every buffer oracle. *)
From Coq Require Import List NArith Arith Bool Lia.
From Elfi Require Import Store.Npy Proofs.C06_Npy.
Import ListNotations.

(** * Lists *)

Lemma app_len_inj {A} (a a' b b' : list A) : length a = length a' -> a ++ b = a' ++ b' -> a = a' /\ b = b'.
Proof.
  revert a'. induction a as [|x a IH]; intros [|y a'] Hl E; simpl in *; try discriminate.
  - auto.
  - injection E as -> E. injection Hl as Hl. destruct (IH _ Hl E) as [-> ->]. auto.
Qed.

Lemma In_firstn_nth {A} (l : list A) : forall w n x, nth_error l n = Some x -> n < w -> In x (firstn w l).
Proof.
  induction l as [|y l IH]; intros w n x H Hn; destruct n; simpl in H; try discriminate;
    (destruct w; [lia|]); simpl.
  - injection H as ->. now left.
  - right. eapply IH; eauto. lia.
Qed.

Lemma In_window {A} : forall a (l : list A) w n x,
  nth_error l n = Some x -> a <= n -> n < a + w -> In x (firstn w (skipn a l)).
Proof.
  induction a as [|a IH]; intros l w n x H H1 H2.
  - simpl. eapply In_firstn_nth; eauto.
  - destruct l; [destruct n; discriminate|]. destruct n; [lia|]. simpl in *. eapply IH; eauto; lia.
Qed.

(** * [last_exec] over [tag]: the operation in progress at a kill point *)

Lemma last_exec_0 l acc : last_exec 0 l acc = acc.
Proof. destruct l as [|[[? ?] ?] ?]; reflexivity. Qed.

Lemma last_exec_one : forall l t n acc rest,
  last_exec n (tag_one t l ++ rest) acc =
  if n <=? length l then match n with 0 => acc | _ => Some (t, n =? length l) end
  else last_exec (n - length l) rest (match l with [] => acc | _ => Some (t, true) end).
Proof.
  induction l as [|x l IH]; intros t n acc rest.
  - simpl. destruct n; simpl; [apply last_exec_0 | reflexivity].
  - destruct l as [|y l'].
    + simpl. destruct n as [|[|n]]; simpl; [reflexivity | apply last_exec_0 | reflexivity].
    + change (tag_one t (x :: y :: l')) with ((t, false, x) :: tag_one t (y :: l')).
      destruct n as [|n]; [reflexivity|].
      change (last_exec (S n) (((t, false, x) :: tag_one t (y :: l')) ++ rest) acc)
        with (last_exec n (tag_one t (y :: l') ++ rest) (Some (t, false))).
      rewrite IH. change (length (x :: y :: l')) with (S (length (y :: l'))).
      change (S n <=? S (length (y :: l'))) with (n <=? length (y :: l')).
      destruct (n <=? length (y :: l')).
      * destruct n; reflexivity.
      * reflexivity.
Qed.

Lemma last_exec_tag : forall tr s n acc t d,
  last_exec n (tag s tr) acc = Some (t, d) ->
  (acc = Some (t, d) /\ firstn n (concat tr) = []) \/
  exists tr1 l tr2 j, tr = tr1 ++ l :: tr2 /\ t = s + length tr1 /\ 1 <= j <= length l /\
    d = (j =? length l) /\ firstn n (concat tr) = concat tr1 ++ firstn j l.
Proof.
  induction tr as [|l tr IH]; intros s n acc t d E.
  - left. split; [destruct n; exact E | now destruct n].
  - cbn [tag] in E. rewrite last_exec_one in E. cbn [concat].
    destruct (n <=? length l) eqn:Hn.
    + apply Nat.leb_le in Hn. destruct n as [|n].
      * left. split; [exact E | reflexivity].
      * right. exists [], l, tr, (S n). injection E as <- <-. simpl. split; [reflexivity|].
        split; [lia|]. split; [lia|]. split; [reflexivity|].
        change (firstn (S n) (l ++ concat tr) = firstn (S n) l). apply firstn_app_le; lia.
    + apply Nat.leb_gt in Hn. apply IH in E. rewrite firstn_app, (firstn_all2 l) by lia.
      destruct E as [[E1 E2]|(tr1 & l' & tr2 & j & -> & -> & Hj & -> & E2)].
      * rewrite E2, app_nil_r. destruct l as [|x l0].
        -- left. split; [exact E1 | reflexivity].
        -- right. exists [], (x :: l0), tr, (length (x :: l0)). injection E1 as <- <-.
           split; [reflexivity|]. split; [simpl; lia|]. split; [simpl; lia|].
           split; [now rewrite Nat.eqb_refl|]. simpl. now rewrite firstn_all.
      * right. exists (l :: tr1), l', tr2, j. split; [reflexivity|]. split; [simpl; lia|].
        split; [exact Hj|]. split; [reflexivity|]. rewrite E2. simpl. now rewrite app_assoc.
Qed.

(** * [last_flush]: a completed, successful flush-like operation of an initialised store *)

Definition SeenP (ops : list hop) (errs : list bool) (n : nat) : Prop :=
  exists s i g b, s <= n /\ nth_error ops s = Some (Set_ i g b) /\ nth_error errs s = Some false.

Lemma last_flush_char : forall ops errs t done idx seen acc F,
  last_flush ops errs t done idx seen acc = Some F ->
  acc = Some F \/
  exists a op b, ops = a ++ op :: b /\ F = idx + length a /\ is_flush op = true /\
    nth_error errs (length a) = Some false /\ (F < t \/ (F = t /\ done = true)) /\
    (seen = true \/ SeenP ops errs (length a)).
Proof.
  induction ops as [|op ops IH]; intros errs t done idx seen acc F E; [left; exact E|].
  destruct errs as [|e errs]; [left; exact E|].
  cbn [last_flush] in E.
  destruct (idx <=? t) eqn:Hle; cbn [negb] in E; [|left; exact E].
  apply Nat.leb_le in Hle.
  match type of E with last_flush _ _ _ _ _ ?s ?a = _ => set (seen' := s) in *; set (acc' := a) in * end.
  assert (HS : seen' = true -> seen = true \/ SeenP (op :: ops) (e :: errs) 0).
  { unfold seen'. intros H. apply orb_prop in H. destruct H as [H|H]; [now left|right].
    destruct op as [i g bb | k | | | | | | k | k | ]; try discriminate. destruct e; [discriminate|].
    exists 0, i, g, bb. repeat split; auto. }
  apply IH in E. destruct E as [E|(a & op' & b & -> & -> & Fl & Er & Ht & Sn)].
  - unfold acc' in E.
    match type of E with (if ?c then _ else _) = _ => destruct c eqn:C end.
    + injection E as <-. right. exists [], op, ops.
      apply andb_prop in C. destruct C as [C C4]. apply andb_prop in C. destruct C as [C C3].
      apply andb_prop in C. destruct C as [C1 C2].
      split; [reflexivity|]. split; [simpl; lia|]. split; [exact C1|].
      split; [destruct e; [discriminate|reflexivity]|].
      split.
      * apply orb_prop in C3. destruct C3 as [C3|C3]; [left; now apply Nat.ltb_lt|].
        apply andb_prop in C3. destruct C3 as [C5 C6]. right. split; [now apply Nat.eqb_eq|exact C6].
      * apply HS, C4.
    + left. exact E.
  - right. exists (op :: a), op', b. split; [reflexivity|]. split; [simpl; lia|]. split; [exact Fl|].
    split; [exact Er|]. split; [exact Ht|].
    destruct Sn as [Sn|(s & i & g & bb & Hs & H1 & H2)].
    + destruct (HS Sn) as [H|(s & i & g & bb & Hs & H1 & H2)]; [now left|right].
      exists s, i, g, bb. split; [lia|]. split; assumption.
    + right. exists (S s), i, g, bb. split; [simpl; lia|]. split; assumption.
Qed.

(** * The model: an operation that raises leaves the specification list alone; a successful write
    initialises the store *)

Lemma err_spec bs o m f L i op : 0 < bs -> Inv bs m f L -> wf_op bs op ->
  r_err (hstep current bs o i m f op) = true -> spec_step L op = L.
Proof.
  intros Hb I W E.
  destruct op as [k g b| k | | | | | | k | k |]; simpl in W; try contradiction; try reflexivity.
  - destruct W as [-> Hl]. rewrite hstep_simple in E by reflexivity. cbn [expand] in E. unfold st_set in E.
    destruct I as [[IA N]|(-> & -> & ->)].
    + rewrite N, (ia_rows _ _ _ _ IA) in E. cbn [spec_step].
      destruct (lt_eq_lt_dec k (length L)) as [[Hlt|Heq]|Hgt].
      * exfalso. replace (k =? length L) with false in E by (symmetry; apply Nat.eqb_neq; lia). cbn [andb] in E.
        replace (length L <? k) with false in E by (symmetry; apply Nat.ltb_ge; lia).
        replace (bs * length L <? bs * k + bs) with false in E by (symmetry; apply Nat.ltb_ge; nia).
        destruct (setitem_ok bs Hb o m f L i k b IA Hlt Hl) as (l & m1 & E1 & _). rewrite E1 in E.
        simpl in E. discriminate.
      * exfalso. subst k. rewrite !Nat.eqb_refl in E. cbn [andb] in E.
        destruct (append_ok bs o m f L i b IA Hl) as (l & m1 & E1 & _). rewrite E1 in E. simpl in E. discriminate.
      * replace (k =? length L) with false by (symmetry; apply Nat.eqb_neq; lia).
        replace (k <? length L) with false by (symmetry; apply Nat.ltb_ge; lia). reflexivity.
    + destruct k as [|k]; [exfalso|reflexivity].
      cbn [fresh_mem m_nb m_rows] in E. rewrite Nat.mul_0_r in E. cbn [Nat.eqb andb] in E.
      unfold arr_append in E. simpl in E. discriminate.
  - rewrite hstep_simple in E by reflexivity. cbn [expand] in E. unfold st_del in E. cbn [spec_step].
    destruct I as [[IA N]|(-> & -> & ->)]; [|reflexivity].
    rewrite N in E.
    destruct ((0 <? length L) && (k =? length L - 1)) eqn:C; [exfalso|reflexivity].
    apply andb_prop in C. destruct C as [C1 C2]. apply Nat.ltb_lt in C1. apply Nat.eqb_eq in C2.
    replace (k <? length L) with true in E by (symmetry; apply Nat.ltb_lt; lia).
    replace (k =? length L - 1) with true in E by (symmetry; apply Nat.eqb_eq; lia). cbn [negb] in E.
    assert (NE : L <> []) by (intros ->; simpl in C1; lia).
    destruct (truncate_ok bs Hb o (set_nb m (length L - 1)) f L i (bs * k) (removelast L)) as (l & m1 & E1 & _).
    + now apply InvA_set_nb.
    + rewrite length_removelast. now subst k.
    + apply uniform_removelast, IA.
    + subst k. symmetry. apply concat_removelast; [apply IA | exact NE].
    + left. msimpl. rewrite (ia_rows _ _ _ _ IA). nia.
    + rewrite E1 in E. simpl in E. discriminate.
  - rewrite hstep_simple in E by reflexivity. cbn [expand] in E. unfold st_clear in E. cbn [spec_step].
    destruct I as [[IA N]|(-> & -> & ->)]; [exfalso|reflexivity].
    assert (A1 : 0 = bs * length (@nil batch)) by (simpl; lia).
    assert (A2 : uniform bs []) by constructor.
    assert (A3 : concat (@nil batch) = firstn 0 (concat L)) by reflexivity.
    assert (A4 : 0 < m_rows m \/ [] = L).
    { destruct L; [now right|left]. rewrite (ia_rows _ _ _ _ IA). simpl. nia. }
    destruct (truncate_ok bs Hb o m f L i 0 [] IA A1 A2 A3 A4) as (l & m1 & E1 & _).
    rewrite E1 in E. simpl in E. discriminate.
Qed.

Lemma set_init bs o m f L i k g b : 0 < bs -> Inv bs m f L -> wf_op bs (Set_ k g b) ->
  r_err (hstep current bs o i m f (Set_ k g b)) = false ->
  m_init (r_mem (hstep current bs o i m f (Set_ k g b))) = true.
Proof.
  intros Hb I W E. destruct (hstep_ok bs Hb o m f L i _ I W) as (_ & _ & Sa & _).
  destruct I as [[IA N]|(-> & -> & ->)].
  - destruct (Sa (ia_init _ _ _ _ IA)) as [X _]. exact X.
  - clear Sa. simpl in W. destruct W as [-> Hl]. rewrite hstep_simple in * by reflexivity.
    cbn [expand] in *. unfold st_set in *. cbn [fresh_mem m_nb m_rows] in *. destruct k as [|k].
    + rewrite Nat.mul_0_r. cbn [Nat.eqb andb]. unfold arr_append. simpl. reflexivity.
    + exfalso. simpl in E. discriminate.
Qed.

Lemma init_persist bs o ops : 0 < bs -> forall i m f L, Inv bs m f L -> m_init m = true -> wf bs ops ->
  forall m' f' i', run current bs o i m f ops = (m', f', i') -> m_init m' = true.
Proof.
  intros Hb. induction ops as [|op r IH]; intros i m f L I Hi W m' f' i' E; simpl in *.
  - now inversion E; subst.
  - inversion W as [|? ? W1 W2]; subst. destruct (hstep_ok bs Hb o m f L i op I W1) as (I1 & _ & Sa & _).
    destruct (Sa Hi) as (Hi1 & _). eapply IH; eauto.
Qed.

(** * [run_trace] and [run] *)

Lemma rt_app v bs o a : forall i m f b,
  run_trace v bs o i m f (a ++ b) =
  run_trace v bs o i m f a ++ (let '(m1, f1, i1) := run v bs o i m f a in run_trace v bs o i1 m1 f1 b).
Proof. induction a as [|x a IH]; intros; simpl; [reflexivity | now rewrite IH]. Qed.

Lemma rt_len v bs o ops : forall i m f, length (run_trace v bs o i m f ops) = length ops.
Proof. induction ops; intros; simpl; auto. Qed.

Lemma run_file bs o ops : 0 < bs -> forall i m f L, Inv bs m f L -> wf bs ops ->
  forall m' f' i', run current bs o i m f ops = (m', f', i') ->
  f' = lexec o i (concat (map fst (run_trace current bs o i m f ops))) f /\
  i' = i + length (concat (map fst (run_trace current bs o i m f ops))).
Proof.
  intros Hb. induction ops as [|op r IH]; intros i m f L I W m' f' i' E; simpl in *.
  - inversion E; subst. split; [reflexivity | lia].
  - inversion W as [|? ? W1 W2]; subst. destruct (hstep_ok bs Hb o m f L i op I W1) as (I1 & Ef & _).
    destruct (IH _ _ _ _ I1 W2 _ _ _ E) as [-> ->]. rewrite lexec_app, app_length, <- Ef. split; [reflexivity | lia].
Qed.

(** entry [n] of the list of contents the crash clause searches = the specification after [n] operations *)
Lemma spec_errs_nth bs o ops : 0 < bs -> forall i m f L n, Inv bs m f L -> wf bs ops -> n <= length ops ->
  nth_error (spec_errs L ops (map snd (run_trace current bs o i m f ops))) n
  = Some (fold_left spec_step (firstn n ops) L).
Proof.
  intros Hb. induction ops as [|op r IH]; intros i m f L n I W Hn.
  - simpl in Hn. replace n with 0 by lia. reflexivity.
  - inversion W as [|? ? W1 W2]; subst. destruct n as [|n]; [reflexivity|].
    cbn [run_trace map snd spec_errs nth_error firstn fold_left].
    destruct (hstep_ok bs Hb o m f L i op I W1) as (I1 & _).
    simpl in Hn.
    destruct (r_err (hstep current bs o i m f op)) eqn:Er.
    + pose proof (err_spec bs o m f L i op Hb I W1 Er) as Es. rewrite Es in *. apply IH; auto. lia.
    + apply IH; auto. lia.
Qed.

Lemma init_after bs o ops n : 0 < bs -> wf bs ops ->
  SeenP ops (map snd (run_trace current bs o 1 fresh_mem empty_file ops)) n ->
  forall a b, ops = a ++ b -> length a = S n ->
  forall m f i, run current bs o 1 fresh_mem empty_file a = (m, f, i) -> m_init m = true.
Proof.
  intros Hb W (s & k & g & bb & Hs & H1 & H2) a b -> La m f i R.
  apply nth_error_split in H1. destruct H1 as (p & q & E & Lp).
  assert (Ea : exists q', a = p ++ Set_ k g bb :: q').
  { exists (firstn (n - s) q).
    assert (E2 : firstn (S n) (a ++ b) = a) by (rewrite <- La; rewrite firstn_app_le by lia; apply firstn_all).
    rewrite E in E2. replace (S n) with (length p + S (n - s)) in E2 by lia.
    rewrite firstn_app_len in E2. simpl in E2. now rewrite <- E2. }
  destruct Ea as (q' & ->). clear E.
  rewrite <- app_assoc, <- app_comm_cons in H2, W.
  apply Forall_app in W. destruct W as [Wp Wq].
  rewrite run_app in R. destruct (run current bs o 1 fresh_mem empty_file p) as [[m1 f1] i1] eqn:R1.
  pose proof (run_inv bs o p Hb _ _ _ _ (Inv_fresh bs) Wp _ _ _ R1) as I1.
  rewrite rt_app, R1, map_app, nth_error_app2 in H2 by (rewrite map_length, rt_len; lia).
  rewrite map_length, rt_len, <- Lp, Nat.sub_diag in H2. simpl in H2. injection H2 as H2.
  pose proof (set_init bs o m1 f1 _ i1 k g bb Hb I1 (Forall_inv Wq) H2) as Hi.
  destruct (hstep_ok bs Hb o m1 f1 _ i1 _ I1 (Forall_inv Wq)) as (I2 & _).
  simpl in R.
  apply Forall_inv_tail in Wq. apply Forall_app in Wq. destruct Wq as [Wq' _].
  exact (init_persist bs o q' Hb _ _ _ _ I2 Hi Wq' _ _ _ R).
Qed.

(** * The crash clause on the model's own answer *)

Theorem model_crash_ok bs o ops k : 0 < bs -> wf bs ops ->
  let rt := run_trace current bs o 1 fresh_mem empty_file ops in
  ok_crash1 ops (map snd rt) (spec_errs [] ops (map snd rt)) (tag 0 (map fst rt))
            (k, loads (disk_at current bs o ops k)) = true.
Proof.
  intros Hb W rt. unfold ok_crash1. cbn [fst snd].
  destruct (last_exec (k - 1) (tag 0 (map fst rt)) None) as [[t d]|] eqn:LE; [|reflexivity].
  destruct (last_flush ops (map snd rt) t d 0 false None) as [F|] eqn:LF; [|reflexivity].
  apply last_exec_tag in LE. destruct LE as [[LE _]|(tr1 & l & tr2 & j & Etr & Et & Hj & Ed & Efn)]; [discriminate|].
  apply last_flush_char in LF. destruct LF as [LF|(a & opF & b & Eops & EF & Fl & Er & Ht & Sn)]; [discriminate|].
  destruct Sn as [Sn|Sn]; [discriminate|]. simpl in Et, EF. subst t F.
  assert (Hlen : length tr1 < length ops).
  { rewrite <- (rt_len current bs o ops 1 fresh_mem empty_file). fold rt.
    rewrite <- (map_length fst rt), Etr, app_length. simpl. lia. }
  destruct (nth_error ops (length tr1)) as [opT|] eqn:NT; [|apply nth_error_None in NT; lia].
  apply nth_error_split in NT. destruct NT as (p & post & Eops2 & Lp).
  destruct (run current bs o 1 fresh_mem empty_file p) as [[mp fp] ip] eqn:Rp.
  assert (Wp : wf bs p /\ wf_op bs opT /\ wf bs post).
  { pose proof W as W0. rewrite Eops2 in W0. apply Forall_app in W0. destruct W0 as [W1 W2].
    exact (conj W1 (conj (Forall_inv W2) (Forall_inv_tail W2))). }
  destruct Wp as (Wp & WT & Wpost).
  pose proof (run_inv bs o p Hb _ _ _ _ (Inv_fresh bs) Wp _ _ _ Rp) as Ip.
  destruct (run_file bs o p Hb _ _ _ _ (Inv_fresh bs) Wp _ _ _ Rp) as [Efp Eip].
  set (h := hstep current bs o ip mp fp opT) in *.
  assert (Ert : exists rest, rt = run_trace current bs o 1 fresh_mem empty_file p ++ (r_lops h, r_err h) :: rest).
  { unfold rt. rewrite Eops2, rt_app, Rp. simpl. eexists. reflexivity. }
  destruct Ert as (rest & Ert).
  assert (Esp : tr1 = map fst (run_trace current bs o 1 fresh_mem empty_file p) /\ l :: tr2 = r_lops h :: map fst rest).
  { apply app_len_inj.
    - rewrite map_length, rt_len. lia.
    - rewrite <- Etr, Ert, map_app. reflexivity. }
  destruct Esp as [Etr1 Etr2]. injection Etr2 as El _.
  assert (Edisk : disk_at current bs o ops k = f_disk (lexec o ip (firstn j l) fp)).
  { unfold disk_at, all_lops. fold rt.
    assert (Hk : 2 <= k).
    { apply (f_equal (@length lop)) in Efn. rewrite app_length, !firstn_length in Efn. lia. }
    destruct k as [|[|k']]; [lia|lia|]. simpl in Efn. rewrite ?Nat.sub_0_r in Efn.
    cbn [firstn lexec lstep]. rewrite Efn, lexec_app, Etr1, <- Efp, <- Eip. reflexivity. }
  rewrite Edisk.
  destruct (hstep_ok bs Hb o mp fp _ ip opT Ip WT) as (IT & EfT & SaT & FcT). fold h in IT, EfT, SaT, FcT.
  assert (Fin : exists n, S (length a) <= n <= length tr1 + 1 /\ n <= length ops /\
            loads (f_disk (lexec o ip (firstn j l) fp)) = Some (flat (fold_left spec_step (firstn n ops) []))).
  { destruct Ht as [Ht|[Ht Hd]].
    - (* the flush is an earlier operation: crash_safe *)
      set (mid := firstn (length p - length a - 1) b).
      assert (Ep : p = a ++ opF :: mid).
      { assert (X : firstn (length p) ops = p) by (rewrite Eops2, firstn_app_le by lia; apply firstn_all).
        rewrite Eops in X. replace (length p) with (length a + S (length p - length a - 1)) in X by lia.
        rewrite firstn_app_len in X. simpl in X. symmetry. exact X. }
      assert (Lmid : length p = length a + 1 + length mid) by (rewrite Ep at 1; rewrite app_length; simpl; lia).
      assert (Wc : wf bs (a ++ opF :: mid ++ [opT])).
      { pose proof Wp as Wp0. rewrite Ep in Wp0. apply Forall_app in Wp0. destruct Wp0 as [Wa Wm].
        apply Forall_app. split; [exact Wa|]. constructor; [exact (Forall_inv Wm)|].
        apply Forall_app. split; [exact (Forall_inv_tail Wm)|]. constructor; [exact WT|constructor]. }
      assert (Hinit : forall m f i, start current bs o (a ++ [opF]) = (m, f, i) -> m_init m = true).
      { intros m f i R. unfold start in R.
        eapply (init_after bs o ops (length a) Hb W Sn (a ++ [opF]) b);
          [rewrite Eops, <- app_assoc; reflexivity | rewrite app_length; simpl; lia | exact R]. }
      destruct (crash_safe bs o a opF mid opT j Hb Wc Fl Hinit) as (n' & Hn' & CS).
      replace (if j =? 0 then 0 else 1) with 1 in Hn' by (destruct j; [lia|reflexivity]).
      rewrite <- Ep in CS. unfold crash_disk, start in CS. rewrite Rp in CS. fold h in CS. rewrite <- El in CS.
      exists (length a + S n'). split; [lia|]. split; [lia|]. rewrite CS. f_equal. f_equal. unfold spec. f_equal.
      assert (Eo3 : ops = a ++ opF :: (mid ++ [opT]) ++ post).
      { rewrite Eops2, Ep, <- !app_assoc. reflexivity. }
      rewrite Eo3, firstn_app_len. simpl. f_equal. f_equal. symmetry. apply firstn_app_le.
      rewrite app_length. simpl. lia.
    - (* the flush is the operation that has just completed *)
      rewrite Ed in Hd. apply Nat.eqb_eq in Hd. subst j. rewrite firstn_all, El, <- EfT.
      assert (Eq : a = p /\ opF :: b = opT :: post) by (apply app_len_inj; [lia | now rewrite <- Eops, <- Eops2]).
      destruct Eq as [-> Eq]. injection Eq as -> ->.
      assert (Hi : m_init (r_mem h) = true).
      { eapply (init_after bs o ops (length p) Hb W Sn (p ++ [opT]) post);
          [rewrite Eops2, <- app_assoc; reflexivity | rewrite app_length; simpl; lia |].
        rewrite run_app, Rp. simpl. reflexivity. }
      destruct (FcT Fl Hi) as (_ & _ & LD).
      exists (S (length p)). split; [lia|]. split; [lia|]. rewrite LD. f_equal. f_equal.
      rewrite Eops2. replace (S (length p)) with (length p + 1) by lia. rewrite firstn_app_len. simpl.
      rewrite fold_left_app. simpl. now rewrite (spec_flush _ _ Fl). }
  destruct Fin as (n & Hn & Hn2 & ->). apply existsb_exists.
  exists (fold_left spec_step (firstn n ops) []). split.
  - eapply In_window; [apply (spec_errs_nth bs o ops Hb 1 fresh_mem empty_file [] n (Inv_fresh bs) W Hn2) | lia | lia].
  - unfold eqb_rows. destruct (list_eq_dec _ _ _); [reflexivity | congruence].
Qed.

(** * The case built from the model's own answer *)

(** the model's own low-level trace (plain run under the oracle [oracle_of ol]) and, for every kill
    point of [ks], the model's own surviving file; observations [obs] and the observing run's
    trace [tro] are parameters *)
Definition model_case (bs : nat) (ol : list nat) (ins : list iop) (obs : list obs) (tro : list (list lop))
           (ks : list nat) : case :=
  {| c_variant := current; c_bs := bs; c_in := ins;
     c_trace := map fst (run_trace current bs (oracle_of ol) 1 fresh_mem empty_file (map lower ins));
     c_obs := obs; c_trace_obs := tro; c_oracle := ol;
     c_crash := map (fun k => (k, loads (disk_at current bs (oracle_of ol) (map lower ins) k))) ks |}.

(** the crash clause lifted to [ok]: for ANY observations [obs] that pass the report clause and carry
    the error flags of the model's plain run, the case with the model's own trace and the model's own
    surviving file at every kill point of [ks] passes [ok].  ([model_ok] below discharges the two
    hypotheses for the model's own observing run.) *)
Theorem model_ok_given_reports bs ol ins obs tro ks : 0 < bs -> wf bs (map lower ins) ->
  ok_reports [] (map lower ins) obs = true ->
  map o_err obs = map snd (run_trace current bs (oracle_of ol) 1 fresh_mem empty_file (map lower ins)) ->
  ok (model_case bs ol ins obs tro ks) = true.
Proof.
  intros Hb W R E. unfold ok, c_ops. cbn [model_case c_in c_obs c_trace c_crash].
  rewrite (wf_no_open bs _ W), R. cbn [andb]. apply orb_true_iff. right.
  apply forallb_forall. intros kc Hk. apply in_map_iff in Hk. destruct Hk as (k & <- & _).
  rewrite E. now apply model_crash_ok.
Qed.

(** * The report clause on the model's own observing run, and the error flags of the two runs *)

(** whether an operation raises, and whether the store is initialised afterwards, are functions of
    (initialised?, specification list, operation) -- not of the buffering, the memmap or the counter *)
Definition errf (init : bool) (L : list batch) (op : hop) : bool :=
  if init then match op with
               | Set_ k _ _ => length L <? k
               | Del k => negb ((0 <? length L) && (k =? length L - 1))
               | _ => false end
  else match op with Set_ 0 _ _ | Flush | Query => false | _ => true end.

Definition initf (init : bool) (op : hop) : bool :=
  init || match op with Set_ 0 _ _ => true | _ => false end.

Ltac fresh_file :=
  repeat (rewrite lstep_flush || rewrite lstep_open || (rewrite flush_all_nil by reflexivity)
          || (rewrite lstep_seek_nil by reflexivity)).

Lemma step_det bs o m f L i op : 0 < bs -> Inv bs m f L -> wf_op bs op ->
  r_err (hstep current bs o i m f op) = errf (m_init m) L op /\
  m_init (r_mem (hstep current bs o i m f op)) = initf (m_init m) op.
Proof.
  intros Hb IV W. destruct (hstep_ok bs Hb o m f L i op IV W) as (_ & _ & Sa & Fc).
  destruct IV as [[IA N]|(-> & -> & ->)].
  - destruct (Sa (ia_init _ _ _ _ IA)) as [Hi1 _]. rewrite (ia_init _ _ _ _ IA). split; [|exact Hi1].
    clear Sa. cbn [errf].
    destruct op as [k g b| k | | | | | | k | k |]; simpl in W; try contradiction;
      try (destruct (Fc eq_refl Hi1) as [X _]; exact X); clear Fc.
    + destruct W as [-> Hl]. rewrite hstep_simple by reflexivity. cbn [expand]. unfold st_set.
      rewrite N, (ia_rows _ _ _ _ IA).
      destruct (lt_eq_lt_dec k (length L)) as [[Hlt|Heq]|Hgt].
      * replace (k =? length L) with false by (symmetry; apply Nat.eqb_neq; lia). cbn [andb].
        replace (length L <? k) with false by (symmetry; apply Nat.ltb_ge; lia).
        replace (bs * length L <? bs * k + bs) with false by (symmetry; apply Nat.ltb_ge; nia).
        destruct (setitem_ok bs Hb o m f L i k b IA Hlt Hl) as (l & m1 & E1 & _). rewrite E1. reflexivity.
      * subst k. rewrite !Nat.eqb_refl. cbn [andb]. rewrite Nat.ltb_irrefl.
        destruct (append_ok bs o m f L i b IA Hl) as (l & m1 & E1 & _). rewrite E1. reflexivity.
      * replace (k =? length L) with false by (symmetry; apply Nat.eqb_neq; lia). cbn [andb].
        replace (length L <? k) with true by (symmetry; apply Nat.ltb_lt; lia). reflexivity.
    + rewrite hstep_simple by reflexivity. cbn [expand]. unfold st_del. rewrite N.
      destruct ((0 <? length L) && (k =? length L - 1)) eqn:C; cbn [negb].
      * apply andb_prop in C. destruct C as [C1 C2]. apply Nat.ltb_lt in C1. apply Nat.eqb_eq in C2.
        replace (k <? length L) with true by (symmetry; apply Nat.ltb_lt; lia).
        replace (k =? length L - 1) with true by (symmetry; apply Nat.eqb_eq; lia). cbn [negb].
        assert (NE : L <> []) by (intros ->; simpl in C1; lia).
        destruct (truncate_ok bs Hb o (set_nb m (length L - 1)) f L i (bs * k) (removelast L)) as (l & m1 & E1 & _).
        -- now apply InvA_set_nb.
        -- rewrite length_removelast. now subst k.
        -- apply uniform_removelast, IA.
        -- subst k. symmetry. apply concat_removelast; [apply IA | exact NE].
        -- left. msimpl. rewrite (ia_rows _ _ _ _ IA). nia.
        -- rewrite E1. reflexivity.
      * assert (E : (if negb (k <? length L) then err m else
                     if negb (k =? length L - 1) then err m
                     else arr_truncate current (set_nb m (length L - 1)) (bs * k)) = err m).
        { destruct (k <? length L) eqn:K1; [|reflexivity]. cbn [negb]. apply Nat.ltb_lt in K1.
          destruct (k =? length L - 1) eqn:K2; [|reflexivity].
          replace (0 <? length L) with true in C by (symmetry; apply Nat.ltb_lt; lia). discriminate. }
        rewrite E. reflexivity.
    + rewrite hstep_simple by reflexivity. cbn [expand]. unfold st_clear.
      assert (A1 : 0 = bs * length (@nil batch)) by (simpl; lia).
      assert (A2 : uniform bs []) by constructor.
      assert (A3 : concat (@nil batch) = firstn 0 (concat L)) by reflexivity.
      assert (A4 : 0 < m_rows m \/ [] = L).
      { destruct L; [now right|left]. rewrite (ia_rows _ _ _ _ IA). simpl. nia. }
      destruct (truncate_ok bs Hb o m f L i 0 [] IA A1 A2 A3 A4) as (l & m1 & E1 & _).
      rewrite E1. reflexivity.
    + rewrite hstep_simple by reflexivity. cbn [expand]. unfold st_read, arr_memmap, initialized.
      rewrite (ia_init _ _ _ _ IA), (ia_open _ _ _ _ IA). simpl. destruct (m_mmap m); reflexivity.
    + reflexivity.
  - clear Sa Fc. cbn [m_init fresh_mem]. unfold errf, initf. cbn [orb].
    destruct op as [k g b| k | | | | | | k | k |]; simpl in W; try contradiction.
    + destruct W as [-> Hl]. rewrite hstep_simple by reflexivity. cbn [expand]. unfold st_set.
      cbn [fresh_mem m_nb m_rows]. destruct k as [|k].
      * rewrite Nat.mul_0_r. cbn [Nat.eqb andb]. unfold arr_append. simpl. split; reflexivity.
      * simpl. split; reflexivity.
    + rewrite hstep_simple by reflexivity. cbn [expand]. unfold st_del. simpl. split; reflexivity.
    + rewrite hstep_simple by reflexivity. cbn [expand]. unfold st_clear, arr_truncate, initialized. simpl. split; reflexivity.
    + rewrite hstep_simple by reflexivity. cbn [expand]. unfold arr_flush. simpl. split; reflexivity.
    + cbn [hstep]. unfold arr_close, initialized. cbn [fresh_mem m_init m_closed andb negb app lexec].
      fresh_file. simpl. split; reflexivity.
    + cbn [hstep]. unfold arr_flush, arr_write_header. cbn [fresh_mem m_init m_closed m_pend andb negb app lexec].
      fresh_file. simpl. split; reflexivity.
    + rewrite hstep_simple by reflexivity. cbn [expand]. unfold st_read, arr_memmap, initialized. simpl. split; reflexivity.
    + split; reflexivity.
Qed.

(** the model's own observations: observing run (oracle 0, every batch read back after every
    operation); [numpy.load] is recorded after flush-like operations of an initialised store, as
    the harness does ([store.array.header_length is not None]) *)
Fixpoint model_obs_from (bs i : nat) (m : mem) (f : file) (ops : list hop) : list obs :=
  match ops with
  | [] => []
  | op :: r =>
      let h := hstep current bs (fun _ => 0) i m f op in
      let i1 := i + length (r_lops h) in
      let '(m2, f2, l2, e2) := read_all current bs (fun _ => 0) i1 (r_mem h) (r_file h) (m_nb (r_mem h)) 0 in
      {| o_err := r_err h; o_len := fst (view bs m2 f2); o_batches := snd (view bs m2 f2);
         o_load := if is_flush op && m_init (r_mem h) then Some (loads (f_disk (r_file h))) else None |}
        :: model_obs_from bs (i1 + length l2) m2 f2 r
  end.

Lemma read_all_inv bs o : 0 < bs -> forall n k i m f L, Inv bs m f L ->
  forall m2 f2 l2 e2, read_all current bs o i m f n k = (m2, f2, l2, e2) ->
  Inv bs m2 f2 L /\ m_init m2 = m_init m.
Proof.
  intros Hb. induction n as [|n IH]; intros k i m f L IV m2 f2 l2 e2 E; cbn [read_all] in E.
  - inversion E; subst. auto.
  - destruct (read_all current bs o (i + length (r_lops (hstep current bs o i m f (Read k))))
                (r_mem (hstep current bs o i m f (Read k))) (r_file (hstep current bs o i m f (Read k))) n (S k))
      as [[[m3 f3] l3] e3] eqn:RA.
    inversion E; subst.
    destruct (hstep_ok bs Hb o m f L i (Read k) IV I) as (I1 & _).
    destruct (step_det bs o m f L i (Read k) Hb IV I) as [_ Hi].
    destruct (IH _ _ _ _ _ I1 _ _ _ _ RA) as [I2 Hi2]. split; [exact I2|].
    rewrite Hi2, Hi. unfold initf. now rewrite orb_false_r.
Qed.

Lemma close_match bs op (X : bool) : wf_op bs op -> match op with Close => true | _ => X end = X.
Proof. destruct op; simpl; try reflexivity; contradiction. Qed.

Lemma eqb_rows_refl x : eqb_rows x x = true.
Proof. unfold eqb_rows. destruct (list_eq_dec _ _ _); [reflexivity | congruence]. Qed.

Lemma eqb_batches_refl x : eqb_batches x x = true.
Proof. unfold eqb_batches. destruct (list_eq_dec _ _ _); [reflexivity | congruence]. Qed.

Lemma model_obs_ok bs o : 0 < bs -> forall ops i m f i' m' f' L,
  Inv bs m f L -> Inv bs m' f' L -> m_init m = m_init m' -> wf bs ops ->
  ok_reports L ops (model_obs_from bs i m f ops) = true /\
  map o_err (model_obs_from bs i m f ops) = map snd (run_trace current bs o i' m' f' ops).
Proof.
  intros Hb. induction ops as [|op r IH]; intros i m f i' m' f' L IV IV' Hinit W; [split; reflexivity|].
  inversion W as [|? ? W1 W2]; subst.
  cbn [model_obs_from run_trace].
  set (h := hstep current bs (fun _ => 0) i m f op) in *.
  set (h' := hstep current bs o i' m' f' op) in *.
  destruct (read_all current bs (fun _ => 0) (i + length (r_lops h)) (r_mem h) (r_file h) (m_nb (r_mem h)) 0)
    as [[[m2 f2] l2] e2] eqn:RA.
  destruct (hstep_ok bs Hb (fun _ => 0) m f L i op IV W1) as (I1 & _ & _ & Fc). fold h in I1, Fc.
  destruct (hstep_ok bs Hb o m' f' L i' op IV' W1) as (I1' & _). fold h' in I1'.
  destruct (step_det bs (fun _ => 0) m f L i op Hb IV W1) as [De Di]. fold h in De, Di.
  destruct (step_det bs o m' f' L i' op Hb IV' W1) as [De' Di']. fold h' in De', Di'.
  destruct (read_all_inv bs (fun _ => 0) Hb _ _ _ _ _ _ I1 _ _ _ _ RA) as [I2 Hi2].
  assert (Eerr : r_err h = r_err h') by (rewrite De, De', Hinit; reflexivity).
  assert (Einit : m_init m2 = m_init (r_mem h')) by (rewrite Hi2, Di, Di', Hinit; reflexivity).
  assert (El : (if r_err h then L else spec_step L op) = spec_step L op).
  { destruct (r_err h) eqn:Er; [|reflexivity]. symmetry. exact (err_spec bs (fun _ => 0) m f L i op Hb IV W1 Er). }
  destruct (IH (i + length (r_lops h) + length l2) m2 f2 (i' + length (r_lops h')) (r_mem h') (r_file h')
               (spec_step L op) I2 I1' Einit W2) as [R1 R2].
  split.
  - cbn [ok_reports o_err o_len o_batches o_load]. rewrite El, (view_inv _ _ _ _ I2). cbn [fst snd].
    rewrite Nat.eqb_refl, eqb_batches_refl, (close_match bs op _ W1), R1. cbn [andb]. rewrite andb_true_r.
    destruct (is_flush op && m_init (r_mem h)) eqn:C; [|reflexivity].
    apply andb_prop in C. destruct C as [Fl Hi]. destruct (Fc Fl Hi) as (Er & _ & LD).
    rewrite Er, LD, (spec_flush _ _ Fl). cbn [orb eqb_opt]. apply eqb_rows_refl.
  - cbn [map o_err snd]. now rewrite Eerr, R2.
Qed.

(** * model_ok *)

Definition model_obs (bs : nat) (ops : list hop) : list obs := model_obs_from bs 1 fresh_mem empty_file ops.

Theorem model_ok bs ol ins tro ks : 0 < bs -> wf bs (map lower ins) ->
  ok (model_case bs ol ins (model_obs bs (map lower ins)) tro ks) = true.
Proof.
  intros Hb W.
  destruct (model_obs_ok bs (oracle_of ol) Hb (map lower ins) 1 fresh_mem empty_file 1 fresh_mem empty_file []
              (Inv_fresh bs) (Inv_fresh bs) eq_refl W) as [R E].
  now apply model_ok_given_reports.
Qed.
