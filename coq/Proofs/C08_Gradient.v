(** Proofs for C08 (wave 3): gradient_logpdf on array inputs.  The model's gradient of a matrix is,
    row by row, the numgrad stencil of that row alone; the gradient row of a point depends on the
    log density only through the point's own 3*dim stencil points (so neither the values nor the
    "-inf => zero gradient" rule of one row can reach another row); the forms of a single point
    give the same row; soundness of the decidable statement. *)
From Coq Require Import List String ZArith Arith Bool Lia.
From Elfi Require Import Graph.Net Graph.Edit Graph.Prior.
From Coq Require Import PrimFloat.
Import ListNotations.

(** ---- reshape((-1, d)), any element type ---- *)
Lemma take_rowA_app {A} (row rest : list A) : take_rowA (List.length row) (row ++ rest) = Some (row, rest).
Proof. induction row as [|z r IH]; simpl; [reflexivity | now rewrite IH]. Qed.

Lemma take_rowA_spec {A} : forall d (l row rest : list A), take_rowA d l = Some (row, rest) -> l = row ++ rest /\ List.length row = d.
Proof.
  induction d as [|d IH]; intros l row rest H; simpl in H.
  - inversion H; subst. auto.
  - destruct l as [|z r]; [discriminate|].
    destruct (take_rowA d r) as [[row' rest']|] eqn:E; [|discriminate].
    inversion H; subst. destruct (IH _ _ _ E) as [A1 B1]. subst r. simpl. auto.
Qed.

Lemma rows_ofA_nil {A} fuel d : @rows_ofA A fuel d [] = Some [].
Proof. destruct fuel; reflexivity. Qed.

Lemma rows_ofA_concat {A} d : 0 < d -> forall rows : list (list A), Forall (fun r => List.length r = d) rows ->
  forall fuel, List.length (List.concat rows) <= fuel -> rows_ofA fuel d (List.concat rows) = Some rows.
Proof.
  intros Hd. induction rows as [|r rs IH]; intros HF fuel Hfuel; simpl.
  - apply rows_ofA_nil.
  - inversion HF as [|? ? Hr Hrs]; subst.
    destruct r as [|z r']; [simpl in Hd; lia|].
    simpl in Hfuel. destruct fuel as [|f]; [lia|].
    change ((z :: r') ++ List.concat rs) with (z :: (r' ++ List.concat rs)).
    cbn [rows_ofA].
    change (z :: r' ++ List.concat rs) with ((z :: r') ++ List.concat rs).
    rewrite take_rowA_app. rewrite IH; [reflexivity | exact Hrs |].
    rewrite app_length in Hfuel. lia.
Qed.

Lemma rows_ofA_spec {A} : forall fuel d (l : list A) rows, rows_ofA fuel d l = Some rows ->
  List.concat rows = l /\ Forall (fun r => List.length r = d) rows.
Proof.
  induction fuel as [|f IH]; intros d l rows H.
  - destruct l; simpl in H; [|discriminate]. inversion H; subst. simpl. auto.
  - destruct l as [|z l']; simpl in H; [inversion H; subst; simpl; auto|].
    destruct (take_rowA d (z :: l')) as [[row rest]|] eqn:Et; [|discriminate].
    destruct (rows_ofA f d rest) as [rs|] eqn:Er; [|discriminate].
    inversion H; subst. destruct (take_rowA_spec _ _ _ _ Et) as [A1 B1]. destruct (IH _ _ _ Er) as [C D].
    simpl. rewrite C. split; [now rewrite <- A1 | constructor; assumption].
Qed.

Lemma length_concat_rowsA {A} d (rows : list (list A)) :
  Forall (fun r => List.length r = d) rows -> List.length (List.concat rows) = List.length rows * d.
Proof. induction 1 as [|r rs Hr _ IH]; simpl; [reflexivity | rewrite app_length, IH, Hr; reflexivity]. Qed.

Lemma rows_ofA_single {A} (row : list A) d : 0 < d -> List.length row = d -> rows_ofA (List.length row) d row = Some [row].
Proof.
  intros Hd Hl. pose proof (rows_ofA_concat d Hd [row]) as H. simpl in H. rewrite app_nil_r in H.
  apply H; [constructor; [exact Hl | constructor] | lia].
Qed.

(** ---- all_some ---- *)
Lemma all_some_length {A} : forall (l : list (option A)) r, all_some l = Some r -> List.length r = List.length l.
Proof.
  induction l as [|o l IH]; intros r H; simpl in H.
  - inversion H; reflexivity.
  - destruct o as [a|]; [|discriminate]. destruct (all_some l) as [r'|]; [|discriminate].
    inversion H; subst. simpl. now rewrite (IH r' eq_refl).
Qed.

Lemma all_some_map_nth {A B} (f : A -> option B) : forall l gs i x,
  all_some (map f l) = Some gs -> nth_error l i = Some x -> f x = nth_error gs i.
Proof.
  induction l as [|a l IH]; intros gs i x H Hn.
  - destruct i; discriminate.
  - simpl in H. destruct (f a) as [b|] eqn:Ea; [|discriminate].
    destruct (all_some (map f l)) as [r|] eqn:Er; [|discriminate]. inversion H; subst gs.
    destruct i as [|i]; simpl in Hn |- *.
    + inversion Hn; subst. exact Ea.
    + eapply IH; [reflexivity | exact Hn].
Qed.

(** ---- a matrix input: one gradient row per row, row i being the stencil of point i alone ---- *)
Definition step_of (c : gcall) : list float := match g_step c with Some h => h | None => [default_step] end.

Theorem grad_call_matrix lp dim h hs rows an impl :
  0 < dim -> Forall (fun r : fpoint => List.length r = dim) rows ->
  expand_h dim (match h with Some v => v | None => [default_step] end) = Some hs ->
  grad_call lp dim {| g_step := h; g_shape := [List.length rows; dim]; g_data := List.concat rows; g_analytic := an; g_impl := impl |}
  = option_map (fun gs => ([List.length rows; dim], List.concat gs)) (all_some (map (grad_point lp hs) rows)).
Proof.
  intros Hd HF Hh. unfold grad_call. cbn [g_step g_shape g_data]. rewrite Hh.
  rewrite (rows_ofA_concat dim Hd rows HF) by lia.
  destruct (all_some (map (grad_point lp hs) rows)) as [gs|] eqn:E; [|reflexivity].
  cbn [single_point_form option_map]. pose proof (all_some_length _ _ E) as Hl. rewrite map_length in Hl. now rewrite Hl.
Qed.

(** ---- locality: the gradient row of a point sees the log density on its own stencil only ---- *)
Lemma all_some_map_ext {A B} (f g : A -> option B) l : (forall a, In a l -> f a = g a) -> all_some (map f l) = all_some (map g l).
Proof. intros H. f_equal. apply map_ext_in. exact H. Qed.

Theorem grad_point_local lp lp' hs x :
  (forall p, In p (stencil_points x hs) -> lp p = lp' p) -> grad_point lp hs x = grad_point lp' hs x.
Proof.
  intros H. unfold grad_point, numgrad, stencil_values.
  rewrite (all_some_map_ext lp lp' (stencil_row x hs (-1)%float)), (all_some_map_ext lp lp' (stencil_row x hs 0%float)),
          (all_some_map_ext lp lp' (stencil_row x hs 1%float)); [reflexivity | | |];
    intros p Hp; apply H; unfold stencil_points; rewrite !in_app_iff; auto.
Qed.

(** ... hence the matrix answer, row by row: row i of the answer to a matrix is the answer to point i
    handed over alone, and it is unchanged when the log density is altered anywhere outside point
    i's own stencil (e.g. at the stencils of the other rows) *)
Theorem grad_row_alone lp dim h hs rows an an' impl impl' i r gs :
  0 < dim -> Forall (fun r : fpoint => List.length r = dim) rows ->
  expand_h dim (match h with Some v => v | None => [default_step] end) = Some hs ->
  nth_error rows i = Some r ->
  grad_call lp dim {| g_step := h; g_shape := [List.length rows; dim]; g_data := List.concat rows; g_analytic := an; g_impl := impl |}
  = Some ([List.length rows; dim], List.concat gs) ->
  all_some (map (grad_point lp hs) rows) = Some gs ->
  grad_call lp dim {| g_step := h; g_shape := [1; dim]; g_data := r; g_analytic := an'; g_impl := impl' |}
  = option_map (fun g => ([1; dim], g)) (nth_error gs i).
Proof.
  intros Hd HF Hh Hn _ Hgs.
  assert (Hr : List.length r = dim).
  { rewrite Forall_forall in HF. apply HF. eapply nth_error_In; eauto. }
  pose proof (grad_call_matrix lp dim h hs [r] an' impl' Hd) as H1. cbn [List.length List.concat] in H1.
  rewrite app_nil_r in H1. rewrite H1; [| constructor; [exact Hr | constructor] | exact Hh].
  cbn [map all_some]. rewrite (all_some_map_nth _ _ _ _ _ Hgs Hn).
  destruct (nth_error gs i) as [g|]; cbn; [now rewrite app_nil_r | reflexivity].
Qed.

(** ---- one point handed over as a one-row matrix, a vector or a scalar: the same gradient row ---- *)
Theorem grad_single_forms lp dim h hs row an impl :
  0 < dim -> List.length row = dim ->
  expand_h dim (match h with Some v => v | None => [default_step] end) = Some hs ->
  let ans sh := grad_call lp dim {| g_step := h; g_shape := sh; g_data := row; g_analytic := an; g_impl := impl |} in
  let g := grad_point lp hs row in
  ans [1; dim] = option_map (fun g => ([1; dim], g)) g
  /\ (1 < dim -> ans [dim] = option_map (fun g => ([dim], g)) g)
  /\ (dim = 1 -> ans [] = option_map (fun g => ([dim], g)) g /\ ans [1] = option_map (fun g => ([1; dim], g)) g).
Proof.
  intros Hd Hl Hh ans g. subst ans g. unfold grad_call. cbn [g_step g_shape g_data]. rewrite Hh.
  rewrite (rows_ofA_single row dim Hd Hl).
  cbn [map all_some]. destruct (grad_point lp hs row) as [g|]; cbn [option_map single_point_form].
  - cbn [List.length List.concat]. rewrite app_nil_r. split; [reflexivity|]. split.
    + intros H1. apply Nat.ltb_lt in H1. now rewrite H1.
    + intros H1. rewrite H1. cbn. auto.
  - split; [reflexivity|]. split; [reflexivity | auto].
Qed.

(** ---- the shape of the model's answer for every proper input ---- *)
Theorem grad_call_shape lp dim c n axis sh vs :
  0 < dim ->
  proper_form dim (g_shape c) = Some (n, axis) ->
  List.length (g_data c) = n * dim ->
  grad_call lp dim c = Some (sh, vs) ->
  sh = (if axis then [n; dim] else [dim]).
Proof.
  intros Hpos Hf Hd He. unfold grad_call in He.
  destruct (expand_h dim _) as [hs|]; [|discriminate].
  destruct (rows_ofA (List.length (g_data c)) dim (g_data c)) as [rows|] eqn:Er; [|discriminate].
  destruct (all_some (map (grad_point lp hs) rows)) as [gs|] eqn:Ev; [|discriminate].
  destruct (rows_ofA_spec _ _ _ _ Er) as [Hc HF].
  pose proof (length_concat_rowsA _ _ HF) as Hlen. rewrite Hc, Hd in Hlen.
  assert (Hn : List.length rows = n) by nia.
  pose proof (all_some_length _ _ Ev) as Hws. rewrite map_length in Hws.
  assert (Hws' : List.length gs = n) by (etransitivity; [exact Hws | exact Hn]). clear Hws. rename Hws' into Hws.
  unfold proper_form in Hf.
  destruct (g_shape c) as [|k [|d [|? ?]]]; cbn [single_point_form] in He.
  - destruct (Nat.eqb dim 1); [|discriminate]. inversion Hf; subst n axis.
    destruct gs as [|w ws']; [discriminate|]. inversion He; subst. reflexivity.
  - destruct (Nat.eqb dim 1) eqn:E1.
    + apply Nat.eqb_eq in E1. destruct (Nat.eqb k 0); [discriminate|]. inversion Hf; subst n axis.
      rewrite E1 in He. cbn in He. inversion He; subst sh vs. rewrite Hws, E1. reflexivity.
    + apply Nat.eqb_neq in E1. destruct (Nat.eqb k dim); [|discriminate]. inversion Hf; subst n axis.
      assert (Hlt : Nat.ltb 1 dim = true) by (apply Nat.ltb_lt; lia).
      rewrite Hlt in He. destruct gs as [|w ws']; [discriminate|]. inversion He; subst. reflexivity.
  - destruct (Nat.eqb d dim && negb (Nat.eqb k 0)); [|discriminate]. inversion Hf; subst n axis.
    inversion He; subst sh vs. rewrite Hws. reflexivity.
  - discriminate.
Qed.

(** ---- soundness of the decidable statement ---- *)
Lemma shape_eqb_eq' : forall a b, shape_eqb a b = true -> a = b.
Proof.
  induction a as [|x r IH]; destruct b as [|y s]; simpl; intros H; try discriminate; [reflexivity|].
  apply andb_true_iff in H. destruct H as [H1 H2]. apply Nat.eqb_eq in H1. f_equal; auto.
Qed.

(** rows_ok: the rows of the answer are as many as the points and row i passes [row_ok] at point i *)
Lemma rows_ok_nth lp hs : forall rows grows ans i x,
  rows_ok lp hs rows grows ans = true -> nth_error rows i = Some x ->
  exists g, nth_error grows i = Some g /\ row_ok lp hs x g (nth i ans []) = true.
Proof.
  induction rows as [|r rows IH]; intros grows ans i x H Hn.
  - destruct i; discriminate.
  - destruct grows as [|g grows]; [discriminate|]. cbn [rows_ok] in H. apply andb_true_iff in H. destruct H as [H1 H2].
    destruct i as [|i]; simpl in Hn.
    + inversion Hn; subst. exists g. split; [reflexivity|]. destruct ans; exact H1.
    + destruct (IH grows (tl ans) i x H2 Hn) as [g' [A B]]. exists g'. split; [exact A|].
      destruct ans as [|a ans]; simpl in B |- *; [destruct i; exact B | exact B].
Qed.

Lemma rows_ok_length lp hs : forall rows grows ans, rows_ok lp hs rows grows ans = true -> List.length grows = List.length rows.
Proof.
  induction rows as [|r rows IH]; intros [|g grows] ans H; try discriminate; [reflexivity|].
  cbn [rows_ok] in H. apply andb_true_iff in H. destruct H as [_ H]. simpl. now rewrite (IH _ _ H).
Qed.

Theorem ok_gcall_sound lp dim c n axis hs :
  proper_form dim (g_shape c) = Some (n, axis) ->
  List.length (g_data c) = n * dim ->
  expand_h dim (step_of c) = Some hs ->
  ok_gcall lp dim c = true ->
  exists rows vs grows,
    rows_ofA (List.length (g_data c)) dim (g_data c) = Some rows
    /\ g_impl c = Some ((if axis then [n; dim] else [dim]), vs)
    /\ rows_ofA (List.length vs) dim vs = Some grows
    /\ List.length grows = List.length rows
    /\ forall i x, nth_error rows i = Some x ->
         exists g an, nth_error grows i = Some g /\ row_ok lp hs x g an = true.
Proof.
  intros Hf Hd Hh H. unfold ok_gcall in H. rewrite Hf in H. unfold step_of in Hh. rewrite Hh in H.
  apply Nat.eqb_eq in Hd. rewrite Hd in H. cbn [negb orb] in H.
  destruct (rows_ofA (List.length (g_data c)) dim (g_data c)) as [rows|]; [|discriminate].
  destruct (g_impl c) as [[sh vs]|]; [|discriminate].
  apply andb_true_iff in H. destruct H as [H1 H2]. apply shape_eqb_eq' in H1. subst sh.
  destruct (rows_ofA (List.length vs) dim vs) as [grows|] eqn:Eg; [|discriminate].
  exists rows, vs, grows. repeat split; auto.
  - eapply rows_ok_length; eauto.
  - intros i x Hn. destruct (rows_ok_nth _ _ _ _ _ _ _ H2 Hn) as [g [A B]]. eauto.
Qed.

(** what [row_ok] demands of a row whose own stencil reaches a point of zero density: all zeros ... *)
Theorem row_ok_zero lp hs x g an f0 f1 f2 :
  stencil_values lp hs x = Some (f0, f1, f2) -> existsb is_neginf (f0 ++ f1 ++ f2) = true ->
  row_ok lp hs x g an = true ->
  List.length g = List.length x /\ Forall (fun v => PrimFloat.eqb v 0%float = true) g.
Proof.
  intros Hs Hn H. unfold row_ok in H. rewrite Hs, Hn in H. apply andb_true_iff in H. destruct H as [H1 H2].
  apply Nat.eqb_eq in H1. split; [exact H1|]. apply Forall_forall. now apply forallb_forall.
Qed.

(** ... and of a row on whose stencil the log density is finite: the central differences of the
    log density around THAT point (within the stated tolerance), and the analytic derivative where
    one is supplied *)
Theorem row_ok_finite lp hs x g an f0 f1 f2 :
  stencil_values lp hs x = Some (f0, f1, f2) -> existsb is_neginf (f0 ++ f1 ++ f2) = false ->
  forallb is_finite (f0 ++ f1 ++ f2) = true ->
  row_ok lp hs x g an = true ->
  fclose_list tol_stencil g (cdiffs f2 f0 hs) = true /\ analytic_ok g an = true.
Proof.
  intros Hs Hn Hfin H. unfold row_ok in H. rewrite Hs, Hn, Hfin in H. now apply andb_true_iff in H.
Qed.
