(** C10 — derivative statements (Coquelicot) about the GENERATED definitions
    Gen/C10_Gradient.v ([loglik], [grad]: the scalar reading of
    BolfiPosterior._unnormalized_loglikelihood / _gradient_unnormalized_loglikelihood, regenerated
    from the source text on every run), and about the RBF kernel line of the cached fast path.

    The normal pdf/cdf are abstract functions [phi Phi] with [Phi' = phi], [phi > 0] and [Phi > 0]
    (the code forms the ratio phi/Phi as exp(logpdf - logcdf), which needs both positive); the
    surrogate's mean and (noisy) variance along the differentiated coordinate are abstract
    functions [mu v] with derivatives [dmu dv] and [v > 0] at the point.                        *)
From Coq Require Import Reals Lra.
From Coquelicot Require Import Coquelicot.
From Elfi Require Import Gen.C10_Gradient.
Local Open Scope R_scope.

Section Gradient.
  Variables (phi Phi : R -> R) (mu v dmu dv : R -> R) (t : R).
  Hypothesis HPhi : forall z, is_derive Phi z (phi z).
  Hypothesis HPos : forall z, 0 < Phi z.
  Hypothesis Hphipos : forall z, 0 < phi z.

  (** the translated gradient is the derivative of the translated log-likelihood *)
  Lemma grad_is_derivative x :
    is_derive mu x (dmu x) -> is_derive v x (dv x) -> 0 < v x ->
    is_derive (fun x => loglik Phi t (mu x) (v x)) x
              (grad phi Phi t (mu x) (v x) (dmu x) (dv x)).
  Proof.
    intros Hmu Hv Hpos. unfold loglik, grad.
    assert (Hs : 0 < sqrt (v x)) by (apply sqrt_lt_R0; exact Hpos).
    auto_derive.
    - repeat split; try (eexists; eassumption); try exact Hpos; try apply HPos.
      + eexists; apply HPhi.
      + apply Rgt_not_eq; exact Hs.
    - replace (Derive (fun x0 : R => mu x0) x) with (dmu x)
        by (symmetry; apply is_derive_unique; exact Hmu).
      replace (Derive (fun x0 : R => v x0) x) with (dv x)
        by (symmetry; apply is_derive_unique; exact Hv).
      match goal with |- context [Derive (fun x0 : R => Phi x0) ?a] =>
        replace (Derive (fun x0 : R => Phi x0) a) with (phi a)
          by (symmetry; apply is_derive_unique; apply HPhi) end.
      cbv zeta.
      pose proof (sqrt_sqrt (v x) (Rlt_le _ _ Hpos)) as Hss.
      set (s := sqrt (v x)) in *. clearbody s. rewrite <- Hss.
      unfold Rdiv, Rminus.
      set (z := (t + - mu x) * / s).
      (* exp(logpdf - logcdf) = pdf / cdf for positive pdf, cdf (no-op if the code divides directly) *)
      try (replace (exp (ln (phi z) + - ln (Phi z))) with (phi z * / Phi z)
            by (rewrite exp_plus, exp_Ropp, (exp_ln _ (Hphipos z)), (exp_ln _ (HPos z)); reflexivity)).
      generalize (phi z) (Phi z) (HPos z). intros pz Pz HPz.
      field. repeat split; apply Rgt_not_eq; assumption.
  Qed.

End Gradient.

(** the same with the predictive variance split into latent variance + constant noise variance
    (GPy's [predict] returns [v + sigma2]; the noise does not depend on the query point) *)
Lemma grad_is_derivative_noise (phi Phi mu v dmu dv : R -> R) (t sigma2 : R) :
  (forall z, is_derive Phi z (phi z)) -> (forall z, 0 < Phi z) -> (forall z, 0 < phi z) ->
  forall x, is_derive mu x (dmu x) -> is_derive v x (dv x) -> 0 < v x + sigma2 ->
    is_derive (fun x => loglik Phi t (mu x) (v x + sigma2)) x
              (grad phi Phi t (mu x) (v x + sigma2) (dmu x) (dv x)).
Proof.
  intros HPhi HPos Hphipos x Hmu Hv Hpos.
  apply (grad_is_derivative phi Phi mu (fun y => v y + sigma2) dmu dv t HPhi HPos Hphipos x Hmu); [|exact Hpos].
  auto_derive.
  - exists (dv x); exact Hv.
  - replace (Derive (fun x0 : R => v x0) x) with (dv x)
      by (symmetry; apply is_derive_unique; exact Hv).
    ring.
Qed.

(** the translated gradient in chain-rule form: phi/Phi(z) * dz/dx with z = (t - mu)/sqrt v --
    the formula the decidable spec [Gp.spec_grad_coord] evaluates (ratio = phi z / Phi z, sd = sqrt v) *)
Lemma grad_chain_rule_form (phi Phi : R -> R) (t m v gm gv : R) :
  0 < v -> 0 < phi ((t - m) / sqrt v) -> 0 < Phi ((t - m) / sqrt v) ->
  grad phi Phi t m v gm gv =
  phi ((t - m) / sqrt v) / Phi ((t - m) / sqrt v) * (- gm / sqrt v - (t - m) * gv / (2 * sqrt v * v)).
Proof.
  intros Hv Hp HP. unfold grad. cbv zeta.
  assert (Hs : 0 < sqrt v) by (apply sqrt_lt_R0; exact Hv).
  pose proof (sqrt_sqrt v (Rlt_le _ _ Hv)) as Hss.
  generalize dependent (phi ((t - m) / sqrt v)). generalize dependent (Phi ((t - m) / sqrt v)).
  intros Pz HPz pz Hpz.
  set (s := sqrt v) in *. clearbody s. rewrite <- Hss.
  (* exp(logpdf - logcdf) = pdf / cdf (no-op if the code divides directly) *)
  try (replace (exp (ln pz - ln Pz)) with (pz / Pz)
        by (unfold Rminus, Rdiv; rewrite exp_plus, exp_Ropp, (exp_ln _ Hpz), (exp_ln _ HPz); reflexivity)).
  field. repeat split; apply Rgt_not_eq; assumption.
Qed.

(** cached fast path, [predictive_gradients]:  kx = rbf_var * exp(r2 * factor) and
    dkdx = 2 * factor * (x - X) * kx.  Along coordinate j (the other coordinates contribute the
    constant [c] to r2 = (x_j - a)^2 + c, [a] the evidence point's j-th coordinate) the second
    line is the derivative of the first. *)
Lemma rbf_dk_is_derivative (kvar factor a c xj : R) :
  is_derive (fun y => kvar * exp (((y - a) ^ 2 + c) * factor)) xj
            (2 * factor * (xj - a) * (kvar * exp (((xj - a) ^ 2 + c) * factor))).
Proof. auto_derive; [exact I | unfold Rminus; simpl pow; ring]. Qed.

(** non-vacuity of the hypotheses of [grad_is_derivative]: a concrete instance
    (Phi = exp, phi = exp, mu = identity, v = constant 1) *)
Lemma grad_hypotheses_satisfiable :
  exists (phi Phi mu v dmu dv : R -> R),
    (forall z, is_derive Phi z (phi z)) /\ (forall z, 0 < Phi z) /\ (forall z, 0 < phi z) /\
    (forall x, is_derive mu x (dmu x)) /\ (forall x, is_derive v x (dv x)) /\ (forall x, 0 < v x).
Proof.
  exists exp, exp, (fun x => x), (fun _ => 1), (fun _ => 1), (fun _ => 0).
  split; [|split; [|split; [|split; [|split]]]]; intros.
  - apply is_derive_exp.
  - apply exp_pos.
  - apply exp_pos.
  - apply (is_derive_id x).
  - apply (is_derive_const 1 x).
  - lra.
Qed.
