(** C14 "model_ok": the model's own edit step ([step_model], Graph/Edit.v) passes the decidable
    property clause [op_ok] that the correspondence check evaluates on the implementation's
    before/after dumps.  Hence the clause is satisfiable by every step an edit script can reach, and
    wherever model and implementation agree the clause holds of the implementation's dumps.

      - [ESetFlag]: the model IS [write_flag]; [snet_eqb] is reflexive.
      - [ERemove]: no hypothesis at all beyond the success of the step.
      - [EBecome]: needs (a) no self-loop at [n] or [u] and (b) the hazard flag off, both of which a
        consistent model gives ([acyclic_b]), and (c) [simple (s_edges m)]: one edge per ordered pair
        of nodes.  (c) is NOT implied by [consistent_b] (which only asks distinct parameters among the
        in-edges of a node): [become_needs_simple] is a consistent model on which the model's own
        become step fails the clause.  [simple] holds in every state a script reaches from the empty
        model ([reachable_simple]), whence [model_op_ok_reachable]. *)
From Coq Require Import List String Ascii ZArith Arith Bool Lia.
From Elfi Require Import Graph.Net Graph.Edit Proofs.C03_Exec Proofs.C03_Compile Proofs.C03_EndToEnd
     Proofs.C03_Twins Proofs.C03_ModelOk Proofs.C14_Edit Proofs.C14_Become.
Import ListNotations.

(** ---- reflexivity of the decidable equalities ---- *)
Lemma param_eqb_refl p : param_eqb p p = true.
Proof. destruct p; simpl; [apply Nat.eqb_refl | apply String.eqb_refl]. Qed.

Lemma op_eqb_refl o : op_eqb o o = true.
Proof. destruct o; simpl; [apply String.eqb_refl | reflexivity]. Qed.

Fixpoint value_eqb_refl (v : value) : value_eqb v v = true.
Proof.
  destruct v as [k| | | |o args kw]; try reflexivity.
  - simpl. apply Z.eqb_refl.
  - cbn [value_eqb]. rewrite op_eqb_refl. cbn [andb].
    apply andb_true_iff. split.
    + induction args as [|x r IH]; [reflexivity|]. rewrite (value_eqb_refl x). exact IH.
    + induction kw as [|[s x] r IH]; [reflexivity|]. rewrite String.eqb_refl, (value_eqb_refl x). exact IH.
Qed.

Lemma opt_value_eqb_refl a : opt_value_eqb a a = true.
Proof. destruct a; simpl; [apply value_eqb_refl | reflexivity]. Qed.

Lemma sstate_eqb_refl st : sstate_eqb st st = true.
Proof. unfold sstate_eqb. now rewrite opt_value_eqb_refl, !Bool.eqb_reflx, String.eqb_refl. Qed.

Lemma list_eqb_refl {A} (e : A -> A -> bool) : (forall x, e x x = true) -> forall l, list_eqb e l l = true.
Proof. intros He. induction l as [|x r IH]; simpl; [reflexivity|]. now rewrite He, IH. Qed.

Theorem snet_eqb_refl m : snet_eqb m m = true.
Proof.
  unfold snet_eqb. rewrite !list_eqb_refl; [reflexivity | | |].
  - intros x. now rewrite String.eqb_refl, value_eqb_refl.
  - intros x. now rewrite !String.eqb_refl, param_eqb_refl.
  - intros x. now rewrite String.eqb_refl, sstate_eqb_refl.
Qed.

(** ---- the clause's list comparisons, logically ---- *)
Lemma same_pairs_ext a b : (forall x, In x a <-> In x b) -> same_pairs a b = true.
Proof.
  intros H. unfold same_pairs. apply andb_true_iff.
  split; apply forallb_forall; intros x Hx; apply existsb_exists; exists x;
    (split; [apply H; exact Hx | now rewrite String.eqb_refl, param_eqb_refl]).
Qed.

Lemma In_children m n c p : In (c, p) (children m n) <-> In (n, c, p) (s_edges m).
Proof.
  unfold children. rewrite in_map_iff. split.
  - intros [[[a b] q] [Heq Hin]]. apply filter_In in Hin. destruct Hin as [Hin Hs].
    unfold e_src, e_dst, e_par in *. simpl in *. apply String.eqb_eq in Hs. inversion Heq; subst. exact Hin.
  - intros H. exists (n, c, p). split; [reflexivity|]. apply filter_In. split; [exact H|].
    unfold e_src. simpl. apply String.eqb_refl.
Qed.

Lemma In_preds_iff es n q p : In (q, p) (preds es n) <-> In (q, n, p) es.
Proof. split; [apply preds_In | apply In_preds]. Qed.

(** ---- what [consistent_b] gives ---- *)
Lemma consistent_acyclic_b m : consistent_b m = true -> acyclic_b m = true.
Proof. unfold consistent_b. intros H. apply andb_true_iff in H. tauto. Qed.

Lemma firstn_before_not_in' n : forall l, ~ In n (firstn_before n l).
Proof.
  induction l as [|k r IH]; simpl; [tauto|].
  destruct (String.eqb n k) eqn:E; [tauto|]. apply String.eqb_neq in E.
  intros [H|H]; [congruence | contradiction].
Qed.

Lemma acyclic_b_no_self_loop m k p :
  acyclic_b m = true -> has k (s_nodes m) = true -> ~ In (k, k, p) (s_edges m).
Proof.
  intros Ht Hk He. unfold acyclic_b in Ht. cbv zeta in Ht. rewrite forallb_forall in Ht.
  assert (Hin : In k (topo_order m)) by (apply topo_order_In_rev; now apply has_In).
  specialize (Ht k Hin). rewrite forallb_forall in Ht.
  specialize (Ht (k, p) (In_preds _ _ _ _ He)). cbn [fst] in Ht. apply mem_In in Ht.
  exact (firstn_before_not_in' k _ Ht).
Qed.

Lemma become_hazard_reach h n u m :
  become_hazard (EBecome h n u) m = false -> ~ reach (s_edges m) n u.
Proof.
  simpl. intros H Hr. assert (Ht : mem n (ancestors_incl (s_edges m) [u]) = true); [|congruence].
  apply mem_In, ancestors_incl_iff. exists u. split; [now left | exact Hr].
Qed.

(** ---- ESetFlag ---- *)
Theorem model_op_ok_setflag h m n f b m' :
  step_model m (ESetFlag h n f b) = Ok m' -> op_ok (ESetFlag h n f b) m m' = true.
Proof.
  simpl. unfold set_node_flag. intros H. destruct (has n (s_nodes m)); [|discriminate].
  inversion H; subst m'. apply snet_eqb_refl.
Qed.

(** ---- ERemove: no hypothesis beyond the success of the step ---- *)
Theorem model_op_ok_remove h m n m' :
  step_model m (ERemove h n) = Ok m' -> op_ok (ERemove h n) m m' = true.
Proof.
  simpl. unfold remove_node_checked. intros H. destruct (has n (s_nodes m)) eqn:En; [|discriminate].
  inversion H; subst m'; clear H.
  destruct (length_has _ _ En) as [f Hf]. rewrite Hf.
  destruct (remove_node_spec f m n) as [He [Hn Ho]]. cbv zeta in He, Hn, Ho.
  set (r := remove_node (S f) m n) in *.
  repeat (apply andb_true_iff; split).
  - unfold has. rewrite Hn, String.eqb_refl. reflexivity.
  - unfold has. rewrite Ho, String.eqb_refl. reflexivity.
  - apply forallb_forall. intros p Hp. apply negb_true_iff.
    destruct (is_private p && has p (s_nodes r) && Nat.eqb (degree r p) 0) eqn:E; [exfalso|reflexivity].
    apply andb_true_iff in E. destruct E as [E Ed]. apply andb_true_iff in E. destruct E as [Epr Ehas].
    unfold has in Ehas. rewrite Hn in Ehas.
    destruct (String.eqb p n) eqn:Epn; [discriminate|]. cbn [orb] in Ehas.
    destruct (cleaned_b m n p) eqn:Ec; [discriminate|].
    assert (Hc : cleaned_b m n p = true); [|congruence].
    unfold cleaned_b, orphan. apply andb_true_iff. split; [apply mem_In; exact Hp|].
    rewrite Epr. cbn [andb]. apply andb_true_iff. split.
    + unfold has. cbn [drop_node s_nodes]. rewrite lookup_remove, Epn. exact Ehas.
    + unfold degree in *. cbn [drop_node s_edges]. rewrite He in Ed. exact Ed.
  - apply forallb_forall. intros [k st] Hin. cbn [fst].
    destruct (String.eqb k n) eqn:Ekn; [now rewrite orb_true_r|].
    destruct (cleaned_b m n k) eqn:Ec.
    + apply cleaned_spec in Ec. destruct Ec as [_ [_ [Hp _]]]. rewrite Hp. now rewrite orb_true_r.
    + unfold has. rewrite Hn, Ekn, Ec. cbn [orb].
      assert (Hk : In k (map fst (s_nodes m))) by (apply in_map_iff; exists (k, st); auto).
      apply In_names_lookup in Hk. destruct (lookup k (s_nodes m)); [reflexivity | congruence].
Qed.

(** ---- EBecome ---- *)
Theorem model_op_ok_become h m n u m' :
  acyclic_b m = true -> simple (s_edges m) ->
  step_model m (EBecome h n u) = Ok m' -> become_hazard (EBecome h n u) m = false ->
  op_ok (EBecome h n u) m m' = true.
Proof.
  intros Hac Hsim H Hhz. cbn [step_model] in H.
  pose proof (become_hazard_reach _ _ _ _ Hhz) as Hr.
  assert (Hnu : n <> u) by (intros ->; apply Hr; constructor).
  assert (Hchild : forall p, ~ In (n, u, p) (s_edges m)) by (intros p Hp; apply Hr; eapply reach_edge; eauto).
  destruct (update_node_spec _ _ _ _ H Hnu) as [stu [Hlu [Hhn [_ [_ [_ [Hl Ho]]]]]]].
  assert (Hhu : has u (s_nodes m) = true) by (unfold has; now rewrite Hlu).
  assert (Hloopn : forall p, ~ In (n, n, p) (s_edges m)) by (intros p; now apply acyclic_b_no_self_loop).
  assert (Hloopu : forall p, ~ In (u, u, p) (s_edges m)) by (intros p; now apply acyclic_b_no_self_loop).
  assert (Enu : String.eqb n u = false) by (now apply String.eqb_neq).
  cbn [op_ok].
  apply andb_true_iff; split; [apply andb_true_iff; split; [apply andb_true_iff; split;
    [apply andb_true_iff; split; [apply andb_true_iff; split|]|]|]|].
  - unfold has. rewrite Hl, String.eqb_refl. reflexivity.
  - apply same_pairs_ext. intros [c p]. rewrite !In_children.
    symmetry. exact (become_children _ _ _ _ H Hnu Hsim Hchild c p).
  - rewrite Hlu, Hl, Enu, String.eqb_refl. apply sstate_eqb_refl.
  - apply same_pairs_ext. intros [q p]. rewrite !In_preds_iff.
    rewrite (become_parents _ _ _ _ H Hnu Hsim Hchild Hloopn q p).
    split; [intros Hq; split; [exact Hq | intros ->; exact (Hloopu _ Hq)] | tauto].
  - rewrite (Ho n), Enu, String.eqb_refl. apply opt_value_eqb_refl.
  - unfold has. rewrite Ho, String.eqb_refl. reflexivity.
Qed.

(** ---- all operations ---- *)
Theorem model_op_ok m o m' :
  consistent_b m = true -> simple (s_edges m) ->
  step_model m o = Ok m' -> become_hazard o m = false ->
  op_ok o m m' = true.
Proof.
  intros Hc Hsim H Hhz.
  destruct o as [h n st parents obs|h p c par|h n|h n u|h ps|h n v|h|h|h n f b]; try reflexivity.
  - eapply model_op_ok_remove; eauto.
  - apply model_op_ok_become; auto. now apply consistent_acyclic_b.
  - eapply model_op_ok_setflag; eauto.
Qed.

(** the statement of the brief, with the (unneeded) [edge_hazard] hypothesis *)
Corollary model_op_ok_hazards m o m' :
  consistent_b m = true -> simple (s_edges m) ->
  step_model m o = Ok m' -> become_hazard o m = false -> edge_hazard o m = false ->
  op_ok o m m' = true.
Proof. intros Hc Hs H Hb _. eapply model_op_ok; eauto. Qed.

(** on the models an edit script reaches from the empty model [simple] comes for free *)
Corollary model_op_ok_reachable ops ms m o m' :
  run [empty_net] ops = Ok ms -> In m ms -> consistent_b m = true ->
  step_model m o = Ok m' -> become_hazard o m = false ->
  op_ok o m m' = true.
Proof.
  intros Hrun Hin Hc H Hhz. apply model_op_ok; auto.
  pose proof (reachable_simple _ _ Hrun) as Hall. rewrite Forall_forall in Hall. now apply Hall.
Qed.

(** ---- [simple] cannot be dropped: a consistent model (two edges n -> c with parameters 0 and 1:
    distinct parameters among the in-edges of [c], so [consistent_b] holds; networkx's DiGraph cannot
    hold it, and no script reaches it) on which the model's become step, re-adding the out-edges of
    [n] with DiGraph semantics, keeps only one of the two edges and so fails "keeps its children". *)
Local Open Scope string_scope.
Definition ms_st (id : name) : sstate :=
  {| s_output := None; s_has_op := true; s_stochastic := false; s_observable := false; s_uses_observed := false;
     s_uses_batch_size := false; s_uses_meta := false; s_parameter := false; s_opid := id |}.
Definition ms_net : snet :=
  {| s_nodes := [("n", ms_st "n"); ("u", ms_st "u"); ("c", ms_st "c")];
     s_edges := [("n", "c", PInt 0); ("n", "c", PInt 1)]; s_observed := [] |}.
Example become_needs_simple :
  consistent_b ms_net = true /\ become_hazard (EBecome 0 "n" "u") ms_net = false
  /\ edge_hazard (EBecome 0 "n" "u") ms_net = false
  /\ match step_model ms_net (EBecome 0 "n" "u") with
     | Ok m' => op_ok (EBecome 0 "n" "u") ms_net m' = false /\ consistent_b m' = true
     | Err _ => False
     end.
Proof. vm_compute. repeat split. Qed.

(** non-vacuity: a 4-node model ([a] parent of [u] positionally and of [n] by keyword, [c] child of
    [n], data on [u] and on [n]); the hypotheses hold and the become step passes the clause by
    computation: [n] keeps its child [c], its only parent is now [u]'s, its data are [u]'s *)
Definition mo_net : snet :=
  {| s_nodes := [("a", ms_st "a"); ("n", ms_st "n"); ("u", ms_st "u"); ("c", ms_st "c")];
     s_edges := [("a", "n", PStr "kw"); ("a", "u", PInt 0); ("n", "c", PInt 0)];
     s_observed := [("n", VConst 1); ("u", VConst 2)] |}.
Example model_op_ok_example :
  consistent_b mo_net = true /\ uniq_b (s_edges mo_net) = true
  /\ become_hazard (EBecome 0 "n" "u") mo_net = false
  /\ match step_model mo_net (EBecome 0 "n" "u") with
     | Ok m' => op_ok (EBecome 0 "n" "u") mo_net m' = true /\ has "u" (s_nodes m') = false
                /\ children m' "n" = [("c", PInt 0)]
                /\ preds (s_edges m') "n" = [("a", PInt 0)] /\ lookup "n" (s_observed m') = Some (VConst 2)
     | Err _ => False
     end.
Proof. vm_compute. repeat split. Qed.
