(** Proofs for C08 (wave 2): histories of calls on joint-prior objects.  Reading of array inputs
    (row i of a matrix is point i), the three forms of a single point give the same value, the
    shape of the model's answer for every proper input, and the absence of any state carried from
    one call (or one object) to the next. *)
From Coq Require Import List String ZArith Arith Bool Lia Sorting.Permutation.
From Elfi Require Import Graph.Net Graph.Edit Graph.Prior.
Import ListNotations.

(** ---- reshape((-1, d)) ---- *)
Lemma take_row_app (row rest : list Z) : take_row (List.length row) (row ++ rest) = Some (row, rest).
Proof. induction row as [|z r IH]; simpl; [reflexivity | now rewrite IH]. Qed.

Lemma take_row_spec : forall d l row rest, take_row d l = Some (row, rest) -> l = row ++ rest /\ List.length row = d.
Proof.
  induction d as [|d IH]; intros l row rest H; simpl in H.
  - inversion H; subst. auto.
  - destruct l as [|z r]; [discriminate|].
    destruct (take_row d r) as [[row' rest']|] eqn:E; [|discriminate].
    inversion H; subst. destruct (IH _ _ _ E) as [A B]. subst r. simpl. auto.
Qed.

Lemma rows_of_nil fuel d : rows_of fuel d [] = Some [].
Proof. destruct fuel; reflexivity. Qed.

(** a matrix written row after row is read back as exactly those rows *)
Lemma rows_of_concat d : 0 < d -> forall rows, Forall (fun r : list Z => List.length r = d) rows ->
  forall fuel, List.length (List.concat rows) <= fuel -> rows_of fuel d (List.concat rows) = Some rows.
Proof.
  intros Hd. induction rows as [|r rs IH]; intros HF fuel Hfuel; simpl.
  - apply rows_of_nil.
  - inversion HF as [|? ? Hr Hrs]; subst.
    destruct r as [|z r']; [simpl in Hd; lia|].
    simpl in Hfuel. destruct fuel as [|f]; [lia|].
    change ((z :: r') ++ List.concat rs) with (z :: (r' ++ List.concat rs)).
    cbn [rows_of].
    change (z :: r' ++ List.concat rs) with ((z :: r') ++ List.concat rs).
    rewrite take_row_app. rewrite IH; [reflexivity | exact Hrs |].
    rewrite app_length in Hfuel. lia.
Qed.

Lemma rows_of_spec : forall fuel d l rows, rows_of fuel d l = Some rows ->
  List.concat rows = l /\ Forall (fun r : list Z => List.length r = d) rows.
Proof.
  induction fuel as [|f IH]; intros d l rows H.
  - destruct l; simpl in H; [|discriminate]. inversion H; subst. simpl. auto.
  - destruct l as [|z l']; simpl in H; [inversion H; subst; simpl; auto|].
    destruct (take_row d (z :: l')) as [[row rest]|] eqn:Et; [|discriminate].
    destruct (rows_of f d rest) as [rs|] eqn:Er; [|discriminate].
    inversion H; subst. destruct (take_row_spec _ _ _ _ Et) as [A B]. destruct (IH _ _ _ Er) as [C D].
    simpl. rewrite C. split; [now rewrite <- A | constructor; assumption].
Qed.

Lemma length_concat_rows d (rows : list (list Z)) :
  Forall (fun r => List.length r = d) rows -> List.length (List.concat rows) = List.length rows * d.
Proof. induction 1 as [|r rs Hr _ IH]; simpl; [reflexivity | rewrite app_length, IH, Hr; reflexivity]. Qed.

(** ---- map_res ---- *)
Lemma map_res_length {A B} (f : A -> res B) : forall l vs, map_res f l = Ok vs -> List.length vs = List.length l.
Proof.
  induction l as [|a r IH]; intros vs H; simpl in H.
  - inversion H; reflexivity.
  - destruct (f a) as [b|]; simpl in H; [|discriminate].
    destruct (map_res f r) as [bs|] eqn:E; simpl in H; [|discriminate].
    inversion H; subst. simpl. now rewrite (IH bs eq_refl).
Qed.

Lemma eval_rows_length m P log rows vs : eval_rows m P log rows = Ok vs -> List.length vs = List.length rows.
Proof.
  unfold eval_rows. destruct (augment m P log) as [a|]; simpl; [|discriminate]. apply map_res_length.
Qed.

Lemma eval_rows_one m P log row :
  eval_rows m P log [row] = (do v <- evaluate m P log (point_of P row); Ok [v]).
Proof.
  unfold eval_rows, evaluate. destruct (augment m P log) as [a|]; simpl; [|reflexivity].
  destruct (evaluate_in a log (point_of P row)); reflexivity.
Qed.

Lemma length_pos_of_nonempty {A} (P : list A) : P <> [] -> 0 < List.length P.
Proof. destruct P; [congruence | simpl; lia]. Qed.

(** ---- a matrix input: one answer per row, row i evaluated at point i ---- *)
Theorem eval_call_matrix m P log rows impl :
  P <> [] -> Forall (fun r : list Z => List.length r = List.length P) rows ->
  eval_call m P {| c_log := log; c_shape := [List.length rows; List.length P]; c_data := List.concat rows; c_impl := impl |}
  = match eval_rows m P log rows with Ok vs => Some ([List.length rows], vs) | Err _ => None end.
Proof.
  intros HP HF. unfold eval_call. cbn [c_data c_log c_shape].
  rewrite (rows_of_concat (List.length P) (length_pos_of_nonempty P HP) rows HF) by lia.
  destruct (eval_rows m P log rows) as [vs|] eqn:E; [|reflexivity].
  cbn [single_point_form]. now rewrite (eval_rows_length _ _ _ _ _ E).
Qed.

(** ---- one point handed over as a scalar, a vector or a one-row matrix: the same value ---- *)
Definition eval_point (m : snet) (P : list name) (log : bool) (row : list Z) : option value :=
  match evaluate m P log (point_of P row) with Ok v => Some v | Err _ => None end.

Lemma rows_of_single (row : list Z) d : 0 < d -> List.length row = d -> rows_of (List.length row) d row = Some [row].
Proof.
  intros Hd Hl. pose proof (rows_of_concat d Hd [row]) as H. simpl in H. rewrite app_nil_r in H.
  apply H; [constructor; [exact Hl | constructor] | lia].
Qed.

Theorem single_point_forms m P log row impl :
  P <> [] -> List.length row = List.length P ->
  let ans sh := eval_call m P {| c_log := log; c_shape := sh; c_data := row; c_impl := impl |} in
  let v := eval_point m P log row in
  ans [1; List.length P] = option_map (fun v => ([1], [v])) v
  /\ (1 < List.length P -> ans [List.length P] = option_map (fun v => ([], [v])) v)
  /\ (List.length P = 1 -> ans [] = option_map (fun v => ([], [v])) v /\ ans [1] = option_map (fun v => ([1], [v])) v).
Proof.
  intros HP Hl ans v. subst ans v. unfold eval_call, eval_point. cbn [c_data c_log c_shape].
  rewrite (rows_of_single row (List.length P) (length_pos_of_nonempty P HP) Hl).
  rewrite eval_rows_one.
  destruct (evaluate m P log (point_of P row)) as [v|]; cbn [bind option_map single_point_form].
  - split; [reflexivity|]. split.
    + intros H1. apply Nat.ltb_lt in H1. now rewrite H1.
    + intros H1. rewrite H1. cbn. auto.
  - split; [reflexivity|]. split; [reflexivity | auto].
Qed.

(** ---- the shape of the model's answer for every proper input ---- *)
Theorem eval_call_shape m P c n axis sh vs :
  P <> [] ->
  proper_form (List.length P) (c_shape c) = Some (n, axis) ->
  List.length (c_data c) = n * List.length P ->
  eval_call m P c = Some (sh, vs) ->
  sh = (if axis then [n] else []) /\ List.length vs = (if axis then n else 1).
Proof.
  intros HP Hf Hd He. pose proof (length_pos_of_nonempty P HP) as Hpos.
  unfold eval_call in He.
  destruct (rows_of (List.length (c_data c)) (List.length P) (c_data c)) as [rows|] eqn:Er; [|discriminate].
  destruct (eval_rows m P (c_log c) rows) as [ws|] eqn:Ev; [|discriminate].
  destruct (rows_of_spec _ _ _ _ Er) as [Hc HF].
  pose proof (length_concat_rows _ _ HF) as Hlen. rewrite Hc, Hd in Hlen.
  assert (Hn : List.length rows = n) by nia.
  pose proof (eval_rows_length _ _ _ _ _ Ev) as Hws. rewrite Hn in Hws.
  unfold proper_form in Hf.
  destruct (c_shape c) as [|k [|d [|? ?]]]; cbn [single_point_form] in He.
  - destruct (Nat.eqb (List.length P) 1); [|discriminate]. inversion Hf; subst n axis.
    destruct ws as [|w ws']; [discriminate|]. inversion He; subst. auto.
  - destruct (Nat.eqb (List.length P) 1) eqn:E1.
    + apply Nat.eqb_eq in E1. destruct (Nat.eqb k 0); [discriminate|]. inversion Hf; subst n axis.
      rewrite E1 in He. cbn in He. inversion He; subst sh vs. rewrite Hws. auto.
    + apply Nat.eqb_neq in E1. destruct (Nat.eqb k (List.length P)); [|discriminate]. inversion Hf; subst n axis.
      assert (Hlt : Nat.ltb 1 (List.length P) = true) by (apply Nat.ltb_lt; lia).
      rewrite Hlt in He. destruct ws as [|w ws']; [discriminate|]. inversion He; subst. auto.
  - destruct (Nat.eqb d (List.length P) && negb (Nat.eqb k 0)); [|discriminate]. inversion Hf; subst n axis.
    inversion He; subst sh vs. rewrite Hws. auto.
  - discriminate.
Qed.

(** ---- no state between calls, no state between objects ---- *)
(** The correspondence of a history holds iff EVERY call in it, wherever it stands and whatever was
    called (or scribbled over) before, was answered as the model answers that call alone from the
    graph its object was built from. *)
Theorem agree_epoch_iff e :
  agree_epoch e = true <->
  forall c, In c (e_calls e) -> answer_eqb (eval_call (e_model e) (e_params e) c) (c_impl c) = true.
Proof. unfold agree_epoch. rewrite forallb_forall. unfold agree_call. reflexivity. Qed.

Theorem agree_history_iff h :
  agree_t (History h) = true <->
  forall e c, In e h -> In c (e_calls e) -> answer_eqb (eval_call (e_model e) (e_params e) c) (c_impl c) = true.
Proof.
  cbn [agree_t]. rewrite forallb_forall. split.
  - intros H e c He. apply agree_epoch_iff. now apply H.
  - intros H e He. apply agree_epoch_iff. intros c Hc. now apply H.
Qed.

Lemma forallb_perm {A} (f : A -> bool) l l' : Permutation l l' -> forallb f l = forallb f l'.
Proof.
  induction 1 as [|x l l' _ IH|x y l|l l' l'' _ IH1 _ IH2]; simpl.
  - reflexivity.
  - now rewrite IH.
  - destruct (f x), (f y); reflexivity.
  - now rewrite IH1.
Qed.

(** order and interleaving of the calls (and of the objects) are immaterial to the model *)
Theorem agree_history_order h h' : Permutation h h' -> agree_t (History h) = agree_t (History h').
Proof. apply forallb_perm. Qed.

Theorem agree_epoch_order m P cs cs' :
  Permutation cs cs' ->
  agree_epoch {| e_model := m; e_params := P; e_calls := cs |} = agree_epoch {| e_model := m; e_params := P; e_calls := cs' |}.
Proof. unfold agree_epoch. cbn. apply forallb_perm. Qed.

Theorem agree_history_app h1 h2 : agree_t (History (h1 ++ h2)) = agree_t (History h1) && agree_t (History h2).
Proof. cbn [agree_t]. apply forallb_app. Qed.

(** ---- soundness of the decidable statement of the property on one call ---- *)
Lemma shape_eqb_eq : forall a b, shape_eqb a b = true -> a = b.
Proof.
  induction a as [|x r IH]; destruct b as [|y s]; simpl; intros H; try discriminate; [reflexivity|].
  apply andb_true_iff in H. destruct H as [H1 H2]. apply Nat.eqb_eq in H1. f_equal; auto.
Qed.

Theorem ok_call_sound m P c n axis :
  proper_form (List.length P) (c_shape c) = Some (n, axis) ->
  List.length (c_data c) = n * List.length P ->
  ok_call m P c = true ->
  exists rows vs ws,
    rows_of (List.length (c_data c)) (List.length P) (c_data c) = Some rows
    /\ c_impl c = Some ((if axis then [n] else []), vs)
    /\ spec_rows m P (c_log c) rows = Some ws
    /\ values_eqb ws vs = true.
Proof.
  intros Hf Hd H. unfold ok_call in H. rewrite Hf in H.
  apply Nat.eqb_eq in Hd. rewrite Hd in H. cbn [negb orb] in H.
  destruct (rows_of (List.length (c_data c)) (List.length P) (c_data c)) as [rows|]; [|discriminate].
  destruct (c_impl c) as [[sh vs]|]; [|discriminate].
  apply andb_true_iff in H. destruct H as [H1 H2]. apply shape_eqb_eq in H1. subst sh.
  destruct (spec_rows m P (c_log c) rows) as [ws|] eqn:Es; [|discriminate].
  exists rows, vs, ws. repeat split; auto.
Qed.
