(** Proofs for C08: the algebra of the joint density (product of factors, sums of log factors)
    and the central-difference stencil. *)
From Coq Require Import List QArith Bool Lia Sorting.Permutation.
Import ListNotations.

(** ---- algebra of the joint density over Q ---- *)
Definition prodQ (l : list Q) : Q := fold_left Qmult l 1.

Lemma fold_mult_init l : forall a, fold_left Qmult l a == a * prodQ l.
Proof.
  unfold prodQ. induction l as [|x r IH]; intros a; simpl; [ring|].
  rewrite IH. rewrite (IH (1 * x)). ring.
Qed.

(** functools.reduce(mul, factors) is the product of the factors *)
Theorem reduce_is_product a r : fold_left Qmult r a == prodQ (a :: r).
Proof. unfold prodQ at 1. simpl. rewrite fold_mult_init. rewrite (fold_mult_init r (1 * a)). ring. Qed.

Lemma prodQ_cons a l : prodQ (a :: l) == a * prodQ l.
Proof. unfold prodQ at 1. simpl. rewrite fold_mult_init. ring. Qed.

(** the joint density is zero exactly when some conditional density is zero *)
Theorem prodQ_zero_iff l : prodQ l == 0 <-> Exists (fun x => x == 0) l.
Proof.
  induction l as [|a r IH].
  - unfold prodQ. simpl. split; [intros H; discriminate | intros H; inversion H].
  - rewrite prodQ_cons. split.
    + intros H. apply Qmult_integral in H. destruct H as [H|H]; [now left | right; now apply IH].
    + intros H. inversion H; subst.
      * match goal with Hz : a == 0 |- _ => rewrite Hz end. ring.
      * match goal with Hz : Exists _ r |- _ => apply IH in Hz; rewrite Hz end. ring.
Qed.

Theorem prodQ_pos l : Forall (fun x => 0 < x) l -> 0 < prodQ l.
Proof.
  induction 1 as [|a r Ha Hr IH]; [reflexivity|]. rewrite prodQ_cons.
  apply Qmult_lt_0_compat; assumption.
Qed.

(** the joint density does not depend on the order in which the parameters are requested *)
Theorem prodQ_perm l l' : Permutation l l' -> prodQ l == prodQ l'.
Proof.
  induction 1 as [|x l l' Hp IH|x y l|l1 l2 l3 H1 IH1 H2 IH2].
  - reflexivity.
  - rewrite !prodQ_cons, IH. reflexivity.
  - rewrite !prodQ_cons. ring.
  - now rewrite IH1.
Qed.

(** ---- log densities: extended values ---- *)
Inductive ext := NegInf | Fin (q : Q).

Definition ext_add (a b : ext) : ext :=
  match a, b with Fin x, Fin y => Fin (x + y) | _, _ => NegInf end.

Definition sum_ext (l : list ext) : ext := fold_left ext_add l (Fin 0).

Lemma fold_ext_neginf l : fold_left ext_add l NegInf = NegInf.
Proof. induction l as [|a r IH]; simpl; auto. Qed.

(** the joint log density is -inf exactly when some conditional log density is -inf *)
Theorem sum_ext_neginf_iff l : sum_ext l = NegInf <-> In NegInf l.
Proof.
  unfold sum_ext. generalize 0 as q. induction l as [|a r IH]; intros q; simpl.
  - split; [discriminate | tauto].
  - destruct a as [|x]; simpl.
    + rewrite fold_ext_neginf. split; auto.
    + rewrite IH. split; [now right | intros [H|H]; [discriminate | exact H]].
Qed.

(** ---- the central-difference stencil of numgrad ---- *)
Definition cdiff (f : Q -> Q) (x h : Q) : Q := (f (x + h) - f (x - h)) / (2 * h).

(** exact for polynomials of degree <= 2, for every non-zero step *)
Theorem cdiff_quadratic a b c x h :
  ~ h == 0 -> cdiff (fun t => a * t * t + b * t + c) x h == 2 * a * x + b.
Proof. intros Hh. unfold cdiff. field. exact Hh. Qed.
