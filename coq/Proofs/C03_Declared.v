(** C03: the declared graph (Graph/Declared.v) - soundness of the decidable clauses, the model's own
    output passes them, and a net built by explicit add_edge calls carries exactly the declaration. *)
From Coq Require Import List String ZArith Arith Bool Lia.
From Elfi Require Import Graph.Net Graph.Denote Graph.Declared Proofs.C03_EndToEnd Proofs.C03_Twins Proofs.C03_ModelOk.
Import ListNotations.

Lemma d_param_eqb_eq a b : param_eqb a b = true <-> a = b.
Proof.
  destruct a as [i|s], b as [j|t]; simpl; split; intros H; try discriminate; try congruence.
  - apply Nat.eqb_eq in H. congruence.
  - inversion H. apply Nat.eqb_refl.
  - apply String.eqb_eq in H. congruence.
  - inversion H. apply String.eqb_refl.
Qed.

Lemma edge_eqb_eq a b : edge_eqb a b = true <-> a = b.
Proof.
  destruct a as [[u v] p], b as [[x y] q]. unfold edge_eqb, e_src, e_dst, e_par. simpl. split.
  - intros H. apply andb_true_iff in H. destruct H as [H Hp]. apply andb_true_iff in H. destruct H as [Hu Hv].
    apply String.eqb_eq in Hu, Hv. apply d_param_eqb_eq in Hp. congruence.
  - intros H. inversion H. subst. rewrite !String.eqb_refl. simpl. now apply d_param_eqb_eq.
Qed.

Lemma edge_mem_In e l : edge_mem e l = true <-> In e l.
Proof.
  unfold edge_mem. rewrite existsb_exists. split.
  - intros [x [Hin Hx]]. apply edge_eqb_eq in Hx. now subst.
  - intros H. exists e. split; [exact H | now apply edge_eqb_eq].
Qed.

(** [decl_kept]: the net's edges and the declaration are the same set of triples *)
Lemma decl_kept_sound c :
  decl_kept c = true -> forall e, In e (d_decl c) <-> In e (s_edges (k_src (d_case c))).
Proof.
  unfold decl_kept. intros H e. apply andb_true_iff in H. destruct H as [H1 H2].
  rewrite forallb_forall in H1, H2. split; intros Hin.
  - apply edge_mem_In. now apply H1.
  - apply edge_mem_In. now apply H2.
Qed.

Lemma distinct_params_sound ps : distinct_params ps = true -> NoDup ps.
Proof.
  induction ps as [|p r IH]; simpl; intros H; [constructor|].
  apply andb_true_iff in H. destruct H as [H1 H2]. constructor; [|now apply IH].
  intros Hin. apply negb_true_iff in H1.
  assert (E : existsb (param_eqb p) r = true).
  { apply existsb_exists. exists p. split; [exact Hin | now apply d_param_eqb_eq]. }
  congruence.
Qed.

(** the decidable property on a declared case, unfolded: the declared parameters of every child are
    pairwise distinct, the implementation's net carries exactly the declared triples, and the
    implementation's result satisfies [Denote.ok] both for the DECLARED graph and for the net *)
Theorem dok_sound c :
  dok c = true ->
  (forall e, In e (d_decl c) -> NoDup (map snd (preds (d_decl c) (e_dst e))))
  /\ (forall e, In e (d_decl c) <-> In e (s_edges (k_src (d_case c))))
  /\ ok (declared_case c) = true
  /\ ok (d_case c) = true.
Proof.
  unfold dok. intros H.
  apply andb_true_iff in H. destruct H as [H Hok].
  apply andb_true_iff in H. destruct H as [H Hokd].
  apply andb_true_iff in H. destruct H as [Hwf Hk].
  split; [|split; [now apply decl_kept_sound | split; assumption]].
  intros e He. unfold decl_wf in Hwf. apply andb_true_iff in Hwf. destruct Hwf as [_ Hwf].
  rewrite forallb_forall in Hwf. apply distinct_params_sound. now apply Hwf.
Qed.

Lemma edge_mem_refl l : forallb (fun e => edge_mem e l) l = true.
Proof. apply forallb_forall. intros e He. now apply edge_mem_In. Qed.

(** The model's own run on a net that carries the declaration literally passes every clause of [dok]
    (the hypotheses are those of [model_ok] plus the well-formedness of the declaration). *)
Theorem model_dok src outs W out log :
  wfsrc src -> NoDup (map fst W) -> (forall k, In k (map fst W) -> ~ In k inames) ->
  outputs_wf src outs -> decl_wf (s_edges src) = true ->
  generate src outs W = Ok (out, log) ->
  dok {| d_case := {| k_src := src; k_outputs := outs; k_with := W; k_impl := ImplOk out (op_log src log) |};
         d_decl := s_edges src |} = true.
Proof.
  intros Hwf Hnd Hi Howf Hd Hg.
  pose proof (model_ok src outs W out log Hwf Hnd Hi Howf Hg) as Hok.
  unfold dok, decl_kept, declared_case, declared_src. simpl.
  rewrite Hd, !edge_mem_refl. simpl.
  destruct src as [ns es ob]. simpl in *. rewrite Hok. reflexivity.
Qed.

(** ---- explicit add_edge scripts ---- *)
Lemma d_add_edge_append u v p es :
  (forall e, In e es -> ~ (e_src e = u /\ e_dst e = v)) -> add_edge u v p es = es ++ [(u, v, p)].
Proof.
  induction es as [|e r IH]; intros H; simpl; [reflexivity|].
  destruct (String.eqb u (e_src e) && String.eqb v (e_dst e)) eqn:E.
  - apply andb_true_iff in E. destruct E as [E1 E2]. apply String.eqb_eq in E1, E2.
    exfalso. apply (H e); [now left | split; congruence].
  - rewrite IH; [reflexivity|]. intros e' He'. apply H. now right.
Qed.

Lemma attach_err d x : fold_left attach d (Err x) = Err x.
Proof. induction d as [|e r IH]; simpl; [reflexivity | exact IH]. Qed.

Lemma distinct_pairs_app_inv a b :
  distinct_pairs (a ++ b) = true ->
  distinct_pairs b = true /\ forall x y, In x a -> In y b -> ~ (e_src y = e_src x /\ e_dst y = e_dst x).
Proof.
  induction a as [|e r IH]; simpl; intros H.
  - split; [exact H | intros x y []].
  - apply andb_true_iff in H. destruct H as [H1 H2]. destruct (IH H2) as [Hb Hd]. split; [exact Hb|].
    intros x y [<-|Hx] Hy [E1 E2].
    + apply negb_true_iff in H1.
      assert (E : existsb (fun x => String.eqb (e_src e) (e_src x) && String.eqb (e_dst e) (e_dst x)) (r ++ b) = true).
      { apply existsb_exists. exists y. split; [apply in_or_app; now right|].
        rewrite E1, E2, !String.eqb_refl. reflexivity. }
      congruence.
    + exact (Hd x y Hx Hy (conj E1 E2)).
Qed.

(** For EVERY script of add_edge calls with explicit parameters (any order of the calls, any
    positions - 0 last, sparse - any names) that declares each ordered pair at most once, on a
    model that has the nodes and no edge between a declared pair yet: every call is accepted and the
    model's edges afterwards are the old edges followed by exactly the declared triples, each with
    the parameter it was declared with. *)
Theorem attach_all_declared d :
  forall m,
    (forall e, In e d -> has (e_src e) (s_nodes m) = true /\ has (e_dst e) (s_nodes m) = true) ->
    distinct_pairs (s_edges m ++ d) = true ->
    attach_all m d = Ok (with_edges m (s_edges m ++ d)).
Proof.
  unfold attach_all. induction d as [|e r IH]; intros m Hn Hd; simpl.
  - rewrite app_nil_r. destruct m; reflexivity.
  - destruct (Hn e (or_introl eq_refl)) as [Hs Ht].
    unfold add_edge_m. rewrite Hs, Ht. simpl.
    assert (Hnew : add_edge (e_src e) (e_dst e) (e_par e) (s_edges m) = s_edges m ++ [e]).
    { rewrite d_add_edge_append; [destruct e as [[u v] p]; reflexivity|].
      intros x Hx. destruct (distinct_pairs_app_inv _ _ Hd) as [_ H]. intros [E1 E2]. apply (H x e Hx); [now left | split; congruence]. }
    rewrite Hnew.
    rewrite (IH (with_edges m (s_edges m ++ [e]))).
    + unfold with_edges. simpl. rewrite <- app_assoc. reflexivity.
    + intros x Hx. simpl. apply Hn. now right.
    + simpl. rewrite <- app_assoc. exact Hd.
Qed.
