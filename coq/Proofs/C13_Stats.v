(** C13: normalize_weights, compute_ess, weighted_var and GMDistribution.pdf obey their definitions. *)
From Coq Require Import List ZArith QArith Qabs Bool Arith Lia Lqa Setoid Morphisms.
From Elfi Require Import Num.Quantile Proofs.C13_Quantile.
Import ListNotations.
Open Scope Q_scope.

Global Instance sq_proper : Proper (Qeq ==> Qeq) sq.
Proof. intros a b E. unfold sq. now rewrite E. Qed.

Lemma some_inj {A} (a b : A) : Some a = Some b -> a = b.
Proof. congruence. Qed.

(** ** normalize_weights *)
Lemma qsum_map_id_scale k l : qsum (map (fun v => k * v) l) == k * qsum l.
Proof. rewrite (qsum_map_scale (fun v => v) k l), map_id. reflexivity. Qed.

Lemma qsum_normalised s ws : ~ s == 0 -> qsum (map (fun w => Qred (w / s)) ws) == qsum ws / s.
Proof.
  intro Hs. rewrite (qsum_map_eq _ (fun v => / s * v)).
  - rewrite qsum_map_id_scale. field. exact Hs.
  - intros v _. rewrite Qred_correct. field. exact Hs.
Qed.

Lemma normalize_inv ws nw :
  normalize_weights ws = Some nw ->
  Forall (Qle 0) ws /\ 0 < qsum ws /\ nw = map (fun w => Qred (w / qsum ws)) ws.
Proof.
  unfold normalize_weights. destruct (existsb (fun w => Qltb w 0) ws) eqn:En; [discriminate|].
  destruct (Qeq_bool (qsum ws) 0) eqn:Es; [discriminate|]. intro H. injection H as <-.
  assert (Hnn : Forall (Qle 0) ws).
  { apply Forall_forall. intros v Hv. apply Qltb_ge.
    destruct (Qltb v 0) eqn:E; [|reflexivity].
    assert (existsb (fun w => Qltb w 0) ws = true) by (apply existsb_exists; eauto). congruence. }
  repeat split; auto.
  pose proof (qsum_nonneg ws Hnn).
  destruct (Qlt_le_dec 0 (qsum ws)) as [L|G]; [exact L|].
  assert (E : qsum ws == 0) by lra. apply Qeq_bool_iff in E. congruence.
Qed.

Theorem normalize_weights_spec ws nw :
  normalize_weights ws = Some nw ->
  qsum nw == 1 /\ Forall (Qle 0) nw /\ Forall2 (fun w u => u * qsum ws == w) ws nw.
Proof.
  intro H. destruct (normalize_inv ws nw H) as (Hnn & Hs & ->).
  split; [|split].
  - rewrite qsum_normalised; [field|]; lra.
  - rewrite Forall_map. eapply Forall_impl; [|exact Hnn]. intros v Hv. cbn beta.
    rewrite Qred_correct. apply Qle_shift_div_l; lra.
  - clear Hnn. set (s := qsum ws) in *. clearbody s. clear H.
    induction ws as [|v ws IH]; cbn [map]; constructor; [|exact IH].
    rewrite Qred_correct. field. lra.
Qed.

Theorem normalize_weights_defined ws :
  Forall (Qle 0) ws -> 0 < qsum ws -> exists nw, normalize_weights ws = Some nw.
Proof.
  intros Hnn Hs. unfold normalize_weights.
  destruct (existsb (fun w => Qltb w 0) ws) eqn:En.
  - exfalso. apply existsb_exists in En. destruct En as (v & Hv & E). apply Qltb_lt in E.
    rewrite Forall_forall in Hnn. specialize (Hnn v Hv). lra.
  - destruct (Qeq_bool (qsum ws) 0) eqn:Es; [|eauto].
    apply Qeq_bool_iff in Es. lra.
Qed.

(** ** compute_ess = (sum w)^2 / sum w^2 *)
Theorem compute_ess_spec ws e : compute_ess ws = Some e -> e == sq (qsum ws) / qsum (map sq ws).
Proof.
  unfold compute_ess. destruct (normalize_weights ws) as [nw|] eqn:En; [|discriminate].
  intro H. apply some_inj in H. rewrite <- H. rewrite Qred_correct.
  destruct (normalize_inv ws nw En) as (_ & Hs & ->).
  set (s := qsum ws) in *.
  assert (Hs0 : ~ s == 0) by lra.
  rewrite qsum_normalised; [|exact Hs0]. fold s.
  rewrite map_map.
  rewrite (qsum_map_eq (fun x => sq (Qred (x / s))) (fun x => (/ s * / s) * sq x)).
  2:{ intros v _. unfold sq. rewrite Qred_correct. field. exact Hs0. }
  rewrite (qsum_map_scale sq (/ s * / s) ws).
  set (Q2 := qsum (map sq ws)).
  destruct (Qeq_dec Q2 0) as [Ez|Hnz].
  - unfold Qdiv. rewrite Ez. assert (E0 : / s * / s * 0 == 0) by ring. rewrite E0.
    change (/ 0) with 0. ring.
  - unfold sq. field. split; assumption.
Qed.

(** ** weighted_var *)
Lemma wvar_core_inv xw v :
  wvar_core xw = Some v ->
  let V1 := wtot xw in
  let V2 := qsum (map (fun p => sq (snd p)) xw) in
  let xbar := qsum (map (fun p => fst p * snd p) xw) / V1 in
  ~ V1 == 0 /\ ~ V1 - V2 / V1 == 0 /\
  v == qsum (map (fun p => snd p * sq (fst p - xbar)) xw) / (V1 - V2 / V1).
Proof.
  unfold wvar_core. cbv zeta.
  destruct (Qeq_bool (wtot xw) 0) eqn:E1; [discriminate|].
  destruct (Qeq_bool (wtot xw - qsum (map (fun p => sq (snd p)) xw) / wtot xw) 0) eqn:E2; [discriminate|].
  intro H. apply some_inj in H. rewrite <- H.
  split; [intro E; apply Qeq_bool_iff in E; congruence|].
  split; [intro E; apply Qeq_bool_iff in E; congruence|].
  rewrite Qred_correct.
  apply Qmult_comp; [|reflexivity].
  apply qsum_map_eq. intros p _. unfold sq. rewrite Qred_correct. reflexivity.
Qed.

(** the code's formula is the reliability-weights unbiased estimator written with normalised
    weights v_i = w_i / sum w:  sum v_i (x_i - mu)^2 / (1 - sum v_i^2),  mu = sum v_i x_i *)
Theorem wvar_core_reliability xw v : wvar_core xw = Some v -> v == spec_var xw.
Proof.
  intro H. destruct (wvar_core_inv xw v H) as (H1 & H2 & ->). unfold spec_var.
  set (s := wtot xw) in *.
  set (V2 := qsum (map (fun p => sq (snd p)) xw)) in *.
  set (SX := qsum (map (fun p => fst p * snd p) xw)).
  assert (Hmu : qsum (map (fun p => snd p / s * fst p) xw) == SX / s).
  { rewrite (qsum_map_eq _ (fun p => / s * (fst p * snd p))).
    - rewrite qsum_map_scale. fold SX. field. exact H1.
    - intros p _. field. exact H1. }
  rewrite (qsum_map_eq (fun p => snd p / s * sq (fst p - qsum (map (fun p0 => snd p0 / s * fst p0) xw)))
                       (fun p => / s * (snd p * sq (fst p - SX / s)))).
  2:{ intros p _. unfold sq. rewrite Hmu. field. exact H1. }
  rewrite qsum_map_scale.
  rewrite (qsum_map_eq (fun p => sq (snd p / s)) (fun p => (/ s * / s) * sq (snd p))).
  2:{ intros p _. unfold sq. field. exact H1. }
  rewrite qsum_map_scale. fold V2.
  set (N := qsum (map (fun p => snd p * sq (fst p - SX / s)) xw)).
  assert (H3 : ~ s * s - V2 == 0).
  { intro E. apply H2. assert (E' : s - V2 / s == (s * s - V2) / s) by (field; exact H1).
    rewrite E', E. field. exact H1. }
  field. repeat split; auto.
Qed.

Lemma qsum_const {A} c (l : list A) : qsum (map (fun _ => c) l) == c * inject_Z (Z.of_nat (length l)).
Proof.
  induction l as [|a l IH].
  - simpl. rewrite qsum_nil. ring.
  - cbn [map length]. rewrite qsum_cons, IH, Nat2Z.inj_succ, <- Z.add_1_r, inject_Z_plus. simpl (inject_Z 1). ring.
Qed.

(** with equal weights it is the usual unbiased sample variance *)
Theorem wvar_core_equal_weights xw c v :
  Forall (fun p => snd p == c) xw -> wvar_core xw = Some v ->
  let n := inject_Z (Z.of_nat (length xw)) in
  let mean := qsum (map fst xw) / n in
  v == qsum (map (fun p => sq (fst p - mean)) xw) / (n - 1).
Proof.
  intros Hc H n mean. destruct (wvar_core_inv xw v H) as (H1 & H2 & ->).
  rewrite Forall_forall in Hc.
  assert (E1 : wtot xw == c * n).
  { unfold wtot. rewrite (qsum_map_eq snd (fun _ => c)); [apply qsum_const | exact Hc]. }
  assert (E2 : qsum (map (fun p => sq (snd p)) xw) == c * c * n).
  { rewrite (qsum_map_eq _ (fun _ => c * c)); [apply qsum_const|].
    intros p Hp. unfold sq. rewrite (Hc p Hp). reflexivity. }
  assert (E3 : qsum (map (fun p => fst p * snd p) xw) == c * qsum (map fst xw)).
  { rewrite <- qsum_map_scale. apply qsum_map_eq. intros p Hp. rewrite (Hc p Hp). ring. }
  rewrite E1, E2 in H2. rewrite E1 in H1.
  assert (Hc0 : ~ c == 0) by (intro E; apply H1; rewrite E; ring).
  assert (Hn0 : ~ n == 0) by (intro E; apply H1; rewrite E; ring).
  assert (Hn1 : ~ n - 1 == 0).
  { intro E. apply H2. assert (E' : n == 1) by lra. rewrite E'. field. exact Hc0. }
  assert (Hbar : qsum (map (fun p => fst p * snd p) xw) / wtot xw == mean).
  { rewrite E1, E3. unfold mean. field. split; assumption. }
  rewrite (qsum_map_eq (fun p => snd p * sq (fst p - qsum (map (fun p0 => fst p0 * snd p0) xw) / wtot xw))
                       (fun p => c * sq (fst p - mean))).
  2:{ intros p Hp. unfold sq. rewrite Hbar, (Hc p Hp). reflexivity. }
  rewrite qsum_map_scale, E1, E2.
  assert (Hn2 : ~ c * n - c == 0).
  { intro E. assert (E' : c * (n - 1) == 0) by (rewrite <- E; ring).
    apply Qmult_integral in E'. tauto. }
  field. repeat split; assumption.
Qed.

Theorem wvar_core_equal_defined xw c :
  Forall (fun p => snd p == c) xw -> 0 < c -> (2 <= length xw)%nat -> exists v, wvar_core xw = Some v.
Proof.
  intros Hc Hpos Hlen. rewrite Forall_forall in Hc.
  set (n := inject_Z (Z.of_nat (length xw))).
  assert (Hn : 2 <= n).
  { unfold n. change 2 with (inject_Z 2). rewrite <- Zle_Qle. lia. }
  assert (E1 : wtot xw == c * n).
  { unfold wtot. rewrite (qsum_map_eq snd (fun _ => c)); [apply qsum_const | exact Hc]. }
  assert (E2 : qsum (map (fun p => sq (snd p)) xw) == c * c * n).
  { rewrite (qsum_map_eq _ (fun _ => c * c)); [apply qsum_const|].
    intros p Hp. unfold sq. rewrite (Hc p Hp). reflexivity. }
  unfold wvar_core.
  assert (P : 0 < c * n) by (apply Qmult_lt_0_compat; lra).
  destruct (Qeq_bool (wtot xw) 0) eqn:B1.
  { apply Qeq_bool_iff in B1. rewrite E1 in B1. lra. }
  destruct (Qeq_bool (wtot xw - qsum (map (fun p => sq (snd p)) xw) / wtot xw) 0) eqn:B2; [|eauto].
  apply Qeq_bool_iff in B2. rewrite E1, E2 in B2.
  assert (E : c * n - c * c * n / (c * n) == c * (n - 1)) by (field; split; lra).
  rewrite E in B2.
  assert (0 < c * (n - 1)) by (apply Qmult_lt_0_compat; lra). lra.
Qed.

(** rescaling the weights does not change the variance *)
Theorem wvar_core_scale_invariant xw c v v' :
  ~ c == 0 -> wvar_core xw = Some v -> wvar_core (map (fun p => (fst p, c * snd p)) xw) = Some v' -> v == v'.
Proof.
  intros Hc H H'.
  destruct (wvar_core_inv xw v H) as (H1 & H2 & ->).
  destruct (wvar_core_inv _ v' H') as (H1' & H2' & ->).
  rewrite !map_map in *. cbn [fst snd] in *.
  assert (G : forall v, c * v == c * v) by (intro; reflexivity).
  rewrite (wtot_map_w (Qmult c) c xw G) in *.
  set (s := wtot xw) in *.
  assert (E2 : qsum (map (fun p => sq (c * snd p)) xw) == c * c * qsum (map (fun p => sq (snd p)) xw)).
  { rewrite <- qsum_map_scale. apply qsum_map_eq. intros p _. unfold sq. ring. }
  assert (E3 : qsum (map (fun p => fst p * (c * snd p)) xw) == c * qsum (map (fun p => fst p * snd p) xw)).
  { rewrite <- qsum_map_scale. apply qsum_map_eq. intros p _. ring. }
  set (V2 := qsum (map (fun p => sq (snd p)) xw)) in *.
  set (SX := qsum (map (fun p => fst p * snd p) xw)) in *.
  assert (Ebar : c * SX / (c * s) == SX / s) by (field; split; assumption).
  pose proof (wtot_map_w (Qmult c) c xw G) as Ew.
  rewrite (qsum_map_eq (fun p => c * snd p * sq (fst p - qsum (map (fun p0 => fst p0 * (c * snd p0)) xw)
                                                          / wtot (map (fun p : Q * Q => (fst p, c * snd p)) xw)))
                       (fun p => c * (snd p * sq (fst p - SX / s)))).
  2:{ intros p _. unfold sq. rewrite E3, Ew. fold s. rewrite Ebar. ring. }
  rewrite qsum_map_scale, E2.
  rewrite E2 in H2'.
  assert (H3 : ~ s * s - V2 == 0).
  { intro E. apply H2. assert (E' : s - V2 / s == (s * s - V2) / s) by (field; exact H1).
    rewrite E', E. field. exact H1. }
  assert (H4 : ~ c * s * s - c * V2 == 0).
  { intro E. assert (E' : c * (s * s - V2) == 0) by (rewrite <- E; ring).
    apply Qmult_integral in E'. tauto. }
  field. repeat split; auto.
Qed.

(** ** weighted_var as coded (since /repo 7d9ef43): normalise the weights first, then the formula *)
Definition opt_rel (a b : option Q) : Prop :=
  match a, b with Some v, Some v' => v == v' | None, None => True | _, _ => False end.

Definition scale_rows (c : Q) (xw : list (Q * Q)) : list (Q * Q) := map (fun p => (fst p, c * snd p)) xw.
Definition V2_of (xw : list (Q * Q)) : Q := qsum (map (fun p => sq (snd p)) xw).

Lemma wvar_core_defined xw :
  (exists v, wvar_core xw = Some v) <-> (~ wtot xw == 0 /\ ~ wtot xw - V2_of xw / wtot xw == 0).
Proof.
  unfold wvar_core, V2_of. cbv zeta.
  destruct (Qeq_bool (wtot xw) 0) eqn:E1.
  - split; [intros [v H]; discriminate|]. intros [H _]. apply Qeq_bool_iff in E1. tauto.
  - destruct (Qeq_bool (wtot xw - qsum (map (fun p => sq (snd p)) xw) / wtot xw) 0) eqn:E2.
    + split; [intros [v H]; discriminate|]. intros [_ H]. apply Qeq_bool_iff in E2. tauto.
    + split; [|eauto]. intros _.
      split; intro E; apply Qeq_bool_iff in E; congruence.
Qed.

Lemma scale_rows_tot c xw : wtot (scale_rows c xw) == c * wtot xw.
Proof. unfold scale_rows. apply (wtot_map_w (Qmult c) c xw). intro; reflexivity. Qed.

Lemma scale_rows_V2 c xw : V2_of (scale_rows c xw) == c * c * V2_of xw.
Proof.
  unfold V2_of, scale_rows. rewrite map_map. cbn [snd].
  rewrite <- qsum_map_scale. apply qsum_map_eq. intros p _. unfold sq. ring.
Qed.

Lemma wvar_core_defined_scale c xw :
  ~ c == 0 -> ((exists v, wvar_core xw = Some v) <-> (exists v, wvar_core (scale_rows c xw) = Some v)).
Proof.
  intro Hc. rewrite !wvar_core_defined, scale_rows_tot, scale_rows_V2.
  set (s := wtot xw). set (V2 := V2_of xw).
  assert (Hs : c * s == 0 <-> s == 0).
  { split; intro E; [|rewrite E; ring]. apply Qmult_integral in E. tauto. }
  split; intros [H1 H2]; (split; [tauto|]).
  - intro E. apply H2.
    assert (E' : c * s - c * c * V2 / (c * s) == c * (s - V2 / s)) by (field; tauto).
    rewrite E' in E. apply Qmult_integral in E. tauto.
  - assert (H1' : ~ s == 0) by tauto. intro E.
    assert (E' : c * s - c * c * V2 / (c * s) == c * (s - V2 / s)) by (field; tauto).
    apply H2. rewrite E', E. ring.
Qed.

(** the formula is unaffected, in definedness and value, by a non-zero common factor *)
Lemma wvar_core_scaled c xw : ~ c == 0 -> opt_rel (wvar_core xw) (wvar_core (scale_rows c xw)).
Proof.
  intro Hc. pose proof (wvar_core_defined_scale c xw Hc) as D. unfold opt_rel.
  destruct (wvar_core xw) as [v|] eqn:H; destruct (wvar_core (scale_rows c xw)) as [v'|] eqn:H'.
  - exact (wvar_core_scale_invariant xw c v v' Hc H H').
  - destruct D as [D _]. destruct (D (ex_intro _ v eq_refl)) as [v' Hv']. discriminate.
  - destruct D as [_ D]. destruct (D (ex_intro _ v' eq_refl)) as [v Hv]. discriminate.
  - exact I.
Qed.

(** normalising first changes nothing (in exact arithmetic) except for a zero weight sum, where
    both are undefined *)
Lemma wvar_rows_core xw : opt_rel (wvar_rows xw) (wvar_core xw).
Proof.
  unfold wvar_rows. cbv zeta. destruct (Qeq_bool (wtot xw) 0) eqn:E.
  - unfold wvar_core. cbv zeta. rewrite E. exact I.
  - assert (Hs : ~ wtot xw == 0) by (intro E'; apply Qeq_bool_iff in E'; congruence).
    assert (Hc : ~ / wtot xw == 0).
    { intro E'. apply Hs. rewrite <- (Qinv_involutive (wtot xw)), E'. reflexivity. }
    pose proof (wvar_core_scaled (/ wtot xw) xw Hc) as R. unfold scale_rows in R.
    unfold opt_rel in *.
    destruct (wvar_core xw); destruct (wvar_core (map (fun p => (fst p, / wtot xw * snd p)) xw)); auto.
    now symmetry.
Qed.

Lemma wvar_rows_some xw v : wvar_rows xw = Some v -> exists v0, wvar_core xw = Some v0 /\ v == v0.
Proof.
  intro H. pose proof (wvar_rows_core xw) as R. rewrite H in R. unfold opt_rel in R.
  destruct (wvar_core xw) as [v0|]; [eauto | contradiction].
Qed.

Lemma wvar_core_some xw v0 : wvar_core xw = Some v0 -> exists v, wvar_rows xw = Some v /\ v == v0.
Proof.
  intro H. pose proof (wvar_rows_core xw) as R. rewrite H in R. unfold opt_rel in R.
  destruct (wvar_rows xw) as [v|]; [eauto | contradiction].
Qed.

Theorem weighted_var_reliability xw v : wvar_rows xw = Some v -> v == spec_var xw.
Proof.
  intro H. destruct (wvar_rows_some xw v H) as (v0 & H0 & E). rewrite E.
  now apply wvar_core_reliability.
Qed.

Theorem weighted_var_equal_weights xw c v :
  Forall (fun p => snd p == c) xw -> wvar_rows xw = Some v ->
  let n := inject_Z (Z.of_nat (length xw)) in
  let mean := qsum (map fst xw) / n in
  v == qsum (map (fun p => sq (fst p - mean)) xw) / (n - 1).
Proof.
  intros Hc H n mean. destruct (wvar_rows_some xw v H) as (v0 & H0 & E). rewrite E.
  exact (wvar_core_equal_weights xw c v0 Hc H0).
Qed.

Theorem weighted_var_equal_defined xw c :
  Forall (fun p => snd p == c) xw -> 0 < c -> (2 <= length xw)%nat -> exists v, wvar_rows xw = Some v.
Proof.
  intros Hc Hpos Hlen. destruct (wvar_core_equal_defined xw c Hc Hpos Hlen) as [v0 H0].
  destruct (wvar_core_some xw v0 H0) as (v & H & _). eauto.
Qed.

(** rescaling the weights changes neither whether the variance is defined nor its value *)
Theorem weighted_var_scale_defined xw c v :
  ~ c == 0 -> wvar_rows xw = Some v ->
  exists v', wvar_rows (map (fun p => (fst p, c * snd p)) xw) = Some v' /\ v == v'.
Proof.
  intros Hc H. destruct (wvar_rows_some xw v H) as (v0 & H0 & E).
  pose proof (wvar_core_scaled c xw Hc) as R. rewrite H0 in R. unfold opt_rel, scale_rows in R.
  destruct (wvar_core (map (fun p => (fst p, c * snd p)) xw)) as [v1|] eqn:H1; [|contradiction].
  destruct (wvar_core_some _ v1 H1) as (v' & H' & E'). exists v'. split; [exact H'|].
  rewrite E, R. now symmetry.
Qed.

Theorem weighted_var_scale_invariant xw c v v' :
  ~ c == 0 -> wvar_rows xw = Some v -> wvar_rows (map (fun p => (fst p, c * snd p)) xw) = Some v' -> v == v'.
Proof.
  intros Hc H H'. destruct (weighted_var_scale_defined xw c v Hc H) as (v1 & H1 & E).
  rewrite H1 in H'. injection H' as <-. exact E.
Qed.

(** ** GMDistribution.pdf *)
Lemma fold_accum l : forall a,
  fold_left (fun d (p : Q * Q) => Qred (d + fst p * snd p)) l a == a + qsum (map (fun p => fst p * snd p) l).
Proof.
  induction l as [|x l IH]; intro a; cbn [fold_left map].
  - rewrite qsum_nil. ring.
  - rewrite IH, Qred_correct, qsum_cons. ring.
Qed.

Lemma combine_map_l {A B C} (g : A -> C) : forall (ws : list A) (ds : list B),
  combine (map g ws) ds = map (fun p => (g (fst p), snd p)) (combine ws ds).
Proof.
  induction ws as [|w ws IH]; intros [|d ds]; simpl; try reflexivity. now rewrite IH.
Qed.

Definition weights_of {A} (ws : option (list Q)) (dens : list A) : list Q :=
  match ws with Some w => w | None => ones dens end.

(** pdf = sum_i (w_i / sum w) * N(x; m_i, C) *)
Theorem gm_pdf_spec dens ws p :
  gm_pdf dens ws = Some p -> p == spec_pdf dens (weights_of ws dens).
Proof.
  unfold gm_pdf. fold (weights_of ws dens). set (w := weights_of ws dens).
  destruct (normalize_weights w) as [nw|] eqn:En; [|discriminate].
  intro H. apply some_inj in H. rewrite <- H.
  destruct (normalize_inv w nw En) as (_ & Hs & ->).
  rewrite fold_accum, combine_map_l, map_map. unfold spec_pdf. cbn [fst snd].
  assert (E : 0 + qsum (map (fun x => Qred (fst x / qsum w) * snd x) (combine w dens))
              == qsum (map (fun x => Qred (fst x / qsum w) * snd x) (combine w dens))) by ring.
  rewrite E. apply qsum_map_eq. intros q _. rewrite Qred_correct. reflexivity.
Qed.

Theorem gm_pdf_defined dens ws :
  Forall (Qle 0) (weights_of ws dens) -> 0 < qsum (weights_of ws dens) -> exists p, gm_pdf dens ws = Some p.
Proof.
  intros Hn Hs. unfold gm_pdf. fold (weights_of ws dens).
  destruct (normalize_weights_defined _ Hn Hs) as [nw ->]. eauto.
Qed.

Theorem gm_pdf_nonneg dens ws p :
  Forall (Qle 0) dens -> gm_pdf dens ws = Some p -> 0 <= p.
Proof.
  intros Hd H. pose proof (gm_pdf_spec dens ws p H) as E. rewrite E. unfold spec_pdf.
  unfold gm_pdf in H. fold (weights_of ws dens) in H. set (w := weights_of ws dens) in *.
  destruct (normalize_weights w) as [nw|] eqn:En; [|discriminate].
  destruct (normalize_inv w nw En) as (Hw & Hs & _).
  apply qsum_nonneg. rewrite Forall_map. apply Forall_forall. intros [a d] Hp. simpl.
  pose proof (in_combine_l _ _ _ _ Hp) as Ha. pose proof (in_combine_r _ _ _ _ Hp) as Hdd.
  rewrite Forall_forall in Hw, Hd. specialize (Hw a Ha). specialize (Hd d Hdd).
  apply Qmult_le_0_compat; [|exact Hd]. apply Qle_shift_div_l; lra.
Qed.

(** one component: the mixture is that normal density *)
Theorem gm_pdf_single d w p : gm_pdf [d] (Some [w]) = Some p -> p == d.
Proof.
  intro H. pose proof (gm_pdf_spec _ _ _ H) as E. rewrite E.
  unfold gm_pdf in H. destruct (normalize_weights [w]) as [nw|] eqn:En; [|discriminate].
  destruct (normalize_inv _ _ En) as (_ & Hs & _).
  unfold spec_pdf, weights_of. simpl. rewrite !qsum_cons, !qsum_nil in *. simpl. field. lra.
Qed.

Section GMAt.
  Variables X M : Type.
  Variable Nd : X -> M -> Q.
  Variable ln : Q -> Q.

  (** the density at x of the mixture with means [means], shared covariance (inside [Nd]) and weights w *)
  Theorem gm_pdf_at_spec x means w p :
    gm_pdf_at X M Nd x means (Some w) = Some p ->
    p == qsum (map (fun wm => fst wm / qsum w * Nd x (snd wm)) (combine w means)).
  Proof.
    unfold gm_pdf_at. intro H. rewrite (gm_pdf_spec _ _ _ H). unfold spec_pdf, weights_of.
    rewrite (combine_map_r (Nd x)), map_map. reflexivity.
  Qed.

  Theorem gm_logpdf_at_spec x means ws :
    gm_logpdf_at X M Nd ln x means ws = option_map ln (gm_pdf_at X M Nd x means ws).
  Proof. reflexivity. Qed.
End GMAt.

(** ** soundness of the tolerance comparison used by the decidable statements *)
Lemma close_sound tol a b : close tol a b = true -> Qabs (a - b) <= tol * (1 + Qabs a).
Proof. unfold close. apply Qle_bool_iff. Qed.

Lemma close_exact a b : close 0 a b = true -> a == b.
Proof.
  intro H. apply close_sound in H. assert (E : 0 * (1 + Qabs a) == 0) by ring. rewrite E in H.
  apply Qabs_Qle_condition in H. destruct H as [L U]. lra.
Qed.

Lemma close_refl tol a b : 0 <= tol -> a == b -> close tol a b = true.
Proof.
  intros Ht E. unfold close. apply Qle_bool_iff. rewrite E.
  assert (Z : b - b == 0) by ring. rewrite Z. simpl (Qabs 0).
  apply Qmult_le_0_compat; [exact Ht|]. pose proof (Qabs_nonneg b). lra.
Qed.

(** the decidable statement about normalize_weights / compute_ess on implementation output *)
Theorem ess_ok_sound xs w tol i_norm i_ess i_var :
  wf_stat_w w = true -> ok_stat xs (Some w) tol i_norm i_ess i_var = true ->
  exists nw e, i_norm = Some nw /\ i_ess = Some e /\
    Qabs (1 - qsum nw) <= tol * (1 + Qabs 1) /\ Forall (Qle 0) nw /\
    Qabs (spec_ess w - e) <= tol * (1 + Qabs (spec_ess w)).
Proof.
  intros Hwf H. unfold ok_stat in H. rewrite Hwf in H.
  apply andb_true_iff in H. destruct H as [H _].
  apply andb_true_iff in H. destruct H as [Hn He].
  destruct i_norm as [nw|]; [|discriminate]. destruct i_ess as [e|]; [|discriminate].
  apply andb_true_iff in Hn. destruct Hn as [Hn _]. apply andb_true_iff in Hn. destruct Hn as [Hs Hnn].
  exists nw, e. repeat split; auto.
  - now apply close_sound.
  - apply Forall_forall. intros v Hv. rewrite forallb_forall in Hnn. apply Qle_bool_iff. now apply Hnn.
  - now apply close_sound.
Qed.

Theorem var_ok_sound xs w tol i_norm i_ess i_var :
  length w = length xs -> wf_stat_w w = true -> var_defined (combine xs w) = true ->
  ok_stat xs (Some w) tol i_norm i_ess i_var = true ->
  exists v, i_var = Some v /\
    Qabs (spec_var (combine xs w) - v) <= tol * (1 + Qabs (spec_var (combine xs w))).
Proof.
  intros Hl Hwf Hd H. unfold ok_stat in H.
  apply andb_true_iff in H. destruct H as [_ H]. unfold rows in H.
  rewrite Hl, Nat.eqb_refl, Hwf, Hd in H. simpl in H.
  destruct i_var as [v|]; [|discriminate]. exists v. split; [reflexivity | now apply close_sound].
Qed.

(** the model's own outputs pass the decidable statement (exact arithmetic, any tolerance >= 0) *)
Theorem stat_model_ok xs w tol :
  0 <= tol -> length w = length xs ->
  ok_stat xs (Some w) tol (normalize_weights w) (compute_ess w) (weighted_var xs (Some w)) = true.
Proof.
  intros Ht Hl. unfold ok_stat. apply andb_true_iff. split.
  - destruct (wf_stat_w w) eqn:Hwf; [|reflexivity].
    unfold wf_stat_w in Hwf. apply andb_true_iff in Hwf. destruct Hwf as [Hnn Hs].
    apply Qltb_lt in Hs.
    assert (Hnn' : Forall (Qle 0) w).
    { apply Forall_forall. intros v Hv. rewrite forallb_forall in Hnn. apply Qle_bool_iff. now apply Hnn. }
    destruct (normalize_weights_defined w Hnn' Hs) as [nw En].
    unfold compute_ess. rewrite En.
    destruct (normalize_weights_spec w nw En) as (S1 & Nn & Pr).
    apply andb_true_iff. split.
    + apply andb_true_iff. split; [apply andb_true_iff; split|].
      * apply close_refl; [exact Ht | now symmetry].
      * apply forallb_forall. intros v Hv. apply Qle_bool_iff. rewrite Forall_forall in Nn. now apply Nn.
      * clear -Pr Ht. revert Pr. generalize (qsum w) as s. intros s Pr. induction Pr; simpl; [reflexivity|]. apply andb_true_iff. split; [|exact IHPr].
        apply close_refl; [exact Ht | now symmetry].
    + apply close_refl; [exact Ht|]. symmetry.
      apply (compute_ess_spec w). unfold compute_ess. now rewrite En.
  - unfold rows, weighted_var. rewrite Hl, Nat.eqb_refl. simpl.
    destruct (wf_stat_w w && var_defined (combine xs w)) eqn:Hc; [|reflexivity].
    apply andb_true_iff in Hc. destruct Hc as [_ Hd].
    unfold var_defined in Hd. apply andb_true_iff in Hd. destruct Hd as [D1 D2].
    apply negb_true_iff in D1. apply negb_true_iff in D2.
    destruct (wvar_rows (combine xs w)) as [v|] eqn:Ev.
    + apply close_refl; [exact Ht|]. symmetry. now apply weighted_var_reliability.
    + exfalso.
      assert (Hd : exists v0, wvar_core (combine xs w) = Some v0).
      { apply wvar_core_defined. unfold V2_of.
        split; intro E; apply Qeq_bool_iff in E; congruence. }
      destruct Hd as [v0 H0]. destruct (wvar_core_some _ v0 H0) as (v & Hv & _). congruence.
Qed.

(** GMDistribution.pdf: the model's value passes the decidable comparison with the definition *)
Theorem pdf_model_ok dens ws tol p :
  0 <= tol -> gm_pdf dens ws = Some p -> close tol (spec_pdf dens (weights_of ws dens)) p = true.
Proof. intros Ht H. apply close_refl; [exact Ht|]. symmetry. now apply gm_pdf_spec. Qed.

(** GMDistribution.rvs: the decidable statement on the returned rows *)
Theorem rvs_ok_sound size box o :
  ok_rvs size box (Some o) = true -> length o = size /\ Forall (fun x => in_box box x = true) o.
Proof.
  unfold ok_rvs. intro H. apply andb_true_iff in H. destruct H as [Hl Hf].
  apply Nat.eqb_eq in Hl. split; [exact Hl|]. apply Forall_forall. now apply forallb_forall.
Qed.

(** ** invariance under a common positive factor (wave 2): the statistics depend on the ratios
       of the numeric weights only, whatever their magnitude                                  *)
Lemma qsum_scale c w : qsum (map (Qmult c) w) == c * qsum w.
Proof. change (map (Qmult c) w) with (map (fun v => c * v) w). apply qsum_map_id_scale. Qed.

Lemma qsum_sq_scale c w : qsum (map sq (map (Qmult c) w)) == c * c * qsum (map sq w).
Proof.
  rewrite map_map, <- qsum_map_scale. apply qsum_map_eq. intros v _. unfold sq. ring.
Qed.

Theorem spec_ess_scale_invariant c w : ~ c == 0 -> spec_ess (map (Qmult c) w) == spec_ess w.
Proof.
  intro Hc. unfold spec_ess. rewrite qsum_scale, qsum_sq_scale.
  set (s := qsum w). set (Q2 := qsum (map sq w)).
  destruct (Qeq_dec Q2 0) as [Ez|Hnz].
  - unfold Qdiv. rewrite Ez. assert (E0 : c * c * 0 == 0) by ring. rewrite E0.
    change (/ 0) with 0. ring.
  - unfold sq. field. split; assumption.
Qed.

Lemma scaled_nonneg c w : 0 < c -> Forall (Qle 0) w -> Forall (Qle 0) (map (Qmult c) w).
Proof.
  intros Hc H. rewrite Forall_map. eapply Forall_impl; [|exact H]. intros v Hv. cbn beta.
  apply Qmult_le_0_compat; lra.
Qed.

Lemma scaled_sum_pos c w : 0 < c -> 0 < qsum w -> 0 < qsum (map (Qmult c) w).
Proof. intros Hc Hs. rewrite qsum_scale. now apply Qmult_lt_0_compat. Qed.

Lemma Forall2_map_same {A B} (R : B -> B -> Prop) (f g : A -> B) l :
  (forall v, In v l -> R (f v) (g v)) -> Forall2 R (map f l) (map g l).
Proof.
  induction l as [|a l IH]; intro H; cbn [map]; constructor.
  - apply H. now left.
  - apply IH. intros v Hv. apply H. now right.
Qed.

(** normalised weights of [c * w] are those of [w] *)
Theorem normalize_weights_scale_invariant c w nw :
  0 < c -> normalize_weights w = Some nw ->
  exists nw', normalize_weights (map (Qmult c) w) = Some nw' /\ Forall2 Qeq nw nw'.
Proof.
  intros Hc H. destruct (normalize_inv w nw H) as (Hnn & Hs & ->).
  destruct (normalize_weights_defined _ (scaled_nonneg c w Hc Hnn) (scaled_sum_pos c w Hc Hs)) as [nw' H'].
  exists nw'. split; [exact H'|].
  destruct (normalize_inv _ nw' H') as (_ & _ & ->). rewrite map_map.
  apply Forall2_map_same. intros v _. cbn beta. rewrite !Qred_correct.
  pose proof (qsum_scale c w) as E. rewrite E. field. split; lra.
Qed.

(** ess (c * w) = ess w for c > 0 (defined on one side iff on the other) *)
Theorem compute_ess_scale_invariant c w e :
  0 < c -> compute_ess w = Some e ->
  exists e', compute_ess (map (Qmult c) w) = Some e' /\ e == e'.
Proof.
  intros Hc H.
  assert (Hn : exists nw, normalize_weights w = Some nw).
  { unfold compute_ess in H. destruct (normalize_weights w) as [nw|]; [eauto|discriminate]. }
  destruct Hn as [nw Hn].
  destruct (normalize_weights_scale_invariant c w nw Hc Hn) as (nw' & Hn' & _).
  assert (He' : exists e', compute_ess (map (Qmult c) w) = Some e').
  { unfold compute_ess. rewrite Hn'. eauto. }
  destruct He' as [e' He']. exists e'. split; [exact He'|].
  rewrite (compute_ess_spec _ _ H), (compute_ess_spec _ _ He').
  fold (spec_ess w). fold (spec_ess (map (Qmult c) w)).
  symmetry. apply spec_ess_scale_invariant. lra.
Qed.

(** the mixture density does not depend on the common scale of the component weights *)
Theorem spec_pdf_scale_invariant c dens w : ~ c == 0 -> spec_pdf dens (map (Qmult c) w) == spec_pdf dens w.
Proof.
  intro Hc. unfold spec_pdf. rewrite combine_map_l, map_map. cbn [fst snd].
  apply qsum_map_eq. intros p _. pose proof (qsum_scale c w) as E. rewrite E.
  destruct (Qeq_dec (qsum w) 0) as [Ez|Hnz].
  - unfold Qdiv. rewrite Ez. assert (E0 : c * 0 == 0) by ring. rewrite E0. change (/ 0) with 0. ring.
  - field. split; assumption.
Qed.

Theorem gm_pdf_scale_invariant c dens w p :
  0 < c -> gm_pdf dens (Some w) = Some p ->
  exists p', gm_pdf dens (Some (map (Qmult c) w)) = Some p' /\ p == p'.
Proof.
  intros Hc H.
  assert (Hn : exists nw, normalize_weights w = Some nw).
  { unfold gm_pdf in H. destruct (normalize_weights w) as [nw|]; [eauto|discriminate]. }
  destruct Hn as [nw Hn].
  destruct (normalize_weights_scale_invariant c w nw Hc Hn) as (nw' & Hn' & _).
  assert (Hp' : exists p', gm_pdf dens (Some (map (Qmult c) w)) = Some p').
  { unfold gm_pdf. rewrite Hn'. eauto. }
  destruct Hp' as [p' Hp']. exists p'. split; [exact Hp'|].
  rewrite (gm_pdf_spec _ _ _ H), (gm_pdf_spec _ _ _ Hp'). unfold weights_of.
  symmetry. apply spec_pdf_scale_invariant. lra.
Qed.

(** ** the decidable statement over representations / common scales ([CWeights]) *)
Lemma all2_map_same {A B} (R : B -> B -> bool) (f g : A -> B) l :
  (forall v, In v l -> R (f v) (g v) = true) -> all2 R (map f l) (map g l) = true.
Proof.
  induction l as [|a l IH]; intro H; cbn [map all2]; [reflexivity|].
  apply andb_true_iff. split; [apply H; now left | apply IH; intros v Hv; apply H; now right].
Qed.

Lemma wf_stat_w_inv w : wf_stat_w w = true -> Forall (Qle 0) w /\ 0 < qsum w.
Proof.
  unfold wf_stat_w. intro H. apply andb_true_iff in H. destruct H as [Hnn Hs]. split.
  - apply Forall_forall. intros v Hv. rewrite forallb_forall in Hnn. apply Qle_bool_iff. now apply Hnn.
  - now apply Qltb_lt.
Qed.

(** the model's answers on [c * w], c > 0, pass the statement made at [w] *)
Theorem norm_ess_model_ok w c tol :
  0 <= tol -> 0 < c -> wf_stat_w w = true ->
  ok_norm_ess w tol (normalize_weights (map (Qmult c) w)) (compute_ess (map (Qmult c) w)) = true.
Proof.
  intros Ht Hc Hwf. destruct (wf_stat_w_inv w Hwf) as [Hnn Hs].
  destruct (normalize_weights_defined _ (scaled_nonneg c w Hc Hnn) (scaled_sum_pos c w Hc Hs)) as [nw' Hn'].
  unfold ok_norm_ess, compute_ess. rewrite Hn'.
  destruct (normalize_weights_spec _ nw' Hn') as (S1 & Nn & _).
  apply andb_true_iff. split; [apply andb_true_iff; split; [apply andb_true_iff; split|]|].
  - apply close_refl; [exact Ht | now symmetry].
  - apply forallb_forall. intros v Hv. apply Qle_bool_iff. rewrite Forall_forall in Nn. now apply Nn.
  - destruct (normalize_inv _ nw' Hn') as (_ & _ & ->). unfold spec_norm. rewrite map_map.
    apply all2_map_same. intros v _. apply close_refl; [exact Ht|].
    rewrite Qred_correct, qsum_scale. field. split; lra.
  - apply close_refl; [exact Ht|]. rewrite <- (spec_ess_scale_invariant c w) by lra.
    symmetry. apply (compute_ess_spec (map (Qmult c) w)). unfold compute_ess. now rewrite Hn'.
Qed.

Definition model_wrun (w : list Q) (st : Q * Q) : wrun :=
  {| w_scale := fst st; w_tol := snd st;
     w_norm := normalize_weights (map (Qmult (fst st)) w); w_ess := compute_ess (map (Qmult (fst st)) w) |}.

Theorem weights_model_ok w (l : list (Q * Q)) :
  Forall (fun st => 0 <= snd st) l -> ok_weights w (map (model_wrun w) l) = true.
Proof.
  intro Hl. unfold ok_weights. destruct (wf_stat_w w) eqn:Hwf; [|reflexivity].
  apply forallb_forall. intros r Hr. apply in_map_iff in Hr. destruct Hr as (st & <- & Hst).
  rewrite Forall_forall in Hl. specialize (Hl st Hst). cbn [model_wrun w_scale w_tol w_norm w_ess].
  destruct (Qltb 0 (fst st)) eqn:Hc; [|reflexivity]. apply Qltb_lt in Hc.
  now apply norm_ess_model_ok.
Qed.

(** soundness: an accepted answer for the weights [c * w] (the numbers the implementation got)
    is, within the run's tolerance, a normalised non-negative vector and the effective sample size
    (sum)^2 / (sum of squares) OF THOSE WEIGHTS *)
Theorem weights_ok_sound w runs r :
  wf_stat_w w = true -> ok_weights w runs = true -> In r runs -> 0 < w_scale r ->
  exists nw e, w_norm r = Some nw /\ w_ess r = Some e /\
    Qabs (1 - qsum nw) <= w_tol r * (1 + Qabs 1) /\ Forall (Qle 0) nw /\
    Qabs (spec_ess (map (Qmult (w_scale r)) w) - e)
      <= w_tol r * (1 + Qabs (spec_ess (map (Qmult (w_scale r)) w))).
Proof.
  intros Hwf H Hr Hc. unfold ok_weights in H. rewrite Hwf in H.
  rewrite forallb_forall in H. specialize (H r Hr).
  apply Qltb_lt in Hc. rewrite Hc in H. apply Qltb_lt in Hc.
  unfold ok_norm_ess in H. apply andb_true_iff in H. destruct H as [Hn He].
  destruct (w_norm r) as [nw|]; [|discriminate]. destruct (w_ess r) as [e|]; [|discriminate].
  apply andb_true_iff in Hn. destruct Hn as [Hn _]. apply andb_true_iff in Hn. destruct Hn as [Hs Hnn].
  exists nw, e. repeat split; auto.
  - now apply close_sound.
  - apply Forall_forall. intros v Hv. rewrite forallb_forall in Hnn. apply Qle_bool_iff. now apply Hnn.
  - rewrite (spec_ess_scale_invariant (w_scale r) w) by lra. now apply close_sound.
Qed.
