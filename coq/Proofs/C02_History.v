(** C02, histories on ONE model object: a seeded [generate] call does not depend on earlier generate
    calls or on earlier edits of the same object beyond the object's CURRENT graph.

    In the model this is structural: [Denote.generate] (compile -> load -> execute) takes the current
    source net, the outputs and the supplied values - there is no state that survives a call, so the
    answer for step k of a history is the answer for the k-th current net, whatever the earlier steps
    were (any interleaving of generate calls with any outputs / seeds and of edits: become, observed
    data, runtime flags, parameter marks, added / removed nodes and edges; consecutive nets of a history
    need not be related at all).  The content is therefore the existing end-to-end theorem
    [generate_insertion_independent] applied to the current net of every step: the call on the edited
    object returns what a freshly built model with the same nodes, edges and observed data (inserted in
    any order) returns - same values, same order of operation calls. *)
From Coq Require Import List String ZArith Arith Bool Permutation.
From Elfi Require Import Graph.Net Graph.Denote Proofs.C03_EndToEnd Proofs.C03_Twins Proofs.C03_ModelOk
     Proofs.C02_Order Proofs.C02_Insertion Proofs.C05_Compose.
From Elfi Require Graph.Determinism.
Import ListNotations.

(** one generate call of a history as the model answers it: (current net of the edited object,
    net of the fresh build, requested outputs) *)
Definition hcall := (snet * snet * list name)%type.

Definition model_step (t : hcall) : Determinism.hstep :=
  let '(src, src', outs) := t in
  {| Determinism.h_src := src; Determinism.h_fresh := src'; Determinism.h_outputs := outs;
     Determinism.h_impl := Determinism.model_result src outs;
     Determinism.h_impl_fresh := Determinism.model_result src' outs |}.

(** the call is well-formed: the current net is a well-formed model, the fresh build is the same
    model, the outputs exist, and neither run raises *)
Definition hcall_wf (t : hcall) : Prop :=
  let '(src, src', outs) := t in
  wfsrc src /\ same_model src src' /\ outputs_wf src outs /\ params_distinct src
  /\ Determinism.model_result src outs <> ImplErr /\ Determinism.model_result src' outs <> ImplErr.

Lemma model_step_ok t : hcall_wf t -> Determinism.step_ok (model_step t) = true.
Proof.
  destruct t as [[src src'] outs]. intros (Hwf & Hsm & Howf & Hpd & H1 & H2).
  unfold Determinism.step_ok, model_step. cbn.
  rewrite (model_result_insertion_independent src src' outs Hwf Hsm Howf Hpd H1 H2). apply impl_eqb_refl.
Qed.

(** every generate call of every history - NO hypothesis relates one step to the next - returns what
    the fresh build of its current net returns *)
Theorem model_history_ok (calls : list hcall) :
  Forall hcall_wf calls -> forallb Determinism.step_ok (map model_step calls) = true.
Proof.
  induction 1 as [|t r Ht _ IH]; [reflexivity|]. cbn [map forallb]. now rewrite (model_step_ok t Ht), IH.
Qed.

(** Prop-level form: the k-th call of a history of current nets returns the values and the call log
    of the fresh build of the k-th net *)
Theorem generate_history_independent (calls : list hcall) :
  Forall hcall_wf calls ->
  forall k src src' outs, nth_error calls k = Some (src, src', outs) ->
    Determinism.model_result src outs = Determinism.model_result src' outs.
Proof.
  intros H k src src' outs Hk. apply nth_error_In in Hk.
  rewrite Forall_forall in H. destruct (H _ Hk) as (Hwf & Hsm & Howf & Hpd & H1 & H2).
  now apply model_result_insertion_independent.
Qed.

(** the full correspondence case: two builds and a history *)
Theorem model_ok_C02_history src src' outs calls :
  wfsrc src -> same_model src src' -> outputs_wf src outs -> params_distinct src ->
  Determinism.model_result src outs <> ImplErr -> Determinism.model_result src' outs <> ImplErr ->
  Forall hcall_wf calls ->
  Determinism.ok {| Determinism.d_src1 := src; Determinism.d_src2 := src'; Determinism.d_outputs := outs;
                    Determinism.d_impl1 := Determinism.model_result src outs;
                    Determinism.d_impl2 := Determinism.model_result src' outs;
                    Determinism.d_hist := map model_step calls |} = true.
Proof.
  intros Hwf Hsm Howf Hpd H1 H2 Hc. unfold Determinism.ok. cbn.
  rewrite (model_result_insertion_independent src src' outs Hwf Hsm Howf Hpd H1 H2), impl_eqb_refl.
  now apply model_history_ok.
Qed.

(** soundness of the decidable clauses: [impl_eqb] is equality of results *)
Lemma outs_eqb_eq : forall a b, outs_eqb a b = true -> a = b.
Proof.
  induction a as [|[n v] r IH]; intros [|[m w] s]; simpl; try discriminate; [reflexivity|].
  intros H. apply andb_true_iff in H. destruct H as [H H3]. apply andb_true_iff in H. destruct H as [H1 H2].
  apply String.eqb_eq in H1. apply net_value_eqb_eq in H2. subst. f_equal. now apply IH.
Qed.

Lemma impl_eqb_eq a b : Determinism.impl_eqb a b = true -> a = b.
Proof.
  destruct a as [|o l], b as [|o' l']; simpl; try discriminate; [reflexivity|].
  intros H. apply andb_true_iff in H. destruct H as [H1 H2].
  apply outs_eqb_eq in H1. apply names_eqb_eq in H2. now subst.
Qed.

Theorem ok_sound_C02 c :
  Determinism.ok c = true ->
  Determinism.d_impl1 c = Determinism.d_impl2 c
  /\ forall s, In s (Determinism.d_hist c) -> Determinism.h_impl s = Determinism.h_impl_fresh s.
Proof.
  unfold Determinism.ok. intros H. apply andb_true_iff in H. destruct H as [H1 H2]. split.
  - now apply impl_eqb_eq.
  - intros s Hs. rewrite forallb_forall in H2. apply impl_eqb_eq. exact (H2 s Hs).
Qed.

(** the hypotheses of a history call through their decidable forms, for concrete nets *)
Lemma hcall_wf_b_sound src src' outs :
  wfsrc_b src = true -> same_model src src' -> outputs_wf_b src outs = true -> params_distinct_b src = true ->
  Determinism.model_result src outs <> ImplErr -> Determinism.model_result src' outs <> ImplErr ->
  hcall_wf (src, src', outs).
Proof.
  intros Hwf Hsm Ho Hp H1 H2. assert (W : wfsrc src) by now apply wfsrc_b_sound.
  unfold hcall_wf. split; [exact W|]. split; [exact Hsm|].
  split; [apply (outputs_wf_b_sound _ _ (wf_nodup _ W)); exact Ho|].
  split; [now apply params_distinct_b_sound|]. split; assumption.
Qed.
