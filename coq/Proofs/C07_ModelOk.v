(** C07: the populations of the model's OWN run, fed back as if they were the implementation's, pass the
    scheduling/population clauses of [Smc.ok] - for every case with at least one round, n_samples >= 1,
    batches of at most batch_size rows, a record of consumed batches that is exactly what the run consumed,
    and whose every round ended with row n_samples of its buffer holding a draw ([full_pops]: by the C01
    invariant, exactly when the round accepted at least n_samples draws - [enough_accepted_full]).
    Hence [agree c = true -> ok c = true] under those hypotheses (the numeric clauses [num_ok] are a
    hypothesis here: [agree] compares them through [num_agree], see C07_model_weight_ok / C07_model_cov_ok).

    [0 < n], [full_pops] and [rounds <> []] are needed: see the examples at the end. *)
From Coq Require Import List ZArith NArith QArith Arith Bool Lia PrimFloat Sorting.Permutation.
From Elfi Require Import Sched.Sched Sched.Reject Sched.Smc Proofs.C01_Sorting Proofs.C01_Reject
     Proofs.C01_OkMeaning Proofs.C01_ModelOk Proofs.C07_Smc.
Import ListNotations.
Local Close Scope Q_scope.

(** the case [c] with the implementation's populations and n_sim replaced by those of the state [s] *)
Definition with_run (c : Smc.case) (s : sstate) : Smc.case :=
  {| v_n := v_n c; v_b := v_b c; v_maxp := v_maxp c; v_rounds := v_rounds c; v_table := v_table c;
     v_pops := all_populations s; v_n_sim := m_total s * v_b c; v_num := v_num c |}.

(** the scheduling / population clauses of [Smc.ok] *)
Definition sched_ok (c : Smc.case) : bool :=
  pops_ok (v_n c) (v_rounds c) (v_pops c)
  && Nat.eqb (v_n_sim c) (fold_right (fun p a => p_n_sim p + a) 0 (v_pops c))
  && Nat.eqb (v_n_sim c) (v_b c * length (v_table c)).

Lemma ok_split c :
  Smc.ok c = sched_ok c && (Nat.eqb (length (v_num c)) (length (v_pops c)) && num_ok (v_n c) (v_num c)).
Proof. unfold Smc.ok, sched_ok. now rewrite <- !andb_assoc. Qed.

(** row n_samples of every population holds a draw *)
Definition row_filled (n : nat) (p : population) : bool :=
  match nth (n - 1) (p_rows p) None with Some _ => true | None => false end.
Definition full_pops (n : nat) (ps : list population) : bool := forallb (row_filled n) ps.

(** what [pops_ok] asks of one population *)
Definition pop_good (n : nat) (r : round_spec) (p : population) : bool :=
  Nat.eqb (length (p_rows p)) n
  && forallb (fun s => match s with Some _ => true | None => false end) (p_rows p)
  && ascending (p_rows p)
  && match round_threshold r with
     | Some t => forallb (fun s => dle (sdisc s) t) (p_rows p)
     | None => true
     end.

Lemma pops_ok_pointwise n d : forall rounds pops,
  length pops = length rounds ->
  (forall r p, nth_error pops r = Some p -> pop_good n (nth r rounds d) p = true) ->
  pops_ok n rounds pops = true.
Proof.
  induction rounds as [|r rr IH]; intros [|p pp] Hl H; simpl in Hl; try discriminate; [reflexivity|].
  assert (H0 := H 0 p eq_refl). unfold pop_good in H0. simpl in H0.
  cbn [pops_ok]. rewrite H0. simpl. apply IH; [lia|].
  intros k q Hk. exact (H (S k) q Hk).
Qed.

(** ---- one population: a rejection round whose row n holds a draw ---- *)
Lemma round_pop_good n b spec p :
  0 < n -> pop_of_round n b spec p -> row_filled n p = true -> pop_good n spec p = true.
Proof.
  intros Hn Hp Hf.
  destruct (smc_population_rows n b spec p Hp) as [Hasc _].
  assert (Hthr : forall t, round_threshold spec = Some t -> forall d, In (Some d) (p_rows p) -> dle (d_disc d) t = true)
    by (intros t Ht; exact (smc_particles_within_threshold n b spec p t Hp Ht)).
  destruct Hp as [rj [consumed [Hr ->]]].
  pose proof (Reach_RInv _ _ _ _ _ Hr) as HI.
  destruct (Reach_consts _ _ _ _ _ Hr) as [A _].
  unfold row_filled, pop_of, extract in Hf. cbn [p_rows res_rows] in Hf. rewrite A in Hf.
  assert (Hbuf : bufof rj = r_buf rj).
  { unfold bufof. destruct (r_buf rj); [|reflexivity]. rewrite firstn_nil in Hf. destruct (n - 1); discriminate. }
  rewrite Hbuf in HI. destruct HI as [Hlen Hsort _].
  rewrite nth_firstn_lt' in Hf by lia.
  assert (Hrows : p_rows (pop_of rj) = firstn n (r_buf rj)) by (unfold pop_of, extract; simpl; now rewrite A).
  assert (Hall : forall s, In s (firstn n (r_buf rj)) -> s <> None).
  { intros s Hs. destruct (firstn_In_nth _ None _ _ Hs) as [j [Hjn [Hjl <-]]].
    apply (sorted_filled_prefix (r_buf rj) Hsort j (n - 1)); try lia.
    destruct (nth (n - 1) (r_buf rj) None); [discriminate | discriminate]. }
  unfold pop_good. rewrite Hasc. rewrite Hrows in Hthr |- *.
  repeat (apply andb_true_iff; split); [| |reflexivity|].
  - apply Nat.eqb_eq. rewrite firstn_length, Hlen. lia.
  - apply forallb_forall. intros [d|] Hs; [reflexivity | exfalso; now apply (Hall None)].
  - destruct (round_threshold spec) as [t|] eqn:Et; [|reflexivity].
    apply forallb_forall. intros [d|] Hs; [|exfalso; now apply (Hall None)].
    simpl. now apply (Hthr t eq_refl).
Qed.

(** the hypothesis in terms of accepted draws: a round that accepted at least n draws has row n filled *)
Lemma enough_accepted_full n b thr rj consumed :
  0 < n -> Reach n b thr rj consumed -> n <= length (filter (accepts thr) consumed) ->
  row_filled n (pop_of rj) = true.
Proof.
  intros Hn Hr Hacc.
  pose proof (Reach_RInv _ _ _ _ _ Hr) as HI.
  destruct (Reach_consts _ _ _ _ _ Hr) as [A _].
  destruct (extract_topn _ _ _ _ HI) as [_ [_ Hfull]]. specialize (Hfull Hacc).
  destruct HI as [Hlen _ _].
  assert (Hbuf : bufof rj = r_buf rj).
  { unfold bufof in *. destruct (r_buf rj) eqn:E; [|reflexivity]. exfalso.
    apply (Hfull None); [|reflexivity]. rewrite A. destruct n; [lia|]. simpl. now left. }
  rewrite Hbuf in *.
  unfold row_filled, pop_of, extract. cbn [p_rows res_rows]. rewrite A.
  destruct (nth (n - 1) (firstn n (r_buf rj)) None) eqn:E; [reflexivity|exfalso].
  apply (Hfull None); [|reflexivity]. rewrite <- E. apply nth_In. rewrite firstn_length. lia.
Qed.

(** ---- the run: it stops finished, in a round that exists ---- *)
Notation smc_seq_run table := (seq_run sstate (list draw) unit sobjective sconsumed (sprepare unit (fun _ _ => tt)) (fun i _ => nth i table []) supdate).

Lemma seq_run_finished table : forall fuel s i sf k,
  smc_seq_run table fuel s i = Some (sf, k) -> sobjective sf <= sconsumed sf.
Proof.
  induction fuel as [|f IH]; intros s i sf k H; cbn [seq_run] in H.
  - destruct (sobjective s <=? sconsumed s) eqn:E; [|discriminate]. inversion H; subst. now apply Nat.leb_le.
  - destruct (sobjective s <=? sconsumed s) eqn:E; [inversion H; subst; now apply Nat.leb_le|].
    eapply IH; exact H.
Qed.

(** the current round exists; a finished sampler of a round that is not the last one is fresh *)
Definition RoundInv (s : sstate) : Prop :=
  m_round s < length (m_rounds s) /\ length (m_pops s) = m_round s /\
  (S (m_round s) < length (m_rounds s) -> r_objective (m_rej s) <= r_nbatches (m_rej s) -> r_buf (m_rej s) = []).

Lemma RoundInv_init n b maxp rounds : rounds <> [] -> RoundInv (sinit n b maxp rounds).
Proof.
  intros Hr. unfold RoundInv, sinit. simpl. split; [destruct rounds; [congruence | simpl; lia]|].
  split; [reflexivity|]. intros _ _.
  destruct (rejection_for_init n b maxp (nth 0 rounds (RThreshold PInf))) as [obj ->]. reflexivity.
Qed.

Lemma RoundInv_step s batch i : RoundInv s -> RoundInv (fst (supdate s batch i)).
Proof.
  intros [A [B C]]. unfold supdate.
  set (rej' := fst (rupdate (m_rej s) batch i)). clearbody rej'.
  destruct (r_objective rej' <=? r_nbatches rej') eqn:E.
  - destruct (S (m_round s) <? length (m_rounds s)) eqn:F; unfold RoundInv; simpl.
    + apply Nat.ltb_lt in F. split; [exact F|]. split; [rewrite app_length; simpl; lia|]. intros _ _.
      destruct (rejection_for_init (m_n s) (m_b s) (m_maxp s) (nth (S (m_round s)) (m_rounds s) (RThreshold PInf))) as [obj ->].
      reflexivity.
    + apply Nat.ltb_ge in F. split; [exact A|]. split; [exact B|]. intros H. lia.
  - apply Nat.leb_gt in E. unfold RoundInv. simpl. split; [exact A|]. split; [exact B|]. intros _ H. lia.
Qed.

(** ---- the theorem: scheduling / population clauses ---- *)
Theorem model_sched_ok : forall c s,
  v_rounds c <> [] ->
  0 < v_n c ->
  Forall (fun batch => length batch <= v_b c) (v_table c) ->
  model_run c = Some s ->
  m_total s = length (v_table c) ->
  full_pops (v_n c) (all_populations s) = true ->
  sched_ok (with_run c s) = true.
Proof.
  intros c s Hrounds Hn Htab Hrun Htot Hfull.
  unfold model_run, sseq in Hrun.
  destruct (seq_run _ _ _ _ _ _ _ _ _ _ _) as [[sf k]|] eqn:E; [|discriminate].
  inversion Hrun; subst sf. clear Hrun.
  assert (Hfin := seq_run_finished _ _ _ _ _ _ E).
  assert (HA : Acct s).
  { eapply (seq_run_preserves Acct); [|apply Acct_init|exact E]. intros s0 i Hs. now apply Acct_step. }
  assert (HQ : RoundInv s /\ m_b s = v_b c /\ m_rounds s = v_rounds c).
  { eapply (seq_run_preserves (fun s => RoundInv s /\ m_b s = v_b c /\ m_rounds s = v_rounds c)); [| |exact E].
    - intros s0 i [HR [B C]]. destruct (supdate_consts s0 (nth i (v_table c) []) i) as [_ [F G]].
      split; [now apply RoundInv_step | rewrite F, G; auto].
    - split; [now apply RoundInv_init | simpl; auto]. }
  destruct HQ as [[R1 [R2 R3]] [Hb Hrs]].
  destruct (smc_totals _ _ _ _ _ _ _ _ E) as [_ Hsims]. rewrite Hb in Hsims.
  pose proof (smc_populations _ _ _ _ _ _ _ _ Htab E) as Hpops.
  (* the last population's row n is filled, so the run did not stop in a fresh, non-final round *)
  assert (Hlastfull : row_filled (v_n c) (pop_of (m_rej s)) = true).
  { unfold full_pops in Hfull. rewrite forallb_forall in Hfull. apply Hfull. unfold all_populations.
    apply in_or_app. right. now left. }
  assert (Hlast : length (v_rounds c) <= S (m_round s)).
  { destruct (Nat.lt_ge_cases (S (m_round s)) (length (v_rounds c))) as [Hlt|Hge]; [exfalso|exact Hge].
    rewrite Hrs in R3. destruct HA as [A1 _]. unfold sobjective, sconsumed in Hfin.
    assert (Hb0 : r_buf (m_rej s) = []) by (apply R3; [exact Hlt | lia]).
    unfold row_filled, pop_of, extract in Hlastfull. cbn [p_rows res_rows] in Hlastfull.
    rewrite Hb0, firstn_nil in Hlastfull. destruct (v_n c - 1); discriminate. }
  rewrite Hrs in R1.
  unfold sched_ok, with_run. cbn [v_n v_b v_rounds v_pops v_n_sim v_table].
  apply andb_true_iff. split; [apply andb_true_iff; split|].
  - apply (pops_ok_pointwise _ (RThreshold PInf)).
    + unfold all_populations. rewrite app_length. simpl. lia.
    + intros r p Hp. eapply round_pop_good; [exact Hn | exact (Hpops r p Hp)|].
      unfold full_pops in Hfull. rewrite forallb_forall in Hfull. apply Hfull. eapply nth_error_In; exact Hp.
  - apply Nat.eqb_eq. exact Hsims.
  - apply Nat.eqb_eq. rewrite Htot. apply Nat.mul_comm.
Qed.

(** with the numeric clauses (which do not depend on the scheduling side) as hypotheses: all of [Smc.ok] *)
Theorem model_ok : forall c s,
  v_rounds c <> [] ->
  0 < v_n c ->
  Forall (fun batch => length batch <= v_b c) (v_table c) ->
  model_run c = Some s ->
  m_total s = length (v_table c) ->
  full_pops (v_n c) (all_populations s) = true ->
  length (v_num c) = length (v_rounds c) ->
  num_ok (v_n c) (v_num c) = true ->
  Smc.ok (with_run c s) = true.
Proof.
  intros c s Hrounds Hn Htab Hrun Htot Hfull Hlen Hnum.
  assert (Hs := model_sched_ok c s Hrounds Hn Htab Hrun Htot Hfull).
  rewrite ok_split, Hs.
  change (true && (Nat.eqb (length (v_num c)) (length (all_populations s)) && num_ok (v_n c) (v_num c)) = true).
  rewrite Hnum, andb_true_r. cbn [andb].
  (* the number of populations is the number of rounds *)
  unfold sched_ok in Hs. apply andb_true_iff in Hs. destruct Hs as [Hs _]. apply andb_true_iff in Hs. destruct Hs as [Hs _].
  assert (Hl : forall n rounds pops, pops_ok n rounds pops = true -> length pops = length rounds).
  { induction rounds as [|r rr IH]; intros [|p pp] H; simpl in H; try discriminate; [reflexivity|].
    apply andb_true_iff in H. destruct H as [_ H]. simpl. f_equal. now apply IH. }
  apply Hl in Hs. unfold with_run in Hs. cbn [v_pops v_rounds] in Hs.
  apply Nat.eqb_eq. congruence.
Qed.

(** ---- agreement with the model implies the property ---- *)
Lemma pop_eqb_eq a b : pop_eqb a b = true -> a = b.
Proof.
  unfold pop_eqb. intros H.
  apply andb_true_iff in H. destruct H as [H H4]. apply andb_true_iff in H. destruct H as [H H3].
  apply andb_true_iff in H. destruct H as [H1 H2].
  apply rows_eqb_eq in H1. apply deqb_eq in H2. apply Nat.eqb_eq in H3. apply Nat.eqb_eq in H4.
  destruct a, b. simpl in *. now subst.
Qed.

Lemma pops_eqb_eq : forall a b, pops_eqb a b = true -> a = b.
Proof.
  induction a as [|x r IH]; intros [|y s] H; simpl in H; try discriminate; [reflexivity|].
  apply andb_true_iff in H. destruct H as [H1 H2]. apply pop_eqb_eq in H1. apply IH in H2. now subst.
Qed.

Lemma agree_with_run c :
  Smc.agree c = true -> exists s, model_run c = Some s /\ c = with_run c s.
Proof.
  unfold Smc.agree. destruct (model_run c) as [s|]; [|discriminate]. intros H.
  apply andb_true_iff in H. destruct H as [H _]. apply andb_true_iff in H. destruct H as [H1 H2].
  apply pops_eqb_eq in H1. apply Nat.eqb_eq in H2.
  exists s. split; [reflexivity|]. unfold with_run. rewrite H1, H2. destruct c; reflexivity.
Qed.

Theorem agree_ok : forall c s,
  v_rounds c <> [] ->
  0 < v_n c ->
  Forall (fun batch => length batch <= v_b c) (v_table c) ->
  model_run c = Some s ->
  m_total s = length (v_table c) ->
  full_pops (v_n c) (all_populations s) = true ->
  length (v_num c) = length (v_rounds c) ->
  num_ok (v_n c) (v_num c) = true ->
  Smc.agree c = true -> Smc.ok c = true.
Proof.
  intros c s Hrounds Hn Htab Hrun Htot Hfull Hlen Hnum Hag.
  destruct (agree_with_run c Hag) as [s' [Hrun' Hc]].
  assert (s' = s) by congruence. subst s'.
  rewrite Hc. now apply model_ok.
Qed.

(** the same with the hypotheses read off the implementation's own answer (no mention of the model's state) *)
Corollary agree_sched_ok : forall c,
  v_rounds c <> [] ->
  0 < v_n c ->
  Forall (fun batch => length batch <= v_b c) (v_table c) ->
  v_n_sim c = v_b c * length (v_table c) -> 0 < v_b c ->
  full_pops (v_n c) (v_pops c) = true ->
  Smc.agree c = true -> sched_ok c = true.
Proof.
  intros c Hrounds Hn Htab Hsim Hb Hfull Hag.
  destruct (agree_with_run c Hag) as [s [Hrun Hc]].
  assert (Hp : v_pops c = all_populations s) by (rewrite Hc at 1; reflexivity).
  assert (Hs : v_n_sim c = m_total s * v_b c) by (rewrite Hc at 1; reflexivity).
  rewrite Hc. apply model_sched_ok; try assumption; [|now rewrite <- Hp].
  rewrite Hs in Hsim. nia.
Qed.

(** ---- a concrete run, and the hypotheses are needed ---- *)
Definition mo_d (z : Z) (c : N) : draw := {| d_disc := Fin z; d_code := c |}.
Definition mo_case (n b maxp : nat) (rounds : list round_spec) (t : list (list draw)) : Smc.case :=
  {| v_n := n; v_b := b; v_maxp := maxp; v_rounds := rounds; v_table := t; v_pops := []; v_n_sim := 0; v_num := [] |}.

(** two rounds (thresholds 3 then 1), population size 2, batch size 2: all hypotheses hold *)
Definition mo_ex : Smc.case :=
  mo_case 2 2 1 [RThreshold (Fin 3); RThreshold (Fin 1)]
          [[mo_d 2 0; mo_d 5 1]; [mo_d 3 2; mo_d 4 3]; [mo_d 1 4; mo_d 2 5]; [mo_d 0 6; mo_d 1 7]].

Example model_sched_ok_example :
  match model_run mo_ex with
  | Some s => Nat.eqb (m_total s) (length (v_table mo_ex)) && full_pops (v_n mo_ex) (all_populations s)
              && Nat.eqb (length (all_populations s)) 2 && sched_ok (with_run mo_ex s)
  | None => false
  end = true.
Proof. vm_compute. reflexivity. Qed.

(** a round that ends with fewer than n_samples accepted draws (a quantile-0 round with a budget of one batch of
    2 < 3 = n_samples): the model returns a row that holds no draw, which [pops_ok] refuses *)
Example model_ok_needs_full_pops :
  let c := mo_case 3 2 1 [RQuantile0 2%float] [[mo_d 2 0; mo_d 5 1]] in
  match model_run c with
  | Some s => Nat.eqb (m_total s) (length (v_table c)) && negb (full_pops (v_n c) (all_populations s))
              && negb (sched_ok (with_run c s))
  | None => false
  end = true.
Proof. vm_compute. reflexivity. Qed.

(** max_parallel_batches = 0 as the initial guess of a threshold round: the model's run stops at once with
    one empty population for two rounds *)
Example model_ok_needs_full_pops_rounds :
  let c := mo_case 2 2 0 [RThreshold (Fin 3); RThreshold (Fin 1)] [] in
  match model_run c with
  | Some s => Nat.eqb (m_total s) (length (v_table c)) && Nat.eqb (length (all_populations s)) 1
              && negb (full_pops (v_n c) (all_populations s)) && negb (sched_ok (with_run c s))
  | None => false
  end = true.
Proof. vm_compute. reflexivity. Qed.

(** no round at all: the model still returns one population *)
Example model_ok_needs_rounds :
  let c := mo_case 1 1 1 [] [[mo_d 2 0]] in
  match model_run c with
  | Some s => Nat.eqb (m_total s) (length (v_table c)) && full_pops (v_n c) (all_populations s)
              && negb (sched_ok (with_run c s))
  | None => false
  end = true.
Proof. vm_compute. reflexivity. Qed.
