(** C14: copies are independent.  The edit model (Graph/Edit.v) has value semantics: an operation
    on the live model [i] leaves every other live model [j] exactly as it was, a copy (or a reloaded
    model) is appended with the value of its source, and so a copy keeps that value whatever is
    done to the original afterwards, and vice versa -- for every operation of the model, the in-place
    node-state writes ([ESetFlag]) included, along every script. *)
From Coq Require Import List String ZArith Arith Bool Lia.
From Elfi Require Import Graph.Net Graph.Edit.
Import ListNotations.

Lemma nth_error_set_nth_other {A} : forall (l : list A) i j a, i <> j -> nth_error (set_nth i a l) j = nth_error l j.
Proof.
  induction l as [|x r IH]; intros i j a Hij; simpl; [destruct i; reflexivity|].
  destruct i as [|i]; destruct j as [|j]; simpl; try reflexivity; [congruence|].
  apply IH. congruence.
Qed.

Lemma length_set_nth {A} : forall (l : list A) i a, List.length (set_nth i a l) = List.length l.
Proof. induction l as [|x r IH]; intros i a; simpl; [destruct i; reflexivity|]. destruct i; simpl; auto. Qed.

Lemma nth_error_set_nth_same {A} : forall (l : list A) i a, i < List.length l -> nth_error (set_nth i a l) i = Some a.
Proof.
  induction l as [|x r IH]; intros i a Hi; simpl in *; [lia|].
  destruct i; simpl; [reflexivity|]. apply IH. lia.
Qed.

(** the operations that write to the live model [j]: every operation addressed to it except taking
    a copy / saving it *)
Definition writes_to (o : eop) (j : nat) : bool :=
  match o with
  | ECopy _ | ESaveLoad _ => false
  | _ => Nat.eqb (handle_of o) j
  end.

(** a copy / a reload appends the value of its source and changes nothing else *)
Theorem step_copy ms o ms' :
  step ms o = Ok ms' -> (exists h, o = ECopy h \/ o = ESaveLoad h) ->
  exists m, nth_error ms (handle_of o) = Some m /\ ms' = ms ++ [m].
Proof.
  intros H [h [-> | ->]]; unfold step in H; simpl in *;
    (destruct (nth_error ms h) as [m|]; [|discriminate]); simpl in H; inversion H; exists m; auto.
Qed.

(** one step: live models are never dropped, and every model the operation does not write to keeps
    its value *)
Theorem step_frame ms o ms' j :
  step ms o = Ok ms' -> writes_to o j = false -> j < List.length ms ->
  nth_error ms' j = nth_error ms j /\ List.length ms <= List.length ms'.
Proof.
  intros H Hw Hj. unfold step in H.
  destruct (nth_error ms (handle_of o)) as [m|] eqn:En; [|discriminate].
  destruct (step_model m o) as [m'|] eqn:Em; simpl in H; [|discriminate].
  assert (Happ : forall x, nth_error (ms ++ [x]) j = nth_error ms j /\ List.length ms <= List.length (ms ++ [x])).
  { intros x. split; [now apply nth_error_app1 | rewrite app_length; lia]. }
  assert (Hset : forall h x, Nat.eqb h j = false ->
             nth_error (set_nth h x ms) j = nth_error ms j /\ List.length ms <= List.length (set_nth h x ms)).
  { intros h x Hh. apply Nat.eqb_neq in Hh. split; [now apply nth_error_set_nth_other | rewrite length_set_nth; lia]. }
  destruct o; simpl in Hw; inversion H; subst; try (apply Hset; exact Hw); apply Happ.
Qed.

(** ... and the written model becomes what the single-model step function says *)
Theorem step_written ms o ms' :
  step ms o = Ok ms' -> writes_to o (handle_of o) = true ->
  exists m m', nth_error ms (handle_of o) = Some m /\ step_model m o = Ok m'
               /\ nth_error ms' (handle_of o) = Some m' /\ List.length ms' = List.length ms.
Proof.
  intros H Hw. unfold step in H.
  destruct (nth_error ms (handle_of o)) as [m|] eqn:En; [|discriminate].
  destruct (step_model m o) as [m'|] eqn:Em; simpl in H; [|discriminate].
  assert (Hlt : handle_of o < List.length ms) by (apply nth_error_Some; congruence).
  exists m, m'. split; [reflexivity|]. split; [exact Em|].
  destruct o; simpl in Hw; try discriminate; inversion H; subst; simpl in *;
    (split; [now apply nth_error_set_nth_same | apply length_set_nth]).
Qed.

(** along a whole script: a live model that no operation writes to keeps its value, whatever is
    done to all the other live models (in particular to the model it was copied from, or to its
    copies) *)
Theorem run_frame : forall ops ms ms' j,
  run ms ops = Ok ms' -> j < List.length ms ->
  forallb (fun o => negb (writes_to o j)) ops = true ->
  nth_error ms' j = nth_error ms j.
Proof.
  induction ops as [|o r IH]; intros ms ms' j H Hj Hw; simpl in H.
  - inversion H; reflexivity.
  - destruct (step ms o) as [ms1|] eqn:Es; simpl in H; [|discriminate].
    simpl in Hw. apply andb_true_iff in Hw. destruct Hw as [Hw1 Hw2]. apply negb_true_iff in Hw1.
    destruct (step_frame _ _ _ _ Es Hw1 Hj) as [Heq Hlen].
    rewrite <- Heq. apply IH; [exact H | lia | exact Hw2].
Qed.

(** Copy independence: take a copy (or save and reload) of the live model [h]; afterwards run ANY
    script.  If the script does not write to the copy, the copy still has the value the original
    had when the copy was taken, whatever was done to the original; if it does not write to the
    original, the original is unchanged whatever was done to the copy. *)
Theorem copy_independent ms o ms1 ops ms2 m :
  (exists h, o = ECopy h \/ o = ESaveLoad h) ->
  step ms o = Ok ms1 -> nth_error ms (handle_of o) = Some m -> run ms1 ops = Ok ms2 ->
  (forallb (fun x => negb (writes_to x (List.length ms))) ops = true -> nth_error ms2 (List.length ms) = Some m)
  /\ (forallb (fun x => negb (writes_to x (handle_of o))) ops = true -> nth_error ms2 (handle_of o) = Some m).
Proof.
  intros Ho Hs Hm Hr. destruct (step_copy _ _ _ Hs Ho) as [m0 [Hm0 ->]].
  rewrite Hm in Hm0. inversion Hm0; subst m0. clear Hm0.
  assert (Hlt : handle_of o < List.length ms) by (apply nth_error_Some; congruence).
  split; intros Hw.
  - rewrite (run_frame _ _ _ _ Hr); [| rewrite app_length; simpl; lia | exact Hw].
    rewrite nth_error_app2 by lia. rewrite Nat.sub_diag. reflexivity.
  - rewrite (run_frame _ _ _ _ Hr); [| rewrite app_length; simpl; lia | exact Hw].
    rewrite nth_error_app1 by exact Hlt. exact Hm.
Qed.
