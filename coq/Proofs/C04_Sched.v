(** Proofs for C04: for every readiness oracle and every max_parallel_batches >= 1 the scheduler
    consumes batches 0,1,2,... exactly as the sequential specification does. *)
From Coq Require Import List Arith Bool Lia.
From Elfi Require Import Sched.Sched.
Import ListNotations.

Lemma chk_run_app maxp tr1 : forall c tr2,
  chk_run maxp c (tr1 ++ tr2) = match chk_run maxp c tr1 with Some c' => chk_run maxp c' tr2 | None => None end.
Proof.
  induction tr1 as [|e r IH]; intros c tr2; simpl; [reflexivity|].
  destruct (chk_step maxp c e); [apply IH | reflexivity].
Qed.

Section Proofs.
  Variables S R P : Type.
  Variable objective : S -> nat.
  Variable consumed : S -> nat.
  Variable prepare : S -> nat -> P.
  Variable compute : nat -> P -> R.
  Variable update : S -> R -> nat -> S * bool.

  (** the values supplied to a batch do not depend on when, within a round, it was submitted *)
  Hypothesis prepare_stable :
    forall s r i, snd (update s r i) = false -> forall j, prepare (fst (update s r i)) j = prepare s j.

  Notation sched := (sched S P).
  Notation submit := (submit S P prepare).
  Notation submit_loop := (submit_loop S P objective consumed prepare).
  Notation cancel_pending := (cancel_pending S P).
  Notation iterate := (iterate S R P objective consumed prepare compute update).
  Notation infer := (infer S R P objective consumed prepare compute update).
  Notation seq_run := (seq_run S R P objective consumed prepare compute update).
  Notation finished := (finished S P objective consumed).

  Definition idxs (l : list (nat * P)) : list nat := map fst l.

  (** pending batches are the contiguous indices from [c], each with the values prepared for it *)
  Fixpoint pend_ok (s : S) (c : nat) (l : list (nat * P)) : Prop :=
    match l with
    | [] => True
    | (i, p) :: r => i = c /\ p = prepare s c /\ pend_ok s (Datatypes.S c) r
    end.

  Record Inv (maxp : nat) (s : sched) (c : nat) : Prop := {
    inv_next : next s = c + length (pending s);
    inv_pend : pend_ok (st s) c (pending s);
    inv_max : length (pending s) <= maxp
  }.

  Lemma pend_ok_app s : forall l c,
    pend_ok s c l -> pend_ok s c (l ++ [(c + length l, prepare s (c + length l))]).
  Proof.
    induction l as [|[i p] r IH]; intros c H; simpl.
    - rewrite Nat.add_0_r. auto.
    - destruct H as [H1 [H2 H3]]. repeat split; auto.
      replace (c + Datatypes.S (length r)) with (Datatypes.S c + length r) by lia. now apply IH.
  Qed.

  Lemma pend_ok_ext a b : (forall j, prepare a j = prepare b j) ->
    forall l c, pend_ok b c l -> pend_ok a c l.
  Proof.
    intros Hab. induction l as [|[i p] r IH]; intros c H; simpl; auto.
    destruct H as [H1 [H2 H3]]. repeat split; auto. now rewrite Hab.
  Qed.

  Lemma pend_ok_idxs s : forall l c, pend_ok s c l -> idxs l = seq c (length l).
  Proof.
    induction l as [|[i p] r IH]; intros c H; simpl; [reflexivity|].
    destruct H as [H1 [H2 H3]]. subst i. f_equal. now apply IH.
  Qed.

  Lemma idxs_app l1 l2 : idxs (l1 ++ l2) = idxs l1 ++ idxs l2.
  Proof. unfold idxs. apply map_app. Qed.

  (** ---- the submit loop ---- *)
  Lemma submit_loop_inv maxp : forall fuel s orc tr c s1 orc1 tr1,
    Inv maxp s c -> chk_run maxp (0, []) tr = Some (c, idxs (pending s)) ->
    submit_loop fuel maxp s orc tr = (s1, orc1, tr1) ->
    Inv maxp s1 c /\ st s1 = st s /\ chk_run maxp (0, []) tr1 = Some (c, idxs (pending s1)) /\
    (pending s <> [] -> pending s1 <> []) /\
    (1 <= fuel -> 1 <= maxp -> finished s = false -> pending s1 <> []).
  Proof.
    induction fuel as [|f IH]; intros s orc tr c s1 orc1 tr1 HI Hc H.
    - simpl in H. inversion H; subst. split; [exact HI|]. split; [reflexivity|]. split; [exact Hc|]. split; [auto|].
      intros Hf. exfalso. lia.
    - destruct s as [sst snx spd]. destruct HI as [A B C]. simpl in A, B, C, Hc.
      cbn [Sched.submit_loop Sched.pending Sched.st Sched.next] in H.
      destruct ((length spd <? maxp) && (consumed sst + length spd <? objective sst)) eqn:Econd.
      + apply andb_true_iff in Econd. destruct Econd as [E1 E2]. apply Nat.ltb_lt in E1, E2.
        set (s' := submit {| st := sst; next := snx; pending := spd |}) in *.
        assert (HIs : Inv maxp s' c).
        { constructor; simpl.
          - rewrite app_length. simpl. lia.
          - rewrite A. now apply pend_ok_app.
          - rewrite app_length. simpl. lia. }
        assert (Hne : pending s' <> []) by (simpl; intros Hx; apply app_eq_nil in Hx; destruct Hx; discriminate).
        assert (Hst' : st s' = sst) by reflexivity.
        assert (Hidx : idxs (pending s') = idxs spd ++ [snx]) by (simpl; rewrite idxs_app; reflexivity).
        assert (Hsub : chk_step maxp (c, idxs spd) (ESubmit snx) = Some (c, idxs (pending s'))).
        { rewrite Hidx. unfold chk_step, idxs. rewrite map_length, A, Nat.eqb_refl.
          assert (Hlt : length spd <? maxp = true) by now apply Nat.ltb_lt.
          rewrite Hlt. reflexivity. }
        destruct spd as [|[i p] rest].
        * assert (Hc' : chk_run maxp (0, []) (tr ++ [ESubmit snx]) = Some (c, idxs (pending s'))).
          { rewrite chk_run_app, Hc. cbn [chk_run]. now rewrite Hsub. }
          destruct (IH _ _ _ _ _ _ _ HIs Hc' H) as [A1 [B1 [C1 [D1 E']]]].
          split; [exact A1|]. split; [now rewrite B1|]. split; [exact C1|]. split; [intros _; now apply D1|].
          intros _ _ _. now apply D1.
        * destruct (pop orc) as [ans orc'] eqn:Epop.
          simpl in B. destruct B as [Hi [Hp Hrest]]. subst i.
          destruct ans.
          -- inversion H; subst s1 orc1 tr1.
             split; [constructor; simpl; auto|]. split; [reflexivity|].
             split; [rewrite chk_run_app, Hc; simpl; now rewrite Nat.eqb_refl|].
             split; [intros _; discriminate | intros _ _ _; discriminate].
          -- assert (Hc' : chk_run maxp (0, []) (tr ++ [EAsk c false; ESubmit snx]) = Some (c, idxs (pending s'))).
             { rewrite chk_run_app, Hc. cbn [chk_run]. cbn [chk_step idxs map fst]. rewrite Nat.eqb_refl.
               change (c :: map fst rest) with (idxs ((c, p) :: rest)). now rewrite Hsub. }
             destruct (IH _ _ _ _ _ _ _ HIs Hc' H) as [A1 [B1 [C1 [D1 E']]]].
             split; [exact A1|]. split; [now rewrite B1|]. split; [exact C1|]. split; [intros _; now apply D1|].
             intros _ _ _. now apply D1.
      + inversion H; subst.
        split; [constructor; simpl; auto|]. split; [reflexivity|]. split; [exact Hc|]. split; [auto|].
        intros Hf Hm Hfin. simpl.
        destruct spd as [|x r]; [|discriminate]. exfalso.
        apply andb_false_iff in Econd. unfold Sched.finished in Hfin. simpl in Hfin. apply Nat.leb_gt in Hfin.
        simpl in Econd. destruct Econd as [E|E]; apply Nat.ltb_ge in E; lia.
  Qed.

  (** ---- cancelling a contiguous block of pending batches ---- *)
  Lemma cancel_contig maxp : forall (rest : list (nat * P)) c tr k pre,
    idxs rest = seq c (length rest) ->
    chk_run maxp (0, []) tr = Some (k, pre ++ idxs rest) ->
    exists tr', cancel_rev P (rev rest) (c + length rest) tr = Some (c, tr') /\
                chk_run maxp (0, []) tr' = Some (k, pre).
  Proof.
    induction rest as [|[i p] r IH] using rev_ind; intros c tr k pre Hs Hc.
    - simpl. rewrite Nat.add_0_r. exists tr. split; [reflexivity|]. simpl in Hc. now rewrite app_nil_r in Hc.
    - rewrite rev_app_distr. simpl. rewrite app_length in *. simpl in *.
      rewrite idxs_app in Hs, Hc. simpl in Hs, Hc.
      replace (length r + 1) with (Datatypes.S (length r)) in * by lia.
      rewrite seq_S in Hs. apply app_inj_tail in Hs. destruct Hs as [Hs Hi]. subst i.
      replace (c + Datatypes.S (length r)) with (Datatypes.S (c + length r)) by lia.
      rewrite Nat.eqb_refl.
      destruct (IH c (tr ++ [ECancel (c + length r)]) k pre Hs) as [tr' [A B]].
      + rewrite chk_run_app, Hc. simpl. rewrite app_assoc, rev_app_distr. simpl. rewrite Nat.eqb_refl.
        now rewrite rev_involutive.
      + exists tr'. auto.
  Qed.

  (** ---- one iteration simulates one sequential step ---- *)
  Lemma iterate_sim maxp s orc tr c :
    1 <= maxp -> Inv maxp s c -> chk_run maxp (0, []) tr = Some (c, idxs (pending s)) ->
    finished s = false ->
    exists s' orc' tr',
      iterate maxp s orc tr = inl (s', orc', tr') /\
      Inv maxp s' (Datatypes.S c) /\
      chk_run maxp (0, []) tr' = Some (Datatypes.S c, idxs (pending s')) /\
      st s' = fst (update (st s) (compute c (prepare (st s) c)) c).
  Proof.
    intros Hm HI Hc Hfin. unfold Sched.iterate.
    destruct (submit_loop maxp maxp s orc tr) as [[s1 orc1] tr1] eqn:Es.
    destruct (submit_loop_inv maxp _ _ _ _ _ _ _ _ HI Hc Es) as [HI1 [Hst [Hc1 [_ Hne]]]].
    specialize (Hne Hm Hm Hfin).
    destruct (pending s1) as [|[i p] rest] eqn:Ep; [congruence|].
    destruct HI1 as [A B C]. rewrite Ep in A, B, C. simpl in A, B, C. destruct B as [Hi [Hp Hrest]]. subst i p.
    rewrite Hst in *.
    destruct (update (st s) (compute c (prepare (st s) c)) c) as [st' cancel] eqn:Eu.
    assert (Hget : chk_run maxp (0, []) (tr1 ++ [EGet c]) = Some (Datatypes.S c, idxs rest)).
    { rewrite chk_run_app, Hc1. simpl. now rewrite Nat.eqb_refl. }
    destruct cancel.
    - (* the update cancelled the pending batches *)
      unfold Sched.cancel_pending. simpl.
      pose proof (pend_ok_idxs _ _ _ Hrest) as Hseq.
      destruct (cancel_contig maxp rest (Datatypes.S c) (tr1 ++ [EGet c]) (Datatypes.S c) [] Hseq Hget) as [tr' [Hcr Hck]].
      replace (next s1) with (Datatypes.S c + length rest) by lia.
      rewrite Hcr. eexists _, _, _. split; [reflexivity|]. split; [|split; [exact Hck | reflexivity]].
      constructor; simpl; auto; lia.
    - eexists _, _, _. split; [reflexivity|]. split; [|split; [exact Hget | reflexivity]].
      constructor; simpl; [lia | | lia].
      eapply pend_ok_ext; [|exact Hrest]. intros j.
      pose proof (prepare_stable (st s) (compute c (prepare (st s) c)) c) as Hps. rewrite Eu in Hps. simpl in Hps.
      now apply Hps.
  Qed.

  (** ---- the whole inference ---- *)
  Theorem infer_refines_sequential maxp : forall fuel s orc tr c sf cf,
    1 <= maxp -> Inv maxp s c -> chk_run maxp (0, []) tr = Some (c, idxs (pending s)) ->
    seq_run fuel (st s) c = Some (sf, cf) ->
    exists s' tr',
      infer fuel maxp s orc tr = inl (s', tr') /\ st s' = sf /\ next s' = cf /\ pending s' = [] /\
      chk_run maxp (0, []) tr' = Some (cf, []).
  Proof.
    induction fuel as [|f IH]; intros s orc tr c sf cf Hm HI Hc Hseq.
    - simpl in *. unfold Sched.finished.
      destruct (objective (st s) <=? consumed (st s)) eqn:Ef; [|discriminate]. inversion Hseq; subst.
      unfold Sched.cancel_pending.
      destruct HI as [A B C]. pose proof (pend_ok_idxs _ _ _ B) as Hs.
      destruct (cancel_contig maxp (pending s) cf tr cf [] Hs Hc) as [tr' [H1 H2]].
      rewrite A, H1. eexists _, _. repeat split; eauto.
    - simpl in Hseq. simpl. unfold Sched.finished.
      destruct (objective (st s) <=? consumed (st s)) eqn:Ef.
      + inversion Hseq; subst. unfold Sched.cancel_pending.
        destruct HI as [A B C]. pose proof (pend_ok_idxs _ _ _ B) as Hs.
        destruct (cancel_contig maxp (pending s) cf tr cf [] Hs Hc) as [tr' [H1 H2]].
        rewrite A, H1. eexists _, _. repeat split; eauto.
      + destruct (iterate_sim maxp s orc tr c Hm HI Hc) as [s1 [orc1 [tr1 [Hit [HI1 [Hc1 Hst1]]]]]].
        { unfold Sched.finished. exact Ef. }
        rewrite Hit. rewrite <- Hst1 in Hseq. eapply IH; eauto.
  Qed.

  Theorem infer_out_of_fuel maxp : forall fuel s orc tr c,
    1 <= maxp -> Inv maxp s c -> chk_run maxp (0, []) tr = Some (c, idxs (pending s)) ->
    seq_run fuel (st s) c = None -> infer fuel maxp s orc tr = inr EOutOfFuel.
  Proof.
    induction fuel as [|f IH]; intros s orc tr c Hm HI Hc Hseq; simpl in *; unfold Sched.finished.
    - destruct (objective (st s) <=? consumed (st s)); [discriminate | reflexivity].
    - destruct (objective (st s) <=? consumed (st s)) eqn:Ef; [discriminate|].
      destruct (iterate_sim maxp s orc tr c Hm HI Hc) as [s1 [orc1 [tr1 [Hit [HI1 [Hc1 Hst1]]]]]].
      { unfold Sched.finished. exact Ef. }
      rewrite Hit. rewrite <- Hst1 in Hseq. eapply IH; eauto.
  Qed.

  (** pending never exceeds max_parallel_batches, in every state the inference passes through *)
  Lemma Inv_initial maxp s0 : Inv maxp {| st := s0; next := 0; pending := [] |} 0.
  Proof. constructor; simpl; auto; lia. Qed.

  (** Results do not depend on scheduling: for every oracle and every max_parallel >= 1 the
      inference ends in the state of the sequential run, with nothing pending, and its event
      trace is a complete well-formed trace consuming exactly the same number of batches. *)
  Theorem schedule_independent maxp fuel s0 orc sf n :
    1 <= maxp ->
    seq_run fuel s0 0 = Some (sf, n) ->
    exists s' tr',
      infer fuel maxp {| st := s0; next := 0; pending := [] |} orc [] = inl (s', tr') /\
      st s' = sf /\ pending s' = [] /\ next s' = n /\ trace_ok maxp tr' = Some n.
  Proof.
    intros Hm Hseq.
    destruct (infer_refines_sequential maxp fuel {| st := s0; next := 0; pending := [] |} orc [] 0 sf n Hm
                (Inv_initial maxp s0) eq_refl Hseq) as [s' [tr' [A [B [C [D E]]]]]].
    exists s', tr'. repeat split; auto. unfold trace_ok. now rewrite E.
  Qed.
End Proofs.
