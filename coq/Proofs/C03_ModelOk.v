(** C03: the model's own output satisfies the decidable property [Denote.ok].

    For every well-formed source net, every requested output that is a node or the twin of an
    observable / observed-using node and every supplied [with_values], whatever
    [Net.generate] returns passes the check [Denote.ok]: the observed data does not depend on a
    stochastic node, every returned value is the user-level meaning [den_name], the returned names
    are the sorted distinct outputs, and the operations that ran are exactly [needed_ops] (as a
    multiset of operation names).  Hence agreement of the implementation with the model
    ([Denote.agree]) alone implies the property on the agreed cases. *)
From Coq Require Import List String Ascii ZArith Arith Bool Lia Permutation.
From Elfi Require Import Base.StrOrder Graph.Net Graph.Denote Proofs.C03_Exec Proofs.C03_Compile Proofs.C03_Ancestors
     Proofs.C02_Order Proofs.C05_Pool Proofs.C05_Cache Proofs.C03_EndToEnd Proofs.C03_Twins.
Import ListNotations.

(** ---- reachability: [ancestors_incl] is exactly "reaches a root" ---- *)
Lemma reach_closed es acc x r : closed es acc -> reach es x r -> In r acc -> In x acc.
Proof.
  intros Hc H. induction H as [n | u v w p He Hr IH]; intros Hin; [exact Hin|].
  apply (Hc (u, v, p) He). apply IH. exact Hin.
Qed.

Theorem ancestors_incl_iff es roots x : In x (ancestors_incl es roots) <-> reaches_root es roots x.
Proof.
  split; [apply ancestors_incl_sound|]. intros [r [Hr Hreach]].
  destruct (ancestors_incl_complete es roots) as [Hroots Hcl].
  eapply reach_closed; eauto.
Qed.

Lemma reach_incl es es' x y : (forall e, In e es -> In e es') -> reach es x y -> reach es' x y.
Proof.
  intros Hsub H. induction H as [n | u v w p He Hr IH]; [constructor|].
  eapply reach_step; [apply Hsub; exact He | exact IH].
Qed.

Lemma reach_inv es x r : reach es x r -> x = r \/ exists v p, In (x, v, p) es.
Proof. intros H. destruct H as [n | u v w p He _]; [now left | right; eauto]. Qed.

(** the ancestor set depends on the edge SET only *)
Corollary ancestors_incl_ext es es' roots x :
  (forall e, In e es <-> In e es') -> In x (ancestors_incl es roots) <-> In x (ancestors_incl es' roots).
Proof.
  intros H. rewrite !ancestors_incl_iff. unfold reaches_root.
  split; intros [r [Hr Hx]]; exists r; (split; [exact Hr|]); eapply reach_incl; try exact Hx; intros e; apply H.
Qed.

(** the root stays first *)
Lemma anc_f_head r a e : exists t, anc_f (r :: a) e = r :: t.
Proof. unfold anc_f. destruct (_ && _); simpl; eauto. Qed.

Lemma anc_fold_head r : forall l a, exists t, fold_left anc_f l (r :: a) = r :: t.
Proof.
  induction l as [|e l IH]; intros a; cbn [fold_left]; [eauto|].
  destruct (anc_f_head r a e) as [t ->]. apply IH.
Qed.

Lemma anc_iter_head es r : forall fuel a, exists t, anc_iter fuel es (r :: a) = r :: t.
Proof.
  induction fuel as [|f IH]; intros a; cbn [anc_iter]; [eauto|].
  destruct (Nat.eqb _ _); [eauto|]. rewrite anc_step_fold.
  destruct (anc_fold_head r es a) as [t ->]. apply IH.
Qed.

Lemma ancestors_incl_head es r : exists t, ancestors_incl es [r] = r :: t.
Proof. unfold ancestors_incl. cbn [dedup_names mem existsb]. apply anc_iter_head. Qed.

(** the ancestor list is duplicate-free *)
Lemma dedup_names_NoDup l : NoDup (dedup_names l).
Proof.
  induction l as [|a l IH]; simpl; [constructor|]. destruct (mem a l) eqn:E; [exact IH|].
  constructor; [|exact IH]. intros H. apply dedup_names_In in H. apply mem_In in H. congruence.
Qed.

Lemma anc_f_NoDup a e : NoDup a -> NoDup (anc_f a e).
Proof.
  intros H. unfold anc_f. destruct (mem (e_dst e) a && negb (mem (e_src e) a)) eqn:E; [|exact H].
  apply andb_true_iff in E. destruct E as [_ E]. apply negb_true_iff in E.
  apply NoDup_app_snoc; [exact H|]. intros Hin. apply mem_In in Hin. congruence.
Qed.

Lemma anc_fold_NoDup : forall l a, NoDup a -> NoDup (fold_left anc_f l a).
Proof. induction l as [|e l IH]; intros a H; simpl; [exact H|]. apply IH. now apply anc_f_NoDup. Qed.

Lemma anc_iter_NoDup es : forall fuel a, NoDup a -> NoDup (anc_iter fuel es a).
Proof.
  induction fuel as [|f IH]; intros a H; cbn [anc_iter]; [exact H|].
  destruct (Nat.eqb _ _); [exact H|]. apply IH. rewrite anc_step_fold. now apply anc_fold_NoDup.
Qed.

Lemma ancestors_incl_NoDup es roots : NoDup (ancestors_incl es roots).
Proof. unfold ancestors_incl. apply anc_iter_NoDup. apply dedup_names_NoDup. Qed.

(** ---- the name-sorted topological order visits every node ---- *)
Lemma dfs_complete fuel es : forall fringe seen explored order seen' explored' order',
  (forall x, In x explored -> In x order) ->
  dfs fuel es fringe seen explored order = Ok (seen', explored', order') ->
  (forall x, In x explored' -> In x order') /\ (forall x, In x explored -> In x explored')
  /\ (forall x, In x fringe -> In x explored').
Proof.
  induction fuel as [|f IH]; intros fringe seen explored order seen' explored' order' Hsub H.
  - destruct fringe; simpl in H; [|discriminate]. inversion H; subst. repeat split; auto. intros x [].
  - destruct fringe as [|w rest]; simpl in H.
    { inversion H; subst. repeat split; auto. intros x []. }
    destruct (mem w explored) eqn:Ew.
    + destruct (IH _ _ _ _ _ _ _ Hsub H) as [A [B C]]. repeat split; auto.
      intros x [<-|Hx]; [apply B; now apply mem_In | now apply C].
    + set (seen2 := if mem w seen then seen else w :: seen) in *.
      set (cand := filter (fun n => negb (mem n explored)) (sort_names (succs es w))) in *.
      destruct (existsb (fun n => mem n seen2) cand); [discriminate|].
      destruct cand as [|c0 cr] eqn:Ec.
      * destruct (IH rest seen2 (w :: explored) (order ++ [w]) seen' explored' order') as [A [B C]]; auto.
        { intros x [<-|Hx]; apply in_app_iff; [right; now left | left; now apply Hsub]. }
        repeat split; auto.
        -- intros x Hx. apply B. now right.
        -- intros x [<-|Hx]; [apply B; now left | now apply C].
      * destruct (IH _ _ _ _ _ _ _ Hsub H) as [A [B C]]. repeat split; auto.
        intros x Hx. apply C. apply in_app_iff. right. exact Hx.
Qed.

Lemma dfs_all_complete fuel es : forall nbunch seen explored order res,
  (forall x, In x explored -> In x order) ->
  dfs_all fuel es nbunch seen explored order = Ok res ->
  forall x, In x nbunch \/ In x explored -> In x res.
Proof.
  induction nbunch as [|v r IH]; intros seen explored order res Hsub H x Hx; simpl in H.
  - inversion H; subst. apply in_rev. rewrite rev_involutive. destruct Hx as [[]|Hx]. now apply Hsub.
  - destruct (mem v explored) eqn:Ev.
    + apply (IH seen explored order res Hsub H). destruct Hx as [[<-|Hx]|Hx]; auto. right. now apply mem_In.
    + destruct (dfs fuel es [v] seen explored order) as [[[seen' explored'] order']|] eqn:Ed; simpl in H; [|discriminate].
      destruct (dfs_complete _ _ _ _ _ _ _ _ _ Hsub Ed) as [A [B C]].
      apply (IH seen' explored' order' res A H). destruct Hx as [[<-|Hx]|Hx]; auto. right. apply C. now left.
Qed.

Lemma sort_order_complete g so n : sort_order g = Ok so -> In n (map fst (c_nodes g)) -> In n so.
Proof.
  unfold sort_order. intros H Hn. eapply dfs_all_complete; [|exact H|]; [intros ? []|].
  left. apply (Permutation_in _ (Permutation_sym (sort_names_perm _))). exact Hn.
Qed.

(** ---- the call log of a fresh execution, exactly ---- *)
Theorem execute_log_iff g out log c' :
  execute g empty_cache = Ok (out, log, c') ->
  forall n, In n log <-> has_op g n = true /\ reaches_root (dep_of g) (needed_of g) n.
Proof.
  unfold execute. intros H n.
  destruct (get_execution_order g empty_cache) as [[order c1]|] eqn:Eo; simpl in H; [|discriminate].
  destruct (run_order g order []) as [[g' lg]|] eqn:Er; simpl in H; [|discriminate].
  destruct (collect g' (sort_names (dedup_names (c_outputs g)))) as [res|] eqn:Ec; simpl in H; [|discriminate].
  inversion H; subst. clear H.
  destruct (get_execution_order_spec _ _ _ _ CacheOK_empty Eo) as [Hnd _].
  destruct (run_order_sound g order g [] g' log (Inv_refl g) Hnd Er) as [_ Hlog]. simpl in Hlog.
  pose proof (get_execution_order_cached g empty_cache order _ (CacheConsistent_empty g) Eo) as Ho.
  unfold order_of in Ho. subst log. rewrite filter_In.
  destruct (needed_of g) as [|n0 nr] eqn:En.
  - inversion Ho; subst. split; [intros [[] _] | intros [_ [r [[] _]]]].
  - destruct (sort_order g) as [so|] eqn:Eso; simpl in Ho; [|discriminate].
    destruct (scan_nodes g so); simpl in Ho; [|discriminate]. inversion Ho; subst. clear Ho.
    rewrite filter_In, mem_In, ancestors_incl_iff. split; [tauto|]. intros [Hop Hr]. repeat split; auto.
    apply (sort_order_complete g so n Eso). unfold has_op in Hop.
    destruct (lookup n (c_nodes g)) eqn:El; [|discriminate]. eapply lookup_key_In. exact El.
Qed.

(** ---- multisets of names ---- *)
Lemma count_perm n a b : Permutation a b -> count n a = count n b.
Proof.
  unfold count. induction 1 as [| x l l' _ IH | x y l | l l' l'' _ IH1 _ IH2]; simpl.
  - reflexivity.
  - destruct (String.eqb n x); simpl; congruence.
  - destruct (String.eqb n x); destruct (String.eqb n y); reflexivity.
  - congruence.
Qed.

Lemma same_multiset_perm a b : Permutation a b -> same_multiset a b = true.
Proof.
  intros H. unfold same_multiset. apply forallb_forall. intros n _. apply Nat.eqb_eq. now apply count_perm.
Qed.

Lemma value_eqb_refl : forall a, value_eqb a a = true.
Proof.
  fix IH 1. intros a. destruct a as [k| | | |o xs ks]; simpl.
  - apply Z.eqb_refl.
  - reflexivity.
  - reflexivity.
  - reflexivity.
  - assert (Ho : op_eqb o o = true) by (destruct o; simpl; [apply String.eqb_refl | reflexivity]).
    rewrite Ho. simpl. apply andb_true_iff. split.
    + induction xs as [|x xs IHx]; [reflexivity|]. rewrite IH, IHx. reflexivity.
    + induction ks as [|[s x] ks IHk]; [reflexivity|]. rewrite String.eqb_refl, IH, IHk. reflexivity.
Qed.

Lemma In_pair_lookup {A} n (a : A) l : NoDup (map fst l) -> In (n, a) l -> lookup n l = Some a.
Proof.
  induction l as [|[m b] r IH]; intros Hnd Hin; [destruct Hin|]. simpl in *.
  inversion Hnd as [|? ? Hm Hr]; subst. destruct Hin as [Heq|Hin].
  - inversion Heq; subst. now rewrite String.eqb_refl.
  - destruct (String.eqb n m) eqn:E; [|now apply IH]. apply String.eqb_eq in E. subst.
    exfalso. apply Hm. apply in_map_iff. exists (m, a). auto.
Qed.

(** ---- the requested outputs are preserved by every compiler pass and loader ---- *)
Lemma add_cedge_outputs u v p g : c_outputs (add_cedge u v p g) = c_outputs g.
Proof.
  unfold add_cedge, ensure_node, add_node. simpl. destruct (has u (c_nodes g)); simpl; destruct (has v _); reflexivity.
Qed.

Lemma copy_observed_edges_outputs src obl n g : c_outputs (copy_observed_edges src obl n g) = c_outputs g.
Proof.
  unfold copy_observed_edges. generalize (preds (s_edges src) n) as l. intros l. revert g.
  induction l as [|pp r IH]; intros g; simpl; [reflexivity|]. rewrite IH. apply add_cedge_outputs.
Qed.

Lemma instr_fold_outputs fl inode : forall l g, c_outputs (fold_left (instr_step fl inode) l g) = c_outputs g.
Proof.
  induction l as [|ns r IH]; intros g; simpl; [reflexivity|]. rewrite IH.
  unfold instr_step. destruct (fl (snd ns)); [apply add_cedge_outputs | reflexivity].
Qed.

Lemma G4of_outputs src g : c_outputs (G4of src g) = c_outputs g.
Proof. unfold G4of. now rewrite !compile_instruction_fold, !instr_fold_outputs. Qed.

Lemma reduce_fold_outputs keep : forall l g, c_outputs (fold_left (reduce_step keep) l g) = c_outputs g.
Proof.
  induction l as [|nc r IH]; intros g; simpl; [reflexivity|]. rewrite IH.
  unfold reduce_step. destruct (mem (fst nc) keep); reflexivity.
Qed.

Lemma set_output_outputs n v b g : c_outputs (set_output n v b g) = c_outputs g.
Proof. unfold set_output. destruct (lookup n (c_nodes g)); reflexivity. Qed.

Lemma obs_fold_outputs : forall l g, c_outputs (fold_left obs_step l g) = c_outputs g.
Proof. induction l as [|nv r IH]; intros g; simpl; [reflexivity|]. rewrite IH. apply set_output_outputs. Qed.

Lemma load_runtime_outputs g : c_outputs (load_runtime g) = c_outputs g.
Proof. unfold load_runtime. now rewrite !set_output_outputs. Qed.

(** the PoolLoader adds an output only for a store that holds nothing; [generate] supplies values only *)
Lemma load_pool_outputs_some : forall p g,
  (forall nv, In nv p -> snd nv <> None) -> c_outputs (load_pool p g) = c_outputs g.
Proof.
  induction p as [|[k ov] r IH]; intros g H; [reflexivity|].
  rewrite load_pool_cons, IH; [|intros nv Hnv; apply H; now right].
  unfold pool_step. cbn [fst snd]. destruct (has k (c_nodes g)); [|reflexivity].
  destruct ov as [v|]; [apply set_output_outputs|]. exfalso. apply (H (k, None)); [now left | reflexivity].
Qed.

Lemma load_outputs W g : c_outputs (load (wp W) g) = c_outputs g.
Proof.
  unfold load. rewrite load_pool_outputs_some, load_runtime_outputs, load_observed_fold, obs_fold_outputs; [reflexivity|].
  intros nv Hin. unfold wp in Hin. apply in_map_iff in Hin. destruct Hin as [x [<- _]]. discriminate.
Qed.

Lemma has_load_pool m : forall p g, has m (c_nodes (load_pool p g)) = has m (c_nodes g).
Proof. induction p as [|nv r IH]; intros g; [reflexivity|]. rewrite load_pool_cons, IH. apply pool_step_has. Qed.

Lemma has_load m p g : has m (c_nodes (load p g)) = has m (c_nodes g).
Proof. unfold load. now rewrite has_load_pool, has_load_runtime, has_load_observed. Qed.

(** ---- the ObservedCompiler keeps the outputs and lists every observed-using node ---- *)
Lemma compile_observed_facts src : forall topo ob us g g' ob' us',
  compile_observed src topo ob us g = Ok (g', ob', us') ->
  c_outputs g' = c_outputs g
  /\ forall n, In n us \/ (In n topo /\ exists st, lookup n (s_nodes src) = Some st
                                          /\ s_observable st = false /\ s_uses_observed st = true) -> In n us'.
Proof.
  induction topo as [|m r IH]; intros ob us g g' ob' us' H; simpl in H.
  - inversion H; subst. split; [reflexivity|]. intros n [Hn|[[] _]]. exact Hn.
  - destruct (lookup m (s_nodes src)) as [st|] eqn:Hl; [|discriminate].
    destruct (s_observable st) eqn:Eo.
    + destruct (make_observed_copy m None g) as [g1|] eqn:Em; simpl in H; [|discriminate].
      destruct (make_observed_copy_inv _ _ _ _ Em) as [_ [c [-> _]]].
      destruct (IH _ _ _ _ _ _ H) as [A B]. split.
      * rewrite A. destruct (s_stochastic st); [reflexivity | now rewrite copy_observed_edges_outputs].
      * intros n [Hn|[[<-|Hn] Hst]]; apply B; auto.
        destruct Hst as [st' [Hl' [Ho' _]]]. congruence.
    + destruct (s_uses_observed st) eqn:Eu.
      * destruct (make_observed_copy m (Some OpTuple) g) as [g1|] eqn:Em; simpl in H; [|discriminate].
        destruct (make_observed_copy_inv _ _ _ _ Em) as [_ [c [-> _]]].
        destruct (IH _ _ _ _ _ _ H) as [A B]. split.
        -- rewrite A. destruct (s_stochastic st); rewrite ?copy_observed_edges_outputs, add_cedge_outputs; reflexivity.
        -- intros n [Hn|[[<-|Hn] Hst]]; apply B; auto; left; apply in_app_iff; [now left | right; now left].
      * destruct (IH _ _ _ _ _ _ H) as [A B]. split; [exact A|].
        intros n [Hn|[[<-|Hn] Hst]]; apply B; auto.
        destruct Hst as [st' [Hl' [_ Hu']]]. congruence.
Qed.

Lemma compile_inv2 src outs g :
  wfsrc src -> compile src outs = Ok g ->
  exists cn g1 uses,
    compile_outputs (s_nodes src) = Ok cn /\ topo_ok src = true
    /\ CO src cn (topo_order src) g1 /\ c_outputs g1 = outs
    /\ check_stochastic src g1 uses = Ok tt
    /\ (forall n st, lookup n (s_nodes src) = Some st -> s_observable st = false -> s_uses_observed st = true -> In n uses)
    /\ g = compile_reduce (G4of src g1).
Proof.
  intros Hwf H. unfold compile in H.
  destruct (compile_outputs (s_nodes src)) as [cn|] eqn:Ec; simpl in H; [|discriminate].
  fold (topo_ok src) in H. destruct (topo_ok src) eqn:Et; simpl in H; [|discriminate].
  fold (G0 src cn outs) in H.
  destruct (compile_observed src (topo_order src) [] [] (G0 src cn outs)) as [[[g1 obl] uses]|] eqn:Eo;
    simpl in H; [|discriminate].
  destruct (check_stochastic src g1 uses) as [[]|] eqn:Ek; simpl in H; [|discriminate].
  inversion H. exists cn, g1, uses.
  destruct (compile_observed_facts _ _ _ _ _ _ _ _ Eo) as [A B].
  split; [reflexivity|]. split; [reflexivity|]. split; [|split; [exact A|split; [exact Ek|split; [|reflexivity]]]].
  - apply (compile_observed_spec src cn Hwf Ec (topo_order src) [] (G0 src cn outs) [] [] g1 obl uses).
    + apply CO_init.
    + simpl. apply topo_order_NoDup. exact (wf_nodup _ Hwf).
    + reflexivity.
    + intros n Hn u p Hup. simpl. unfold topo_ok in Et. rewrite forallb_forall in Et.
      specialize (Et n Hn). rewrite forallb_forall in Et. specialize (Et (u, p) Hup). now apply mem_In.
    + exact Eo.
  - intros n st Hl Ho Hu. apply B. right. split; [eapply t_in; eauto | eauto].
Qed.

(** ---- the twin edges of the specification are the edges the ObservedCompiler adds ---- *)
Lemma twin_edges_char src e :
  In e (twin_edges src) <-> exists n st, In (n, st) (s_nodes src) /\ In e (twin_edges_st src n st).
Proof.
  unfold twin_edges. rewrite in_app_iff, !in_flat_map. split.
  - intros [[[n st] [Hin He]] | [[n st] [Hin He]]]; exists n, st; (split; [exact Hin|]);
      unfold twin_edges_st; apply in_app_iff; cbn [fst snd] in He.
    + right. exact He.
    + left. rewrite andb_comm. exact He.
  - intros [n [st [Hin He]]]. unfold twin_edges_st in He. apply in_app_iff in He. destruct He as [He|He].
    + right. exists (n, st). split; [exact Hin|]. cbn [fst snd]. rewrite andb_comm. exact He.
    + left. exists (n, st). split; [exact Hin|]. exact He.
Qed.

Lemma TW_char src e : NoDup (map fst (s_nodes src)) ->
  (In e (flat_map (twin_edges_of src) (topo_order src))
   <-> exists n st, In (n, st) (s_nodes src) /\ In e (twin_edges_st src n st)).
Proof.
  intros Hnd. rewrite in_flat_map. split.
  - intros [n [Hn He]]. unfold twin_edges_of in He. destruct (lookup n (s_nodes src)) as [st|] eqn:El; [|destruct He].
    exists n, st. split; [now apply lookup_In_pair | exact He].
  - intros [n [st [Hin He]]]. exists n. split.
    + apply topo_order_In_rev. apply in_map_iff. exists (n, st). auto.
    + unfold twin_edges_of. now rewrite (In_pair_lookup _ _ _ Hnd Hin).
Qed.

(** ---- nets whose edges join existing nodes ---- *)
Definition eclosed (g : cnet) : Prop :=
  forall e, In e (c_edges g) -> has (e_src e) (c_nodes g) = true /\ has (e_dst e) (c_nodes g) = true.

Lemma has_ensure_mono m n g : has m (c_nodes g) = true -> has m (c_nodes (ensure_node n g)) = true.
Proof. intros H. unfold has. rewrite ensure_node_lookup by exact H. exact H. Qed.

Lemma has_ensure_self n g : has n (c_nodes (ensure_node n g)) = true.
Proof.
  unfold ensure_node. destruct (has n (c_nodes g)) eqn:E; [exact E|]. unfold has. now rewrite lookup_add_node_same.
Qed.

Lemma eclosed_add_cedge u v p g : eclosed g -> eclosed (add_cedge u v p g).
Proof.
  intros Hc e He. rewrite c_edges_add_cedge in He.
  change (c_nodes (add_cedge u v p g)) with (c_nodes (ensure_node v (ensure_node u g))).
  apply In_add_edge in He. destruct He as [->|He].
  - unfold e_src, e_dst. cbn [fst snd]. split; [apply has_ensure_mono; apply has_ensure_self | apply has_ensure_self].
  - destruct (Hc e He) as [H1 H2]. split; apply has_ensure_mono; now apply has_ensure_mono.
Qed.

Lemma eclosed_instr_fold fl inode : forall l g, eclosed g -> eclosed (fold_left (instr_step fl inode) l g).
Proof.
  induction l as [|ns r IH]; intros g H; simpl; [exact H|]. apply IH.
  unfold instr_step. destruct (fl (snd ns)); [now apply eclosed_add_cedge | exact H].
Qed.

Lemma eclosed_remove n g : eclosed g -> eclosed (remove_cnode n g).
Proof.
  intros Hc e He. simpl in He. apply filter_In in He. destruct He as [He Hb].
  apply andb_true_iff in Hb. destruct Hb as [H1 H2]. apply negb_true_iff in H1, H2. apply String.eqb_neq in H1, H2.
  destruct (Hc e He) as [A B]. unfold has in *. simpl. now rewrite !lookup_remove_other.
Qed.

Lemma eclosed_reduce_fold keep : forall l g, eclosed g -> eclosed (fold_left (reduce_step keep) l g).
Proof.
  induction l as [|nc r IH]; intros g H; simpl; [exact H|]. apply IH.
  unfold reduce_step. destruct (mem (fst nc) keep); [exact H | now apply eclosed_remove].
Qed.

(** the reduction removes only edges with an end outside the kept set *)
Lemma reduce_fold_edge_sub keep e : forall l g,
  In e (c_edges (fold_left (reduce_step keep) l g)) -> In e (c_edges g).
Proof.
  induction l as [|nc r IH]; intros g H; simpl in H; [exact H|]. apply IH in H.
  unfold reduce_step in H. destruct (mem (fst nc) keep); [exact H|]. simpl in H. apply filter_In in H. tauto.
Qed.

Lemma reduce_fold_edge_kept keep e : mem (e_src e) keep = true -> mem (e_dst e) keep = true ->
  forall l g, In e (c_edges g) -> In e (c_edges (fold_left (reduce_step keep) l g)).
Proof.
  intros Hs Hd. induction l as [|nc r IH]; intros g H; simpl; [exact H|]. apply IH.
  unfold reduce_step. destruct (mem (fst nc) keep) eqn:E; [exact H|]. simpl. apply filter_In. split; [exact H|].
  apply andb_true_iff. split; apply negb_true_iff; apply String.eqb_neq; intros Heq; rewrite Heq in E; congruence.
Qed.

(** ---- the requested outputs the property speaks about ---- *)
Definition outputs_wf (src : snet) (outs : list name) : Prop :=
  forall o, In o outs ->
    has o (s_nodes src) = true
    \/ exists x st, lookup x (s_nodes src) = Some st /\ o = observed_name x
                    /\ (s_observable st = true \/ s_uses_observed st = true).

Definition outputs_wf_b (src : snet) (outs : list name) : bool :=
  forallb (fun o => has o (s_nodes src)
                    || existsb (fun x : name * sstate =>
                                  String.eqb (observed_name (fst x)) o
                                  && (s_observable (snd x) || s_uses_observed (snd x))) (s_nodes src))
          outs.

Lemma outputs_wf_b_sound src outs :
  NoDup (map fst (s_nodes src)) -> outputs_wf_b src outs = true -> outputs_wf src outs.
Proof.
  intros Hnd H o Ho. unfold outputs_wf_b in H. rewrite forallb_forall in H. specialize (H o Ho).
  apply orb_true_iff in H. destruct H as [H|H]; [now left|]. right.
  apply existsb_exists in H. destruct H as [[x st] [Hin H]]. cbn [fst snd] in H.
  apply andb_true_iff in H. destruct H as [H1 H2]. apply String.eqb_eq in H1. apply orb_true_iff in H2.
  exists x, st. split; [now apply In_pair_lookup|]. split; [now symmetry | exact H2].
Qed.

(** ---- the loaded net of a compiled well-formed source net, node by node ---- *)
Section Model.
  Variables (src : snet) (W : list (name * value)) (outs : list name) (cn : list (name * cnode)) (g1 : cnet).
  Hypothesis Hwf : wfsrc src.
  Hypothesis HWnd : NoDup (map fst W).
  Hypothesis HWi : forall k, In k (map fst W) -> ~ In k inames.
  Hypothesis Hcn : compile_outputs (s_nodes src) = Ok cn.
  Hypothesis Hco : CO src cn (topo_order src) g1.
  Hypothesis Hout1 : c_outputs g1 = outs.

  Local Notation g4 := (G4of src g1).
  Local Notation gr := (compile_reduce (G4of src g1)).
  Local Notation lg := (load (wp W) (compile_reduce (G4of src g1))).
  Local Notation keep := (ancestors_incl (c_edges (G4of src g1)) outs).
  Local Notation cut := (filter (fun e => negb (given src W (e_dst e))) (dep_edges src)).

  (** the user-level dependency edges are the edges of the net the ObservedCompiler leaves *)
  Lemma dep_edges_g1 e : In e (dep_edges src) <-> In e (c_edges g1).
  Proof.
    unfold dep_edges. rewrite (g1_edges _ _ _ Hco), !in_app_iff, twin_edges_char, (TW_char _ _ (wf_nodup _ Hwf)).
    reflexivity.
  Qed.

  (** clause 1: the coded rejection rule *)
  Lemma not_stochastic_observed uses :
    check_stochastic src g1 uses = Ok tt ->
    (forall n st, lookup n (s_nodes src) = Some st -> s_observable st = false -> s_uses_observed st = true -> In n uses) ->
    stochastic_observed src = false.
  Proof.
    intros Hchk Huses. apply not_true_iff_false. intros H. unfold stochastic_observed in H.
    apply existsb_exists in H. destruct H as [[n st] [Hin H]]. cbn [fst snd] in H.
    apply andb_true_iff in H. destruct H as [H Hex]. apply andb_true_iff in H. destruct H as [Hu Ho].
    apply negb_true_iff in Ho.
    apply existsb_exists in Hex. destruct Hex as [a [Ha Hst]].
    pose proof (In_pair_lookup _ _ _ (wf_nodup _ Hwf) Hin) as Hl.
    assert (Hfl : flagged st = true) by (unfold flagged; now rewrite Hu, orb_true_r).
    destruct (ancestors_incl_head (twin_edges src ++ s_edges src) (observed_name n)) as [t2 E2].
    destruct (ancestors_incl_head (c_edges g1) (observed_name n)) as [t1 E1].
    assert (Ha1 : In a (ancestors_incl (c_edges g1) [observed_name n])).
    { apply (ancestors_incl_ext (twin_edges src ++ s_edges src)).
      - intros e. rewrite <- dep_edges_g1. unfold dep_edges. rewrite !in_app_iff. tauto.
      - rewrite E2 in Ha |- *. right. exact Ha. }
    pose proof (check_stochastic_sound src g1 uses Hchk n a (Huses n st Hl Ho Hu)) as Hc.
    rewrite E1 in Ha1, Hc. destruct Ha1 as [<-|Ha1].
    - unfold flag, sstate_of in Hst. rewrite (twin_lookup_none _ _ _ Hcn Hco n st Hl Hfl) in Hst. discriminate.
    - specialize (Hc Ha1). unfold is_stochastic in Hc. unfold flag, sstate_of in Hst. congruence.
  Qed.

  (** clause 3: the outputs of the loaded net *)
  Lemma lg_outputs : c_outputs lg = outs.
  Proof. rewrite load_outputs, compile_reduce_fold, reduce_fold_outputs, G4of_outputs. exact Hout1. Qed.

  (** source nodes and twins of flagged nodes *)
  Definition Nd (x : name) : Prop :=
    (exists st, lookup x (s_nodes src) = Some st)
    \/ (exists m st, x = observed_name m /\ lookup m (s_nodes src) = Some st /\ flagged st = true).

  Lemma Nd_in_g1 x : Nd x -> has x (c_nodes g1) = true.
  Proof.
    intros [[st Hl] | [m [st [-> [Hl Hfl]]]]].
    - destruct (g1_src_lookup _ _ _ Hcn Hco x st Hl) as [c0 [Hc0 _]]. unfold has. now rewrite Hc0.
    - destruct (co_twin _ _ _ _ Hco m st (t_in _ _ _ Hl) Hl Hfl) as [H _]. unfold has. now rewrite H.
  Qed.

  Lemma g1_edge_Nd e : In e (c_edges g1) -> Nd (e_src e) /\ Nd (e_dst e).
  Proof.
    rewrite (g1_edges _ _ _ Hco). intros He. apply in_app_iff in He. destruct He as [He|He].
    - destruct (wf_edges _ Hwf e He) as [H1 H2]. apply has_lookup in H1, H2. split; left; assumption.
    - apply in_flat_map in He. destruct He as [n [Hn He]]. apply twin_edges_in in He.
      destruct He as [st [Hl [Hfl [->|[u [p [Hup ->]]]]]]]; unfold e_src, e_dst; cbn [fst snd].
      + split; [right; exists n, st; auto | left; eauto].
      + split; [|right; exists n, st; auto].
        unfold link. destruct (flag src s_observable u) eqn:Fu.
        * destruct (flag_true _ _ _ Fu) as [su [Hlu Hou]]. right. exists u, su. repeat split; auto.
          unfold flagged. now rewrite Hou.
        * left. apply has_lookup. eapply parent_is_node; eauto.
  Qed.

  Lemma eclosed_g1 : eclosed g1.
  Proof. intros e He. destruct (g1_edge_Nd e He). split; now apply Nd_in_g1. Qed.

  Lemma eclosed_g4 : eclosed g4.
  Proof. unfold G4of. rewrite !compile_instruction_fold. repeat apply eclosed_instr_fold. exact eclosed_g1. Qed.

  Lemma eclosed_lg : eclosed lg.
  Proof.
    intros e He. rewrite (lg_edges src W g1) in He. rewrite !has_load.
    revert e He. rewrite compile_reduce_fold. apply eclosed_reduce_fold. exact eclosed_g4.
  Qed.

  Lemma g4_edge_cases e : In e (c_edges g4) -> In e (c_edges g1) \/ In (e_src e) inames.
  Proof.
    rewrite (g4_edges _ _ _ Hwf Hco), <- (g1_edges _ _ _ Hco), !in_app_iff.
    intros [[[H|H]|H]|H]; [now left | right; apply instr_edges_src in H; rewrite H; simpl; tauto ..].
  Qed.

  Lemma g1_sub_g4 e : In e (c_edges g1) -> In e (c_edges g4).
  Proof. rewrite (g4_edges _ _ _ Hwf Hco), <- (g1_edges _ _ _ Hco), !in_app_iff. tauto. Qed.

  Lemma gr_edge_sub e : In e (c_edges gr) -> In e (c_edges g4).
  Proof. rewrite compile_reduce_fold. apply reduce_fold_edge_sub. Qed.

  Lemma gr_edge_kept e : In e (c_edges g4) -> In (e_src e) keep -> In (e_dst e) keep -> In e (c_edges gr).
  Proof.
    intros He Hs Hd. rewrite compile_reduce_fold, G4of_outputs, Hout1.
    apply reduce_fold_edge_kept; [now apply mem_In | now apply mem_In | exact He].
  Qed.

  Lemma gr_lookup_kept x : In x keep -> lookup x (c_nodes gr) = lookup x (c_nodes g4).
  Proof.
    intros Hk. rewrite compile_reduce_fold, G4of_outputs, Hout1. apply reduce_fold_lookup_kept. now apply mem_In.
  Qed.

  (** a loaded source node / twin has an output exactly when its value is [given], an operation otherwise *)
  Lemma Nd_lg_state x c : Nd x -> lookup x (c_nodes lg) = Some c ->
    (match c_out c with Some _ => true | None => false end) = given src W x
    /\ (match c_op c with Some _ => true | None => false end) = negb (given src W x).
  Proof.
    intros [[st Hl] | [m [st [-> [Hl Hfl]]]]] Hc.
    - destruct (lg_source_node _ _ _ _ Hwf HWnd Hcn Hco x st c Hl Hc) as [_ Hcase].
      unfold given, has, sstate_of. rewrite Hl.
      destruct (lookup x W) as [w|]; [subst c; split; reflexivity|]. cbn [orb].
      destruct Hcase as [[v [H1 [_ ->]]] | [H1 [_ ->]]]; rewrite H1; split; reflexivity.
    - destruct (lg_twin_node _ _ _ _ Hwf HWnd Hcn Hco m st c Hl Hfl Hc) as [_ Hcase].
      unfold given, sstate_of. rewrite (twin_lookup_none _ _ _ Hcn Hco m st Hl Hfl).
      change (has (observed_name m) W) with (match lookup (observed_name m) W with Some _ => true | None => false end).
      destruct (lookup (observed_name m) W) as [w|]; [subst c; split; reflexivity|]. cbn [orb].
      destruct (lookup m (s_observed src)) as [v|] eqn:Eo.
      + destruct Hcase as [Hob ->].
        match goal with |- context [existsb ?f ?l] => assert (E : existsb f l = true) end.
        { apply existsb_exists. exists (m, st). split; [now apply lookup_In_pair|]. cbn [fst snd].
          rewrite String.eqb_refl, Hob. unfold has. now rewrite Eo. }
        rewrite E. split; reflexivity.
      + subst c.
        match goal with |- context [existsb ?f ?l] => assert (E : existsb f l = false) end.
        { apply not_true_iff_false. intros E. apply existsb_exists in E. destruct E as [[m' st'] [Hin E]].
          cbn [fst snd] in E. apply andb_true_iff in E. destruct E as [E E3]. apply andb_true_iff in E.
          destruct E as [E1 E2]. apply String.eqb_eq in E1. apply observed_name_inj in E1. subst m'.
          unfold has in E3. rewrite Eo in E3. discriminate. }
        rewrite E. split; reflexivity.
  Qed.

  Lemma Nd_lg_lookup x : Nd x -> In x keep -> exists c, lookup x (c_nodes lg) = Some c.
  Proof.
    intros Hn Hk. apply has_lookup. rewrite has_load. unfold has.
    rewrite (gr_lookup_kept x Hk), G4of_lookup by (now apply Nd_in_g1). exact (Nd_in_g1 x Hn).
  Qed.

  (** the executor's dependency graph lies inside the specification's cut graph *)
  Lemma dep_of_cut e : In e (dep_of lg) -> In e cut /\ given src W (e_src e) = false /\ Nd (e_src e).
  Proof.
    unfold dep_of. intros He. apply filter_In in He. destruct He as [He Hb].
    apply andb_true_iff in Hb. destruct Hb as [Hs Hd]. apply negb_true_iff in Hs, Hd.
    destruct (eclosed_lg e He) as [H1 H2]. apply has_lookup in H1, H2.
    destruct H1 as [cs Hcs]. destruct H2 as [cd Hcd].
    rewrite (lg_edges src W g1) in He. apply gr_edge_sub in He.
    destruct (g4_edge_cases e He) as [Hg1|Hi].
    - destruct (g1_edge_Nd e Hg1) as [Ns Nd'].
      destruct (Nd_lg_state _ _ Ns Hcs) as [A _]. destruct (Nd_lg_state _ _ Nd' Hcd) as [B _].
      unfold has_out in Hs, Hd. rewrite Hcs in Hs. rewrite Hcd in Hd. rewrite Hs in A. rewrite Hd in B.
      repeat split; auto. apply filter_In. split; [now apply dep_edges_g1|]. now rewrite <- B.
    - exfalso. pose proof (lg_runtime_node src W g1 HWnd HWi _ _ Hi Hcs) as Ho.
      unfold has_out in Hs. rewrite Hcs, Ho in Hs. discriminate.
  Qed.

  Lemma cut_sub_g4 e : In e cut -> In e (c_edges g4).
  Proof. intros H. apply filter_In in H. destruct H as [H _]. apply g1_sub_g4. now apply dep_edges_g1. Qed.

  Hypothesis Howf : outputs_wf src outs.

  Lemma outs_Nd o : In o outs -> Nd o.
  Proof.
    intros Ho. destruct (Howf o Ho) as [H | [x [st [Hl [-> Hfl]]]]].
    - left. now apply has_lookup.
    - right. exists x, st. repeat split; auto. unfold flagged. destruct Hfl as [-> | ->]; [reflexivity | apply orb_true_r].
  Qed.

  (** every operation that ran is needed *)
  Lemma log_sub_needed n :
    has_op lg n = true -> reaches_root (dep_of lg) (needed_of lg) n -> In n (needed_ops src W outs).
  Proof.
    intros Hop [r [Hr Hreach]]. apply in_needed_iff in Hr. destruct Hr as [Hr Hopr]. rewrite lg_outputs in Hr.
    unfold needed_ops. apply filter_In. split.
    - apply ancestors_incl_iff. exists r. split; [exact Hr|]. eapply reach_incl; [|exact Hreach].
      intros e He. now apply dep_of_cut.
    - apply negb_true_iff. destruct (reach_inv _ _ _ Hreach) as [->|[v [p He]]].
      + rename r into n. pose proof (outs_Nd n Hr) as Hn. unfold has_op in Hop.
        destruct (lookup n (c_nodes lg)) as [c|] eqn:Hc; [|discriminate].
        destruct (Nd_lg_state _ _ Hn Hc) as [_ B]. rewrite Hop in B.
        destruct (given src W n); [discriminate | reflexivity].
      + destruct (dep_of_cut _ He) as [_ [A _]]. exact A.
  Qed.

  (** every needed operation runs *)
  Lemma cut_reach_dep x r : reach cut x r -> In r outs -> given src W x = false ->
    reach (dep_of lg) x r /\ given src W r = false.
  Proof.
    intros H. induction H as [n | u v w p He Hvw IH]; intros Hr Hg; [split; [constructor | exact Hg]|].
    assert (Hg4 : reach (c_edges g4) v w) by (eapply reach_incl; [|exact Hvw]; apply cut_sub_g4).
    pose proof He as He'. apply filter_In in He'. destruct He' as [Hde Hgv]. apply negb_true_iff in Hgv.
    unfold e_dst in Hgv. cbn [fst snd] in Hgv.
    destruct (IH Hr Hgv) as [IH1 IH2]. split; [|exact IH2].
    apply (reach_step _ u v w p); [|exact IH1].
    assert (Hkv : In v keep) by (apply ancestors_incl_iff; exists w; auto).
    assert (Hku : In u keep).
    { apply ancestors_incl_iff. exists w. split; [exact Hr|].
      eapply reach_step; [apply cut_sub_g4; exact He | exact Hg4]. }
    apply dep_edges_g1 in Hde. destruct (g1_edge_Nd _ Hde) as [Nu Nv]. unfold e_src, e_dst in Nu, Nv. cbn [fst snd] in Nu, Nv.
    destruct (Nd_lg_lookup u Nu Hku) as [cu Hcu]. destruct (Nd_lg_lookup v Nv Hkv) as [cv Hcv].
    destruct (Nd_lg_state _ _ Nu Hcu) as [A _]. destruct (Nd_lg_state _ _ Nv Hcv) as [B _].
    unfold dep_of. apply filter_In. split.
    - rewrite (lg_edges src W g1). apply gr_edge_kept; [now apply g1_sub_g4 | exact Hku | exact Hkv].
    - unfold has_out, e_src, e_dst. cbn [fst snd]. rewrite Hcu, Hcv, A, B, Hg, Hgv. reflexivity.
  Qed.

  Lemma needed_sub_log n :
    In n (needed_ops src W outs) -> has_op lg n = true /\ reaches_root (dep_of lg) (needed_of lg) n.
  Proof.
    unfold needed_ops. intros H. apply filter_In in H. destruct H as [Ha Hg]. apply negb_true_iff in Hg.
    apply ancestors_incl_iff in Ha. destruct Ha as [r [Hr Hreach]].
    destruct (cut_reach_dep n r Hreach Hr Hg) as [Hdep Hgr].
    assert (Hop : forall x, Nd x -> In x keep -> given src W x = false -> has_op lg x = true).
    { intros x Nx Kx Gx. destruct (Nd_lg_lookup x Nx Kx) as [c Hc]. destruct (Nd_lg_state _ _ Nx Hc) as [_ B].
      unfold has_op. rewrite Hc, B, Gx. reflexivity. }
    assert (Hkr : In r keep) by (apply ancestors_incl_iff; exists r; split; [exact Hr | constructor]).
    split.
    - apply Hop; [ | | exact Hg].
      + destruct (reach_inv _ _ _ Hreach) as [->|[v [p He]]]; [now apply outs_Nd|].
        apply filter_In in He. destruct He as [He _]. apply dep_edges_g1 in He. exact (proj1 (g1_edge_Nd _ He)).
      + apply ancestors_incl_iff. exists r. split; [exact Hr|]. eapply reach_incl; [|exact Hreach]. apply cut_sub_g4.
    - exists r. split; [|exact Hdep]. apply in_needed_iff. rewrite lg_outputs. split; [exact Hr|].
      apply Hop; auto. now apply outs_Nd.
  Qed.
End Model.

(** ---- the model runs exactly the needed operations, each once ---- *)
Theorem model_log_exact src outs W out log :
  wfsrc src -> NoDup (map fst W) -> (forall k, In k (map fst W) -> ~ In k inames) ->
  outputs_wf src outs ->
  generate src outs W = Ok (out, log) ->
  NoDup log /\ NoDup (needed_ops src W outs) /\ (forall n, In n log <-> In n (needed_ops src W outs)).
Proof.
  intros Hwf Hnd Hi Howf Hg. unfold generate in Hg.
  destruct (compile src outs) as [g|] eqn:Ec; simpl in Hg; [|discriminate].
  destruct (compile_inv2 _ _ _ Hwf Ec) as [cn [g1 [uses [Hcn [Ht [Hco [Hout1 [Hchk [Huses ->]]]]]]]]].
  change (map (fun nv : name * value => (fst nv, Some (snd nv))) W) with (wp W) in Hg.
  destruct (execute (load (wp W) (compile_reduce (G4of src g1))) empty_cache) as [[[out' log'] c']|] eqn:Ee;
    simpl in Hg; [|discriminate].
  inversion Hg; subst out' log'. clear Hg.
  destruct (execute_sound _ _ _ _ _ CacheOK_empty Ee) as [_ [_ [Hlnd _]]].
  pose proof (execute_log_iff _ _ _ _ Ee) as Hlog.
  split; [exact Hlnd|]. split.
  - unfold needed_ops. apply NoDup_filter. apply ancestors_incl_NoDup.
  - intros n. rewrite Hlog. split.
    + intros [A B]. exact (log_sub_needed src W outs cn g1 Hwf Hnd Hi Hcn Hco Hout1 Howf n A B).
    + exact (needed_sub_log src W outs cn g1 Hwf Hnd Hcn Hco Hout1 Howf n).
Qed.

(** ---- the model's output passes the check [Denote.ok] ---- *)
Theorem model_ok src outs W out log :
  wfsrc src -> NoDup (map fst W) -> (forall k, In k (map fst W) -> ~ In k inames) ->
  outputs_wf src outs ->
  generate src outs W = Ok (out, log) ->
  ok {| k_src := src; k_outputs := outs; k_with := W; k_impl := ImplOk out (op_log src log) |} = true.
Proof.
  intros Hwf Hnd Hi Howf Hg0.
  destruct (model_log_exact src outs W out log Hwf Hnd Hi Howf Hg0) as [Hlnd [Hnnd Hiff]].
  pose proof Hg0 as Hg. unfold generate in Hg.
  destruct (compile src outs) as [g|] eqn:Ec; simpl in Hg; [|discriminate].
  destruct (compile_inv2 _ _ _ Hwf Ec) as [cn [g1 [uses [Hcn [Ht [Hco [Hout1 [Hchk [Huses ->]]]]]]]]].
  change (map (fun nv : name * value => (fst nv, Some (snd nv))) W) with (wp W) in Hg.
  destruct (execute (load (wp W) (compile_reduce (G4of src g1))) empty_cache) as [[[out' log'] c']|] eqn:Ee;
    simpl in Hg; [|discriminate].
  inversion Hg; subst out' log'. clear Hg.
  destruct (execute_sound _ _ _ _ _ CacheOK_empty Ee) as [_ [Hkeys _]].
  rewrite (lg_outputs src W outs g1 Hout1) in Hkeys.
  unfold ok. cbn [k_impl k_src k_outputs k_with].
  rewrite (not_stochastic_observed src cn g1 Hwf Hcn Hco uses Hchk Huses). cbn [negb andb].
  apply andb_true_iff. split; [apply andb_true_iff; split|].
  - apply forallb_forall. intros [o v] Hin. cbn [fst snd].
    rewrite (generate_sound src outs W out log Hwf Hnd Hi Hg0 o v Hin); [apply value_eqb_refl|].
    apply Howf. apply dedup_names_In. apply (Permutation_in _ (sort_names_perm _)). rewrite <- Hkeys.
    apply in_map_iff. exists (o, v). auto.
  - apply names_eqb_eq. exact Hkeys.
  - apply same_multiset_perm. unfold op_log. apply Permutation_flat_map.
    apply NoDup_Permutation; assumption.
Qed.
