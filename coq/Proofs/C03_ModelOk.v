(** C03: the model's own output satisfies the decidable property [Denote.ok].

    For every well-formed source net, every requested output that is a node or the twin of an
    observable / observed-using node and every supplied [with_values], whatever
    [Net.generate] returns passes the check [Denote.ok]: the observed data does not depend on a
    stochastic node, every returned value is the user-level meaning [den_name], the returned names
    are the sorted distinct outputs, and the operations that ran are exactly [needed_ops] (as a
    multiset of operation names).  Hence agreement of the implementation with the model
    ([Denote.agree]) alone implies the property on the agreed cases. *)
From Coq Require Import List String Ascii ZArith Arith Bool Lia Permutation.
From Elfi Require Import Base.StrOrder Graph.Net Graph.Denote Proofs.C03_Exec Proofs.C03_Compile Proofs.C03_Ancestors
     Proofs.C02_Order Proofs.C05_Pool Proofs.C05_Cache Proofs.C03_EndToEnd Proofs.C03_Twins.
Import ListNotations.

(** ---- reachability: [ancestors_incl] is exactly "reaches a root" ---- *)
Lemma reach_closed es acc x r : closed es acc -> reach es x r -> In r acc -> In x acc.
Proof.
  intros Hc H. induction H as [n | u v w p He Hr IH]; intros Hin; [exact Hin|].
  apply (Hc (u, v, p) He). apply IH. exact Hin.
Qed.

Theorem ancestors_incl_iff es roots x : In x (ancestors_incl es roots) <-> reaches_root es roots x.
Proof.
  split; [apply ancestors_incl_sound|]. intros [r [Hr Hreach]].
  destruct (ancestors_incl_complete es roots) as [Hroots Hcl].
  eapply reach_closed; eauto.
Qed.

Lemma reach_incl es es' x y : (forall e, In e es -> In e es') -> reach es x y -> reach es' x y.
Proof.
  intros Hsub H. induction H as [n | u v w p He Hr IH]; [constructor|].
  eapply reach_step; [apply Hsub; exact He | exact IH].
Qed.

(** the ancestor set depends on the edge SET only *)
Corollary ancestors_incl_ext es es' roots x :
  (forall e, In e es <-> In e es') -> In x (ancestors_incl es roots) <-> In x (ancestors_incl es' roots).
Proof.
  intros H. rewrite !ancestors_incl_iff. unfold reaches_root.
  split; intros [r [Hr Hx]]; exists r; (split; [exact Hr|]); eapply reach_incl; try exact Hx; intros e; apply H.
Qed.

(** the root stays first *)
Lemma anc_f_head r a e : exists t, anc_f (r :: a) e = r :: t.
Proof. unfold anc_f. destruct (_ && _); simpl; eauto. Qed.

Lemma anc_fold_head r : forall l a, exists t, fold_left anc_f l (r :: a) = r :: t.
Proof.
  induction l as [|e l IH]; intros a; cbn [fold_left]; [eauto|].
  destruct (anc_f_head r a e) as [t ->]. apply IH.
Qed.

Lemma anc_iter_head es r : forall fuel a, exists t, anc_iter fuel es (r :: a) = r :: t.
Proof.
  induction fuel as [|f IH]; intros a; cbn [anc_iter]; [eauto|].
  destruct (Nat.eqb _ _); [eauto|]. rewrite anc_step_fold.
  destruct (anc_fold_head r es a) as [t ->]. apply IH.
Qed.

Lemma ancestors_incl_head es r : exists t, ancestors_incl es [r] = r :: t.
Proof. unfold ancestors_incl. cbn [dedup_names mem existsb]. apply anc_iter_head. Qed.

(** the ancestor list is duplicate-free *)
Lemma dedup_names_NoDup l : NoDup (dedup_names l).
Proof.
  induction l as [|a l IH]; simpl; [constructor|]. destruct (mem a l) eqn:E; [exact IH|].
  constructor; [|exact IH]. intros H. apply dedup_names_In in H. apply mem_In in H. congruence.
Qed.

Lemma anc_f_NoDup a e : NoDup a -> NoDup (anc_f a e).
Proof.
  intros H. unfold anc_f. destruct (mem (e_dst e) a && negb (mem (e_src e) a)) eqn:E; [|exact H].
  apply andb_true_iff in E. destruct E as [_ E]. apply negb_true_iff in E.
  apply NoDup_app_snoc; [exact H|]. intros Hin. apply mem_In in Hin. congruence.
Qed.

Lemma anc_fold_NoDup : forall l a, NoDup a -> NoDup (fold_left anc_f l a).
Proof. induction l as [|e l IH]; intros a H; simpl; [exact H|]. apply IH. now apply anc_f_NoDup. Qed.

Lemma anc_iter_NoDup es : forall fuel a, NoDup a -> NoDup (anc_iter fuel es a).
Proof.
  induction fuel as [|f IH]; intros a H; cbn [anc_iter]; [exact H|].
  destruct (Nat.eqb _ _); [exact H|]. apply IH. rewrite anc_step_fold. now apply anc_fold_NoDup.
Qed.

Lemma ancestors_incl_NoDup es roots : NoDup (ancestors_incl es roots).
Proof. unfold ancestors_incl. apply anc_iter_NoDup. apply dedup_names_NoDup. Qed.

(** ---- the name-sorted topological order visits every node ---- *)
Lemma dfs_complete fuel es : forall fringe seen explored order seen' explored' order',
  (forall x, In x explored -> In x order) ->
  dfs fuel es fringe seen explored order = Ok (seen', explored', order') ->
  (forall x, In x explored' -> In x order') /\ (forall x, In x explored -> In x explored')
  /\ (forall x, In x fringe -> In x explored').
Proof.
  induction fuel as [|f IH]; intros fringe seen explored order seen' explored' order' Hsub H.
  - destruct fringe; simpl in H; [|discriminate]. inversion H; subst. repeat split; auto. intros x [].
  - destruct fringe as [|w rest]; simpl in H.
    { inversion H; subst. repeat split; auto. intros x []. }
    destruct (mem w explored) eqn:Ew.
    + destruct (IH _ _ _ _ _ _ _ Hsub H) as [A [B C]]. repeat split; auto.
      intros x [<-|Hx]; [apply B; now apply mem_In | now apply C].
    + set (seen2 := if mem w seen then seen else w :: seen) in *.
      set (cand := filter (fun n => negb (mem n explored)) (sort_names (succs es w))) in *.
      destruct (existsb (fun n => mem n seen2) cand); [discriminate|].
      destruct cand as [|c0 cr] eqn:Ec.
      * destruct (IH rest seen2 (w :: explored) (order ++ [w]) seen' explored' order') as [A [B C]]; auto.
        { intros x [<-|Hx]; apply in_app_iff; [right; now left | left; now apply Hsub]. }
        repeat split; auto.
        -- intros x Hx. apply B. now right.
        -- intros x [<-|Hx]; [apply B; now left | now apply C].
      * destruct (IH _ _ _ _ _ _ _ Hsub H) as [A [B C]]. repeat split; auto.
        intros x Hx. apply C. apply in_app_iff. right. exact Hx.
Qed.

Lemma dfs_all_complete fuel es : forall nbunch seen explored order res,
  (forall x, In x explored -> In x order) ->
  dfs_all fuel es nbunch seen explored order = Ok res ->
  forall x, In x nbunch \/ In x explored -> In x res.
Proof.
  induction nbunch as [|v r IH]; intros seen explored order res Hsub H x Hx; simpl in H.
  - inversion H; subst. apply in_rev. rewrite rev_involutive. destruct Hx as [[]|Hx]. now apply Hsub.
  - destruct (mem v explored) eqn:Ev.
    + eapply IH; eauto. destruct Hx as [[<-|Hx]|Hx]; auto. right. now apply mem_In.
    + destruct (dfs fuel es [v] seen explored order) as [[[seen' explored'] order']|] eqn:Ed; simpl in H; [|discriminate].
      destruct (dfs_complete _ _ _ _ _ _ _ _ _ Hsub Ed) as [A [B C]].
      eapply IH; eauto. destruct Hx as [[<-|Hx]|Hx]; auto. right. apply C. now left.
Qed.

Lemma sort_order_complete g so n : sort_order g = Ok so -> In n (map fst (c_nodes g)) -> In n so.
Proof.
  unfold sort_order. intros H Hn. eapply dfs_all_complete; [|exact H|]; [intros ? []|].
  left. apply (Permutation_in _ (Permutation_sym (sort_names_perm _))). exact Hn.
Qed.

(** ---- the call log of a fresh execution, exactly ---- *)
Theorem execute_log_iff g out log c' :
  execute g empty_cache = Ok (out, log, c') ->
  forall n, In n log <-> has_op g n = true /\ reaches_root (dep_of g) (needed_of g) n.
Proof.
  unfold execute. intros H n.
  destruct (get_execution_order g empty_cache) as [[order c1]|] eqn:Eo; simpl in H; [|discriminate].
  destruct (run_order g order []) as [[g' lg]|] eqn:Er; simpl in H; [|discriminate].
  destruct (collect g' (sort_names (dedup_names (c_outputs g)))) as [res|] eqn:Ec; simpl in H; [|discriminate].
  inversion H; subst. clear H.
  destruct (get_execution_order_spec _ _ _ _ CacheOK_empty Eo) as [Hnd _].
  destruct (run_order_sound g order g [] g' log (Inv_refl g) Hnd Er) as [_ Hlog]. simpl in Hlog.
  pose proof (get_execution_order_cached g empty_cache order c1 (CacheConsistent_empty g) Eo) as Ho.
  unfold order_of in Ho. subst log. rewrite filter_In.
  destruct (needed_of g) as [|n0 nr] eqn:En.
  - inversion Ho; subst. split; [intros [[] _] | intros [_ [r [[] _]]]].
  - destruct (sort_order g) as [so|] eqn:Eso; simpl in Ho; [|discriminate].
    destruct (scan_nodes g so); simpl in Ho; [|discriminate]. inversion Ho; subst. clear Ho.
    rewrite filter_In, mem_In, ancestors_incl_iff. split; [tauto|]. intros [Hop Hr]. repeat split; auto.
    apply (sort_order_complete g so n Eso). unfold has_op in Hop.
    destruct (lookup n (c_nodes g)) eqn:El; [|discriminate]. eapply lookup_key_In. exact El.
Qed.

(** ---- multisets of names ---- *)
Lemma count_perm n a b : Permutation a b -> count n a = count n b.
Proof.
  unfold count. induction 1 as [| x l l' _ IH | x y l | l l' l'' _ IH1 _ IH2]; simpl.
  - reflexivity.
  - destruct (String.eqb n x); simpl; congruence.
  - destruct (String.eqb n x); destruct (String.eqb n y); reflexivity.
  - congruence.
Qed.

Lemma same_multiset_perm a b : Permutation a b -> same_multiset a b = true.
Proof.
  intros H. unfold same_multiset. apply forallb_forall. intros n _. apply Nat.eqb_eq. now apply count_perm.
Qed.

Lemma value_eqb_refl : forall a, value_eqb a a = true.
Proof.
  fix IH 1. intros a. destruct a as [k| | | |o xs ks]; simpl.
  - apply Z.eqb_refl.
  - reflexivity.
  - reflexivity.
  - reflexivity.
  - assert (Ho : op_eqb o o = true) by (destruct o; simpl; [apply String.eqb_refl | reflexivity]).
    rewrite Ho. simpl. apply andb_true_iff. split.
    + induction xs as [|x xs IHx]; [reflexivity|]. rewrite IH, IHx. reflexivity.
    + induction ks as [|[s x] ks IHk]; [reflexivity|]. rewrite String.eqb_refl, IH, IHk. reflexivity.
Qed.
