(** C03, completeness of the model: WHEN [generate] succeeds.

    [C03_Twins.generate_sound] / [C03_ModelOk.model_ok] say that whatever [generate] returns is the
    user-level meaning.  Here: a sufficient condition, on the source net alone, under which
    [generate] returns something -- and the exact condition under which the stochastic-ancestor check
    refuses a net whose first three compiler stages succeed. *)
From Coq Require Import List String Ascii ZArith Arith Bool Lia Permutation.
From Elfi Require Import Base.StrOrder Graph.Net Graph.Denote Proofs.C03_Exec Proofs.C03_Compile Proofs.C03_Ancestors
     Proofs.C02_Order Proofs.C05_Pool Proofs.C05_Cache Proofs.C03_EndToEnd Proofs.C03_Twins Proofs.C03_ModelOk
     Proofs.C02_Insertion Proofs.C02_Success.
Import ListNotations.

(** ================================================================================== *)
(** ---- the stochastic-ancestor check fails as soon as one listed twin has a stochastic ancestor ---- *)
Lemma check_stochastic_fails src g : forall uses n a,
  In n uses -> In a (tl (ancestors_incl (c_edges g) [observed_name n])) -> is_stochastic src a = true ->
  exists b, check_stochastic src g uses = Err (EStochasticObserved b) /\ is_stochastic src b = true.
Proof.
  induction uses as [|u r IH]; intros n a Hn Ha Hs; [destruct Hn|]. cbn [check_stochastic].
  destruct (find (is_stochastic src) (tl (ancestors_incl (c_edges g) [observed_name u]))) as [x|] eqn:Ef.
  - exists x. split; [reflexivity|]. apply find_some in Ef. tauto.
  - destruct Hn as [->|Hn]; [|eapply IH; eauto].
    pose proof (find_none _ _ Ef a Ha). congruence.
Qed.

Lemma existsb_false_all {A} (f : A -> bool) l : existsb f l = false -> forall x, In x l -> f x = false.
Proof.
  intros H x Hx. destruct (f x) eqn:E; [|reflexivity].
  assert (existsb f l = true) by (apply existsb_exists; eauto). congruence.
Qed.

Lemma is_stochastic_flag src a : is_stochastic src a = flag src s_stochastic a.
Proof. reflexivity. Qed.

(** the hypotheses on the source net under which the first three compiler stages succeed *)
Definition twins_fresh (src : snet) : Prop :=
  forall n st, lookup n (s_nodes src) = Some st -> flagged st = true -> has (observed_name n) (s_nodes src) = false.

Section Front.
  Variables (src : snet) (outs : list name).
  Hypothesis Hwf : wfsrc src.
  Hypothesis Hout : forallb out_ok (s_nodes src) = true.
  Hypothesis Htopo : topo_ok src = true.
  Hypothesis TF : twins_fresh src.

  Lemma compile_front :
    exists cn g1 obl uses,
      compile_outputs (s_nodes src) = Ok cn
      /\ compile_observed src (topo_order src) [] [] (G0 src cn outs) = Ok (g1, obl, uses)
      /\ CO src cn (topo_order src) g1 /\ c_outputs g1 = outs
      /\ (forall n, In n uses -> exists st, lookup n (s_nodes src) = Some st
                                            /\ s_observable st = false /\ s_uses_observed st = true)
      /\ (forall n st, lookup n (s_nodes src) = Some st -> s_observable st = false -> s_uses_observed st = true -> In n uses).
  Proof.
    destruct (proj2 (compile_outputs_ok_iff (s_nodes src)) Hout) as [cn Hcn].
    assert (TF' : forall n st, lookup n (s_nodes src) = Some st -> flagged st = true -> has (observed_name n) cn = false).
    { intros n st Hl Hfl. rewrite (has_cn src cn Hcn). exact (TF n st Hl Hfl). }
    assert (Htop' : forall n, In n (topo_order src) -> forall u p, In (u, p) (preds (s_edges src) n) ->
                    In u (firstn_before n ([] ++ topo_order src))).
    { intros n Hn u p Hup. simpl. apply topo_ok_Good in Htopo. eapply Htopo; eauto. }
    assert (Hnd' : NoDup ([] ++ topo_order src)) by (simpl; apply topo_order_NoDup; exact (wf_nodup _ Hwf)).
    destruct (compile_observed_ok src cn Hwf Hcn TF' (topo_order src) [] (G0 src cn outs) [] [])
      as [g1 [obl [uses [Eo Hus]]]]; auto.
    - apply CO_init.
    - intros x Hx. now left.
    - intros n Hn. apply has_In. now apply topo_order_In.
    - exists cn, g1, obl, uses.
      pose proof (compile_observed_spec src cn Hwf Hcn (topo_order src) [] (G0 src cn outs) [] [] g1 obl uses
                    (CO_init src cn outs) Hnd' eq_refl Htop' Eo) as Hco. simpl in Hco.
      destruct (compile_observed_facts _ _ _ _ _ _ _ _ Eo) as [A B].
      split; [exact Hcn|]. split; [exact Eo|]. split; [exact Hco|]. split; [rewrite A; reflexivity|]. split.
      + intros n Hn. destruct (Hus n Hn) as [[]|H]. exact H.
      + intros n st Hl Ho Hu. apply B. right. split; [|eauto].
        apply topo_order_In_rev. eapply lookup_key_In. exact Hl.
  Qed.

  (** the ancestors the check looks at are the ancestors in the user-level dependency graph *)
  Lemma anc_g1_spec cn g1 n st a :
    compile_outputs (s_nodes src) = Ok cn -> CO src cn (topo_order src) g1 ->
    lookup n (s_nodes src) = Some st -> flagged st = true ->
    (In a (tl (ancestors_incl (c_edges g1) [observed_name n]))
     <-> In a (tl (ancestors_incl (twin_edges src ++ s_edges src) [observed_name n])) /\ a <> observed_name n).
  Proof.
    intros Hcn Hco Hl Hfl.
    destruct (ancestors_incl_head (twin_edges src ++ s_edges src) (observed_name n)) as [t2 E2].
    destruct (ancestors_incl_head (c_edges g1) (observed_name n)) as [t1 E1].
    pose proof (ancestors_incl_NoDup (c_edges g1) [observed_name n]) as N1. rewrite E1 in N1.
    pose proof (ancestors_incl_NoDup (twin_edges src ++ s_edges src) [observed_name n]) as N2. rewrite E2 in N2.
    assert (Hext : In a (ancestors_incl (c_edges g1) [observed_name n])
                   <-> In a (ancestors_incl (twin_edges src ++ s_edges src) [observed_name n])).
    { apply ancestors_incl_ext. intros e. rewrite <- (dep_edges_g1 src cn g1 Hwf Hco). unfold dep_edges.
      rewrite !in_app_iff. tauto. }
    rewrite E1, E2 in Hext. rewrite E1, E2. cbn [tl]. cbn [In] in Hext.
    inversion N1 as [|? ? H1 _]; subst. inversion N2 as [|? ? H2 _]; subst.
    split.
    - intros Ha. assert (Hne : a <> observed_name n) by (intros ->; contradiction).
      split; [|exact Hne]. destruct (proj1 Hext (or_intror Ha)) as [Heq|H]; [congruence | exact H].
    - intros [Ha Hne]. destruct (proj2 Hext (or_intror Ha)) as [Heq|H]; [congruence | exact H].
  Qed.

  (** completeness of the rejection rule: no stochastic observed data => the check passes *)
  Lemma check_passes cn g1 uses :
    compile_outputs (s_nodes src) = Ok cn -> CO src cn (topo_order src) g1 ->
    (forall n, In n uses -> exists st, lookup n (s_nodes src) = Some st
                                       /\ s_observable st = false /\ s_uses_observed st = true) ->
    stochastic_observed src = false -> check_stochastic src g1 uses = Ok tt.
  Proof.
    intros Hcn Hco Hus Hso. apply check_stochastic_complete. intros n a Hn Ha.
    destruct (Hus n Hn) as [st [Hl [Ho Hu]]].
    assert (Hfl : flagged st = true) by (unfold flagged; now rewrite Hu, orb_true_r).
    apply (anc_g1_spec cn g1 n st a Hcn Hco Hl Hfl) in Ha. destruct Ha as [Ha _].
    unfold stochastic_observed in Hso.
    pose proof (existsb_false_all _ _ Hso (n, st) (lookup_In_pair _ _ _ Hl)) as H. cbn [fst snd] in H.
    rewrite Hu, Ho in H. cbn [negb andb] in H.
    rewrite is_stochastic_flag. exact (existsb_false_all _ _ H a Ha).
  Qed.

  (** exactness: stochastic observed data => the check refuses, with that error *)
  Lemma check_refuses cn g1 uses :
    compile_outputs (s_nodes src) = Ok cn -> CO src cn (topo_order src) g1 ->
    (forall n st, lookup n (s_nodes src) = Some st -> s_observable st = false -> s_uses_observed st = true -> In n uses) ->
    stochastic_observed src = true ->
    exists b, check_stochastic src g1 uses = Err (EStochasticObserved b) /\ is_stochastic src b = true.
  Proof.
    intros Hcn Hco Hus Hso. unfold stochastic_observed in Hso.
    apply existsb_exists in Hso. destruct Hso as [[n st] [Hin H]]. cbn [fst snd] in H.
    apply andb_true_iff in H. destruct H as [H Hex]. apply andb_true_iff in H. destruct H as [Hu Ho].
    apply negb_true_iff in Ho. apply existsb_exists in Hex. destruct Hex as [a [Ha Hst]].
    pose proof (In_pair_lookup _ _ _ (wf_nodup _ Hwf) Hin) as Hl.
    assert (Hfl : flagged st = true) by (unfold flagged; now rewrite Hu, orb_true_r).
    apply (check_stochastic_fails src g1 uses n a); [eauto | | exact Hst].
    apply (anc_g1_spec cn g1 n st a Hcn Hco Hl Hfl). split; [exact Ha|].
    intros ->. unfold flag, sstate_of in Hst.
    rewrite (twin_lookup_none src cn g1 Hcn Hco n st Hl Hfl) in Hst. discriminate.
  Qed.

  Lemma compile_unfold cn g1 obl uses :
    compile_outputs (s_nodes src) = Ok cn ->
    compile_observed src (topo_order src) [] [] (G0 src cn outs) = Ok (g1, obl, uses) ->
    compile src outs = (do _ <- check_stochastic src g1 uses; Ok (compile_reduce (G4of src g1))).
  Proof.
    intros Hcn Eo. unfold compile. rewrite Hcn. cbn [bind]. fold (topo_ok src). rewrite Htopo. cbn [bind].
    fold (G0 src cn outs). rewrite Eo. reflexivity.
  Qed.

  (** compilation succeeds ... *)
  Theorem compile_succeeds :
    stochastic_observed src = false ->
    exists cn g1, compile_outputs (s_nodes src) = Ok cn /\ CO src cn (topo_order src) g1 /\ c_outputs g1 = outs
                  /\ compile src outs = Ok (compile_reduce (G4of src g1)).
  Proof.
    intros Hso. destruct compile_front as [cn [g1 [obl [uses [Hcn [Eo [Hco [Ho1 [Hus1 Hus2]]]]]]]]].
    exists cn, g1. split; [exact Hcn|]. split; [exact Hco|]. split; [exact Ho1|].
    rewrite (compile_unfold cn g1 obl uses Hcn Eo), (check_passes cn g1 uses Hcn Hco Hus1 Hso). reflexivity.
  Qed.

  (** ... and is refused for stochastic observed data, with exactly that error *)
  Theorem stochastic_observed_refused :
    stochastic_observed src = true ->
    exists b, compile src outs = Err (EStochasticObserved b) /\ flag src s_stochastic b = true.
  Proof.
    intros Hso. destruct compile_front as [cn [g1 [obl [uses [Hcn [Eo [Hco [Ho1 [Hus1 Hus2]]]]]]]]].
    destruct (check_refuses cn g1 uses Hcn Hco Hus2 Hso) as [b [Hb Hs]].
    exists b. split; [|exact Hs]. rewrite (compile_unfold cn g1 obl uses Hcn Eo), Hb. reflexivity.
  Qed.
End Front.

(** the stochastic-ancestor check, exactly: given that the first three stages pass, compilation
    succeeds iff the observed data does not depend on a stochastic node *)
Corollary compile_ok_iff src outs :
  wfsrc src -> forallb out_ok (s_nodes src) = true -> topo_ok src = true -> twins_fresh src ->
  ((exists g, compile src outs = Ok g) <-> stochastic_observed src = false).
Proof.
  intros Hwf Hout Ht TF. split.
  - intros [g Hg]. destruct (stochastic_observed src) eqn:E; [|reflexivity].
    destruct (stochastic_observed_refused src outs Hwf Hout Ht TF E) as [b [Hb _]]. congruence.
  - intros E. destruct (compile_succeeds src outs Hwf Hout Ht TF E) as [cn [g1 [_ [_ [_ H]]]]]. eauto.
Qed.

(** ================================================================================== *)
(** ---- the name-sorted DFS order: total on ranked (acyclic) edges, and topological ---- *)
(** ---- generic helpers ---- *)
Lemma app_snoc_decomp {A} (order : list A) w l1 x l2 :
  order ++ [w] = l1 ++ x :: l2 ->
  (l2 = [] /\ x = w /\ l1 = order) \/ exists l2', l2 = l2' ++ [w] /\ order = l1 ++ x :: l2'.
Proof.
  destruct l2 as [|a l2 _] using rev_ind; intros H.
  - apply app_inj_tail in H. destruct H; subst. left; auto.
  - right. change (l1 ++ x :: l2 ++ [a]) with (l1 ++ (x :: l2) ++ [a]) in H.
    rewrite app_assoc in H. apply app_inj_tail in H. destruct H; subst. exists l2; auto.
Qed.

Lemma filter_nil_false {A} (f : A -> bool) l y : filter f l = [] -> In y l -> f y = false.
Proof.
  intros H Hy. destruct (f y) eqn:E; [|reflexivity].
  assert (In y (filter f l)) by (apply filter_In; auto). rewrite H in H0. destruct H0.
Qed.

Lemma sort_names_In_iff l x : In x (sort_names l) <-> In x l.
Proof.
  split; intros H.
  - exact (Permutation_in _ (sort_names_perm _) H).
  - exact (Permutation_in _ (Permutation_sym (sort_names_perm _)) H).
Qed.

Lemma succs_of_edge es x y p : In (x, y, p) es -> In y (succs es x).
Proof.
  intros H. unfold succs. apply in_map_iff. exists (x, y, p). split; [reflexivity|].
  apply filter_In. split; [exact H|]. apply String.eqb_refl.
Qed.

Lemma succs_edge es w n : In n (succs es w) -> exists p, In (w, n, p) es.
Proof.
  unfold succs. intros H. apply in_map_iff in H. destruct H as [[[a b] p] [Hd He]].
  apply filter_In in He. destruct He as [He Hq]. unfold e_src, e_dst in *. simpl in *.
  apply String.eqb_eq in Hq. subst. exists p. exact He.
Qed.

Lemma cand_In es w explored n :
  In n (filter (fun n => negb (mem n explored)) (sort_names (succs es w)))
  <-> In n (succs es w) /\ mem n explored = false.
Proof. rewrite filter_In, sort_names_In_iff, negb_true_iff. tauto. Qed.

(** ---- (4) post-order ---- *)
Definition Post (es : list edge) (explored order : list name) : Prop :=
  (forall x, In x explored -> In x order) /\
  (forall l1 x l2, order = l1 ++ x :: l2 -> forall y, In y (succs es x) -> In y l1).

Lemma dfs_post fuel es : forall fringe seen explored order seen' explored' order',
  Post es explored order ->
  dfs fuel es fringe seen explored order = Ok (seen', explored', order') ->
  Post es explored' order'.
Proof.
  induction fuel as [|f IH]; intros fringe seen explored order seen' explored' order' HP H.
  - destruct fringe; simpl in H; [|discriminate]. inversion H; subst. exact HP.
  - destruct fringe as [|w rest]; simpl in H.
    { inversion H; subst. exact HP. }
    destruct (mem w explored) eqn:Ew.
    + eapply IH; eauto.
    + set (seen2 := if mem w seen then seen else w :: seen) in *.
      remember (filter (fun n => negb (mem n explored)) (sort_names (succs es w))) as cand eqn:Hc.
      destruct (existsb (fun n => mem n seen2) cand); [discriminate|].
      destruct cand as [|c0 cr].
      * eapply IH; [|exact H]. destruct HP as [P1 P2]. split.
        -- intros x [<-|Hx]; apply in_app_iff; [right; now left | left; now apply P1].
        -- intros l1 x l2 E y Hy. apply app_snoc_decomp in E.
           destruct E as [[-> [-> ->]]|[l2' [-> ->]]].
           ++ apply P1. apply mem_In.
              assert (Hf := filter_nil_false _ _ y (eq_sym Hc)).
              simpl in Hf. rewrite negb_false_iff in Hf. apply Hf. now apply sort_names_In_iff.
           ++ eapply P2; eauto.
      * eapply IH; eauto.
Qed.

Lemma dfs_all_post fuel es : forall nbunch seen explored order res,
  Post es explored order ->
  dfs_all fuel es nbunch seen explored order = Ok res ->
  forall a x b, res = a ++ x :: b -> forall y, In y (succs es x) -> In y b.
Proof.
  induction nbunch as [|v r IH]; intros seen explored order res HP H; simpl in H.
  - inversion H; subst. intros a x b E y Hy.
    assert (E2 : order = rev b ++ x :: rev a).
    { rewrite <- (rev_involutive order), E, rev_app_distr. simpl. now rewrite <- app_assoc. }
    apply in_rev. destruct HP as [_ P2]. eapply P2; eauto.
  - destruct (mem v explored); [eapply IH; eauto|].
    destruct (dfs fuel es [v] seen explored order) as [[[seen' explored'] order']|] eqn:Ed; simpl in H; [|discriminate].
    eapply IH; [|exact H]. eapply dfs_post; eauto.
Qed.

Theorem sort_order_topo g so :
  sort_order g = Ok so ->
  forall a x b, so = a ++ x :: b -> forall y p, In (x, y, p) (c_edges g) -> In y b.
Proof.
  unfold sort_order. intros H a x b E y p Hin.
  eapply dfs_all_post; [|exact H|exact E|eapply succs_of_edge; eauto].
  split; [intros ? []|]. intros l1 x0 l2 E0. destruct l1; discriminate.
Qed.

(** ---- (1) totality ---- *)
Definition unseen_edges (es : list edge) (seen : list name) : nat :=
  List.length (filter (fun e => negb (mem (e_src e) seen)) es).

Definition Phi (es : list edge) (fringe seen : list name) : nat :=
  List.length fringe + 2 * unseen_edges es seen.

Lemma filter_len_le {A} (f : A -> bool) l : List.length (filter f l) <= List.length l.
Proof. induction l; simpl; [lia|]. destruct (f a); simpl; lia. Qed.

Lemma mem_cons x w l : mem x (w :: l) = String.eqb x w || mem x l.
Proof. reflexivity. Qed.

Lemma unseen_cons es w seen :
  mem w seen = false ->
  unseen_edges es (w :: seen) + List.length (succs es w) <= unseen_edges es seen.
Proof.
  intros Hw. unfold unseen_edges, succs. induction es as [|e es IH]; [simpl; lia|].
  cbn [filter]. rewrite mem_cons. rewrite (String.eqb_sym (e_src e) w).
  destruct (String.eqb w (e_src e)) eqn:E.
  - apply String.eqb_eq in E. rewrite <- E, Hw. cbn [orb negb map List.length]. lia.
  - cbn [orb]. destruct (mem (e_src e) seen); cbn [negb map List.length]; lia.
Qed.

Lemma unseen_cons_le es w seen : unseen_edges es (w :: seen) <= unseen_edges es seen.
Proof.
  unfold unseen_edges. induction es as [|e es IH]; [simpl; lia|].
  cbn [filter]. rewrite mem_cons.
  destruct (String.eqb (e_src e) w); destruct (mem (e_src e) seen); cbn [orb negb List.length]; lia.
Qed.

Lemma unseen_le es seen : unseen_edges es seen <= List.length es.
Proof. apply filter_len_le. Qed.

Section Total.
  Variable es : list edge.
  Variable r : name -> nat.
  Hypothesis Hr : forall u v p, In (u, v, p) es -> r u < r v.

  Definition DI (fringe seen explored : list name) : Prop :=
    forall x, In x seen -> ~ In x explored ->
      exists f1 f2, fringe = f1 ++ x :: f2 /\ (forall y, In y f1 -> r x < r y)
                    /\ (forall s, In s (succs es x) -> In s explored \/ In s f1).

  Lemma succ_rank w n : In n (succs es w) -> r w < r n.
  Proof. intros H. apply succs_edge in H. destruct H as [p H]. eapply Hr; eauto. Qed.

  Lemma DI_nil seen explored : DI [] seen explored -> forall x, In x seen -> In x explored.
  Proof.
    intros H x Hx. destruct (mem x explored) eqn:E; [now apply mem_In|].
    destruct (H x Hx) as [f1 [f2 [E2 _]]].
    - intros Hin. apply mem_In in Hin. congruence.
    - destruct f1; discriminate.
  Qed.

  Lemma DI_pop w rest seen explored seen2 explored2 :
    DI (w :: rest) seen explored ->
    (forall x, In x seen2 -> ~ In x explored2 -> In x seen /\ ~ In x explored /\ x <> w) ->
    (forall x, In x explored -> In x explored2) ->
    In w explored2 ->
    DI rest seen2 explored2.
  Proof.
    intros HD H1 H2 Hw2 x Hx Hnx. destruct (H1 x Hx Hnx) as [A [B C]].
    destruct (HD x A B) as [f1 [f2 [E [F G]]]].
    destruct f1 as [|a f1']; simpl in E; inversion E; subst.
    - congruence.
    - exists f1', f2. split; [reflexivity|]. split.
      + intros y Hy. apply F. now right.
      + intros s Hs. destruct (G s Hs) as [K|[K|K]]; auto.
        subst. now left.
  Qed.

  Lemma dfs_total : forall fuel fringe seen explored order,
    DI fringe seen explored -> Phi es fringe seen <= fuel ->
    exists seen' explored' order',
      dfs fuel es fringe seen explored order = Ok (seen', explored', order')
      /\ (forall x, In x seen' -> In x explored')
      /\ (forall x, In x explored -> In x explored').
  Proof.
    induction fuel as [|f IH]; intros fringe seen explored order HD HP.
    - destruct fringe as [|w rest]; [|unfold Phi in HP; simpl in HP; lia].
      simpl. exists seen, explored, order. split; [reflexivity|]. split; [now apply DI_nil | auto].
    - destruct fringe as [|w rest].
      { simpl. exists seen, explored, order. split; [reflexivity|]. split; [now apply DI_nil | auto]. }
      simpl. destruct (mem w explored) eqn:Ew.
      + apply IH.
        * eapply DI_pop; [exact HD | | auto | now apply mem_In]. intros x Hx Hnx. repeat split; auto.
          intros ->. apply Hnx. now apply mem_In.
        * unfold Phi in *. simpl in HP. lia.
      + assert (Hnw : ~ In w explored) by (intros Hin; apply mem_In in Hin; congruence).
        set (seen2 := if mem w seen then seen else w :: seen) in *.
        assert (Hs2 : forall n, In n seen2 -> n = w \/ In n seen).
        { unfold seen2. intros n Hn. destruct (mem w seen); [now right|].
          destruct Hn; [left; now subst | now right]. }
        assert (HF : unseen_edges es seen2 <= unseen_edges es seen).
        { unfold seen2. destruct (mem w seen); [lia | apply unseen_cons_le]. }
        pose proof (cand_In es w explored) as Hcand.
        assert (Hlen : List.length (filter (fun n => negb (mem n explored)) (sort_names (succs es w)))
                       <= List.length (succs es w)).
        { etransitivity; [apply filter_len_le|].
          rewrite (Permutation_length (sort_names_perm _)). lia. }
        set (cand := filter (fun n => negb (mem n explored)) (sort_names (succs es w))) in *.
        clearbody cand.
        destruct (existsb (fun n => mem n seen2) cand) eqn:Eex.
        { exfalso. apply existsb_exists in Eex. destruct Eex as [n [Hn Hm]].
          apply Hcand in Hn. destruct Hn as [Hsu Hne]. apply mem_In in Hm.
          pose proof (succ_rank _ _ Hsu) as Hlt.
          destruct (Hs2 n Hm) as [->|Hns]; [lia|].
          destruct (HD n Hns) as [f1 [f2 [E [F G]]]].
          { intros Hin. apply mem_In in Hin. congruence. }
          destruct f1 as [|a f1']; simpl in E; inversion E; subst; [lia|].
          specialize (F a (or_introl eq_refl)). lia. }
        destruct cand as [|c0 cr].
        * destruct (IH rest seen2 (w :: explored) (order ++ [w])) as [s' [e' [o' [A [B C]]]]].
          -- eapply DI_pop; [exact HD | | intros; now right | now left].
             intros x Hx Hnx.
             assert (x <> w) by (intros ->; apply Hnx; now left).
             repeat split; auto.
             ++ destruct (Hs2 x Hx); congruence.
             ++ intros K. apply Hnx. now right.
          -- unfold Phi in *. simpl in HP. lia.
          -- exists s', e', o'. repeat split; auto. intros x Hx. apply C. now right.
        * assert (Es : mem w seen = false).
          { destruct (mem w seen) eqn:Es; [exfalso|reflexivity].
            apply mem_In in Es. destruct (HD w Es Hnw) as [f1 [f2 [E [F G]]]].
            destruct f1 as [|a f1']; simpl in E; inversion E; subst.
            - assert (Hc0 : In c0 (c0 :: cr)) by now left.
              apply Hcand in Hc0. destruct Hc0 as [K1 K2].
              destruct (G c0 K1) as [K|[]]. apply mem_In in K. congruence.
            - specialize (F a (or_introl eq_refl)). lia. }
          assert (E2 : seen2 = w :: seen) by (unfold seen2; now rewrite Es).
          rewrite E2 in *.
          apply IH.
          -- intros x Hx Hnx. destruct (string_dec x w) as [->|Hxw].
             ++ exists (rev (c0 :: cr)), rest. split; [reflexivity|]. split.
                ** intros y Hy. apply in_rev in Hy. apply Hcand in Hy. apply succ_rank. tauto.
                ** intros s Hs. destruct (mem s explored) eqn:Ems; [left; now apply mem_In|].
                   right. apply in_rev. rewrite rev_involutive. apply Hcand. auto.
             ++ assert (Hxs : In x seen) by (destruct Hx; congruence).
                destruct (HD x Hxs Hnx) as [f1 [f2 [E [F G]]]].
                destruct f1 as [|a f1']; simpl in E; inversion E; subst; [congruence|].
                exists (rev (c0 :: cr) ++ a :: f1'), f2. split; [|split].
                ** now rewrite <- app_assoc.
                ** intros y Hy. apply in_app_iff in Hy. destruct Hy as [Hy|Hy]; [|now apply F].
                   apply in_rev in Hy. apply Hcand in Hy. destruct Hy as [Hy _].
                   apply succ_rank in Hy. specialize (F a (or_introl eq_refl)). lia.
                ** intros s Hs. destruct (G s Hs); [now left|]. right. apply in_app_iff. now right.
          -- pose proof (unseen_cons es w seen Es) as HU.
             unfold Phi in *. rewrite app_length, rev_length. simpl in *. lia.
  Qed.

  (** ---- (2) ---- *)
  Lemma dfs_all_total : forall nbunch fuel seen explored order,
    (forall x, In x seen -> In x explored) -> 1 + 2 * List.length es <= fuel ->
    exists res, dfs_all fuel es nbunch seen explored order = Ok res.
  Proof.
    induction nbunch as [|v nb IH]; intros fuel seen explored order Hsub Hf; simpl.
    - eexists; reflexivity.
    - destruct (mem v explored); [now apply IH|].
      destruct (dfs_total fuel [v] seen explored order) as [s' [e' [o' [A [B C]]]]].
      + intros x Hx Hnx. exfalso. apply Hnx. now apply Hsub.
      + unfold Phi. simpl. pose proof (unseen_le es seen). lia.
      + rewrite A. simpl. now apply IH.
  Qed.
End Total.

(** ---- (3) ---- *)
Theorem sort_order_total g (r : name -> nat) :
  (forall u v p, In (u, v, p) (c_edges g) -> r u < r v) -> exists so, sort_order g = Ok so.
Proof.
  intros Hr. unfold sort_order. eapply dfs_all_total; [exact Hr | intros ? [] | lia].
Qed.

(** ================================================================================== *)
(** ---- the executor succeeds on a net whose name-sorted order is topological ---- *)
Lemma lookup_Some_In {A} n (l : list (name * A)) a : lookup n l = Some a -> In n (map fst l).
Proof.
  induction l as [|[m b] r IH]; cbn [lookup map fst]; [discriminate|].
  destruct (String.eqb n m) eqn:E.
  - intros _. left. apply String.eqb_eq in E. now subst.
  - intros H. right. now apply IH.
Qed.

Lemma has_In_fwd {A} n (l : list (name * A)) : has n l = true -> In n (map fst l).
Proof.
  unfold has. destruct (lookup n l) eqn:E; [|discriminate]. intros _. eapply lookup_Some_In; eauto.
Qed.


Lemma collect_ok g : forall outs, (forall n, In n outs -> has_out g n = true) -> exists res, collect g outs = Ok res.
Proof.
  induction outs as [|n r IH]; intros H; cbn [collect]; [eauto|].
  pose proof (H n (or_introl eq_refl)) as Hu. unfold has_out in Hu.
  destruct (lookup n (c_nodes g)) as [c|]; [|discriminate]. destruct (c_out c); [|discriminate].
  destruct IH as [rest ->]; [intros; eapply H; right; eauto|]. cbn [bind]. eauto.
Qed.

Lemma scan_nodes_ok g : forall so,
  (forall x, In x so -> has x (c_nodes g) = true) ->
  (forall n c, lookup n (c_nodes g) = Some c ->
     (c_out c = None /\ c_op c <> None) \/ (c_out c <> None /\ c_op c = None)) ->
  scan_nodes g so = Ok tt.
Proof.
  induction so as [|n r IH]; intros Hn Hx; cbn [scan_nodes]; [reflexivity|].
  pose proof (Hn n (or_introl eq_refl)) as Hh. unfold has in Hh.
  destruct (lookup n (c_nodes g)) as [c|] eqn:El; [|discriminate].
  destruct (Hx n c El) as [[A B]|[A B]].
  - rewrite A. destruct (c_op c); [|congruence]. apply IH; auto. intros; apply Hn; now right.
  - rewrite B. destruct (c_out c); [|congruence]. apply IH; auto. intros; apply Hn; now right.
Qed.

Lemma has_out_add_same n v o g : has_out (add_node n {| c_out := Some v; c_op := o |} g) n = true.
Proof. unfold has_out. now rewrite lookup_add_node_same. Qed.

Lemma has_out_add_other n m c g : n <> m -> has_out (add_node n c g) m = has_out g m.
Proof. intros H. unfold has_out. now rewrite lookup_add_node_other. Qed.

Lemma call_ok_positional o (pv : list (param * value)) :
  (o = OpTuple -> forall p, In p (map fst pv) -> exists i, p = PInt i) -> call_ok o pv = true.
Proof.
  intros H. destruct o; [reflexivity|]. cbn [call_ok]. apply forallb_forall. intros x Hx.
  destruct (H eq_refl (fst x)) as [i ->]; [now apply in_map | reflexivity].
Qed.

Section Run.
  Variables (g : cnet) (so : list name) (P : name -> bool).
  Hypothesis Hnd : NoDup so.
  Hypothesis Htopo : forall a x b, so = a ++ x :: b -> forall y p, In (x, y, p) (c_edges g) -> In y b.
  Hypothesis Hnodes : forall x, In x so -> has x (c_nodes g) = true.
  Hypothesis Hone : forall n c, lookup n (c_nodes g) = Some c ->
     (c_out c = None /\ c_op c <> None) \/ (c_out c <> None /\ c_op c = None).
  Hypothesis Htuple : forall n c, lookup n (c_nodes g) = Some c -> c_op c = Some OpTuple ->
     forall u p, In (u, p) (preds (c_edges g) n) -> exists i, p = PInt i.
  (* every parent without output of a selected node without output is a selected member of so *)
  Hypothesis Hclosed : forall u n p, In (u, n, p) (c_edges g) -> P n = true -> has_out g n = false ->
     has_out g u = false -> P u = true /\ In u so.

  Definition RI (done : list name) (g' : cnet) : Prop :=
    c_edges g' = c_edges g /\
    (forall n, ~ In n done -> lookup n (c_nodes g') = lookup n (c_nodes g)) /\
    (forall n, In n done -> P n = true -> has_out g' n = true) /\
    (forall n, has_out g n = true -> has_out g' n = true).

  Lemma before a n b u p : so = a ++ n :: b -> In (u, n, p) (c_edges g) -> In u so -> In u a.
  Proof.
    intros Hso He Hu. pose proof Hnd as Hnd'. rewrite Hso in Hnd'. apply NoDup_remove_2 in Hnd'.
    rewrite Hso in Hu. apply in_app_or in Hu. destruct Hu as [Hu|[Hu|Hu]]; [exact Hu| |].
    - subst u. exfalso. apply Hnd'. apply in_or_app. right. eapply Htopo; eauto.
    - exfalso. apply in_split in Hu. destruct Hu as [c1 [c2 Hb]].
      assert (Hso' : so = (a ++ n :: c1) ++ u :: c2).
      { rewrite Hso, Hb. rewrite <- app_assoc. reflexivity. }
      pose proof (Htopo _ _ _ Hso' _ _ He) as Hin.
      apply Hnd'. apply in_or_app. right. rewrite Hb. apply in_or_app. right. now right.
  Qed.

  Lemma run_suffix : forall b a g' log, so = a ++ b -> RI a g' ->
    exists g'' log', run_order g' (filter P b) log = Ok (g'', log') /\ RI so g''.
  Proof.
    induction b as [|n b IH]; intros a g' log Hso HR.
    - cbn [filter run_order]. rewrite app_nil_r in Hso. subst a. eauto.
    - assert (Hso' : so = (a ++ [n]) ++ b) by (rewrite <- app_assoc; exact Hso).
      destruct HR as (R1 & R2 & R3 & R4).
      cbn [filter]. destruct (P n) eqn:EP.
      2:{ apply (IH (a ++ [n]) g' log Hso'). repeat split; auto.
          - intros m Hm. apply R2. intros Hin. apply Hm. apply in_or_app. now left.
          - intros m Hm Hp. apply in_app_or in Hm. destruct Hm as [Hm|[->|[]]]; [auto | congruence]. }
      assert (Hna : ~ In n a).
      { pose proof Hnd as Hnd'. rewrite Hso in Hnd'. apply NoDup_remove_2 in Hnd'.
        intros Hin. apply Hnd'. apply in_or_app. now left. }
      assert (Hns : In n so) by (rewrite Hso; apply in_or_app; right; now left).
      rewrite run_order_cons. rewrite (R2 n Hna).
      pose proof (Hnodes n Hns) as Hh. unfold has in Hh.
      destruct (lookup n (c_nodes g)) as [c|] eqn:El; [|discriminate].
      destruct (Hone n c El) as [[A B]|[A B]].
      + rewrite A. destruct (c_op c) as [o|] eqn:Eo; [|congruence].
        assert (Hng : has_out g n = false) by (unfold has_out; now rewrite El, A).
        destruct (gather_ok g' (preds (c_edges g') n)) as [pv Eg].
        { intros u p Hin. rewrite R1 in Hin. apply preds_In in Hin.
          destruct (has_out g u) eqn:Eu; [now apply R4|].
          destruct (Hclosed u n p Hin EP Hng Eu) as [Pu Us].
          apply R3; [|exact Pu]. eapply before; eauto. }
        rewrite Eg. cbn [bind].
        destruct (gather_inv _ _ _ Eg) as [Hk _].
        rewrite call_ok_positional.
        2:{ intros -> p Hp. rewrite Hk, R1 in Hp. apply in_map_iff in Hp.
            destruct Hp as [[u p'] [Hp1 Hp2]]. cbn [snd] in Hp1. subst p'.
            eapply Htuple; eauto. }
        cbn [negb].
        apply (IH (a ++ [n]) _ (log ++ [n]) Hso'). repeat split.
        * cbn [add_node c_edges]. exact R1.
        * intros m Hm. rewrite lookup_add_node_other.
          -- apply R2. intros Hin. apply Hm. apply in_or_app. now left.
          -- intros ->. apply Hm. apply in_or_app. right. now left.
        * intros m Hm Hp. destruct (string_dec n m) as [->|Hne]; [apply has_out_add_same|].
          rewrite has_out_add_other by exact Hne.
          apply in_app_or in Hm. destruct Hm as [Hm|[->|[]]]; [auto | congruence].
        * intros m Hm. destruct (string_dec n m) as [->|Hne]; [apply has_out_add_same|].
          rewrite has_out_add_other by exact Hne. auto.
      + rewrite B. destruct (c_out c) as [v|] eqn:Eo; [|congruence].
        assert (Hng : has_out g n = true) by (unfold has_out; now rewrite El, Eo).
        apply (IH (a ++ [n]) g' log Hso'). repeat split; auto.
        * intros m Hm. apply R2. intros Hin. apply Hm. apply in_or_app. now left.
        * intros m Hm Hp. apply in_app_or in Hm. destruct Hm as [Hm|[->|[]]]; [auto | auto].
  Qed.

  Lemma run_all log : exists g'' log', run_order g (filter P so) log = Ok (g'', log') /\ RI so g''.
  Proof.
    apply (run_suffix so [] g log eq_refl). repeat split; auto.
  Qed.
End Run.

Theorem execute_total g so :
  sort_order g = Ok so ->
  (forall a x b, so = a ++ x :: b -> forall y p, In (x, y, p) (c_edges g) -> In y b) ->
  (forall x, In x so -> has x (c_nodes g) = true) ->
  eclosed g ->
  (forall n c, lookup n (c_nodes g) = Some c ->
     (c_out c = None /\ c_op c <> None) \/ (c_out c <> None /\ c_op c = None)) ->
  (forall n c, lookup n (c_nodes g) = Some c -> c_op c = Some OpTuple ->
     forall u p, In (u, p) (preds (c_edges g) n) -> exists i, p = PInt i) ->
  (forall o, In o (c_outputs g) -> has o (c_nodes g) = true) ->
  exists r, execute g empty_cache = Ok r.
Proof.
  intros Hso Htopo Hnodes Hecl Hone Htuple Houts.
  pose proof (sort_order_NoDup _ _ Hso) as Hnd.
  unfold execute, get_execution_order.
  fold (needed_of g). fold (dep_of g).
  destruct (needed_of g) as [|n0 nr] eqn:En.
  - cbn [bind]. cbn [run_order bind].
    destruct (collect_ok g (sort_names (dedup_names (c_outputs g)))) as [res Hres].
    { intros n Hn. apply (Permutation_in _ (sort_names_perm _)) in Hn. apply dedup_names_In in Hn.
      pose proof (Houts n Hn) as Hh. unfold has in Hh.
      destruct (lookup n (c_nodes g)) as [c|] eqn:El; [|discriminate].
      destruct (has_out g n) eqn:Eo; [reflexivity|]. exfalso.
      assert (Hin : In n (needed_of g)).
      { unfold needed_of. apply (Permutation_in _ (Permutation_sym (sort_names_perm _))).
        apply In_dedup_names. apply filter_In. split; [exact Hn|].
        unfold has_op. rewrite El. unfold has_out in Eo. rewrite El in Eo.
        destruct (Hone n c El) as [[A B]|[A B]].
        - destruct (c_op c); congruence.
        - destruct (c_out c); congruence. }
      rewrite En in Hin. destruct Hin. }
    rewrite Hres. cbn [bind]. eauto.
  - rewrite <- En. clear En n0 nr.
    cbn [lookup_order empty_cache ec_orders ec_sort]. rewrite Hso. cbn [bind].
    rewrite (scan_nodes_ok g so Hnodes Hone). cbn [bind].
    set (exec := ancestors_incl (dep_of g) (needed_of g)).
    destruct (ancestors_incl_complete (dep_of g) (needed_of g)) as [Hroots Hcl]. fold exec in Hroots, Hcl.
    destruct (run_all g so (fun n => mem n exec) Hnd Htopo Hnodes Hone Htuple) with (log := @nil name)
      as [g'' [log' [Hrun HR]]].
    { intros u n p He Pn Hn Hu. split.
      - apply mem_In. apply mem_In in Pn.
        apply (Hcl (u, n, p)); [|exact Pn].
        unfold dep_of. apply filter_In. split; [exact He|]. unfold e_src, e_dst. cbn [fst snd].
        now rewrite Hn, Hu.
      - destruct (Hecl _ He) as [Hs _]. unfold e_src in Hs. cbn [fst] in Hs.
        eapply sort_order_complete; eauto. now apply has_In_fwd. }
    rewrite Hrun. cbn [bind].
    destruct HR as (R1 & R2 & R3 & R4).
    destruct (collect_ok g'' (sort_names (dedup_names (c_outputs g)))) as [res Hres].
    { intros n Hn. apply (Permutation_in _ (sort_names_perm _)) in Hn. apply dedup_names_In in Hn.
      pose proof (Houts n Hn) as Hh.
      destruct (has_out g n) eqn:Eo; [now apply R4|].
      pose proof Hh as Hh'. unfold has in Hh'.
      destruct (lookup n (c_nodes g)) as [c|] eqn:El; [|discriminate].
      assert (Hin : In n (needed_of g)).
      { unfold needed_of. apply (Permutation_in _ (Permutation_sym (sort_names_perm _))).
        apply In_dedup_names. apply filter_In. split; [exact Hn|].
        unfold has_op. rewrite El. unfold has_out in Eo. rewrite El in Eo.
        destruct (Hone n c El) as [[A B]|[A B]].
        - destruct (c_op c); congruence.
        - destruct (c_out c); congruence. }
      apply R3.
      - eapply sort_order_complete; eauto. now apply has_In_fwd.
      - apply mem_In. now apply Hroots. }
    rewrite Hres. cbn [bind]. eauto.
Qed.


(** ================================================================================== *)
(** ---- the name-sorted order lists nodes only ---- *)
Lemma dfs_explored_in (N : name -> Prop) es :
  (forall w n, N w -> In n (succs es w) -> N n) ->
  forall fuel fringe seen explored order s' e' o',
  (forall x, In x fringe -> N x) -> (forall x, In x explored -> N x) ->
  dfs fuel es fringe seen explored order = Ok (s', e', o') -> forall x, In x e' -> N x.
Proof.
  intros HN. induction fuel as [|f IH]; intros fringe seen explored order s' e' o' Hf He H.
  - destruct fringe; simpl in H; [inversion H; subst; auto | discriminate].
  - destruct fringe as [|w rest]; simpl in H; [inversion H; subst; auto|].
    destruct (mem w explored) eqn:Ew.
    + eapply IH; [| |exact H]; auto. intros x Hx. apply Hf. now right.
    + set (seen2 := if mem w seen then seen else w :: seen) in *.
      destruct (existsb (fun n => mem n seen2) (filter (fun n => negb (mem n explored)) (sort_names (succs es w))));
        [discriminate|].
      destruct (filter (fun n => negb (mem n explored)) (sort_names (succs es w))) as [|c0 cr] eqn:Ec.
      * eapply IH; [| |exact H].
        -- intros x Hx. apply Hf. now right.
        -- intros x [<-|Hx]; [apply Hf; now left | now apply He].
      * eapply IH; [| |exact H]; [|exact He].
        intros x Hx. apply in_app_iff in Hx. destruct Hx as [Hx|Hx]; [|now apply Hf].
        apply in_rev in Hx. rewrite <- Ec in Hx. apply cand_In in Hx. destruct Hx as [Hx _].
        apply (HN w x); [apply Hf; now left | exact Hx].
Qed.

Lemma dfs_all_in (N : name -> Prop) es fuel :
  (forall w n, N w -> In n (succs es w) -> N n) ->
  forall nbunch seen explored order res,
  (forall x, In x nbunch -> N x) -> (forall x, In x explored -> N x) ->
  NoDup order -> (forall x, In x order -> In x explored) ->
  dfs_all fuel es nbunch seen explored order = Ok res -> forall x, In x res -> N x.
Proof.
  intros HN. induction nbunch as [|v r IH]; intros seen explored order res Hb He Hnd Hsub H; simpl in H.
  - inversion H; subst. intros x Hx. apply in_rev in Hx. auto.
  - destruct (mem v explored).
    + eapply IH; [| | | |exact H]; auto. intros x Hx. apply Hb. now right.
    + destruct (dfs fuel es [v] seen explored order) as [[[seen' explored'] order']|] eqn:Ed; simpl in H; [|discriminate].
      destruct (dfs_order_inv _ _ _ _ _ _ _ _ _ Hnd Hsub Ed) as [A [B C]].
      eapply IH; [| | | |exact H]; auto.
      * intros x Hx. apply Hb. now right.
      * eapply (dfs_explored_in N es HN); [| |exact Ed]; auto. intros x [<-|[]]. apply Hb. now left.
Qed.

Lemma sort_order_nodes g so : eclosed g -> sort_order g = Ok so -> forall x, In x so -> has x (c_nodes g) = true.
Proof.
  intros Hc H. unfold sort_order in H.
  eapply (dfs_all_in (fun x => has x (c_nodes g) = true)); [| | | | |exact H].
  - intros w n _ Hn. cbv beta. destruct (succs_edge _ _ _ Hn) as [p He]. exact (proj2 (Hc _ He)).
  - intros x Hx. apply (proj1 (sort_names_In_iff _ _)) in Hx. cbv beta. apply C02_Insertion.has_In. exact Hx.
  - intros x [].
  - constructor.
  - intros x [].
Qed.

(** ================================================================================== *)
(** ---- a ranking of the compiled net: reserved nodes, then per source node its twin and itself ---- *)
Lemma instr_edges_in fl i l e : In e (instr_edges_of fl i l) -> exists ns, In ns l /\ e_src e = i /\ e_dst e = fst ns.
Proof.
  unfold instr_edges_of. intros He. apply in_flat_map in He. destruct He as [ns [Hin He]].
  destruct (fl (snd ns)); [|destruct He]. destruct He as [<-|[]]. exists ns. auto.
Qed.

Definition pos (src : snet) (n : name) : nat := List.length (firstn_before n (topo_order src)).
Definition rk (src : snet) (x : name) : nat :=
  if mem x inames then 0 else
  match lookup x (s_nodes src) with
  | Some _ => 2 * pos src x + 2
  | None => match find (fun ns : name * sstate => String.eqb (observed_name (fst ns)) x) (s_nodes src) with
            | Some ns => 2 * pos src (fst ns) + 1
            | None => 0
            end
  end.

Section Rank.
  Variables (src : snet) (cn : list (name * cnode)) (g1 : cnet).
  Hypothesis Hwf : wfsrc src.
  Hypothesis Hcn : compile_outputs (s_nodes src) = Ok cn.
  Hypothesis Htopo : topo_ok src = true.
  Hypothesis Hco : CO src cn (topo_order src) g1.

  Lemma rk_iname i : In i inames -> rk src i = 0.
  Proof. unfold rk. intros H. apply mem_In in H. now rewrite H. Qed.

  Lemma rk_src x st : lookup x (s_nodes src) = Some st -> rk src x = 2 * pos src x + 2.
  Proof.
    intros Hl. unfold rk. destruct (mem x inames) eqn:E.
    - apply mem_In in E. pose proof (wf_reserved _ Hwf x E) as H. unfold has in H. rewrite Hl in H. discriminate.
    - now rewrite Hl.
  Qed.

  Lemma rk_twin m st : lookup m (s_nodes src) = Some st -> flagged st = true -> rk src (observed_name m) = 2 * pos src m + 1.
  Proof.
    intros Hl Hfl. unfold rk. destruct (mem (observed_name m) inames) eqn:E.
    - apply mem_In in E. exfalso. exact (observed_name_not_reserved m E).
    - rewrite (twin_lookup_none src cn g1 Hcn Hco m st Hl Hfl).
      destruct (find (fun ns : name * sstate => String.eqb (observed_name (fst ns)) (observed_name m)) (s_nodes src))
        as [[m' st']|] eqn:Ef.
      + apply find_some in Ef. destruct Ef as [_ Ef]. cbn [fst] in Ef. apply String.eqb_eq in Ef.
        apply observed_name_inj in Ef. now subst.
      + exfalso. pose proof (find_none _ _ Ef (m, st) (lookup_In_pair _ _ _ Hl)) as H. cbn [fst] in H.
        now rewrite String.eqb_refl in H.
  Qed.

  Lemma rk_link n u p : In (u, p) (preds (s_edges src) n) -> rk src (link src u) <= 2 * pos src u + 2.
  Proof.
    intros Hup. unfold link. destruct (flag src s_observable u) eqn:F.
    - destruct (flag_true _ _ _ F) as [su [Hlu Hou]].
      rewrite (rk_twin u su Hlu) by (unfold flagged; now rewrite Hou). lia.
    - pose proof (parent_is_node src Hwf n u p Hup) as H. apply has_lookup in H. destruct H as [su Hlu].
      rewrite (rk_src u su Hlu). lia.
  Qed.

  Lemma g4_ranked e : In e (c_edges (G4of src g1)) -> rk src (e_src e) < rk src (e_dst e).
  Proof.
    rewrite (g4_edges src cn g1 Hwf Hco), !in_app_iff.
    assert (Hi : forall fl i, In i inames -> In e (instr_edges_of fl i (s_nodes src)) -> rk src (e_src e) < rk src (e_dst e)).
    { intros fl i Hin H. destruct (instr_edges_in _ _ _ _ H) as [[n st] [Hns [Hs Hd]]]. rewrite Hs, Hd. cbn [fst].
      rewrite (rk_iname i Hin), (rk_src n st (In_pair_lookup _ _ _ (wf_nodup _ Hwf) Hns)). lia. }
    intros [[[[H|H]|H]|H]|H].
    - destruct e as [[u v] p]. destruct (wf_edges _ Hwf _ H) as [H1 H2]. unfold e_src, e_dst in *. cbn [fst snd] in *.
      apply has_lookup in H1, H2. destruct H1 as [su Hu]. destruct H2 as [sv Hv].
      rewrite (rk_src u su Hu), (rk_src v sv Hv).
      pose proof (topo_ok_ranking src Htopo u v p H (lookup_key_In _ _ _ Hv)). unfold pos. lia.
    - apply in_flat_map in H. destruct H as [n [_ He]]. apply twin_edges_in in He.
      destruct He as [st [Hl [Hfl [->|[u [p [Hup ->]]]]]]]; unfold e_src, e_dst; cbn [fst snd].
      + rewrite (rk_twin n st Hl Hfl), (rk_src n st Hl). lia.
      + rewrite (rk_twin n st Hl Hfl). pose proof (rk_link n u p Hup).
        pose proof (topo_ok_ranking src Htopo u n p (preds_In _ _ _ _ Hup) (lookup_key_In _ _ _ Hl)). unfold pos in *. lia.
    - apply (Hi s_uses_batch_size "_batch_size"%string); [simpl; tauto | exact H].
    - apply (Hi s_uses_meta "_meta"%string); [simpl; tauto | exact H].
    - apply (Hi s_stochastic "_random_state"%string); [simpl; tauto | exact H].
  Qed.
End Rank.

(** ================================================================================== *)
(** ---- [generate] succeeds ---- *)
(** args_to_tuple takes positional arguments only: the parents of an observed-using (not observable,
    not stochastic) node, which are copied to its args_to_tuple twin, must all be positional *)
Definition tuple_positional (src : snet) : Prop :=
  forall m st, lookup m (s_nodes src) = Some st -> s_observable st = false -> s_uses_observed st = true ->
    s_stochastic st = false -> forall u p, In (u, p) (preds (s_edges src) m) -> exists i, p = PInt i.

Theorem generate_succeeds src outs W :
  wfsrc src ->
  forallb out_ok (s_nodes src) = true ->           (* every node: exactly one of output / operation *)
  topo_ok src = true ->                            (* acyclic, as the compiler checks it *)
  twins_fresh src ->                               (* no node is named like the twin of a flagged node *)
  stochastic_observed src = false ->
  tuple_positional src ->
  outputs_wf src outs -> NoDup (map fst W) -> (forall k, In k (map fst W) -> ~ In k inames) ->
  exists out log, generate src outs W = Ok (out, log).
Proof.
  intros Hwf Hout Htopo TF Hso Hpos Howf HWnd HWi.
  destruct (compile_succeeds src outs Hwf Hout Htopo TF Hso) as [cn [g1 [Hcn [Hco [Ho1 Hc]]]]].
  pose proof (Pin_load W _ HWnd (Pin_compile _ _ _ Hwf Hc)) as HP.
  pose proof (eclosed_lg src W cn g1 Hwf Hcn Hco) as Hecl.
  pose proof (lg_outputs src W outs g1 Ho1) as Hlo.
  pose proof (lg_names_keep src W outs cn g1 Hwf Howf Hcn Hco Ho1) as Hkeep.
  assert (Hrank : forall u v p, In (u, v, p) (c_edges (load (wp W) (compile_reduce (G4of src g1)))) -> rk src u < rk src v).
  { intros u v p He. rewrite (lg_edges src W g1) in He. apply gr_edge_sub in He.
    exact (g4_ranked src cn g1 Hwf Hcn Htopo Hco _ He). }
  set (lg := load (wp W) (compile_reduce (G4of src g1))) in *.
  destruct (sort_order_total lg (rk src) Hrank) as [so Eso].
  assert (Hnodes : forall n, has n (c_nodes lg) = true -> Nd src n \/ In n inames).
  { intros n Hn. apply C02_Insertion.has_In in Hn. apply Hkeep in Hn. exact (keep_class src outs cn g1 n Hwf Howf Hco Hn). }
  assert (Hnodes' : forall n c, lookup n (c_nodes lg) = Some c -> Nd src n \/ In n inames).
  { intros n c Hl. apply Hnodes. unfold has. now rewrite Hl. }
  destruct (execute_total lg so Eso) as [[[out log] c'] Ee].
  - exact (sort_order_topo lg so Eso).
  - exact (sort_order_nodes lg so Hecl Eso).
  - exact Hecl.
  - intros n c Hl. destruct (Hnodes' n c Hl) as [HN|Hi].
    + destruct (Nd_lg_state src W cn g1 Hwf HWnd Hcn Hco n c HN Hl) as [A B].
      destruct (given src W n); destruct (c_out c), (c_op c); simpl in *; try discriminate;
        [right | left]; split; congruence.
    + right. rewrite (lg_runtime_node src W g1 HWnd HWi n c Hi Hl), (HP n c Hi Hl). split; congruence.
  - intros n c Hl Hop u p Hup. destruct (Hnodes' n c Hl) as [[[st Hst]|[m [st [-> [Hst Hfl]]]]]|Hi].
    + destruct (lg_source_node src W cn g1 Hwf HWnd Hcn Hco n st c Hst Hl) as [_ Hc'].
      destruct (lookup n W); [subst c; discriminate|].
      destruct Hc' as [[v [_ [_ ->]]]|[_ [_ ->]]]; discriminate.
    + destruct (lg_twin_node src W cn g1 Hwf HWnd Hcn Hco m st c Hst Hfl Hl) as [Hp Hc'].
      fold lg in Hp. rewrite Hp in Hup.
      destruct (lookup (observed_name m) W); [subst c; discriminate|].
      destruct (lookup m (s_observed src)); [destruct Hc' as [_ ->]; discriminate|]. subst c.
      unfold twin_cnode in Hop. cbn [c_op] in Hop.
      destruct (s_observable st) eqn:Eo; [discriminate|].
      destruct (s_stochastic st) eqn:Es; [destruct Hup|].
      unfold linked in Hup. apply in_map_iff in Hup. destruct Hup as [[u' p'] [Heq Hin]]. cbn [fst snd] in Heq.
      inversion Heq; subst. apply (Hpos m st Hst Eo) with (u := u'); [|exact Es|exact Hin].
      unfold flagged in Hfl. now rewrite Eo in Hfl.
    + rewrite (HP n c Hi Hl) in Hop. discriminate.
  - intros o Ho. rewrite Hlo in Ho. apply C02_Insertion.has_In. apply Hkeep. apply ancestors_incl_iff.
    exists o. split; [exact Ho | constructor].
  - exists out, log. unfold generate. rewrite Hc. cbn [bind].
    change (map (fun nv : name * value => (fst nv, Some (snd nv))) W) with (wp W). fold lg. rewrite Ee. reflexivity.
Qed.

(** existence + soundness: under the hypotheses [generate] returns exactly the user-level meaning
    [den_name] of the requested outputs, and the run passes the check [Denote.ok] *)
Theorem generate_total_and_sound src outs W :
  wfsrc src -> forallb out_ok (s_nodes src) = true -> topo_ok src = true -> twins_fresh src ->
  stochastic_observed src = false -> tuple_positional src ->
  outputs_wf src outs -> NoDup (map fst W) -> (forall k, In k (map fst W) -> ~ In k inames) ->
  exists out log,
    generate src outs W = Ok (out, log)
    /\ map fst out = sort_names (dedup_names outs)
    /\ (forall o v, In (o, v) out -> den_name src W o = Some v)
    /\ ok {| k_src := src; k_outputs := outs; k_with := W; k_impl := ImplOk out (op_log src log) |} = true.
Proof.
  intros Hwf Hout Htopo TF Hso Hpos Howf HWnd HWi.
  destruct (generate_succeeds src outs W Hwf Hout Htopo TF Hso Hpos Howf HWnd HWi) as [out [log Hg]].
  exists out, log. split; [exact Hg|].
  pose proof (model_ok src outs W out log Hwf HWnd HWi Howf Hg) as Hok.
  assert (Hkeys : map fst out = sort_names (dedup_names outs)).
  { unfold ok in Hok. cbn [k_impl k_src k_outputs k_with] in Hok.
    apply andb_true_iff in Hok. destruct Hok as [Hok _]. apply andb_true_iff in Hok. destruct Hok as [_ Hk].
    now apply names_eqb_eq in Hk. }
  split; [exact Hkeys|]. split; [|exact Hok].
  intros o v Hin. apply (generate_sound src outs W out log Hwf HWnd HWi Hg o v Hin).
  apply Howf. apply dedup_names_In. apply (Permutation_in _ (sort_names_perm _)). rewrite <- Hkeys.
  apply in_map_iff. exists (o, v). auto.
Qed.

(** ================================================================================== *)
(** ---- [tuple_positional] is a condition of its own: a finding about the predicate [ok] ----
    A constant feeding an observed-using operation through a NAMED parameter: a named DAG with
    exactly one of output / operation per node ([wfsrc_b], and the first version of
    [Denote.wf_case], [C03_Refusal.wf_case_old]), its observed data depends on no stochastic node,
    yet the model refuses the run ([EBadCall] on the args_to_tuple twin).  [Denote.wf_case] now
    asks for positional parents of args_to_tuple twins, so the graph is not [wf_case] and [ok]
    accepts the refusal ([C03_Refusal.tuple_named_parent_old]: the first version rejected it).  *)
Definition np_st (o : option value) (op uo : bool) (id : name) : sstate :=
  {| s_output := o; s_has_op := op; s_stochastic := false; s_observable := false; s_uses_observed := uo;
     s_uses_batch_size := false; s_uses_meta := false; s_parameter := false; s_opid := id |}.
Definition np_src : snet :=
  {| s_nodes := [("c"%string, np_st (Some (VConst 1)) false false "c"%string);
                 ("d"%string, np_st None true true "d"%string)];
     s_edges := [("c"%string, "d"%string, PStr "x"%string)];
     s_observed := [] |}.

Example tuple_named_parent_refused :
  generate np_src ["d"%string] [] = Err (EBadCall "_d_observed"%string)
  /\ wfsrc_b np_src = true
  /\ wf_case {| k_src := np_src; k_outputs := ["d"%string]; k_with := []; k_impl := ImplErr |} = false
  /\ stochastic_observed np_src = false
  /\ ok {| k_src := np_src; k_outputs := ["d"%string]; k_with := []; k_impl := ImplErr |} = true
  /\ agree {| k_src := np_src; k_outputs := ["d"%string]; k_with := []; k_impl := ImplErr |} = true.
Proof. vm_compute. repeat split; reflexivity. Qed.

(** the same graph with a positional parameter runs *)
Example tuple_positional_parent_runs :
  exists out log,
    generate {| s_nodes := s_nodes np_src; s_edges := [("c"%string, "d"%string, PInt 0)]; s_observed := [] |}
             ["d"%string] [] = Ok (out, log).
Proof. vm_compute. eexists. eexists. reflexivity. Qed.

(** ---- decidable forms of the two new hypotheses, for concrete nets ---- *)
Definition twins_fresh_b (src : snet) : bool :=
  forallb (fun ns : name * sstate =>
             if flagged (snd ns) then negb (has (observed_name (fst ns)) (s_nodes src)) else true) (s_nodes src).

Lemma twins_fresh_b_sound src : twins_fresh_b src = true -> twins_fresh src.
Proof.
  intros H n st Hl Hfl. unfold twins_fresh_b in H. rewrite forallb_forall in H.
  specialize (H (n, st) (lookup_In_pair _ _ _ Hl)). cbn [fst snd] in H. rewrite Hfl in H.
  now apply negb_true_iff in H.
Qed.

Definition tuple_positional_b (src : snet) : bool :=
  forallb (fun ns : name * sstate =>
             if negb (s_observable (snd ns)) && s_uses_observed (snd ns) && negb (s_stochastic (snd ns))
             then forallb (fun pp : name * param => match snd pp with PInt _ => true | PStr _ => false end)
                          (preds (s_edges src) (fst ns))
             else true) (s_nodes src).

Lemma tuple_positional_b_sound src : tuple_positional_b src = true -> tuple_positional src.
Proof.
  intros H m st Hl Ho Hu Hs u p Hup. unfold tuple_positional_b in H. rewrite forallb_forall in H.
  specialize (H (m, st) (lookup_In_pair _ _ _ Hl)). cbn [fst snd] in H. rewrite Ho, Hu, Hs in H. cbn [negb andb] in H.
  rewrite forallb_forall in H. specialize (H (u, p) Hup). cbn [snd] in H. destruct p; [eauto | discriminate].
Qed.
