(** Binary64 facts behind the NUTS support invariant: how the comparison
    [log_slicevar <= target(params1) - 0.5 * |momentum1|^2] excludes [-inf] and [nan] targets.
    Uses the standard library's specification of the primitive floats (FloatAxioms:
    [leb_spec], [eqb_spec], [sub_spec]); nothing else.                                          *)
From Coq Require Import Bool ZArith List Floats.
From Elfi Require Import Num.Mcmc Num.Nuts Proofs.C09_Nuts.
Import ListNotations.

(** the value is [nan] or [-inf] *)
Definition bad (x : float) : bool := is_nan x || (x =? neg_infinity)%float.

(** [n_ok = float(log_slicevar <= log_joint)] with [log_joint = target(params1) - kinetic] *)
Definition leaf_in (ls t k : float) : bool := (ls <=? t - k)%float.

Definition sbad (x : spec_float) : bool := negb (SFeqb x x) || SFeqb x (S754_infinity true).

Lemma bad_spec : forall x, bad x = sbad (Prim2SF x).
Proof.
  intros. unfold bad, sbad, is_nan. rewrite !eqb_spec. reflexivity.
Qed.

Lemma sbad_cases : forall x, sbad x = true <-> x = S754_nan \/ x = S754_infinity true.
Proof.
  intros x. unfold sbad, SFeqb. destruct x as [s|s| |s m e]; simpl.
  - split; [discriminate|intros [H|H]; discriminate].
  - destruct s; simpl; split; auto; try discriminate. intros [H|H]; discriminate.
  - split; auto.
  - destruct s; rewrite Z.compare_refl, Pos.compare_cont_refl; simpl;
      (split; [discriminate|intros [H|H]; discriminate]).
Qed.

Lemma sub_bad : forall x y, sbad x = true -> sbad (SF64sub x y) = true.
Proof.
  intros x y H. apply sbad_cases in H. apply sbad_cases. destruct H; subst.
  - left. destruct y; reflexivity.
  - destruct y as [s|s| |s m e]; simpl; auto. destruct s; simpl; auto.
Qed.

Lemma leb_bad : forall a b, SFleb a b = true -> sbad b = true -> sbad a = true.
Proof.
  intros a b L H. apply sbad_cases in H. apply sbad_cases. unfold SFleb in L. destruct H; subst.
  - destruct a as [s|s| |s m e]; simpl in L; try discriminate; destruct s; discriminate.
  - destruct a as [s|s| |s m e]; simpl in L; auto; destruct s; auto; discriminate.
Qed.

(** a leaf inside a proper slice has a target that is neither [-inf] nor [nan]
    (whatever the kinetic term is, including [inf] and [nan]) *)
Theorem leaf_in_good : forall ls t k, bad ls = false -> leaf_in ls t k = true -> bad t = false.
Proof.
  intros ls t k Hls Hin. unfold leaf_in in Hin. rewrite leb_spec, sub_spec in Hin.
  rewrite bad_spec in *. destruct (sbad (Prim2SF t)) eqn:Et; auto.
  apply (sub_bad _ (Prim2SF k)) in Et. pose proof (leb_bad _ _ Hin Et). congruence.
Qed.

(** the converse direction the code relies on for [-inf] slices is false: [-inf <= -inf] holds,
    so a slice variable of [-inf] would let a [-inf] target in *)
Example neginf_slice_admits_neginf_target : leaf_in neg_infinity neg_infinity 1 = true.
Proof. reflexivity. Qed.

(** ---- NUTS support theorem with the leaf test spelled out in binary64 ---- *)
Section NutsFloat.
  Variables P M Sz E U : Type.
  Variable leap : Sz -> P -> M -> P * M.          (* one leapfrog step *)
  Variable target : P -> float.
  Variable kin : M -> float.                       (* 0.5 * inner(momentum, momentum) *)
  Variable l_ok_f : float -> P -> M -> bool.       (* divergence test, unconstrained *)
  Variable l_out_f : float -> P -> M -> bool.
  Variable l_mh_f : float -> P -> M -> float.
  Variable uturn_ok : P -> M -> P -> M -> bool.
  Variable sneg : Sz -> bool.
  Variable sopp : Sz -> Sz.
  Variable acc : U -> nat -> nat -> bool.
  Variable dir : U -> bool.
  Variable slice : P -> M -> E -> float.
  Variable eps : nat -> Sz.
  Variable tinf : P -> bool.

  Definition base_f (s : Sz) (sv : float) (p : P) (m : M) : leaf P M :=
    let '(p1, m1) := leap s p m in
    {| l_p := p1; l_m := m1; l_in := leaf_in sv (target p1) (kin m1);
       l_ok := l_ok_f sv p1 m1; l_out := l_out_f sv p1 m1; l_mh := l_mh_f sv p1 m1 |}.

  Hypothesis acc_zero : forall u n, acc u 0 n = false.
  Hypothesis acc_full : forall u n, 0 < n -> acc u n n = true.
  Hypothesis slice_ok : forall p m e, bad (target p) = false -> bad (slice p m e) = false.

  Theorem nuts_support_float : forall n md ni p0 st l rest,
    bad (target p0) = false ->
    nuts P M Sz float E U base_f uturn_ok sneg sopp acc dir slice eps tinf n md ni p0 st = NChain l rest ->
    Forall (fun p => bad (target p) = false) l.
  Proof.
    intros n md ni p0 st l rest Hp H.
    eapply (nuts_support P M Sz float E U base_f uturn_ok sneg sopp acc dir slice eps tinf
              (fun p => bad (target p) = false) (fun sv => bad sv = false)); eauto.
    intros s sv p m Hsv Hin. unfold base_f in *. destruct (leap s p m) as [p1 m1]. simpl in *.
    eapply leaf_in_good; eauto.
  Qed.
End NutsFloat.

(** ---- Metropolis: the coded acceptance test on ties ---- *)

Lemma SFcompare_antisym : forall a b,
  SFcompare b a = match SFcompare a b with Some c => Some (CompOpp c) | None => None end.
Proof.
  intros a b. destruct a as [s1|s1| |s1 m1 e1], b as [s2|s2| |s2 m2 e2]; simpl; try reflexivity;
    try (destruct s1; reflexivity); try (destruct s2; reflexivity);
    try (destruct s1, s2; reflexivity).
  destruct s1, s2; simpl; try reflexivity.
  - rewrite (Z.compare_antisym e1 e2). destruct (e1 ?= e2)%Z; simpl; try reflexivity.
    change (Pos.compare_cont Eq m2 m1) with (Pos.compare_cont (CompOpp Eq) m2 m1).
    rewrite <- (Pos.compare_cont_antisym m1 m2 Eq). reflexivity.
  - rewrite (Z.compare_antisym e1 e2). destruct (e1 ?= e2)%Z; simpl; try reflexivity.
    change (Pos.compare_cont Eq m2 m1) with (Pos.compare_cont (CompOpp Eq) m2 m1).
    rewrite <- (Pos.compare_cont_antisym m1 m2 Eq). reflexivity.
Qed.

Lemma not_nan_cmp : forall x, is_nan x = false -> Prim2SF x <> S754_nan.
Proof.
  intros x H E. unfold is_nan in H. rewrite eqb_spec, E in H. discriminate.
Qed.

Theorem tie_accepts : forall e u, is_nan e = false -> is_nan u = false ->
  negb (e <? u)%float = (u <=? e)%float.
Proof.
  intros e u He Hu. apply not_nan_cmp in He. apply not_nan_cmp in Hu.
  rewrite ltb_spec, leb_spec. unfold SFltb, SFleb. rewrite (SFcompare_antisym (Prim2SF e) (Prim2SF u)).
  destruct (Prim2SF e) as [s1|s1| |s1 m1 e1], (Prim2SF u) as [s2|s2| |s2 m2 e2]; try congruence;
    simpl; try reflexivity; try (destruct s1; reflexivity); try (destruct s2; reflexivity);
    try (destruct s1, s2; reflexivity).
  destruct s1, s2; simpl; try reflexivity; destruct (e1 ?= e2)%Z; simpl; try reflexivity;
    destruct (Pos.compare_cont Eq m1 m2); reflexivity.
Qed.

(** with a ratio and a draw that are not nan, the coded test [not (ratio < u)] is [u <= ratio]:
    a draw equal to the ratio accepts *)
Theorem accept_le : forall (target : vec -> float) (expf : float -> float) x y u,
  is_nan (expf (target y - target x)%float) = false -> is_nan u = false ->
  accept target expf x y u = is_finite (target y) && (u <=? expf (target y - target x))%float.
Proof.
  intros target expf x y u He Hu. unfold accept. rewrite tie_accepts; auto.
Qed.
