(** C02, success: if [generate] succeeds on one build of a model, it succeeds on every other build
    (permuted node list, edge list and observed dict) -- and then, by
    [generate_insertion_independent], with the same result.

    Stage by stage: [compile_outputs] is per node; the topological check succeeds iff the edges have
    a ranking, a permutation-invariant property ([topo_ok_perm]); [compile_observed] fails only on a
    clash of a twin name with a source node name, a set-level condition; [check_stochastic] looks at
    ancestor sets; the executor's sort order is the same list, and scan / run / collect depend only on
    which nodes carry an output or an operation (the "shape"). *)
From Coq Require Import List String Ascii ZArith Arith Bool Lia Permutation.
From Elfi Require Import Base.StrOrder Graph.Net Graph.Denote Proofs.C03_Exec Proofs.C03_Compile Proofs.C03_Ancestors
     Proofs.C02_Order Proofs.C05_Pool Proofs.C05_Cache Proofs.C03_EndToEnd Proofs.C03_Twins Proofs.C03_ModelOk
     Proofs.C02_Insertion.
Import ListNotations.

(** ================================================================================== *)
(** ---- (2) the topological check ---- *)

(** every parent of a listed node is listed before it *)
Definition Good (es : list edge) (l : list name) : Prop :=
  forall n, In n l -> forall u p, In (u, p) (preds es n) -> In u (firstn_before n l).

Lemma firstn_before_app_in n : forall l1 l2, In n l1 -> firstn_before n (l1 ++ l2) = firstn_before n l1.
Proof.
  induction l1 as [|m r IH]; intros l2 H; [destruct H|]. simpl.
  destruct (String.eqb n m) eqn:E; [reflexivity|]. f_equal. apply IH.
  destruct H as [->|H]; [|exact H]. rewrite String.eqb_refl in E. discriminate.
Qed.

Lemma firstn_before_app_out n : forall l1 l2, ~ In n l1 -> firstn_before n (l1 ++ l2) = l1 ++ firstn_before n l2.
Proof.
  induction l1 as [|m r IH]; intros l2 H; [reflexivity|]. simpl.
  destruct (String.eqb n m) eqn:E.
  - apply String.eqb_eq in E. subst. exfalso. apply H. now left.
  - f_equal. apply IH. intros Hin. apply H. now right.
Qed.

Lemma firstn_before_rank u v : forall l, In u (firstn_before v l) ->
  List.length (firstn_before u l) < List.length (firstn_before v l).
Proof.
  induction l as [|m r IH]; simpl; intros H; [destruct H|].
  destruct (String.eqb v m) eqn:Ev; [destruct H|].
  destruct (String.eqb u m) eqn:Eu; simpl; [lia|].
  destruct H as [->|H]; [rewrite String.eqb_refl in Eu; discriminate|].
  specialize (IH H). lia.
Qed.

Lemma argmin (r : name -> nat) : forall l : list name, l <> [] -> exists m, In m l /\ forall x, In x l -> r m <= r x.
Proof.
  induction l as [|a l IH]; intros H; [congruence|].
  destruct l as [|b l'].
  - exists a. split; [now left|]. intros x [<-|[]]. lia.
  - destruct IH as [m [Hm Hmin]]; [discriminate|].
    destruct (le_lt_dec (r a) (r m)) as [Hle|Hlt].
    + exists a. split; [now left|]. intros x [<-|Hx]; [lia|]. specialize (Hmin x Hx). lia.
    + exists m. split; [now right|]. intros x [<-|Hx]; [lia|]. now apply Hmin.
Qed.

Lemma topo_iter_good es (r : name -> nat) : forall fuel todo done,
  List.length todo < fuel -> Good es done ->
  (forall x, In x done -> ~ In x todo) ->
  (forall u v p, In (u, v, p) es -> In v done \/ In v todo -> (In u done \/ In u todo) /\ r u < r v) ->
  Good es (topo_iter fuel es todo done).
Proof.
  induction fuel as [|f IH]; intros todo done Hlen Hgood Hdis Hcl; [lia|]. simpl.
  set (P := fun n => forallb (fun pp : name * param => mem (fst pp) done) (preds es n)).
  destruct (filter P todo) as [|r0 rr] eqn:E.
  - (* nothing ready: then nothing is left *)
    destruct todo as [|t0 tr]; [now rewrite app_nil_r|]. exfalso.
    destruct (argmin r (t0 :: tr)) as [m [Hm Hmin]]; [discriminate|].
    assert (Hin : In m (filter P (t0 :: tr))).
    { apply filter_In. split; [exact Hm|]. unfold P. apply forallb_forall. intros [u p] Hup. cbn [fst].
      apply mem_In. apply preds_In in Hup. destruct (Hcl u m p Hup (or_intror Hm)) as [[Hd|Ht] Hr]; [exact Hd|].
      specialize (Hmin u Ht). lia. }
    rewrite E in Hin. destruct Hin.
  - rewrite <- E. set (ready := filter P todo) in *.
    assert (Hr0 : In r0 ready) by (rewrite E; now left).
    assert (Hready : forall x, In x ready -> In x todo /\ P x = true) by (intros x Hx; now apply filter_In in Hx).
    apply IH.
    + (* strictly fewer left *)
      assert (Hlt : List.length (filter (fun n => negb (mem n ready)) todo) < List.length (filter (fun _ => true) todo)).
      { apply filter_length_lt; [reflexivity|]. exists r0. split; [apply Hready; exact Hr0|]. split; [reflexivity|].
        apply negb_false_iff. now apply mem_In. }
      rewrite (filter_all (fun _ => true) todo) in Hlt by reflexivity. lia.
    + (* the extended list is good *)
      intros n Hn u p Hup. destruct (mem n done) eqn:Ed.
      * apply mem_In in Ed. rewrite firstn_before_app_in by exact Ed. eapply Hgood; eauto.
      * assert (Hnd : ~ In n done) by (intros Hin; apply mem_In in Hin; congruence).
        rewrite firstn_before_app_out by exact Hnd. apply in_app_iff. left.
        apply in_app_iff in Hn. destruct Hn as [Hn|Hn]; [contradiction|].
        destruct (Hready n Hn) as [_ HP]. unfold P in HP. rewrite forallb_forall in HP.
        specialize (HP (u, p) Hup). now apply mem_In.
    + intros x Hx Hx'. apply filter_In in Hx'. destruct Hx' as [Ht Hm]. apply negb_true_iff in Hm.
      apply in_app_iff in Hx. destruct Hx as [Hx|Hx]; [exact (Hdis x Hx Ht)|].
      apply mem_In in Hx. congruence.
    + assert (Hset : forall x, In x done \/ In x todo <->
                               In x (done ++ ready) \/ In x (filter (fun n => negb (mem n ready)) todo)).
      { intros x. rewrite in_app_iff, filter_In. split.
        - intros [H|H]; [tauto|]. destruct (mem x ready) eqn:Em; [apply mem_In in Em; tauto | right; split; auto].
        - intros [[H|H]|[H _]]; [tauto | right; now apply Hready | tauto]. }
      intros u v p He Hv. apply Hset in Hv. destruct (Hcl u v p He Hv) as [Hu Hr]. split; [now apply Hset | exact Hr].
Qed.

Lemma topo_ok_Good src : topo_ok src = true <-> Good (s_edges src) (topo_order src).
Proof.
  unfold topo_ok, Good. rewrite forallb_forall. split.
  - intros H n Hn u p Hup. specialize (H n Hn). rewrite forallb_forall in H. specialize (H (u, p) Hup). now apply mem_In.
  - intros H n Hn. apply forallb_forall. intros [u p] Hup. apply mem_In. eapply H; eauto.
Qed.

(** the check succeeds as soon as the edges between nodes have a ranking *)
Lemma topo_ok_ranked src (r : name -> nat) :
  (forall u v p, In (u, v, p) (s_edges src) -> In v (map fst (s_nodes src)) ->
                 In u (map fst (s_nodes src)) /\ r u < r v) ->
  topo_ok src = true.
Proof.
  intros H. apply topo_ok_Good. unfold topo_order. apply (topo_iter_good _ r).
  - rewrite map_length. lia.
  - intros n [].
  - intros x [].
  - intros u v p He [[]|Hv]. destruct (H u v p He Hv). tauto.
Qed.

(** a successful check yields the ranking "position in the order" *)
Lemma topo_ok_ranking src :
  topo_ok src = true ->
  forall u v p, In (u, v, p) (s_edges src) -> In v (map fst (s_nodes src)) ->
    List.length (firstn_before u (topo_order src)) < List.length (firstn_before v (topo_order src)).
Proof.
  intros H u v p He Hv. apply topo_ok_Good in H. apply firstn_before_rank.
  apply (H v (topo_order_In_rev _ _ Hv) u p). now apply In_preds.
Qed.

Theorem topo_ok_perm src src' : wfsrc src -> same_model src src' -> topo_ok src = true -> topo_ok src' = true.
Proof.
  intros Hwf Hsm Ht. pose proof (wfsrc_perm _ _ Hwf Hsm) as Hwf'. destruct Hsm as [Hpn [Hpe _]].
  apply (topo_ok_ranked src' (fun n => List.length (firstn_before n (topo_order src)))).
  intros u v p He Hv. split.
  - apply has_In. exact (proj1 (wf_edges _ Hwf' _ He)).
  - apply (topo_ok_ranking src Ht u v p).
    + eapply Permutation_in; [apply Permutation_sym; exact Hpe | exact He].
    + eapply Permutation_in; [apply Permutation_sym; apply Permutation_map; exact Hpn | exact Hv].
Qed.

(** ================================================================================== *)
(** ---- (1) the OutputCompiler ---- *)
Definition out_ok (ns : name * sstate) : bool :=
  match s_output (snd ns), s_has_op (snd ns) with
  | Some _, false => true
  | None, true => true
  | _, _ => false
  end.

Lemma compile_outputs_ok_iff ns : (exists cn, compile_outputs ns = Ok cn) <-> forallb out_ok ns = true.
Proof.
  induction ns as [|[n st] r IH]; simpl.
  - split; [reflexivity | eauto].
  - unfold out_ok at 1. cbn [snd]. split.
    + intros [cn H]. destruct (compile_outputs r) as [rest|]; simpl in H; [|discriminate].
      destruct (s_output st), (s_has_op st); try discriminate; simpl; apply IH; eauto.
    + intros H. apply andb_true_iff in H. destruct H as [H1 H2]. apply IH in H2. destruct H2 as [rest ->]. simpl.
      destruct (s_output st), (s_has_op st); try discriminate; eauto.
Qed.

Lemma forallb_perm {A} (f : A -> bool) l l' : Permutation l l' -> forallb f l = true -> forallb f l' = true.
Proof.
  intros Hp H. rewrite forallb_forall in *. intros x Hx. apply H.
  eapply Permutation_in; [apply Permutation_sym; exact Hp | exact Hx].
Qed.

Lemma compile_outputs_perm ns ns' cn : Permutation ns ns' -> compile_outputs ns = Ok cn ->
  exists cn', compile_outputs ns' = Ok cn'.
Proof. intros Hp H. apply compile_outputs_ok_iff. eapply forallb_perm; [exact Hp|]. apply compile_outputs_ok_iff. eauto. Qed.

(** ================================================================================== *)
(** ---- (3) the ObservedCompiler: it fails only when a twin name clashes with a node name ---- *)
Lemma has_ensure_inv x n g : has x (c_nodes (ensure_node n g)) = true -> has x (c_nodes g) = true \/ x = n.
Proof.
  unfold ensure_node. destruct (has n (c_nodes g)); [tauto|]. simpl. rewrite has_set.
  intros H. apply orb_true_iff in H. destruct H as [H|H]; [right; now apply String.eqb_eq | now left].
Qed.

Lemma has_add_cedge_inv x u v p g :
  has x (c_nodes (add_cedge u v p g)) = true -> has x (c_nodes g) = true \/ x = u \/ x = v.
Proof.
  change (c_nodes (add_cedge u v p g)) with (c_nodes (ensure_node v (ensure_node u g))).
  intros H. apply has_ensure_inv in H. destruct H as [H|H]; [|tauto]. apply has_ensure_inv in H. tauto.
Qed.

Lemma has_add_node_inv x n c g : has x (c_nodes (add_node n c g)) = true -> has x (c_nodes g) = true \/ x = n.
Proof.
  simpl. rewrite has_set. intros H. apply orb_true_iff in H.
  destruct H as [H|H]; [right; now apply String.eqb_eq | now left].
Qed.

Lemma has_link_fold_inv lk tw x : forall l g, has x (c_nodes (fold_left (link_step lk tw) l g)) = true ->
  has x (c_nodes g) = true \/ x = tw \/ exists pp, In pp l /\ x = lk (fst pp).
Proof.
  induction l as [|pp r IH]; intros g H; simpl in H; [now left|].
  apply IH in H. destruct H as [H|[H|[q [Hq Hx]]]].
  - unfold link_step in H. apply has_add_cedge_inv in H. destruct H as [H|[H|H]]; [tauto | | tauto].
    right. right. exists pp. split; [now left | exact H].
  - tauto.
  - right. right. exists q. split; [now right | exact Hx].
Qed.

Lemma compile_observed_cons src m r observable uses g :
  compile_observed src (m :: r) observable uses g =
  match lookup m (s_nodes src) with
  | None => Err (EMissingNode m)
  | Some st =>
      if s_observable st then
        do g1 <- make_observed_copy m None g;
        let g2 := if s_stochastic st then g1 else copy_observed_edges src (observable ++ [m]) m g1 in
        compile_observed src r (observable ++ [m]) uses g2
      else if s_uses_observed st then
        do g1 <- make_observed_copy m (Some OpTuple) g;
        let g1' := add_cedge (observed_name m) m (PStr "observed"%string) g1 in
        let g2 := if s_stochastic st then g1' else copy_observed_edges src observable m g1' in
        compile_observed src r observable (uses ++ [m]) g2
      else compile_observed src r observable uses g
  end.
Proof. reflexivity. Qed.

Section CompObsOk.
  Variables (src : snet) (cn : list (name * cnode)).
  Hypothesis Hwf : wfsrc src.
  Hypothesis Hcn : compile_outputs (s_nodes src) = Ok cn.
  Hypothesis TF : forall n st, lookup n (s_nodes src) = Some st -> flagged st = true -> has (observed_name n) cn = false.

  (** every node of the net under construction is a source node or the twin of a processed node *)
  Definition NM (done : list name) (g : cnet) : Prop :=
    forall x, has x (c_nodes g) = true -> has x cn = true \/ exists n, In n done /\ x = observed_name n.

  Lemma NM_mono done m g : NM done g -> NM (done ++ [m]) g.
  Proof.
    intros H x Hx. destruct (H x Hx) as [H1|[n [Hn ->]]]; [now left|]. right. exists n. split; [|reflexivity].
    apply in_app_iff. now left.
  Qed.

  Lemma NM_obs_g2 done g m st :
    NM done g -> lookup m (s_nodes src) = Some st ->
    (forall u p, In (u, p) (preds (s_edges src) m) -> In u done) ->
    NM (done ++ [m]) (obs_g2 src m st g).
  Proof.
    intros HN Hl Hpar x Hx.
    assert (Hm_cn : has m cn = true) by (eapply lookup_has_cn; eauto).
    assert (base : has x (c_nodes g) = true -> has x cn = true \/ exists n, In n (done ++ [m]) /\ x = observed_name n).
    { intros H. exact (NM_mono done m g HN x H). }
    assert (tw : x = observed_name m -> has x cn = true \/ exists n, In n (done ++ [m]) /\ x = observed_name n).
    { intros ->. right. exists m. split; [|reflexivity]. apply in_app_iff. right. now left. }
    assert (self : x = m -> has x cn = true \/ exists n, In n (done ++ [m]) /\ x = observed_name n).
    { intros ->. now left. }
    assert (H1 : has x (c_nodes (obs_g1 m st g)) = true -> has x cn = true \/ exists n, In n (done ++ [m]) /\ x = observed_name n).
    { intros H. unfold obs_g1 in H. apply has_add_node_inv in H. destruct H; auto. }
    assert (H1' : has x (c_nodes (obs_g1' m st g)) = true -> has x cn = true \/ exists n, In n (done ++ [m]) /\ x = observed_name n).
    { intros H. unfold obs_g1' in H. destruct (s_observable st); [auto|].
      apply has_add_cedge_inv in H. destruct H as [H|[H|H]]; auto. }
    unfold obs_g2 in Hx. destruct (s_stochastic st); [auto|].
    apply has_link_fold_inv in Hx. destruct Hx as [H|[H|[[u p] [Hup ->]]]]; auto. cbn [fst].
    unfold link. destruct (flag src s_observable u) eqn:F.
    - right. exists u. split; [|reflexivity]. apply in_app_iff. left. eauto.
    - left. rewrite (has_cn src cn Hcn). eapply parent_is_node; eauto.
  Qed.

  Lemma compile_observed_ok : forall rest done g obl us,
    CO src cn done g -> NM done g -> NoDup (done ++ rest) ->
    obl = filter (flag src s_observable) done ->
    (forall n, In n rest -> has n (s_nodes src) = true) ->
    (forall n, In n rest -> forall u p, In (u, p) (preds (s_edges src) n) -> In u (firstn_before n (done ++ rest))) ->
    exists g' obl' us', compile_observed src rest obl us g = Ok (g', obl', us')
      /\ forall n, In n us' -> In n us \/ exists st, lookup n (s_nodes src) = Some st
                                                    /\ s_observable st = false /\ s_uses_observed st = true.
  Proof.
    induction rest as [|m r IH]; intros done g obl us HC HN Hnd Hobl Hnodes Htop.
    - exists g, obl, us. split; [reflexivity | auto].
    - assert (Hm : ~ In m done).
      { apply NoDup_remove_2 in Hnd. intros Hin. apply Hnd. apply in_app_iff. now left. }
      assert (Hpar : forall u p, In (u, p) (preds (s_edges src) m) -> In u done).
      { intros u p Hup. specialize (Htop m (or_introl eq_refl) u p Hup).
        now rewrite firstn_before_fresh in Htop. }
      assert (Happ : done ++ m :: r = (done ++ [m]) ++ r) by (rewrite <- app_assoc; reflexivity).
      assert (Hmem : forall u p, In (u, p) (preds (s_edges src) m) -> mem u obl = flag src s_observable u).
      { intros u p Hup. subst obl. apply mem_filter_in. eauto. }
      assert (Hne : forall u p, In (u, p) (preds (s_edges src) m) -> u <> m).
      { intros u p Hup ->. apply Hm. eauto. }
      assert (Htop' : forall n, In n r -> forall u p, In (u, p) (preds (s_edges src) n) ->
                      In u (firstn_before n ((done ++ [m]) ++ r))).
      { intros n Hn. rewrite <- Happ. apply Htop. now right. }
      assert (Hnodes' : forall n, In n r -> has n (s_nodes src) = true) by (intros n Hn; apply Hnodes; now right).
      destruct (proj1 (has_lookup _ _) (Hnodes m (or_introl eq_refl))) as [st Hl].
      rewrite Happ in Hnd.
      assert (Hfresh : flagged st = true -> has (observed_name m) (c_nodes g) = false).
      { intros Hfl. destruct (has (observed_name m) (c_nodes g)) eqn:E; [|reflexivity]. exfalso.
        destruct (HN _ E) as [H|[n [Hn Heq]]].
        - rewrite (TF m st Hl Hfl) in H. discriminate.
        - apply observed_name_inj in Heq. subst n. contradiction. }
      destruct (s_observable st) eqn:Eo.
      + assert (Hfl : flagged st = true) by (unfold flagged; now rewrite Eo).
        assert (Em : make_observed_copy m None g = Ok (add_node (observed_name m) (twin_cnode st) g)).
        { unfold make_observed_copy. rewrite (Hfresh Hfl).
          rewrite (co_src _ _ _ _ HC m (lookup_has_cn _ _ Hcn _ _ Hl)).
          destruct (compiled_lookup _ _ m st (compile_outputs_spec _ _ Hcn) Hl) as [c0 [Hc0 Hcomp]]. rewrite Hc0.
          pose proof (wf_obs_output _ Hwf m st (lookup_In_pair _ _ _ Hl) Eo) as Hout.
          destruct Hcomp as [[v [H1 _]]|[_ [_ ->]]]; [congruence|]. unfold twin_cnode. now rewrite Eo. }
        assert (Hg2 : (if s_stochastic st then add_node (observed_name m) (twin_cnode st) g
                       else copy_observed_edges src (obl ++ [m]) m (add_node (observed_name m) (twin_cnode st) g))
                      = obs_g2 src m st g).
        { unfold obs_g2, obs_g1', obs_g1. rewrite Eo. destruct (s_stochastic st); [reflexivity|].
          apply copy_observed_edges_link. intros u p Hup. rewrite mem_app_single by eauto. eauto. }
        destruct (IH (done ++ [m]) (obs_g2 src m st g) (obl ++ [m]) us) as [g' [obl' [us' [He Hus]]]]; auto.
        * apply observed_step; auto.
        * now apply NM_obs_g2.
        * rewrite filter_app. simpl. rewrite (flag_lookup _ _ _ _ Hl), Eo. now subst obl.
        * exists g', obl', us'. split; [|exact Hus].
          rewrite compile_observed_cons, Hl, Eo, Em. cbn [bind]. rewrite Hg2. exact He.
      + destruct (s_uses_observed st) eqn:Eu.
        * assert (Hfl : flagged st = true) by (unfold flagged; now rewrite Eu, orb_true_r).
          assert (Em : make_observed_copy m (Some OpTuple) g = Ok (add_node (observed_name m) (twin_cnode st) g)).
          { unfold make_observed_copy. rewrite (Hfresh Hfl). unfold twin_cnode. now rewrite Eo. }
          assert (Hg2 : (if s_stochastic st
                         then add_cedge (observed_name m) m (PStr "observed"%string) (add_node (observed_name m) (twin_cnode st) g)
                         else copy_observed_edges src obl m
                                (add_cedge (observed_name m) m (PStr "observed"%string) (add_node (observed_name m) (twin_cnode st) g)))
                        = obs_g2 src m st g).
          { unfold obs_g2, obs_g1', obs_g1. rewrite Eo. destruct (s_stochastic st); [reflexivity|].
            apply copy_observed_edges_link. exact Hmem. }
          destruct (IH (done ++ [m]) (obs_g2 src m st g) obl (us ++ [m])) as [g' [obl' [us' [He Hus]]]]; auto.
          -- apply observed_step; auto.
          -- now apply NM_obs_g2.
          -- rewrite filter_app. simpl. rewrite (flag_lookup _ _ _ _ Hl), Eo, app_nil_r. exact Hobl.
          -- exists g', obl', us'. split.
             ++ rewrite compile_observed_cons, Hl, Eo, Eu, Em. cbn [bind]. rewrite Hg2. exact He.
             ++ intros n Hn. destruct (Hus n Hn) as [H|H]; [|now right].
                apply in_app_iff in H. destruct H as [H|[<-|[]]]; [now left|]. right. exists st. auto.
        * destruct (IH (done ++ [m]) g obl us) as [g' [obl' [us' [He Hus]]]]; auto.
          -- eapply CO_skip; eauto. unfold flagged. now rewrite Eo, Eu.
          -- now apply NM_mono.
          -- rewrite filter_app. simpl. rewrite (flag_lookup _ _ _ _ Hl), Eo, app_nil_r. exact Hobl.
          -- exists g', obl', us'. split; [|exact Hus]. rewrite compile_observed_cons, Hl, Eo, Eu. exact He.
  Qed.
End CompObsOk.

(** ================================================================================== *)
(** ---- (4) the stochastic-ancestor check ---- *)
Lemma find_none_all {A} (f : A -> bool) l : (forall x, In x l -> f x = false) -> find f l = None.
Proof.
  induction l as [|x r IH]; intros H; simpl; [reflexivity|].
  rewrite (H x (or_introl eq_refl)). apply IH. intros y Hy. apply H. now right.
Qed.

Lemma check_stochastic_complete src g : forall uses,
  (forall n a, In n uses -> In a (tl (ancestors_incl (c_edges g) [observed_name n])) -> is_stochastic src a = false) ->
  check_stochastic src g uses = Ok tt.
Proof.
  induction uses as [|u r IH]; intros H; [reflexivity|]. cbn [check_stochastic].
  rewrite find_none_all.
  - apply IH. intros n a Hn. apply H. now right.
  - intros a Ha. apply (H u a); [now left | exact Ha].
Qed.

(** ================================================================================== *)
(** ---- compilation succeeds on every build of the model ---- *)
Theorem compile_success_insertion_independent src src' outs g :
  wfsrc src -> same_model src src' -> compile src outs = Ok g -> exists g', compile src' outs = Ok g'.
Proof.
  intros Hwf Hsm Hc.
  pose proof (wfsrc_perm _ _ Hwf Hsm) as Hwf'.
  destruct (compile_inv2 _ _ _ Hwf Hc) as [cn [g1 [uses [Hcn [Ht [Hco [Hout1 [Hchk [Huses _]]]]]]]]].
  destruct (compile_outputs_perm _ _ _ (proj1 Hsm) Hcn) as [cn' Hcn'].
  pose proof (topo_ok_perm _ _ Hwf Hsm Ht) as Ht'.
  assert (TF' : forall n st, lookup n (s_nodes src') = Some st -> flagged st = true -> has (observed_name n) cn' = false).
  { intros n st Hl Hfl. rewrite <- (sm_lookup src src' Hwf Hsm) in Hl.
    rewrite (has_cn src' cn' Hcn'), <- (sm_has src src' Hwf Hsm). exact (twin_fresh src cn g1 Hcn Hco n st Hl Hfl). }
  assert (Htop' : forall n, In n (topo_order src') -> forall u p, In (u, p) (preds (s_edges src') n) ->
                  In u (firstn_before n ([] ++ topo_order src'))).
  { intros n Hn u p Hup. simpl. apply topo_ok_Good in Ht'. eapply Ht'; eauto. }
  assert (Hnd' : NoDup ([] ++ topo_order src')) by (simpl; apply topo_order_NoDup; exact (wf_nodup _ Hwf')).
  destruct (compile_observed_ok src' cn' Hwf' Hcn' TF' (topo_order src') [] (G0 src' cn' outs) [] [])
    as [g1' [obl' [uses' [Eo' Hus']]]]; auto.
  - apply CO_init.
  - intros x Hx. now left.
  - intros n Hn. apply has_In. now apply topo_order_In.
  - pose proof (compile_observed_spec src' cn' Hwf' Hcn' (topo_order src') [] (G0 src' cn' outs) [] [] g1' obl' uses'
                  (CO_init src' cn' outs) Hnd' eq_refl Htop' Eo') as Hco'. simpl in Hco'.
    assert (Hpe : Permutation (c_edges g1) (c_edges g1')).
    { rewrite (g1_edges _ _ _ Hco), (g1_edges _ _ _ Hco'). apply Permutation_app; [exact (proj1 (proj2 Hsm))|].
      apply perm_flat_map2; [now apply topo_order_perm | now apply twin_edges_of_perm]. }
    assert (Hchk' : check_stochastic src' g1' uses' = Ok tt).
    { apply check_stochastic_complete. intros n a Hn Ha.
      destruct (Hus' n Hn) as [[]|[st [Hl' [Ho Hu]]]].
      pose proof Hl' as Hl. rewrite <- (sm_lookup src src' Hwf Hsm) in Hl.
      assert (Hfl : flagged st = true) by (unfold flagged; now rewrite Hu, orb_true_r).
      destruct (ancestors_incl_head (c_edges g1') (observed_name n)) as [t' E']. rewrite E' in Ha. cbn [tl] in Ha.
      assert (Ha1 : In a (ancestors_incl (c_edges g1) [observed_name n])).
      { apply (ancestors_incl_ext (c_edges g1')).
        - intros e. split; apply Permutation_in; [apply Permutation_sym|]; exact Hpe.
        - rewrite E'. now right. }
      pose proof (check_stochastic_sound src g1 uses Hchk n a (Huses n st Hl Ho Hu)) as Hcs.
      destruct (ancestors_incl_head (c_edges g1) (observed_name n)) as [t E]. rewrite E in Ha1, Hcs. cbn [tl] in Hcs.
      unfold is_stochastic in *. rewrite <- (sm_lookup src src' Hwf Hsm).
      destruct Ha1 as [<-|Ha1]; [|now apply Hcs].
      now rewrite (twin_lookup_none src cn g1 Hcn Hco n st Hl Hfl). }
    unfold compile. rewrite Hcn'. cbn [bind]. fold (topo_ok src'). rewrite Ht'. cbn [bind].
    fold (G0 src' cn' outs). rewrite Eo'. cbn [bind]. rewrite Hchk'. cbn [bind]. eexists. reflexivity.
Qed.

(** ================================================================================== *)
(** ---- (5) the executor: success depends only on the shape of the loaded net ---- *)
Definition sh (c : cnode) : bool * option op := (match c_out c with Some _ => true | None => false end, c_op c).
Definition sheq (g g' : cnet) : Prop :=
  forall n, option_map sh (lookup n (c_nodes g)) = option_map sh (lookup n (c_nodes g')).

Lemma sheq_cases g g' n : sheq g g' ->
  match lookup n (c_nodes g), lookup n (c_nodes g') with
  | Some c, Some c' => (c_out c = None <-> c_out c' = None) /\ c_op c = c_op c'
  | None, None => True
  | _, _ => False
  end.
Proof.
  intros H. specialize (H n).
  destruct (lookup n (c_nodes g)) as [c|], (lookup n (c_nodes g')) as [c'|]; simpl in H; try discriminate; auto.
  unfold sh in H. injection H as H1 H2. split; [|exact H2].
  destruct (c_out c), (c_out c'); try discriminate; split; intros; congruence.
Qed.

Lemma sheq_has_out g g' n : sheq g g' -> has_out g n = has_out g' n.
Proof.
  intros H. pose proof (sheq_cases g g' n H) as Hc. unfold has_out.
  destruct (lookup n (c_nodes g)) as [c|], (lookup n (c_nodes g')) as [c'|]; try tauto.
  destruct Hc as [[A B] _].
  destruct (c_out c), (c_out c'); try reflexivity; [specialize (B eq_refl) | specialize (A eq_refl)]; discriminate.
Qed.

Lemma sheq_has_op g g' n : sheq g g' -> has_op g n = has_op g' n.
Proof.
  intros H. pose proof (sheq_cases g g' n H) as Hc. unfold has_op.
  destruct (lookup n (c_nodes g)) as [c|], (lookup n (c_nodes g')) as [c'|]; try tauto.
  destruct Hc as [_ ->]. reflexivity.
Qed.

Lemma scan_nodes_sheq g g' : sheq g g' -> forall so, scan_nodes g so = Ok tt -> scan_nodes g' so = Ok tt.
Proof.
  intros H. induction so as [|n r IH]; intros Hs; [reflexivity|]. cbn [scan_nodes] in *.
  pose proof (sheq_cases g g' n H) as Hc.
  destruct (lookup n (c_nodes g)) as [c|]; [|discriminate]. destruct (lookup n (c_nodes g')) as [c'|]; [|tauto].
  destruct Hc as [[A B] E]. rewrite <- E.
  destruct (c_out c), (c_out c'), (c_op c); try discriminate; try (now apply IH);
    try (specialize (B eq_refl); discriminate); try (specialize (A eq_refl); discriminate).
Qed.

Lemma gather_inv g : forall ps pv, gather g ps = Ok pv ->
  map fst pv = map snd ps /\ forall u p, In (u, p) ps -> has_out g u = true.
Proof.
  induction ps as [|[u p] r IH]; intros pv H; cbn [gather] in H.
  - inversion H. split; [reflexivity | intros ? ? []].
  - destruct (lookup u (c_nodes g)) as [c|] eqn:El; [|discriminate]. destruct (c_out c) as [v|] eqn:Eo; [|discriminate].
    destruct (gather g r) as [rest|]; cbn [bind] in H; [|discriminate]. inversion H; subst.
    destruct (IH rest eq_refl) as [A B]. split; [simpl; now rewrite A|].
    intros u' p' [Heq|Hin]; [inversion Heq; subst; unfold has_out; now rewrite El, Eo | eauto].
Qed.

Lemma gather_ok g : forall ps, (forall u p, In (u, p) ps -> has_out g u = true) -> exists pv, gather g ps = Ok pv.
Proof.
  induction ps as [|[u p] r IH]; intros H; cbn [gather]; [eauto|].
  pose proof (H u p (or_introl eq_refl)) as Hu. unfold has_out in Hu.
  destruct (lookup u (c_nodes g)) as [c|]; [|discriminate]. destruct (c_out c); [|discriminate].
  destruct IH as [rest ->]; [intros; eapply H; right; eauto|]. cbn [bind]. eauto.
Qed.

Lemma call_ok_perm o pv pv' : Permutation (map fst pv) (map fst pv') -> call_ok o pv = call_ok o pv'.
Proof.
  intros Hp. destruct o; [reflexivity|]. cbn [call_ok].
  set (f := fun q : param => match q with PInt _ => true | PStr _ => false end).
  assert (E : forall l : list (param * value),
             forallb (fun x : param * value => match fst x with PInt _ => true | PStr _ => false end) l = forallb f (map fst l)).
  { induction l as [|x l IH]; simpl; [reflexivity|]. now rewrite IH. }
  rewrite !E. apply bool_eq_iff. split; apply forallb_perm; [|apply Permutation_sym]; exact Hp.
Qed.

Lemma sheq_add g g' n c c' : sheq g g' -> sh c = sh c' -> sheq (add_node n c g) (add_node n c' g').
Proof. intros H Hs m. simpl. rewrite !lookup_set. destruct (String.eqb m n); [simpl; now rewrite Hs | apply H]. Qed.

Lemma run_order_cons g n r log :
  run_order g (n :: r) log =
  match lookup n (c_nodes g) with
  | None => Err (EMissingNode n)
  | Some c =>
      match c_out c, c_op c with
      | Some _, Some _ => Err (EBothOutputAndOp n)
      | _, Some o =>
          do pv <- gather g (preds (c_edges g) n);
          if negb (call_ok o pv) then Err (EBadCall n) else
          run_order (add_node n {| c_out := Some (mk_call o pv); c_op := None |} g) r (log ++ [n])
      | Some _, None => run_order g r log
      | None, None => Err (ENoOutputOrOp n)
      end
  end.
Proof. reflexivity. Qed.

Lemma run_order_success : forall order g g' log log' g1 l1,
  sheq g g' -> Permutation (c_edges g) (c_edges g') ->
  run_order g order log = Ok (g1, l1) ->
  exists g1' l1', run_order g' order log' = Ok (g1', l1') /\ sheq g1 g1'.
Proof.
  induction order as [|n r IH]; intros g g' log log' g1 l1 Hs Hp H.
  - simpl in *. inversion H; subst. eauto.
  - rewrite run_order_cons in *. pose proof (sheq_cases g g' n Hs) as Hc.
    destruct (lookup n (c_nodes g)) as [c|]; [|discriminate]. destruct (lookup n (c_nodes g')) as [c'|]; [|tauto].
    destruct Hc as [[A B] E]. rewrite <- E.
    destruct (c_op c) as [o|].
    + destruct (c_out c) as [v|] eqn:Eo; [discriminate|]. rewrite (A eq_refl).
      destruct (gather g (preds (c_edges g) n)) as [pv|] eqn:Eg; cbn [bind] in H; [|discriminate].
      destruct (negb (call_ok o pv)) eqn:Ec; [discriminate|].
      destruct (gather_inv _ _ _ Eg) as [Hk Hall].
      destruct (gather_ok g' (preds (c_edges g') n)) as [pv' Eg'].
      { intros u p Hup. rewrite <- (sheq_has_out g g' u Hs). apply (Hall u p).
        eapply Permutation_in; [apply Permutation_sym; apply preds_perm; exact Hp | exact Hup]. }
      rewrite Eg'. cbn [bind]. destruct (gather_inv _ _ _ Eg') as [Hk' _].
      assert (Hco : call_ok o pv' = call_ok o pv).
      { apply call_ok_perm. rewrite Hk, Hk'. apply Permutation_map. apply Permutation_sym. now apply preds_perm. }
      rewrite Hco, Ec. eapply IH; [ | | exact H].
      * apply sheq_add; [exact Hs | reflexivity].
      * exact Hp.
    + destruct (c_out c) as [v|] eqn:Eo; [|discriminate].
      destruct (c_out c') as [v'|] eqn:Eo'; [|specialize (B eq_refl); discriminate].
      eapply IH; eauto.
Qed.

Lemma collect_success g g' : sheq g g' -> forall outs res, collect g outs = Ok res -> exists res', collect g' outs = Ok res'.
Proof.
  intros Hs. induction outs as [|n r IH]; intros res H; cbn [collect] in *; [eauto|].
  pose proof (sheq_cases g g' n Hs) as Hc.
  destruct (lookup n (c_nodes g)) as [c|]; [|discriminate]. destruct (lookup n (c_nodes g')) as [c'|]; [|tauto].
  destruct Hc as [[A B] _]. destruct (c_out c) eqn:Eo; [|discriminate].
  destruct (c_out c') eqn:Eo'; [|specialize (B eq_refl); discriminate].
  destruct (collect g r) as [rest|]; cbn [bind] in H; [|discriminate].
  destruct (IH rest eq_refl) as [rest' ->]. cbn [bind]. eauto.
Qed.

Lemma geo_success g g' o c :
  sheq g g' -> Permutation (c_edges g) (c_edges g') -> c_outputs g = c_outputs g' -> sort_order g = sort_order g' ->
  get_execution_order g empty_cache = Ok (o, c) -> exists c', get_execution_order g' empty_cache = Ok (o, c').
Proof.
  intros Hs Hp Ho Hso H. unfold get_execution_order in *. cbv zeta in *.
  assert (Hn : sort_names (dedup_names (filter (has_op g') (c_outputs g')))
               = sort_names (dedup_names (filter (has_op g) (c_outputs g)))).
  { rewrite <- Ho. f_equal. f_equal. apply filter_ext. intros a. symmetry. now apply sheq_has_op. }
  rewrite Hn. destruct (sort_names (dedup_names (filter (has_op g) (c_outputs g)))) as [|a l] eqn:En.
  - inversion H. eauto.
  - cbn [empty_cache ec_orders ec_sort lookup_order] in *. rewrite <- Hso.
    destruct (sort_order g) as [so|]; cbn [bind] in *; [|discriminate].
    destruct (scan_nodes g so) as [[]|] eqn:Esc; cbn [bind] in *; [|discriminate].
    rewrite (scan_nodes_sheq g g' Hs so Esc). cbn [bind]. inversion H. eexists. apply f_equal. apply f_equal2; [|reflexivity].
    apply filter_ext. intros x. apply bool_eq_iff. rewrite !mem_In. apply ancestors_incl_ext.
    intros e. rewrite !filter_In, <- !(sheq_has_out g g' _ Hs).
    split; intros [A B]; (split; [|exact B]); eapply Permutation_in; try exact A; [apply Permutation_sym|]; exact Hp.
Qed.

Lemma execute_success g g' r :
  sheq g g' -> Permutation (c_edges g) (c_edges g') -> c_outputs g = c_outputs g' -> sort_order g = sort_order g' ->
  execute g empty_cache = Ok r -> exists r', execute g' empty_cache = Ok r'.
Proof.
  intros Hs Hp Ho Hso H. unfold execute in *.
  destruct (get_execution_order g empty_cache) as [[o c]|] eqn:Eg; cbn [bind] in H; [|discriminate].
  destruct (geo_success _ _ _ _ Hs Hp Ho Hso Eg) as [c' ->]. cbn [bind].
  destruct (run_order g o []) as [[g1 l1]|] eqn:Er; cbn [bind] in H; [|discriminate].
  destruct (run_order_success _ _ _ _ [] _ _ Hs Hp Er) as [g1' [l1' [-> Hs1]]]. cbn [bind].
  destruct (collect g1 (sort_names (dedup_names (c_outputs g)))) as [res|] eqn:Ec; cbn [bind] in H; [|discriminate].
  rewrite <- Ho. destruct (collect_success _ _ Hs1 _ _ Ec) as [res' ->]. cbn [bind]. eauto.
Qed.

(** ---- the reserved nodes never carry an operation ---- *)
Definition Pin (g : cnet) : Prop := forall i c, In i inames -> lookup i (c_nodes g) = Some c -> c_op c = None.

Lemma Pin_add_node n c g : (In n inames -> c_op c = None) -> Pin g -> Pin (add_node n c g).
Proof.
  intros Hc HP i c0 Hi Hl. simpl in Hl. rewrite lookup_set in Hl.
  destruct (String.eqb i n) eqn:E; [|eapply HP; eauto]. apply String.eqb_eq in E. subst. inversion Hl; subst. auto.
Qed.

Lemma Pin_add_twin m c g : Pin g -> Pin (add_node (observed_name m) c g).
Proof. intros H. apply Pin_add_node; [|exact H]. intros Hi. exfalso. exact (observed_name_not_reserved m Hi). Qed.

Lemma Pin_ensure_node n g : Pin g -> Pin (ensure_node n g).
Proof. intros H. unfold ensure_node. destruct (has n (c_nodes g)); [exact H|]. apply Pin_add_node; auto. Qed.

Lemma Pin_add_cedge u v p g : Pin g -> Pin (add_cedge u v p g).
Proof.
  intros H i c Hi Hl. change (c_nodes (add_cedge u v p g)) with (c_nodes (ensure_node v (ensure_node u g))) in Hl.
  exact (Pin_ensure_node v _ (Pin_ensure_node u g H) i c Hi Hl).
Qed.

Lemma Pin_copy src obl n : forall g, Pin g -> Pin (copy_observed_edges src obl n g).
Proof.
  unfold copy_observed_edges. generalize (preds (s_edges src) n) as l.
  induction l as [|pp r IH]; intros g H; simpl; [exact H|]. apply IH. now apply Pin_add_cedge.
Qed.

Lemma Pin_compile_observed src : forall topo ob us g g' ob' us',
  Pin g -> compile_observed src topo ob us g = Ok (g', ob', us') -> Pin g'.
Proof.
  induction topo as [|m r IH]; intros ob us g g' ob' us' Hg H.
  - simpl in H. inversion H; subst. exact Hg.
  - rewrite compile_observed_cons in H.
    destruct (lookup m (s_nodes src)) as [st|]; [|discriminate].
    destruct (s_observable st).
    + destruct (make_observed_copy m None g) as [g1|] eqn:Em; cbn [bind] in H; [|discriminate].
      destruct (make_observed_copy_inv _ _ _ _ Em) as [_ [c [-> _]]].
      eapply IH; [|exact H]. destruct (s_stochastic st); [|apply Pin_copy]; now apply Pin_add_twin.
    + destruct (s_uses_observed st).
      * destruct (make_observed_copy m (Some OpTuple) g) as [g1|] eqn:Em; cbn [bind] in H; [|discriminate].
        destruct (make_observed_copy_inv _ _ _ _ Em) as [_ [c [-> _]]].
        eapply IH; [|exact H].
        destruct (s_stochastic st); [|apply Pin_copy]; apply Pin_add_cedge; now apply Pin_add_twin.
      * eapply IH; eauto.
Qed.

Lemma Pin_instr_fold fl inode : forall l g, Pin g -> Pin (fold_left (instr_step fl inode) l g).
Proof.
  induction l as [|ns r IH]; intros g H; simpl; [exact H|]. apply IH.
  unfold instr_step. destruct (fl (snd ns)); [now apply Pin_add_cedge | exact H].
Qed.

Lemma Pin_G4of src g : Pin g -> Pin (G4of src g).
Proof. intros H. unfold G4of. rewrite !compile_instruction_fold. now repeat apply Pin_instr_fold. Qed.

Lemma Pin_reduce g : Pin g -> Pin (compile_reduce g).
Proof. intros H i c Hi Hl. apply reduce_node in Hl. destruct Hl as [Hl _]. eapply H; eauto. Qed.

Lemma Pin_set_output n v b g : Pin g -> Pin (set_output n v b g).
Proof.
  intros H. unfold set_output. destruct (lookup n (c_nodes g)) as [c0|] eqn:E; [|exact H].
  apply Pin_add_node; [|exact H]. intros Hi. simpl. destruct b; [reflexivity | eapply H; eauto].
Qed.

Lemma Pin_obs_fold : forall l g, Pin g -> Pin (fold_left obs_step l g).
Proof.
  induction l as [|nv r IH]; intros g H; simpl; [exact H|]. apply IH. unfold obs_step. now apply Pin_set_output.
Qed.

Lemma Pin_load W g : NoDup (map fst W) -> Pin g -> Pin (load (wp W) g).
Proof.
  intros HW H.
  assert (H2 : Pin (load_runtime (load_observed g))).
  { unfold load_runtime. repeat apply Pin_set_output. rewrite load_observed_fold. now apply Pin_obs_fold. }
  unfold load. intros i c Hi Hl. rewrite (load_pool_lookup _ _ i) in Hl by (now rewrite wp_keys).
  destruct (lookup i (wp W)) as [[v|]|]; [|eapply H2; eauto..].
  destruct (lookup i (c_nodes (load_runtime (load_observed g)))); [|discriminate]. inversion Hl. reflexivity.
Qed.

Lemma Pin_compile src outs g : wfsrc src -> compile src outs = Ok g -> Pin g.
Proof.
  intros Hwf H. unfold compile in H.
  destruct (compile_outputs (s_nodes src)) as [cn|] eqn:Ec; cbn [bind] in H; [|discriminate].
  fold (topo_ok src) in H. destruct (topo_ok src); cbn [bind] in H; [|discriminate].
  fold (G0 src cn outs) in H.
  destruct (compile_observed src (topo_order src) [] [] (G0 src cn outs)) as [[[g1 obl] uses]|] eqn:Eo;
    cbn [bind] in H; [|discriminate].
  destruct (check_stochastic src g1 uses); cbn [bind] in H; [|discriminate].
  inversion H. change (Pin (compile_reduce (G4of src g1))).
  apply Pin_reduce. apply Pin_G4of. eapply Pin_compile_observed; [|exact Eo].
  intros i c Hi Hl. exfalso. unfold G0 in Hl. simpl in Hl.
  pose proof (has_cn src cn Ec i) as Hh. rewrite (wf_reserved _ Hwf i Hi) in Hh. unfold has in Hh. now rewrite Hl in Hh.
Qed.

(** ================================================================================== *)
(** ---- the loaded nets of the two builds carry the same node dicts ---- *)
Lemma keep_class src outs cn g1 n :
  wfsrc src -> outputs_wf src outs -> CO src cn (topo_order src) g1 ->
  In n (ancestors_incl (c_edges (G4of src g1)) outs) -> Nd src n \/ In n inames.
Proof.
  intros Hwf Howf Hco Hk. apply ancestors_incl_iff in Hk. destruct Hk as [r [Hr Hreach]].
  destruct (reach_inv _ _ _ Hreach) as [->|[v [p He]]]; [left; now apply (outs_Nd src outs Howf)|].
  destruct (g4_edge_cases src cn g1 Hwf Hco _ He) as [H|H]; [left | right; exact H].
  exact (proj1 (g1_edge_Nd src cn g1 Hwf Hco _ H)).
Qed.

Section LoadedLookup.
  Variables (src src' : snet) (W : list (name * value)) (outs : list name).
  Variables (cn cn' : list (name * cnode)) (g1 g1' : cnet).
  Hypothesis Hwf : wfsrc src.
  Hypothesis Hsm : same_model src src'.
  Hypothesis HWnd : NoDup (map fst W).
  Hypothesis HWi : forall k, In k (map fst W) -> ~ In k inames.
  Hypothesis Howf : outputs_wf src outs.
  Hypothesis Hcn : compile_outputs (s_nodes src) = Ok cn.
  Hypothesis Hcn' : compile_outputs (s_nodes src') = Ok cn'.
  Hypothesis Hco : CO src cn (topo_order src) g1.
  Hypothesis Hco' : CO src' cn' (topo_order src') g1'.
  Hypothesis Hout1 : c_outputs g1 = outs.
  Hypothesis Hout1' : c_outputs g1' = outs.
  Hypothesis HP : Pin (load (wp W) (compile_reduce (G4of src g1))).
  Hypothesis HP' : Pin (load (wp W) (compile_reduce (G4of src' g1'))).

  Local Notation lg := (load (wp W) (compile_reduce (G4of src g1))).
  Local Notation lg' := (load (wp W) (compile_reduce (G4of src' g1'))).

  Lemma lg_lookup_perm n : lookup n (c_nodes lg) = lookup n (c_nodes lg').
  Proof.
    pose proof (wfsrc_perm src src' Hwf Hsm) as Hwf'.
    pose proof (outputs_wf_perm src src' Hwf Hsm outs Howf) as Howf'.
    assert (Hnames : In n (map fst (c_nodes lg)) <-> In n (map fst (c_nodes lg'))).
    { rewrite (lg_names_keep src W outs cn g1 Hwf Howf Hcn Hco Hout1 n),
        (lg_names_keep src' W outs cn' g1' Hwf' Howf' Hcn' Hco' Hout1' n).
      exact (keep_perm src src' outs cn cn' g1 g1' Hwf Hsm Hco Hco' n). }
    destruct (lookup n (c_nodes lg)) as [c|] eqn:E; destruct (lookup n (c_nodes lg')) as [c'|] eqn:E'.
    - f_equal.
      assert (Hk : In n (ancestors_incl (c_edges (G4of src g1)) outs)).
      { apply (lg_names_keep src W outs cn g1 Hwf Howf Hcn Hco Hout1 n). eapply lookup_key_In; eauto. }
      destruct (keep_class src outs cn g1 n Hwf Howf Hco Hk) as [[[st Hl] | [m [st [-> [Hl Hfl]]]]] | Hi].
      + pose proof Hl as Hl'. rewrite (sm_lookup src src' Hwf Hsm) in Hl'.
        destruct (lg_source_node src W cn g1 Hwf HWnd Hcn Hco n st c Hl E) as [_ H1].
        destruct (lg_source_node src' W cn' g1' Hwf' HWnd Hcn' Hco' n st c' Hl' E') as [_ H2].
        destruct (lookup n W); [congruence|].
        destruct H1 as [[v [A [B ->]]]|[A [B ->]]], H2 as [[v' [A' [B' ->]]]|[A' [B' ->]]]; congruence.
      + pose proof Hl as Hl'. rewrite (sm_lookup src src' Hwf Hsm) in Hl'.
        destruct (lg_twin_node src W cn g1 Hwf HWnd Hcn Hco m st c Hl Hfl E) as [_ H1].
        destruct (lg_twin_node src' W cn' g1' Hwf' HWnd Hcn' Hco' m st c' Hl' Hfl E') as [_ H2].
        rewrite <- (sm_observed src src' Hwf Hsm) in H2.
        destruct (lookup (observed_name m) W); [congruence|].
        destruct (lookup m (s_observed src)); [destruct H1 as [_ ->], H2 as [_ ->]; reflexivity | congruence].
      + pose proof (lg_runtime_node src W g1 HWnd HWi n c Hi E) as H1.
        pose proof (lg_runtime_node src' W g1' HWnd HWi n c' Hi E') as H2.
        pose proof (HP n c Hi E) as H3. pose proof (HP' n c' Hi E') as H4.
        destruct c, c'; simpl in *; congruence.
    - exfalso. apply lookup_None_iff in E'. apply E'. apply Hnames. eapply lookup_key_In; eauto.
    - exfalso. apply lookup_None_iff in E. apply E. apply Hnames. eapply lookup_key_In; eauto.
    - reflexivity.
  Qed.
End LoadedLookup.

(** ================================================================================== *)
(** If [generate] succeeds on one build of the model, it succeeds on every other build. *)
Theorem generate_success_insertion_independent src src' outs W out log :
  wfsrc src -> same_model src src' ->
  NoDup (map fst W) -> (forall k, In k (map fst W) -> ~ In k inames) -> outputs_wf src outs ->
  params_distinct src ->
  generate src outs W = Ok (out, log) -> exists out' log', generate src' outs W = Ok (out', log').
Proof.
  intros Hwf Hsm HWnd HWi Howf _ Hg.
  pose proof (wfsrc_perm src src' Hwf Hsm) as Hwf'.
  pose proof (outputs_wf_perm src src' Hwf Hsm outs Howf) as Howf'.
  unfold generate in Hg.
  destruct (compile src outs) as [g|] eqn:Ec; cbn [bind] in Hg; [|discriminate].
  destruct (compile_success_insertion_independent src src' outs g Hwf Hsm Ec) as [g' Ec'].
  pose proof (nd_compile _ _ _ (wf_nodup _ Hwf) Ec) as Hnd.
  pose proof (nd_compile _ _ _ (wf_nodup _ Hwf') Ec') as Hnd'.
  pose proof (Pin_load W g HWnd (Pin_compile _ _ _ Hwf Ec)) as HP.
  pose proof (Pin_load W g' HWnd (Pin_compile _ _ _ Hwf' Ec')) as HP'.
  destruct (compile_inv2 _ _ _ Hwf Ec) as [cn [g1 [uses [Hcn [_ [Hco [Hout1 [_ [_ Eg]]]]]]]]].
  destruct (compile_inv2 _ _ _ Hwf' Ec') as [cn' [g1' [uses' [Hcn' [_ [Hco' [Hout1' [_ [_ Eg']]]]]]]]].
  subst g g'.
  change (map (fun nv : name * value => (fst nv, Some (snd nv))) W) with (wp W) in Hg.
  destruct (execute (load (wp W) (compile_reduce (G4of src g1))) empty_cache) as [r|] eqn:Ee; cbn [bind] in Hg; [|discriminate].
  assert (Hs : sheq (load (wp W) (compile_reduce (G4of src g1))) (load (wp W) (compile_reduce (G4of src' g1')))).
  { intros n. now rewrite (lg_lookup_perm src src' W outs cn cn' g1 g1' Hwf Hsm HWnd HWi Howf Hcn Hcn' Hco Hco' Hout1 Hout1' HP HP' n). }
  pose proof (lg_edges_perm src src' W outs cn cn' g1 g1' Hwf Hsm Hcn Hcn' Hco Hco' Hout1 Hout1') as Hpe.
  assert (Hoe : c_outputs (load (wp W) (compile_reduce (G4of src g1))) = c_outputs (load (wp W) (compile_reduce (G4of src' g1'))))
    by (now rewrite (lg_outputs src W outs g1 Hout1), (lg_outputs src' W outs g1' Hout1')).
  pose proof (loaded_sort_order src src' W outs cn cn' g1 g1' Hwf Hsm Howf Hcn Hcn' Hco Hco' Hout1 Hout1' Hnd Hnd') as Hso.
  destruct (execute_success _ _ r Hs Hpe Hoe Hso Ee) as [[[out' log'] c'] Ee'].
  exists out', log'. unfold generate. rewrite Ec'. cbn [bind].
  change (map (fun nv : name * value => (fst nv, Some (snd nv))) W) with (wp W). rewrite Ee'. reflexivity.
Qed.

(** ... and with the same result: the values and the call order do not depend on the build. *)
Corollary generate_same_insertion_independent src src' outs W out log :
  wfsrc src -> same_model src src' ->
  NoDup (map fst W) -> (forall k, In k (map fst W) -> ~ In k inames) -> outputs_wf src outs ->
  params_distinct src ->
  generate src outs W = Ok (out, log) -> generate src' outs W = Ok (out, log).
Proof.
  intros Hwf Hsm HWnd HWi Howf Hpd Hg.
  destruct (generate_success_insertion_independent src src' outs W out log Hwf Hsm HWnd HWi Howf Hpd Hg) as [out' [log' Hg']].
  destruct (generate_insertion_independent src src' outs W out log out' log' Hwf Hsm HWnd HWi Howf Hpd Hg Hg') as [-> ->].
  exact Hg'.
Qed.
