(** Proofs for C05: supplying stored values that equal the fresh values changes no meaning; a held
    stored node never runs; the batch generator reaches every operation that still runs at the same
    position; the pool never overwrites and ends up holding the consumed batch; contexts with another
    batch_size / seed are refused. *)
From Coq Require Import List String ZArith Arith Bool Lia.
From Elfi Require Import Graph.Net Store.Pool Proofs.C03_Exec Proofs.C03_Compile.
Import ListNotations.

(** ---- transparency of supplied values at the level of meanings ---- *)
(** [g'] is [g] with some nodes replaced by (output = their own meaning in g, no operation) *)
Record supplied (g g' : cnet) : Prop := {
  sp_edges : c_edges g' = c_edges g;
  sp_nodes : forall n,
      lookup n (c_nodes g') = lookup n (c_nodes g) \/
      (exists c v, lookup n (c_nodes g) = Some c /\
                   lookup n (c_nodes g') = Some {| c_out := Some v; c_op := None |} /\ Den g n v)
}.

Lemma supplied_forward g g' : supplied g g' ->
  (forall n v, Den g' n v -> Den g n v) /\
  (forall ps pvs, DenList g' ps pvs -> DenList g ps pvs).
Proof.
  intros [He Hn]. apply Den_mutind.
  - intros n c v Hl Ho. destruct (Hn n) as [Hsame|[c0 [v0 [H1 [H2 H3]]]]].
    + eapply Den_out; [rewrite <- Hsame; exact Hl | exact Ho].
    + rewrite H2 in Hl. inversion Hl; subst c. simpl in Ho. inversion Ho; subst. exact H3.
  - intros n c o pvs Hl Ho Hop Hd IH. destruct (Hn n) as [Hsame|[c0 [v0 [H1 [H2 H3]]]]].
    + eapply Den_op; [rewrite <- Hsame; exact Hl | exact Ho | exact Hop |]. rewrite <- He. exact IH.
    + rewrite H2 in Hl. inversion Hl; subst c. simpl in Hop. discriminate.
  - constructor.
  - intros u p r v rest Hd IH1 Hl IH2. constructor; assumption.
Qed.

Lemma supplied_backward g g' : supplied g g' ->
  (forall n v, Den g n v -> Den g' n v) /\
  (forall ps pvs, DenList g ps pvs -> DenList g' ps pvs).
Proof.
  intros [He Hn]. apply Den_mutind.
  - intros n c v Hl Ho. destruct (Hn n) as [Hsame|[c0 [v0 [H1 [H2 H3]]]]].
    + eapply Den_out; [rewrite Hsame; exact Hl | exact Ho].
    + assert (v0 = v).
      { apply (proj1 (Den_functional g) n v0 H3 v). eapply Den_out; [exact Hl | exact Ho]. }
      subst v0. eapply Den_out; [exact H2 | reflexivity].
  - intros n c o pvs Hl Ho Hop Hd IH. destruct (Hn n) as [Hsame|[c0 [v0 [H1 [H2 H3]]]]].
    + eapply Den_op; [rewrite Hsame; exact Hl | exact Ho | exact Hop |]. rewrite He. exact IH.
    + assert (v0 = mk_call o pvs).
      { apply (proj1 (Den_functional g) n v0 H3 (mk_call o pvs)). eapply Den_op; [exact Hl | exact Ho | exact Hop | exact Hd]. }
      subst v0. eapply Den_out; [exact H2 | reflexivity].
  - constructor.
  - intros u p r v rest Hd IH1 Hl IH2. constructor; assumption.
Qed.

(** Reusing stored values that equal the values a fresh computation produces leaves the meaning of
    every node unchanged. *)
Theorem supplied_transparent g g' : supplied g g' -> forall n v, Den g' n v <-> Den g n v.
Proof.
  intros H n v. split; [apply (proj1 (supplied_forward g g' H)) | apply (proj1 (supplied_backward g g' H))].
Qed.

(** ---- a stored node the pool holds for the batch never runs ---- *)
Lemma has_set_output n m v b g : has m (c_nodes (set_output n v b g)) = has m (c_nodes g).
Proof.
  unfold set_output. destruct (lookup n (c_nodes g)) as [c|] eqn:E; [|reflexivity].
  unfold has. destruct (string_dec n m) as [->|Hne].
  - rewrite lookup_add_node_same, E. reflexivity.
  - now rewrite lookup_add_node_other.
Qed.

Lemma has_load_observed m g : has m (c_nodes (load_observed g)) = has m (c_nodes g).
Proof.
  unfold load_observed. generalize (c_observed g) at 1. intros obs. revert g.
  induction obs as [|[k v] r IH]; intros g; simpl; [reflexivity|]. rewrite IH. apply has_set_output.
Qed.

Lemma has_load_runtime m g : has m (c_nodes (load_runtime g)) = has m (c_nodes g).
Proof. unfold load_runtime. now rewrite !has_set_output. Qed.

Theorem held_store_never_runs pool g cache n v out log cache' :
  NoDup (map fst pool) -> In (n, Some v) pool -> has n (c_nodes g) = true -> CacheOK cache ->
  execute (load pool g) cache = Ok (out, log, cache') -> ~ In n log.
Proof.
  intros Hnd Hin Hhas Hc Hex Hlog.
  destruct (execute_sound _ _ _ _ _ Hc Hex) as [_ [_ [_ [Hop _]]]].
  specialize (Hop n Hlog). unfold load in Hop.
  assert (Hh : has n (c_nodes (load_runtime (load_observed g))) = true)
    by (rewrite has_load_runtime, has_load_observed; exact Hhas).
  pose proof (load_pool_supplied pool _ n v Hnd Hin Hh) as Hl.
  unfold has_op in Hop. rewrite Hl in Hop. simpl in Hop. discriminate.
Qed.

(** ---- the shared generator reaches the operations that still run at unchanged positions ---- *)
Lemma prefix_closed_skipped is_stoch runs : forall order,
  prefix_closed is_stoch runs order true = true ->
  filter is_stoch (filter runs order) = [].
Proof.
  induction order as [|x r IH]; intros H; simpl in *; [reflexivity|].
  destruct (is_stoch x) eqn:Es.
  - destruct (runs x) eqn:Er; [simpl in H; discriminate|]. now apply IH.
  - destruct (runs x); simpl; [rewrite Es|]; now apply IH.
Qed.

(** the stochastic operations that still run form a prefix of the full stochastic sequence *)
Theorem generator_positions is_stoch runs : forall order,
  prefix_closed is_stoch runs order false = true ->
  exists rest, filter is_stoch order = filter is_stoch (filter runs order) ++ rest.
Proof.
  induction order as [|x r IH]; intros H; simpl in *; [exists []; reflexivity|].
  destruct (is_stoch x) eqn:Es.
  - destruct (runs x) eqn:Er.
    + simpl in H. destruct (IH H) as [rest Hr]. exists rest. simpl. rewrite Es. simpl. now rewrite Hr.
    + rewrite (prefix_closed_skipped _ _ _ H). eexists. reflexivity.
  - destruct (runs x); simpl; [rewrite Es|]; now apply IH.
Qed.

(** ---- pool bookkeeping ---- *)
Lemma lookup_nat_app {A} i (l1 l2 : list (nat * A)) :
  lookup_nat i (l1 ++ l2) = match lookup_nat i l1 with Some a => Some a | None => lookup_nat i l2 end.
Proof. induction l1 as [|[j a] r IH]; simpl; [reflexivity|]. destruct (Nat.eqb i j); auto. Qed.

(** add_to_store never overwrites, and afterwards holds the batch *)
Theorem add_to_store_spec s i v j :
  match add_to_store s i v with
  | Some st' =>
      lookup_nat j st' =
      match s with
      | Some st => match lookup_nat j st with Some x => Some x | None => if Nat.eqb j i then Some v else None end
      | None => if Nat.eqb j i then Some v else None
      end
  | None => False
  end.
Proof.
  unfold add_to_store. destruct s as [st|]; simpl.
  - destruct (lookup_nat i st) as [x|] eqn:Ei.
    + destruct (lookup_nat j st) eqn:Ej; [reflexivity|].
      destruct (Nat.eqb_spec j i); [subst; congruence | reflexivity].
    + rewrite lookup_nat_app. simpl. destruct (lookup_nat j st); reflexivity.
  - reflexivity.
Qed.

Lemma lookup_map_stores (f : name * store -> name * store) (Hf : forall ns, fst (f ns) = fst ns) n l :
  lookup n (map f l) = match lookup n l with Some s => Some (snd (f (n, s))) | None => None end.
Proof.
  induction l as [|[m s] r IH]; simpl; [reflexivity|].
  specialize (Hf (m, s)) as Hm. simpl in Hm. destruct (f (m, s)) as [m' s'] eqn:E. simpl in Hm. subst m'. simpl.
  destruct (String.eqb n m) eqn:En; [|exact IH].
  apply String.eqb_eq in En. subst. now rewrite E.
Qed.

(** after the callback a store holds batch i (with the fresh value unless it already held one), every
    other entry is untouched, and stores that are not in the result are unchanged *)
Theorem add_batch_spec p batch i n :
  lookup n (stores (add_batch p batch i)) =
  match lookup n (stores p) with
  | Some s => match lookup n batch with Some v => Some (add_to_store s i v) | None => Some s end
  | None => None
  end.
Proof.
  unfold add_batch. simpl.
  rewrite (lookup_map_stores (fun ns => match lookup (fst ns) batch with
                                        | Some v => (fst ns, add_to_store (snd ns) i v)
                                        | None => ns end)).
  - destruct (lookup n (stores p)) as [s|]; [|reflexivity]. simpl. destruct (lookup n batch); reflexivity.
  - intros [m s]. simpl. destruct (lookup m batch); reflexivity.
Qed.

(** ---- contexts ---- *)
Theorem make_context_refuses bs seed fresh p :
  make_context bs seed fresh p = CtxRefused <->
  exists pb ps, pl_batch_size p = Some pb /\ pl_seed p = Some ps /\
                ((exists b, bs = Some b /\ b <> pb) \/ (exists s, seed = Some s /\ s <> ps)).
Proof.
  unfold make_context. destruct (pl_batch_size p) as [pb|], (pl_seed p) as [ps|];
    try (split; [discriminate | intros [? [? [? [? _]]]]; discriminate]).
  split.
  - intros H. exists pb, ps. split; [reflexivity|]. split; [reflexivity|].
    destruct bs as [b|].
    + destruct (Nat.eqb_spec b pb) as [->|Hne]; [|left; eauto].
      destruct seed as [s|]; [|discriminate].
      destruct (Z.eqb_spec s ps); [discriminate | right; eauto].
    + destruct seed as [s|]; [|discriminate].
      destruct (Z.eqb_spec s ps); [discriminate | right; eauto].
  - intros [pb' [ps' [H1 [H2 H3]]]]. inversion H1; inversion H2; subst pb' ps'.
    destruct H3 as [[b [-> Hb]]|[s [-> Hs]]].
    + destruct (Nat.eqb_spec b pb); [contradiction | reflexivity].
    + destruct bs as [b|].
      * destruct (Nat.eqb_spec b pb); [|reflexivity]. destruct (Z.eqb_spec s ps); [contradiction | reflexivity].
      * destruct (Z.eqb_spec s ps); [contradiction | reflexivity].
Qed.
