(** End-to-end composition for C03 on the twin-free fragment: for every source net without
    observable / observed-using nodes, whatever ElfiModel.generate returns through
    compile (all five compilers, incl. the reduction) -> load -> execute is the user-level dataflow
    meaning [den_name] of the requested node. *)
From Coq Require Import List String ZArith Arith Bool Lia.
From Elfi Require Import Graph.Net Graph.Denote Proofs.C03_Exec Proofs.C03_Compile Proofs.C03_Ancestors
     Proofs.C02_Order Proofs.C05_Pool Proofs.C05_Cache.
Import ListNotations.

Definition inames : list name := ["_batch_size"; "_meta"; "_random_state"]%string.

Record plain (src : snet) : Prop := {
  pl_nodup : NoDup (map fst (s_nodes src));
  pl_noobs : forall n st, In (n, st) (s_nodes src) -> s_observable st = false /\ s_uses_observed st = false;
  pl_observed : s_observed src = [];
  pl_edges : forall e, In e (s_edges src) -> has (e_src e) (s_nodes src) = true /\ has (e_dst e) (s_nodes src) = true;
  pl_reserved : forall n, In n inames -> has n (s_nodes src) = false
}.

(** ---- small list facts ---- *)
Lemma In_lookup {A} n (l : list (name * A)) : In n (map fst l) -> exists a, lookup n l = Some a.
Proof.
  intros H. destruct (lookup n l) as [a|] eqn:E; [eauto|]. apply lookup_None_iff in E. contradiction.
Qed.

Lemma filter_split_length {A} (f : A -> bool) l :
  List.length (filter f l) + List.length (filter (fun x => negb (f x)) l) = List.length l.
Proof. induction l as [|x r IH]; simpl; [reflexivity|]. destruct (f x); simpl; lia. Qed.

Lemma filter_filter_absorb {A} (f h : A -> bool) l :
  (forall x, In x l -> f x = true -> h x = true) -> filter f (filter h l) = filter f l.
Proof.
  induction l as [|x r IH]; intros H; simpl; [reflexivity|].
  assert (Hr : forall y, In y r -> f y = true -> h y = true) by (intros y Hy; apply H; now right).
  destruct (h x) eqn:Eh; simpl.
  - destruct (f x); [f_equal|]; now apply IH.
  - destruct (f x) eqn:Ef; [|now apply IH]. rewrite (H x (or_introl eq_refl) Ef) in Eh. discriminate.
Qed.

Lemma preds_app es1 es2 n : preds (es1 ++ es2) n = preds es1 n ++ preds es2 n.
Proof. unfold preds. now rewrite filter_app, map_app. Qed.

Lemma combine_fst_snd {A B} (l : list (A * B)) : combine (map fst l) (map snd l) = l.
Proof. induction l as [|[a b] r IH]; simpl; [reflexivity|]. now rewrite IH. Qed.

(** ---- the topological order ---- *)
Lemma topo_iter_In es : forall fuel todo done x,
  In x (topo_iter fuel es todo done) -> In x todo \/ In x done.
Proof.
  induction fuel as [|f IH]; intros todo done x H; simpl in H.
  - apply in_app_iff in H. tauto.
  - set (ready := filter (fun n => forallb (fun pp : name * param => mem (fst pp) done) (preds es n)) todo) in *.
    destruct ready as [|r0 rr] eqn:E.
    + apply in_app_iff in H. tauto.
    + apply IH in H. destruct H as [H|H].
      * left. apply filter_In in H. tauto.
      * apply in_app_iff in H. destruct H as [H|H]; [now right|]. left.
        rewrite <- E in H. unfold ready in H. apply filter_In in H. tauto.
Qed.

Lemma topo_iter_length es : forall fuel todo done,
  List.length (topo_iter fuel es todo done) = List.length todo + List.length done.
Proof.
  induction fuel as [|f IH]; intros todo done; simpl.
  - rewrite app_length. lia.
  - set (P := fun n => forallb (fun pp : name * param => mem (fst pp) done) (preds es n)).
    destruct (filter P todo) as [|r0 rr] eqn:E.
    + rewrite app_length. lia.
    + rewrite IH, app_length, <- E.
      assert (Hf : filter (fun n => negb (mem n (filter P todo))) todo = filter (fun n => negb (P n)) todo).
      { apply filter_ext_in. intros a Ha. f_equal.
        destruct (P a) eqn:Ep.
        - apply mem_In. apply filter_In. auto.
        - destruct (mem a (filter P todo)) eqn:Em; [|reflexivity].
          apply mem_In in Em. apply filter_In in Em. destruct Em. congruence. }
      rewrite Hf. pose proof (filter_split_length P todo). lia.
Qed.

Lemma topo_order_In src x : In x (topo_order src) -> In x (map fst (s_nodes src)).
Proof. unfold topo_order. intros H. apply topo_iter_In in H. destruct H as [H|[]]. exact H. Qed.

Lemma topo_order_length src : List.length (topo_order src) = List.length (s_nodes src).
Proof. unfold topo_order. rewrite topo_iter_length, map_length. simpl. lia. Qed.

Lemma firstn_before_fresh m : forall p rest, ~ In m p -> firstn_before m (p ++ m :: rest) = p.
Proof.
  induction p as [|x p IH]; intros rest H; simpl.
  - now rewrite String.eqb_refl.
  - destruct (String.eqb m x) eqn:E.
    + apply String.eqb_eq in E. subst. exfalso. apply H. now left.
    + f_equal. apply IH. intros Hin. apply H. now right.
Qed.

Definition topo_ok (src : snet) : bool :=
  let t := topo_order src in
  forallb (fun n => forallb (fun pp : name * param => mem (fst pp) (firstn_before n t)) (preds (s_edges src) n)) t.

(** ---- compilation of a twin-free net ---- *)
Lemma compile_observed_plain src : forall topo ob us g,
  (forall n, In n topo -> exists st, lookup n (s_nodes src) = Some st /\ s_observable st = false /\ s_uses_observed st = false) ->
  compile_observed src topo ob us g = Ok (g, ob, us).
Proof.
  induction topo as [|n r IH]; intros ob us g H; simpl; [reflexivity|].
  destruct (H n (or_introl eq_refl)) as [st [Hl [Ho Hu]]]. rewrite Hl, Ho, Hu.
  apply IH. intros m Hm. apply H. now right.
Qed.

Definition G0 (src : snet) (cn : list (name * cnode)) (outs : list name) : cnet :=
  {| c_nodes := cn; c_edges := s_edges src; c_outputs := outs; c_observed := s_observed src |}.

Definition G4 (src : snet) (cn : list (name * cnode)) (outs : list name) : cnet :=
  compile_instruction src s_stochastic "_random_state"%string
    (compile_instruction src s_uses_meta "_meta"%string
       (compile_instruction src s_uses_batch_size "_batch_size"%string (G0 src cn outs))).

Lemma plain_node_flags src n : plain src -> In n (map fst (s_nodes src)) ->
  exists st, lookup n (s_nodes src) = Some st /\ s_observable st = false /\ s_uses_observed st = false.
Proof.
  intros Hp Hn. destruct (In_lookup _ _ Hn) as [st Hl]. exists st. split; [exact Hl|].
  apply (pl_noobs src Hp n st). now apply lookup_In_pair.
Qed.

Lemma compile_plain src outs g :
  plain src -> compile src outs = Ok g ->
  exists cn, compile_outputs (s_nodes src) = Ok cn /\ topo_ok src = true /\ g = compile_reduce (G4 src cn outs).
Proof.
  intros Hp H. unfold compile in H.
  destruct (compile_outputs (s_nodes src)) as [cn|] eqn:Ec; simpl in H; [|discriminate].
  fold (topo_ok src) in H. destruct (topo_ok src) eqn:Et; simpl in H; [|discriminate].
  rewrite compile_observed_plain in H.
  - simpl in H. inversion H. exists cn. auto.
  - intros n Hn. apply plain_node_flags; [exact Hp | now apply topo_order_In].
Qed.

(** ---- AdditionalNodesCompiler / RandomStateCompiler: exact edge list ---- *)
Lemma add_edge_fresh u v p : forall es,
  (forall e, In e es -> ~ (e_src e = u /\ e_dst e = v)) -> add_edge u v p es = es ++ [(u, v, p)].
Proof.
  induction es as [|e r IH]; intros H; simpl; [reflexivity|].
  destruct (String.eqb u (e_src e) && String.eqb v (e_dst e)) eqn:E.
  - apply andb_true_iff in E. destruct E as [E1 E2]. apply String.eqb_eq in E1, E2.
    exfalso. apply (H e (or_introl eq_refl)). auto.
  - f_equal. apply IH. intros e' He'. apply H. now right.
Qed.

Definition short_name (inode : name) : string := substring 1 (String.length inode) inode.

Definition instr_step (fl : sstate -> bool) (inode : name) (g1 : cnet) (ns : name * sstate) : cnet :=
  if fl (snd ns) then add_cedge inode (fst ns) (PStr (short_name inode)) g1 else g1.

Definition instr_edges_of (fl : sstate -> bool) (inode : name) (l : list (name * sstate)) : list edge :=
  flat_map (fun ns : name * sstate => if fl (snd ns) then [(inode, fst ns, PStr (short_name inode))] else []) l.

Lemma compile_instruction_fold src fl inode g :
  compile_instruction src fl inode g = fold_left (instr_step fl inode) (s_nodes src) g.
Proof. reflexivity. Qed.

Lemma instr_fold_edges fl inode : forall l g,
  NoDup (map fst l) ->
  (forall e, In e (c_edges g) -> e_src e = inode -> ~ In (e_dst e) (map fst l)) ->
  c_edges (fold_left (instr_step fl inode) l g) = c_edges g ++ instr_edges_of fl inode l.
Proof.
  induction l as [|[m st] r IH]; intros g Hnd Hfresh; simpl; [now rewrite app_nil_r|].
  inversion Hnd as [|? ? Hm Hr]; subst.
  unfold instr_step at 2. simpl. destruct (fl st) eqn:Ef.
  - rewrite IH; [| exact Hr |].
    + rewrite c_edges_add_cedge, add_edge_fresh.
      * now rewrite <- app_assoc.
      * intros e He [H1 H2]. apply (Hfresh e He H1). left. now rewrite H2.
    + intros e He Hs. rewrite c_edges_add_cedge, add_edge_fresh in He.
      * apply in_app_iff in He. destruct He as [He|[<-|[]]].
        -- intros Hin. apply (Hfresh e He Hs). now right.
        -- exact Hm.
      * intros e' He' [H1 H2]. apply (Hfresh e' He' H1). left. now rewrite H2.
  - apply IH; [exact Hr|]. intros e He Hs Hin. apply (Hfresh e He Hs). now right.
Qed.

Lemma instr_edges_of_cons fl inode m st r :
  instr_edges_of fl inode ((m, st) :: r)
  = (if fl st then [(inode, m, PStr (short_name inode))] else []) ++ instr_edges_of fl inode r.
Proof. reflexivity. Qed.

Lemma preds_single u v p n : preds [(u, v, p)] n = if String.eqb n v then [(u, p)] else [].
Proof. unfold preds. simpl. unfold e_dst. simpl. destruct (String.eqb n v); reflexivity. Qed.

Lemma preds_instr_edges fl inode n : forall l,
  NoDup (map fst l) ->
  preds (instr_edges_of fl inode l) n =
  match lookup n l with
  | Some st => if fl st then [(inode, PStr (short_name inode))] else []
  | None => []
  end.
Proof.
  induction l as [|[m st] r IH]; intros Hnd; [reflexivity|].
  inversion Hnd as [|? ? Hm Hr]; subst.
  rewrite instr_edges_of_cons, preds_app, (IH Hr). cbn [lookup].
  destruct (String.eqb n m) eqn:E.
  - apply String.eqb_eq in E. subst m.
    assert (Hnone : lookup n r = None) by (now apply lookup_None_iff). rewrite Hnone, app_nil_r.
    destruct (fl st); [|reflexivity]. now rewrite preds_single, String.eqb_refl.
  - destruct (fl st); [|reflexivity]. now rewrite preds_single, E.
Qed.

(** nodes: adding edges only creates missing nodes *)
Lemma ensure_node_lookup m n g : has m (c_nodes g) = true ->
  lookup m (c_nodes (ensure_node n g)) = lookup m (c_nodes g).
Proof.
  intros H. unfold ensure_node. destruct (has n (c_nodes g)) eqn:E; [reflexivity|].
  destruct (string_dec n m) as [->|Hne]; [congruence|]. now apply lookup_add_node_other.
Qed.

Lemma add_cedge_lookup m u v p g : has m (c_nodes g) = true ->
  lookup m (c_nodes (add_cedge u v p g)) = lookup m (c_nodes g).
Proof.
  intros H. unfold add_cedge. simpl.
  rewrite ensure_node_lookup; [now apply ensure_node_lookup|].
  unfold has. rewrite ensure_node_lookup by exact H. exact H.
Qed.

Lemma instr_fold_lookup fl inode m : forall l g, has m (c_nodes g) = true ->
  lookup m (c_nodes (fold_left (instr_step fl inode) l g)) = lookup m (c_nodes g).
Proof.
  induction l as [|ns r IH]; intros g H; simpl; [reflexivity|].
  unfold instr_step at 2. destruct (fl (snd ns)); [|now apply IH].
  rewrite IH; [now apply add_cedge_lookup|]. unfold has. now rewrite add_cedge_lookup.
Qed.

Lemma add_cedge_observed u v p g : c_observed (add_cedge u v p g) = c_observed g.
Proof. unfold add_cedge, ensure_node, add_node. simpl. destruct (has u (c_nodes g)); simpl; destruct (has v _); reflexivity. Qed.

Lemma instr_fold_observed fl inode : forall l g,
  c_observed (fold_left (instr_step fl inode) l g) = c_observed g.
Proof.
  induction l as [|ns r IH]; intros g; simpl; [reflexivity|]. rewrite IH.
  unfold instr_step. destruct (fl (snd ns)); [apply add_cedge_observed | reflexivity].
Qed.

(** the compiled net before the reduction *)
Lemma G4_edges src cn outs : plain src ->
  c_edges (G4 src cn outs) =
  ((s_edges src ++ instr_edges_of s_uses_batch_size "_batch_size"%string (s_nodes src))
   ++ instr_edges_of s_uses_meta "_meta"%string (s_nodes src))
  ++ instr_edges_of s_stochastic "_random_state"%string (s_nodes src).
Proof.
  intros Hp. unfold G4. rewrite !compile_instruction_fold.
  assert (Hsrc : forall e i, In e (s_edges src) -> In i inames -> e_src e <> i).
  { intros e i He Hi Heq. destruct (pl_edges src Hp e He) as [H1 _]. rewrite Heq, (pl_reserved src Hp i Hi) in H1. discriminate. }
  assert (Hie : forall fl i e, In e (instr_edges_of fl i (s_nodes src)) -> e_src e = i).
  { intros fl i e He. unfold instr_edges_of in He. apply in_flat_map in He. destruct He as [ns [_ He]].
    destruct (fl (snd ns)); [|destruct He]. destruct He as [<-|[]]. reflexivity. }
  rewrite instr_fold_edges; [| exact (pl_nodup src Hp) |].
  - rewrite instr_fold_edges; [| exact (pl_nodup src Hp) |].
    + rewrite instr_fold_edges; [reflexivity | exact (pl_nodup src Hp) |].
      simpl. intros e He Hs. exfalso. apply (Hsrc e _ He (or_introl eq_refl)). exact Hs.
    + intros e He Hs. exfalso. rewrite instr_fold_edges in He; [| exact (pl_nodup src Hp) |].
      * apply in_app_iff in He. destruct He as [He|He].
        -- apply (Hsrc e "_meta"%string He); [simpl; tauto | exact Hs].
        -- apply Hie in He. rewrite He in Hs. discriminate.
      * simpl. intros e' He' Hs'. exfalso. apply (Hsrc e' _ He' (or_introl eq_refl)). exact Hs'.
  - intros e He Hs. exfalso.
    rewrite instr_fold_edges in He; [| exact (pl_nodup src Hp) |].
    + apply in_app_iff in He. destruct He as [He|He]; [| apply Hie in He; rewrite He in Hs; discriminate].
      rewrite instr_fold_edges in He; [| exact (pl_nodup src Hp) |].
      * apply in_app_iff in He. destruct He as [He|He]; [| apply Hie in He; rewrite He in Hs; discriminate].
        apply (Hsrc e "_random_state"%string He); [simpl; tauto | exact Hs].
      * simpl. intros e' He' Hs'. exfalso. apply (Hsrc e' _ He' (or_introl eq_refl)). exact Hs'.
    + intros e' He' Hs'. exfalso. rewrite instr_fold_edges in He'; [| exact (pl_nodup src Hp) |].
      * apply in_app_iff in He'. destruct He' as [He'|He']; [| apply Hie in He'; rewrite He' in Hs'; discriminate].
        apply (Hsrc e' "_meta"%string He'); [simpl; tauto | exact Hs'].
      * simpl. intros e2 He2 Hs2. exfalso. apply (Hsrc e2 _ He2 (or_introl eq_refl)). exact Hs2.
Qed.

Definition runtime_preds (st : sstate) : list (name * param) :=
  (if s_uses_batch_size st then [("_batch_size"%string, PStr "batch_size"%string)] else [])
  ++ (if s_uses_meta st then [("_meta"%string, PStr "meta"%string)] else [])
  ++ (if s_stochastic st then [("_random_state"%string, PStr "random_state"%string)] else []).

Lemma G4_preds src cn outs n st : plain src -> lookup n (s_nodes src) = Some st ->
  preds (c_edges (G4 src cn outs)) n = preds (s_edges src) n ++ runtime_preds st.
Proof.
  intros Hp Hl. rewrite (G4_edges src cn outs Hp), !preds_app.
  rewrite !(preds_instr_edges _ _ n _ (pl_nodup src Hp)), Hl.
  unfold runtime_preds. rewrite <- !app_assoc. reflexivity.
Qed.

Lemma G4_lookup src cn outs m : has m cn = true -> lookup m (c_nodes (G4 src cn outs)) = lookup m cn.
Proof.
  intros H. unfold G4. rewrite !compile_instruction_fold.
  rewrite instr_fold_lookup; [rewrite instr_fold_lookup; [now rewrite instr_fold_lookup|]|].
  - unfold has. now rewrite instr_fold_lookup.
  - unfold has. rewrite instr_fold_lookup; [now rewrite instr_fold_lookup|].
    unfold has. now rewrite instr_fold_lookup.
Qed.

Lemma G4_observed src cn outs : c_observed (G4 src cn outs) = s_observed src.
Proof. unfold G4. rewrite !compile_instruction_fold, !instr_fold_observed. reflexivity. Qed.

(** ---- ReduceCompiler ---- *)
Definition reduce_step (keep : list name) (g1 : cnet) (nc : name * cnode) : cnet :=
  if mem (fst nc) keep then g1 else remove_cnode (fst nc) g1.

Lemma compile_reduce_fold g :
  compile_reduce g = fold_left (reduce_step (ancestors_incl (c_edges g) (c_outputs g))) (c_nodes g) g.
Proof. reflexivity. Qed.

Lemma lookup_remove_other {A} n m (l : list (name * A)) : n <> m -> lookup m (remove n l) = lookup m l.
Proof.
  intros Hne. unfold remove. induction l as [|[k a] r IH]; simpl; [reflexivity|].
  destruct (String.eqb n k) eqn:E; simpl.
  - apply String.eqb_eq in E. subst k.
    destruct (String.eqb m n) eqn:E2; [apply String.eqb_eq in E2; congruence | exact IH].
  - destruct (String.eqb m k); [reflexivity | exact IH].
Qed.

Lemma lookup_remove_same {A} n (l : list (name * A)) : lookup n (remove n l) = None.
Proof.
  unfold remove. induction l as [|[k a] r IH]; simpl; [reflexivity|].
  destruct (String.eqb n k) eqn:E; simpl; [exact IH | now rewrite E].
Qed.

Lemma reduce_fold_lookup_kept keep m : mem m keep = true -> forall l g,
  lookup m (c_nodes (fold_left (reduce_step keep) l g)) = lookup m (c_nodes g).
Proof.
  intros Hm. induction l as [|nc r IH]; intros g; simpl; [reflexivity|]. rewrite IH.
  unfold reduce_step. destruct (mem (fst nc) keep) eqn:E; [reflexivity|]. simpl.
  apply lookup_remove_other. intros Heq. congruence.
Qed.

Lemma reduce_fold_lookup_dropped keep m : mem m keep = false -> forall l g,
  In m (map fst l) \/ lookup m (c_nodes g) = None ->
  lookup m (c_nodes (fold_left (reduce_step keep) l g)) = None.
Proof.
  intros Hm. induction l as [|nc r IH]; intros g H; simpl.
  - destruct H as [[]|H]. exact H.
  - apply IH. unfold reduce_step. destruct (String.eqb (fst nc) m) eqn:E.
    + apply String.eqb_eq in E. rewrite E, Hm. simpl. right. apply lookup_remove_same.
    + apply String.eqb_neq in E. destruct H as [[H|H]|H]; [congruence | now left |].
      right. destruct (mem (fst nc) keep); [exact H|]. simpl. now rewrite lookup_remove_other.
Qed.

Lemma reduce_fold_preds keep n : mem n keep = true -> forall l g,
  (forall e, In e (c_edges g) -> e_dst e = n -> mem (e_src e) keep = true) ->
  preds (c_edges (fold_left (reduce_step keep) l g)) n = preds (c_edges g) n.
Proof.
  intros Hn. induction l as [|nc r IH]; intros g H; simpl; [reflexivity|].
  unfold reduce_step at 2. destruct (mem (fst nc) keep) eqn:E; [now apply IH|].
  rewrite IH.
  - unfold remove_cnode, preds. simpl. f_equal. apply filter_filter_absorb.
    intros e He Hd. apply String.eqb_eq in Hd.
    assert (Hs : mem (e_src e) keep = true) by (apply H; auto).
    apply andb_true_iff. split; apply negb_true_iff; apply String.eqb_neq; intros Heq.
    + rewrite <- Heq in Hs. congruence.
    + rewrite Hd, <- Heq in Hn. congruence.
  - intros e He Hd. simpl in He. apply filter_In in He. apply H; tauto.
Qed.

Lemma reduce_fold_observed keep : forall l g, c_observed (fold_left (reduce_step keep) l g) = c_observed g.
Proof.
  induction l as [|nc r IH]; intros g; simpl; [reflexivity|]. rewrite IH.
  unfold reduce_step. destruct (mem (fst nc) keep); reflexivity.
Qed.

(** what the reduction leaves of a node *)
Lemma reduce_node g m c :
  lookup m (c_nodes (compile_reduce g)) = Some c ->
  lookup m (c_nodes g) = Some c
  /\ preds (c_edges (compile_reduce g)) m = preds (c_edges g) m.
Proof.
  intros H. rewrite compile_reduce_fold in *.
  set (keep := ancestors_incl (c_edges g) (c_outputs g)) in *.
  destruct (mem m keep) eqn:Em.
  - rewrite reduce_fold_lookup_kept in H by exact Em. split; [exact H|].
    apply reduce_fold_preds; [exact Em|].
    intros e He Hd. apply mem_In. apply (proj2 (ancestors_incl_complete (c_edges g) (c_outputs g)) e He).
    rewrite Hd. now apply mem_In.
  - exfalso. rewrite reduce_fold_lookup_dropped in H; [discriminate | exact Em |].
    destruct (lookup m (c_nodes g)) eqn:El; [left; eapply lookup_key_In; eauto | now right].
Qed.

(** ---- loading ---- *)
Lemma set_output_edges n v b g : c_edges (set_output n v b g) = c_edges g.
Proof. unfold set_output. destruct (lookup n (c_nodes g)); reflexivity. Qed.

Lemma load_runtime_edges g : c_edges (load_runtime g) = c_edges g.
Proof. unfold load_runtime. now rewrite !set_output_edges. Qed.

Lemma load_runtime_other m g : ~ In m inames -> lookup m (c_nodes (load_runtime g)) = lookup m (c_nodes g).
Proof.
  intros H. unfold load_runtime. simpl in H.
  rewrite !set_output_other; [reflexivity | | |]; intros Heq; apply H; subst; tauto.
Qed.

Lemma set_output_out n v b g c : lookup n (c_nodes (set_output n v b g)) = Some c -> c_out c = Some v.
Proof.
  unfold set_output. destruct (lookup n (c_nodes g)) as [c0|] eqn:E.
  - rewrite lookup_add_node_same. intros H. inversion H. reflexivity.
  - congruence.
Qed.

Definition runtime_value (i : name) : value :=
  if String.eqb i "_batch_size" then VBatch else if String.eqb i "_meta" then VMeta else VRng.

Lemma load_runtime_out i g c : In i inames ->
  lookup i (c_nodes (load_runtime g)) = Some c -> c_out c = Some (runtime_value i).
Proof.
  intros Hi H. unfold load_runtime in H. simpl in Hi. destruct Hi as [<-|[<-|[<-|[]]]].
  - rewrite !set_output_other in H by discriminate. now apply set_output_out in H.
  - rewrite set_output_other in H by discriminate. now apply set_output_out in H.
  - now apply set_output_out in H.
Qed.

Definition wp (W : list (name * value)) : list (name * option value) := map (fun nv => (fst nv, Some (snd nv))) W.

Lemma lookup_wp m W : lookup m (wp W) = match lookup m W with Some v => Some (Some v) | None => None end.
Proof. induction W as [|[k v] r IH]; simpl; [reflexivity|]. destruct (String.eqb m k); [reflexivity | exact IH]. Qed.

Lemma wp_keys W : map fst (wp W) = map fst W.
Proof. unfold wp. rewrite map_map. reflexivity. Qed.

(** ---- nodes of the loaded net ---- *)
Lemma compiled_lookup : forall ns cn m st,
  Forall2 (fun (a : name * sstate) (b : name * cnode) => fst a = fst b /\ compiled_as (fst a) (snd a) (snd b)) ns cn ->
  lookup m ns = Some st -> exists c, lookup m cn = Some c /\ compiled_as m st c.
Proof.
  intros ns cn m st H. induction H as [|[n s] [n' c] ns cn [Hn Hc] _ IH]; simpl; [discriminate|].
  simpl in Hn, Hc. subst n'. destruct (String.eqb m n) eqn:E.
  - apply String.eqb_eq in E. subst n. intros Hs. inversion Hs; subst. eauto.
  - exact IH.
Qed.

Section Loaded.
  Variables (src : snet) (outs : list name) (W : list (name * value)) (cn : list (name * cnode)).
  Hypothesis Hp : plain src.
  Hypothesis HWnd : NoDup (map fst W).
  Hypothesis HWi : forall k, In k (map fst W) -> ~ In k inames.
  Hypothesis Hcn : compile_outputs (s_nodes src) = Ok cn.

  Let gr := compile_reduce (G4 src cn outs).
  Let lg := load (wp W) gr.

  Lemma gr_observed : c_observed gr = [].
  Proof.
    unfold gr. rewrite compile_reduce_fold, reduce_fold_observed, G4_observed. exact (pl_observed src Hp).
  Qed.

  Lemma lg_eq : lg = load_pool (wp W) (load_runtime gr).
  Proof. unfold lg, load, load_observed. rewrite gr_observed. reflexivity. Qed.

  Lemma lg_edges : c_edges lg = c_edges gr.
  Proof. rewrite lg_eq, load_pool_edges, load_runtime_edges. reflexivity. Qed.

  Lemma wp_nodup : NoDup (map fst (wp W)).
  Proof. now rewrite wp_keys. Qed.

  Lemma source_not_reserved m st : lookup m (s_nodes src) = Some st -> ~ In m inames.
  Proof.
    intros Hl Hi. pose proof (pl_reserved src Hp m Hi) as H. unfold has in H. now rewrite Hl in H.
  Qed.

  Lemma lg_source_node m st c :
    lookup m (s_nodes src) = Some st -> lookup m (c_nodes lg) = Some c ->
    preds (c_edges lg) m = preds (s_edges src) m ++ runtime_preds st
    /\ match lookup m W with
       | Some w => c = {| c_out := Some w; c_op := None |}
       | None => compiled_as m st c
       end.
  Proof.
    intros Hl Hc. pose proof (source_not_reserved m st Hl) as Hni.
    destruct (compiled_lookup _ _ m st (compile_outputs_spec _ _ Hcn) Hl) as [c0 [Hc0 Hcomp]].
    assert (Hhas : has m cn = true) by (unfold has; now rewrite Hc0).
    rewrite lg_eq, (load_pool_lookup _ _ m wp_nodup), lookup_wp, (load_runtime_other m gr Hni) in Hc.
    assert (Hgr : exists c1, lookup m (c_nodes gr) = Some c1
                            /\ match lookup m W with Some w => c = {| c_out := Some w; c_op := None |} | None => c = c1 end).
    { destruct (lookup m W) as [w|].
      - destruct (lookup m (c_nodes gr)) as [c1|]; [|discriminate]. inversion Hc. eauto.
      - eauto. }
    destruct Hgr as [c1 [Hc1 Hcase]].
    destruct (reduce_node _ m c1 Hc1) as [H4 Hpreds].
    rewrite (G4_lookup src cn outs m Hhas), Hc0 in H4. inversion H4; subst c1.
    split.
    - rewrite lg_edges. unfold gr. rewrite Hpreds. now apply G4_preds.
    - destruct (lookup m W); [exact Hcase | now subst c].
  Qed.

  Lemma lg_runtime_node i c : In i inames -> lookup i (c_nodes lg) = Some c -> c_out c = Some (runtime_value i).
  Proof.
    intros Hi Hc. rewrite lg_eq, (load_pool_lookup _ _ i wp_nodup), lookup_wp in Hc.
    assert (Hn : lookup i W = None).
    { apply lookup_None_iff. intros Hin. exact (HWi i Hin Hi). }
    rewrite Hn in Hc. now apply load_runtime_out in Hc.
  Qed.

  Lemma Den_runtime i v : In i inames -> Den lg i v -> v = runtime_value i.
  Proof.
    intros Hi Hd. inversion Hd as [n c v0 Hl Ho|n c o pvs Hl Ho Hop Hps]; subst.
    - pose proof (lg_runtime_node i c Hi Hl). congruence.
    - pose proof (lg_runtime_node i c Hi Hl). congruence.
  Qed.

  Lemma DenList_app_inv : forall l1 l2 pvs, DenList lg (l1 ++ l2) pvs ->
    exists p1 p2, pvs = p1 ++ p2 /\ DenList lg l1 p1 /\ DenList lg l2 p2.
  Proof.
    induction l1 as [|[u p] r IH]; intros l2 pvs H; simpl in H.
    - exists [], pvs. repeat split; [constructor | exact H].
    - inversion H as [|u0 p0 r0 v rest Hd Hr]; subst.
      destruct (IH _ _ Hr) as [p1 [p2 [-> [H1 H2]]]].
      exists ((p, v) :: p1), p2. repeat split; [now constructor | exact H2].
  Qed.

  Lemma DenList_runtime st pvs : DenList lg (runtime_preds st) pvs ->
    pvs = (if s_uses_batch_size st then [(PStr "batch_size"%string, VBatch)] else [])
          ++ (if s_uses_meta st then [(PStr "meta"%string, VMeta)] else [])
          ++ (if s_stochastic st then [(PStr "random_state"%string, VRng)] else []).
  Proof.
    unfold runtime_preds. intros H.
    destruct (DenList_app_inv _ _ _ H) as [p1 [p23 [-> [H1 H23]]]].
    destruct (DenList_app_inv _ _ _ H23) as [p2 [p3 [-> [H2 H3]]]].
    assert (E1 : p1 = if s_uses_batch_size st then [(PStr "batch_size"%string, VBatch)] else []).
    { destruct (s_uses_batch_size st); inversion H1 as [|u p r v rest Hd Hr]; subst; [|reflexivity].
      inversion Hr; subst. apply Den_runtime in Hd; [now subst | simpl; tauto]. }
    assert (E2 : p2 = if s_uses_meta st then [(PStr "meta"%string, VMeta)] else []).
    { destruct (s_uses_meta st); inversion H2 as [|u p r v rest Hd Hr]; subst; [|reflexivity].
      inversion Hr; subst. apply Den_runtime in Hd; [now subst | simpl; tauto]. }
    assert (E3 : p3 = if s_stochastic st then [(PStr "random_state"%string, VRng)] else []).
    { destruct (s_stochastic st); inversion H3 as [|u p r v rest Hd Hr]; subst; [|reflexivity].
      inversion Hr; subst. apply Den_runtime in Hd; [now subst | simpl; tauto]. }
    now subst.
  Qed.

  Lemma DenList_den f : forall ps pvs,
    (forall u p, In (u, p) ps -> forall v, Den lg u v -> den f src W false u = Some v) ->
    DenList lg ps pvs ->
    all_some (map (fun pp : name * param => den f src W false (fst pp)) ps) = Some (map snd pvs)
    /\ map fst pvs = map snd ps.
  Proof.
    induction ps as [|[u p] r IH]; intros pvs Hall H; inversion H as [|u0 p0 r0 v rest Hd Hr]; subst; simpl.
    - auto.
    - rewrite (Hall u p (or_introl eq_refl) v Hd).
      destruct (IH rest (fun u' p' Hin => Hall u' p' (or_intror Hin)) Hr) as [H1 H2].
      rewrite H1, H2. auto.
  Qed.

  (** one unfolding of the user-level meaning at a twin-free node *)
  Lemma den_plain_step f n st :
    lookup n (s_nodes src) = Some st -> s_observable st = false -> s_uses_observed st = false ->
    den (S f) src W false n =
    match lookup n W with
    | Some v => Some v
    | None =>
        match s_output st with
        | Some v => Some v
        | None =>
            match all_some (map (fun pp : name * param => den f src W false (fst pp)) (preds (s_edges src) n)) with
            | None => None
            | Some vs =>
                Some (mk_call (OpUser (s_opid st))
                        (combine (map snd (preds (s_edges src) n)) vs
                         ++ (if s_uses_batch_size st then [(PStr "batch_size"%string, VBatch)] else [])
                         ++ (if s_uses_meta st then [(PStr "meta"%string, VMeta)] else [])
                         ++ (if s_stochastic st then [(PStr "random_state"%string, VRng)] else [])))
            end
        end
    end.
  Proof.
    intros Hl Ho Hu. cbn [den]. unfold sstate_of. rewrite Hl, Hu. cbn [andb].
    destruct (lookup n W); [reflexivity|]. destruct (s_output st); [reflexivity|].
    destruct (all_some _); reflexivity.
  Qed.

  (** ---- the main induction, along the topological order the compiler checks ---- *)
  Hypothesis Htopo : topo_ok src = true.

  Lemma topo_parents n : In n (topo_order src) ->
    forall u p, In (u, p) (preds (s_edges src) n) -> In u (firstn_before n (topo_order src)).
  Proof.
    intros Hn u p Hup. pose proof Htopo as Ht. unfold topo_ok in Ht. rewrite forallb_forall in Ht.
    specialize (Ht n Hn). rewrite forallb_forall in Ht. specialize (Ht (u, p) Hup). now apply mem_In.
  Qed.

  Lemma den_prefix : forall p rest, topo_order src = p ++ rest ->
    forall n, In n p -> forall f, List.length p <= f -> forall v, Den lg n v -> den f src W false n = Some v.
  Proof.
    induction p as [|m p IH] using rev_ind; intros rest Ht n Hn f Hf v Hd; [destruct Hn|].
    rewrite <- app_assoc in Ht. simpl in Ht. rewrite app_length in Hf. simpl in Hf.
    destruct (in_dec string_dec n p) as [Hin|Hnin].
    - apply (IH (m :: rest) Ht n Hin f); [lia | exact Hd].
    - apply in_app_iff in Hn. destruct Hn as [Hn|[<-|[]]]; [contradiction|].
      destruct f as [|f]; [lia|].
      assert (Hnt : In m (topo_order src)) by (rewrite Ht; apply in_app_iff; right; now left).
      destruct (plain_node_flags src m Hp (topo_order_In src m Hnt)) as [st [Hl [Ho Hu]]].
      rewrite (den_plain_step f m st Hl Ho Hu).
      inversion Hd as [n0 c v0 Hlc Hout | n0 c o pvs Hlc Hout Hop Hps]; subst.
      + destruct (lg_source_node m st c Hl Hlc) as [_ Hcase].
        destruct (lookup m W) as [w|].
        * subst c. simpl in Hout. congruence.
        * destruct Hcase as [[v1 [H1 [_ ->]]] | [H1 [_ ->]]]; simpl in Hout.
          -- rewrite H1. congruence.
          -- discriminate.
      + destruct (lg_source_node m st c Hl Hlc) as [Hpreds Hcase].
        destruct (lookup m W) as [w|].
        * subst c. simpl in Hout. discriminate.
        * destruct Hcase as [[v1 [H1 [_ ->]]] | [H1 [_ ->]]]; simpl in Hout, Hop; [discriminate|].
          inversion Hop; subst o. rewrite H1.
          rewrite Hpreds in Hps. destruct (DenList_app_inv _ _ _ Hps) as [pb [pr [-> [Hb Hr]]]].
          apply DenList_runtime in Hr.
          destruct (DenList_den f (preds (s_edges src) m) pb) as [Hall Hfst]; [ | exact Hb | ].
          { intros u q Huq v' Hd'. apply (IH (m :: rest) Ht u); [ | lia | exact Hd'].
            pose proof (topo_parents m Hnt u q Huq) as Hu'.
            rewrite Ht, (firstn_before_fresh m p rest Hnin) in Hu'. exact Hu'. }
          rewrite Hall, <- Hfst, combine_fst_snd. now subst pr.
  Qed.
End Loaded.

Lemma topo_iter_In_rev es : forall fuel todo done x,
  In x todo \/ In x done -> In x (topo_iter fuel es todo done).
Proof.
  induction fuel as [|f IH]; intros todo done x H; simpl.
  - apply in_app_iff. tauto.
  - set (P := fun n => forallb (fun pp : name * param => mem (fst pp) done) (preds es n)).
    destruct (filter P todo) as [|r0 rr] eqn:E.
    + apply in_app_iff. tauto.
    + apply IH. rewrite <- E. destruct H as [H|H].
      * destruct (P x) eqn:Ep.
        -- right. apply in_app_iff. right. apply filter_In. auto.
        -- left. apply filter_In. split; [exact H|]. apply negb_true_iff.
           destruct (mem x (filter P todo)) eqn:Em; [|reflexivity].
           apply mem_In in Em. apply filter_In in Em. destruct Em. congruence.
      * right. apply in_app_iff. now left.
Qed.

Lemma topo_order_In_rev src x : In x (map fst (s_nodes src)) -> In x (topo_order src).
Proof. intros H. unfold topo_order. apply topo_iter_In_rev. now left. Qed.

(** ElfiModel.generate on a twin-free model returns the user-level meaning of every requested node. *)
Theorem generate_plain_sound src outs W out log :
  plain src -> NoDup (map fst W) -> (forall k, In k (map fst W) -> ~ In k inames) ->
  generate src outs W = Ok (out, log) ->
  forall o v, In (o, v) out -> has o (s_nodes src) = true -> den_name src W o = Some v.
Proof.
  intros Hp Hnd Hi Hg o v Hin Hhas. unfold generate in Hg.
  destruct (compile src outs) as [g|] eqn:Ec; simpl in Hg; [|discriminate].
  destruct (compile_plain _ _ _ Hp Ec) as [cn [Hcn [Ht ->]]].
  change (map (fun nv : name * value => (fst nv, Some (snd nv))) W) with (wp W) in Hg.
  destruct (execute (load (wp W) (compile_reduce (G4 src cn outs))) empty_cache) as [[[out' log'] c']|] eqn:Ee; simpl in Hg; [|discriminate].
  inversion Hg; subst out' log'.
  destruct (execute_sound _ _ _ _ _ CacheOK_empty Ee) as [Hden _].
  specialize (Hden o v Hin).
  unfold den_name, sstate_of. apply has_lookup in Hhas. destruct Hhas as [st Hst]. rewrite Hst.
  apply (den_prefix src outs W cn Hp Hnd Hi Hcn Ht (topo_order src) [] (eq_sym (app_nil_r _)) o).
  - apply topo_order_In_rev. eapply lookup_key_In. exact Hst.
  - unfold den_fuel. rewrite topo_order_length. lia.
  - exact Hden.
Qed.

(** a decidable form of [plain], for concrete nets *)
Definition plain_b (src : snet) : bool :=
  nodup_b (map fst (s_nodes src))
  && forallb (fun ns : name * sstate => negb (s_observable (snd ns)) && negb (s_uses_observed (snd ns))) (s_nodes src)
  && match s_observed src with [] => true | _ => false end
  && forallb (fun e => has (e_src e) (s_nodes src) && has (e_dst e) (s_nodes src)) (s_edges src)
  && forallb (fun i => negb (has i (s_nodes src))) inames.

Lemma nodup_b_sound l : nodup_b l = true -> NoDup l.
Proof.
  induction l as [|x r IH]; simpl; intros H; [constructor|].
  apply andb_true_iff in H. destruct H as [H1 H2]. constructor; [|now apply IH].
  intros Hin. apply mem_In in Hin. rewrite Hin in H1. discriminate.
Qed.

Lemma plain_b_sound src : plain_b src = true -> plain src.
Proof.
  unfold plain_b. intros H.
  apply andb_true_iff in H. destruct H as [H Hres].
  apply andb_true_iff in H. destruct H as [H Hedges].
  apply andb_true_iff in H. destruct H as [H Hobs].
  apply andb_true_iff in H. destruct H as [Hnd Hflags].
  constructor.
  - now apply nodup_b_sound.
  - intros n st Hin. rewrite forallb_forall in Hflags. specialize (Hflags (n, st) Hin). simpl in Hflags.
    apply andb_true_iff in Hflags. destruct Hflags as [Ha Hb]. apply negb_true_iff in Ha, Hb. auto.
  - destruct (s_observed src); [reflexivity | discriminate].
  - intros e He. rewrite forallb_forall in Hedges. specialize (Hedges e He). now apply andb_true_iff in Hedges.
  - intros n Hn. rewrite forallb_forall in Hres. specialize (Hres n Hn). now apply negb_true_iff in Hres.
Qed.
