(** C03: the refusal branch of [Denote.ok], and [ok] on the model's own result for EVERY case.

    [Denote.wf_case] is the decidable conjunction of all hypotheses of
    [C03_Succeeds.generate_succeeds] except "no stochastic observed data".  Hence
      - the model refuses only malformed graphs or stochastic observed data ([model_refusal_ok]);
      - for a [wf_case] the model's result, success or refusal, passes [ok] ([model_ok_wf]);
      - for an arbitrary case the model's result passes [ok] as soon as the hypotheses of
        [C03_ModelOk.model_ok] hold or the model refuses ([model_ok_total]); without them the
        statement is false ([model_ok_unconditional_false]);
      - [ok] only became weaker on refusals and is unchanged on accepted runs ([ok_monotone]). *)
From Coq Require Import List String Ascii ZArith Arith Bool Lia Permutation Btauto.
From Elfi Require Import Base.StrOrder Graph.Net Graph.Denote Proofs.C03_Exec Proofs.C03_Compile Proofs.C03_Ancestors
     Proofs.C03_EndToEnd Proofs.C03_Twins Proofs.C03_ModelOk Proofs.C02_Success Proofs.C03_Succeeds.
Import ListNotations.

(** ================================================================================== *)
(** ---- the conjuncts of [wf_case], restated in Denote.v, are the [_b] forms of the proofs ---- *)
Lemma reserved_names_inames : reserved_names = inames.
Proof. reflexivity. Qed.

Lemma edge_pairs_distinct_pairs es : edge_pairs_distinct es = pairs_nodup_b (map fst es).
Proof.
  induction es as [|e r IH]; [reflexivity|].
  cbn [edge_pairs_distinct map pairs_nodup_b]. rewrite IH. f_equal. f_equal.
  clear IH. induction r as [|e' r IH]; [reflexivity|]. cbn [existsb map]. rewrite IH. reflexivity.
Qed.

Lemma forallb_ext' {A} (f g : A -> bool) l : (forall x, f x = g x) -> forallb f l = forallb g l.
Proof. intros H. induction l as [|x r IH]; [reflexivity|]. cbn [forallb]. now rewrite H, IH. Qed.

Lemma xorb_out_ok (x : name * sstate) :
  xorb (match s_output (snd x) with Some _ => true | None => false end) (s_has_op (snd x)) = out_ok x.
Proof. unfold out_ok. destruct (s_output (snd x)), (s_has_op (snd x)); reflexivity. Qed.

(** the part of [wf_case] that only reads the source net and the requested outputs / supplied values,
    split into the [_b] forms *)
Definition with_ok_b (W : list (name * value)) : bool :=
  nodup_b (map fst W) && forallb (fun kv : name * value => negb (mem (fst kv) inames)) W.

Lemma with_ok_b_sound W : with_ok_b W = true -> NoDup (map fst W) /\ (forall k, In k (map fst W) -> ~ In k inames).
Proof.
  unfold with_ok_b. intros H. apply andb_true_iff in H. destruct H as [H1 H2]. split; [now apply nodup_b_sound|].
  intros k Hk Hi. apply in_map_iff in Hk. destruct Hk as [[k' v] [<- Hin]]. rewrite forallb_forall in H2.
  specialize (H2 (k', v) Hin). cbn [fst] in *. apply negb_true_iff in H2. apply mem_In in Hi. congruence.
Qed.

Theorem wf_case_split c :
  wf_case c =
  wfsrc_b (k_src c) && forallb out_ok (s_nodes (k_src c)) && topo_ok (k_src c) && twins_fresh_b (k_src c)
  && tuple_positional_b (k_src c) && outputs_wf_b (k_src c) (k_outputs c) && with_ok_b (k_with c).
Proof.
  unfold wf_case, wfsrc_b, topo_ok, twins_fresh_b, tuple_positional_b, outputs_wf_b, with_ok_b, flagged.
  rewrite edge_pairs_distinct_pairs, reserved_names_inames.
  rewrite (forallb_ext' _ out_ok (s_nodes (k_src c)) xorb_out_ok).
  cbv zeta.
  repeat match goal with |- context [nodup_b ?l] => generalize (nodup_b l); intro end.
  repeat match goal with |- context [forallb ?f ?l] => generalize (forallb f l); intro end.
  repeat match goal with |- context [pairs_nodup_b ?l] => generalize (pairs_nodup_b l); intro end.
  btauto.
Qed.

(** ---- [wf_case] gives every hypothesis of [generate_succeeds] but the stochastic one ---- *)
Theorem wf_case_hyps c :
  wf_case c = true ->
  wfsrc (k_src c)
  /\ forallb out_ok (s_nodes (k_src c)) = true
  /\ topo_ok (k_src c) = true
  /\ twins_fresh (k_src c)
  /\ tuple_positional (k_src c)
  /\ outputs_wf (k_src c) (k_outputs c)
  /\ NoDup (map fst (k_with c))
  /\ (forall k, In k (map fst (k_with c)) -> ~ In k inames).
Proof.
  rewrite wf_case_split. intros H.
  apply andb_true_iff in H. destruct H as [H HW].
  apply andb_true_iff in H. destruct H as [H HO].
  apply andb_true_iff in H. destruct H as [H HP].
  apply andb_true_iff in H. destruct H as [H HT].
  apply andb_true_iff in H. destruct H as [H Htopo].
  apply andb_true_iff in H. destruct H as [Hwfb Hout].
  pose proof (wfsrc_b_sound _ Hwfb) as Hwf.
  destruct (with_ok_b_sound _ HW) as [HW1 HW2].
  split; [exact Hwf|]. repeat split; try assumption.
  - now apply twins_fresh_b_sound.
  - now apply tuple_positional_b_sound.
  - exact (outputs_wf_b_sound _ _ (wf_nodup _ Hwf) HO).
Qed.

(** ================================================================================== *)
(** ---- the model's own result as an implementation result ---- *)
Definition model_result (c : case) : impl_result :=
  match generate (k_src c) (k_outputs c) (k_with c) with
  | Ok (out, log) => ImplOk out (op_log (k_src c) log)
  | Err _ => ImplErr
  end.

Definition with_impl (c : case) (r : impl_result) : case :=
  {| k_src := k_src c; k_outputs := k_outputs c; k_with := k_with c; k_impl := r |}.

Lemma wf_case_with_impl c r : wf_case (with_impl c r) = wf_case c.
Proof. reflexivity. Qed.

(** a [wf_case] whose observed data depends on no stochastic node runs *)
Theorem wf_case_generate_succeeds c :
  wf_case c = true -> stochastic_observed (k_src c) = false ->
  exists out log, generate (k_src c) (k_outputs c) (k_with c) = Ok (out, log).
Proof.
  intros Hwf Hso. destruct (wf_case_hyps c Hwf) as [H1 [H2 [H3 [H4 [H5 [H6 [H7 H8]]]]]]].
  now apply generate_succeeds.
Qed.

(** the model refuses only malformed graphs or stochastic observed data *)
Theorem model_refusal_ok c e :
  generate (k_src c) (k_outputs c) (k_with c) = Err e ->
  ok {| k_src := k_src c; k_outputs := k_outputs c; k_with := k_with c; k_impl := ImplErr |} = true.
Proof.
  intros Hg. unfold ok. cbn [k_impl k_src]. change (wf_case _) with (wf_case c).
  destruct (wf_case c) eqn:Hwf; [|reflexivity].
  destruct (stochastic_observed (k_src c)) eqn:Hso; [reflexivity|].
  destruct (wf_case_generate_succeeds c Hwf Hso) as [out [log Hok]]. congruence.
Qed.

(** [ok] on the model's own result: always on a refusal, and on a success under the (decidable)
    hypotheses of [model_ok] -- a part of [wf_case] *)
Definition model_pre (c : case) : bool :=
  wfsrc_b (k_src c) && outputs_wf_b (k_src c) (k_outputs c) && with_ok_b (k_with c).

Lemma wf_case_model_pre c : wf_case c = true -> model_pre c = true.
Proof.
  rewrite wf_case_split. unfold model_pre. rewrite !andb_true_iff. tauto.
Qed.

Theorem model_ok_total c :
  (forall out log, generate (k_src c) (k_outputs c) (k_with c) = Ok (out, log) -> model_pre c = true) ->
  ok (with_impl c (model_result c)) = true.
Proof.
  intros Hpre. unfold model_result.
  destruct (generate (k_src c) (k_outputs c) (k_with c)) as [[out log]|e] eqn:Hg.
  - specialize (Hpre out log eq_refl). unfold model_pre in Hpre.
    apply andb_true_iff in Hpre. destruct Hpre as [Hpre HW].
    apply andb_true_iff in Hpre. destruct Hpre as [Hwfb HO].
    pose proof (wfsrc_b_sound _ Hwfb) as Hwf. destruct (with_ok_b_sound _ HW) as [HW1 HW2].
    apply model_ok; try assumption. exact (outputs_wf_b_sound _ _ (wf_nodup _ Hwf) HO).
  - exact (model_refusal_ok c e Hg).
Qed.

(** in particular for every [wf_case], whatever the model does *)
Corollary model_ok_wf c : wf_case c = true -> ok (with_impl c (model_result c)) = true.
Proof. intros H. apply model_ok_total. intros _ _ _. now apply wf_case_model_pre. Qed.

(** and for every [wf_case] the model's result is a success exactly when there is no stochastic
    observed data *)
Corollary model_result_wf c :
  wf_case c = true ->
  (stochastic_observed (k_src c) = false <-> exists out log, model_result c = ImplOk out log).
Proof.
  intros Hwf. split.
  - intros Hso. destruct (wf_case_generate_succeeds c Hwf Hso) as [out [log Hg]].
    unfold model_result. rewrite Hg. eauto.
  - intros [out [log Hm]]. pose proof (model_ok_wf c Hwf) as Hok. rewrite Hm in Hok.
    unfold ok in Hok. cbn [k_impl with_impl k_src] in Hok.
    destruct (stochastic_observed (k_src c)); [discriminate | reflexivity].
Qed.

(** ================================================================================== *)
(** ---- without the hypotheses of [model_ok] the success branch can fail [ok] ----
    (1) a supplied value under a reserved runtime name: the loaders let it replace the batch size
        the operation receives, the user-level meaning [den] hands the operation [VBatch];
    (2) two supplied values under one key (not a Python dict): the pool loader keeps the last,
        [den] reads the first.  Both cases are not [wf_case]; a refusal would pass [ok]. *)
Definition rk_st : sstate :=
  {| s_output := None; s_has_op := true; s_stochastic := false; s_observable := false; s_uses_observed := false;
     s_uses_batch_size := true; s_uses_meta := false; s_parameter := false; s_opid := "a"%string |}.
Definition rk_case : case :=
  {| k_src := {| s_nodes := [("a"%string, rk_st)]; s_edges := []; s_observed := [] |};
     k_outputs := ["a"%string]; k_with := [("_batch_size"%string, VConst 7)]; k_impl := ImplErr |}.
Definition dk_case : case :=
  {| k_src := {| s_nodes := [("a"%string, np_st None true false "a"%string)]; s_edges := []; s_observed := [] |};
     k_outputs := ["a"%string]; k_with := [("a"%string, VConst 1); ("a"%string, VConst 2)]; k_impl := ImplErr |}.

Example model_ok_unconditional_false :
  (model_result rk_case = ImplOk [("a"%string, VApp (OpUser "a"%string) [] [("batch_size"%string, VConst 7)])] ["a"%string]
   /\ den_name (k_src rk_case) (k_with rk_case) "a"%string
      = Some (VApp (OpUser "a"%string) [] [("batch_size"%string, VBatch)])
   /\ wf_case rk_case = false
   /\ ok (with_impl rk_case (model_result rk_case)) = false
   /\ ok (with_impl rk_case ImplErr) = true)
  /\ (model_result dk_case = ImplOk [("a"%string, VConst 2)] []
      /\ den_name (k_src dk_case) (k_with dk_case) "a"%string = Some (VConst 1)
      /\ wf_case dk_case = false
      /\ ok (with_impl dk_case (model_result dk_case)) = false
      /\ ok (with_impl dk_case ImplErr) = true).
Proof. vm_compute. repeat split; reflexivity. Qed.

Corollary model_ok_needs_hyps : ~ (forall c, ok (with_impl c (model_result c)) = true).
Proof.
  intros H. specialize (H rk_case).
  destruct model_ok_unconditional_false as [[_ [_ [_ [E _]]]] _]. congruence.
Qed.

(** ================================================================================== *)
(** ---- the first version of [wf_case] / [ok], and monotonicity ---- *)
Definition wf_case_old (c : case) : bool :=
  let src := k_src c in
  let ns := s_nodes src in
  nodup_b (map fst ns)
  && forallb (fun x : name * sstate =>
                xorb (match s_output (snd x) with Some _ => true | None => false end) (s_has_op (snd x))) ns
  && forallb (fun e => has (e_src e) ns && has (e_dst e) ns) (s_edges src)
  && forallb (fun x : name * sstate =>
                if s_observable (snd x) || s_uses_observed (snd x) then negb (has (observed_name (fst x)) ns) else true) ns
  && (let t := topo_order src in
      forallb (fun n => forallb (fun pp : name * param => mem (fst pp) (firstn_before n t)) (preds (s_edges src) n)) t)
  && forallb (fun o => has o ns
                       || existsb (fun x : name * sstate =>
                                     String.eqb (observed_name (fst x)) o
                                     && (s_observable (snd x) || s_uses_observed (snd x))) ns)
             (k_outputs c).

Definition ok_old (c : case) : bool :=
  match k_impl c with
  | ImplErr => negb (wf_case_old c) || stochastic_observed (k_src c)
  | ImplOk iout ilog =>
      negb (stochastic_observed (k_src c))
      && forallb (fun nv : name * value =>
                    match den_name (k_src c) (k_with c) (fst nv) with
                    | Some v => value_eqb v (snd nv)
                    | None => false
                    end) iout
      && names_eqb (map fst iout) (sort_names (dedup_names (k_outputs c)))
      && same_multiset ilog (op_log (k_src c) (needed_ops (k_src c) (k_with c) (k_outputs c)))
  end.

(** [wf_case] keeps every conjunct of the first version *)
Theorem wf_case_stronger c : wf_case c = true -> wf_case_old c = true.
Proof.
  unfold wf_case, wf_case_old. cbv zeta. intros H.
  do 8 (apply andb_true_iff in H; destruct H as [H _]). exact H.
Qed.

(** on an accepted run nothing changed *)
Theorem ok_accepted_unchanged c out log : k_impl c = ImplOk out log -> ok c = ok_old c.
Proof. intros H. unfold ok, ok_old. rewrite H. reflexivity. Qed.

(** on a refused run [ok] only became weaker; so a recorded case that passed still passes *)
Theorem ok_monotone c : ok_old c = true -> ok c = true.
Proof.
  unfold ok, ok_old. destruct (k_impl c); [|exact (fun H => H)].
  intros H. apply orb_true_iff in H. apply orb_true_iff. destruct H as [H|H]; [left | now right].
  apply negb_true_iff in H. apply negb_true_iff. destruct (wf_case c) eqn:E; [|reflexivity].
  apply wf_case_stronger in E. congruence.
Qed.

(** the refusal of [np_src] (named parent of an args_to_tuple twin): rejected by the first version,
    accepted now *)
Example tuple_named_parent_old :
  let c := {| k_src := np_src; k_outputs := ["d"%string]; k_with := []; k_impl := ImplErr |} in
  generate np_src ["d"%string] [] = Err (EBadCall "_d_observed"%string)
  /\ wf_case_old c = true /\ ok_old c = false
  /\ wf_case c = false /\ tuple_positional_b np_src = false /\ ok c = true.
Proof. vm_compute. repeat split; reflexivity. Qed.
