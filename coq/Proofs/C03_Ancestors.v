(** Completeness of the ancestor computation (nx.ancestors as modelled by [ancestors_incl]): the
    result contains the roots and is closed under taking the source of an edge. *)
From Coq Require Import List String ZArith Arith Bool Lia.
From Elfi Require Import Graph.Net Proofs.C03_Exec.
Import ListNotations.

Definition anc_f (a : list name) (e : edge) : list name :=
  if mem (e_dst e) a && negb (mem (e_src e) a) then a ++ [e_src e] else a.

Lemma anc_step_fold es acc : anc_step es acc = fold_left anc_f es acc.
Proof. reflexivity. Qed.

Lemma anc_f_incl a e x : In x a -> In x (anc_f a e).
Proof. unfold anc_f. destruct (_ && _); [intros H; apply in_app_iff; now left | auto]. Qed.

Lemma anc_fold_incl : forall l a x, In x a -> In x (fold_left anc_f l a).
Proof. induction l as [|e l IH]; intros a x H; simpl; [exact H|]. apply IH. now apply anc_f_incl. Qed.

Lemma anc_f_length a e : List.length a <= List.length (anc_f a e).
Proof. unfold anc_f. destruct (_ && _); [rewrite app_length; simpl; lia | lia]. Qed.

Lemma anc_fold_length : forall l a, List.length a <= List.length (fold_left anc_f l a).
Proof.
  induction l as [|e l IH]; intros a; simpl; [lia|].
  pose proof (anc_f_length a e). pose proof (IH (anc_f a e)). lia.
Qed.

(** a pass that does not grow the set found it closed *)
Lemma anc_fold_stable : forall l a,
  List.length (fold_left anc_f l a) = List.length a ->
  forall e, In e l -> mem (e_dst e) a = true -> mem (e_src e) a = true.
Proof.
  induction l as [|e0 l IH]; intros a Hlen e He Hd; [destruct He|]. simpl in Hlen.
  pose proof (anc_f_length a e0) as H1. pose proof (anc_fold_length l (anc_f a e0)) as H2.
  assert (Hsame : anc_f a e0 = a).
  { unfold anc_f in *. destruct (mem (e_dst e0) a && negb (mem (e_src e0) a)); [|reflexivity].
    rewrite app_length in *. simpl in *. lia. }
  destruct He as [->|He].
  - unfold anc_f in Hsame. rewrite Hd in Hsame. simpl in Hsame.
    destruct (mem (e_src e) a); [reflexivity|]. simpl in Hsame.
    exfalso. assert (List.length (a ++ [e_src e]) = List.length a) by now rewrite Hsame.
    rewrite app_length in H. simpl in H. lia.
  - rewrite Hsame in Hlen. now apply (IH a Hlen e He).
Qed.

(** a pass that grows the set closes at least one edge whose source was outside *)
Lemma anc_fold_grows : forall l a,
  List.length (fold_left anc_f l a) <> List.length a ->
  exists e, In e l /\ mem (e_src e) a = false /\ In (e_src e) (fold_left anc_f l a).
Proof.
  induction l as [|e0 l IH]; intros a Hlen; simpl in *; [congruence|].
  destruct (mem (e_dst e0) a && negb (mem (e_src e0) a)) eqn:E.
  - exists e0. split; [now left|]. apply andb_true_iff in E. destruct E as [E1 E2].
    split; [now destruct (mem (e_src e0) a)|].
    apply anc_fold_incl. unfold anc_f. rewrite E1, E2. simpl. apply in_app_iff. right. now left.
  - assert (Hsame : anc_f a e0 = a) by (unfold anc_f; now rewrite E).
    rewrite Hsame in *. destruct (IH a Hlen) as [e [He [Hs Hin]]].
    exists e. split; [now right|]. split; assumption.
Qed.

Definition count_open (es : list edge) (acc : list name) : nat :=
  List.length (filter (fun e => negb (mem (e_src e) acc)) es).

Lemma filter_length_le {A} (f g : A -> bool) l :
  (forall x, In x l -> f x = true -> g x = true) -> List.length (filter f l) <= List.length (filter g l).
Proof.
  induction l as [|x r IH]; intros H; simpl; [lia|].
  assert (Hr : forall y, In y r -> f y = true -> g y = true) by (intros y Hy; apply H; now right).
  specialize (IH Hr). destruct (f x) eqn:Ef.
  - rewrite (H x (or_introl eq_refl) Ef). simpl. lia.
  - destruct (g x); simpl; lia.
Qed.

Lemma filter_length_lt {A} (f g : A -> bool) l :
  (forall x, In x l -> f x = true -> g x = true) ->
  (exists x, In x l /\ g x = true /\ f x = false) ->
  List.length (filter f l) < List.length (filter g l).
Proof.
  induction l as [|x r IH]; intros H [y [Hy [Hg Hf]]]; [destruct Hy|]. simpl.
  assert (Hr : forall z, In z r -> f z = true -> g z = true) by (intros z Hz; apply H; now right).
  destruct Hy as [->|Hy].
  - rewrite Hf, Hg. simpl. pose proof (filter_length_le f g r Hr). lia.
  - assert (IH' : List.length (filter f r) < List.length (filter g r)) by (apply IH; eauto).
    destruct (f x) eqn:Ef.
    + rewrite (H x (or_introl eq_refl) Ef). simpl. lia.
    + destruct (g x); simpl; lia.
Qed.

Lemma count_open_decreases es acc :
  List.length (anc_step es acc) <> List.length acc ->
  count_open es (anc_step es acc) < count_open es acc.
Proof.
  intros Hlen. rewrite anc_step_fold in *. unfold count_open.
  destruct (anc_fold_grows es acc Hlen) as [e [He [Hs Hin]]].
  apply filter_length_lt.
  - intros x _ Hx. apply negb_true_iff in Hx. apply negb_true_iff.
    destruct (mem (e_src x) acc) eqn:Em; [|reflexivity].
    apply mem_In in Em. apply (anc_fold_incl es acc) in Em. apply mem_In in Em. congruence.
  - exists e. split; [exact He|]. split; [now rewrite Hs|].
    apply negb_false_iff. now apply mem_In.
Qed.

Definition closed (es : list edge) (acc : list name) : Prop :=
  forall e, In e es -> In (e_dst e) acc -> In (e_src e) acc.

Lemma anc_iter_closed es : forall fuel acc,
  count_open es acc < fuel -> closed es (anc_iter fuel es acc).
Proof.
  induction fuel as [|f IH]; intros acc Hc; [lia|]. simpl.
  destruct (Nat.eqb (List.length (anc_step es acc)) (List.length acc)) eqn:E.
  - apply Nat.eqb_eq in E. intros e He Hd. apply mem_In. apply mem_In in Hd.
    rewrite anc_step_fold in E. exact (anc_fold_stable es acc E e He Hd).
  - apply Nat.eqb_neq in E. apply IH. pose proof (count_open_decreases es acc E). lia.
Qed.

Lemma anc_iter_incl es : forall fuel acc x, In x acc -> In x (anc_iter fuel es acc).
Proof.
  induction fuel as [|f IH]; intros acc x H; simpl; [exact H|].
  destruct (Nat.eqb _ _); [exact H|]. apply IH. rewrite anc_step_fold. now apply anc_fold_incl.
Qed.

Lemma In_dedup_names l x : In x l -> In x (dedup_names l).
Proof.
  induction l as [|y r IH]; intros H; [destruct H|]. simpl. destruct (mem y r) eqn:Em.
  - destruct H as [->|H]; [apply IH; now apply mem_In | now apply IH].
  - destruct H as [->|H]; [now left | right; now apply IH].
Qed.

(** the ancestor set contains the roots and every source of an edge into it *)
Theorem ancestors_incl_complete es roots :
  (forall r, In r roots -> In r (ancestors_incl es roots)) /\ closed es (ancestors_incl es roots).
Proof.
  unfold ancestors_incl. split.
  - intros r Hr. apply anc_iter_incl. now apply In_dedup_names.
  - apply anc_iter_closed. unfold count_open.
    pose proof (filter_length_le (fun e => negb (mem (e_src e) (dedup_names roots))) (fun _ => true) es (fun _ _ _ => eq_refl)) as H.
    assert (Hall : filter (fun _ : edge => true) es = es) by (clear; induction es; simpl; congruence).
    rewrite Hall in H. lia.
Qed.
